(* Proofs about model/VolumeCrash.v (C03), part 3: the crash-safety statement, its proof at
   every crash point that write order allows, the two findings (refuted full statements with
   their partial versions), and concrete crash points. *)
From Coq Require Import List NArith ZArith Bool Lia ZifyBool ZifyN ZifyNat.
From SW Require Import model.Needle proof.NeedleProofs model.VolumeCrash proof.VolumeCrashProofs
  proof.VolumeCrashLoad proof.VolumeCrashSim proof.VolumeCrashSpec.
Import ListNotations.
Local Open Scope N_scope.
Ltac Zify.zify_post_hook ::= Z.div_mod_to_equations.

Arguments N.add : simpl never.
Arguments N.mul : simpl never.
Arguments N.div : simpl never.
Arguments N.modulo : simpl never.
Arguments N.sub : simpl never.
Arguments N.pow : simpl never.
Arguments N.ltb : simpl never.
Arguments N.leb : simpl never.
Arguments N.eqb : simpl never.
Arguments Z.of_N : simpl never.
Arguments Z.to_N : simpl never.
Arguments Z.ltb : simpl never.
Arguments Z.eqb : simpl never.

(* The property at one crash point of history [h]: the volume comes up, writable; and from then
   on it is indistinguishable from the volume that ran [h1] -- the operations whose index
   entries survived -- and never stopped: after ANY further operations [h'] (fresh keys,
   overwrites, rewrites of deleted keys, deletes, refused writes ...) every key reads exactly as
   in the running volume after [h1 ++ h'], and every further operation is answered as the
   running volume answers it.  (h' = [] : blobs that reached both files come back with their
   content and deleted ones stay deleted.)  Keys for which [dirty] holds at the crash point are
   exempt. *)
Definition crash_safe_upto (dirty : pstate -> N -> bool) (crc : list N -> N) (h : list op) (dcut icut : N) : Prop :=
  exists h1 h2 L,
    h = h1 ++ h2 /\ len (p_idx (p_run h1)) = icut / NeedleMapEntrySize /\
    load crc (crash (p_run h) dcut icut) = Loaded L /\ l_nwod L = false /\
    forall h', Forall (wf_any crc) h' ->
      (forall k, dirty (p_run h1) k = false ->
         l_read crc (l_after crc L h') k = p_read (p_run (h1 ++ h')) k) /\
      (forall o, wf_any crc o -> dirty (p_run h1) (op_key o) = false ->
         snd (l_step crc (l_after crc L h') o) = p_res (p_run (h1 ++ h')) o).

(* no key exempt *)
Definition crash_safe_at : (list N -> N) -> list op -> N -> N -> Prop := crash_safe_upto (fun _ _ => false).

Lemma p_run_app : forall h1 h2, p_run (h1 ++ h2) = fold_left p_step h2 (p_run h1).
Proof. intros. unfold p_run. apply fold_left_app. Qed.

Lemma len_idx_of : forall l, len (idx_of l) = len l.
Proof. intros. unfold idx_of, len. rewrite map_length. reflexivity. Qed.

Section WithCrc.
  Variable crc : list N -> N.

  (* every number of index entries is the index length of some prefix of the history *)
  Lemma split_at_index : forall h ie, Forall (wf_any crc) h -> ie <= len (p_idx (p_run h)) ->
    exists h1 h2, h = h1 ++ h2 /\ len (p_idx (p_run h1)) = ie.
  Proof.
    induction h as [|o h IH] using rev_ind; intros ie Hwf Hle.
    - exists [], []. split; [reflexivity|]. cbn in *. lia.
    - apply Forall_app in Hwf. destruct Hwf as [Hwf Ho]. inversion Ho as [|? ? Hwo _]; subst.
      pose proof (inv_run crc h Hwf) as HI.
      rewrite p_run_app in Hle. cbn [fold_left] in Hle.
      destruct (step_extends crc (p_run h) o HI) as [X [Y [Z [_ [EY [_ [HY _]]]]]]].
      destruct (N.le_gt_cases ie (len (p_idx (p_run h)))) as [Hsmall|Hbig].
      + destruct (IH ie Hwf Hsmall) as [h1 [h2 [E1 E2]]].
        exists h1, (h2 ++ [o]). split; [rewrite E1, app_assoc; reflexivity|assumption].
      + exists (h ++ [o]), []. split; [rewrite app_nil_r; reflexivity|].
        rewrite p_run_app. cbn [fold_left]. rewrite EY in *. rewrite len_app in *. unfold len in *. lia.
  Qed.

  Lemma rec_end_pos : forall st i, i <> 0 ->
    rec_end st i = match nth_error (p_recs st) (N.to_nat (N.pred i)) with
                   | Some (off, r) => off + len (encode Ver (a_n r))
                   | None => len (p_dat st)
                   end.
  Proof. intros st i H. destruct i; [congruence|reflexivity]. Qed.

  (* the end of the last record that the prefix [st1] knows about *)
  Lemma rec_end_prefix : forall st1 st Z, Inv crc st1 -> p_recs st = p_recs st1 ++ Z ->
    rec_end st (len (p_recs st1)) = len (p_dat st1).
  Proof.
    intros st1 st Z HI HZ.
    destruct (snoc_case _ (p_recs st1)) as [Hnil|[l' [[o r] Hs]]].
    - rewrite Hnil. cbn [len length N.of_nat rec_end]. rewrite (inv_dat crc st1 HI), Hnil. reflexivity.
    - rewrite Hs. unfold len at 1. rewrite app_length. cbn [length].
      replace (N.of_nat (length l' + 1)) with (N.succ (N.of_nat (length l'))) by lia.
      rewrite rec_end_pos by lia.
      replace (N.to_nat (N.pred (N.succ (N.of_nat (length l'))))) with (length l') by lia.
      rewrite HZ, Hs, <- app_assoc, nth_error_app2 by lia. rewrite Nat.sub_diag. cbn [app nth_error].
      pose proof (inv_lay crc st1 HI) as Hl. rewrite Hs in Hl. apply lay_app in Hl. destruct Hl as [_ [Ho _]].
      rewrite (inv_dat crc st1 HI), Hs, len_dat_of, cat_app, len_app. cbn [cat map concat snd]. rewrite app_nil_r. lia.
  Qed.

  (* ---------- what comes up at a crash point that write order allows ---------- *)
  (* for either needle map kind: the whole surviving index [p_idx (p_run h1)], the map replayed
     from it, a writable volume, a data file that still starts with the data file of [p_run h1]
     -- and IS that data file unless [garbage_cut] *)
  Lemma reopen_core : forall kind h dcut icut, Forall (wf_any crc) h ->
    admissible (p_run h) dcut icut = true ->
    exists h1 h2 D,
      h = h1 ++ h2 /\ len (p_idx (p_run h1)) = icut / NeedleMapEntrySize /\
      load_k crc kind (crash (p_run h) dcut icut)
        = Loaded {| l_dat := D; l_idx := p_idx (p_run h1); l_map := load_map kind (p_idx (p_run h1)); l_nwod := false |} /\
      good_dat (p_run h1) D /\
      (garbage_cut dcut icut = false -> d_bytes D = p_dat (p_run h1) /\ d_fsize D = len (p_dat (p_run h1))).
  Proof.
    intros kind h dcut icut Hwf Hadm.
    unfold admissible in Hadm.
    remember (icut / NeedleMapEntrySize) as ie eqn:Eie.
    apply andb_true_iff in Hadm. destruct Hadm as [Hadm Hend]. apply andb_true_iff in Hadm. destruct Hadm as [Hicut Hdcut].
    assert (Hie : ie <= len (p_idx (p_run h))) by (unfold NeedleMapEntrySize in *; lia).
    destruct (split_at_index h ie Hwf Hie) as [h1 [h2 [Hh Hlen]]].
    pose proof Hwf as Hwf'. rewrite Hh in Hwf'. apply Forall_app in Hwf'. destruct Hwf' as [Hwf1 Hwf2].
    pose proof (inv_run crc h1 Hwf1) as HI1.
    set (st1 := p_run h1) in *. set (st := p_run h) in *.
    assert (Hst : st = fold_left p_step h2 st1) by (unfold st, st1; rewrite Hh; apply p_run_app).
    destruct (fold_extends crc h2 st1 HI1 Hwf2) as [X [Y [Z [EX [EY EZ]]]]]. rewrite <- Hst in EX, EY, EZ.
    assert (Hrl : len (p_recs st1) = ie) by (rewrite <- Hlen, (inv_idx crc st1 HI1), len_idx_of; reflexivity).
    pose proof (rec_end_prefix st1 st Z HI1 EZ) as Hre. rewrite Hrl in Hre.
    assert (Hge : len (p_dat st1) <= dcut) by lia.
    set (T := takeN (dcut - len (p_dat st1)) X).
    set (torn := if ie <? len (p_idx st) then icut mod NeedleMapEntrySize else 0).
    assert (Hcrash : crash st dcut icut = {| f_dat := p_dat st1 ++ T; f_idx := p_idx st1; f_torn := torn |}).
    { unfold crash, crash_e, cut_files. rewrite <- Eie. f_equal.
      - rewrite EX. apply takeN_app_ge. assumption.
      - rewrite EY. apply takeN_app. assumption. }
    destruct (load_core crc kind st1 T torn HI1) as [D [Hload [HD Hex]]].
    exists h1, h2, D.
    split; [assumption|]. split; [rewrite <- Eie; exact Hlen|]. split; [rewrite Hcrash; assumption|]. split; [assumption|].
    intros Hg. apply Hex. unfold garbage_cut in Hg. rewrite <- Eie in Hg.
    destruct (ie =? 0) eqn:E0.
    - right. destruct (len_dat_ge8 crc st1 HI1) as [H8 _]. unfold SuperBlockSize in Hg.
      unfold T. replace (dcut - len (p_dat st1)) with 0 by lia. apply takeN_0.
    - left. intros Hnil. rewrite Hnil in Hrl. cbn in Hrl. lia.
  Qed.

  (* ---------- the property at every admissible crash point, per key ---------- *)
  (* PARTIAL (finding 0): every key that is not bound to an empty blob when the volume stops *)
  Theorem crash_safe_partial : forall h dcut icut, Forall (wf_any crc) h ->
    admissible (p_run h) dcut icut = true ->
    crash_safe_upto empty_live crc h dcut icut.
  Proof.
    intros h dcut icut Hwf Hadm.
    destruct (reopen_core KMemory h dcut icut Hwf Hadm) as [h1 [h2 [D [Hh [Hlen [Hload [HD _]]]]]]].
    assert (Hwf1 : Forall (wf_any crc) h1) by (rewrite Hh in Hwf; apply Forall_app in Hwf; tauto).
    pose proof (inv_run crc h1 Hwf1) as HI1.
    exists h1, h2, {| l_dat := D; l_idx := p_idx (p_run h1); l_map := load_compact (p_idx (p_run h1)); l_nwod := false |}.
    split; [assumption|]. split; [assumption|]. split; [exact Hload|]. split; [reflexivity|].
    intros h' Hwf'. rewrite p_run_app.
    pose proof (sim_reopen crc (p_run h1) D (p_idx (p_run h1)) HI1 HD) as HS0.
    pose proof (sim_after crc _ h' _ _ HS0 Hwf') as HS.
    split.
    - intros k Hk. apply (sim_read crc _ _ _ k HS Hk).
    - intros o Ho Hk. apply (sim_step crc _ _ _ o HS Ho). assumption.
  Qed.

  (* FULL, for histories that store no empty blob: no key is exempt *)
  Theorem crash_safe : forall h dcut icut, Forall (wf_op crc) h ->
    admissible (p_run h) dcut icut = true ->
    crash_safe_at crc h dcut icut.
  Proof.
    intros h dcut icut Hwf Hadm.
    destruct (crash_safe_partial h dcut icut (wf_ops_any crc h Hwf) Hadm) as [h1 [h2 [L [Hh [Hlen [Hload [Hn Hc]]]]]]].
    assert (Hwf1 : Forall (wf_op crc) h1) by (rewrite Hh in Hwf; apply Forall_app in Hwf; tauto).
    exists h1, h2, L. split; [assumption|]. split; [assumption|]. split; [assumption|]. split; [assumption|].
    intros h' Hwf'. destruct (Hc h' Hwf') as [Hr Hs]. split.
    - intros k _. apply Hr. apply no_empty_live. assumption.
    - intros o Ho _. apply Hs; [assumption|]. apply no_empty_live. assumption.
  Qed.

  (* ... in terms of the operations: after the reopen and any further operations the volume
     answers every key as the operation-level specification says after h1 ++ h' *)
  Theorem crash_safe_per_spec : forall h dcut icut, Forall (wf_op crc) h ->
    admissible (p_run h) dcut icut = true ->
    exists h1 h2 L, h = h1 ++ h2 /\ snd (s_run h1) = icut / NeedleMapEntrySize /\
      load crc (crash (p_run h) dcut icut) = Loaded L /\ l_nwod L = false /\
      forall h', Forall (wf_any crc) h' ->
        forall k, l_read crc (l_after crc L h') k = s_read (fst (s_run (h1 ++ h'))) k.
  Proof.
    intros h dcut icut Hwf Ha.
    destruct (crash_safe h dcut icut Hwf Ha) as [h1 [h2 [L [Hh [Hlen [Hl [Hn Hc]]]]]]].
    assert (Hwf1 : Forall (wf_any crc) h1) by (apply wf_ops_any; rewrite Hh in Hwf; apply Forall_app in Hwf; tauto).
    destruct (running_reads_spec crc h1 Hwf1) as [Hs1 _].
    exists h1, h2, L. split; [assumption|]. split; [rewrite Hs1; assumption|]. split; [assumption|].
    split; [assumption|]. intros h' Hwf' k. destruct (Hc h' Hwf') as [Hr _]. rewrite (Hr k eq_refl).
    apply running_reads_spec. apply Forall_app. split; assumption.
  Qed.

  (* ---------- LevelDB needle map: the same, with "deleted" and "unknown" identified ---------- *)
  Theorem crash_safe_leveldb_partial : forall h dcut icut, Forall (wf_any crc) h ->
    admissible (p_run h) dcut icut = true ->
    exists h1 h2 L, h = h1 ++ h2 /\ len (p_idx (p_run h1)) = icut / NeedleMapEntrySize /\
      load_k crc KLevelDb (crash (p_run h) dcut icut) = Loaded L /\ l_nwod L = false /\
      forall k, empty_live (p_run h1) k = false -> l_read crc L k = absent_norm (p_read (p_run h1) k).
  Proof.
    intros h dcut icut Hwf Hadm.
    destruct (reopen_core KLevelDb h dcut icut Hwf Hadm) as [h1 [h2 [D [Hh [Hlen [Hload [HD _]]]]]]].
    assert (Hwf1 : Forall (wf_any crc) h1) by (rewrite Hh in Hwf; apply Forall_app in Hwf; tauto).
    pose proof (inv_run crc h1 Hwf1) as HI1.
    eexists h1, h2, _. split; [assumption|]. split; [assumption|]. split; [exact Hload|]. split; [reflexivity|].
    intros k Hk. cbn [load_map].
    rewrite (ldb_read crc D (p_idx (p_run h1)) (p_idx (p_run h1)) false false (p_idx (p_run h1)) k).
    f_equal. pose proof (sim_reopen crc (p_run h1) D (p_idx (p_run h1)) HI1 HD) as HS0.
    apply (sim_read crc _ _ _ k HS0 Hk).
  Qed.

  (* ---------- the files themselves; a second stop ---------- *)
  (* PARTIAL (finding 1): unless nothing of the index survives while bytes lie behind the super
     block, both files of the reopened volume ARE the files of the volume that ran h1 (so a scan
     of the data file visits exactly the records of h1) ... *)
  Theorem reopen_files_exact : forall h dcut icut, Forall (wf_any crc) h ->
    admissible (p_run h) dcut icut = true -> garbage_cut dcut icut = false ->
    exists h1 h2 L, h = h1 ++ h2 /\ len (p_idx (p_run h1)) = icut / NeedleMapEntrySize /\
      load crc (crash (p_run h) dcut icut) = Loaded L /\ files_eq L (p_run h1).
  Proof.
    intros h dcut icut Hwf Hadm Hg.
    destruct (reopen_core KMemory h dcut icut Hwf Hadm) as [h1 [h2 [D [Hh [Hlen [Hload [HD Hex]]]]]]].
    destruct (Hex Hg) as [Hb Hf].
    eexists h1, h2, _. split; [assumption|]. split; [assumption|]. split; [exact Hload|].
    unfold files_eq. cbn [l_dat l_idx]. auto.
  Qed.

  (* ... and stay so under every further operation when the history stores no empty blob: the
     reopened volume that then served h' holds byte for byte the files of a volume that ran
     h1 ++ h' without stopping.  A second stop is therefore a first stop of that volume, and
     [crash_safe] applies to it again. *)
  Theorem reopen_files_exact_after : forall h dcut icut, Forall (wf_op crc) h ->
    admissible (p_run h) dcut icut = true -> garbage_cut dcut icut = false ->
    exists h1 h2 L, h = h1 ++ h2 /\ len (p_idx (p_run h1)) = icut / NeedleMapEntrySize /\
      load crc (crash (p_run h) dcut icut) = Loaded L /\
      forall h', Forall (wf_any crc) h' -> files_eq (l_after crc L h') (p_run (h1 ++ h')).
  Proof.
    intros h dcut icut Hwf Hadm Hg.
    destruct (reopen_core KMemory h dcut icut (wf_ops_any crc h Hwf) Hadm) as [h1 [h2 [D [Hh [Hlen [Hload [HD Hex]]]]]]].
    destruct (Hex Hg) as [Hb Hf].
    assert (Hwf1 : Forall (wf_op crc) h1) by (rewrite Hh in Hwf; apply Forall_app in Hwf; tauto).
    pose proof (inv_run crc h1 (wf_ops_any crc h1 Hwf1)) as HI1.
    eexists h1, h2, _. split; [assumption|]. split; [assumption|]. split; [exact Hload|].
    intros h' Hwf'. rewrite p_run_app. cbn [load_map].
    pose proof (sim_reopen crc (p_run h1) D (p_idx (p_run h1)) HI1 HD) as HS0.
    assert (HS1 : SimLP crc (fun _ => false)
              {| l_dat := D; l_idx := p_idx (p_run h1); l_map := load_compact (p_idx (p_run h1)); l_nwod := false |} (p_run h1)).
    { destruct HS0 as [A1 A2 A3 A4]. constructor; try assumption.
      intros k _. apply A4. apply no_empty_live. assumption. }
    apply files_after; [assumption| |assumption].
    unfold files_eq. cbn [l_dat l_idx]. auto.
  Qed.

  Theorem second_stop_safe : forall h dcut icut, Forall (wf_op crc) h ->
    admissible (p_run h) dcut icut = true -> garbage_cut dcut icut = false ->
    exists h1 h2 L, h = h1 ++ h2 /\ load crc (crash (p_run h) dcut icut) = Loaded L /\
      forall h' d2 i2, Forall (wf_op crc) h' -> admissible (p_run (h1 ++ h')) d2 i2 = true ->
        let L' := l_after crc L h' in
        cut_files (d_bytes (l_dat L')) (l_idx L') NeedleMapEntrySize d2 i2 = crash (p_run (h1 ++ h')) d2 i2 /\
        crash_safe_at crc (h1 ++ h') d2 i2.
  Proof.
    intros h dcut icut Hwf Hadm Hg.
    destruct (reopen_files_exact_after h dcut icut Hwf Hadm Hg) as [h1 [h2 [L [Hh [_ [Hload Hf]]]]]].
    assert (Hwf1 : Forall (wf_op crc) h1) by (rewrite Hh in Hwf; apply Forall_app in Hwf; tauto).
    exists h1, h2, L. split; [assumption|]. split; [assumption|].
    intros h' d2 i2 Hwf' Hadm2. cbv zeta. split.
    - destruct (Hf h' (wf_ops_any crc h' Hwf')) as [E1 [_ E3]]. unfold crash, crash_e. rewrite E1, E3. reflexivity.
    - apply crash_safe; [apply Forall_app; split; assumption|assumption].
  Qed.

  (* ---------- the header scan of a running volume visits exactly its records ---------- *)
  Definition visit_of (p : N * arec) : N * N * N := (id (a_n (snd p)), fst p, body_size (a_n (snd p))).

  Lemma scan_hdr_cat : forall l fuel off, recs_ok crc l -> lay off l -> (length l <= fuel)%nat ->
    scan_hdr_from fuel (cat l) off = Some (map visit_of l).
  Proof.
    induction l as [|[o r] l IH]; intros fuel off Hok Hlay Hfuel.
    - destruct fuel; reflexivity.
    - destruct fuel as [|fuel]; [cbn in Hfuel; lia|]. cbn [length] in Hfuel.
      inversion Hok as [|? ? Hr Hl]; subst. cbn [snd] in Hr. destruct Hlay as [Ho Hlay]. subst o.
      cbn [scan_hdr_from]. rewrite cat_cons.
      pose proof (len_encode_ge Ver (a_n r)) as H16.
      destruct (len (encode Ver (a_n r) ++ cat l) <? NeedleHeaderSize) eqn:E1;
        [rewrite len_app in E1; unfold NeedleHeaderSize in E1; lia|].
      destruct Hr as [[Henc Hrng] _]. pose proof Hrng as [Hc [Hi [Hb31 _]]].
      assert (Hb32 : body_size (a_n r) < 2 ^ 32)
        by (change (2 ^ 32) with 4294967296; change (2 ^ 31) with 2147483648 in Hb31; lia).
      rewrite encode_split, (parse_header_bytes (a_n r) _ Hc Hi Hb32), <- encode_split.
      change (2 ^ 31) with 2147483648 in Hb31.
      replace (2147483648 <=? body_size (a_n r)) with false by lia.
      assert (Hstep : NeedleHeaderSize + body_length (body_size (a_n r)) Ver = len (encode Ver (a_n r))).
      { rewrite (len_encode Ver (a_n r) Henc). reflexivity. }
      rewrite Hstep, dropN_app by reflexivity.
      rewrite (IH fuel (off + len (encode Ver (a_n r)))); [reflexivity|assumption|assumption|lia].
  Qed.

  Lemma length_cat_ge : forall l, (length l <= length (cat l))%nat.
  Proof.
    induction l as [|[o r] l IH]; [cbn; lia|]. rewrite cat_cons, app_length. cbn [length].
    pose proof (len_encode_ge Ver (a_n r)) as H. unfold len in H. lia.
  Qed.

  Theorem scan_running : forall st, Inv crc st -> scan_hdr (p_dat st) = Some (map visit_of (p_recs st)).
  Proof.
    intros st HI. unfold scan_hdr. rewrite (inv_dat crc st HI). unfold dat_of.
    rewrite dropN_app by reflexivity. apply scan_hdr_cat.
    - apply (inv_ok crc st HI).
    - apply (inv_lay crc st HI).
    - rewrite app_length. pose proof (length_cat_ge (p_recs st)). lia.
  Qed.
End WithCrc.

(* ---------- the witnesses ---------- *)
(* hello / world!! / delete key 1 / second version: the history of harness cases 0 and 1 *)
Definition w_needle (k c : N) (d : list N) (ts : N) : needle :=
  {| cookie := c; id := k; data := d; flags := 0; name := []; mime := []; pairs_size := 0; pairs := [];
     last_modified := 0; ttl := None; checksum := toy_crc d; append_at_ns := ts |}.

Definition w_history : list op :=
  [ Write (w_needle 1 17 [104; 101; 108; 108; 111] 1000);
    Write (w_needle 2 305419896 [119; 111; 114; 108; 100; 33; 33] 2000);
    Delete 1 17 3000;
    Write (w_needle 2 305419896 [115; 101; 99; 111; 110; 100; 32; 118; 101; 114; 115; 105; 111; 110] 4000) ].

Lemma w_history_wf : Forall (wf_op toy_crc) w_history.
Proof.
  repeat constructor; try discriminate;
    unfold ranges_ok; vm_compute; repeat split; try reflexivity; discriminate.
Qed.

(* records end at 48, 96, 128 (the tombstone) and 176 *)
Lemma w_layout : map fst (p_recs (p_run w_history)) = [8; 48; 96; 128] /\ len (p_dat (p_run w_history)) = 176.
Proof. vm_compute. split; reflexivity. Qed.

Definition w_fresh : needle := w_needle 9 7 [102; 114; 101; 115; 104] 0.
