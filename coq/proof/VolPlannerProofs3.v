(* Proofs about model/VolPlanner.v (C15), part 3: the cluster, and what one
   admitted Move does to it. *)
From Coq Require Import List NArith ZArith Bool Arith Lia Permutation.
From SW Require Import model.VolPlanner proof.VolPlannerProofs proof.VolPlannerProofs2.
Import ListNotations.

(* ---------- well-formed snapshots: unique server ids, a volume id at most once per server ---------- *)
Definition wf_snap (s : snapshot) : Prop :=
  NoDup (map n_id s) /\ forall n, In n s -> NoDup (map v_id (all_vols n)).

Definition cl (s : snapshot) : list loc := map n_loc s.

Lemma NoDup_map_inj : forall {A B} (f : A -> B) l x y,
  NoDup (map f l) -> In x l -> In y l -> f x = f y -> x = y.
Proof.
  induction l as [|a l IH]; intros x y Hnd Hx Hy Hf; [destruct Hx|].
  cbn [map] in Hnd. inversion Hnd as [|? ? Hn Hd]; subst.
  destruct Hx as [->|Hx], Hy as [->|Hy]; auto.
  - exfalso. apply Hn. rewrite Hf. apply in_map; auto.
  - exfalso. apply Hn. rewrite <- Hf. apply in_map; auto.
Qed.

Lemma find_node_some : forall s id n, find_node s id = Some n -> In n s /\ n_id n = id.
Proof.
  intros s id n H. unfold find_node in H. apply find_some in H. destruct H as [H1 H2].
  apply N.eqb_eq in H2. auto.
Qed.

Lemma find_node_in : forall s n, NoDup (map n_id s) -> In n s -> find_node s (n_id n) = Some n.
Proof.
  induction s as [|a s IH]; intros n Hnd Hin; [destruct Hin|].
  unfold find_node. cbn [find]. destruct (N.eqb_spec (n_id a) (n_id n)) as [E|E].
  - f_equal. apply (NoDup_map_inj n_id (a :: s)); auto. left; auto.
  - destruct Hin as [->|Hin]; [congruence|]. apply IH; auto. inversion Hnd; auto.
Qed.

Lemma loc_of_node : forall s id, l_node (loc_of s id) = id.
Proof.
  intros s id. unfold loc_of. destruct (find_node s id) as [n|] eqn:E; [|reflexivity].
  apply find_node_some in E. apply E.
Qed.

Lemma loc_of_in : forall s n, NoDup (map n_id s) -> In n s -> loc_of s (n_id n) = n_loc n.
Proof. intros s n Hnd Hin. unfold loc_of. rewrite find_node_in; auto. Qed.

Lemma loc_of_cl : forall s l, NoDup (map n_id s) -> In l (cl s) -> loc_of s (l_node l) = l.
Proof.
  intros s l Hnd Hin. unfold cl in Hin. apply in_map_iff in Hin. destruct Hin as [n [H1 H2]].
  subst l. apply (loc_of_in s n); auto.
Qed.

Lemma ids_ok_cl : forall s, NoDup (map n_id s) -> ids_ok (cl s).
Proof.
  intros s Hnd a b Ha Hb Hab. unfold cl in *.
  apply in_map_iff in Ha. destruct Ha as [na [Ea Ha]]. apply in_map_iff in Hb. destruct Hb as [nb [Eb Hb]].
  subst. f_equal. apply (NoDup_map_inj n_id s); auto.
Qed.

Lemma ids_ok_incl : forall l l', ids_ok l -> incl l' l -> ids_ok l'.
Proof. intros l l' H Hi a b Ha Hb. apply H; auto. Qed.

(* ---------- invariants of the real cluster ---------- *)
Definition WInv (s : snapshot) (w : world) : Prop :=
  forall vid r, In r (w_reps w vid) -> In (r_loc r) (cl s).
(* no two copies of a volume on one server *)
Definition NodesOk (w : world) : Prop :=
  forall vid, NoDup (map l_node (locs (w_reps w vid))).

Lemma upd1_eq : forall {V} (f : N -> V) k v, upd1 f k v k = v.
Proof. intros. unfold upd1. rewrite N.eqb_refl. reflexivity. Qed.
Lemma upd1_neq : forall {V} (f : N -> V) k v k', k' <> k -> upd1 f k v k' = f k'.
Proof. intros. unfold upd1. destruct (N.eqb_spec k' k); [contradiction|reflexivity]. Qed.

Lemma holds_iff : forall rs n, holds rs n = true <-> In n (map l_node (locs rs)).
Proof.
  intros. unfold holds, locs. rewrite existsb_exists, map_map, in_map_iff. split.
  - intros [r [H1 H2]]. apply N.eqb_eq in H2. exists r; auto.
  - intros [r [H1 H2]]. exists r. split; auto. apply N.eqb_eq; auto.
Qed.

Lemma replica_at_unique : forall rs r, NoDup (map l_node (locs rs)) -> In r rs ->
  replica_at rs (l_node (r_loc r)) = Some r.
Proof.
  induction rs as [|a rs IH]; intros r Hnd Hin; [destruct Hin|].
  unfold replica_at. cbn [find]. cbn [locs map] in Hnd. inversion Hnd as [|? ? Hn Hd]; subst.
  destruct (N.eqb_spec (l_node (r_loc a)) (l_node (r_loc r))) as [E|E].
  - destruct Hin as [->|Hin]; auto. exfalso. apply Hn. rewrite E.
    unfold locs. rewrite map_map. apply in_map_iff. exists r; auto.
  - destruct Hin as [->|Hin]; [congruence|]. apply IH; auto.
Qed.

(* ---------- relocate on replicas ---------- *)
Lemma relocate_moved : forall fl tl v rs, NoDup (map l_node (locs rs)) ->
  In {| r_loc := fl; r_info := v |} rs -> In {| r_loc := tl; r_info := v |} (relocate fl tl rs).
Proof.
  induction rs as [|a rs IH]; intros Hnd Hin; [destruct Hin|].
  cbn [locs map] in Hnd. inversion Hnd as [|? ? Hn Hd]; subst.
  cbn [relocate]. destruct (loc_eqb (r_loc a) fl) eqn:E.
  - apply loc_eqb_eq in E. destruct Hin as [Ha|Hin].
    + subst a. left. reflexivity.
    + exfalso. apply Hn. rewrite E. unfold locs. rewrite map_map. apply in_map_iff.
      exists {| r_loc := fl; r_info := v |}. auto.
  - destruct Hin as [Ha|Hin].
    + subst a. cbn [r_loc] in E. rewrite loc_eqb_refl in E. discriminate.
    + right. apply IH; auto.
Qed.

Lemma relocate_other : forall fl tl rs r, In r rs -> r_loc r <> fl -> In r (relocate fl tl rs).
Proof.
  induction rs as [|a rs IH]; intros r Hin Hne; [destruct Hin|].
  cbn [relocate]. destruct (loc_eqb (r_loc a) fl) eqn:E.
  - apply loc_eqb_eq in E. destruct Hin as [->|Hin]; [congruence|]. right; auto.
  - destruct Hin as [->|Hin]; [left; auto|right; apply IH; auto].
Qed.

Lemma relocate_in_inv : forall fl tl rs r, In r (relocate fl tl rs) ->
  r_loc r = tl \/ In r rs.
Proof.
  induction rs as [|a rs IH]; intros r Hin; [destruct Hin|].
  cbn [relocate] in Hin. destruct (loc_eqb (r_loc a) fl).
  - destruct Hin as [<-|Hin]; [left; reflexivity|right; right; auto].
  - destruct Hin as [<-|Hin]; [right; left; auto|].
    destruct (IH r Hin) as [H|H]; [left; auto|right; right; auto].
Qed.

Lemma relocate_infos : forall fl tl rs, map r_info (relocate fl tl rs) = map r_info rs.
Proof.
  induction rs as [|a rs IH]; cbn [relocate map]; auto.
  destruct (loc_eqb (r_loc a) fl); cbn [map r_info]; [reflexivity|]. f_equal; auto.
Qed.

Lemma relocate_length : forall fl tl rs, length (relocate fl tl rs) = length rs.
Proof. intros. rewrite <- (map_length r_info), relocate_infos, map_length. reflexivity. Qed.

Lemma relocate_nodes_ok : forall fl tl rs, NoDup (map l_node (locs rs)) -> In fl (locs rs) ->
  ~ In (l_node tl) (map l_node (locs rs)) ->
  NoDup (map l_node (locs (relocate fl tl rs))).
Proof.
  intros fl tl rs Hnd Hin Hfresh. rewrite locs_relocate.
  pose proof (relocate_perm fl tl (locs rs) Hnd Hin) as HP.
  eapply Permutation_NoDup; [apply Permutation_map; apply Permutation_sym; exact HP|].
  cbn [map]. constructor.
  - intro Hi. apply Hfresh. apply in_map_iff in Hi. destruct Hi as [x [H1 H2]].
    apply filter_In in H2. apply in_map_iff. exists x; tauto.
  - apply NoDup_map_filter; auto.
Qed.

(* ---------- a single copy is always a valid start ---------- *)
Lemma SubP_single : forall p a, SubP p [a].
Proof.
  intros p a. split; [cbn [map]; constructor; [intros []|constructor]|].
  split; [rewrite dcs_single; cbn [length]; lia|]. right.
  exists (l_dc a). unfold MainDc. rewrite dcs_single. split; [left; auto|]. split.
  - intros d [Hd|[]] Hne. congruence.
  - assert (in_dc (l_dc a) [a] = [a]) as -> by (rewrite in_dc_cons_eq; reflexivity).
    split; [rewrite racks_single; cbn [length]; lia|]. exists (rack_of a). apply single_MainRack.
Qed.

Lemma valid_single : forall p a b, valid_placement p [a] = valid_placement p [b].
Proof.
  intros. unfold valid_placement.
  rewrite (proj2 (sub_placement_iff p [a]) (SubP_single p a)).
  rewrite (proj2 (sub_placement_iff p [b]) (SubP_single p b)). reflexivity.
Qed.

(* ---------- what maybeMoveOneVolume guarantees about one move ---------- *)
Definition move_guard (s : snapshot) (w : world) (v : vol) (from to : N) : Prop :=
  is_good_move (rp_of_byte (v_rp v)) (locs (w_reps w (v_id v))) (loc_of s from) (loc_of s to) = true.

Lemma move_step_safe : forall s w dt from to v,
  NoDup (map n_id s) -> WInv s w -> NodesOk w ->
  In (loc_of s to) (cl s) -> from <> to ->
  In {| r_loc := loc_of s from; r_info := v |} (w_reps w (v_id v)) ->
  move_guard s w v from to ->
  let st := Move (v_id v) dt from to in
  let w' := apply_step s w st in
  ok_coloc (prop_step s w st) = true /\
  (rp_trig (rp_of_byte (v_rp v)) = false -> ok_pres (prop_step s w st) = true) /\
  WInv s w' /\ NodesOk w' /\
  In {| r_loc := loc_of s to; r_info := v |} (w_reps w' (v_id v)) /\
  (forall r, In r (w_reps w (v_id v)) -> r_loc r <> loc_of s from -> In r (w_reps w' (v_id v))) /\
  (forall vid', vid' <> v_id v -> w_reps w' vid' = w_reps w vid').
Proof.
  intros s w dt from to v Hnd HW HN Hto Hne Hin Hg st w'. unfold move_guard in Hg.
  set (vid := v_id v) in *. set (fl := loc_of s from) in *. set (tl := loc_of s to) in *.
  set (rs := w_reps w vid) in *.
  assert (ids_ok (tl :: locs rs)) as Hids.
  { apply (ids_ok_incl (cl s)); [apply ids_ok_cl; auto|].
    intros x [<-|Hx]; auto. unfold locs in Hx. apply in_map_iff in Hx. destruct Hx as [r [<- Hr]].
    apply (HW vid); auto. }
  assert (In fl (locs rs)) as Hfl.
  { unfold locs. apply in_map_iff. exists {| r_loc := fl; r_info := v |}. auto. }
  assert (l_node fl = from) as Hnf by apply loc_of_node.
  assert (l_node tl = to) as Hnt by apply loc_of_node.
  (* the target does not hold the volume *)
  assert (~ In (l_node tl) (map l_node (locs rs))) as Hfresh by (eapply good_move_no_coloc; eauto).
  assert (w_reps w' vid = relocate fl tl rs) as Hrs'.
  { unfold w', st. cbn [apply_step w_reps]. apply upd1_eq. }
  assert (forall vid', vid' <> vid -> w_reps w' vid' = w_reps w vid') as Hoth.
  { intros vid' Hv. unfold w', st. cbn [apply_step w_reps]. apply upd1_neq; auto. }
  split; [|split].
  - (* no colocation *)
    unfold st. cbn [prop_step ok_coloc]. fold rs. destruct (holds rs to) eqn:E; auto.
    apply holds_iff in E. rewrite <- Hnt in E. contradiction.
  - (* placement preserved *)
    intros Htr. unfold st. cbn [prop_step ok_pres]. fold rs. fold fl. fold tl.
    pose proof (replica_at_unique rs _ (HN vid) Hin) as Hat. cbn [r_loc] in Hat. rewrite Hnf in Hat.
    rewrite Hat. cbn [r_info]. rewrite locs_relocate.
    destruct (valid_placement (rp_of_byte (v_rp v)) (locs rs)) eqn:Ev; auto. cbn [implb].
    apply good_move_valid; auto.
  - split; [|split; [|split; [|split]]]; auto.
    + (* WInv *)
      intros vid' r Hr. destruct (N.eq_dec vid' vid) as [->|Hv].
      * rewrite Hrs' in Hr. apply relocate_in_inv in Hr. destruct Hr as [->|Hr]; auto. apply (HW vid); auto.
      * rewrite Hoth in Hr; auto. apply (HW vid'); auto.
    + (* NodesOk *)
      intros vid'. destruct (N.eq_dec vid' vid) as [->|Hv].
      * rewrite Hrs'. apply relocate_nodes_ok; auto. apply HN.
      * rewrite Hoth; auto.
    + rewrite Hrs'. apply relocate_moved; auto. apply HN.
    + intros r Hr Hl. rewrite Hrs'. apply relocate_other; auto.
Qed.
