(* C22: liveness theorem. *)
From Coq Require Import List ZArith NArith Bool Lia.
From SW Require Import model.LogBuf proof.LogBufProofs proof.LogBufInv proof.LogBufSteps
  proof.LogBufMain proof.LogBufSafety proof.LogBufLive.
Import ListNotations.
Local Open Scope Z_scope.

Section quiescent.
Variables (gh : ghost) (s : st) (t0 : Z).
Hypothesis Ht0 : 0 <= t0.
Hypothesis HInv : Inv gh s.
Hypothesis HF : FlushInv s.
Hypothesis Hq : queue s = [].
Hypothesis Hi : inflight s = None.

Let E := E_of gh s.
Definition good (u : sub) : Prop := SubInv t0 E (lastTs s) u /\ SubInv2 s u.
Definition done (u : sub) : Prop := all_le E (lastRead u).
Definition covered (u : sub) : Prop := lastFlush s = zeroT \/ lastFlush s <= lastRead u.

Lemma good_step : forall u, good u -> good (sub_step s u).
Proof.
  intros u [A B]. split; [apply sub_step_inv; assumption|].
  apply (sub_step_inv2 gh); auto. destruct A; lia.
Qed.

Lemma not_dead : forall u, good u -> (mem_err u =? 4)%N = false.
Proof. intros u [_ [[H|H] _]]; rewrite H; reflexivity. Qed.

Lemma disk_facts :
  incr 0 (concat (disk s)) /\ lastFlush s = last_ts (concat (disk s)) zeroT.
Proof.
  destruct HInv as [HI _]. split.
  - pose proof (i_incr _ _ HI) as Hinc. rewrite <- (i_disk _ _ HI) in Hinc. apply incr_app in Hinc. tauto.
  - unfold FlushInv in HF. rewrite Hi in HF. exact HF.
Qed.

(* memory step when lastFlushTime does not send the reader to the disk *)
Lemma step_mem_covered : forall u, good u -> on_disk u = false -> covered u -> done (sub_step s u).
Proof.
  intros u Hg Ho Hc. unfold sub_step. rewrite (not_dead u Hg), Ho.
  assert (Hle : 0 <= lastRead u) by (destruct Hg as [[A _] _]; lia).
  pose proof (read_quiescent gh s (lastRead u) HInv HF Hq Hi Hle Hc) as Hrq.
  pose proof (read_once_classes gh s (lastRead u) HInv Hle) as Hcl.
  unfold sub_mem, done. destruct (read_once s (lastRead u)) as [[cls X] t'].
  destruct Hrq as [Ht' Hall].
  destruct Hcl as [[-> [-> _]]|[[-> [_ [_ [A B]]]]|[-> _]]].
  - rewrite last_ts_nil in Ht'. subst t'. exact Hall.
  - exfalso. destruct Hc; [congruence|lia].
  - cbn [lastRead]. exact Hall.
Qed.

(* disk step: afterwards the reader is in memory mode and past lastFlushTime *)
Lemma step_disk : forall u, good u -> on_disk u = true ->
  on_disk (sub_step s u) = false /\ covered (sub_step s u).
Proof.
  intros u Hg Ho. pose proof zeroT_neg as Hz. unfold sub_step. rewrite (not_dead u Hg), Ho.
  destruct HInv as [HI _]. destruct disk_facts as [Hd Hlf].
  unfold sub_disk, covered. destruct (read_disk (lastRead u) (disk s) [] 0) as [X p] eqn:Hr.
  destruct (disk_read_spec gh s _ _ _ HI Hr) as [HX [Hp _]].
  destruct (incr_split _ 0 (lastRead u) Hd) as [pre [suf [Heq [Hpre [Hsuf Hf]]]]].
  fold (later (lastRead u)) in Hf. rewrite <- HX in Hf. subst suf.
  destruct X as [|x X'].
  - rewrite last_ts_nil in Hp. subst p. cbn [Z.eqb].
    rewrite app_nil_r in Heq.
    assert (Hcov : lastFlush s = zeroT \/ lastFlush s <= lastRead u).
    { rewrite Hlf. destruct (concat (disk s)) as [|e0 l0] eqn:Hcd; [left; reflexivity|right].
      destruct (last_ts_in (e0 :: l0) zeroT ltac:(congruence)) as [el [Hel1 Hel2]]. rewrite <- Hel2.
      apply Hpre. rewrite <- Heq. exact Hel1. }
    destruct (mem_err u =? 1)%N eqn:E1.
    + exfalso. destruct Hg as [_ [_ Hb]]. apply N.eqb_eq in E1. destruct (Hb Ho E1) as [A B].
      destruct Hcov; [congruence|lia].
    + cbn [on_disk lastRead]. auto.
  - assert (Hpx : p = last_ts (x :: X') zeroT) by (rewrite Hp; apply last_ts_default; congruence).
    assert (0 < p).
    { destruct (last_ts_in (x :: X') 0 ltac:(congruence)) as [el [Hel1 Hel2]]. rewrite Hp, <- Hel2.
      apply (incr_lb _ _ _ Hd). rewrite Heq. apply in_or_app. right. exact Hel1. }
    assert (Hpz : (p =? 0) = false) by lia. rewrite Hpz. cbn [on_disk lastRead]. split; [reflexivity|].
    right. rewrite Hlf, Heq, last_ts_app, Hpx.
    rewrite (last_ts_default (x :: X') (last_ts pre zeroT) zeroT) by congruence. lia.
Qed.

(* memory step when lastFlushTime is ahead: the reader is sent to the disk *)
Lemma step_mem_uncovered : forall u, good u -> on_disk u = false -> ~ covered u ->
  on_disk (sub_step s u) = true.
Proof.
  intros u Hg Ho Hc. unfold sub_step. rewrite (not_dead u Hg), Ho.
  unfold sub_mem, read_once, read_from_buffer.
  assert (E0 : negb (lastFlush s =? zeroT) && (lastRead u <? lastFlush s) = true).
  { unfold covered in Hc. apply andb_true_iff. split; [apply negb_true_iff|]; lia. }
  rewrite E0. reflexivity.
Qed.

Lemma step_mono : forall u, good u -> lastRead u <= lastRead (sub_step s u).
Proof.
  intros u Hg. destruct HInv as [HI _]. unfold sub_step. rewrite (not_dead u Hg).
  assert (Hle : 0 <= lastRead u) by (destruct Hg as [[A _] _]; lia).
  destruct (on_disk u).
  - unfold sub_disk. destruct (read_disk (lastRead u) (disk s) [] 0) as [X p] eqn:Hr.
    destruct (disk_read_spec gh s _ _ _ HI Hr) as [_ [Hp Hs]].
    destruct (p =? 0) eqn:Ep; [destruct (mem_err u =? 1)%N; cbn [lastRead]; lia|]. cbn [lastRead].
    destruct X as [|x X']; [rewrite last_ts_nil in Hp; lia|].
    destruct (splits_nonneg_last _ _ _ _ (i_incr _ _ HI) Hs ltac:(congruence)) as [el [_ [Hel2 Hel3]]].
    rewrite (last_ts_default (x :: X') 0 (lastRead u)) in Hp by congruence. lia.
  - pose proof (read_mem_split gh s (lastRead u) HInv Hle) as Hsp.
    unfold sub_mem, read_once. destruct (read_from_buffer s (lastRead u)) as [| |c|]; try (cbn [lastRead]; lia).
    + destruct Hsp as [X [Hd [Hne Hs]]]. rewrite Hd. cbn [lastRead].
      destruct (splits_nonneg_last _ _ _ _ (i_incr _ _ HI) Hs Hne) as [el [_ [Hel2 Hel3]]]. lia.
Qed.

Lemma done_step : forall u, good u -> done u -> done (sub_step s u).
Proof. intros u Hg Hd e He. pose proof (step_mono u Hg). specialize (Hd e He). lia. Qed.

Lemma three_steps : forall u, good u -> done (sub_step s (sub_step s (sub_step s u))).
Proof.
  intros u Hg. pose proof (good_step _ Hg) as Hg1. pose proof (good_step _ Hg1) as Hg2.
  destruct (on_disk u) eqn:Eo.
  - destruct (step_disk u Hg Eo) as [A B].
    apply (done_step _ Hg2). apply (step_mem_covered _ Hg1 A B).
  - destruct (Z.eq_dec (lastFlush s) zeroT) as [Hz|Hz].
    { apply (done_step _ Hg2), (done_step _ Hg1), (step_mem_covered _ Hg Eo). left. exact Hz. }
    destruct (Z_le_gt_dec (lastFlush s) (lastRead u)) as [Hl|Hl].
    { apply (done_step _ Hg2), (done_step _ Hg1), (step_mem_covered _ Hg Eo). right. exact Hl. }
    assert (Hu : ~ covered u) by (unfold covered; lia).
    pose proof (step_mem_uncovered u Hg Eo Hu) as A.
    destruct (step_disk _ Hg1 A) as [B C]. apply (step_mem_covered _ Hg2 B C).
Qed.

Lemma done_all : forall u, good u -> done u -> got u = filter (later t0) E.
Proof.
  intros u [[_ [Hgot _]] _] Hd. rewrite Hgot. apply filter_ext_in. intros e He.
  specialize (Hd e He). unfold in_range, later. destruct (e_ts e <=? lastRead u) eqn:B; [apply andb_true_r|lia].
Qed.
End quiescent.

Lemma run_app : forall iv hf a b y, run iv hf y (a ++ b) = run iv hf (run iv hf y a) b.
Proof. intros iv hf a. induction a as [|o a IH]; intros b y; [reflexivity|]. cbn [app run]. apply IH. Qed.

(* After any schedule outside the triggers: flush what is pending (one FlushWrite/FlushMark
   pair per queued buffer, plus one) and let the subscriber take three steps; it then has
   received every event later than t0. *)
Theorem liveness : forall iv c t0 ops,
  0 <= t0 -> ops_wf ops -> run_trig iv true (sys0 c t0) ops = None ->
  let y := run iv true (sys0 c t0) ops in
  let E := run_events iv true (sys0 c t0) ops in
  let y' := run iv true y (flush_all (S (length (queue (buf y)))) ++ [SubStep; SubStep; SubStep]) in
  got (subs y') = filter (later t0) E.
Proof.
  intros iv c t0 ops Ht0 Hwf Htr y E y'.
  destruct (run_all iv ops gh0 (sys0 c t0) t0 Ht0 (init_all c t0 Ht0) Hwf Htr) as [gh1 [HA1 HE1]].
  fold y in HA1, HE1.
  set (n := S (length (queue (buf y)))).
  destruct (flush_all_quiet iv n y) as [Q1 [Q2 [Q3 Q4]]].
  destruct (run_all iv (flush_all n) gh1 y t0 Ht0 HA1 Q2 Q1) as [gh2 [HA2 HE2]].
  set (y1 := run iv true y (flush_all n)) in *.
  assert (Hpend : pending (buf y1) = 0%nat).
  { apply flush_all_drains. unfold pending, n. destruct (inflight (buf y)); lia. }
  destruct (pending_zero _ Hpend) as [Hq Hi].
  destruct HA2 as [HI2 [HS2 [HF2 H22]]].
  assert (HEE : E_of gh2 (buf y1) = E).
  { rewrite HE2, Q3, app_nil_r, HE1. reflexivity. }
  unfold y'. rewrite run_app. fold n. fold y1. cbn [run step buf subs].
  assert (Hg : good gh2 (buf y1) t0 (subs y1)) by (split; assumption).
  pose proof (three_steps gh2 (buf y1) t0 Ht0 HI2 HF2 Hq Hi _ Hg) as Hd.
  pose proof (good_step gh2 (buf y1) t0 Ht0 HI2 _ (good_step gh2 (buf y1) t0 Ht0 HI2 _ (good_step gh2 (buf y1) t0 Ht0 HI2 _ Hg))) as Hg3.
  rewrite <- HEE. apply (done_all gh2 (buf y1) t0 _ Hg3 Hd).
Qed.
