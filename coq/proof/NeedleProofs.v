(* Proofs about model/Needle.v (C02). *)
From Coq Require Import List NArith ZArith Bool Lia ZifyBool ZifyN ZifyNat.
From SW Require Import model.Needle.
Import ListNotations.
Local Open Scope N_scope.
Ltac Zify.zify_post_hook ::= Z.div_mod_to_equations.

Arguments N.add : simpl never.
Arguments N.mul : simpl never.
Arguments N.div : simpl never.
Arguments N.modulo : simpl never.
Arguments N.sub : simpl never.
Arguments N.pow : simpl never.
Arguments N.ltb : simpl never.
Arguments N.leb : simpl never.
Arguments N.eqb : simpl never.
Arguments N.land : simpl never.

(* ---------- byte strings ---------- *)
Lemma len_nil : forall A, len (@nil A) = 0.
Proof. reflexivity. Qed.

Lemma len_cons : forall A (x : A) l, len (x :: l) = 1 + len l.
Proof. intros. unfold len. simpl length. lia. Qed.

Lemma len_app : forall A (a b : list A), len (a ++ b) = len a + len b.
Proof. intros. unfold len. rewrite app_length. lia. Qed.

Lemma len_zero_nil : forall A (l : list A), len l = 0 -> l = [].
Proof. intros A [|x l] H; [reflexivity|]. rewrite len_cons in H. lia. Qed.

Lemma takeN_firstn : forall A k (l : list A), takeN k l = firstn (N.to_nat k) l.
Proof.
  intros A k l. revert k. induction l as [|x r IH]; intros k.
  - destruct (N.to_nat k); reflexivity.
  - cbn [takeN]. destruct (k =? 0) eqn:E.
    + replace (N.to_nat k) with O by lia. reflexivity.
    + replace (N.to_nat k) with (S (N.to_nat (N.pred k))) by lia. cbn [firstn]. rewrite IH. reflexivity.
Qed.

Lemma dropN_skipn : forall A k (l : list A), dropN k l = skipn (N.to_nat k) l.
Proof.
  intros A k l. revert k. induction l as [|x r IH]; intros k.
  - destruct (N.to_nat k); reflexivity.
  - cbn [dropN]. destruct (k =? 0) eqn:E.
    + replace (N.to_nat k) with O by lia. reflexivity.
    + replace (N.to_nat k) with (S (N.to_nat (N.pred k))) by lia. cbn [skipn]. rewrite IH. reflexivity.
Qed.

Lemma takeN_0 : forall A (l : list A), takeN 0 l = [].
Proof. intros A [|x l]; reflexivity. Qed.

Lemma takeN_app : forall A (a b : list A) k, len a = k -> takeN k (a ++ b) = a.
Proof.
  intros A a b k H. rewrite takeN_firstn. unfold len in *. subst k. rewrite Nat2N.id.
  rewrite firstn_app, Nat.sub_diag, firstn_all. simpl. apply app_nil_r.
Qed.

Lemma dropN_app : forall A (a b : list A) k, len a = k -> dropN k (a ++ b) = b.
Proof.
  intros A a b k H. rewrite dropN_skipn. unfold len in *. subst k. rewrite Nat2N.id.
  rewrite skipn_app, Nat.sub_diag, skipn_all. reflexivity.
Qed.

Lemma takeN_all : forall A (a : list A) k, len a = k -> takeN k a = a.
Proof. intros. rewrite <- (app_nil_r a) at 1. apply takeN_app; auto. Qed.

Lemma dropN_all : forall A (a : list A) k, len a = k -> dropN k a = [].
Proof. intros. rewrite <- (app_nil_r a) at 1. apply dropN_app; auto. Qed.

Lemma dropN_0 : forall A (a : list A), dropN 0 a = a.
Proof. intros A [|x l]; reflexivity. Qed.

Lemma len_takeN : forall A (a : list A) k, k <= len a -> len (takeN k a) = k.
Proof. intros A a k H. rewrite takeN_firstn. unfold len in *. rewrite firstn_length. lia. Qed.

Lemma len_takeN_le : forall A (a : list A) k, len (takeN k a) <= k.
Proof. intros A a k. rewrite takeN_firstn. unfold len. rewrite firstn_length. lia. Qed.

Lemma len_dropN : forall A (a : list A) k, len (dropN k a) = len a - k.
Proof. intros A a k. rewrite dropN_skipn. unfold len. rewrite skipn_length. lia. Qed.

Lemma takeN_dropN : forall A (a : list A) k, takeN k a ++ dropN k a = a.
Proof. intros. rewrite takeN_firstn, dropN_skipn. apply firstn_skipn. Qed.

Lemma dropN_add_app : forall A (a b : list A) k j, len a = k -> dropN (k + j) (a ++ b) = dropN j b.
Proof.
  intros A a b k j H. rewrite !dropN_skipn. unfold len in *. subst k.
  rewrite N2Nat.inj_add, Nat2N.id, skipn_app.
  rewrite skipn_all2 by lia. simpl. f_equal. lia.
Qed.

Lemma dropN_dropN : forall A (a : list A) k j, dropN j (dropN k a) = dropN (k + j) a.
Proof.
  intros A a k j. rewrite !dropN_skipn. rewrite N2Nat.inj_add.
  generalize (N.to_nat k) as x, (N.to_nat j) as y. intros x; revert a.
  induction x as [|x IH]; intros a y; [reflexivity|].
  destruct a as [|h a]; [rewrite !skipn_nil; reflexivity|]. cbn. apply IH.
Qed.

(* ---------- big endian ---------- *)
Lemma len_be_encode : forall k v, len (be_encode k v) = N.of_nat k.
Proof.
  induction k as [|k IH]; intros v; [reflexivity|].
  cbn [be_encode]. rewrite len_app, IH, len_cons, len_nil. lia.
Qed.

Lemma be_decode_snoc : forall l b, be_decode (l ++ [b]) = be_decode l * 256 + b.
Proof. intros. unfold be_decode. rewrite fold_left_app. reflexivity. Qed.

Lemma be_decode_encode_mod : forall k v, be_decode (be_encode k v) = v mod 256 ^ N.of_nat k.
Proof.
  induction k as [|k IH]; intros v.
  - cbn. rewrite N.mod_1_r. reflexivity.
  - cbn [be_encode]. rewrite be_decode_snoc, IH.
    replace (N.of_nat (S k)) with (N.succ (N.of_nat k)) by lia.
    rewrite N.pow_succ_r'.
    assert (Hp : 256 ^ N.of_nat k <> 0) by (apply N.pow_nonzero; lia).
    rewrite (N.mod_mul_r v 256 (256 ^ N.of_nat k)) by lia. lia.
Qed.

Lemma be_decode_encode : forall k v, v < 256 ^ N.of_nat k -> be_decode (be_encode k v) = v.
Proof. intros. rewrite be_decode_encode_mod. apply N.mod_small; auto. Qed.

Definition bytes_ok (l : list N) : Prop := Forall (fun b => b < 256) l.

Lemma be_encode_bytes_ok : forall k v, bytes_ok (be_encode k v).
Proof.
  induction k as [|k IH]; intros v; [constructor|].
  cbn [be_encode]. apply Forall_app. split; [apply IH|].
  constructor; [|constructor]. apply N.mod_lt. lia.
Qed.

(* read k bytes from the front of a stream that starts with a k-byte field *)
Lemma be_read : forall k v r K, N.of_nat k = K -> v < 256 ^ K ->
  be_decode (takeN K (be_encode k v ++ r)) = v /\ dropN K (be_encode k v ++ r) = r.
Proof.
  intros k v r K HK Hv. subst K. split.
  - rewrite takeN_app by apply len_be_encode. apply be_decode_encode; auto.
  - apply dropN_app. apply len_be_encode.
Qed.

(* ---------- sizes and alignment ---------- *)
Lemma padding_range : forall s v, 1 <= padding_length s v <= 8.
Proof.
  intros. unfold padding_length, ts_size, NeedlePaddingSize, NeedleHeaderSize, NeedleChecksumSize, TimestampSize.
  destruct (v =? 3); lia.
Qed.

Lemma actual_size_aligned : forall s v, actual_size s v mod 8 = 0.
Proof.
  intros. unfold actual_size, body_length, padding_length, ts_size,
    NeedlePaddingSize, NeedleHeaderSize, NeedleChecksumSize, TimestampSize.
  destruct (v =? 3); lia.
Qed.

(* what a caller of Append must guarantee for the record to have the length the index records:
   mime shorter than 256 bytes, a TTL when the TTL flag is set, PairsSize = len(Pairs) *)
Definition enc_okb (n : needle) : bool :=
  (len (mime n) <? 256)
  && (negb (has_ttl n) || match ttl n with Some _ => true | None => false end)
  && (negb (has_pairs n) || (pairs_size n =? len (pairs n))).

Lemma name_size_le : forall n, name_size n <= len (name n).
Proof. intros. unfold name_size. destruct (255 <=? len (name n)) eqn:E; lia. Qed.

Lemma len_name_field : forall n, len (name_field n) = if has_name n then 1 + name_size n else 0.
Proof.
  intros. unfold name_field. destruct (has_name n); [|reflexivity].
  rewrite len_cons, len_takeN; [reflexivity|apply name_size_le].
Qed.

Lemma len_mime_field : forall n, len (mime n) < 256 ->
  len (mime_field n) = if has_mime n then 1 + mime_size n else 0.
Proof.
  intros n H. unfold mime_field, mime_size. destruct (has_mime n); [|reflexivity].
  rewrite len_cons, N.mod_small by lia. reflexivity.
Qed.

Lemma len_lm_field : forall n, len (lm_field n) = if has_lm n then 5 else 0.
Proof. intros. unfold lm_field. destruct (has_lm n); [apply len_be_encode|reflexivity]. Qed.

Lemma len_ttl_field : forall n, (has_ttl n = true -> ttl n <> None) ->
  len (ttl_field n) = if has_ttl n then 2 else 0.
Proof.
  intros n H. unfold ttl_field. destruct (has_ttl n); [|reflexivity].
  destruct (ttl n) as [[c u]|]; [reflexivity|]. exfalso. apply H; reflexivity.
Qed.

Lemma len_pairs_field : forall n, (has_pairs n = true -> pairs_size n = len (pairs n)) ->
  len (pairs_field n) = if has_pairs n then 2 + pairs_size n else 0.
Proof.
  intros n H. unfold pairs_field. destruct (has_pairs n); [|reflexivity].
  rewrite len_app, len_be_encode, H by reflexivity. lia.
Qed.

Lemma enc_okb_spec : forall n, enc_okb n = true ->
  len (mime n) < 256 /\ (has_ttl n = true -> ttl n <> None) /\
  (has_pairs n = true -> pairs_size n = len (pairs n)).
Proof.
  intros n H. unfold enc_okb in H.
  apply andb_true_iff in H. destruct H as [H H3]. apply andb_true_iff in H. destruct H as [H1 H2].
  split; [lia|]. split.
  - intros Ht. rewrite Ht in H2. simpl in H2. destruct (ttl n); congruence.
  - intros Hp. rewrite Hp in H3. simpl in H3. lia.
Qed.

Lemma len_body_bytes : forall n, enc_okb n = true -> len (body_bytes n) = body_size n.
Proof.
  intros n H. apply enc_okb_spec in H. destruct H as [H1 [H2 H3]].
  unfold body_bytes, body_size. destruct (0 <? data_size n); [|reflexivity].
  rewrite !len_app, len_be_encode, len_cons, len_nil, len_name_field, len_mime_field,
    len_lm_field, len_ttl_field, len_pairs_field by assumption.
  unfold data_size, LastModifiedBytesLength, TtlBytesLength.
  destruct (has_name n), (has_mime n), (has_lm n), (has_ttl n), (has_pairs n); lia.
Qed.

Lemma len_header_bytes : forall n, len (header_bytes n) = 16.
Proof. intros. unfold header_bytes. rewrite !len_app, !len_be_encode. reflexivity. Qed.

Lemma len_pad_source : forall v n, len (pad_source v n) = 8.
Proof.
  intros. unfold pad_source. destruct (v =? 3).
  - rewrite len_app, len_be_encode. reflexivity.
  - rewrite len_app, len_be_encode.
    destruct ((0 <? data_size n) && has_lm n); rewrite len_be_encode; reflexivity.
Qed.

Lemma len_tail_bytes : forall v n,
  len (tail_bytes v n) = 4 + ts_size v + padding_length (body_size n) v.
Proof.
  intros. unfold tail_bytes, ts_size, TimestampSize.
  pose proof (padding_range (body_size n) v) as Hp.
  rewrite !len_app, len_be_encode, len_takeN by (rewrite len_pad_source; lia).
  destruct (v =? 3); [rewrite len_be_encode|rewrite len_nil]; lia.
Qed.

Lemma len_encode : forall v n, enc_okb n = true -> len (encode v n) = actual_size (body_size n) v.
Proof.
  intros v n H. unfold encode, actual_size, body_length, NeedleHeaderSize, NeedleChecksumSize.
  rewrite !len_app, len_header_bytes, len_body_bytes, len_tail_bytes by assumption. lia.
Qed.

(* a record is never empty *)
Lemma len_encode_ge : forall v n, 16 <= len (encode v n).
Proof. intros. unfold encode. rewrite len_app, len_header_bytes. lia. Qed.

(* ---------- reading back one's own encoding ---------- *)
Lemma parse_header_enc : forall c i s X, c < 2 ^ 32 -> i < 2 ^ 64 -> s < 2 ^ 32 ->
  parse_header (be_encode 4 c ++ be_encode 8 i ++ be_encode 4 s ++ X) = (c, i, s).
Proof.
  intros c i s X Hc Hi Hs. unfold parse_header.
  rewrite takeN_app by apply len_be_encode.
  rewrite dropN_app by apply len_be_encode.
  rewrite takeN_app by apply len_be_encode.
  rewrite (app_assoc (be_encode 4 c)).
  rewrite dropN_app by (rewrite len_app, !len_be_encode; reflexivity).
  rewrite takeN_app by apply len_be_encode.
  rewrite !be_decode_encode by assumption. reflexivity.
Qed.

Lemma match_nonempty : forall (l : list N) A (a : A) (b : A), l <> [] ->
  match l with [] => a | _ :: _ => b end = b.
Proof. intros [|x l] A a b H; [congruence|reflexivity]. Qed.

(* expected effect of each step of readNeedleDataVersion2 on the encoding of n *)
Definition upd_data (n : needle) (d : dneedle) : dneedle :=
  d_upd (d_upd (d_set_data_size d (data_size n)) (fun m => n_set_data m (data n))) (fun m => n_set_flags m (flags n)).
Definition upd_name (n : needle) (d : dneedle) : dneedle :=
  if has_name n then d_upd (d_set_name_size d (name_size n)) (fun m => n_set_name m (name n)) else d.
Definition upd_mime (n : needle) (d : dneedle) : dneedle :=
  if has_mime n then d_upd (d_set_mime_size d (mime_size n)) (fun m => n_set_mime m (mime n)) else d.
Definition upd_lm (n : needle) (d : dneedle) : dneedle :=
  if has_lm n then d_upd d (fun m => n_set_lm m (last_modified n)) else d.
Definition upd_ttl (n : needle) (d : dneedle) : dneedle :=
  if has_ttl n then d_upd d (fun m => n_set_ttl m (ttl n)) else d.
Definition upd_pairs (n : needle) (d : dneedle) : dneedle :=
  if has_pairs n then d_upd (d_upd d (fun m => n_set_pairs_size m (pairs_size n))) (fun m => n_set_pairs m (pairs n)) else d.

Lemma step_data_enc : forall n d R, data n <> [] -> data_size n < 2 ^ 32 ->
  step_data (be_encode 4 (data_size n) ++ data n ++ [flags n] ++ R) d = Cont R (upd_data n d).
Proof.
  intros n d R Hne Hds. unfold step_data.
  set (rest := be_encode 4 (data_size n) ++ data n ++ [flags n] ++ R).
  assert (Hlen : len rest = 4 + data_size n + 1 + len R).
  { unfold rest. rewrite !len_app, len_be_encode, len_cons, len_nil. unfold data_size. lia. }
  rewrite match_nonempty by (intro E; rewrite E, len_nil in Hlen; lia).
  destruct (len rest <? 4) eqn:E1; [lia|].
  unfold rest. rewrite takeN_app, dropN_app by apply len_be_encode.
  rewrite be_decode_encode by assumption.
  destruct (len (data n ++ [flags n] ++ R) <? data_size n) eqn:E2.
  { rewrite !len_app in E2. unfold data_size in E2. lia. }
  rewrite takeN_app, dropN_app by reflexivity. reflexivity.
Qed.

Lemma step_name_enc : forall n d R, flags (d_n d) = flags n -> len (name n) <= 255 ->
  step_name (name_field n ++ R) d = Cont R (upd_name n d).
Proof.
  intros n d R Hf Hl. unfold name_field, upd_name, step_name.
  assert (Hh : has_name (d_n d) = has_name n) by (unfold has_name; rewrite Hf; reflexivity).
  destruct (has_name n) eqn:E.
  - assert (Hs : name_size n = len (name n)).
    { unfold name_size. destruct (255 <=? len (name n)) eqn:E1; lia. }
    cbn [app]. rewrite Hh, Hs, takeN_all by reflexivity.
    destruct (len (name n ++ R) <? len (name n)) eqn:E2; [rewrite len_app in E2; lia|].
    rewrite takeN_app, dropN_app by reflexivity. reflexivity.
  - cbn [app]. destruct R as [|b R]; [reflexivity|]. rewrite Hh. reflexivity.
Qed.

Lemma step_mime_enc : forall n d R, flags (d_n d) = flags n -> len (mime n) < 256 ->
  step_mime (mime_field n ++ R) d = Cont R (upd_mime n d).
Proof.
  intros n d R Hf Hl. unfold mime_field, upd_mime, step_mime.
  assert (Hh : has_mime (d_n d) = has_mime n) by (unfold has_mime; rewrite Hf; reflexivity).
  destruct (has_mime n) eqn:E.
  - assert (Hs : mime_size n = len (mime n)) by (unfold mime_size; apply N.mod_small; lia).
    cbn [app]. rewrite Hh, Hs.
    destruct (len (mime n ++ R) <? len (mime n)) eqn:E2; [rewrite len_app in E2; lia|].
    rewrite takeN_app, dropN_app by reflexivity. reflexivity.
  - cbn [app]. destruct R as [|b R]; [reflexivity|]. rewrite Hh. reflexivity.
Qed.

Lemma step_lm_enc : forall n d R, flags (d_n d) = flags n -> last_modified n < 2 ^ 40 ->
  step_lm (lm_field n ++ R) d = Cont R (upd_lm n d).
Proof.
  intros n d R Hf Hl. unfold lm_field, upd_lm, step_lm.
  assert (Hh : has_lm (d_n d) = has_lm n) by (unfold has_lm; rewrite Hf; reflexivity).
  destruct (has_lm n) eqn:E.
  - assert (Hlen : len (be_encode 5 (last_modified n) ++ R) = 5 + len R)
      by (rewrite len_app, len_be_encode; reflexivity).
    rewrite match_nonempty by (intro E0; rewrite E0, len_nil in Hlen; lia).
    rewrite Hh. unfold LastModifiedBytesLength.
    destruct (len (be_encode 5 (last_modified n) ++ R) <? 5) eqn:E2; [lia|].
    rewrite takeN_app, dropN_app by apply len_be_encode.
    rewrite be_decode_encode by assumption. reflexivity.
  - cbn [app]. destruct R as [|b R]; [reflexivity|]. rewrite Hh. reflexivity.
Qed.

Lemma step_ttl_enc : forall n d R, flags (d_n d) = flags n -> (has_ttl n = true -> ttl n <> None) ->
  step_ttl (ttl_field n ++ R) d = Cont R (upd_ttl n d).
Proof.
  intros n d R Hf Ht. unfold ttl_field, upd_ttl, step_ttl.
  assert (Hh : has_ttl (d_n d) = has_ttl n) by (unfold has_ttl; rewrite Hf; reflexivity).
  destruct (has_ttl n) eqn:E.
  - destruct (ttl n) as [[c u]|]; [|exfalso; apply Ht; reflexivity].
    cbn [app]. rewrite Hh. reflexivity.
  - cbn [app]. destruct R as [|b R]; [reflexivity|]. rewrite Hh. reflexivity.
Qed.

Lemma step_pairs_enc : forall n d R, flags (d_n d) = flags n ->
  (has_pairs n = true -> pairs_size n = len (pairs n)) -> pairs_size n < 2 ^ 16 ->
  step_pairs (pairs_field n ++ R) d = Cont R (upd_pairs n d).
Proof.
  intros n d R Hf Hp Hl. unfold pairs_field, upd_pairs, step_pairs.
  assert (Hh : has_pairs (d_n d) = has_pairs n) by (unfold has_pairs; rewrite Hf; reflexivity).
  destruct (has_pairs n) eqn:E.
  - specialize (Hp eq_refl).
    assert (Hlen : len ((be_encode 2 (pairs_size n) ++ pairs n) ++ R) = 2 + len (pairs n) + len R)
      by (rewrite !len_app, len_be_encode; reflexivity).
    rewrite match_nonempty by (intro E0; rewrite E0, len_nil in Hlen; lia).
    rewrite Hh.
    destruct (len ((be_encode 2 (pairs_size n) ++ pairs n) ++ R) <? 2) eqn:E2; [lia|].
    rewrite <- app_assoc.
    rewrite takeN_app, dropN_app by apply len_be_encode.
    rewrite be_decode_encode by assumption.
    destruct (len (pairs n ++ R) <? pairs_size n) eqn:E3; [rewrite len_app in E3; lia|].
    rewrite takeN_app, dropN_app by (symmetry; assumption). reflexivity.
  - cbn [app]. destruct R as [|b R]; [reflexivity|]. rewrite Hh. reflexivity.
Qed.

Lemma flags_upd_data : forall n d, flags (d_n (upd_data n d)) = flags n.
Proof. reflexivity. Qed.
Lemma flags_upd_name : forall n d, flags (d_n (upd_name n d)) = flags (d_n d).
Proof. intros. unfold upd_name. destruct (has_name n); reflexivity. Qed.
Lemma flags_upd_mime : forall n d, flags (d_n (upd_mime n d)) = flags (d_n d).
Proof. intros. unfold upd_mime. destruct (has_mime n); reflexivity. Qed.
Lemma flags_upd_lm : forall n d, flags (d_n (upd_lm n d)) = flags (d_n d).
Proof. intros. unfold upd_lm. destruct (has_lm n); reflexivity. Qed.
Lemma flags_upd_ttl : forall n d, flags (d_n (upd_ttl n d)) = flags (d_n d).
Proof. intros. unfold upd_ttl. destruct (has_ttl n); reflexivity. Qed.

(* well-formed needle for a round trip (besides [enc_okb]): the value ranges of the fixed-width
   fields; [body_size n < 2^31] because Size is a signed 32-bit integer *)
Definition ranges_ok (n : needle) : Prop :=
  cookie n < 2 ^ 32 /\ id n < 2 ^ 64 /\ body_size n < 2 ^ 31 /\ len (name n) <= 255 /\
  last_modified n < 2 ^ 40 /\ pairs_size n < 2 ^ 16 /\ append_at_ns n < 2 ^ 64.

Definition read_all (n : needle) (d : dneedle) : dneedle :=
  upd_pairs n (upd_ttl n (upd_lm n (upd_mime n (upd_name n (upd_data n d))))).

Lemma data_size_lt_body : forall n, data n <> [] -> data_size n < body_size n.
Proof.
  intros n H. unfold body_size. destruct (0 <? data_size n) eqn:E; [lia|].
  exfalso. apply H. apply len_zero_nil. unfold data_size in E. lia.
Qed.

Lemma read_v2_enc : forall n d, data n <> [] -> enc_okb n = true -> ranges_ok n ->
  read_v2 (body_bytes n) d = Cont [] (read_all n d).
Proof.
  intros n d Hne Hok Hr. destruct Hr as [_ [_ [Hbs [Hnm [Hlm [Hps _]]]]]].
  apply enc_okb_spec in Hok. destruct Hok as [Hm [Ht Hp]].
  pose proof (data_size_lt_body n Hne) as Hds.
  assert (Hpos : data_size n <> 0) by (intro E0; apply Hne, len_zero_nil, E0).
  unfold body_bytes. destruct (0 <? data_size n) eqn:E; [|lia].
  unfold read_v2, read_all.
  replace (be_encode 4 (data_size n) ++ data n ++ [flags n] ++ name_field n ++ mime_field n ++ lm_field n ++ ttl_field n ++ pairs_field n)
    with (be_encode 4 (data_size n) ++ data n ++ [flags n] ++ (name_field n ++ mime_field n ++ lm_field n ++ ttl_field n ++ pairs_field n ++ []))
    by (rewrite app_nil_r; reflexivity).
  rewrite step_data_enc by (auto; lia). cbn [and_then].
  rewrite step_name_enc by auto. cbn [and_then].
  rewrite step_mime_enc by (rewrite ?flags_upd_name; auto). cbn [and_then].
  rewrite step_lm_enc by (rewrite ?flags_upd_mime, ?flags_upd_name; auto). cbn [and_then].
  rewrite step_ttl_enc by (rewrite ?flags_upd_lm, ?flags_upd_mime, ?flags_upd_name; auto). cbn [and_then].
  rewrite step_pairs_enc by (rewrite ?flags_upd_ttl, ?flags_upd_lm, ?flags_upd_mime, ?flags_upd_name; auto).
  reflexivity.
Qed.

Lemma read_v2_nil : forall d, read_v2 [] d = Cont [] d.
Proof. reflexivity. Qed.

(* the faithful variant (DataSize read within the capacity of the blob) differs from
   [read_v2] only on bodies of 1..3 bytes, which the writer never produces *)
Lemma takeN_app_le : forall A (a b : list A) k, k <= len a -> takeN k (a ++ b) = takeN k a.
Proof.
  intros A a b k H. rewrite !takeN_firstn, firstn_app. unfold len in H.
  replace (N.to_nat k - length a)%nat with O by lia. cbn [firstn]. apply app_nil_r.
Qed.

Lemma step_data_x_eq : forall ext rest d, rest = [] \/ 4 <= len rest ->
  step_data_x ext rest d = step_data rest d.
Proof.
  intros ext rest d [H|H]; [subst; reflexivity|].
  unfold step_data_x, step_data. destruct rest as [|x r]; [reflexivity|].
  rewrite takeN_app_le by assumption.
  destruct (len (x :: r) <? 4) eqn:E; [lia|]. cbn [orb]. reflexivity.
Qed.

Lemma read_v2_x_eq : forall ext body d, body = [] \/ 4 <= len body ->
  read_v2_x ext body d = read_v2 body d.
Proof. intros. unfold read_v2_x, read_v2. rewrite step_data_x_eq by assumption. reflexivity. Qed.

Lemma read_v2_x_nil : forall ext d, read_v2_x ext [] d = Cont [] d.
Proof. reflexivity. Qed.

Lemma body_size_ge5 : forall n, data n <> [] -> 5 <= body_size n.
Proof. intros n H. pose proof (data_size_lt_body n H). unfold body_size in *. destruct (0 <? data_size n); lia. Qed.

Lemma read_v2_x_enc : forall ext n d, data n <> [] -> enc_okb n = true -> ranges_ok n ->
  read_v2_x ext (body_bytes n) d = Cont [] (read_all n d).
Proof.
  intros ext n d Hne Hok Hr. rewrite read_v2_x_eq; [apply read_v2_enc; assumption|].
  right. rewrite len_body_bytes by assumption. pose proof (body_size_ge5 n Hne). lia.
Qed.

(* finishing touches of ReadBytes / ReadNeedleBodyBytes: checksum and timestamp *)
Definition finish (v : N) (ck ns : N) (d : dneedle) : dneedle :=
  let d2 := d_upd d (fun m => n_set_checksum m ck) in
  if v =? 3 then d_upd d2 (fun m => n_set_append m ns) else d2.

Lemma finish_read_all : forall v n,
  finish v (checksum n) (append_at_ns n) (read_all n (header_needle (cookie n) (id n) (body_size n))) = dview v n.
Proof.
  intros v n. destruct n as [c i dt fl nm mm ps pr lm tt ck ns].
  unfold finish, read_all, upd_pairs, upd_ttl, upd_lm, upd_mime, upd_name, upd_data, dview, view,
    has_name, has_mime, has_lm, has_ttl, has_pairs, header_needle.
  cbn [cookie id data flags name mime pairs_size pairs last_modified ttl checksum append_at_ns].
  destruct (has_flag fl FlagHasName), (has_flag fl FlagHasMime), (has_flag fl FlagHasLastModifiedDate),
    (has_flag fl FlagHasTtl), (has_flag fl FlagHasPairs), (v =? 3); reflexivity.
Qed.

Lemma data_read_all : forall n d, data (d_n (read_all n d)) = data n.
Proof.
  intros. unfold read_all, upd_pairs, upd_ttl, upd_lm, upd_mime, upd_name.
  destruct (has_pairs n), (has_ttl n), (has_lm n), (has_mime n), (has_name n); reflexivity.
Qed.

Lemma crc_value_lt : forall c, crc_value c < 2 ^ 32.
Proof. intros. unfold crc_value. change (2 ^ 32) with 4294967296. apply N.mod_lt. lia. Qed.

(* CRC.Value is injective on 32-bit values (a rotation followed by a constant addition) *)
Lemma crc_value_inj : forall a b, a < 2 ^ 32 -> b < 2 ^ 32 -> crc_value a = crc_value b -> a = b.
Proof.
  intros a b Ha Hb H. unfold crc_value in H. change (2 ^ 32) with 4294967296 in *. lia.
Qed.

(* the three parts of a record followed by anything *)
Lemma encode_split : forall v n R,
  encode v n ++ R = header_bytes n ++ body_bytes n ++ tail_bytes v n ++ R.
Proof. intros. unfold encode. rewrite <- !app_assoc. reflexivity. Qed.

Lemma tail_read : forall v n R,
  be_decode (takeN 4 (tail_bytes v n ++ R)) = crc_value (checksum n) /\
  (v =? 3 = true -> append_at_ns n < 2 ^ 64 ->
   be_decode (takeN 8 (dropN 4 (tail_bytes v n ++ R))) = append_at_ns n).
Proof.
  intros v n R. unfold tail_bytes. rewrite <- !app_assoc. split.
  - rewrite takeN_app by apply len_be_encode. apply be_decode_encode. apply crc_value_lt.
  - intros Hv Hns. rewrite Hv. rewrite dropN_app by apply len_be_encode.
    rewrite takeN_app by apply len_be_encode. apply be_decode_encode. assumption.
Qed.

Lemma parse_header_bytes : forall n X, cookie n < 2 ^ 32 -> id n < 2 ^ 64 -> body_size n < 2 ^ 32 ->
  parse_header (header_bytes n ++ X) = (cookie n, id n, body_size n).
Proof.
  intros. unfold header_bytes. rewrite <- !app_assoc. apply parse_header_enc; assumption.
Qed.

Section WithCrcProofs.
  Variable crc : list N -> N.

  (* decode of an encoding, in the generality needed by both ReadData (R = []) and the scan
     (R = the rest of the file).  [ck] is the checksum the record carries. *)
  Lemma read_bytes_enc_gen : forall v n R, data n <> [] -> enc_okb n = true -> ranges_ok n ->
    read_bytes crc (encode v n ++ R) (body_size n) v =
      if crc_value (checksum n) =? crc_value (crc (data n))
      then (finish v (crc (data n)) (append_at_ns n) (read_all n (header_needle (cookie n) (id n) (body_size n))), SOk)
      else (read_all n (header_needle (cookie n) (id n) (body_size n)), SCrc).
  Proof.
    intros v n R Hne Hok Hr.
    pose proof Hr as [Hc [Hi [Hbs [_ [_ [_ Hns]]]]]].
    assert (Hbs32 : body_size n < 2 ^ 32) by (change (2 ^ 32) with 4294967296; change (2 ^ 31) with 2147483648 in Hbs; lia).
    pose proof (data_size_lt_body n Hne) as Hds.
    unfold read_bytes. rewrite encode_split.
    rewrite parse_header_bytes by assumption. cbv beta iota.
    rewrite N.eqb_refl. cbn [negb].
    unfold NeedleHeaderSize.
    rewrite (dropN_app _ (header_bytes n) _ 16) by apply len_header_bytes.
    rewrite takeN_app by (apply len_body_bytes; assumption).
    rewrite read_v2_x_enc by assumption.
    rewrite (app_assoc (header_bytes n)).
    rewrite dropN_app by (rewrite len_app, len_header_bytes, len_body_bytes by assumption; reflexivity).
    destruct (tail_read v n R) as [Hck Hts]. rewrite Hck, data_read_all.
    assert (Hpos : 0 <? body_size n = true) by lia. rewrite Hpos. cbn [andb].
    destruct (crc_value (checksum n) =? crc_value (crc (data n))) eqn:E; cbn [negb]; [|reflexivity].
    unfold finish. destruct (v =? 3) eqn:Ev; [rewrite Hts by auto|]; reflexivity.
  Qed.

  Lemma read_bytes_enc : forall v n R, data n <> [] -> enc_okb n = true -> ranges_ok n ->
    checksum n = crc (data n) ->
    read_bytes crc (encode v n ++ R) (body_size n) v = (dview v n, SOk).
  Proof.
    intros v n R Hne Hok Hr Hck. rewrite read_bytes_enc_gen by assumption.
    rewrite <- Hck, N.eqb_refl, finish_read_all. reflexivity.
  Qed.

  Lemma read_bytes_crc_error : forall v n R, data n <> [] -> enc_okb n = true -> ranges_ok n ->
    crc_value (checksum n) <> crc_value (crc (data n)) ->
    snd (read_bytes crc (encode v n ++ R) (body_size n) v) = SCrc.
  Proof.
    intros v n R Hne Hok Hr Hck. rewrite read_bytes_enc_gen by assumption.
    destruct (crc_value (checksum n) =? crc_value (crc (data n))) eqn:E; [lia|reflexivity].
  Qed.

  (* a needle written with empty data: only the header (and timestamp) comes back *)
  Lemma body_empty : forall n, data n = [] -> body_size n = 0 /\ body_bytes n = [].
  Proof.
    intros n H. unfold body_size, body_bytes, data_size. rewrite H. split; reflexivity.
  Qed.

  Lemma read_bytes_enc_empty : forall v n R, data n = [] ->
    cookie n < 2 ^ 32 -> id n < 2 ^ 64 -> append_at_ns n < 2 ^ 64 ->
    read_bytes crc (encode v n ++ R) 0 v = (stripped v n 0, SOk).
  Proof.
    intros v n R He Hc Hi Hns. destruct (body_empty n He) as [Hs Hb].
    unfold read_bytes. rewrite encode_split.
    rewrite parse_header_bytes by (assumption || (rewrite Hs; reflexivity)). cbv beta iota.
    rewrite Hs, Hb. change (0 =? 0) with true. cbn [negb].
    rewrite takeN_0, read_v2_x_nil.
    change (0 <? 0) with false. cbn [andb].
    destruct (v =? 3) eqn:Ev; [|unfold stripped; rewrite Ev; reflexivity].
    unfold NeedleHeaderSize. change (16 + 0) with 16.
    rewrite dropN_app by apply len_header_bytes. cbn [app].
    destruct (tail_read v n R) as [_ Hts]. rewrite Hts by assumption.
    unfold stripped. rewrite Ev. reflexivity.
  Qed.

  (* ReadData at the record's offset inside any file *)
  Lemma read_data_at : forall v n pre post size, enc_okb n = true -> size = body_size n ->
    read_data crc (pre ++ encode v n ++ post) (len pre) size v = read_bytes crc (encode v n) size v.
  Proof.
    intros v n pre post size Hok Hs. subst size. unfold read_data.
    rewrite dropN_app by reflexivity.
    rewrite takeN_app by (apply len_encode; assumption).
    rewrite len_encode by assumption.
    destruct (actual_size (body_size n) v <? actual_size (body_size n) v) eqn:E; [lia|reflexivity].
  Qed.

  (* ---------- the scan ---------- *)
  (* what ScanVolumeFileFrom hands to the visitor for a record: ReadNeedleBodyBytes recomputes
     the checksum from the data instead of comparing it *)
  Definition scan_visit (v : N) (n : needle) : dneedle :=
    if 0 <? data_size n
    then finish v (crc (data n)) (append_at_ns n) (read_all n (header_needle (cookie n) (id n) (body_size n)))
    else stripped v n (crc []).

  Fixpoint scan_expected (v : N) (rs : list needle) (off : N) : list (dneedle * N) :=
    match rs with
    | [] => []
    | n :: rs' => (scan_visit v n, off) :: scan_expected v rs' (off + actual_size (body_size n) v)
    end.

  Definition rec_ok (n : needle) : Prop := enc_okb n = true /\ ranges_ok n.

  Lemma scan_step : forall fuel v n R off, rec_ok n ->
    scan_from crc (S fuel) v (encode v n ++ R) off =
      (scan_visit v n, off) :: scan_from crc fuel v R (off + actual_size (body_size n) v).
  Proof.
    intros fuel v n R off [Hok Hr].
    pose proof Hr as [Hc [Hi [Hbs [_ [_ [_ Hns]]]]]].
    assert (Hbs32 : body_size n < 2 ^ 32) by (change (2 ^ 32) with 4294967296; change (2 ^ 31) with 2147483648 in Hbs; lia).
    cbn [scan_from].
    pose proof (len_encode_ge v n) as Hge.
    destruct (len (encode v n ++ R) <? NeedleHeaderSize) eqn:E1.
    { rewrite len_app in E1. unfold NeedleHeaderSize in E1. lia. }
    assert (Hbl : len (body_bytes n ++ tail_bytes v n) = body_length (body_size n) v).
    { rewrite len_app, len_body_bytes, len_tail_bytes by assumption.
      unfold body_length, NeedleChecksumSize. lia. }
    assert (H1 : parse_header (encode v n ++ R) = (cookie n, id n, body_size n)).
    { rewrite encode_split. apply parse_header_bytes; assumption. }
    assert (H2 : takeN (body_length (body_size n) v) (dropN NeedleHeaderSize (encode v n ++ R))
                 = body_bytes n ++ tail_bytes v n).
    { rewrite encode_split. unfold NeedleHeaderSize. rewrite dropN_app by apply len_header_bytes.
      rewrite (app_assoc (body_bytes n)). apply takeN_app. assumption. }
    rewrite H1. cbv beta iota. rewrite !H2.
    unfold NeedleHeaderSize.
    rewrite Hbl. rewrite N.ltb_irrefl.
    rewrite takeN_app by (apply len_body_bytes; assumption).
    assert (Htl : dropN (body_size n + NeedleChecksumSize) (body_bytes n ++ tail_bytes v n)
                  = dropN 4 (tail_bytes v n ++ [])).
    { rewrite app_nil_r. apply dropN_add_app. apply len_body_bytes; assumption. }
    rewrite Htl.
    assert (Hrest : dropN (16 + body_length (body_size n) v) (encode v n ++ R) = R).
    { apply dropN_app. rewrite len_encode by assumption. reflexivity. }
    rewrite Hrest.
    replace (off + 16 + body_length (body_size n) v) with (off + actual_size (body_size n) v)
      by (unfold actual_size, NeedleHeaderSize; lia).
    unfold scan_visit. destruct (0 <? data_size n) eqn:Ed.
    - assert (Hne : data n <> []) by (intro E0; unfold data_size in Ed; rewrite E0 in Ed; discriminate).
      rewrite read_v2_x_enc by assumption. cbn [body_result]. rewrite data_read_all.
      f_equal. f_equal.
      unfold finish. destruct (v =? 3) eqn:Ev; [|reflexivity].
      destruct (tail_read v n []) as [_ Hts]. rewrite Hts by assumption. reflexivity.
    - assert (He : data n = []) by (apply len_zero_nil; unfold data_size in Ed; lia).
      destruct (body_empty n He) as [Hs Hb]. rewrite Hb, Hs, read_v2_x_nil. cbn [body_result].
      f_equal. f_equal.
      unfold stripped. destruct (v =? 3) eqn:Ev; [|reflexivity].
      destruct (tail_read v n []) as [_ Hts]. rewrite Hts by assumption. reflexivity.
  Qed.

  Lemma scan_from_records : forall v rs fuel off, Forall rec_ok rs -> (length rs <= fuel)%nat ->
    scan_from crc fuel v (concat (map (encode v) rs)) off = scan_expected v rs off.
  Proof.
    intros v rs. induction rs as [|n rs IH]; intros fuel off Hall Hf.
    - destruct fuel; reflexivity.
    - destruct fuel as [|fuel]; [simpl in Hf; lia|].
      inversion Hall as [|? ? Hn Hrs]; subst.
      cbn [map concat scan_expected]. rewrite scan_step by assumption.
      rewrite IH by (auto; simpl in Hf; lia). reflexivity.
  Qed.

  Lemma length_concat_ge : forall v rs, (length rs <= length (concat (map (encode v) rs)))%nat.
  Proof.
    intros v rs. induction rs as [|n rs IH]; [simpl; lia|].
    cbn [map concat]. rewrite app_length. pose proof (len_encode_ge v n) as H.
    unfold len in H. simpl. lia.
  Qed.

  (* scanning a volume file = super block (any prefix) followed by the records, starting at the
     end of the prefix, visits exactly the records with their offsets, in order *)
  Lemma scan_records : forall v pre rs, Forall rec_ok rs ->
    scan crc v (pre ++ concat (map (encode v) rs)) (len pre) = scan_expected v rs (len pre).
  Proof.
    intros v pre rs Hall. unfold scan. rewrite dropN_app by reflexivity.
    apply scan_from_records; [assumption|].
    rewrite app_length. pose proof (length_concat_ge v rs). lia.
  Qed.

  Lemma scan_visit_wf : forall v n, data n <> [] -> checksum n = crc (data n) ->
    scan_visit v n = dview v n.
  Proof.
    intros v n Hne Hck. unfold scan_visit.
    destruct (0 <? data_size n) eqn:Ed.
    - rewrite <- Hck. apply finish_read_all.
    - exfalso. apply Hne. apply len_zero_nil. unfold data_size in Ed. lia.
  Qed.

  (* offsets and identities of the visited records, whatever their payload *)
  Lemma scan_expected_ids : forall v rs off,
    map (fun p => (id (d_n (fst p)), cookie (d_n (fst p)), snd p)) (scan_expected v rs off) =
    (fix go (rs : list needle) (off : N) :=
       match rs with [] => [] | n :: rs' => (id n, cookie n, off) :: go rs' (off + actual_size (body_size n) v) end) rs off.
  Proof.
    intros v rs. induction rs as [|n rs IH]; intros off; [reflexivity|].
    cbn [scan_expected map fst snd]. rewrite IH. f_equal.
    unfold scan_visit. destruct (0 <? data_size n).
    - unfold finish, read_all, upd_pairs, upd_ttl, upd_lm, upd_mime, upd_name.
      destruct (v =? 3), (has_pairs n), (has_ttl n), (has_lm n), (has_mime n), (has_name n); reflexivity.
    - reflexivity.
  Qed.
End WithCrcProofs.

(* ---------- altering the data bytes of a stored record ---------- *)
(* the record with its data region overwritten by d' (same length) *)
Definition overwrite_data (rec : list N) (old_len : N) (d' : list N) : list N :=
  takeN 20 rec ++ d' ++ dropN (20 + old_len) rec.

Lemma body_size_set_data : forall n d', len d' = len (data n) -> body_size (n_set_data n d') = body_size n.
Proof.
  intros n d' H. destruct n as [c i dt fl nm mm ps pr lm tt ck ns].
  unfold body_size, data_size, has_name, has_mime, has_lm, has_ttl, has_pairs, name_size, mime_size, n_set_data.
  cbn [cookie id data flags name mime pairs_size pairs last_modified ttl checksum append_at_ns] in *.
  rewrite H. reflexivity.
Qed.

Lemma encode_set_data : forall v n d', data n <> [] -> len d' = len (data n) ->
  encode v (n_set_data n d') = overwrite_data (encode v n) (len (data n)) d'.
Proof.
  intros v n d' Hne H.
  assert (Hpos : 0 <? len (data n) = true).
  { destruct (0 <? len (data n)) eqn:E; [reflexivity|]. exfalso. apply Hne, len_zero_nil. lia. }
  pose proof (body_size_set_data n d' H) as Hbs.
  destruct n as [c i dt fl nm mm ps pr lm tt ck ns].
  unfold overwrite_data, encode, header_bytes, body_bytes, tail_bytes, pad_source, name_field, mime_field, lm_field,
    ttl_field, pairs_field, data_size, has_name, has_mime, has_lm, has_ttl, has_pairs, name_size, mime_size in *.
  rewrite Hbs. unfold n_set_data in *.
  cbn [cookie id data flags name mime pairs_size pairs last_modified ttl checksum append_at_ns] in *.
  rewrite H, Hpos.
  set (P := (be_encode 4 c ++ be_encode 8 i ++ be_encode 4 (body_size
     {| cookie := c; id := i; data := dt; flags := fl; name := nm; mime := mm; pairs_size := ps;
        pairs := pr; last_modified := lm; ttl := tt; checksum := ck; append_at_ns := ns |})) ++ be_encode 4 (len dt)).
  assert (HP : len P = 20) by (unfold P; rewrite !len_app, !len_be_encode; reflexivity).
  match goal with |- _ = takeN 20 ?E ++ d' ++ dropN (20 + len dt) ?E =>
    match E with (_ ++ (_ ++ dt ++ ?Q0) ++ ?T) =>
      assert (HE : E = P ++ dt ++ (Q0 ++ T)) by (unfold P; rewrite <- !app_assoc; reflexivity);
      transitivity (P ++ d' ++ (Q0 ++ T)); [unfold P; rewrite <- !app_assoc; reflexivity|];
      rewrite HE
    end
  end.
  rewrite takeN_app by assumption.
  rewrite (app_assoc P dt), dropN_app by (rewrite len_app, HP; reflexivity).
  reflexivity.
Qed.

Lemma enc_okb_set_data : forall n d', enc_okb (n_set_data n d') = enc_okb n.
Proof. intros. destruct n. reflexivity. Qed.

Section CrcDetects.
  Variable crc : list N -> N.
  Hypothesis crc_range : forall b, crc b < 2 ^ 32.

  (* A stored record whose data bytes are overwritten (any number of them, same length) is
     reported as corrupted whenever the CRC oracle tells the two byte strings apart. *)
  Lemma altered_data_detected : forall v n d', data n <> [] -> enc_okb n = true -> ranges_ok n ->
    checksum n = crc (data n) -> len d' = len (data n) -> crc d' <> crc (data n) ->
    snd (read_bytes crc (overwrite_data (encode v n) (len (data n)) d') (body_size n) v) = SCrc.
  Proof.
    intros v n d' Hne Hok Hr Hck Hl Hcrc.
    rewrite <- encode_set_data by assumption.
    rewrite <- (app_nil_r (encode v (n_set_data n d'))).
    rewrite <- (body_size_set_data n d' Hl).
    apply read_bytes_crc_error.
    - replace (data (n_set_data n d')) with d' by (destruct n; reflexivity).
      intro E. apply Hne. apply len_zero_nil. rewrite <- Hl, E. reflexivity.
    - rewrite enc_okb_set_data. assumption.
    - destruct Hr as [Hc [Hi [Hbs [Hnm [Hlm [Hps Hns]]]]]].
      unfold ranges_ok. rewrite (body_size_set_data n d' Hl). destruct n; cbn in *. tauto.
    - replace (checksum (n_set_data n d')) with (checksum n) by (destruct n; reflexivity).
      replace (data (n_set_data n d')) with d' by (destruct n; reflexivity).
      rewrite Hck. intro E. apply crc_value_inj in E; auto.
  Qed.
End CrcDetects.

(* ---------- statements in the form used by props/C02.v ---------- *)
Lemma encode_aligned : forall v n, enc_okb n = true ->
  len (encode v n) = actual_size (body_size n) v /\ len (encode v n) mod 8 = 0.
Proof.
  intros v n H. rewrite len_encode by assumption. split; [reflexivity|apply actual_size_aligned].
Qed.

(* trigger of the known finding "empty payload": the needle is written with empty data *)
Definition empty_payload (n : needle) : bool := len (data n) =? 0.

Lemma empty_payload_false : forall n, empty_payload n = false -> data n <> [].
Proof. intros n H E. unfold empty_payload in H. rewrite E in H. discriminate. Qed.

Lemma empty_payload_true : forall n, empty_payload n = true -> data n = [].
Proof. intros n H. apply len_zero_nil. unfold empty_payload in H. lia. Qed.

Lemma roundtrip_partial : forall crc v n, empty_payload n = false -> enc_okb n = true -> ranges_ok n ->
  checksum n = crc (data n) ->
  read_bytes crc (encode v n) (body_size n) v = (dview v n, SOk).
Proof.
  intros crc v n He Hok Hr Hck. rewrite <- (app_nil_r (encode v n)).
  apply read_bytes_enc; auto using empty_payload_false.
Qed.

Lemma roundtrip_in_file : forall crc v n pre post, empty_payload n = false -> enc_okb n = true ->
  ranges_ok n -> checksum n = crc (data n) ->
  read_data crc (pre ++ encode v n ++ post) (len pre) (body_size n) v = (dview v n, SOk).
Proof.
  intros. rewrite read_data_at by auto. apply roundtrip_partial; assumption.
Qed.

Lemma roundtrip_empty : forall crc v n, empty_payload n = true ->
  cookie n < 2 ^ 32 -> id n < 2 ^ 64 -> append_at_ns n < 2 ^ 64 ->
  body_size n = 0 /\ read_bytes crc (encode v n) (body_size n) v = (stripped v n 0, SOk).
Proof.
  intros crc v n He Hc Hi Hns. apply empty_payload_true in He.
  destruct (body_empty n He) as [Hs _]. split; [assumption|].
  rewrite Hs, <- (app_nil_r (encode v n)). apply read_bytes_enc_empty; assumption.
Qed.

(* the full round-trip statement fails for a well-formed needle with empty data: its name is lost *)
Definition empty_witness : needle :=
  {| cookie := 7; id := 1; data := []; flags := 2; name := [97]; mime := []; pairs_size := 0; pairs := [];
     last_modified := 0; ttl := None; checksum := 0; append_at_ns := 5 |}.

Lemma roundtrip_refuted : exists n, enc_okb n = true /\ ranges_ok n /\
  forall crc v, checksum n = crc (data n) ->
    read_bytes crc (encode v n) (body_size n) v <> (dview v n, SOk).
Proof.
  exists empty_witness. split; [reflexivity|]. split.
  { unfold ranges_ok. vm_compute. repeat split; try reflexivity; discriminate. }
  intros crc v _ H.
  destruct (roundtrip_empty crc v empty_witness) as [_ Hr]; try (vm_compute; reflexivity).
  rewrite Hr in H. apply (f_equal (fun p => name (d_n (fst p)))) in H. discriminate H.
Qed.

(* needles all of whose unflagged fields are empty are their own view *)
Definition normalb (v : N) (n : needle) : bool :=
  (has_name n || (len (name n) =? 0)) && (has_mime n || (len (mime n) =? 0))
  && (has_pairs n || ((pairs_size n =? 0) && (len (pairs n) =? 0)))
  && (has_lm n || (last_modified n =? 0))
  && (has_ttl n || match ttl n with None => true | Some _ => false end)
  && ((v =? 3) || (append_at_ns n =? 0)).

Lemma view_normal : forall v n, normalb v n = true -> view v n = n.
Proof.
  intros v n H. unfold normalb in H. repeat (apply andb_true_iff in H; destruct H as [H ?]).
  destruct n as [c i dt fl nm mm ps pr lm tt ck ns].
  unfold view, has_name, has_mime, has_lm, has_ttl, has_pairs in *.
  cbn [cookie id data flags name mime pairs_size pairs last_modified ttl checksum append_at_ns] in *.
  f_equal.
  - destruct (has_flag fl FlagHasName); [reflexivity|]. symmetry. apply len_zero_nil. cbn [orb] in H. lia.
  - destruct (has_flag fl FlagHasMime); [reflexivity|]. symmetry. apply len_zero_nil. cbn [orb] in *. lia.
  - destruct (has_flag fl FlagHasPairs); [reflexivity|]. cbn [orb] in *. lia.
  - destruct (has_flag fl FlagHasPairs); [reflexivity|]. symmetry. apply len_zero_nil. cbn [orb] in *. lia.
  - destruct (has_flag fl FlagHasLastModifiedDate); [reflexivity|]. cbn [orb] in *. lia.
  - destruct (has_flag fl FlagHasTtl); [reflexivity|]. cbn [orb] in *. destruct tt; [discriminate|reflexivity].
  - destruct (v =? 3); [reflexivity|]. cbn [orb] in *. lia.
Qed.

(* the records as written, with their offsets *)
Fixpoint written (v : N) (rs : list needle) (off : N) : list (dneedle * N) :=
  match rs with
  | [] => []
  | n :: rs' => (dview v n, off) :: written v rs' (off + actual_size (body_size n) v)
  end.

Lemma scan_expected_written : forall crc v rs off,
  Forall (fun n => empty_payload n = false /\ checksum n = crc (data n)) rs ->
  scan_expected crc v rs off = written v rs off.
Proof.
  intros crc v rs. induction rs as [|n rs IH]; intros off H; [reflexivity|].
  inversion H as [|? ? [He Hck] Hrs]; subst. cbn [scan_expected written].
  rewrite scan_visit_wf by auto using empty_payload_false. rewrite IH by assumption. reflexivity.
Qed.

Lemma scan_written : forall crc v pre rs, Forall rec_ok rs ->
  Forall (fun n => empty_payload n = false /\ checksum n = crc (data n)) rs ->
  scan crc v (pre ++ concat (map (encode v) rs)) (len pre) = written v rs (len pre).
Proof. intros. rewrite scan_records by assumption. apply scan_expected_written; assumption. Qed.

(* a toy checksum for the non-vacuity examples (NOT CRC32-C; any function will do) *)
Definition toy_crc (b : list N) : N := fold_left (fun a x => (a * 31 + x + 1) mod 4294967296) b 0.

Definition example_needle : needle :=
  {| cookie := 305419896; id := 4660; data := [1; 2; 3; 255; 0]; flags := 191;
     name := [97; 46; 116; 120; 116]; mime := [116; 47; 112]; pairs_size := 2; pairs := [123; 125];
     last_modified := 1600000000; ttl := Some (3, 2); checksum := toy_crc [1; 2; 3; 255; 0];
     append_at_ns := 1600000000123456789 |}.
