(* Proofs about model/VolumeCrash.v (C03), part 2c: the reopened volume (files, byte level) keeps
   simulating the running volume (records) under every further write and delete (histories
   without empty payloads: [wf_op]). *)
From Coq Require Import List NArith ZArith Bool Lia ZifyBool ZifyN ZifyNat.
From SW Require Import model.Needle proof.NeedleProofs model.VolumeCrash proof.VolumeCrashProofs
  proof.VolumeCrashLoad.
Import ListNotations.
Local Open Scope N_scope.
Ltac Zify.zify_post_hook ::= Z.div_mod_to_equations.

Arguments N.add : simpl never.
Arguments N.mul : simpl never.
Arguments N.div : simpl never.
Arguments N.modulo : simpl never.
Arguments N.sub : simpl never.
Arguments N.pow : simpl never.
Arguments N.ltb : simpl never.
Arguments N.leb : simpl never.
Arguments N.eqb : simpl never.
Arguments N.land : simpl never.
Arguments Z.of_N : simpl never.
Arguments Z.to_N : simpl never.
Arguments Z.ltb : simpl never.
Arguments Z.eqb : simpl never.
Arguments Z.opp : simpl never.

(* ---------- needle maps: one operation touches one key ---------- *)
Lemma nm_get_set_other : forall m k v k', k <> k' -> nm_get (nm_set m k v) k' = nm_get m k'.
Proof. intros. unfold nm_set. cbn [nm_get]. destruct (k =? k') eqn:E; [lia|reflexivity]. Qed.

Lemma nm_get_set_same : forall m k v, nm_get (nm_set m k v) k = Some v.
Proof. intros. unfold nm_set. cbn [nm_get]. rewrite N.eqb_refl. reflexivity. Qed.

Lemma nm_get_delete_other : forall m k k', k <> k' -> nm_get (nm_delete m k) k' = nm_get m k'.
Proof.
  intros m k k' H. unfold nm_delete. destruct (nm_get m k) as [v|]; [|reflexivity].
  destruct (size_valid (nv_size v)); [|reflexivity]. cbn [nm_get]. destruct (k =? k') eqn:E; [lia|reflexivity].
Qed.

Lemma nm_get_delete_same : forall m k, nm_get (nm_delete m k) k =
  match nm_get m k with
  | Some v => if size_valid (nv_size v) then Some {| nv_off := nv_off v; nv_size := (- nv_size v)%Z |} else Some v
  | None => None
  end.
Proof.
  intros m k. unfold nm_delete. destruct (nm_get m k) as [v|] eqn:E; [|assumption].
  destruct (size_valid (nv_size v)); [|assumption]. cbn [nm_get]. rewrite N.eqb_refl. reflexivity.
Qed.

Section WithCrc.
  Variable crc : list N -> N.

  Lemma body_pos_data : forall n, 0 < body_size n -> data n <> [].
  Proof. intros n H E. destruct (body_empty n E) as [Hb _]. lia. Qed.

  Lemma newer_true : forall st k, Inv crc st ->
    match nm_get (p_map st) k with Some nv => nv_off nv * 8 <? len (p_dat st) | None => true end = true.
  Proof.
    intros st k HI. destruct (nm_get (p_map st) k) as [nv|] eqn:Eg; [|reflexivity].
    destruct (bound_offset_lt crc st _ nv HI Eg). lia.
  Qed.

  (* a binding of the running volume points at a record of its key that carries a payload slot *)
  Lemma inv_bind : forall st k nv, Inv crc st -> nm_get (p_map st) k = Some nv ->
    exists r, In (nv_off nv * 8, r) (p_recs st) /\ nv_off nv <> 0 /\ id (a_n r) = k /\ a_tomb r = false /\
      (nv_size nv = Z.of_N (body_size (a_n r)) \/
       (nv_size nv = (- Z.of_N (body_size (a_n r)))%Z /\ 0 < body_size (a_n r))).
  Proof.
    intros st k nv HI Hg. destruct (map_from_idx crc st HI k nv Hg) as [e [Hin [Hk [Hoff [Hnz Hsz]]]]].
    destruct (entry_in_idx crc st e HI Hin) as [o [r [Hr He]]].
    destruct (rec_in_dat crc st o r HI Hr) as [pre [post [_ [_ [Hal [Hge Hok]]]]]].
    subst e. unfold entry_of in *. cbn [e_key e_off e_size] in *.
    assert (Eo : nv_off nv * 8 = o) by (rewrite Hoff; lia).
    exists r. rewrite Eo. split; [assumption|]. split; [lia|]. split; [assumption|].
    unfold entry_size, TombstoneFileSize in Hsz. destruct (a_tomb r) eqn:Et.
    - exfalso. destruct Hsz as [[Hs Hne]|[Hs Hv]]; [lia|discriminate Hv].
    - split; [reflexivity|]. destruct Hsz as [[Hs _]|[Hs Hv]]; [left; assumption|].
      right. apply size_valid_pos in Hv. split; [assumption|lia].
  Qed.

  (* ---------- records in the data file of the reopened volume ---------- *)
  Definition rec_at (D : dfile) (off : N) (r : arec) : Prop :=
    exists pre post, d_bytes D = pre ++ encode Ver (a_n r) ++ post /\ len pre = off.

  Definition dfile_ok (D : dfile) : Prop :=
    d_fsize D mod 8 = 0 /\ len (d_bytes D) <= d_fsize D /\ 8 <= d_fsize D.

  Lemma rec_at_append : forall D b off r, rec_at D off r -> rec_at (d_append D b) off r.
  Proof.
    intros D b off r [pre [post [E H]]]. exists pre, (post ++ zeros (d_fsize D - len (d_bytes D)) ++ b).
    split; [|assumption]. unfold d_append. cbn [d_bytes]. rewrite E, <- !app_assoc. reflexivity.
  Qed.

  Lemma dfile_ok_append : forall D b, dfile_ok D -> len b mod 8 = 0 -> dfile_ok (d_append D b).
  Proof.
    intros D b [H1 [H2 H3]] Hb. unfold dfile_ok, d_append. cbn [d_bytes d_fsize].
    rewrite !len_app, len_zeros. repeat split; lia.
  Qed.

  Lemma rec_at_new : forall D r, dfile_ok D -> rec_at (d_append D (encode Ver (a_n r))) (d_fsize D) r.
  Proof.
    intros D r [H1 [H2 H3]]. exists (d_bytes D ++ zeros (d_fsize D - len (d_bytes D))), [].
    split; [unfold d_append; cbn [d_bytes]; rewrite app_nil_r, <- app_assoc; reflexivity|].
    rewrite len_app, len_zeros. lia.
  Qed.

  Lemma rec_at_lt : forall D off r, rec_at D off r -> dfile_ok D -> off + 16 <= d_fsize D.
  Proof.
    intros D off r [pre [post [E H]]] [_ [H2 _]]. pose proof (len_encode_ge Ver (a_n r)).
    rewrite E, !len_app in H2. lia.
  Qed.

  (* ReadData of a record with payload *)
  Lemma read_at : forall D off r, rec_at D off r -> arec_ok crc r -> a_tomb r = false -> 0 < body_size (a_n r) ->
    read_data crc (d_bytes D) off (body_size (a_n r)) Ver = (dview Ver (a_n r), SOk).
  Proof.
    intros D off r [pre [post [E H]]] [[Henc Hrng] Hpay] Ht Hpos. rewrite Ht in Hpay. destruct Hpay as [Hne Hck].
    rewrite E, <- H. apply roundtrip_in_file; auto using empty_payload_of.
  Qed.

  (* ReadNeedleHeader of any record *)
  Lemma header_at : forall D off r, rec_at D off r -> arec_ok crc r ->
    (len (dropN off (d_bytes D)) <? NeedleHeaderSize) = false /\
    parse_header (dropN off (d_bytes D)) = (cookie (a_n r), id (a_n r), body_size (a_n r)).
  Proof.
    intros D off r [pre [post [E H]]] [[Henc Hrng] _]. rewrite E, dropN_app by assumption.
    pose proof (len_encode_ge Ver (a_n r)) as H16. split.
    - rewrite len_app. unfold NeedleHeaderSize. lia.
    - pose proof Hrng as [Hc [Hi [Hb31 _]]].
      assert (Hb32 : body_size (a_n r) < 2 ^ 32)
        by (change (2 ^ 32) with 4294967296; change (2 ^ 31) with 2147483648 in Hb31; lia).
      rewrite encode_split. apply parse_header_bytes; assumption.
  Qed.

  (* ---------- the simulation relation ---------- *)
  (* key k: the same size in both needle maps and the same record behind both bindings *)
  Definition key_rel (L : lstate) (st : pstate) (k : N) : Prop :=
    match nm_get (p_map st) k with
    | None => nm_get (l_map L) k = None
    | Some pv =>
        exists lv r, nm_get (l_map L) k = Some lv /\ nv_size lv = nv_size pv /\ nv_off lv <> 0 /\
          In (nv_off pv * 8, r) (p_recs st) /\ rec_at (l_dat L) (nv_off lv * 8) r
    end.

  Record SimLP (dirty : N -> bool) (L : lstate) (st : pstate) : Prop := {
    sim_nwod : l_nwod L = false;
    sim_file : dfile_ok (l_dat L);
    sim_inv : Inv crc st;
    sim_keys : forall k, dirty k = false -> key_rel L st k
  }.

  (* the record behind a binding of the running volume *)
  Lemma bound_record : forall st k pv r, Inv crc st -> nm_get (p_map st) k = Some pv ->
    In (nv_off pv * 8, r) (p_recs st) ->
    find_rec (p_recs st) (nv_off pv * 8) = Some r /\ nv_off pv <> 0 /\ id (a_n r) = k /\ a_tomb r = false /\
    arec_ok crc r /\
    (nv_size pv = Z.of_N (body_size (a_n r)) \/
     (nv_size pv = (- Z.of_N (body_size (a_n r)))%Z /\ 0 < body_size (a_n r))).
  Proof.
    intros st k pv r HI Hg Hin.
    pose proof (lay_find _ _ _ _ (inv_lay crc st HI) Hin) as Hf.
    destruct (inv_bind st k pv HI Hg) as [r' [Hin' [Hnz [Hid [Ht Hsz]]]]].
    pose proof (lay_find _ _ _ _ (inv_lay crc st HI) Hin') as Hf'.
    rewrite Hf in Hf'. inversion Hf'; subst r'.
    destruct (rec_in_dat crc st _ r HI Hin) as [_ [_ [_ [_ [_ [_ Hok]]]]]].
    auto 10.
  Qed.

  (* ---------- reads ---------- *)
  Lemma sim_read : forall dirty L st k, SimLP dirty L st -> dirty k = false ->
    l_read crc L k = p_read st k.
  Proof.
    intros dirty L st k HS Hd. pose proof (sim_keys _ _ _ HS k Hd) as Hr. pose proof (sim_inv _ _ _ HS) as HI.
    unfold key_rel in Hr. unfold p_read.
    destruct (nm_get (p_map st) k) as [pv|] eqn:Eg.
    - destruct Hr as [lv [r [Hl [Hs [Hnz [Hin Hat]]]]]].
      destruct (bound_record st k pv r HI Eg Hin) as [Hf [Hpnz [Hid [Ht [Hok Hsz]]]]].
      replace (nv_off pv =? 0) with false by lia.
      destruct (size_deleted (nv_size pv)) eqn:Ed.
      { unfold l_read. rewrite Hl, Hs, Ed. replace (nv_off lv =? 0) with false by lia. reflexivity. }
      destruct (nv_size pv =? 0)%Z eqn:Ez.
      { unfold l_read. rewrite Hl, Hs, Ed, Ez. replace (nv_off lv =? 0) with false by lia. reflexivity. }
      apply size_deleted_neg in Ed. rewrite Hf.
      destruct Hsz as [Hsz|[Hsz Hp]]; [|lia].
      assert (Hpos : 0 < body_size (a_n r)) by lia.
      destruct (l_read_live crc L k lv (a_n r) Hl Hnz ltac:(congruence) Hpos) as [Hgo _].
      apply Hgo. apply read_at; assumption.
    - unfold l_read. rewrite Hr. reflexivity.
  Qed.

  (* ---------- one operation leaves the other keys alone ---------- *)
  Definition l_frame (L L' : lstate) (kk : N) : Prop :=
    l_nwod L' = false /\ dfile_ok (l_dat L') /\
    (forall k, k <> kk -> nm_get (l_map L') k = nm_get (l_map L) k) /\
    (forall off r, rec_at (l_dat L) off r -> rec_at (l_dat L') off r).

  Lemma l_frame_refl : forall L kk, l_nwod L = false -> dfile_ok (l_dat L) -> l_frame L L kk.
  Proof.
    intros L kk H1 H2. unfold l_frame. split; [assumption|]. split; [assumption|].
    split; [intros; reflexivity|intros; assumption].
  Qed.

  Lemma enc_len8 : forall n, rec_ok n -> len (encode Ver n) mod 8 = 0.
  Proof. intros n [H _]. apply (encode_aligned Ver n H). Qed.

  Lemma l_write_frame : forall L n, rec_ok n -> l_nwod L = false -> dfile_ok (l_dat L) ->
    l_frame L (fst (l_write crc L n)) (id n).
  Proof.
    intros L n Hok Hn Hd. unfold l_write. rewrite Hn.
    destruct (l_unchanged crc L n); [apply l_frame_refl; assumption|].
    match goal with |- context [if ?c then (L, WOther) else _] => destruct c end;
      [apply l_frame_refl; assumption|].
    match goal with |- context [if ?c then _ else _] => destruct c end; cbn [fst];
      (split; [reflexivity|]; cbn [l_dat l_map];
       split; [apply dfile_ok_append; [assumption|apply enc_len8; assumption]|];
       split; [|intros off r Hr; apply rec_at_append; assumption]).
    - intros k Hk. apply nm_get_set_other. congruence.
    - reflexivity.
  Qed.

  Lemma tombstone_rec_ok : forall k c ts, k < 2 ^ 64 -> c < 2 ^ 32 -> ts < 2 ^ 64 -> rec_ok (tombstone k c ts).
  Proof. intros k c ts H1 H2 H3. destruct (tombstone_ok crc k c ts H1 H2 H3) as [H _]. exact H. Qed.

  Lemma l_delete_frame : forall L k c ts, wf_op crc (Delete k c ts) -> l_nwod L = false -> dfile_ok (l_dat L) ->
    l_frame L (fst (l_delete L k c ts)) k.
  Proof.
    intros L k c ts [H1 [H2 H3]] Hn Hd. unfold l_delete. rewrite Hn.
    destruct (nm_get (l_map L) k) as [nv|]; [|apply l_frame_refl; assumption].
    destruct (size_valid (nv_size nv)); [|apply l_frame_refl; assumption].
    cbn [fst]. split; [reflexivity|]. cbn [l_dat l_map].
    split; [apply dfile_ok_append; [assumption|apply enc_len8; apply tombstone_rec_ok; assumption]|].
    split; [|intros off r Hr; apply rec_at_append; assumption].
    intros k' Hk. apply nm_get_delete_other. congruence.
  Qed.

  Lemma l_step_frame : forall L o, wf_op crc o -> l_nwod L = false -> dfile_ok (l_dat L) ->
    l_frame L (fst (l_step crc L o)) (op_key o).
  Proof.
    intros L [n|k c ts] Hw Hn Hd; cbn [l_step op_key].
    - pose proof (l_write_frame L n (proj1 Hw) Hn Hd) as H. destruct (l_write crc L n) as [L' w]. exact H.
    - pose proof (l_delete_frame L k c ts Hw Hn Hd) as H. destruct (l_delete L k c ts) as [L' [ro sz]]. exact H.
  Qed.

  Lemma p_step_frame : forall st o, Inv crc st ->
    (forall k, k <> op_key o -> nm_get (p_map (p_step st o)) k = nm_get (p_map st) k) /\
    (forall x, In x (p_recs st) -> In x (p_recs (p_step st o))).
  Proof.
    intros st o HI. split.
    - intros k Hk. destruct o as [n|k0 c ts]; cbn [p_step op_key] in *.
      + unfold p_write. destruct (p_unchanged st n); [reflexivity|].
        destruct (negb (p_cookie_ok st n)); [reflexivity|].
        match goal with |- context [if ?c then _ else _] => destruct c end; unfold p_append; cbn [p_map];
          [apply nm_get_set_other; congruence|reflexivity].
      + unfold p_delete. destruct (nm_get (p_map st) k0) as [nv|]; [|reflexivity].
        destruct (size_valid (nv_size nv)); [|reflexivity].
        unfold p_append. cbn [p_map]. apply nm_get_delete_other. congruence.
    - intros x Hx. destruct (step_extends crc st o HI) as [X [Y [Z [_ [_ [EZ _]]]]]].
      rewrite EZ. apply in_or_app. left. assumption.
  Qed.

  Lemma key_rel_frame : forall L L' st o k, Inv crc st -> l_frame L L' (op_key o) -> k <> op_key o ->
    key_rel L st k -> key_rel L' (p_step st o) k.
  Proof.
    intros L L' st o k HI [_ [_ [Hm Hr]]] Hk Hrel. destruct (p_step_frame st o HI) as [Hpm Hpr].
    unfold key_rel in *. rewrite (Hpm k Hk), (Hm k Hk).
    destruct (nm_get (p_map st) k) as [pv|]; [|assumption].
    destruct Hrel as [lv [r [H1 [H2 [H3 [H4 H5]]]]]]. exists lv, r. auto 10.
  Qed.

  (* ---------- a write on a key in the relation ---------- *)
  Lemma dview_fields : forall n, cookie (d_n (dview Ver n)) = cookie n /\ checksum (d_n (dview Ver n)) = checksum n /\
    data (d_n (dview Ver n)) = data n.
  Proof. intros. repeat split. Qed.

  (* both files of the reopened volume are those of the running volume *)
  Definition files_eq (L : lstate) (st : pstate) : Prop :=
    d_bytes (l_dat L) = p_dat st /\ d_fsize (l_dat L) = len (p_dat st) /\ l_idx L = p_idx st.

  Lemma files_eq_append : forall L st r lm pm, files_eq L st ->
    files_eq {| l_dat := d_append (l_dat L) (encode Ver (a_n r));
                l_idx := l_idx L ++ [entry_of (d_fsize (l_dat L)) r]; l_map := lm; l_nwod := false |}
             (p_append st r pm true).
  Proof.
    intros L st r lm pm [H1 [H2 H3]]. unfold files_eq, p_append, d_append. cbn [l_dat l_idx d_bytes d_fsize p_dat p_idx].
    replace (d_fsize (l_dat L) - len (d_bytes (l_dat L))) with 0 by (rewrite H1, H2; lia).
    change (zeros 0) with (@nil N). cbn [app]. rewrite H1, H2, H3, len_app. auto.
  Qed.

  Lemma sim_write_key : forall L st n, Inv crc st -> dfile_ok (l_dat L) -> l_nwod L = false ->
    wf_op crc (Write n) -> key_rel L st (id n) ->
    key_rel (fst (l_write crc L n)) (p_write st n) (id n) /\
    RW (snd (l_write crc L n)) = p_res st (Write n) /\
    (files_eq L st -> files_eq (fst (l_write crc L n)) (p_write st n)).
  Proof.
    intros L st n HI Hd Hn [Hok Hck] Hrel.
    destruct (len_dat_ge8 crc st HI) as [H8 Hal]. pose proof Hd as [Hf1 [Hf2 Hf3]].
    (* both sides append and bind the key to the new record *)
    assert (Happ : forall m lm li,
      key_rel {| l_dat := d_append (l_dat L) (encode Ver n); l_idx := li;
                 l_map := nm_set lm (id n) {| nv_off := d_fsize (l_dat L) / 8; nv_size := Z.of_N (body_size n) |};
                 l_nwod := false |}
              (p_append st {| a_n := n; a_tomb := false |}
                 (nm_set m (id n) {| nv_off := len (p_dat st) / 8; nv_size := Z.of_N (body_size n) |}) true) (id n)).
    { intros m lm li. unfold key_rel, p_append. cbn [p_map p_recs l_map l_dat]. rewrite !nm_get_set_same.
      eexists _, {| a_n := n; a_tomb := false |}. split; [reflexivity|]. cbn [nv_size nv_off].
      split; [reflexivity|]. split; [lia|]. split.
      - replace (len (p_dat st) / 8 * 8) with (len (p_dat st)) by lia. apply in_or_app. right. left. reflexivity.
      - replace (d_fsize (l_dat L) / 8 * 8) with (d_fsize (l_dat L)) by lia.
        apply (rec_at_new (l_dat L) {| a_n := n; a_tomb := false |}). assumption. }
    assert (Hfe : forall lm pm, files_eq L st ->
      files_eq {| l_dat := d_append (l_dat L) (encode Ver n);
                  l_idx := l_idx L ++ [{| e_key := id n; e_off := d_fsize (l_dat L) / 8; e_size := Z.of_N (body_size n) |}];
                  l_map := lm; l_nwod := false |}
               (p_append st {| a_n := n; a_tomb := false |} pm true)).
    { intros lm pm H. apply (files_eq_append L st {| a_n := n; a_tomb := false |} lm pm H). }
    unfold key_rel in Hrel. unfold p_res, p_write, l_write. rewrite Hn.
    destruct (nm_get (p_map st) (id n)) as [pv|] eqn:Eg.
    - destruct Hrel as [lv [r [Hl [Hs [Hnz [Hin Hat]]]]]].
      destruct (bound_record st (id n) pv r HI Eg Hin) as [Hf [Hpnz [Hid [Ht [Hrok Hsz]]]]].
      destruct (header_at (l_dat L) _ r Hat Hrok) as [Hh1 Hh2].
      (* isFileUnchanged agrees *)
      assert (Hu : l_unchanged crc L n = p_unchanged st n).
      { unfold l_unchanged, p_unchanged. rewrite Hl, Eg, Hs.
        replace (negb (nv_off lv =? 0)) with true by lia. replace (negb (nv_off pv =? 0)) with true by lia.
        cbn [andb]. destruct (size_valid (nv_size pv)) eqn:Ev; [|reflexivity].
        apply size_valid_pos in Ev. destruct Hsz as [Hsz|[Hsz Hp]]; [|lia].
        rewrite Hf, Hsz, N2Z.id, (read_at (l_dat L) _ r Hat Hrok Ht ltac:(lia)). cbn [fst snd].
        destruct (dview_fields (a_n r)) as [-> [-> ->]]. reflexivity. }
      rewrite Hu. destruct (p_unchanged st n); [cbn [fst snd]; split; [|split; [reflexivity|auto]]|].
      { unfold key_rel. rewrite Eg. exists lv, r. auto 10. }
      (* the cookie check agrees *)
      assert (Hc : p_cookie_ok st n = (cookie (a_n r) =? cookie n)).
      { unfold p_cookie_ok. rewrite Eg, Hf. reflexivity. }
      rewrite Hl, Hh1, Hh2, Hc.
      destruct (cookie (a_n r) =? cookie n); cbn [negb fst snd]; [|split; [|split; [reflexivity|auto]]].
      + pose proof (rec_at_lt _ _ _ Hat Hd) as Hlt.
        replace (nv_off lv * 8 <? d_fsize (l_dat L)) with true by lia.
        pose proof (newer_true st (id n) HI) as Hnew. rewrite Eg in Hnew. rewrite Hnew.
        cbn [fst snd]. split; [apply Happ|]. split; [reflexivity|apply Hfe].
      + unfold key_rel. rewrite Eg. exists lv, r. auto 10.
    - assert (Hu : l_unchanged crc L n = false) by (unfold l_unchanged; rewrite Hrel; reflexivity).
      assert (Hpu : p_unchanged st n = false) by (unfold p_unchanged; rewrite Eg; reflexivity).
      assert (Hpc : p_cookie_ok st n = true) by (unfold p_cookie_ok; rewrite Eg; reflexivity).
      rewrite Hu, Hpu, Hpc, Hrel. cbn [negb fst snd].
      split; [apply Happ|]. split; [reflexivity|apply Hfe].
  Qed.

  (* ---------- a delete on a key in the relation ---------- *)
  Lemma sim_delete_key : forall L st k c ts, Inv crc st -> dfile_ok (l_dat L) -> l_nwod L = false ->
    key_rel L st k ->
    key_rel (fst (l_delete L k c ts)) (p_delete st k c ts) k /\
    (let '(ro, sz) := snd (l_delete L k c ts) in RD ro sz) = p_res st (Delete k c ts) /\
    (files_eq L st -> files_eq (fst (l_delete L k c ts)) (p_delete st k c ts)).
  Proof.
    intros L st k c ts HI Hd Hn Hrel. pose proof Hrel as Hrel0.
    unfold key_rel in Hrel. unfold p_res, p_delete, l_delete. rewrite Hn.
    destruct (nm_get (p_map st) k) as [pv|] eqn:Eg.
    - destruct Hrel as [lv [r [Hl [Hs [Hnz [Hin Hat]]]]]]. rewrite Hl, Hs.
      destruct (size_valid (nv_size pv)) eqn:Ev; cbn [fst snd]; [|split; [assumption|split; [reflexivity|auto]]].
      split; [|split; [reflexivity|]].
      + unfold key_rel, p_append. cbn [p_map p_recs l_map l_dat].
        rewrite !nm_get_delete_same, Eg, Hl, Hs, Ev.
        exists {| nv_off := nv_off lv; nv_size := (- nv_size pv)%Z |}, r. cbn [nv_off nv_size].
        split; [reflexivity|]. split; [reflexivity|]. split; [assumption|].
        split; [apply in_or_app; left; assumption|apply rec_at_append; assumption].
      + intros H. apply (files_eq_append L st {| a_n := tombstone k c ts; a_tomb := true |} _ _ H).
    - rewrite Hrel. cbn [fst snd]. split; [assumption|split; [reflexivity|auto]].
  Qed.

  (* ---------- one step ---------- *)
  Lemma sim_step : forall dirty L st o, SimLP dirty L st -> wf_op crc o ->
    SimLP dirty (fst (l_step crc L o)) (p_step st o) /\
    (dirty (op_key o) = false -> snd (l_step crc L o) = p_res st o).
  Proof.
    intros dirty L st o [Hn Hd HI Hk] Hw.
    pose proof (l_step_frame L o Hw Hn Hd) as Hfr.
    assert (Hkey : dirty (op_key o) = false ->
      key_rel (fst (l_step crc L o)) (p_step st o) (op_key o) /\ snd (l_step crc L o) = p_res st o).
    { intros Hcl. specialize (Hk _ Hcl). destruct o as [n|k c ts]; cbn [l_step p_step op_key] in *.
      - destruct (sim_write_key L st n HI Hd Hn Hw Hk) as [H1 [H2 _]].
        destruct (l_write crc L n) as [L' w]. cbn [fst snd] in *. auto.
      - destruct (sim_delete_key L st k c ts HI Hd Hn Hk) as [H1 [H2 _]].
        destruct (l_delete L k c ts) as [L' [ro sz]]. cbn [fst snd] in *. auto. }
    split; [|intros Hcl; apply Hkey; assumption].
    pose proof Hfr as [F1 [F2 _]].
    constructor; [assumption|assumption|apply inv_step; assumption|].
    intros k Hcl. destruct (N.eq_dec k (op_key o)) as [->|Hne].
    - apply Hkey. assumption.
    - eapply key_rel_frame; eauto.
  Qed.

  (* when no key is excluded, the files stay byte-identical to those of the running volume *)
  Lemma files_step : forall L st o, SimLP (fun _ => false) L st -> files_eq L st -> wf_op crc o ->
    files_eq (fst (l_step crc L o)) (p_step st o).
  Proof.
    intros L st o [Hn Hd HI Hk] Hfe Hw. specialize (Hk (op_key o) eq_refl).
    destruct o as [n|k c ts]; cbn [l_step p_step op_key] in *.
    - destruct (sim_write_key L st n HI Hd Hn Hw Hk) as [_ [_ H3]].
      destruct (l_write crc L n) as [L' w]. cbn [fst] in *. auto.
    - destruct (sim_delete_key L st k c ts HI Hd Hn Hk) as [_ [_ H3]].
      destruct (l_delete L k c ts) as [L' [ro sz]]. cbn [fst] in *. auto.
  Qed.

  Lemma files_after : forall h L st, SimLP (fun _ => false) L st -> files_eq L st -> Forall (wf_op crc) h ->
    files_eq (l_after crc L h) (fold_left p_step h st).
  Proof.
    induction h as [|o h IH]; intros L st HS Hfe Hw; [assumption|].
    inversion Hw; subst. unfold l_after. cbn [fold_left]. apply IH; [| |assumption].
    - apply sim_step; assumption.
    - apply files_step; assumption.
  Qed.

  Lemma l_after_snoc : forall L h o, l_after crc L (h ++ [o]) = fst (l_step crc (l_after crc L h) o).
  Proof. intros. unfold l_after. rewrite fold_left_app. reflexivity. Qed.

  Lemma sim_after : forall dirty h L st, SimLP dirty L st -> Forall (wf_op crc) h ->
    SimLP dirty (l_after crc L h) (fold_left p_step h st).
  Proof.
    intros dirty h. induction h as [|o h IH]; intros L st HS Hw; [assumption|].
    inversion Hw; subst. unfold l_after. cbn [fold_left]. apply IH; [|assumption].
    apply sim_step; assumption.
  Qed.

  (* ---------- the relation holds when the volume comes up ---------- *)
  Lemma sim_reopen : forall st D es, Inv crc st -> good_dat st D ->
    SimLP (fun _ => false) {| l_dat := D; l_idx := es; l_map := p_map st; l_nwod := false |} st.
  Proof.
    intros st D es HI [[T HT] [Hal Hle]]. destruct (len_dat_ge8 crc st HI) as [H8 _].
    constructor; [reflexivity| |assumption|].
    - cbn [l_dat]. repeat split; try assumption. rewrite HT, len_app in Hle. lia.
    - intros k _. unfold key_rel. cbn [l_map l_dat].
      destruct (nm_get (p_map st) k) as [pv|] eqn:Eg; [|reflexivity].
      destruct (inv_bind st k pv HI Eg) as [r [Hin [Hnz _]]].
      exists pv, r. split; [reflexivity|]. split; [reflexivity|]. split; [assumption|]. split; [assumption|].
      destruct (rec_in_dat crc st _ r HI Hin) as [pre [post [HX [Hlen _]]]].
      exists pre, (post ++ T). split; [rewrite HT, HX, <- !app_assoc; reflexivity|assumption].
  Qed.
End WithCrc.
