(* Proofs about model/VolPlanner.v (C15), part 9: decidable well-formedness and the
   concrete witnesses of the confirmed defects (all evaluated by vm_compute). *)
From Coq Require Import List NArith ZArith Bool Arith Lia Permutation.
From SW Require Import model.VolPlanner proof.VolPlannerProofs proof.VolPlannerProofs2
  proof.VolPlannerProofs3.
Import ListNotations.

Definition nodupb_N (l : list N) : bool := Nat.eqb (length (nodup N.eq_dec l)) (length l).
Definition wf_snapb (s : snapshot) : bool :=
  nodupb_N (map n_id s) && forallb (fun n => nodupb_N (map v_id (all_vols n))) s.

Lemma nodupb_N_iff : forall l, nodupb_N l = true <-> NoDup l.
Proof.
  intros l. unfold nodupb_N. rewrite Nat.eqb_eq. split.
  - apply nodup_len_NoDup.
  - apply NoDup_nodup_len.
Qed.

Lemma wf_snapb_iff : forall s, wf_snapb s = true <-> wf_snap s.
Proof.
  intros s. unfold wf_snapb, wf_snap. rewrite andb_true_iff, nodupb_N_iff, forallb_forall.
  split; intros [H1 H2]; split; auto; intros n Hn; apply nodupb_N_iff; auto.
Qed.

(* ---------- witness snapshots (the first cases of every harness run) ---------- *)
Local Open Scope N_scope.
Definition mkvol (id rp size : N) (ro : bool) : vol :=
  {| v_id := id; v_coll := 0; v_rp := rp; v_size := size; v_ro := ro; v_dt := 0; v_mtime := 1; v_crev := 0 |}.
Definition mknode (dc rack id : N) (max : Z) (vs : list vol) : node :=
  {| n_loc := {| l_dc := dc; l_rack := rack; l_node := id |};
     n_disks := [ {| d_type := 0; d_max := max; d_count := Z.of_nat (length vs); d_vols := vs |} ] |}.

(* k=0: n1 holds two writable volumes, both slots of n2 hold read-only volumes *)
Definition w0_snap : snapshot :=
  [ mknode 1 1 1 2 [mkvol 1 0 10 false; mkvol 2 0 20 false];
    mknode 1 1 2 2 [mkvol 3 0 10 true; mkvol 4 0 10 true] ].
Definition w0_plan : list step := [Move 1 0 1 2; Move 3 0 2 1].
(* k=1: n2 is full *)
Definition w1_snap : snapshot := [ mknode 1 1 1 2 [mkvol 1 0 10 false]; mknode 1 1 2 1 [mkvol 3 0 10 false] ].
Definition w1_events : list eevent := [EMove 1 0 2].
(* repaired (formerly finding 2): two 001 volumes lack a copy, n2 has one free slot *)
Definition w2_snap : snapshot :=
  [ mknode 1 1 1 4 [mkvol 1 1 10 false; mkvol 2 1 10 false];
    mknode 1 1 2 3 [mkvol 3 0 10 false; mkvol 4 0 10 false] ].
Definition w2_events : list fevent := [FCopy 1 1 2; FNoPlace 2].
(* repaired (formerly finding 3): -retry 1 *)
Definition w3_snap : snapshot := [ mknode 1 1 1 4 [mkvol 1 1 10 false]; mknode 1 1 2 4 []; mknode 1 1 3 4 [] ].
Definition w3_events : list fevent := [FCopy 1 1 2].
(* repaired (formerly finding 4): volume 1 (000) writable on n1, read-only on n2 *)
Definition w4_snap : snapshot :=
  [ mknode 1 1 1 4 [mkvol 1 0 10 false; mkvol 2 0 10 false]; mknode 1 1 2 4 [mkvol 1 0 10 true] ].
Definition w4_plan : list step := [Move 2 0 1 2].
(* k=2: replication 120 laid out as 3 racks + 1 *)
Definition w5_snap : snapshot :=
  [ mknode 1 1 1 4 [mkvol 1 120 10 false]; mknode 1 2 2 4 [mkvol 1 120 10 false];
    mknode 1 3 3 4 [mkvol 1 120 10 false]; mknode 2 1 4 4 [mkvol 1 120 10 false]; mknode 2 2 5 4 [] ].
Definition w5_events : list eevent := [EMove 1 0 5].
Local Close Scope N_scope.

Definition is_some {A} (o : option A) : bool := match o with Some _ => true | None => false end.

Lemma w0_facts : wf_snapb w0_snap = true /\
  is_some (balance_accepts 1000 w0_snap [None] [0%N] w0_plan) = true /\
  ok_cap (prop_trace w0_snap (init_world w0_snap) w0_plan) = false.
Proof. vm_compute. auto. Qed.

Lemma w1_facts : wf_snapb w1_snap = true /\ evac_accepts w1_snap 1 true w1_events = true /\
  ok_cap (prop_trace w1_snap (init_world w1_snap) (evac_steps 1 w1_events)) = false.
Proof. vm_compute. auto. Qed.

Lemma w2_facts : wf_snapb w2_snap = true /\ counts_okb w2_snap = true /\
  fix_accepts w2_snap 0 w2_events = true /\
  fix_accepts w2_snap 0 [FCopy 1 1 2; FCopy 2 1 2]%N = false /\
  v4_all (prop_trace w2_snap (init_world w2_snap) (fix_steps w2_events)) = true.
Proof. vm_compute. auto. Qed.

Lemma w3_facts : wf_snapb w3_snap = true /\ fix_accepts w3_snap 1 w3_events = true /\
  fix_accepts w3_snap 1 [FCopy 1 1 2; FCopy 1 1 2]%N = false /\
  v4_all (prop_trace w3_snap (init_world w3_snap) (fix_steps w3_events)) = true.
Proof. vm_compute. auto. Qed.

Lemma w4_facts : wf_snapb w4_snap = true /\
  is_some (balance_accepts 1000 w4_snap [None] [0%N] w4_plan) = true /\
  is_some (balance_accepts 1000 w4_snap [None] [0%N] [Move 1 0 1 2]%N) = false /\
  v4_all (prop_trace w4_snap (init_world w4_snap) w4_plan) = true.
Proof. vm_compute. auto. Qed.

Lemma w5_facts : wf_snapb w5_snap = true /\ evac_accepts w5_snap 3 true w5_events = true /\
  ok_pres (prop_trace w5_snap (init_world w5_snap) (evac_steps 3 w5_events)) = false.
Proof. vm_compute. auto. Qed.

(* isGoodMove itself: 120 laid out 3+1, moving the third rack's copy to the other data center *)
Definition w5_reps : list loc :=
  [ {| l_dc := 1; l_rack := 1; l_node := 1 |}; {| l_dc := 1; l_rack := 2; l_node := 2 |};
    {| l_dc := 1; l_rack := 3; l_node := 3 |}; {| l_dc := 2; l_rack := 1; l_node := 4 |} ]%N.
Lemma w5_fn_facts :
  let p := rp_of_byte 120 in
  let f := {| l_dc := 1; l_rack := 3; l_node := 3 |}%N in
  let t := {| l_dc := 2; l_rack := 2; l_node := 5 |}%N in
  valid_placement p w5_reps = true /\ is_good_move p w5_reps f t = true /\
  valid_placement p (relocate_loc f t w5_reps) = false.
Proof. vm_compute. auto. Qed.

(* ---------- a run where everything holds (non-vacuity) ---------- *)
Definition ex_snap : snapshot :=
  [ mknode 1 1 1 4 [mkvol 1 0 10 false; mkvol 2 0 20 false; mkvol 3 1 30 false];
    mknode 1 1 2 4 [mkvol 3 1 30 false]; mknode 1 2 3 4 [] ]%N.
Definition ex_plan : list step := [Move 1 0 1 3]%N.
Definition ex_fix_snap : snapshot :=
  [ mknode 1 1 1 4 [mkvol 1 10 10 false]; mknode 1 1 2 4 []; mknode 1 2 3 4 [] ]%N.
