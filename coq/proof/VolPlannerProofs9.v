(* Proofs about model/VolPlanner.v (C15), part 9: decidable well-formedness and the
   concrete witnesses of the confirmed defects (all evaluated by vm_compute). *)
From Coq Require Import List NArith ZArith Bool Arith Lia Permutation.
From SW Require Import model.VolPlanner proof.VolPlannerProofs proof.VolPlannerProofs2
  proof.VolPlannerProofs3 proof.VolPlannerProofs5 proof.VolPlannerProofs6.
Import ListNotations.

Definition nodupb_N (l : list N) : bool := Nat.eqb (length (nodup N.eq_dec l)) (length l).
Definition wf_snapb (s : snapshot) : bool :=
  nodupb_N (map n_id s) && forallb (fun n => nodupb_N (map v_id (all_vols n))) s.

Lemma nodupb_N_iff : forall l, nodupb_N l = true <-> NoDup l.
Proof.
  intros l. unfold nodupb_N. rewrite Nat.eqb_eq. split.
  - apply nodup_len_NoDup.
  - apply NoDup_nodup_len.
Qed.

Lemma wf_snapb_iff : forall s, wf_snapb s = true <-> wf_snap s.
Proof.
  intros s. unfold wf_snapb, wf_snap. rewrite andb_true_iff, nodupb_N_iff, forallb_forall.
  split; intros [H1 H2]; split; auto; intros n Hn; apply nodupb_N_iff; auto.
Qed.

(* ---------- witness snapshots (the first cases of every harness run) ---------- *)
Local Open Scope N_scope.
Definition mkvol (id rp size : N) (ro : bool) : vol :=
  {| v_id := id; v_coll := 0; v_rp := rp; v_size := size; v_ro := ro; v_dt := 0; v_mtime := 1; v_crev := 0 |}.
Definition mknode (dc rack id : N) (max : Z) (vs : list vol) : node :=
  {| n_loc := {| l_dc := dc; l_rack := rack; l_node := id |};
     n_disks := [ {| d_type := 0; d_max := max; d_count := Z.of_nat (length vs); d_vols := vs |} ] |}.

(* k=0: n1 holds two writable volumes, both slots of n2 hold read-only volumes *)
Definition w0_snap : snapshot :=
  [ mknode 1 1 1 2 [mkvol 1 0 10 false; mkvol 2 0 20 false];
    mknode 1 1 2 2 [mkvol 3 0 10 true; mkvol 4 0 10 true] ].
Definition w0_plan : list step := [Move 1 0 1 2; Move 3 0 2 1].
(* k=1: n2 is full *)
Definition w1_snap : snapshot := [ mknode 1 1 1 2 [mkvol 1 0 10 false]; mknode 1 1 2 1 [mkvol 3 0 10 false] ].
Definition w1_events : list eevent := [EMove 1 0 2].
(* repaired (formerly finding 2): two 001 volumes lack a copy, n2 has one free slot *)
Definition w2_snap : snapshot :=
  [ mknode 1 1 1 4 [mkvol 1 1 10 false; mkvol 2 1 10 false];
    mknode 1 1 2 3 [mkvol 3 0 10 false; mkvol 4 0 10 false] ].
Definition w2_events : list fevent := [FCopy 1 1 2; FNoPlace 2].
(* repaired (formerly finding 3): -retry 1 *)
Definition w3_snap : snapshot := [ mknode 1 1 1 4 [mkvol 1 1 10 false]; mknode 1 1 2 4 []; mknode 1 1 3 4 [] ].
Definition w3_events : list fevent := [FCopy 1 1 2].
(* repaired (formerly finding 4): volume 1 (000) writable on n1, read-only on n2 *)
Definition w4_snap : snapshot :=
  [ mknode 1 1 1 4 [mkvol 1 0 10 false; mkvol 2 0 10 false]; mknode 1 1 2 4 [mkvol 1 0 10 true] ].
Definition w4_plan : list step := [Move 2 0 1 2].
(* k=2: replication 120 laid out as 3 racks + 1 *)
Definition w5_snap : snapshot :=
  [ mknode 1 1 1 4 [mkvol 1 120 10 false]; mknode 1 2 2 4 [mkvol 1 120 10 false];
    mknode 1 3 3 4 [mkvol 1 120 10 false]; mknode 2 1 4 4 [mkvol 1 120 10 false]; mknode 2 2 5 4 [] ].
Definition w5_events : list eevent := [EMove 1 0 5].
Local Close Scope N_scope.

Definition is_some {A} (o : option A) : bool := match o with Some _ => true | None => false end.

Lemma w0_facts : wf_snapb w0_snap = true /\
  is_some (balance_accepts 1000 w0_snap [None] [0%N] w0_plan) = true /\
  ok_cap (prop_trace w0_snap (init_world w0_snap) w0_plan) = false.
Proof. vm_compute. auto. Qed.

Lemma w1_facts : wf_snapb w1_snap = true /\ evac_accepts w1_snap 1 true w1_events = true /\
  ok_cap (prop_trace w1_snap (init_world w1_snap) (evac_steps 1 w1_events)) = false.
Proof. vm_compute. auto. Qed.

Lemma w2_facts : wf_snapb w2_snap = true /\ counts_okb w2_snap = true /\
  fix_accepts w2_snap 0 w2_events = true /\
  fix_accepts w2_snap 0 [FCopy 1 1 2; FCopy 2 1 2]%N = false /\
  v4_all (prop_trace w2_snap (init_world w2_snap) (fix_steps w2_events)) = true.
Proof. vm_compute. auto. Qed.

Lemma w3_facts : wf_snapb w3_snap = true /\ fix_accepts w3_snap 1 w3_events = true /\
  fix_accepts w3_snap 1 [FCopy 1 1 2; FCopy 1 1 2]%N = false /\
  v4_all (prop_trace w3_snap (init_world w3_snap) (fix_steps w3_events)) = true.
Proof. vm_compute. auto. Qed.

Lemma w4_facts : wf_snapb w4_snap = true /\
  is_some (balance_accepts 1000 w4_snap [None] [0%N] w4_plan) = true /\
  is_some (balance_accepts 1000 w4_snap [None] [0%N] [Move 1 0 1 2]%N) = false /\
  v4_all (prop_trace w4_snap (init_world w4_snap) w4_plan) = true.
Proof. vm_compute. auto. Qed.

Lemma w5_facts : wf_snapb w5_snap = true /\ evac_accepts w5_snap 3 true w5_events = true /\
  ok_pres (prop_trace w5_snap (init_world w5_snap) (evac_steps 3 w5_events)) = false.
Proof. vm_compute. auto. Qed.

(* isGoodMove itself: 120 laid out 3+1, moving the third rack's copy to the other data center *)
Definition w5_reps : list loc :=
  [ {| l_dc := 1; l_rack := 1; l_node := 1 |}; {| l_dc := 1; l_rack := 2; l_node := 2 |};
    {| l_dc := 1; l_rack := 3; l_node := 3 |}; {| l_dc := 2; l_rack := 1; l_node := 4 |} ]%N.
Lemma w5_fn_facts :
  let p := rp_of_byte 120 in
  let f := {| l_dc := 1; l_rack := 3; l_node := 3 |}%N in
  let t := {| l_dc := 2; l_rack := 2; l_node := 5 |}%N in
  valid_placement p w5_reps = true /\ is_good_move p w5_reps f t = true /\
  valid_placement p (relocate_loc f t w5_reps) = false.
Proof. vm_compute. auto. Qed.

(* ---------- a run where everything holds (non-vacuity) ---------- *)
Definition ex_snap : snapshot :=
  [ mknode 1 1 1 4 [mkvol 1 0 10 false; mkvol 2 0 20 false; mkvol 3 1 30 false];
    mknode 1 1 2 4 [mkvol 3 1 30 false]; mknode 1 2 3 4 [] ]%N.
Definition ex_plan : list step := [Move 1 0 1 3]%N.
Definition ex_fix_snap : snapshot :=
  [ mknode 1 1 1 4 [mkvol 1 10 10 false]; mknode 1 1 2 4 []; mknode 1 2 3 4 [] ]%N.

(* ---------- k=3: an over-replicated 010 volume on n1(r1), n2(r1), n3(r2); n3 is the oldest ---------- *)
Definition mkvolm (id rp size mtime : N) : vol :=
  {| v_id := id; v_coll := 0; v_rp := rp; v_size := size; v_ro := false; v_dt := 0; v_mtime := mtime; v_crev := 0 |}.
Definition w6_snap : snapshot :=
  [ mknode 1 1 1 4 [mkvolm 1 10 10 2]; mknode 1 1 2 4 [mkvolm 1 10 10 2]; mknode 1 2 3 4 [mkvolm 1 10 10 1] ]%N.
Definition w6_events : list fevent := [FOver 1; FDelete 1 3]%N.
Lemma w6_facts : wf_snapb w6_snap = true /\ counts_okb w6_snap = true /\
  fix_accepts w6_snap 0 w6_events = true /\
  (* {n1, n3} and {n2, n3} are valid 010 layouts, {n1, n2} is not *)
  has_valid_subset (rp_of_byte 10) (locs (reps_of w6_snap 1)) = true /\
  has_valid_subset (rp_of_byte 10) (locs (remove_at 3 (reps_of w6_snap 1))) = false /\
  ok_pres (prop_trace w6_snap (init_world w6_snap) (fix_steps w6_events)) = false /\
  step_delete_trig (init_world w6_snap) (Delete 1 3) = true /\
  (* purging n1 or n2 instead would have kept the placement, but the age order forbids it *)
  fix_accepts w6_snap 0 [FOver 1; FDelete 1 1]%N = false /\
  ok_pres (prop_trace w6_snap (init_world w6_snap) [Delete 1 1]%N) = true.
Proof. vm_compute. repeat split; reflexivity. Qed.

(* with all copies equally old any of them may be purged, whatever the volume: only the HEAD
   of the over-replicated list is handled in a dry run *)
Definition w6b_snap : snapshot :=
  [ mknode 1 1 1 4 [mkvol 1 0 10 false; mkvol 2 0 10 false]; mknode 1 1 2 4 [mkvol 1 0 10 false; mkvol 2 0 10 false] ]%N.
Lemma w6b_facts :
  fix_accepts w6b_snap 0 [FOver 1; FOver 2; FDelete 1 2]%N = true /\
  fix_accepts w6b_snap 0 [FOver 2; FOver 1; FDelete 2 1]%N = true /\
  fix_accepts w6b_snap 0 [FOver 1; FOver 2; FDelete 2 1]%N = false /\
  step_delete_trig (init_world w6b_snap) (Delete 1 2) = false.
Proof. vm_compute. repeat split; reflexivity. Qed.

(* ---------- one volume moved twice in one volume.balance run ---------- *)
(* 010 volume 1 on the full servers n1 (r1) and n2 (r2); empty n3 (r3), n4 (r4): both copies move *)
Definition w7_snap : snapshot :=
  [ mknode 1 1 1 2 [mkvol 1 10 10 false; mkvol 11 0 500 false];
    mknode 1 2 2 2 [mkvol 1 10 10 false; mkvol 21 0 500 false];
    mknode 1 3 3 4 []; mknode 1 4 4 4 [] ]%N.
Definition w7_plan : list step := [Move 1 0 2 3; Move 1 0 1 4]%N.
(* the same with n3 and n4 on ONE rack: the second copy of volume 1 must stay (both copies
   would share rack r3), volume 11 goes instead *)
Definition w8_snap : snapshot :=
  [ mknode 1 1 1 2 [mkvol 1 10 10 false; mkvol 11 0 500 false];
    mknode 1 2 2 2 [mkvol 1 10 10 false; mkvol 21 0 500 false];
    mknode 1 3 3 4 []; mknode 1 3 4 4 [] ]%N.
Definition w8_plan : list step := [Move 1 0 2 3; Move 11 0 1 4]%N.
Lemma w7_facts : wf_snapb w7_snap = true /\
  is_some (balance_accepts 1000 w7_snap [None] [0%N] w7_plan) = true /\
  v4_all (prop_trace w7_snap (init_world w7_snap) w7_plan) = true /\
  locs (w_reps (run_trace w7_snap (init_world w7_snap) w7_plan) 1) =
    [ {| l_dc := 1; l_rack := 4; l_node := 4 |}; {| l_dc := 1; l_rack := 3; l_node := 3 |} ]%N /\
  wf_snapb w8_snap = true /\
  is_some (balance_accepts 1000 w8_snap [None] [0%N] w8_plan) = true /\
  (* moving the second copy of volume 1 next to the first is not a plan of the planner ... *)
  is_some (balance_accepts 1000 w8_snap [None] [0%N] [Move 1 0 2 3; Move 1 0 1 4]%N) = false /\
  (* ... and would break the placement *)
  ok_pres (prop_trace w8_snap (init_world w8_snap) [Move 1 0 2 3; Move 1 0 1 4]%N) = false /\
  v4_all (prop_trace w8_snap (init_world w8_snap) w8_plan) = true.
Proof. vm_compute. repeat split; reflexivity. Qed.

(* ---------- non-vacuity of the function-level theorems ---------- *)
Definition exl (dc rack id : N) : loc := {| l_dc := dc; l_rack := rack; l_node := id |}.

Lemma ids_ok_3 : forall a b c, l_node a <> l_node b -> l_node a <> l_node c -> l_node b <> l_node c ->
  ids_ok [a; b; c].
Proof.
  intros a b c H1 H2 H3 x y Hx Hy E.
  destruct Hx as [<-|[<-|[<-|[]]]]; destruct Hy as [<-|[<-|[<-|[]]]]; auto; congruence.
Qed.

(* isGoodMove on a 010 volume: n1 (r1), n2 (r2), the copy on n1 moves to n3 (r3) *)
Lemma ex_good_move_facts :
  let p := rp_of_byte 10 in let l := [exl 1 1 1; exl 1 2 2] in let f := exl 1 1 1 in let t := exl 1 3 3 in
  valid_placement p l = true /\ In f l /\ ids_ok (t :: l) /\ is_good_move p l f t = true /\
  rp_trig p = false /\ valid_placement p (relocate_loc f t l) = true.
Proof.
  cbv zeta. split; [vm_compute; reflexivity|]. split; [left; reflexivity|].
  split; [apply ids_ok_3; vm_compute; discriminate|]. vm_compute. auto.
Qed.

(* satisfyReplicaPlacement on a 011 volume with copies on n1 (r1) and n2 (r2): n3 on r1 is admitted *)
Lemma ex_satisfy_facts :
  let p := rp_of_byte 11 in let l := [exl 1 1 1; exl 1 2 2] in let c := exl 1 1 3 in
  SubP p l /\ ids_ok (c :: l) /\ satisfy p l c = true /\ valid_placement p (c :: l) = true.
Proof.
  cbv zeta. split; [apply sub_placement_iff; vm_compute; reflexivity|].
  split; [apply ids_ok_3; vm_compute; discriminate|]. vm_compute. auto.
Qed.

(* ---------- a balance run that moves a REPLICATED (010) volume, every hypothesis satisfied ---------- *)
Definition ex2_snap : snapshot :=
  [ mknode 1 1 1 4 [mkvol 1 10 10 false; mkvol 2 0 20 false; mkvol 3 0 30 false];
    mknode 1 2 2 4 [mkvol 1 10 10 false]; mknode 1 3 3 4 [] ]%N.
Definition ex2_plan : list step := [Move 1 0 1 3]%N.
Definition ex2_ctx : bctx := mk_bctx 1000 ex2_snap {| ph_coll := None; ph_dt := 0; ph_ro := false |}.
Definition ex2_st : bstate :=
  {| b_sel := init_sel 1000 ex2_snap {| ph_coll := None; ph_dt := 0; ph_ro := false |}; b_w := init_world ex2_snap |}.

Lemma ex2_facts :
  wf_snapb ex2_snap = true /\ phases_ok (phases_of [None] [0%N]) = true /\
  is_some (balance_accepts 1000 ex2_snap [None] [0%N] ex2_plan) = true /\
  balance_cap_excused 1000 ex2_snap (phases_of [None] [0%N]) (init_world ex2_snap) ex2_plan = true /\
  trig_balance_cap 1000 ex2_snap (phases_of [None] [0%N]) (init_world ex2_snap) ex2_plan = false /\
  step_rp_trig (init_world ex2_snap) (Move 1 0 1 3) = false /\
  valid_placement (rp_of_byte 10) (locs (w_reps (init_world ex2_snap) 1)) = true /\
  valid_placement (rp_of_byte 10) (locs (w_reps (run_trace ex2_snap (init_world ex2_snap) ex2_plan) 1)) = true /\
  v4_all (prop_trace ex2_snap (init_world ex2_snap) ex2_plan) = true.
Proof. vm_compute. repeat split; reflexivity. Qed.

Lemma ex2_own_capacity_facts :
  balance_step_ok ex2_ctx ex2_st 1 0 1 3 = true /\
  find_cap ex2_ctx 3 = Some (exl 1 3 3, 4%Z) /\
  (0 < bc_max_total ex2_ctx)%Z /\ (bc_sel_total ex2_ctx <= bc_max_total ex2_ctx)%Z /\ (0 < snd (exl 1 3 3, 4%Z))%Z.
Proof.
  split; [vm_compute; reflexivity|]. split; [vm_compute; reflexivity|].
  split; [vm_compute; reflexivity|]. split; [vm_compute; discriminate|vm_compute; reflexivity].
Qed.

(* ---------- the examples of props/C15.v ---------- *)
Lemma ex_balance_facts :
  wf_snapb ex_snap = true /\ trig_rp_xy ex_snap = false /\
  phases_ok (phases_of [None] [0%N; 1%N]) = true /\ phases_ok (phases_of [Some 1%N; Some 2%N] [0%N; 1%N]) = true /\
  is_some (balance_accepts 1000 ex_snap [None] [0%N] ex_plan) = true /\
  trig_balance_cap 1000 ex_snap (phases_of [None] [0%N]) (init_world ex_snap) ex_plan = false /\
  v4_all (prop_trace ex_snap (init_world ex_snap) ex_plan) = true.
Proof. vm_compute. repeat split; reflexivity. Qed.

Lemma ex_evacuate_repair_facts :
  evac_accepts ex_snap 1 true [EMove 1 0 2; EMove 2 0 2; ESkip 3]%N = true /\ trig_evac_cap ex_snap 1 = false /\
  excused ok_cap (step_evac_trig ex_snap 1) ex_snap (init_world ex_snap)
          (evac_steps 1 [EMove 1 0 2; EMove 2 0 2; ESkip 3]%N) = true /\
  step_evac_trig ex_snap 1 (init_world ex_snap) (Move 1 0 1 2) = false /\
  wf_snapb ex_fix_snap = true /\ counts_okb ex_fix_snap = true /\
  fix_accepts ex_fix_snap 0 [FCopy 1 1 3]%N = true /\
  v4_all (prop_trace ex_fix_snap (init_world ex_fix_snap) [Copy 1 1 3]%N) = true.
Proof. vm_compute. repeat split; reflexivity. Qed.

Lemma ex_repaired_facts :
  (fix_accepts w2_snap 0 [FCopy 1 1 2; FCopy 2 1 2]%N = false /\ fix_accepts w2_snap 0 w2_events = true /\
   v4_all (prop_trace w2_snap (init_world w2_snap) (fix_steps w2_events)) = true) /\
  (fix_accepts w3_snap 1 [FCopy 1 1 2; FCopy 1 1 2]%N = false /\ fix_accepts w3_snap 1 w3_events = true /\
   v4_all (prop_trace w3_snap (init_world w3_snap) (fix_steps w3_events)) = true) /\
  (is_some (balance_accepts 1000 w4_snap [None] [0%N] [Move 1 0 1 2]%N) = false /\
   is_some (balance_accepts 1000 w4_snap [None] [0%N] w4_plan) = true /\
   v4_all (prop_trace w4_snap (init_world w4_snap) w4_plan) = true).
Proof. vm_compute. repeat split; reflexivity. Qed.
