(* Proofs about model/ChunkCache.v (C31). *)
From Coq Require Import List NArith Bool Arith Lia ZifyBool ZifyN ZifyNat.
From SW Require Import model.ChunkCache.
Import ListNotations.
Local Open Scope N_scope.

(* ---------- equality tests ---------- *)
Lemma fileid_eqb_eq : forall a b, fileid_eqb a b = true <-> a = b.
Proof.
  intros [v k c|t] [v' k' c'|t']; simpl; split; intros H; try discriminate; try congruence.
  - apply andb_true_iff in H. destruct H as [H Hc]. apply andb_true_iff in H. destruct H as [Hv Hk].
    apply N.eqb_eq in Hv, Hk, Hc. congruence.
  - inversion H; subst. rewrite !N.eqb_refl. reflexivity.
  - apply N.eqb_eq in H. congruence.
  - inversion H; subst. apply N.eqb_refl.
Qed.

Lemma fileid_eqb_refl : forall a, fileid_eqb a a = true.
Proof. intros. apply fileid_eqb_eq. reflexivity. Qed.

Lemma bytes_eqb_refl : forall a, bytes_eqb a a = true.
Proof. induction a as [|x a IH]; simpl; [reflexivity|]. rewrite N.eqb_refl, IH. reflexivity. Qed.

Lemma bytes_eqb_eq : forall a b, bytes_eqb a b = true -> a = b.
Proof.
  induction a as [|x a IH]; destruct b as [|y b]; simpl; intros H; try discriminate; auto.
  apply andb_true_iff in H. destruct H as [E H]. apply N.eqb_eq in E. f_equal; auto.
Qed.

Lemma is_empty_false : forall d : bytes, is_empty d = false -> d <> [].
Proof. destruct d; simpl; congruence. Qed.

(* ---------- the invariant: everything cached was stored ---------- *)
Definition stored_t := list (fileid * bytes).

(* a disk record carries the data of a store whose file id has the record's key *)
Definition rec_ok (stored : stored_t) (r : rec) : Prop :=
  exists f, fid_key f = Some (r_key r) /\ In (f, r_data r) stored.
Definition seg_ok (stored : stored_t) (s : segment) : Prop :=
  forall r, In r (sg_recs s) -> rec_ok stored r.
Definition layer_ok (stored : stored_t) (l : layer) : Prop :=
  forall s, In s l -> seg_ok stored s.
Definition inv (stored : stored_t) (st : state) : Prop :=
  incl (mem st) stored /\ layer_ok stored (l0 st) /\ layer_ok stored (l1 st) /\ layer_ok stored (l2 st).

Lemma layer_ok_mono : forall stored stored' l, incl stored stored' -> layer_ok stored l -> layer_ok stored' l.
Proof.
  intros stored stored' l Hi H s Hs r Hr. destruct (H s Hs r Hr) as [f [Hk Hin]].
  exists f. split; auto.
Qed.

Lemma in_removelast : forall (A : Type) (l : list A) x, In x (removelast l) -> In x l.
Proof.
  induction l as [|a l IH]; intros x H; [destruct H|].
  simpl in H. destruct l as [|b l]; [destruct H|].
  destruct H as [H|H]; [left; auto|right; apply IH; auto].
Qed.

Lemma layer_set_ok : forall stored limit l key d f,
  layer_ok stored l -> fid_key f = Some key -> In (f, d) stored ->
  layer_ok stored (layer_set limit l key d).
Proof.
  intros stored limit l key d f H Hk Hin. unfold layer_set.
  destruct l as [|front rest]; [exact H|].
  assert (Hnew : rec_ok stored {| r_key := key; r_off := sg_size front; r_data := d; r_valid := true |})
    by (exists f; auto).
  destruct (limit <? sg_size front + blen d).
  - intros s [Hs|Hs].
    + subst s. intros r [Hr|[]]. subst r. exists f. auto.
    + apply H. apply in_removelast. exact Hs.
  - intros s [Hs|Hs].
    + subst s. intros r [Hr|Hr].
      * subst r. exact Hnew.
      * apply (H front (or_introl eq_refl)). exact Hr.
    + apply H. right. exact Hs.
Qed.

Lemma find_seg_in : forall l id s, find_seg l id = Some s -> In s l.
Proof.
  induction l as [|x l IH]; intros id s H; [discriminate|].
  simpl in H. destruct (sg_id x =? id); [inversion H; left; auto|right; eapply IH; eauto].
Qed.

Lemma regen_seg_ok : forall stored s, seg_ok stored s -> seg_ok stored (regen_seg s).
Proof.
  intros stored s H r Hr. simpl in Hr. apply in_map_iff in Hr. destruct Hr as [r0 [E Hr0]]. subst r.
  destruct (H r0 Hr0) as [f [Hk Hin]]. exists f. auto.
Qed.

Lemma pick_segs_ok : forall stored l order, layer_ok stored l -> layer_ok stored (pick_segs l order).
Proof.
  intros stored l order H. induction order as [|[id g] order IH]; intros s Hs; [destruct Hs|].
  simpl in Hs. destruct (find_seg l id) as [x|] eqn:E; [|apply IH; exact Hs].
  destruct Hs as [Hs|Hs]; [|apply IH; exact Hs].
  pose proof (H x (find_seg_in _ _ _ E)) as Hx.
  subst s. destruct g; [apply regen_seg_ok|]; exact Hx.
Qed.

Lemma reopen_layer_ok : forall stored l order,
  layer_ok stored l -> layer_ok stored (reopen_layer l order).
Proof.
  intros stored l order H. unfold reopen_layer.
  destruct (Nat.eqb _ _); [apply pick_segs_ok|]; exact H.
Qed.

(* ---------- what a disk lookup can return ---------- *)
Lemma seg_find_some : forall rs key r, seg_find rs key = Some r -> In r rs /\ r_key r = key.
Proof.
  induction rs as [|x rs IH]; intros key r H; [discriminate|].
  simpl in H. destruct (r_key x =? key) eqn:E.
  - inversion H; subst. apply N.eqb_eq in E. split; [left|]; auto.
  - destruct (IH _ _ H). split; [right|]; auto.
Qed.

Lemma seg_get_some : forall s key d, seg_get s key = Some d ->
  exists r, In r (sg_recs s) /\ r_key r = key /\ r_data r = d.
Proof.
  intros s key d H. unfold seg_get in H. destruct (seg_find (sg_recs s) key) as [r|] eqn:E; [|discriminate].
  destruct (r_valid r); [|discriminate]. inversion H. destruct (seg_find_some _ _ _ E). exists r. auto.
Qed.

Lemma layer_get_sound : forall stored l key d,
  layer_ok stored l -> layer_get l key = d -> d <> [] ->
  exists f, fid_key f = Some key /\ In (f, d) stored.
Proof.
  intros stored l key d H. induction l as [|s l IH]; intros E Hne; simpl in E; [congruence|].
  assert (Hl : layer_ok stored l) by (intros x Hx; apply H; right; auto).
  destruct (seg_get s key) as [x|] eqn:G; [|apply IH; auto].
  destruct (is_empty x) eqn:Em; [apply IH; auto|].
  subst x. destruct (seg_get_some _ _ _ G) as [r [Hr [Hk Hd]]].
  destruct (H s (or_introl eq_refl) r Hr) as [f [Hfk Hin]]. exists f. rewrite <- Hk, <- Hd. auto.
Qed.

Lemma layer_get_slice_sound : forall stored l key off len x,
  layer_ok stored l -> layer_get_slice l key off len = x -> x <> [] ->
  exists f d, fid_key f = Some key /\ In (f, d) stored /\ slice d off len = Some x.
Proof.
  intros stored l key off len x H. induction l as [|s l IH]; intros E Hne; simpl in E; [congruence|].
  assert (Hl : layer_ok stored l) by (intros y Hy; apply H; right; auto).
  destruct (seg_get s key) as [d|] eqn:G; [|apply IH; auto].
  destruct (slice d off len) as [y|] eqn:S; [|apply IH; auto].
  destruct (is_empty y) eqn:Em; [apply IH; auto|].
  subst y. destruct (seg_get_some _ _ _ G) as [r [Hr [Hk Hd]]].
  destruct (H s (or_introl eq_refl) r Hr) as [f [Hfk Hin]]. exists f, d. rewrite <- Hk. subst d. auto.
Qed.

Lemma mem_find_some : forall m f d, mem_find m f = Some d -> In (f, d) m.
Proof.
  induction m as [|[g x] m IH]; intros f d H; [discriminate|].
  simpl in H. destruct (fileid_eqb g f) eqn:E.
  - apply fileid_eqb_eq in E. inversion H; subst. left. reflexivity.
  - right. apply IH. exact H.
Qed.

(* a slice that passes the length test [off + len <= |x|] is the leading [len] bytes *)
Lemma slice_hit : forall d off len x, slice d off len = Some x -> off + len <= blen x ->
  (off + len <=? blen d) = true /\ x = firstn (N.to_nat len) (skipn (N.to_nat off) d).
Proof.
  intros d off len x H Hl. unfold slice in H.
  destruct (two63 <=? len); [discriminate|].
  destruct (blen d <? off) eqn:E; [discriminate|].
  inversion H as [Hx]. clear H. unfold blen in *.
  assert (Lx : List.length x = Nat.min (N.to_nat (N.min len (N.of_nat (List.length d) - off)))
                                       (List.length d - N.to_nat off)).
  { rewrite <- Hx, firstn_length, skipn_length. reflexivity. }
  assert (A : N.min len (N.of_nat (List.length d) - off) = len) by lia.
  rewrite A. split; [lia|reflexivity].
Qed.

(* a slice never has more than [len] bytes *)
Lemma slice_len : forall d off len x, slice d off len = Some x -> blen x <= len.
Proof.
  intros d off len x H. unfold slice in H.
  destruct (two63 <=? len); [discriminate|].
  destruct (blen d <? off); [discriminate|].
  inversion H as [Hx]. unfold blen. rewrite firstn_length. lia.
Qed.

Lemma layer_get_slice_len : forall l key off len, blen (layer_get_slice l key off len) <= len.
Proof.
  induction l as [|s l IH]; intros key off len; simpl; [unfold blen; simpl; lia|].
  destruct (seg_get s key) as [d|]; [|apply IH].
  destruct (slice d off len) as [x|] eqn:S; [|apply IH].
  destruct (is_empty x); [apply IH|]. eapply slice_len; eauto.
Qed.

(* audit item 3: every GetChunkSlice with an offset above 0 misses: each tier hands
   back at most [length] bytes and the result is tested against offset + length *)
Lemma slice_dead : forall p st md f off len,
  0 < off -> get_slice_with p st md f off len = [].
Proof.
  intros p st md f off len Ho. unfold get_slice_with.
  destruct (slice_guard off len); [reflexivity|]. unfold get_slice_small.
  assert (G : forall x : bytes, blen x <= len -> (off + len <=? blen x) = false).
  { intros x Hx. apply N.leb_gt. lia. }
  set (mdd := match md with
              | Some d => match slice d off len with Some x => x | None => [] end
              | None => [] end).
  assert (Hm : blen mdd <= len).
  { unfold mdd. destruct md as [d|]; [|unfold blen; simpl; lia].
    destruct (slice d off len) as [x|] eqn:S; [eapply slice_len; eauto|unfold blen; simpl; lia]. }
  rewrite (G mdd Hm), andb_false_r.
  destruct (fid_key f) as [k|]; [|reflexivity].
  rewrite (G _ (layer_get_slice_len (l0 st) k off len)), andb_false_r.
  rewrite (G _ (layer_get_slice_len (l1 st) k off len)), andb_false_r.
  rewrite (G _ (layer_get_slice_len (l2 st) k off len)). reflexivity.
Qed.

(* ---------- the repaired conversions: sizes that do not fit an int miss ---------- *)
(* for uint64 values the guard of doGetChunkSlice (wrapped sum below the offset, or
   above math.MaxInt64) is exactly "offset + length is 2^63 or more" *)
Lemma slice_guard_spec : forall off len, off < two64 -> len < two64 ->
  slice_guard off len = (two63 <=? off + len).
Proof.
  intros off len Ho Hl. unfold slice_guard, two63, two64 in *.
  destruct (9223372036854775808 <=? off + len) eqn:E.
  - apply N.leb_le in E. apply orb_true_iff.
    destruct (N.lt_ge_cases (off + len) 18446744073709551616) as [Hs|Hs].
    + right. rewrite N.mod_small by exact Hs. apply N.leb_le. exact E.
    + left. apply N.ltb_lt.
      assert (M : (off + len) mod 18446744073709551616 = off + len - 18446744073709551616).
      { symmetry. apply (N.mod_unique _ _ 1); lia. }
      rewrite M. lia.
  - apply N.leb_gt in E. rewrite N.mod_small by lia. apply orb_false_iff.
    split; [apply N.ltb_ge; lia|apply N.leb_gt; exact E].
Qed.

Lemma huge_get_misses : forall p st md f m, two63 <= m -> get_with p st md f m = [].
Proof.
  intros p st md f m H. unfold get_with, too_big. apply N.leb_le in H. rewrite H. reflexivity.
Qed.

Lemma huge_slice_misses : forall p st md f off len,
  off < two64 -> len < two64 -> two63 <= off + len -> get_slice_with p st md f off len = [].
Proof.
  intros p st md f off len Ho Hl H. unfold get_slice_with.
  rewrite (slice_guard_spec off len Ho Hl). apply N.leb_le in H. rewrite H. reflexivity.
Qed.

(* in particular an offset or a length from 2^63 on (the former findings 1 and 2) *)
Lemma huge_offset_misses : forall p st md f off len,
  off < two64 -> len < two64 -> two63 <= off \/ two63 <= len -> get_slice_with p st md f off len = [].
Proof.
  intros p st md f off len Ho Hl H. apply huge_slice_misses; auto. destruct H; lia.
Qed.

(* ---------- key-uniqueness ---------- *)
Definition uniq (F : list fileid) : Prop :=
  forall a b, In a F -> In b F -> key_clash a b = false.

Lemma keys_unique_uniq : forall ops, keys_unique ops = true -> uniq (fids_of ops).
Proof.
  intros ops H a b Ha Hb. unfold keys_unique in H. rewrite forallb_forall in H.
  specialize (H a Ha). rewrite forallb_forall in H. specialize (H b Hb).
  apply negb_true_iff in H. exact H.
Qed.

Lemma uniq_same : forall F a b k, uniq F -> In a F -> In b F ->
  fid_key a = Some k -> fid_key b = Some k -> a = b.
Proof.
  intros F a b k U Ha Hb Ka Kb. specialize (U a b Ha Hb). unfold key_clash in U.
  rewrite Ka, Kb, N.eqb_refl in U. simpl in U. apply negb_false_iff in U. apply fileid_eqb_eq. exact U.
Qed.

(* ---------- every answer is explained by a store with the same needle key ---------- *)
Lemma allowed_intro : forall rel stored o f g d x,
  op_fid o = Some f -> In (g, d) stored -> rel g f = true -> expected o d = Some x ->
  allowed_by rel stored o x = true.
Proof.
  intros rel stored o f g d x Hf Hin Hr He. unfold allowed_by. rewrite Hf.
  apply existsb_exists. exists (g, d). split; auto.
  simpl. rewrite Hr, He, bytes_eqb_refl. reflexivity.
Qed.

Lemma transparent_hit : forall stored o f d x,
  op_fid o = Some f -> In (f, d) stored -> expected o d = Some x -> transparent_answer stored o x = true.
Proof.
  intros stored o f d x Hf Hin He. unfold transparent_answer. rewrite Hf.
  apply orb_true_iff. right. apply existsb_exists. exists (f, d). split; auto.
  simpl. rewrite fileid_eqb_refl, He, bytes_eqb_refl. reflexivity.
Qed.

Lemma transparent_empty : forall stored o, transparent_answer stored o [] = true.
Proof. reflexivity. Qed.

Lemma expected_get : forall f m d, (m <=? blen d) = true -> expected (Get f m) d = Some d.
Proof. intros f m d H. cbn [expected]. rewrite H. reflexivity. Qed.

Lemma expected_slice : forall f off len d x,
  slice d off len = Some x -> (off + len <=? blen x) = true ->
  expected (GetSlice f off len) d = Some x.
Proof.
  intros f off len d x S H. apply N.leb_le in H.
  destruct (slice_hit _ _ _ _ S H) as [A E]. cbn [expected]. rewrite A, <- E. reflexivity.
Qed.

Lemma related_refl : forall f, related f f = true.
Proof. intros. unfold related. rewrite fileid_eqb_refl. reflexivity. Qed.

Lemma related_key : forall g f k, fid_key g = Some k -> fid_key f = Some k -> related g f = true.
Proof.
  intros g f k Hg Hf. unfold related, same_key. rewrite Hg, Hf, N.eqb_refl. apply orb_true_r.
Qed.

Lemma explained_intro : forall stored o r,
  allowed_by related stored o r = true -> explained stored o r = true.
Proof. intros stored o r H. unfold explained. rewrite H, orb_true_r. reflexivity. Qed.

Section Explained.
  Variable p : params.

  Lemma disk_get_explained : forall stored f k m lay,
    fid_key f = Some k -> layer_ok stored lay -> (m <=? blen (layer_get lay k)) = true ->
    explained stored (Get f m) (layer_get lay k) = true.
  Proof.
    intros stored f k m lay Hk Hl Hm.
    destruct (layer_get lay k) as [|b d'] eqn:E; [reflexivity|].
    destruct (layer_get_sound stored lay k (b :: d') Hl E) as [g [Gk Gin]]; [discriminate|].
    apply explained_intro.
    eapply allowed_intro; [reflexivity|exact Gin|eapply related_key; eauto|].
    apply expected_get. exact Hm.
  Qed.

  Lemma get_explained : forall stored st md f m,
    inv stored st -> In md (mem_choices st f) ->
    explained stored (Get f m) (get_with p st md f m) = true.
  Proof.
    intros stored st md f m [Hm [H0 [H1 H2]]] Hmd. unfold get_with.
    destruct (too_big m); [reflexivity|].
    destruct ((m <=? limit0 p) && (m <=? blen match md with Some d => d | None => [] end)) eqn:C.
    - destruct md as [d|]; [|reflexivity].
      unfold mem_choices in Hmd. destruct (mem_find (mem st) f) as [d'|] eqn:E.
      + destruct Hmd as [Hmd|[Hmd|[]]]; [discriminate|]. inversion Hmd; subst d'.
        apply andb_true_iff in C. destruct C as [_ C].
        apply explained_intro.
        eapply allowed_intro; [reflexivity|apply Hm; apply mem_find_some; eauto|apply related_refl|].
        apply expected_get. exact C.
      + destruct Hmd as [Hmd|[]]. discriminate.
    - destruct (fid_key f) as [k|] eqn:K; [|reflexivity].
      destruct ((m <=? limit0 p) && (m <=? blen (layer_get (l0 st) k))) eqn:C0.
      { apply andb_true_iff in C0. destruct C0 as [_ C0]. apply disk_get_explained; auto. }
      destruct ((m <=? limit1 p) && (m <=? blen (layer_get (l1 st) k))) eqn:C1.
      { apply andb_true_iff in C1. destruct C1 as [_ C1]. apply disk_get_explained; auto. }
      destruct (m <=? blen (layer_get (l2 st) k)) eqn:C2; [|reflexivity].
      apply disk_get_explained; auto.
  Qed.

  Lemma disk_slice_explained : forall stored f k off len lay,
    fid_key f = Some k -> layer_ok stored lay ->
    (off + len <=? blen (layer_get_slice lay k off len)) = true ->
    explained stored (GetSlice f off len) (layer_get_slice lay k off len) = true.
  Proof.
    intros stored f k off len lay Hk Hl Hm.
    destruct (layer_get_slice lay k off len) as [|b x'] eqn:E; [reflexivity|].
    destruct (layer_get_slice_sound stored lay k off len (b :: x') Hl E) as [g [d [Gk [Gin Sl]]]]; [discriminate|].
    apply explained_intro.
    eapply allowed_intro; [reflexivity|exact Gin|eapply related_key; eauto|].
    apply expected_slice; assumption.
  Qed.

  Lemma get_slice_explained : forall stored st md f off len,
    inv stored st -> In md (mem_choices st f) ->
    explained stored (GetSlice f off len) (get_slice_with p st md f off len) = true.
  Proof.
    intros stored st md f off len [Hm [H0 [H1 H2]]] Hmd. unfold get_slice_with.
    destruct (slice_guard off len); [reflexivity|]. unfold get_slice_small.
    set (mdd := match md with
                | Some d => match slice d off len with Some x => x | None => [] end
                | None => [] end).
    destruct ((off + len <=? limit0 p) && (off + len <=? blen mdd)) eqn:C.
    - destruct md as [d|]; [|reflexivity]. unfold mdd in *.
      destruct (slice d off len) as [x|] eqn:S; [|reflexivity].
      unfold mem_choices in Hmd. destruct (mem_find (mem st) f) as [d'|] eqn:E.
      + destruct Hmd as [Hmd|[Hmd|[]]]; [discriminate|]. inversion Hmd; subst d'.
        apply andb_true_iff in C. destruct C as [_ C].
        apply explained_intro.
        eapply allowed_intro; [reflexivity|apply Hm; apply mem_find_some; eauto|apply related_refl|].
        apply expected_slice; assumption.
      + destruct Hmd as [Hmd|[]]. discriminate.
    - destruct (fid_key f) as [k|] eqn:K; [|reflexivity].
      destruct ((off + len <=? limit0 p) && (off + len <=? blen (layer_get_slice (l0 st) k off len))) eqn:C0.
      { apply andb_true_iff in C0. destruct C0 as [_ C0]. apply disk_slice_explained; auto. }
      destruct ((off + len <=? limit1 p) && (off + len <=? blen (layer_get_slice (l1 st) k off len))) eqn:C1.
      { apply andb_true_iff in C1. destruct C1 as [_ C1]. apply disk_slice_explained; auto. }
      destruct (off + len <=? blen (layer_get_slice (l2 st) k off len)) eqn:C2; [|reflexivity].
      apply disk_slice_explained; auto.
  Qed.

  Lemma answers_explained : forall stored st o,
    inv stored st -> forallb (explained stored o) (answers p st o) = true.
  Proof.
    intros stored st o Hi. apply forallb_forall. intros r Hr.
    destruct o as [f d|f m|f off len|a b c]; simpl in Hr; try destruct Hr.
    - apply in_map_iff in Hr. destruct Hr as [md [E Hmd]]. subst r. apply get_explained; auto.
    - apply in_map_iff in Hr. destruct Hr as [md [E Hmd]]. subst r. apply get_slice_explained; auto.
  Qed.
End Explained.

(* ---------- the invariant is preserved ---------- *)
Lemma step_inv : forall p stored st o, inv stored st -> inv (remember stored o) (step p st o).
Proof.
  intros p stored st o [Hm [H0 [H1 H2]]].
  destruct o as [f d|f m|f off len|a b c]; simpl; try (repeat split; assumption).
  - (* Store *)
    assert (I : incl stored ((f, d) :: stored)) by (intros x Hx; right; exact Hx).
    pose proof (layer_ok_mono _ _ _ I H0) as H0'.
    pose proof (layer_ok_mono _ _ _ I H1) as H1'.
    pose proof (layer_ok_mono _ _ _ I H2) as H2'.
    assert (M : incl (if blen d <=? limit0 p then (f, d) :: mem st else mem st) ((f, d) :: stored)).
    { destruct (blen d <=? limit0 p).
      - intros x [Hx|Hx]; [left; auto|right; apply Hm; auto].
      - intros x Hx. right. apply Hm. auto. }
    unfold store. destruct (fid_key f) as [k|] eqn:K.
    + destruct (blen d <=? limit0 p) eqn:C0; [|destruct (blen d <=? limit1 p) eqn:C1];
        repeat split; simpl; auto; eapply layer_set_ok; eauto; left; reflexivity.
    + repeat split; simpl; auto.
  - (* Restart *)
    repeat split; simpl; try apply reopen_layer_ok; auto. intros x [].
Qed.

Lemma fresh_layer_ok : forall stored n, layer_ok stored (fresh_layer n).
Proof.
  induction n as [|n IH]; intros s Hs; simpl in Hs; [destruct Hs|].
  destruct Hs as [Hs|Hs]; [subst s; intros r []|apply IH; exact Hs].
Qed.

Lemma init_inv : inv [] init_state.
Proof.
  unfold inv, init_state. simpl.
  split; [intros x []|]. split; [apply (fresh_layer_ok [] 2)|].
  split; [apply (fresh_layer_ok [] 3)|apply (fresh_layer_ok [] 2)].
Qed.

(* ---------- C31 without any hypothesis: transparent modulo the needle key ---------- *)
Lemma run_explained : forall p ops stored st,
  inv stored st -> all_from explained stored ops (run p st ops) = true.
Proof.
  intros p. induction ops as [|o ops IH]; intros stored st Hi; [reflexivity|].
  simpl. apply andb_true_iff. split.
  - destruct (is_lookup o); [|reflexivity]. apply answers_explained. exact Hi.
  - apply IH. apply step_inv. exact Hi.
Qed.

Theorem explained_full : forall p ops, all_from explained [] ops (run p init_state ops) = true.
Proof. intros. apply run_explained. exact init_inv. Qed.

(* ---------- from "explained" to "transparent" at a clean lookup ---------- *)
Lemma key_clash_split : forall g f, key_clash g f = same_key g f && negb (fileid_eqb g f).
Proof.
  intros g f. unfold key_clash, same_key. destruct (fid_key g), (fid_key f); reflexivity.
Qed.

Lemma explained_clean : forall stored o r,
  step_clean stored o = true -> explained stored o r = true -> transparent_answer stored o r = true.
Proof.
  intros stored o r Hc He. unfold step_clean in Hc. apply negb_true_iff in Hc. rename Hc into Ha.
  unfold explained in He. unfold transparent_answer.
  destruct (is_empty r); [reflexivity|]. simpl in He |- *.
  unfold allowed_by in He. unfold alias_before in Ha.
  destruct (op_fid o) as [f|]; [|discriminate].
  apply existsb_exists in He. destruct He as [[g d] [Hin Hx]]. simpl in Hx.
  apply andb_true_iff in Hx. destruct Hx as [Hr Hx].
  apply existsb_exists. exists (g, d). split; [exact Hin|]. simpl. rewrite Hx, andb_true_r.
  destruct (fileid_eqb g f) eqn:E; [reflexivity|].
  assert (K : key_clash g f = true).
  { rewrite key_clash_split, E. unfold related in Hr. rewrite E in Hr. simpl in Hr. rewrite Hr. reflexivity. }
  assert (X : existsb (fun fd => key_clash (fst fd) f) stored = true).
  { apply existsb_exists. exists (g, d). split; auto. }
  congruence.
Qed.

Lemma all_from_impl : forall (P Q : pred),
  (forall stored o r, P stored o r = true -> Q stored o r = true) ->
  forall ops stored outs, all_from P stored ops outs = true -> all_from Q stored ops outs = true.
Proof.
  intros P Q PQ. induction ops as [|o ops IH]; intros stored outs H; [reflexivity|].
  destruct outs as [|rs outs]; [discriminate|]. simpl in H |- *.
  apply andb_true_iff in H. destruct H as [H1 H2]. apply andb_true_iff. split; [|apply IH; exact H2].
  destruct (is_lookup o); [|reflexivity].
  rewrite forallb_forall in H1. apply forallb_forall. intros r Hr. apply PQ. apply H1. exact Hr.
Qed.

Lemma explained_narrow : forall stored o r, explained stored o r = true -> narrow_answer stored o r = true.
Proof.
  intros stored o r H. unfold narrow_answer. destruct (step_clean stored o) eqn:C; [|reflexivity].
  simpl. apply explained_clean; assumption.
Qed.

(* PARTIAL, per lookup: transparency at every lookup that is not preceded by a store
   for another file id with the same needle key *)
Theorem transparent_narrow : forall p ops, all_from narrow_answer [] ops (run p init_state ops) = true.
Proof. intros. eapply all_from_impl; [exact explained_narrow|apply explained_full]. Qed.

(* ---------- C31 under unique keys (history-wide hypothesis) ---------- *)
Lemma fids_of_cons : forall o ops f, In f (fids_of ops) -> In f (fids_of (o :: ops)).
Proof. intros o ops f H. simpl. destruct (op_fid o); [right|]; auto. Qed.

Lemma narrow_all_clean : forall F, uniq F -> forall ops stored outs,
  (forall g x, In (g, x) stored -> In g F) ->
  (forall f, In f (fids_of ops) -> In f F) ->
  all_from narrow_answer stored ops outs = true -> all_from transparent_answer stored ops outs = true.
Proof.
  intros F HF. induction ops as [|o ops IH]; intros stored outs HS Hops H; [reflexivity|].
  destruct outs as [|rs outs]; [discriminate|]. simpl in H |- *.
  apply andb_true_iff in H. destruct H as [H1 H2].
  apply andb_true_iff. split.
  - destruct (is_lookup o); [|reflexivity].
    assert (C : step_clean stored o = true).
    { unfold step_clean. apply negb_true_iff. unfold alias_before.
      destruct (op_fid o) as [f|] eqn:Of; [|reflexivity].
      destruct (existsb (fun fd => key_clash (fst fd) f) stored) eqn:X; [|reflexivity].
      apply existsb_exists in X. destruct X as [[g d] [Hin K]]. simpl in K.
      rewrite (HF g f) in K; [discriminate|eapply HS; eauto|].
      apply Hops. simpl. rewrite Of. left. reflexivity. }
    rewrite forallb_forall in H1. apply forallb_forall. intros r Hr. specialize (H1 r Hr).
    unfold narrow_answer in H1. rewrite C in H1. exact H1.
  - apply IH; auto.
    + intros g x Hin. destruct o as [f d|f m|f off len|a b c]; simpl in Hin;
        try (eapply HS; eassumption).
      destruct Hin as [Hin|Hin]; [|eapply HS; eassumption]. inversion Hin; subst.
      apply Hops. simpl. left. reflexivity.
    + intros f Hf. apply Hops. apply fids_of_cons. exact Hf.
Qed.

Theorem transparent_partial : forall p ops,
  keys_unique ops = true ->
  transparent_from [] ops (run p init_state ops) = true.
Proof.
  intros p ops H. unfold transparent_from.
  apply (narrow_all_clean (fids_of ops) (keys_unique_uniq ops H)); auto.
  - intros g x [].
  - apply transparent_narrow.
Qed.

(* ---------- the full statement and its refutations ---------- *)
Definition transparent_full : Prop := forall p ops,
  transparent_from [] ops (run p init_state ops) = true.

(* NewTieredChunkCache(_, dir, 16, 16): store "3,01637037d6", look up "4,01637037d6" *)
Definition w_params : params := {| unit_size := 16; disk_units := 16 |}.
Definition w_ops : list op :=
  [Store (Fid 3 1 1668298710) [104; 101; 108; 108; 111];
   Get (Fid 4 1 1668298710) 1].

Theorem transparent_refuted : ~ transparent_full.
Proof. intro H. specialize (H w_params w_ops). vm_compute in H. discriminate. Qed.

Lemma witness_facts :
  keys_unique w_ops = false /\
  run w_params init_state w_ops = [[]; [[104; 101; 108; 108; 111]]].
Proof. vm_compute. auto. Qed.

(* the witness of the former finding 1 (repaired).  NewTieredChunkCache(_, dir, 64, 1):
   store 5 bytes under "3,01637037d6" (third disk tier); GetChunk(same id, 2^63) and
   GetChunkSlice(same id, 1, 2^63-1) now miss, GetChunk(same id, 5) still hits *)
Definition w1_params : params := {| unit_size := 1; disk_units := 64 |}.
Definition w1_ops : list op :=
  [Store (Fid 3 1 1668298710) [104; 101; 108; 108; 111];
   Get (Fid 3 1 1668298710) two63;
   GetSlice (Fid 3 1 1668298710) 1 9223372036854775807;
   Get (Fid 3 1 1668298710) 5].

Lemma witness1_facts :
  keys_unique w1_ops = true /\ hist_ok w1_ops = true /\
  run w1_params init_state w1_ops = [[]; [[]]; [[]]; [[104; 101; 108; 108; 111]]] /\
  transparent_from [] w1_ops (run w1_params init_state w1_ops) = true.
Proof. vm_compute. repeat split; reflexivity. Qed.

(* ---------- admitted answers ---------- *)
Lemma admits_in : forall rs impl, admits rs impl = true -> In impl rs.
Proof.
  intros rs impl H. apply existsb_exists in H. destruct H as [x [Hx E]].
  apply bytes_eqb_eq in E. subst. exact Hx.
Qed.

(* a miss of the memory tier is always admitted: the first admitted answer is the
   one computed with the entry evicted *)
Lemma miss_admitted : forall p st f m, In (get_with p st None f m) (answers p st (Get f m)).
Proof.
  intros. simpl. unfold mem_choices. destruct (mem_find (mem st) f); left; reflexivity.
Qed.

Lemma admitted_from : forall (P : pred) ops stored outs impl,
  all_from P stored ops outs = true -> admitted_all ops outs impl = true ->
  impl_from P stored ops impl = true.
Proof.
  intros P. induction ops as [|o ops IH]; intros stored outs impl T A; [reflexivity|].
  destruct outs as [|rs outs]; [discriminate|]. destruct impl as [|r impl]; [discriminate|].
  simpl in T, A |- *.
  apply andb_true_iff in T. destruct T as [T1 T2].
  apply andb_true_iff in A. destruct A as [A1 A2].
  apply andb_true_iff. split; [|eapply IH; eauto].
  destruct (is_lookup o); [|reflexivity].
  rewrite forallb_forall in T1. apply T1. apply admits_in. exact A1.
Qed.

(* every answer the correspondence relation accepts is what the property allows,
   under unique keys *)
Theorem admitted_hit_is_spec : forall p ops impl,
  keys_unique ops = true ->
  admitted_all ops (run p init_state ops) impl = true ->
  impl_transparent [] ops impl = true.
Proof.
  intros p ops impl HU HA. unfold impl_transparent.
  eapply admitted_from; [apply transparent_partial; assumption|exact HA].
Qed.

(* without any hypothesis: every accepted answer is explained by a store with the
   same needle key, and is transparent at every clean lookup *)
Theorem admitted_explained : forall p ops impl,
  admitted_all ops (run p init_state ops) impl = true ->
  impl_from explained [] ops impl = true /\ impl_from narrow_answer [] ops impl = true.
Proof.
  intros p ops impl HA. split; eapply admitted_from; eauto using explained_full, transparent_narrow.
Qed.

(* ---------- the trigger of the check is exact ---------- *)
(* an explained answer that is not transparent is an instance of finding 0 at that
   very lookup *)
Lemma explained_classes : forall stored o r,
  explained stored o r = true -> transparent_answer stored o r = false ->
  alias_answer stored o r = true.
Proof.
  intros stored o r He Ht. unfold alias_answer.
  unfold explained in He. unfold transparent_answer in Ht.
  destruct (is_empty r); [discriminate|]. simpl in He, Ht.
  unfold allowed_by in *. destruct (op_fid o) as [f|]; [|discriminate].
  apply existsb_exists in He. destruct He as [[g d] [Hin Hx]]. simpl in Hx.
  apply andb_true_iff in Hx. destruct Hx as [Hr Hx].
  apply existsb_exists. exists (g, d). split; [exact Hin|]. simpl. rewrite Hx, andb_true_r.
  destruct (fileid_eqb g f) eqn:E.
  + exfalso. assert (X : existsb (fun fd => fileid_eqb (fst fd) f &&
               match expected o (snd fd) with Some x => bytes_eqb x r | None => false end) stored = true).
    { apply existsb_exists. exists (g, d). split; auto. simpl. rewrite E, Hx. reflexivity. }
    congruence.
  + rewrite key_clash_split, E. unfold related in Hr. rewrite E in Hr. simpl in Hr. rewrite Hr. reflexivity.
Qed.

(* so: when the model admits the implementation's answers, [classify] never
   gives up — a property failure that the model reproduces is always labelled *)
Lemma classify_total : forall ops stored impl acc,
  impl_from explained stored ops impl = true -> classify stored ops impl acc <> None.
Proof.
  induction ops as [|o ops IH]; intros stored impl acc H; [simpl; discriminate|].
  destruct impl as [|r impl]; [simpl; discriminate|].
  simpl in H |- *. apply andb_true_iff in H. destruct H as [H1 H2].
  destruct (is_lookup o) eqn:L; simpl; [|apply IH; exact H2].
  destruct (transparent_answer stored o r) eqn:T; simpl; [apply IH; exact H2|].
  rewrite (explained_classes stored o r H1 T). apply IH. exact H2.
Qed.

Lemma classify_acc_some : forall ops stored impl k t,
  classify stored ops impl (Some k) = Some t -> t <> None.
Proof.
  induction ops as [|o ops IH]; intros stored impl k t C.
  - simpl in C. inversion C. discriminate.
  - destruct impl as [|r impl]; [simpl in C; inversion C; discriminate|].
    simpl in C.
    destruct (is_lookup o && negb (transparent_answer stored o r)); [|eapply IH; eauto].
    destruct (alias_answer stored o r); [eapply IH; eauto|discriminate].
Qed.

(* and a failing run always gets a number *)
Lemma classify_fail : forall ops stored impl acc t,
  classify stored ops impl acc = Some t -> impl_from transparent_answer stored ops impl = false ->
  Nat.leb (List.length ops) (List.length impl) = true -> t <> None.
Proof.
  induction ops as [|o ops IH]; intros stored impl acc t C F Hl; [discriminate|].
  destruct impl as [|r impl]; [discriminate|].
  simpl in C, F, Hl.
  destruct (is_lookup o) eqn:L; simpl in C, F.
  - destruct (transparent_answer stored o r) eqn:T; simpl in C, F.
    + eapply IH; eauto.
    + clear F. destruct (alias_answer stored o r); [|discriminate].
      destruct acc as [k|]; eapply classify_acc_some; eauto.
  - eapply IH; eauto.
Qed.

(* the only number the trigger emits is 0 (1 and 2 belonged to the repaired findings) *)
Lemma classify_only_zero : forall ops stored impl acc t,
  classify stored ops impl acc = Some t -> (acc = None \/ acc = Some 0) -> (t = None \/ t = Some 0).
Proof.
  induction ops as [|o ops IH]; intros stored impl acc t C A.
  - simpl in C. inversion C; subst. exact A.
  - destruct impl as [|r impl]; [simpl in C; inversion C; subst; exact A|].
    simpl in C.
    destruct (is_lookup o && negb (transparent_answer stored o r)); [|eapply IH; eauto].
    destruct (alias_answer stored o r); [|discriminate].
    eapply IH; [exact C|]. right. destruct A as [A|A]; subst; reflexivity.
Qed.

Theorem trigger_only_zero : forall ops impl, trigger ops impl = None \/ trigger ops impl = Some 0.
Proof.
  intros ops impl. unfold trigger. destruct (classify [] ops impl None) as [t|] eqn:C; [|left; reflexivity].
  eapply classify_only_zero; [exact C|left; reflexivity].
Qed.

Theorem trigger_total : forall p ops impl,
  admitted_all ops (run p init_state ops) impl = true ->
  Nat.leb (List.length ops) (List.length impl) = true ->
  impl_transparent [] ops impl = false -> trigger ops impl <> None.
Proof.
  intros p ops impl HA Hl HF. unfold trigger.
  destruct (admitted_explained p ops impl HA) as [HE _].
  destruct (classify [] ops impl None) as [t|] eqn:C.
  - eapply classify_fail; eauto.
  - exfalso. eapply classify_total; eauto.
Qed.

Lemma narrow_spec : forall stored o r,
  narrow_answer stored o r = true -> alias_before stored o = false ->
  transparent_answer stored o r = true.
Proof.
  intros stored o r H A. unfold narrow_answer, step_clean in H. rewrite A in H. exact H.
Qed.

(* one content per file id: nothing stale can be returned *)
Lemma single_content : forall stored o f d r,
  op_fid o = Some f -> (forall x, In (f, x) stored -> x = d) ->
  transparent_answer stored o r = true -> r = [] \/ expected o d = Some r.
Proof.
  intros stored o f d r Hf Hs H. unfold transparent_answer in H. rewrite Hf in H.
  destruct r as [|b r']; [left; reflexivity|right]. simpl in H.
  apply existsb_exists in H. destruct H as [[g x] [Hin Hx]]. simpl in Hx.
  apply andb_true_iff in Hx. destruct Hx as [E Hx]. apply fileid_eqb_eq in E. subst g.
  rewrite (Hs x Hin) in Hx. destruct (expected o d) as [y|]; [|discriminate].
  apply bytes_eqb_eq in Hx. congruence.
Qed.

Lemma example_facts :
  let p := {| unit_size := 16; disk_units := 32 |} in
  let a := Fid 3 1 7 in let b := Fid 3 2 8 in let c := Fid 4 3 9 in
  let ops := [Store a [1; 2; 3; 4; 5; 6; 7; 8; 9]; Store b [10; 11; 12; 13; 14; 15; 16; 17; 18; 19];
              Store c [20; 21; 22];
              Restart [(0, true); (1, true)] [(0, true); (1, true); (2, true)] [(0, true); (1, true)];
              Get a 1; Get b 4; Get c 1; GetSlice b 0 3] in
  keys_unique ops = true /\ hist_ok ops = true /\
  run p init_state ops = [[]; []; []; []; [[]]; [[10; 11; 12; 13; 14; 15; 16; 17; 18; 19]]; [[]]; [[10; 11; 12]]].
Proof. vm_compute. repeat split; reflexivity. Qed.

Lemma example_mixed_facts :
  let p := {| unit_size := 16; disk_units := 32 |} in
  let a := Fid 3 1 7 in let b := Fid 3 2 8 in
  let ops := [Store a [1; 2; 3]; Store b [4; 5; 6];
              Restart [(1, true); (0, false)] [(0, false); (1, false); (2, false)] [(0, false); (1, false)];
              Get a 1; Get b 1] in
  hist_ok ops = true /\
  run p init_state ops = [[]; []; []; [[]]; [[4; 5; 6]]].
Proof. vm_compute. repeat split; reflexivity. Qed.

(* the witness of the former finding 2 (repaired).  NewTieredChunkCache(_, dir, 64, 8):
   "abcde" and "XYZ" stored under two ids; GetChunkSlice("XYZ" id, 2^64-1, 2) used to
   panic in the memory tier, after a restart GetChunkSlice(id, 2^64-4, 6) used to
   return "e" 0 0 0 "XY" from the disk tier: both miss now (with and without the
   memory entry), the plain lookup after them still hits *)
Definition w2_params : params := {| unit_size := 8; disk_units := 64 |}.
Definition w2_ops : list op :=
  [Store (Fid 3 1 1668298710) [97; 98; 99; 100; 101];
   Store (Fid 3 2 1668298710) [88; 89; 90];
   GetSlice (Fid 3 2 1668298710) 18446744073709551615 2;
   Restart [(1, false); (0, false)] [(2, false); (1, false); (0, false)] [(1, false); (0, false)];
   GetSlice (Fid 3 2 1668298710) 18446744073709551612 6;
   Get (Fid 3 2 1668298710) 1].

Lemma witness2_facts :
  keys_unique w2_ops = true /\ hist_ok w2_ops = true /\
  run w2_params init_state w2_ops = [[]; []; [[]; []]; []; [[]]; [[88; 89; 90]]] /\
  transparent_from [] w2_ops (run w2_params init_state w2_ops) = true.
Proof. vm_compute. repeat split; reflexivity. Qed.

(* ---------- rotation: Reset empties the volume AND its index ---------- *)
(* doReset truncates .dat and .idx and removes the leveldb; the reload regenerates
   the map from the emptied .idx: nothing of the old contents is left *)
Lemma reset_seg_spec : forall s,
  reset_seg s = {| sg_id := sg_id s; sg_size := 0; sg_recs := [] |}.
Proof. reflexivity. Qed.

Lemma reset_forgets : forall s k, seg_get (reset_seg s) k = None.
Proof. reflexivity. Qed.

(* the volume a rotation moved to the front answers for the key just written and
   for no other key, whatever it held before (evicted needles are gone for good,
   also after the volume is filled again: [seg_get] only sees records written
   after the reset) *)
Lemma rotation_front_only_new : forall limit front rest key d k,
  (limit <? sg_size front + blen d) = true -> k <> key ->
  match layer_set limit (front :: rest) key d with
  | s :: _ => seg_get s k = None /\ seg_get s key = Some d /\ sg_size s = pad8 (blen d)
  | [] => False
  end.
Proof.
  intros limit front rest key d k Hfull Hk.
  unfold layer_set. rewrite Hfull.
  rewrite reset_seg_spec. unfold write_seg, seg_get. cbn [sg_recs sg_size sg_id seg_find r_key r_valid r_data].
  rewrite N.eqb_refl.
  destruct (key =? k) eqn:E; [apply N.eqb_eq in E; congruence|].
  repeat split.
Qed.

(* a full rotation cycle of the middle tier and beyond.  NewTieredChunkCache(_, dir,
   32, 8): three segments of 32 bytes; ten ids with 9-byte chunks (16 bytes padded,
   two per segment) are stored, every id ever stored is looked up after every store:
   the four evicted ids miss (the reset volumes 0 and 1 have been filled again: the
   offset of id 2 is covered by id 8's needle), the six ids the three segments hold
   hit with their own bytes, and every admitted answer of the history is transparent *)
Definition rot_params : params := {| unit_size := 8; disk_units := 32 |}.
Definition rot_fid (i : nat) : fileid := Fid 3 (N.of_nat i) 2864434397.
Definition rot_data (i : nat) : bytes := repeat (N.of_nat (64 + i)) 9.
Fixpoint rot_ops (n : nat) : list op :=
  match n with
  | O => []
  | S n' => rot_ops n' ++ Store (rot_fid n) (rot_data n) :: map (fun i => Get (rot_fid i) 9) (seq 1 n)
  end.

Lemma rotation_witness_facts :
  keys_unique (rot_ops 10) = true /\ hist_ok (rot_ops 10) = true /\
  transparent_from [] (rot_ops 10) (run rot_params init_state (rot_ops 10)) = true /\
  skipn 55 (run rot_params init_state (rot_ops 10)) =
    [[[]]; [[]]; [[]]; [[]]; [rot_data 5]; [rot_data 6];
     [rot_data 7]; [rot_data 8]; [rot_data 9]; [rot_data 10]].
Proof. vm_compute. repeat split; reflexivity. Qed.
