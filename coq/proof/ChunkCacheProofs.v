(* Proofs about model/ChunkCache.v (C31). *)
From Coq Require Import List NArith Bool Arith Lia ZifyBool ZifyN ZifyNat.
From SW Require Import model.ChunkCache.
Import ListNotations.
Local Open Scope N_scope.

(* ---------- equality tests ---------- *)
Lemma fileid_eqb_eq : forall a b, fileid_eqb a b = true <-> a = b.
Proof.
  intros [v k c|t] [v' k' c'|t']; simpl; split; intros H; try discriminate; try congruence.
  - apply andb_true_iff in H. destruct H as [H Hc]. apply andb_true_iff in H. destruct H as [Hv Hk].
    apply N.eqb_eq in Hv, Hk, Hc. congruence.
  - inversion H; subst. rewrite !N.eqb_refl. reflexivity.
  - apply N.eqb_eq in H. congruence.
  - inversion H; subst. apply N.eqb_refl.
Qed.

Lemma fileid_eqb_refl : forall a, fileid_eqb a a = true.
Proof. intros. apply fileid_eqb_eq. reflexivity. Qed.

Lemma bytes_eqb_refl : forall a, bytes_eqb a a = true.
Proof. induction a as [|x a IH]; simpl; [reflexivity|]. rewrite N.eqb_refl, IH. reflexivity. Qed.

Lemma bytes_eqb_eq : forall a b, bytes_eqb a b = true -> a = b.
Proof.
  induction a as [|x a IH]; destruct b as [|y b]; simpl; intros H; try discriminate; auto.
  apply andb_true_iff in H. destruct H as [E H]. apply N.eqb_eq in E. f_equal; auto.
Qed.

Lemma is_empty_false : forall d : bytes, is_empty d = false -> d <> [].
Proof. destruct d; simpl; congruence. Qed.

(* ---------- the invariant: everything cached was stored ---------- *)
Definition stored_t := list (fileid * bytes).

(* a disk record carries the data of a store whose file id has the record's key *)
Definition rec_ok (stored : stored_t) (r : rec) : Prop :=
  exists f, fid_key f = Some (r_key r) /\ In (f, r_data r) stored.
Definition seg_ok (stored : stored_t) (s : segment) : Prop :=
  forall r, In r (sg_recs s) -> rec_ok stored r.
Definition layer_ok (stored : stored_t) (l : layer) : Prop :=
  forall s, In s l -> seg_ok stored s.
Definition inv (stored : stored_t) (st : state) : Prop :=
  incl (mem st) stored /\ layer_ok stored (l0 st) /\ layer_ok stored (l1 st) /\ layer_ok stored (l2 st).

Lemma layer_ok_mono : forall stored stored' l, incl stored stored' -> layer_ok stored l -> layer_ok stored' l.
Proof.
  intros stored stored' l Hi H s Hs r Hr. destruct (H s Hs r Hr) as [f [Hk Hin]].
  exists f. split; auto.
Qed.

Lemma in_removelast : forall (A : Type) (l : list A) x, In x (removelast l) -> In x l.
Proof.
  induction l as [|a l IH]; intros x H; [destruct H|].
  simpl in H. destruct l as [|b l]; [destruct H|].
  destruct H as [H|H]; [left; auto|right; apply IH; auto].
Qed.

Lemma layer_set_ok : forall stored limit l key d f,
  layer_ok stored l -> fid_key f = Some key -> In (f, d) stored ->
  layer_ok stored (layer_set limit l key d).
Proof.
  intros stored limit l key d f H Hk Hin. unfold layer_set.
  destruct l as [|front rest]; [exact H|].
  assert (Hnew : rec_ok stored {| r_key := key; r_off := sg_size front; r_data := d; r_valid := true |})
    by (exists f; auto).
  destruct (limit <? sg_size front + blen d).
  - intros s [Hs|Hs].
    + subst s. intros r [Hr|[]]. subst r. exists f. auto.
    + apply H. apply in_removelast. exact Hs.
  - intros s [Hs|Hs].
    + subst s. intros r [Hr|Hr].
      * subst r. exact Hnew.
      * apply (H front (or_introl eq_refl)). exact Hr.
    + apply H. right. exact Hs.
Qed.

Lemma find_seg_in : forall l id s, find_seg l id = Some s -> In s l.
Proof.
  induction l as [|x l IH]; intros id s H; [discriminate|].
  simpl in H. destruct (sg_id x =? id); [inversion H; left; auto|right; eapply IH; eauto].
Qed.

Lemma pick_segs_in : forall l order s, In s (pick_segs l order) -> In s l.
Proof.
  intros l order. induction order as [|id order IH]; intros s H; [destruct H|].
  simpl in H. destruct (find_seg l id) as [x|] eqn:E; auto.
  destruct H as [H|H]; auto. subst. eapply find_seg_in; eauto.
Qed.

Lemma reopen_layer_ok : forall stored regen l order,
  layer_ok stored l -> layer_ok stored (reopen_layer regen l order).
Proof.
  intros stored regen l order H.
  assert (R : layer_ok stored (reorder l order)).
  { unfold reorder. destruct (Nat.eqb _ _); auto.
    intros s Hs. apply H. eapply pick_segs_in; eauto. }
  unfold reopen_layer. destruct regen; auto.
  intros s Hs. apply in_map_iff in Hs. destruct Hs as [s0 [E Hs0]]. subst s.
  intros r Hr. simpl in Hr. apply in_map_iff in Hr. destruct Hr as [r0 [E Hr0]]. subst r.
  destruct (R s0 Hs0 r0 Hr0) as [f [Hk Hin]]. exists f. auto.
Qed.

(* ---------- what a disk lookup can return ---------- *)
Lemma seg_find_some : forall rs key r, seg_find rs key = Some r -> In r rs /\ r_key r = key.
Proof.
  induction rs as [|x rs IH]; intros key r H; [discriminate|].
  simpl in H. destruct (r_key x =? key) eqn:E.
  - inversion H; subst. apply N.eqb_eq in E. split; [left|]; auto.
  - destruct (IH _ _ H). split; [right|]; auto.
Qed.

Lemma seg_get_some : forall s key d, seg_get s key = Some d ->
  exists r, In r (sg_recs s) /\ r_key r = key /\ r_data r = d.
Proof.
  intros s key d H. unfold seg_get in H. destruct (seg_find (sg_recs s) key) as [r|] eqn:E; [|discriminate].
  destruct (r_valid r); [|discriminate]. inversion H. destruct (seg_find_some _ _ _ E). exists r. auto.
Qed.

Lemma layer_get_sound : forall stored l key d,
  layer_ok stored l -> layer_get l key = d -> d <> [] ->
  exists f, fid_key f = Some key /\ In (f, d) stored.
Proof.
  intros stored l key d H. induction l as [|s l IH]; intros E Hne; simpl in E; [congruence|].
  assert (Hl : layer_ok stored l) by (intros x Hx; apply H; right; auto).
  destruct (seg_get s key) as [x|] eqn:G; [|apply IH; auto].
  destruct (is_empty x) eqn:Em; [apply IH; auto|].
  subst x. destruct (seg_get_some _ _ _ G) as [r [Hr [Hk Hd]]].
  destruct (H s (or_introl eq_refl) r Hr) as [f [Hfk Hin]]. exists f. rewrite <- Hk, <- Hd. auto.
Qed.

Lemma layer_get_slice_sound : forall stored l key off len x,
  layer_ok stored l -> layer_get_slice l key off len = x -> x <> [] ->
  exists f d, fid_key f = Some key /\ In (f, d) stored /\ slice d off len = Some x.
Proof.
  intros stored l key off len x H. induction l as [|s l IH]; intros E Hne; simpl in E; [congruence|].
  assert (Hl : layer_ok stored l) by (intros y Hy; apply H; right; auto).
  destruct (seg_get s key) as [d|] eqn:G; [|apply IH; auto].
  destruct (slice d off len) as [y|] eqn:S; [|apply IH; auto].
  destruct (is_empty y) eqn:Em; [apply IH; auto|].
  subst y. destruct (seg_get_some _ _ _ G) as [r [Hr [Hk Hd]]].
  destruct (H s (or_introl eq_refl) r Hr) as [f [Hfk Hin]]. exists f, d. rewrite <- Hk. subst d. auto.
Qed.

Lemma mem_find_some : forall m f d, mem_find m f = Some d -> In (f, d) m.
Proof.
  induction m as [|[g x] m IH]; intros f d H; [discriminate|].
  simpl in H. destruct (fileid_eqb g f) eqn:E.
  - apply fileid_eqb_eq in E. inversion H; subst. left. reflexivity.
  - right. apply IH. exact H.
Qed.

(* a slice that passes the length test [off + len <= |x|] is the leading [len] bytes *)
Lemma slice_hit : forall d off len x, slice d off len = Some x -> off + len <= blen x ->
  (off + len <=? blen d) = true /\ x = firstn (N.to_nat len) (skipn (N.to_nat off) d).
Proof.
  intros d off len x H Hl. unfold slice in H. destruct (blen d <? off) eqn:E; [discriminate|].
  inversion H as [Hx]. clear H. unfold blen in *.
  assert (Lx : List.length x = Nat.min (N.to_nat (N.min len (N.of_nat (List.length d) - off)))
                                       (List.length d - N.to_nat off)).
  { rewrite <- Hx, firstn_length, skipn_length. reflexivity. }
  assert (A : N.min len (N.of_nat (List.length d) - off) = len) by lia.
  rewrite A. split; [lia|reflexivity].
Qed.

(* ---------- key-uniqueness ---------- *)
Definition uniq (F : list fileid) : Prop :=
  forall a b, In a F -> In b F -> key_clash a b = false.

Lemma keys_unique_uniq : forall ops, keys_unique ops = true -> uniq (fids_of ops).
Proof.
  intros ops H a b Ha Hb. unfold keys_unique in H. rewrite forallb_forall in H.
  specialize (H a Ha). rewrite forallb_forall in H. specialize (H b Hb).
  apply negb_true_iff in H. exact H.
Qed.

Lemma uniq_same : forall F a b k, uniq F -> In a F -> In b F ->
  fid_key a = Some k -> fid_key b = Some k -> a = b.
Proof.
  intros F a b k U Ha Hb Ka Kb. specialize (U a b Ha Hb). unfold key_clash in U.
  rewrite Ka, Kb, N.eqb_refl in U. simpl in U. apply negb_false_iff in U. apply fileid_eqb_eq. exact U.
Qed.

(* ---------- answers are transparent ---------- *)
Lemma transparent_hit : forall stored o f d x,
  op_fid o = Some f -> In (f, d) stored -> expected o d = Some x -> transparent_answer stored o x = true.
Proof.
  intros stored o f d x Hf Hin He. unfold transparent_answer. rewrite Hf.
  apply orb_true_iff. right. apply existsb_exists. exists (f, d). split; auto.
  simpl. rewrite fileid_eqb_refl, He, bytes_eqb_refl. reflexivity.
Qed.

Lemma transparent_empty : forall stored o, transparent_answer stored o [] = true.
Proof. reflexivity. Qed.

Section Answers.
  Variable p : params.
  Variable F : list fileid.
  Hypothesis HF : uniq F.

  Lemma disk_get_transparent : forall stored f k m lay d,
    (forall g x, In (g, x) stored -> In g F) -> In f F -> fid_key f = Some k ->
    layer_ok stored lay -> layer_get lay k = d -> (m <=? blen d) = true ->
    transparent_answer stored (Get f m) d = true.
  Proof.
    intros stored f k m lay d HS Hf Hk Hl E Hm.
    destruct d as [|b d']; [reflexivity|].
    destruct (layer_get_sound stored lay k (b :: d') Hl E) as [g [Gk Gin]]; [discriminate|].
    assert (g = f) by (eapply uniq_same; eauto). subst g.
    eapply transparent_hit; [reflexivity|eassumption|]. cbn [expected]. rewrite Hm. reflexivity.
  Qed.

  Lemma get_transparent : forall stored st md f m,
    inv stored st -> (forall g x, In (g, x) stored -> In g F) -> In f F ->
    In md (mem_choices st f) ->
    transparent_answer stored (Get f m) (get_with p st md f m) = true.
  Proof.
    intros stored st md f m [Hm [H0 [H1 H2]]] HS Hf Hmd. unfold get_with.
    destruct ((m <=? limit0 p) && (m <=? blen match md with Some d => d | None => [] end)) eqn:C.
    - destruct md as [d|]; [|reflexivity].
      unfold mem_choices in Hmd. destruct (mem_find (mem st) f) as [d'|] eqn:E.
      + destruct Hmd as [Hmd|[Hmd|[]]]; [discriminate|]. inversion Hmd; subst d'.
        apply andb_true_iff in C. destruct C as [_ C].
        eapply transparent_hit; [reflexivity|apply Hm; apply mem_find_some; eauto|].
        cbn [expected]. rewrite C. reflexivity.
      + destruct Hmd as [Hmd|[]]. discriminate.
    - destruct (fid_key f) as [k|] eqn:K; [|reflexivity].
      destruct ((m <=? limit0 p) && (m <=? blen (layer_get (l0 st) k))) eqn:C0.
      { apply andb_true_iff in C0. destruct C0 as [_ C0].
        exact (disk_get_transparent stored f k m (l0 st) _ HS Hf K H0 eq_refl C0). }
      destruct ((m <=? limit1 p) && (m <=? blen (layer_get (l1 st) k))) eqn:C1.
      { apply andb_true_iff in C1. destruct C1 as [_ C1].
        exact (disk_get_transparent stored f k m (l1 st) _ HS Hf K H1 eq_refl C1). }
      destruct (m <=? blen (layer_get (l2 st) k)) eqn:C2; [|reflexivity].
      exact (disk_get_transparent stored f k m (l2 st) _ HS Hf K H2 eq_refl C2).
  Qed.

  Lemma disk_slice_transparent : forall stored f k off len lay x,
    (forall g y, In (g, y) stored -> In g F) -> In f F -> fid_key f = Some k ->
    layer_ok stored lay -> layer_get_slice lay k off len = x -> (off + len <=? blen x) = true ->
    transparent_answer stored (GetSlice f off len) x = true.
  Proof.
    intros stored f k off len lay x HS Hf Hk Hl E Hm.
    destruct x as [|b x']; [reflexivity|].
    destruct (layer_get_slice_sound stored lay k off len (b :: x') Hl E) as [g [d [Gk [Gin Sl]]]]; [discriminate|].
    assert (g = f) by (eapply uniq_same; eauto). subst g.
    apply N.leb_le in Hm. destruct (slice_hit _ _ _ _ Sl Hm) as [A B].
    eapply transparent_hit; [reflexivity|eassumption|]. cbn [expected]. rewrite A, <- B. reflexivity.
  Qed.

  Lemma get_slice_transparent : forall stored st md f off len,
    inv stored st -> (forall g x, In (g, x) stored -> In g F) -> In f F ->
    In md (mem_choices st f) ->
    transparent_answer stored (GetSlice f off len) (get_slice_with p st md f off len) = true.
  Proof.
    intros stored st md f off len [Hm [H0 [H1 H2]]] HS Hf Hmd. unfold get_slice_with.
    set (mdd := match md with
                | Some d => match slice d off len with Some x => x | None => [] end
                | None => [] end).
    destruct ((off + len <=? limit0 p) && (off + len <=? blen mdd)) eqn:C.
    - destruct md as [d|]; [|reflexivity]. unfold mdd in *.
      destruct (slice d off len) as [x|] eqn:S; [|reflexivity].
      unfold mem_choices in Hmd. destruct (mem_find (mem st) f) as [d'|] eqn:E.
      + destruct Hmd as [Hmd|[Hmd|[]]]; [discriminate|]. inversion Hmd; subst d'.
        apply andb_true_iff in C. destruct C as [_ C]. apply N.leb_le in C.
        destruct (slice_hit _ _ _ _ S C) as [A B].
        eapply transparent_hit; [reflexivity|apply Hm; apply mem_find_some; eauto|].
        cbn [expected]. rewrite A, <- B. reflexivity.
      + destruct Hmd as [Hmd|[]]. discriminate.
    - destruct (fid_key f) as [k|] eqn:K; [|reflexivity].
      destruct ((off + len <=? limit0 p) && (off + len <=? blen (layer_get_slice (l0 st) k off len))) eqn:C0.
      { apply andb_true_iff in C0. destruct C0 as [_ C0].
        exact (disk_slice_transparent stored f k off len (l0 st) _ HS Hf K H0 eq_refl C0). }
      destruct ((off + len <=? limit1 p) && (off + len <=? blen (layer_get_slice (l1 st) k off len))) eqn:C1.
      { apply andb_true_iff in C1. destruct C1 as [_ C1].
        exact (disk_slice_transparent stored f k off len (l1 st) _ HS Hf K H1 eq_refl C1). }
      destruct (off + len <=? blen (layer_get_slice (l2 st) k off len)) eqn:C2; [|reflexivity].
      exact (disk_slice_transparent stored f k off len (l2 st) _ HS Hf K H2 eq_refl C2).
  Qed.

  Lemma answers_transparent : forall stored st o,
    inv stored st -> (forall g x, In (g, x) stored -> In g F) ->
    (forall f, op_fid o = Some f -> In f F) ->
    forallb (transparent_answer stored o) (answers p st o) = true.
  Proof.
    intros stored st o Hi HS Ho. apply forallb_forall. intros r Hr.
    destruct o as [f d|f m|f off len|g a b c]; simpl in Hr; try destruct Hr.
    - apply in_map_iff in Hr. destruct Hr as [md [E Hmd]]. subst r.
      apply get_transparent; auto.
    - apply in_map_iff in Hr. destruct Hr as [md [E Hmd]]. subst r.
      apply get_slice_transparent; auto.
  Qed.
End Answers.

(* ---------- the invariant is preserved ---------- *)
Lemma step_inv : forall p stored st o, inv stored st -> inv (remember stored o) (step p st o).
Proof.
  intros p stored st o [Hm [H0 [H1 H2]]].
  destruct o as [f d|f m|f off len|g a b c]; simpl; try (repeat split; assumption).
  - (* Store *)
    assert (I : incl stored ((f, d) :: stored)) by (intros x Hx; right; exact Hx).
    pose proof (layer_ok_mono _ _ _ I H0) as H0'.
    pose proof (layer_ok_mono _ _ _ I H1) as H1'.
    pose proof (layer_ok_mono _ _ _ I H2) as H2'.
    assert (M : incl (if blen d <=? limit0 p then (f, d) :: mem st else mem st) ((f, d) :: stored)).
    { destruct (blen d <=? limit0 p).
      - intros x [Hx|Hx]; [left; auto|right; apply Hm; auto].
      - intros x Hx. right. apply Hm. auto. }
    unfold store. destruct (fid_key f) as [k|] eqn:K.
    + destruct (blen d <=? limit0 p) eqn:C0; [|destruct (blen d <=? limit1 p) eqn:C1];
        repeat split; simpl; auto; eapply layer_set_ok; eauto; left; reflexivity.
    + repeat split; simpl; auto.
  - (* Restart *)
    repeat split; simpl; try apply reopen_layer_ok; auto. intros x [].
Qed.

Lemma fresh_layer_ok : forall stored n, layer_ok stored (fresh_layer n).
Proof.
  induction n as [|n IH]; intros s Hs; simpl in Hs; [destruct Hs|].
  destruct Hs as [Hs|Hs]; [subst s; intros r []|apply IH; exact Hs].
Qed.

Lemma init_inv : inv [] init_state.
Proof.
  unfold inv, init_state. simpl.
  split; [intros x []|]. split; [apply (fresh_layer_ok [] 2)|].
  split; [apply (fresh_layer_ok [] 3)|apply (fresh_layer_ok [] 2)].
Qed.

(* ---------- C31: transparency under unique keys ---------- *)
Lemma fids_of_cons : forall o ops f, In f (fids_of ops) -> In f (fids_of (o :: ops)).
Proof. intros o ops f H. simpl. destruct (op_fid o); [right|]; auto. Qed.

Lemma run_transparent : forall p F, uniq F -> forall ops stored st,
  inv stored st -> (forall g x, In (g, x) stored -> In g F) ->
  (forall f, In f (fids_of ops) -> In f F) ->
  transparent_from stored ops (run p st ops) = true.
Proof.
  intros p F HF. induction ops as [|o ops IH]; intros stored st Hi HS Hops; [reflexivity|].
  simpl. apply andb_true_iff. split.
  - destruct (is_lookup o); [|reflexivity].
    eapply answers_transparent; eauto.
    intros f Hf. apply Hops. simpl. rewrite Hf. left. reflexivity.
  - apply IH.
    + apply step_inv. exact Hi.
    + intros g x Hin. destruct o as [f d|f m|f off len|gg a b c]; simpl in Hin;
        try (eapply HS; eassumption).
      destruct Hin as [Hin|Hin]; [|eapply HS; eassumption]. inversion Hin; subst.
      apply Hops. simpl. left. reflexivity.
    + intros f Hf. apply Hops. apply fids_of_cons. exact Hf.
Qed.

Theorem transparent_partial : forall p ops,
  keys_unique ops = true -> transparent_from [] ops (run p init_state ops) = true.
Proof.
  intros p ops H. apply (run_transparent p (fids_of ops) (keys_unique_uniq ops H)).
  - exact init_inv.
  - intros g x [].
  - auto.
Qed.

(* the same from any reachable state: the statement does not depend on starting empty *)
Theorem transparent_partial_from : forall p pre ops,
  keys_unique (pre ++ ops) = true ->
  transparent_from [] (pre ++ ops) (run p init_state (pre ++ ops)) = true.
Proof. intros. apply transparent_partial. assumption. Qed.

(* ---------- the full statement and its refutation ---------- *)
Definition transparent_full : Prop := forall p ops,
  transparent_from [] ops (run p init_state ops) = true.

(* NewTieredChunkCache(_, dir, 16, 16): store "3,01637037d6", look up "4,01637037d6" *)
Definition w_params : params := {| unit_size := 16; disk_units := 16 |}.
Definition w_ops : list op :=
  [Store (Fid 3 1 1668298710) [104; 101; 108; 108; 111];
   Get (Fid 4 1 1668298710) 1].

Theorem transparent_refuted : ~ transparent_full.
Proof. intro H. specialize (H w_params w_ops). vm_compute in H. discriminate. Qed.

Lemma witness_facts :
  keys_unique w_ops = false /\
  run w_params init_state w_ops = [[]; [[104; 101; 108; 108; 111]]].
Proof. vm_compute. auto. Qed.

(* ---------- admitted answers ---------- *)
Lemma admits_in : forall rs impl, admits rs impl = true -> In impl rs.
Proof.
  intros rs impl H. apply existsb_exists in H. destruct H as [x [Hx E]].
  apply bytes_eqb_eq in E. subst. exact Hx.
Qed.

(* a miss of the memory tier is always admitted: the first admitted answer is the
   one computed with the entry evicted *)
Lemma miss_admitted : forall p st f m, In (get_with p st None f m) (answers p st (Get f m)).
Proof.
  intros. simpl. unfold mem_choices. destruct (mem_find (mem st) f); left; reflexivity.
Qed.

Lemma admitted_transparent : forall ops stored outs impl,
  transparent_from stored ops outs = true -> admitted_all ops outs impl = true ->
  impl_transparent stored ops impl = true.
Proof.
  induction ops as [|o ops IH]; intros stored outs impl T A; [reflexivity|].
  destruct outs as [|rs outs]; [discriminate|]. destruct impl as [|r impl]; [discriminate|].
  simpl in T, A |- *.
  apply andb_true_iff in T. destruct T as [T1 T2].
  apply andb_true_iff in A. destruct A as [A1 A2].
  apply andb_true_iff. split; [|eapply IH; eauto].
  destruct (is_lookup o); [|reflexivity].
  rewrite forallb_forall in T1. apply T1. apply admits_in. exact A1.
Qed.

(* every answer the correspondence relation accepts is what the property allows,
   under unique keys *)
Theorem admitted_hit_is_spec : forall p ops impl,
  keys_unique ops = true -> admitted_all ops (run p init_state ops) impl = true ->
  impl_transparent [] ops impl = true.
Proof.
  intros p ops impl HU HA. eapply admitted_transparent; [apply transparent_partial; exact HU|exact HA].
Qed.
