(* C22: safety of the subscriber over every schedule outside the known-finding triggers. *)
From Coq Require Import List ZArith NArith Bool Lia.
From SW Require Import model.LogBuf proof.LogBufProofs proof.LogBufInv proof.LogBufSteps proof.LogBufMain.
Import ListNotations.
Local Open Scope Z_scope.

Lemma splits_nonneg_last : forall E lo t X, incr lo E -> splits E t X -> X <> [] ->
  exists e, In e E /\ e_ts e = last_ts X t /\ t < e_ts e.
Proof.
  intros E lo t X Hinc [E1 [E3 [HE [_ HX]]]] Hne.
  destruct (last_ts_in X t Hne) as [el [H1 H2]]. exists el. split; [|split; [exact H2|apply HX; exact H1]].
  subst E. apply in_or_app. right. apply in_or_app. left. exact H1.
Qed.

Lemma sub_mem_inv : forall gh s t0 u, Inv gh s -> 0 <= t0 ->
  SubInv t0 (E_of gh s) (lastTs s) u -> SubInv t0 (E_of gh s) (lastTs s) (sub_mem s u).
Proof.
  intros gh s t0 u HInv Ht0 [Hle [Hgot Hlr]].
  pose proof (read_mem_split gh s (lastRead u) HInv ltac:(lia)) as Hsp.
  unfold sub_mem, read_once.
  destruct (read_from_buffer s (lastRead u)) as [| |c|].
  - split; [exact Hle|]. split; [exact Hgot|exact Hlr].
  - split; [exact Hle|]. split; [exact Hgot|exact Hlr].
  - destruct Hsp as [X [Hd [Hne Hs]]]. rewrite Hd.
    destruct HInv as [HI _].
    destruct (splits_nonneg_last _ _ _ _ (i_incr _ _ HI) Hs Hne) as [el [Hel1 [Hel2 Hel3]]].
    unfold SubInv. cbn [lastRead on_disk mem_err got]. split; [lia|]. split.
    + rewrite (range_extend _ _ _ _ _ (i_incr _ _ HI) Hs Hle), <- Hgot. reflexivity.
    + right. rewrite <- Hel2. apply (i_last _ _ HI). exact Hel1.
  - destruct Hsp.
Qed.

Lemma sub_disk_inv : forall gh s t0 u, Inv gh s -> 0 <= t0 ->
  SubInv t0 (E_of gh s) (lastTs s) u -> SubInv t0 (E_of gh s) (lastTs s) (sub_disk s u).
Proof.
  intros gh s t0 u [HI _] Ht0 [Hle [Hgot Hlr]].
  unfold sub_disk. destruct (read_disk (lastRead u) (disk s) [] 0) as [X p] eqn:Hr.
  destruct (disk_read_spec gh s _ _ _ HI Hr) as [_ [Hp Hs]].
  destruct X as [|x X'].
  - rewrite last_ts_nil in Hp. subst p. cbn [Z.eqb]. rewrite app_nil_r.
    destruct (mem_err u =? 1)%N; (split; [exact Hle|split; [exact Hgot|exact Hlr]]).
  - destruct (splits_nonneg_last _ _ _ _ (i_incr _ _ HI) Hs ltac:(congruence)) as [el [Hel1 [Hel2 Hel3]]].
    rewrite (last_ts_default (x :: X') 0 (lastRead u)) in Hp by congruence.
    assert (Hpz : (p =? 0) = false) by lia. rewrite Hpz.
    unfold SubInv. cbn [lastRead on_disk mem_err got]. split; [lia|]. split.
    + rewrite Hp, (range_extend _ _ _ _ _ (i_incr _ _ HI) Hs Hle), <- Hgot. reflexivity.
    + right. rewrite Hp, <- Hel2. apply (i_last _ _ HI). exact Hel1.
Qed.

Lemma sub_step_inv : forall gh s t0 u, Inv gh s -> 0 <= t0 ->
  SubInv t0 (E_of gh s) (lastTs s) u -> SubInv t0 (E_of gh s) (lastTs s) (sub_step s u).
Proof.
  intros. unfold sub_step. destruct (mem_err u =? 4)%N; [assumption|].
  destruct (on_disk u); [apply sub_disk_inv|apply sub_mem_inv]; assumption.
Qed.

Lemma sub_mem_loop_inv : forall fuel gh s t0 u, Inv gh s -> 0 <= t0 ->
  SubInv t0 (E_of gh s) (lastTs s) u -> SubInv t0 (E_of gh s) (lastTs s) (sub_mem_loop fuel s u).
Proof.
  induction fuel as [|f IH]; intros gh s t0 u HI Ht0 Hs; [exact Hs|].
  cbn [sub_mem_loop]. destruct (on_disk u || (mem_err u =? 4)%N); [exact Hs|].
  pose proof (sub_mem_inv gh s t0 u HI Ht0 Hs) as Hs'.
  destruct (fst (fst (read_once s (lastRead u))) =? 2)%N; [apply IH; assumption|exact Hs'].
Qed.

(* appending an event does not disturb what has been received *)
Lemma SubInv_add : forall t0 E lts u e, SubInv t0 E lts u -> lts < e_ts e ->
  SubInv t0 (E ++ [e]) (e_ts e) u.
Proof.
  intros t0 E lts u e [Hle [Hgot Hlr]] Hlt. split; [exact Hle|]. split.
  - rewrite filter_app. cbn [filter].
    assert (in_range t0 (lastRead u) e = false).
    { unfold in_range. destruct Hlr as [Hlr|Hlr].
      - rewrite Hlr. destruct (t0 <? e_ts e) eqn:A, (e_ts e <=? t0) eqn:B; try reflexivity; lia.
      - destruct (e_ts e <=? lastRead u) eqn:B; [lia|]. apply andb_false_r. }
    rewrite H, app_nil_r. exact Hgot.
  - destruct Hlr; [left; assumption|right; lia].
Qed.

(* ---------- one step of the whole system ---------- *)
Definition op_wf (o : op) : Prop := match o with Add _ len _ => 0 < len | _ => True end.

Lemma step_inv : forall iv gh y o t0,
  0 <= t0 -> Inv gh (buf y) -> SubInv t0 (E_of gh (buf y)) (lastTs (buf y)) (subs y) ->
  op_wf o -> step_trig iv true y o = None ->
  exists gh', Inv gh' (buf (step iv true y o)) /\
              E_of gh' (buf (step iv true y o)) = E_of gh (buf y) ++ op_events (buf y) o /\
              SubInv t0 (E_of gh' (buf (step iv true y o))) (lastTs (buf (step iv true y o))) (subs (step iv true y o)).
Proof.
  intros iv gh y o t0 Ht0 HI HS Hwf Htr. destruct o; cbn [step buf subs op_events step_trig] in *.
  - destruct (add_inv iv gh (buf y) ev len id HI Htr Hwf) as [gh' [HI' HE']].
    exists gh'. split; [exact HI'|]. split; [exact HE'|]. rewrite HE'.
    replace (lastTs (add iv true (buf y) ev len id)) with (e_ts (new_entry (buf y) ev len id)) by reflexivity.
    apply (SubInv_add _ _ (lastTs (buf y))); [exact HS|]. cbn [new_entry e_ts]. apply adjust_gt.
  - destruct (trig_seal (buf y)) eqn:Ets; [discriminate|].
    destruct (seal_inv gh (buf y) HI Ets) as [gh' [HI' HE']].
    exists gh'. split; [exact HI'|]. rewrite app_nil_r. split; [exact HE'|].
    rewrite HE', seal_lastTs. exact HS.
  - exists gh. split; [apply flush_write_inv; exact HI|]. rewrite app_nil_r.
    assert (HE : E_of gh (flush_write (buf y)) = E_of gh (buf y)).
    { unfold flush_write. destruct (inflight (buf y)); [reflexivity|]. destruct (queue (buf y)); reflexivity. }
    split; [exact HE|]. rewrite HE.
    replace (lastTs (flush_write (buf y))) with (lastTs (buf y)); [exact HS|].
    unfold flush_write. destruct (inflight (buf y)); [reflexivity|]. destruct (queue (buf y)); reflexivity.
  - exists gh. split; [apply flush_mark_inv; exact HI|]. rewrite app_nil_r.
    assert (HE : E_of gh (flush_mark (buf y)) = E_of gh (buf y)).
    { unfold flush_mark. destruct (inflight (buf y)); reflexivity. }
    split; [exact HE|]. rewrite HE.
    replace (lastTs (flush_mark (buf y))) with (lastTs (buf y)); [exact HS|].
    unfold flush_mark. destruct (inflight (buf y)); reflexivity.
  - exists gh. rewrite app_nil_r. auto.
  - exists gh. rewrite app_nil_r. auto.
  - exists gh. rewrite app_nil_r. auto.
  - exists gh. rewrite app_nil_r. split; [exact HI|]. split; [reflexivity|].
    apply sub_step_inv; assumption.
  - exists gh. rewrite app_nil_r. split; [exact HI|]. split; [reflexivity|].
    destruct (on_disk (subs y)); [apply sub_step_inv|apply sub_mem_loop_inv]; assumption.
Qed.

Definition ops_wf (ops : list op) : Prop := Forall op_wf ops.

Lemma run_inv : forall iv ops gh y t0,
  0 <= t0 -> Inv gh (buf y) -> SubInv t0 (E_of gh (buf y)) (lastTs (buf y)) (subs y) ->
  ops_wf ops -> run_trig iv true y ops = None ->
  exists gh', Inv gh' (buf (run iv true y ops)) /\
              E_of gh' (buf (run iv true y ops)) = E_of gh (buf y) ++ run_events iv true y ops /\
              SubInv t0 (E_of gh' (buf (run iv true y ops))) (lastTs (buf (run iv true y ops)))
                     (subs (run iv true y ops)).
Proof.
  intros iv ops. induction ops as [|o ops IH]; intros gh y t0 Ht0 HI HS Hwf Htr.
  - exists gh. cbn [run run_events]. rewrite app_nil_r. auto.
  - cbn [run run_trig run_events] in *. inversion Hwf as [|? ? Hwo Hwr]; subst.
    destruct (step_trig iv true y o) eqn:Est; [discriminate|].
    destruct (step_inv iv gh y o t0 Ht0 HI HS Hwo Est) as [gh1 [HI1 [HE1 HS1]]].
    destruct (IH gh1 _ t0 Ht0 HI1 HS1 Hwr Htr) as [gh2 [HI2 [HE2 HS2]]].
    exists gh2. split; [exact HI2|]. split; [|exact HS2]. rewrite HE2, HE1, <- app_assoc. reflexivity.
Qed.

(* ---------- the initial state ---------- *)
Definition gh0 : ghost := {| ev_old := []; r0 := None; r1 := None; r2 := None |}.

Lemma init_inv : forall c, Inv gh0 (init c).
Proof.
  intros c. pose proof zeroT_neg. split.
  - constructor; cbn; auto; try (intros; contradiction); try lia.
    intros g Hg. discriminate Hg.
  - unfold cur_times. cbn. lia.
Qed.

Definition sys0 (c t0 : Z) : sys := {| buf := init c; subs := sub_init t0 |}.

Theorem safety : forall iv c t0 ops,
  0 <= t0 -> ops_wf ops -> run_trig iv true (sys0 c t0) ops = None ->
  let y := run iv true (sys0 c t0) ops in
  let E := run_events iv true (sys0 c t0) ops in
  t0 <= lastRead (subs y) /\ got (subs y) = filter (in_range t0 (lastRead (subs y))) E.
Proof.
  intros iv c t0 ops Ht0 Hwf Htr.
  assert (HS0 : SubInv t0 (E_of gh0 (init c)) (lastTs (init c)) (sub_init t0)).
  { unfold SubInv, sub_init. cbn [lastRead got]. split; [lia|]. split; [reflexivity|left; reflexivity]. }
  destruct (run_inv iv ops gh0 (sys0 c t0) t0 Ht0 (init_inv c) HS0 Hwf Htr) as [gh' [HI [HE [H1 [H2 _]]]]].
  - cbn zeta. cbn [E_of gh0 ev_old r0 r1 r2 dat sys0 buf init cur app] in HE. rewrite HE in H2. auto.
Qed.

(* consequences in the words of the property *)
Lemma incr_filter : forall (f : entry -> bool) l lo b, incr lo l ->
  (forall e, In e l -> f e = true -> b < e_ts e) -> incr b (filter f l).
Proof.
  induction l as [|x l IH]; intros lo b Hinc Hb; [exact I|].
  destruct Hinc as [H1 H2]. cbn [filter]. destruct (f x) eqn:Fx.
  - split; [apply Hb; [left; reflexivity|exact Fx]|].
    apply (IH (e_ts x)); [exact H2|]. intros e He _. apply (incr_lb _ _ _ H2 He).
  - apply (IH (e_ts x)); [exact H2|]. intros e He Hf. apply Hb; [right; exact He|exact Hf].
Qed.

Lemma range_prefix : forall E lo t0 hi, incr lo E ->
  exists rest, filter (later t0) E = filter (in_range t0 hi) E ++ rest /\
               (forall e, In e rest -> hi < e_ts e).
Proof.
  intros E lo t0 hi Hinc. destruct (incr_split E lo hi Hinc) as [pre [suf [HE [Hp [Hs _]]]]].
  exists (filter (later t0) suf). subst E. rewrite !filter_app. split.
  - assert (F1 : filter (in_range t0 hi) pre = filter (later t0) pre).
    { apply filter_ext_in. intros e He. specialize (Hp _ He). unfold in_range, later.
      destruct (e_ts e <=? hi) eqn:B; [apply andb_true_r|lia]. }
    assert (F2 : filter (in_range t0 hi) suf = []).
    { apply filter_all_false. intros e He. specialize (Hs _ He). unfold in_range.
      destruct (e_ts e <=? hi) eqn:B; [lia|apply andb_false_r]. }
    rewrite F1, F2, app_nil_r. reflexivity.
  - intros e He. apply filter_In in He. apply Hs. tauto.
Qed.

Theorem exactly_once_in_order : forall iv c t0 ops,
  0 <= t0 -> ops_wf ops -> run_trig iv true (sys0 c t0) ops = None ->
  let y := run iv true (sys0 c t0) ops in
  let E := run_events iv true (sys0 c t0) ops in
  (* strictly increasing, all later than t0: no duplicate, no reordering *)
  incr t0 (got (subs y)) /\
  (* a prefix of the events later than t0, in append order: nothing skipped; what is
     still missing is later than everything received *)
  exists rest, filter (later t0) E = got (subs y) ++ rest /\
               (forall e, In e rest -> lastRead (subs y) < e_ts e).
Proof.
  intros iv c t0 ops Ht0 Hwf Htr y E.
  destruct (safety iv c t0 ops Ht0 Hwf Htr) as [Hle Hgot]. fold y in Hle, Hgot. fold E in Hgot.
  pose proof (ts_strict iv true c t0 ops) as Hinc. fold (sys0 c t0) in Hinc. fold E in Hinc.
  split.
  - rewrite Hgot. apply (incr_filter _ _ 0); [exact Hinc|].
    intros e _ Hf. unfold in_range in Hf. apply andb_true_iff in Hf. lia.
  - rewrite Hgot. apply (range_prefix E 0 t0 _ Hinc).
Qed.
