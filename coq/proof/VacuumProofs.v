(* Proofs about model/Vacuum.v (C14). *)
From Coq Require Import List NArith Bool Lia.
From SW Require Import model.TopoLayout model.Vacuum proof.TopoLayoutProofs.
Import ListNotations.
Local Open Scope N_scope.

(* ---------- logs ---------- *)
Lemma log_of_app : forall l1 l2 v n, log_of (l1 ++ l2) v n = log_of l1 v n ++ log_of l2 v n.
Proof. intros; unfold log_of. now rewrite filter_app, map_app. Qed.

Lemma got_app : forall l1 l2 v n r, got (l1 ++ l2) v n r = got l1 v n r || got l2 v n r.
Proof. intros; unfold got. now rewrite log_of_app, existsb_app. Qed.

(* the RPCs of one phase: replica n gets r exactly when it is in the phase's list *)
Lemma got_phase : forall v v' r r' ns n,
  got (map (mk v r) ns) v' n r' = (v =? v') && rpc_eqb r' r && mem n ns.
Proof.
  intros v v' r r' ns n; unfold got, log_of. induction ns as [|x ns IH]; simpl.
  - now rewrite andb_false_r.
  - destruct (v =? v') eqn:Ev; simpl in *.
    + destruct (x =? n) eqn:En; simpl.
      * rewrite IH. rewrite (N.eqb_sym n x), En. destruct (rpc_eqb r' r); reflexivity.
      * rewrite IH. rewrite (N.eqb_sym n x), En. reflexivity.
    + exact IH.
Qed.

Lemma rpc_eqb_refl : forall r, rpc_eqb r r = true.
Proof. destruct r; reflexivity. Qed.

Lemma commit_calls_sub : forall scs v vac n, In n (fst (commit_calls scs v vac)) -> In n vac.
Proof.
  induction vac as [|x vac IH]; simpl; intros n H; [exact H|].
  destruct (is_cm_hang (sget scs v x)).
  - simpl in H. destruct H as [->|[]]. now left.
  - destruct (commit_calls scs v vac) as [cs h]; simpl in *. destruct H as [->|H]; [now left|right; auto].
Qed.

Lemma commit_calls_nohang : forall scs v vac, snd (commit_calls scs v vac) = false ->
  fst (commit_calls scs v vac) = vac.
Proof.
  induction vac as [|x vac IH]; simpl; intros H; [reflexivity|].
  destruct (is_cm_hang (sget scs v x)); [discriminate|].
  destruct (commit_calls scs v vac) as [cs h]; simpl in *. now rewrite IH.
Qed.

(* ---------- the shape of a round's log (any state, any master-side events) ---------- *)
Lemma round_log_shape : forall c s scs mid v locs,
  let r := vacuum_round c s scs mid v locs in
  let vac := fst (check_phase scs v locs) in
  r_log r = [] \/ r_log r = check_log scs v locs \/
  (compact_ok scs v vac = true /\
   r_log r = check_log scs v locs ++ map (mk v RCompact) vac ++ map (mk v RCommit) (fst (commit_calls scs v vac))) \/
  (compact_ok scs v vac = false /\
   r_log r = check_log scs v locs ++ map (mk v RCompact) vac ++ map (mk v RCleanup) vac).
Proof.
  intros c s scs mid v locs; cbv zeta; unfold vacuum_round.
  destruct (bs_true v (l_ro (s_lay s))); [now left|].
  destruct (check_phase scs v locs) as [vac need]; cbn [fst].
  destruct need; [|right; now left].
  destruct (compact_ok scs v vac) eqn:Eok.
  - destruct (commit_calls scs v vac) as [called hung]; cbn [fst].
    right; right; left; split; [reflexivity|].
    destruct hung; [reflexivity|]. destruct (commit_ok scs v vac); [|reflexivity].
    destruct (detached _ _ _); reflexivity.
  - right; right; right; split; reflexivity.
Qed.

(* ---------- clause 2: commit only after every compaction succeeded ---------- *)
Lemma got_check_log : forall scs v locs v' n r, r <> RCheck -> got (check_log scs v locs) v' n r = false.
Proof.
  intros scs v locs v' n r Hr; unfold check_log. rewrite got_phase.
  destruct r; try congruence; simpl; now rewrite andb_false_r.
Qed.

Lemma commit_only_after_compact : forall c s scs mid v locs n,
  let r := vacuum_round c s scs mid v locs in
  got (r_log r) v n RCommit = true ->
  let vac := fst (check_phase scs v locs) in
  In n vac /\ compact_ok scs v vac = true /\ is_cp_ok (sget scs v n) = true /\
  got (r_log r) v n RCompact = true /\ got (r_log r) v n RCleanup = false.
Proof.
  intros c s scs mid v locs n r H vac.
  pose proof (round_log_shape c s scs mid v locs) as S. cbv zeta in S. fold r in S. fold vac in S.
  destruct S as [E|[E|[[Hok E]|[Hok E]]]]; rewrite E in *.
  - discriminate.
  - rewrite got_check_log in H by discriminate. discriminate.
  - rewrite !got_app, got_check_log, !got_phase, N.eqb_refl in H by discriminate. simpl in H.
    assert (Hin : In n vac) by (apply commit_calls_sub with scs v; now apply mem_In).
    repeat split; auto.
    + unfold compact_ok in Hok. rewrite forallb_forall in Hok. now apply Hok.
    + rewrite !got_app, !got_phase, N.eqb_refl. apply mem_In in Hin. rewrite Hin. simpl. apply orb_true_r.
    + rewrite !got_app, got_check_log, !got_phase by discriminate. simpl. now rewrite !andb_false_r.
  - rewrite !got_app, got_check_log, !got_phase in H by discriminate. simpl in H.
    rewrite !andb_false_r in H. discriminate.
Qed.

Lemma round_log_vid : forall c s scs mid v locs e, In e (r_log (vacuum_round c s scs mid v locs)) -> e_vid e = v.
Proof.
  intros c s scs mid v locs e.
  assert (H : forall r ns', In e (map (mk v r) ns') -> e_vid e = v).
  { intros r ns' Hin. apply in_map_iff in Hin. destruct Hin as (x & <- & _). reflexivity. }
  intros Hin. pose proof (round_log_shape c s scs mid v locs) as S. cbv zeta in S.
  destruct S as [E|[E|[[_ E]|[_ E]]]]; rewrite E in Hin; unfold check_log in Hin;
    rewrite ?in_app_iff in Hin; try (now destruct Hin);
    repeat (destruct Hin as [Hin|Hin]); eauto.
Qed.

Lemma filter_none : forall {A} (f : A -> bool) l, (forall x, In x l -> f x = false) -> filter f l = [].
Proof.
  induction l as [|x l IH]; intros H; simpl; [reflexivity|].
  rewrite (H x (or_introl eq_refl)). apply IH. intros y Hy; apply H; now right.
Qed.

Lemma got_other_vid : forall c s scs mid v v' locs n r, v <> v' ->
  got (r_log (vacuum_round c s scs mid v locs)) v' n r = false.
Proof.
  intros c s scs mid v v' locs n r Hne. unfold got, log_of.
  rewrite filter_none; [reflexivity|].
  intros e He. apply round_log_vid in He. rewrite He.
  destruct (v =? v') eqn:E; [apply N.eqb_eq in E; congruence|reflexivity].
Qed.

(* the log of a whole pass over a layout: the entries for vid v come from v's rounds *)
Lemma layout_commit_only_after_compact : forall c scs mids s v n,
  got (q_log (vacuum_layout c scs mids s)) v n RCommit = true ->
  exists locs s', In (v, locs) (l_loc (s_lay s)) /\
    let r := vacuum_round c s' scs (mids v) v locs in
    let vac := fst (check_phase scs v locs) in
    In n vac /\ compact_ok scs v vac = true /\ is_cp_ok (sget scs v n) = true /\
    got (r_log r) v n RCompact = true /\ got (r_log r) v n RCleanup = false.
Proof.
  intros c scs mids s v n. unfold vacuum_layout.
  assert (G : forall ps q0,
    got (q_log (fold_left (round_step c scs mids) ps q0)) v n RCommit = true ->
    got (q_log q0) v n RCommit = true \/
    exists locs s', In (v, locs) ps /\ got (r_log (vacuum_round c s' scs (mids v) v locs)) v n RCommit = true).
  { induction ps as [|[v0 locs0] ps IH]; intros q0 H; simpl in *; [now left|].
    destruct (IH _ H) as [H1|(locs & s' & Hin & H1)].
    - unfold round_step in H1. destruct (q_hung q0 || q_panic q0); [now left|].
      cbn [q_log fst snd] in H1. rewrite got_app in H1. apply orb_true_iff in H1.
      destruct H1 as [H1|H1]; [now left|].
      right. destruct (N.eq_dec v0 v) as [->|Hne].
      + exists locs0, (q_st q0); split; [now left|exact H1].
      + rewrite got_other_vid in H1 by assumption. discriminate.
    - right. exists locs, s'; split; [now right|exact H1]. }
  intros H. destruct (G _ _ H) as [H1|(locs & s' & Hin & H1)]; [discriminate|].
  exists locs, s'; split; [exact Hin|]. now apply commit_only_after_compact.
Qed.

(* ---------- clause 1: replicas keep the same live content ---------- *)
Section Content.
  Variables content live_t : Type.
  Variable live : content -> live_t.           (* the live needles of a volume's files *)
  Variable compacted : content -> content.      (* the files Compact2 + CommitCompact leave *)
  (* C04: compaction preserves the live content *)
  Hypothesis compact_preserves_live : forall x, live (compacted x) = live x.

  (* replica n swapped in the compacted files iff it received a commit that succeeded *)
  Definition committed (log : list entry) (scs : scripts) (v n : N) : bool :=
    got log v n RCommit && is_cm_ok (sget scs v n).
  Definition content_after (log : list entry) (scs : scripts) (v : N) (before : N -> content) (n : N) : content :=
    if committed log scs v n then compacted (before n) else before n.

  Lemma same_content : forall log scs v before n m,
    live (before n) = live (before m) ->
    live (content_after log scs v before n) = live (content_after log scs v before m).
  Proof.
    intros log scs v before n m H; unfold content_after.
    destruct (committed log scs v n), (committed log scs v m); now rewrite ?compact_preserves_live.
  Qed.

  (* ... for the log of a round, whatever the state, the scripts and the events;
     and a replica whose files are swapped had a successful compaction *)
  Lemma same_content_round : forall c s scs mid v locs before n m,
    let log := r_log (vacuum_round c s scs mid v locs) in
    live (before n) = live (before m) ->
    live (content_after log scs v before n) = live (content_after log scs v before m) /\
    (committed log scs v n = true -> is_cp_ok (sget scs v n) = true /\ got log v n RCleanup = false).
  Proof.
    intros c s scs mid v locs before n m log H; split; [now apply same_content|].
    unfold committed. intros Hc. apply andb_true_iff in Hc. destruct Hc as [Hc _].
    pose proof (commit_only_after_compact c s scs mid v locs n Hc) as K. cbv zeta in K. tauto.
  Qed.
End Content.

(* ---------- clause 3: writable afterwards ---------- *)
Lemma forallb_same_members : forall {A} (f : A -> bool) l1 l2,
  (forall x, In x l1 <-> In x l2) -> forallb f l1 = forallb f l2.
Proof.
  intros A f l1 l2 H. destruct (forallb f l1) eqn:E1; symmetry.
  - rewrite forallb_forall in *. intros x Hx. apply E1. now apply H.
  - destruct (forallb f l2) eqn:E2; [|reflexivity].
    rewrite <- E1. symmetry. rewrite forallb_forall in *. intros x Hx. apply E2. now apply H.
Qed.

Lemma crit_loc_crit : forall c s v, Inv c s -> crit_loc c (s_nodes s) (s_lay s) v = crit c (s_nodes s) v.
Proof.
  intros c s v HI. unfold crit_loc, crit. rewrite (inv_lookup_len c s v HI). f_equal.
  apply forallb_same_members. intros n. destruct HI as [_ Hns Hloc _].
  rewrite (Hloc v n). symmetry. now apply holders_spec.
Qed.

Lemma loc_In_aget : forall l v n, In n (loc l v) -> exists locs, aget v (l_loc l) = Some locs /\ In n locs.
Proof. intros l v n H; unfold loc in H. destruct (aget v (l_loc l)) as [x|]; [eauto|destruct H]. Qed.

(* one SetVolumeAvailable(n, v, false) on a replica the layout lists *)
Lemma set_available_step : forall c ns n v l, In n (loc l v) ->
  mem v (l_writ (set_available c ns n v false l)) =
  mem v (l_writ l) || (replica_rw ns v n && enough c (nlen (loc l v))).
Proof.
  intros c ns n v l Hin. destruct (loc_In_aget l v n Hin) as (locs & El & Hn).
  unfold set_available, replica_rw. destruct (ginfo ns n v) as [i|]; [|now rewrite orb_false_r].
  rewrite El.
  assert (Hl : lset n locs = locs) by (unfold lset; apply mem_In in Hn; now rewrite Hn).
  rewrite Hl, orb_false_r. destruct (vi_ro i); simpl; [now rewrite orb_false_r|].
  unfold loc at 1; simpl. rewrite aget_aset_eq. unfold loc; rewrite El.
  destruct (enough c (nlen locs)); simpl; [|now rewrite orb_false_r].
  unfold set_writable; simpl. destruct (mem v (l_writ l)) eqn:Em; simpl; [exact Em|].
  rewrite mem_snoc, N.eqb_refl. apply orb_true_r.
Qed.

Lemma set_available_ro : forall c ns n v l,
  mem v (l_writ (set_available c ns n v true l)) = mem v (l_writ l).
Proof.
  intros c ns n v l; unfold set_available. destruct (ginfo ns n v); [|reflexivity].
  destruct (aget v (l_loc l)); [|reflexivity]. now rewrite orb_true_r.
Qed.

Lemma set_available_loc : forall c ns n v ro l, In n (loc l v) ->
  loc (set_available c ns n v ro l) v = loc l v.
Proof.
  intros c ns n v ro l Hin; unfold set_available.
  destruct (ginfo ns n v); [|reflexivity]. unfold loc in *.
  destruct (aget v (l_loc l)) as [locs|] eqn:E; [|destruct Hin].
  assert (Hl : lset n locs = locs) by (unfold lset; apply mem_In in Hin; now rewrite Hin).
  assert (K : forall l', l_loc l' = aset v (lset n locs) (l_loc l) ->
              match aget v (l_loc l') with Some x => x | None => [] end = locs).
  { intros l' ->. now rewrite aget_aset_eq, Hl. }
  destruct (vi_ro v0 || ro); [now apply K|].
  destruct (enough c _); [|now apply K].
  apply K. unfold set_writable; simpl. now destruct (mem v (l_writ l)).
Qed.

(* the other vids' location lists, readonlyVolumes and oversizedVolumes are not touched *)
Lemma set_available_ro_os : forall c ns n v ro l,
  l_ro (set_available c ns n v ro l) = l_ro l /\ l_os (set_available c ns n v ro l) = l_os l.
Proof.
  intros c ns n v ro l; unfold set_available. destruct (ginfo ns n v); [|now split].
  destruct (aget v (l_loc l)); [|now split]. destruct (vi_ro v0 || ro); [now split|].
  destruct (enough c _); [|now split]. unfold set_writable; simpl. now destruct (mem v (l_writ l)).
Qed.

Definition fold_av (c : cfg) (ns : nodes) (v : N) (ro : bool) (vac : list N) (l : layout) : layout :=
  fold_left (fun l' n => set_available c ns n v ro l') vac l.

Lemma fold_av_frame : forall c ns v ro vac l, (forall n, In n vac -> In n (loc l v)) ->
  loc (fold_av c ns v ro vac l) v = loc l v /\
  l_ro (fold_av c ns v ro vac l) = l_ro l /\ l_os (fold_av c ns v ro vac l) = l_os l.
Proof.
  unfold fold_av. induction vac as [|n vac IH]; intros l H; simpl; [now repeat split|].
  assert (Hn : In n (loc l v)) by (apply H; now left).
  destruct (IH (set_available c ns n v ro l)) as (A & B & C).
  { intros m Hm. rewrite set_available_loc by exact Hn. apply H; now right. }
  rewrite A, B, C, set_available_loc by exact Hn.
  destruct (set_available_ro_os c ns n v ro l) as [-> ->]. now repeat split.
Qed.

Lemma fold_av_exact : forall c ns v vac l, (forall n, In n vac -> In n (loc l v)) ->
  mem v (l_writ (fold_av c ns v false vac l)) =
  mem v (l_writ l) || (enough c (nlen (loc l v)) && existsb (replica_rw ns v) vac).
Proof.
  unfold fold_av. induction vac as [|n vac IH]; intros l H; simpl.
  - now rewrite andb_false_r, orb_false_r.
  - assert (Hn : In n (loc l v)) by (apply H; now left).
    rewrite IH.
    + rewrite set_available_loc, set_available_step by exact Hn.
      destruct (mem v (l_writ l)), (replica_rw ns v n), (enough c (nlen (loc l v))); reflexivity.
    + intros m Hm. rewrite set_available_loc by exact Hn. apply H; now right.
Qed.

Lemma fold_av_ro : forall c ns v vac l, mem v (l_writ (fold_av c ns v true vac l)) = mem v (l_writ l).
Proof.
  unfold fold_av. induction vac as [|n vac IH]; intros l; simpl; [reflexivity|].
  now rewrite IH, set_available_ro.
Qed.

(* no panic while the layout has an entry for v *)
Lemma set_available_keeps_entry : forall c ns n v ro l,
  aget v (l_loc l) <> None -> aget v (l_loc (set_available c ns n v ro l)) <> None.
Proof.
  intros c ns n v ro l H; unfold set_available. destruct (ginfo ns n v); [|exact H].
  destruct (aget v (l_loc l)) as [locs|] eqn:E; [|now rewrite E].
  assert (K : forall l', l_loc l' = aset v (lset n locs) (l_loc l) -> aget v (l_loc l') <> None).
  { intros l' ->. now rewrite aget_aset_eq. }
  destruct (vi_ro v0 || ro); [now apply K|]. destruct (enough c _); [|now apply K].
  apply K. unfold set_writable; simpl. now destruct (mem v (l_writ l)).
Qed.

Lemma fold_set_av_ok : forall c held v ro vac l, aget v (l_loc l) <> None ->
  fold_left (set_av c held v ro) vac (l, false) = (fold_av c held v ro vac l, false).
Proof.
  unfold fold_av. induction vac as [|n vac IH]; intros l H; simpl; [reflexivity|].
  unfold set_av at 2; cbn [fst snd].
  destruct (ginfo held n v) as [i|] eqn:Eg.
  - destruct (aget v (l_loc l)) eqn:E; [|congruence].
    rewrite IH; [reflexivity|]. apply set_available_keeps_entry. congruence.
  - rewrite IH by exact H. f_equal. f_equal. unfold set_available. now rewrite Eg.
Qed.

(* ---------- rounds without master-side events ---------- *)
Definition round_of (c : cfg) (s : state) (scs : scripts) (v : N) : round :=
  vacuum_round c s scs [] v (lookup s v).

Definition writable_after (c : cfg) (s : state) (scs : scripts) (v : N) : bool :=
  mem v (l_writ (r_lay (round_of c s scs v))).

Lemma vac_sub : forall scs v locs n, In n (fst (check_phase scs v locs)) -> In n locs.
Proof. intros scs v locs n H; unfold check_phase in H; simpl in H. apply filter_In in H. tauto. Qed.

Lemma need_nonempty : forall scs v locs, snd (check_phase scs v locs) = true -> fst (check_phase scs v locs) <> [].
Proof.
  intros scs v locs H E; unfold check_phase in *; simpl in *. rewrite E in H.
  now rewrite andb_false_r in H.
Qed.

(* the layout a round without events leaves, in terms of the outcome class *)
Lemma round_of_lay : forall c s scs v,
  let l := s_lay s in let vac := vac_of scs l v in
  r_lay (round_of c s scs v) =
    if reaches_compact scs l v then
      if compact_ok scs v vac && negb (snd (commit_calls scs v vac)) && commit_ok scs v vac
      then fold_av c (s_nodes s) v (commit_ro scs v vac) vac (remove_writable v l)
      else remove_writable v l
    else l.
Proof.
  intros c s scs v; cbv zeta. unfold round_of, vacuum_round, reaches_compact, vac_of, lookup, r_lay.
  destruct (bs_true v (l_ro (s_lay s))); [reflexivity|].
  destruct (check_phase scs v (loc (s_lay s) v)) as [vac need] eqn:Ec; cbn [fst snd negb andb].
  destruct need; [|reflexivity].
  destruct (compact_ok scs v vac); cbn [andb]; [|reflexivity].
  destruct (commit_calls scs v vac) as [called hung]; cbn [snd].
  destruct hung; cbn [negb andb]; [reflexivity|].
  destruct (commit_ok scs v vac); [|reflexivity].
  cbn [detached trace existsb run fold_left held_nodes dead_of with_lay s_nodes s_lay].
  rewrite fold_set_av_ok; [reflexivity|].
  cbn [remove_writable with_writ l_loc].
  assert (Hne : vac <> []).
  { pose proof (need_nonempty scs v (loc (s_lay s) v)) as K. rewrite Ec in K. now apply K. }
  destruct vac as [|n vac]; [congruence|].
  assert (Hn : In n (loc (s_lay s) v)).
  { apply (vac_sub scs v). rewrite Ec. now left. }
  destruct (loc_In_aget _ _ _ Hn) as (locs & -> & _). discriminate.
Qed.

Lemma round_of_flags : forall c s scs v,
  r_hung (round_of c s scs v) = trigger_hang scs (s_lay s) v /\ r_panic (round_of c s scs v) = false /\
  s_nodes (r_st (round_of c s scs v)) = s_nodes s.
Proof.
  intros c s scs v. unfold round_of, vacuum_round, trigger_hang, reaches_compact, vac_of, lookup.
  destruct (bs_true v (l_ro (s_lay s))); [now repeat split|].
  destruct (check_phase scs v (loc (s_lay s) v)) as [vac need] eqn:Ec; cbn [fst snd negb andb].
  destruct need; [|now repeat split].
  destruct (compact_ok scs v vac); cbn [andb]; [|now repeat split].
  destruct (commit_calls scs v vac) as [called hung]; cbn [snd].
  destruct hung; [now repeat split|].
  destruct (commit_ok scs v vac); [|now repeat split].
  cbn [detached trace existsb run fold_left held_nodes dead_of with_lay s_nodes s_lay].
  rewrite fold_set_av_ok; [now repeat split|].
  cbn [remove_writable with_writ l_loc].
  assert (Hne : vac <> []).
  { pose proof (need_nonempty scs v (loc (s_lay s) v)) as K. rewrite Ec in K. now apply K. }
  destruct vac as [|n vac]; [congruence|].
  assert (Hn : In n (loc (s_lay s) v)).
  { apply (vac_sub scs v). rewrite Ec. now left. }
  destruct (loc_In_aget _ _ _ Hn) as (locs & -> & _). discriminate.
Qed.

(* what a round touches: only the writables (and nothing at all when the compact
   phase is not reached) *)
Lemma round_of_frame : forall c s scs v,
  let r := round_of c s scs v in
  loc (r_lay r) v = loc (s_lay s) v /\ l_ro (r_lay r) = l_ro (s_lay s) /\ l_os (r_lay r) = l_os (s_lay s).
Proof.
  intros c s scs v; cbv zeta. rewrite round_of_lay; cbv zeta.
  destruct (reaches_compact scs (s_lay s) v); [|now repeat split].
  destruct (_ && _ && _); [|now repeat split].
  apply (fold_av_frame c (s_nodes s) v _ (vac_of scs (s_lay s) v) (remove_writable v (s_lay s))).
  intros n Hn. change (loc (remove_writable v (s_lay s)) v) with (loc (s_lay s) v).
  now apply (vac_sub scs v).
Qed.

Lemma no_compact_no_change : forall c s scs mid v,
  reaches_compact scs (s_lay s) v = false ->
  let r := vacuum_round c s scs mid v (loc (s_lay s) v) in
  r_st r = s /\ r_hung r = false /\ r_panic r = false /\
  (r_log r = [] \/ r_log r = check_log scs v (loc (s_lay s) v)).
Proof.
  intros c s scs mid v H; cbv zeta. unfold vacuum_round, reaches_compact in *.
  destruct (bs_true v (l_ro (s_lay s))); [repeat split; now left|].
  destruct (check_phase scs v (loc (s_lay s) v)) as [vac need]; cbn [snd negb andb] in H. subst need.
  repeat split; now right.
Qed.

Lemma NoDup_lremove_notin : forall v l, NoDup l -> mem v (lremove v l) = false.
Proof.
  intros v l H. apply mem_false. intros Hin.
  apply (notin_lremove v l H). exact Hin.
Qed.

(* the exact value of "writable after the round" on the reachable states *)
Lemma after_exact : forall c s scs v, Inv c s ->
  writable_after c s scs v =
    if reaches_compact scs (s_lay s) v
    then full_success scs (s_lay s) v && readmit_test c (s_nodes s) scs (s_lay s) v
    else writable s v.
Proof.
  intros c s scs v HI. unfold writable_after. rewrite round_of_lay; cbv zeta.
  unfold full_success, readmit_test.
  destruct (reaches_compact scs (s_lay s) v) eqn:Er; [|reflexivity]. cbn [andb].
  assert (Hrm : mem v (l_writ (remove_writable v (s_lay s))) = false).
  { apply NoDup_lremove_notin. destruct HI as [[Hnd _] _ _ _]. exact Hnd. }
  set (vac := vac_of scs (s_lay s) v) in *.
  destruct (compact_ok scs v vac); cbn [andb]; [|exact Hrm].
  destruct (snd (commit_calls scs v vac)); cbn [negb andb]; [exact Hrm|].
  destruct (commit_ok scs v vac); cbn [andb]; [|exact Hrm].
  destruct (commit_ro scs v vac); cbn [negb andb].
  - now rewrite fold_av_ro.
  - rewrite fold_av_exact, Hrm; [reflexivity|].
    intros n Hn. now apply (vac_sub scs v).
Qed.

(* a writable volume passes SetVolumeAvailable's test (C11 invariant) *)
Lemma writable_passes_test : forall c s scs v, Inv c s ->
  reaches_compact scs (s_lay s) v = true -> writable s v = true ->
  readmit_test c (s_nodes s) scs (s_lay s) v = true.
Proof.
  intros c s scs v HI Er Hw. destruct HI as [_ _ Hloc HI3]. specialize (HI3 v Hw).
  destruct HI3 as [Hen Hrw]. unfold readmit_test. cbn [view_of w_loc] in Hen, Hrw.
  rewrite loc_olist, Hen. cbn [andb].
  unfold reaches_compact in Er. apply andb_true_iff in Er. destruct Er as [_ Er].
  pose proof (need_nonempty _ _ _ Er) as Hne. unfold vac_of.
  destruct (fst (check_phase scs v (loc (s_lay s) v))) as [|n vac] eqn:Ev; [congruence|].
  assert (Hn : In n (loc (s_lay s) v)) by (apply (vac_sub scs v); rewrite Ev; now left).
  simpl. destruct (proj1 (Hloc v n) Hn) as [i Hi]. unfold replica_rw. rewrite Hi.
  rewrite loc_olist in Hn. now rewrite (Hrw n i Hn Hi).
Qed.

(* the statement at full strength: the round leaves the volume writable exactly
   when it was (a master that never vacuums keeps the writable set) *)
Definition writable_unchanged (c : cfg) : Prop :=
  forall es, wf_history es -> forall scs v,
    let s := run c init es in writable_after c s scs v = writable s v.
(* ... and in terms of the C11 criterion *)
Definition writable_iff (c : cfg) : Prop :=
  forall es, wf_history es -> forall scs v,
    let s := run c init es in
    writable s v = crit c (s_nodes s) v -> writable_after c s scs v = crit c (s_nodes s) v.

Lemma unchanged_partial_inv : forall c s scs v, Inv c s ->
  trigger_stuck scs (s_lay s) v = false ->
  trigger_readmit c (s_nodes s) scs (s_lay s) v = false ->
  trigger_hang scs (s_lay s) v = false ->
  writable_after c s scs v = writable s v.
Proof.
  intros c s scs v HI T0 T1 T2. rewrite after_exact by exact HI.
  destruct (reaches_compact scs (s_lay s) v) eqn:Er; [|reflexivity].
  unfold trigger_stuck, trigger_readmit in T0, T1. rewrite Er, T2 in T0. cbn [andb negb] in T0.
  fold (writable s v) in T0, T1.
  destruct (full_success scs (s_lay s) v) eqn:Ef; cbn [andb negb] in *.
  - destruct (writable s v) eqn:Ew; cbn [negb andb] in T1; [|exact T1].
    now apply writable_passes_test.
  - now rewrite T0.
Qed.

Lemma writable_unchanged_partial : forall c, 1 <= c_copy c ->
  forall es, wf_history es -> forall scs v,
    let s := run c init es in
    trigger_stuck scs (s_lay s) v = false ->
    trigger_readmit c (s_nodes s) scs (s_lay s) v = false ->
    trigger_hang scs (s_lay s) v = false ->
    writable_after c s scs v = writable s v.
Proof. intros c Hc es Hwf scs v s. apply unchanged_partial_inv. now apply reach_inv. Qed.

Lemma writable_iff_partial : forall c, 1 <= c_copy c ->
  forall es, wf_history es -> forall scs v,
    let s := run c init es in
    trigger_stuck scs (s_lay s) v = false ->
    trigger_readmit c (s_nodes s) scs (s_lay s) v = false ->
    trigger_hang scs (s_lay s) v = false ->
    writable s v = crit c (s_nodes s) v -> writable_after c s scs v = crit c (s_nodes s) v.
Proof.
  intros c Hc es Hwf scs v s T0 T1 T2 Hpre. rewrite <- Hpre.
  now apply writable_unchanged_partial.
Qed.

(* every input inside a trigger is a violation: the triggers are exact *)
Lemma stuck_exact : forall c, 1 <= c_copy c -> forall es, wf_history es -> forall scs v,
  let s := run c init es in
  trigger_stuck scs (s_lay s) v = true ->
  writable s v = true /\ writable_after c s scs v = false /\ r_hung (round_of c s scs v) = false.
Proof.
  intros c Hc es Hwf scs v s T. pose proof (reach_inv c Hc es Hwf) as HI. fold s in HI.
  rewrite after_exact by exact HI. unfold trigger_stuck in T.
  apply andb_true_iff in T. destruct T as [T Hw]. apply andb_true_iff in T. destruct T as [T Hh].
  apply andb_true_iff in T. destruct T as [Er Hf].
  rewrite Er. apply negb_true_iff in Hf, Hh. rewrite Hf.
  destruct (round_of_flags c s scs v) as (-> & _ & _). now repeat split.
Qed.

Lemma readmit_exact : forall c, 1 <= c_copy c -> forall es, wf_history es -> forall scs v,
  let s := run c init es in
  trigger_readmit c (s_nodes s) scs (s_lay s) v = true ->
  writable s v = false /\ writable_after c s scs v = true.
Proof.
  intros c Hc es Hwf scs v s T. pose proof (reach_inv c Hc es Hwf) as HI. fold s in HI.
  rewrite after_exact by exact HI. unfold trigger_readmit in T.
  apply andb_true_iff in T. destruct T as [T Ht]. apply andb_true_iff in T. destruct T as [Hf Hw].
  apply negb_true_iff in Hw. rewrite Hf, Ht.
  assert (Er : reaches_compact scs (s_lay s) v = true).
  { unfold full_success in Hf. destruct (reaches_compact scs (s_lay s) v); [reflexivity|discriminate]. }
  rewrite Er. now split.
Qed.

(* 2: a commit that never answers: the round never returns, the volume stays out
   of writables, and every later call of Topology.Vacuum returns at once *)
Lemma hang_exact : forall c, 1 <= c_copy c -> forall es, wf_history es -> forall scs v,
  let s := run c init es in
  trigger_hang scs (s_lay s) v = true ->
  r_hung (round_of c s scs v) = true /\ writable_after c s scs v = false.
Proof.
  intros c Hc es Hwf scs v s T. pose proof (reach_inv c Hc es Hwf) as HI. fold s in HI.
  destruct (round_of_flags c s scs v) as (-> & _ & _). split; [exact T|].
  rewrite after_exact by exact HI. unfold trigger_hang in T. unfold full_success.
  apply andb_true_iff in T. destruct T as [T ->]. apply andb_true_iff in T. destruct T as [-> ->].
  reflexivity.
Qed.

Lemma hung_blocks_later_passes : forall c q p, q_hung q = true -> q_panic q = false ->
  let q' := pass_step c q p in
  q_log q' = [] /\ q_hung q' = true /\ q_st q' = run c (q_st q) (p_pre p).
Proof. intros c q p Hh Hp; cbv zeta; unfold pass_step. rewrite Hp, Hh. now repeat split. Qed.

(* 5: a later round that ends in a clean commit puts a healthy volume back *)
Lemma clean_round_writable : forall c s scs v,
  crit_loc c (s_nodes s) (s_lay s) v = true -> full_success scs (s_lay s) v = true ->
  writable_after c s scs v = true.
Proof.
  intros c s scs v Hcr Hf. unfold writable_after. rewrite round_of_lay; cbv zeta.
  unfold full_success in Hf. fold (vac_of scs (s_lay s) v) in *.
  set (vac := vac_of scs (s_lay s) v) in *.
  destruct (reaches_compact scs (s_lay s) v) eqn:Er; [|discriminate]. cbn [andb] in Hf.
  destruct (compact_ok scs v vac); [|discriminate]. cbn [andb] in Hf.
  destruct (snd (commit_calls scs v vac)); [discriminate|]. cbn [negb andb] in Hf.
  destruct (commit_ok scs v vac); [|discriminate]. cbn [andb] in Hf.
  apply negb_true_iff in Hf. rewrite Hf. cbn [andb negb].
  rewrite fold_av_exact by (intros n Hn; now apply (vac_sub scs v)).
  change (loc (remove_writable v (s_lay s)) v) with (loc (s_lay s) v).
  unfold crit_loc in Hcr. apply andb_true_iff in Hcr. destruct Hcr as [-> Hall]. cbn [andb].
  unfold reaches_compact in Er. apply andb_true_iff in Er. destruct Er as [_ Er].
  pose proof (need_nonempty _ _ _ Er) as Hne. subst vac. unfold vac_of in *.
  destruct (fst (check_phase scs v (loc (s_lay s) v))) as [|n vac] eqn:Ev; [congruence|].
  assert (Hn : In n (loc (s_lay s) v)) by (apply (vac_sub scs v); rewrite Ev; now left).
  rewrite forallb_forall in Hall. specialize (Hall n Hn). unfold replica_ok in Hall.
  simpl. unfold replica_rw. destruct (ginfo (s_nodes s) n v) as [i|]; [|discriminate].
  apply andb_true_iff in Hall. destruct Hall as [-> _]. apply orb_true_r.
Qed.

Lemma recovers_on_next_clean_round : forall c s scs1 scs2 v,
  crit_loc c (s_nodes s) (s_lay s) v = true ->
  full_success scs2 (s_lay s) v = true ->
  let r1 := round_of c s scs1 v in
  writable_after c (r_st r1) scs2 v = true.
Proof.
  intros c s scs1 scs2 v Hcr Hf r1.
  destruct (round_of_frame c s scs1 v) as (A & B & C). fold r1 in A, B, C.
  destruct (round_of_flags c s scs1 v) as (_ & _ & D). fold r1 in D.
  apply clean_round_writable.
  - unfold crit_loc in *. fold (r_lay r1). now rewrite D, A.
  - unfold full_success, reaches_compact, vac_of in *. fold (r_lay r1). now rewrite A, B.
Qed.

(* ---------- the confirmed defects ---------- *)
Definition ok_script : script := {| sc_ck := CkOver; sc_cp := CpOk; sc_cm := CmOk |}.
Definition sc (a : ck) (b : cp) (d : cm) : script := {| sc_ck := a; sc_cp := b; sc_cm := d |}.

Definition stuck_history := [EFull 1 [vi 1 10 false]].
Definition stuck_scripts : scripts := [(1, [(1, sc CkOver CpErr CmOk)])].
Definition readmit_history := [EFull 1 [vi 1 10 false]; EFull 2 [vi 1 10 false]; EFull 2 [vi 1 10 true]].
Definition readmit_scripts : scripts := [(1, [(1, ok_script); (2, ok_script)])].

(* 0: a failed compaction leaves a healthy volume out of writables; the other
   triggers are false on the witness *)
Lemma refuted_stuck_witness :
  let s := run cfg000 init stuck_history in
  wf_history stuck_history /\
  trigger_stuck stuck_scripts (s_lay s) 1 = true /\
  trigger_readmit cfg000 (s_nodes s) stuck_scripts (s_lay s) 1 = false /\
  trigger_hang stuck_scripts (s_lay s) 1 = false /\
  writable s 1 = true /\ crit cfg000 (s_nodes s) 1 = true /\
  writable_after cfg000 s stuck_scripts 1 = false.
Proof. vm_compute; repeat split; reflexivity. Qed.

(* 1: a clean commit re-admits a volume one of whose replicas is read-only *)
Lemma refuted_readmit_witness :
  let s := run cfg001 init readmit_history in
  wf_history readmit_history /\
  trigger_readmit cfg001 (s_nodes s) readmit_scripts (s_lay s) 1 = true /\
  trigger_stuck readmit_scripts (s_lay s) 1 = false /\
  trigger_hang readmit_scripts (s_lay s) 1 = false /\
  writable s 1 = false /\ crit cfg001 (s_nodes s) 1 = false /\
  writable_after cfg001 s readmit_scripts 1 = true.
Proof. vm_compute; repeat split; reflexivity. Qed.

Lemma writable_iff_refuted_stuck : ~ writable_iff cfg000.
Proof.
  intros H. specialize (H stuck_history eq_refl stuck_scripts 1).
  vm_compute in H. specialize (H eq_refl). discriminate.
Qed.

Lemma writable_iff_refuted_readmit : ~ writable_iff cfg001.
Proof.
  intros H. specialize (H readmit_history eq_refl readmit_scripts 1).
  vm_compute in H. specialize (H eq_refl). discriminate.
Qed.

Lemma writable_unchanged_refuted : ~ writable_unchanged cfg000 /\ ~ writable_unchanged cfg001.
Proof.
  split; intros H.
  - specialize (H stuck_history eq_refl stuck_scripts 1). vm_compute in H. discriminate.
  - specialize (H readmit_history eq_refl readmit_scripts 1). vm_compute in H. discriminate.
Qed.

(* ... or whose registered size is over the limit *)
Lemma readmit_oversized_witness :
  let s := run cfg000 init [EFull 1 [vi 1 10 false]; EFull 1 [vi 1 150 false]; ECollect] in
  writable s 1 = false /\ crit cfg000 (s_nodes s) 1 = false /\
  trigger_readmit cfg000 (s_nodes s) [(1, [(1, ok_script)])] (s_lay s) 1 = true /\
  writable_after cfg000 s [(1, [(1, ok_script)])] 1 = true.
Proof. vm_compute; repeat split; reflexivity. Qed.

(* the sequential commit loop is not atomic: replica 1 commits, replica 2 fails *)
Lemma commit_not_atomic_witness :
  let s := run cfg001 init [EFull 1 [vi 1 10 false]; EFull 2 [vi 1 10 false]] in
  let scs := [(1, [(1, ok_script); (2, sc CkOver CpOk CmErr)])] in
  let r := round_of cfg001 s scs 1 in
  committed (r_log r) scs 1 1 = true /\ committed (r_log r) scs 1 2 = false /\
  log_of (r_log r) 1 2 = [RCheck; RCompact; RCommit] /\ writable_after cfg001 s scs 1 = false.
Proof. vm_compute; repeat split; reflexivity. Qed.

(* 2: the commit has no timer *)
Definition hang_scripts : scripts := [(1, [(1, sc CkOver CpOk CmHang)])].
Lemma hang_witness :
  let s := run cfg000 init stuck_history in
  let q1 := pass_step cfg000 (pstart s) {| p_pre := []; p_scs := hang_scripts; p_mid := [] |} in
  let q2 := pass_step cfg000 q1 {| p_pre := []; p_scs := [(1, [(1, ok_script)])]; p_mid := [] |} in
  trigger_hang hang_scripts (s_lay s) 1 = true /\
  q_hung q1 = true /\ log_of (q_log q1) 1 1 = [RCheck; RCompact; RCommit] /\ writable (q_st q1) 1 = false /\
  q_log q2 = [] /\ writable (q_st q2) 1 = false /\ crit cfg000 (s_nodes (q_st q2)) 1 = true.
Proof. vm_compute; repeat split; reflexivity. Qed.

(* 3: the layout loses the volume's entry while the replica compacts: nil dereference
   in SetVolumeAvailable.  Nodes 1,2 hold vid 1, node 2 is under the threshold; while
   node 1 compacts its stream ends and node 2 reports an empty volume list *)
Definition panic_mid := [EDisconnect 1; EFull 2 []].
Lemma panic_witness :
  let s := run cfg001 init [EFull 1 [vi 1 10 false]; EFull 2 [vi 1 10 false]] in
  let scs := [(1, [(1, ok_script); (2, sc CkUnder CpOk CmOk)])] in
  let r := vacuum_round cfg001 s scs panic_mid 1 (lookup s 1) in
  r_panic r = true /\ log_of (r_log r) 1 1 = [RCheck; RCompact; RCommit] /\ log_of (r_log r) 1 2 = [RCheck].
Proof. vm_compute; repeat split; reflexivity. Qed.
(* ... and without a disconnect: the volume is dropped and reported again *)
Lemma panic_witness_readd :
  let s := run cfg000 init stuck_history in
  let r := vacuum_round cfg000 s [(1, [(1, ok_script)])] [EFull 1 []; EFull 1 [vi 1 10 false]] 1 (lookup s 1) in
  r_panic r = true /\ writable (r_st r) 1 = true.
Proof. vm_compute; repeat split; reflexivity. Qed.

(* 4: a replica disconnects while it compacts; the clean commit puts the unlinked
   DataNode object back into the location list and makes the volume writable *)
Lemma readd_unlinked_witness :
  let s := run cfg000 init stuck_history in
  let mid := [EDisconnect 1] in
  let r := vacuum_round cfg000 s [(1, [(1, ok_script)])] mid 1 (lookup s 1) in
  let u := run cfg000 s mid in
  r_panic r = false /\ lookup (r_st r) 1 = [1] /\ writable (r_st r) 1 = true /\ s_nodes (r_st r) = [] /\
  lookup u 1 = [] /\ writable u 1 = false.
Proof. vm_compute; repeat split; reflexivity. Qed.

(* non-vacuity of the partial theorems: a clean round on a healthy two-replica volume *)
Lemma clean_round_example :
  let es := [EFull 1 [vi 1 10 false]; EFull 2 [vi 1 10 false]] in
  let s := run cfg001 init es in
  let scs := [(1, [(1, ok_script); (2, ok_script)])] in
  wf_history es /\ trigger_stuck scs (s_lay s) 1 = false /\
  trigger_readmit cfg001 (s_nodes s) scs (s_lay s) 1 = false /\ trigger_hang scs (s_lay s) 1 = false /\
  writable s 1 = true /\ crit cfg001 (s_nodes s) 1 = true /\ writable_after cfg001 s scs 1 = true /\
  log_of (r_log (round_of cfg001 s scs 1)) 1 2 = [RCheck; RCompact; RCommit].
Proof. vm_compute; repeat split; reflexivity. Qed.

(* non-vacuity of recovers_on_next_clean_round: failed round, then a clean one *)
Lemma recovers_example :
  let s := run cfg000 init stuck_history in
  let r1 := round_of cfg000 s stuck_scripts 1 in
  crit_loc cfg000 (s_nodes s) (s_lay s) 1 = true /\ full_success [(1, [(1, ok_script)])] (s_lay s) 1 = true /\
  writable s 1 = true /\ writable (r_st r1) 1 = false /\
  writable_after cfg000 (r_st r1) [(1, [(1, ok_script)])] 1 = true.
Proof. vm_compute; repeat split; reflexivity. Qed.
