(* Proofs about model/Vacuum.v (C14). *)
From Coq Require Import List NArith Bool Lia.
From SW Require Import model.TopoLayout model.Vacuum proof.TopoLayoutProofs.
Import ListNotations.
Local Open Scope N_scope.

(* ---------- logs ---------- *)
Lemma log_of_app : forall l1 l2 v n, log_of (l1 ++ l2) v n = log_of l1 v n ++ log_of l2 v n.
Proof. intros; unfold log_of. now rewrite filter_app, map_app. Qed.

Lemma got_app : forall l1 l2 v n r, got (l1 ++ l2) v n r = got l1 v n r || got l2 v n r.
Proof. intros; unfold got. now rewrite log_of_app, existsb_app. Qed.

(* the RPCs of one phase: replica n gets r exactly when it is in the phase's list *)
Lemma got_phase : forall v v' r r' ns n,
  got (map (mk v r) ns) v' n r' = (v =? v') && rpc_eqb r' r && mem n ns.
Proof.
  intros v v' r r' ns n; unfold got, log_of. induction ns as [|x ns IH]; simpl.
  - now rewrite andb_false_r.
  - destruct (v =? v') eqn:Ev; simpl in *.
    + destruct (x =? n) eqn:En; simpl.
      * rewrite IH. rewrite (N.eqb_sym n x), En. destruct (rpc_eqb r' r); reflexivity.
      * rewrite IH. rewrite (N.eqb_sym n x), En. reflexivity.
    + exact IH.
Qed.

Lemma rpc_eqb_refl : forall r, rpc_eqb r r = true.
Proof. destruct r; reflexivity. Qed.

(* ---------- clause 2: commit only after every compaction succeeded ---------- *)
Lemma commit_only_after_compact : forall c ns scs v locs l n,
  let r := vacuum_round c ns scs v locs l in
  got (r_log r) v n RCommit = true ->
  let vac := fst (check_phase scs v locs) in
  In n vac /\ compact_ok scs v vac = true /\ is_cp_ok (sget scs v n) = true /\
  got (r_log r) v n RCompact = true /\ got (r_log r) v n RCleanup = false.
Proof.
  intros c ns scs v locs l n r; subst r; unfold vacuum_round.
  destruct (bs_true v (l_ro l)); [intros H; discriminate|].
  destruct (check_phase scs v locs) as [vac need] eqn:Ec; cbv zeta; cbn [fst].
  assert (Hfin : compact_ok scs v vac = true -> mem n vac = true ->
            In n vac /\ compact_ok scs v vac = true /\ is_cp_ok (sget scs v n) = true).
  { intros Hok Hm. apply mem_In in Hm. repeat split; auto.
    unfold compact_ok in Hok. rewrite forallb_forall in Hok. now apply Hok. }
  destruct need.
  - destruct (compact_ok scs v vac) eqn:Eok.
    + destruct (commit_ok scs v vac); cbn [r_log]; intros H;
        rewrite !got_app, !got_phase, N.eqb_refl in H; simpl in H;
        destruct (Hfin eq_refl H) as (A & B & C);
        rewrite !got_app, !got_phase, N.eqb_refl; simpl; rewrite H; simpl; repeat split; auto.
    + cbn [r_log]. intros H. rewrite !got_app, !got_phase, N.eqb_refl in H. simpl in H. discriminate.
  - cbn [r_log]. intros H. rewrite got_phase, N.eqb_refl in H. simpl in H. discriminate.
Qed.

(* the log of a whole layout pass: the entries for vid v come from v's rounds *)
Lemma round_log_vid : forall c ns scs v locs l e, In e (r_log (vacuum_round c ns scs v locs l)) -> e_vid e = v.
Proof.
  intros c ns scs v locs l e; unfold vacuum_round.
  destruct (bs_true v (l_ro l)); [intros []|].
  destruct (check_phase scs v locs) as [vac need].
  assert (H : forall r ns', In e (map (mk v r) ns') -> e_vid e = v).
  { intros r ns' Hin. apply in_map_iff in Hin. destruct Hin as (x & <- & _). reflexivity. }
  destruct need; [destruct (compact_ok scs v vac); [destruct (commit_ok scs v vac)|]|]; simpl;
    rewrite ?in_app_iff; intuition eauto.
Qed.

Lemma filter_none : forall {A} (f : A -> bool) l, (forall x, In x l -> f x = false) -> filter f l = [].
Proof.
  induction l as [|x l IH]; intros H; simpl; [reflexivity|].
  rewrite (H x (or_introl eq_refl)). apply IH. intros y Hy; apply H; now right.
Qed.

Lemma got_other_vid : forall c ns scs v v' locs l n r, v <> v' ->
  got (r_log (vacuum_round c ns scs v locs l)) v' n r = false.
Proof.
  intros c ns scs v v' locs l n r Hne. unfold got, log_of.
  rewrite filter_none; [reflexivity|].
  intros e He. apply round_log_vid in He. rewrite He.
  destruct (v =? v') eqn:E; [apply N.eqb_eq in E; congruence|reflexivity].
Qed.

Lemma layout_commit_only_after_compact : forall c ns scs l v n,
  got (r_log (vacuum_layout c ns scs l)) v n RCommit = true ->
  exists locs l', In (v, locs) (l_loc l) /\
    let r := vacuum_round c ns scs v locs l' in
    let vac := fst (check_phase scs v locs) in
    In n vac /\ compact_ok scs v vac = true /\ is_cp_ok (sget scs v n) = true /\
    got (r_log r) v n RCompact = true /\ got (r_log r) v n RCleanup = false.
Proof.
  intros c ns scs l v n. unfold vacuum_layout.
  assert (G : forall ps r0,
    got (r_log (fold_left (fun r p =>
        let r' := vacuum_round c ns scs (fst p) (snd p) (r_lay r) in
        {| r_lay := r_lay r'; r_log := r_log r ++ r_log r' |}) ps r0)) v n RCommit = true ->
    got (r_log r0) v n RCommit = true \/
    exists locs l', In (v, locs) ps /\ got (r_log (vacuum_round c ns scs v locs l')) v n RCommit = true).
  { induction ps as [|[v0 locs0] ps IH]; intros r0 H; simpl in *; [now left|].
    destruct (IH _ H) as [H1|(locs & l' & Hin & H1)].
    - simpl in H1. rewrite got_app in H1. apply orb_true_iff in H1. destruct H1 as [H1|H1]; [now left|].
      right. destruct (N.eq_dec v0 v) as [->|Hne].
      + exists locs0, (r_lay r0); split; [now left|exact H1].
      + rewrite got_other_vid in H1 by assumption. discriminate.
    - right. exists locs, l'; split; [now right|exact H1]. }
  intros H. destruct (G _ _ H) as [H1|(locs & l' & Hin & H1)]; [discriminate|].
  exists locs, l'; split; [exact Hin|]. now apply commit_only_after_compact.
Qed.

(* ---------- clause 1: replicas keep the same live content ---------- *)
Section Content.
  Variables content live_t : Type.
  Variable live : content -> live_t.           (* the live needles of a volume's files *)
  Variable compacted : content -> content.      (* the files Compact2 + CommitCompact leave *)
  (* C04: compaction preserves the live content *)
  Hypothesis compact_preserves_live : forall x, live (compacted x) = live x.

  (* replica n swapped in the compacted files iff it received a commit that succeeded *)
  Definition committed (log : list entry) (scs : scripts) (v n : N) : bool :=
    got log v n RCommit && is_cm_ok (sget scs v n).
  Definition content_after (log : list entry) (scs : scripts) (v : N) (before : N -> content) (n : N) : content :=
    if committed log scs v n then compacted (before n) else before n.

  Lemma same_content : forall log scs v before n m,
    live (before n) = live (before m) ->
    live (content_after log scs v before n) = live (content_after log scs v before m).
  Proof.
    intros log scs v before n m H; unfold content_after.
    destruct (committed log scs v n), (committed log scs v m); now rewrite ?compact_preserves_live.
  Qed.
End Content.

(* ---------- clause 3: writable afterwards iff the criterion holds ---------- *)
Lemma forallb_same_members : forall {A} (f : A -> bool) l1 l2,
  (forall x, In x l1 <-> In x l2) -> forallb f l1 = forallb f l2.
Proof.
  intros A f l1 l2 H. destruct (forallb f l1) eqn:E1; symmetry.
  - rewrite forallb_forall in *. intros x Hx. apply E1. now apply H.
  - destruct (forallb f l2) eqn:E2; [|reflexivity].
    rewrite <- E1. symmetry. rewrite forallb_forall in *. intros x Hx. apply E2. now apply H.
Qed.

Lemma crit_loc_crit : forall c s v, Inv c s -> crit_loc c (s_nodes s) (s_lay s) v = crit c (s_nodes s) v.
Proof.
  intros c s v HI. unfold crit_loc, crit. rewrite (inv_lookup_len c s v HI). f_equal.
  apply forallb_same_members. intros n. destruct HI as [_ Hns Hloc _].
  rewrite (Hloc v n). symmetry. now apply holders_spec.
Qed.

Lemma set_available_mono : forall c ns n v ro l,
  mem v (l_writ l) = true -> mem v (l_writ (set_available c ns n v ro l)) = true.
Proof.
  intros c ns n v ro l H; unfold set_available.
  destruct (ginfo ns n v); [|exact H]. destruct (aget v (l_loc l)); [|exact H].
  destruct (vi_ro v0 || ro); [exact H|].
  destruct (enough c _); [|exact H].
  unfold set_writable; simpl. rewrite H. exact H.
Qed.

Lemma set_available_loc : forall c ns n v ro l, In n (loc l v) ->
  loc (set_available c ns n v ro l) v = loc l v.
Proof.
  intros c ns n v ro l Hin; unfold set_available.
  destruct (ginfo ns n v); [|reflexivity]. unfold loc in *.
  destruct (aget v (l_loc l)) as [locs|] eqn:E; [|destruct Hin].
  assert (Hl : lset n locs = locs) by (unfold lset; apply mem_In in Hin; now rewrite Hin).
  assert (K : forall l', l_loc l' = aset v (lset n locs) (l_loc l) ->
              match aget v (l_loc l') with Some x => x | None => [] end = locs).
  { intros l' ->. now rewrite aget_aset_eq, Hl. }
  destruct (vi_ro v0 || ro); [now apply K|].
  destruct (enough c _); [|now apply K].
  apply K. unfold set_writable; simpl. now destruct (mem v (l_writ l)).
Qed.

Lemma fold_available_mono : forall c ns v ro vac l,
  mem v (l_writ l) = true ->
  mem v (l_writ (fold_left (fun l' n => set_available c ns n v ro l') vac l)) = true.
Proof.
  induction vac as [|n vac IH]; intros l H; simpl; [exact H|]. apply IH. now apply set_available_mono.
Qed.

Definition round_of (c : cfg) (s : state) (scs : scripts) (v : N) : round :=
  vacuum_round c (s_nodes s) scs v (lookup s v) (s_lay s).

Definition writable_after (c : cfg) (s : state) (scs : scripts) (v : N) : bool :=
  mem v (l_writ (r_lay (round_of c s scs v))).

(* the statement at full strength, for the reachable states of the master *)
Definition writable_iff (c : cfg) : Prop :=
  forall es, wf_history es -> forall scs v,
    let s := run c init es in
    writable s v = crit c (s_nodes s) v -> writable_after c s scs v = crit c (s_nodes s) v.

Lemma writable_iff_partial : forall c, 1 <= c_copy c ->
  forall es, wf_history es -> forall scs v,
    let s := run c init es in
    trigger_stuck scs (s_lay s) v = false ->
    trigger_readmit c (s_nodes s) scs (s_lay s) v = false ->
    writable s v = crit c (s_nodes s) v -> writable_after c s scs v = crit c (s_nodes s) v.
Proof.
  intros c Hc es Hwf scs v s T0 T1 Hpre.
  pose proof (reach_inv c Hc es Hwf) as HI. fold s in HI.
  pose proof (crit_loc_crit c s v HI) as Hcl.
  unfold writable_after, round_of, vacuum_round.
  unfold trigger_stuck, trigger_readmit, full_success, reaches_compact in T0, T1.
  unfold lookup in *.
  destruct (bs_true v (l_ro (s_lay s))) eqn:Ero; [exact Hpre|].
  destruct (check_phase scs v (loc (s_lay s) v)) as [vac need] eqn:Ec.
  cbn [fst snd negb andb] in T0, T1.
  destruct need; [|exact Hpre]. cbn [andb] in T0, T1.
  destruct (compact_ok scs v vac) eqn:E1; cbn [andb negb] in T0, T1; [|discriminate].
  destruct (commit_ok scs v vac) eqn:E2; cbn [andb negb] in T0, T1; [|discriminate].
  destruct (commit_ro scs v vac) eqn:E3; cbn [andb negb] in T0, T1; [discriminate|].
  apply negb_false_iff in T1. rewrite <- Hcl, T1.
  (* the first replica of the list re-admits the volume *)
  assert (Hvac : vac = filter (fun n => is_over (sget scs v n)) (loc (s_lay s) v) /\ vac <> []).
  { unfold check_phase in Ec. inversion Ec as [[F1 F2]]. split; [reflexivity|].
    intros E. rewrite E in F2. rewrite !andb_false_r in F2. discriminate. }
  destruct Hvac as [Hvac Hne]. destruct vac as [|n vac]; [congruence|]. simpl.
  apply fold_available_mono.
  assert (Hn : In n (loc (s_lay s) v)).
  { assert (In n (n :: vac)) by now left. rewrite Hvac in H. apply filter_In in H. tauto. }
  unfold crit_loc in T1. apply andb_true_iff in T1. destruct T1 as [Ten Tall].
  rewrite forallb_forall in Tall. specialize (Tall n Hn). unfold replica_ok in Tall.
  unfold set_available.
  destruct (ginfo (s_nodes s) n v) as [i|]; [|discriminate].
  apply andb_true_iff in Tall. destruct Tall as [Tro _]. apply negb_true_iff in Tro.
  change (l_loc (remove_writable v (s_lay s))) with (l_loc (s_lay s)).
  unfold loc in Hn, Ten. destruct (aget v (l_loc (s_lay s))) as [locs|] eqn:El; [|destruct Hn].
  rewrite Tro; simpl.
  assert (Hl : lset n locs = locs) by (unfold lset; apply mem_In in Hn; now rewrite Hn).
  unfold loc; simpl. rewrite aget_aset_eq, Hl, Ten.
  unfold set_writable; simpl.
  destruct (mem v (lremove v (l_writ (s_lay s)))) eqn:Em; simpl; [exact Em|].
  rewrite mem_snoc, N.eqb_refl. apply orb_true_r.
Qed.

(* ---------- the two confirmed defects ---------- *)
Definition ok_script : script := {| sc_ck := CkOver; sc_cp := CpOk; sc_cm := CmOk |}.

(* 0: a failed compaction leaves a healthy volume out of writables *)
Lemma writable_iff_refuted_stuck : ~ writable_iff cfg000.
Proof.
  intros H.
  specialize (H [EFull 1 [vi 1 10 false]] eq_refl [(1, [(1, {| sc_ck := CkOver; sc_cp := CpErr; sc_cm := CmOk |})])] 1).
  vm_compute in H. specialize (H eq_refl). discriminate.
Qed.

(* 1: a clean commit re-admits a volume one of whose replicas is read-only *)
Lemma writable_iff_refuted_readmit : ~ writable_iff cfg001.
Proof.
  intros H.
  specialize (H [EFull 1 [vi 1 10 false]; EFull 2 [vi 1 10 false]; EFull 2 [vi 1 10 true]] eq_refl
                [(1, [(1, ok_script); (2, ok_script)])] 1).
  vm_compute in H. specialize (H eq_refl). discriminate.
Qed.

(* ... or whose registered size is over the limit *)
Lemma readmit_oversized_witness :
  let s := run cfg000 init [EFull 1 [vi 1 10 false]; EFull 1 [vi 1 150 false]; ECollect] in
  writable s 1 = false /\ crit cfg000 (s_nodes s) 1 = false /\
  writable_after cfg000 s [(1, [(1, ok_script)])] 1 = true.
Proof. vm_compute; repeat split; reflexivity. Qed.

(* the sequential commit loop is not atomic: replica 1 commits, replica 2 fails *)
Lemma commit_not_atomic_witness :
  let s := run cfg001 init [EFull 1 [vi 1 10 false]; EFull 2 [vi 1 10 false]] in
  let scs := [(1, [(1, ok_script); (2, {| sc_ck := CkOver; sc_cp := CpOk; sc_cm := CmErr |})])] in
  let r := round_of cfg001 s scs 1 in
  committed (r_log r) scs 1 1 = true /\ committed (r_log r) scs 1 2 = false /\
  log_of (r_log r) 1 2 = [RCheck; RCompact; RCommit] /\ writable_after cfg001 s scs 1 = false.
Proof. vm_compute; repeat split; reflexivity. Qed.

(* non-vacuity of the partial theorem: a clean round on a healthy two-replica volume *)
Lemma clean_round_example :
  let es := [EFull 1 [vi 1 10 false]; EFull 2 [vi 1 10 false]] in
  let s := run cfg001 init es in
  let scs := [(1, [(1, ok_script); (2, ok_script)])] in
  wf_history es /\ trigger_stuck scs (s_lay s) 1 = false /\
  trigger_readmit cfg001 (s_nodes s) scs (s_lay s) 1 = false /\
  writable s 1 = true /\ crit cfg001 (s_nodes s) 1 = true /\ writable_after cfg001 s scs 1 = true /\
  log_of (r_log (round_of cfg001 s scs 1)) 1 2 = [RCheck; RCompact; RCommit].
Proof. vm_compute; repeat split; reflexivity. Qed.
