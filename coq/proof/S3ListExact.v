(* C27, exact pages: on a tree whose directories all yield something (no ".uploads",
   no all-empty folder) a listing without "/" in the marker returns exactly the first
   max-keys items of the reference listing, says "truncated" exactly when more remain,
   and its next marker is the position of the last item it returned. *)
From Coq Require Import List NArith ZArith Bool String Ascii Arith Lia.
From SW Require Import model.S3List proof.S3ListProofs proof.S3ListSound.
Import ListNotations.
Local Open Scope string_scope.
Local Open Scope list_scope.
Local Notation length := List.length.

(* the position of an item relative to the directory D it was listed from *)
Definition rel_marker (D : list string) (it : item) : string :=
  join_slash (skipn (length D) (item_path it)).

Definition last_marker (D : list string) (dflt : string) (X : list item) : string :=
  match rev X with [] => dflt | it :: _ => rel_marker D it end.

Lemma last_marker_app : forall D d A B, last_marker D d (A ++ B) = last_marker D (last_marker D d A) B.
Proof.
  intros D d A B. unfold last_marker. rewrite rev_app_distr.
  destruct (rev B) as [|b rb]; simpl; reflexivity.
Qed.

Lemma last_marker_dflt : forall D d d' X, X <> [] -> last_marker D d X = last_marker D d' X.
Proof.
  intros D d d' X H. unfold last_marker. destruct (rev X) as [|it rx] eqn:E; [|reflexivity].
  apply (f_equal (@rev item)) in E. rewrite rev_involutive in E. contradiction.
Qed.

Lemma last_marker_nil : forall D d, last_marker D d [] = d.
Proof. reflexivity. Qed.

Lemma skipn_app_exact : forall A (l r : list A), skipn (length l) (l ++ r) = r.
Proof. induction l as [|x l IH]; intros r; simpl; [reflexivity | apply IH]. Qed.

Lemma rel_marker_leaf : forall D n it, item_path it = D ++ [n] -> rel_marker D it = n.
Proof. intros D n it H. unfold rel_marker. rewrite H, skipn_app_exact. reflexivity. Qed.

Lemma rel_marker_child : forall D n q it, item_path it = (D ++ [n]) ++ q -> q <> [] ->
  rel_marker D it = (n ++ "/" ++ rel_marker (D ++ [n]) it)%string.
Proof.
  intros D n q it H Hq. unfold rel_marker. rewrite H.
  rewrite skipn_app_exact. rewrite <- app_assoc. rewrite skipn_app_exact.
  destruct q as [|a q']; [contradiction|]. reflexivity.
Qed.

Section Exact.
  Variable ae : bool.
  Variable rootk : list tree.
  Variable delim : bool.
  Hypothesis Hwf : wf rootk = true.

  (* a tree whose every directory yields at least one item *)
  Fixpoint productive (t : tree) : bool :=
    match t with
    | File _ => true
    | Dir n k =>
        negb (n =? uploads) &&
        (if delim then ae || existsb tree_has_file k
         else match k with [] => false | _ :: _ => true end && forallb productive k)
    end.

  Definition R (D : list string) (K : list tree) : list item := ref_forest ae delim D K.

  Lemma prod_ref_nonempty : forall t D, productive t = true -> ref_tree ae delim D t <> [].
  Proof.
    intros t. induction t as [n|n k IH] using tree_ind'; intros D H; simpl in *; [discriminate|].
    apply andb_true_iff in H. destruct H as [H1 H2]. apply negb_true_iff in H1. rewrite H1.
    destruct delim.
    - rewrite H2. discriminate.
    - destruct k as [|c k']; [discriminate|]. simpl in H2. apply andb_true_iff in H2. destruct H2 as [Hc _].
      pose proof (Forall_inv IH) as IHc. simpl. intros E. apply app_eq_nil in E. destruct E as [E _]. exact (IHc _ Hc E).
  Qed.

  (* what a fresh call returns for budget B >= 1 *)
  Definition exact_res (D : list string) (K : list tree) (B : Z) (r : res) : Prop :=
    r_items r = firstn (Z.to_nat B) (R D K) /\
    r_count r = Z.of_nat (length (r_items r)) /\
    r_trunc r = (Z.of_nat (length (R D K)) >? B)%Z /\
    r_next r = last_marker D "" (r_items r).

  Definition rec_exact (h : nat) (rec : list string -> Z -> res) : Prop :=
    forall D K B, plain D -> walk rootk D = Some K -> wf K = true -> forallb productive K = true ->
      forest_height K < h -> (1 <= B)%Z -> exact_res D K B (rec D B).

  Lemma ref_tree_item_under : forall t D it, In it (ref_tree ae delim D t) ->
    exists q, item_path it = (D ++ [tname t]) ++ q.
  Proof.
    intros t D it H. destruct (ref_tree_under ae delim t D it H) as [q E]. exists q.
    rewrite E, <- app_assoc. reflexivity.
  Qed.

  Lemma last_marker_child : forall D n k X, X <> [] -> (forall it, In it X -> In it (ref_forest ae delim (D ++ [n]) k)) ->
    last_marker D "" X = (n ++ "/" ++ last_marker (D ++ [n]) "" X)%string.
  Proof.
    intros D n k X HX Hin. unfold last_marker.
    destruct (rev X) as [|it rx] eqn:E; [apply (f_equal (@rev item)) in E; rewrite rev_involutive in E; contradiction|].
    assert (Hit : In it X) by (apply in_rev; rewrite E; left; reflexivity).
    pose proof (Hin it Hit) as G. unfold ref_forest in G. apply in_flat_map in G. destruct G as [c [_ Hc]].
    destruct (ref_tree_item_under c (D ++ [n]) it Hc) as [q Eq].
    apply (rel_marker_child D n (tname c :: q) it); [rewrite Eq, <- app_assoc; reflexivity | discriminate].
  Qed.

  Lemma firstn_in : forall A n (l : list A) x, In x (firstn n l) -> In x l.
  Proof. intros A n l x H. rewrite <- (firstn_skipn n l). apply in_or_app. left. exact H. Qed.

  Lemma loop_exact : forall h rec D K M1, rec_exact h rec -> plain D -> walk rootk D = Some K -> wf K = true ->
    forest_height K <= h ->
    forall es, (forall e, In e es -> In e K /\ productive e = true) ->
    forall L items counter trunc next, (counter <= M1)%Z -> (M1 - counter + 1 <= Z.of_nat L)%Z ->
      let r := loop ae rootk delim rec D M1 (firstn L es) items counter trunc next in
      let X := firstn (Z.to_nat (M1 - counter)) (R D es) in
      r_items r = items ++ X /\
      r_count r = (counter + Z.of_nat (length X))%Z /\
      r_trunc r = (trunc || (Z.of_nat (length (R D es)) >? M1 - counter)%Z) /\
      r_next r = last_marker D next X.
  Proof.
    intros h rec D K M1 HR HP HW HK HH. induction es as [|e es IH]; intros Hes L items counter trunc next HC HL; cbv zeta.
    - rewrite firstn_nil. unfold R, ref_forest. simpl. rewrite firstn_nil, app_nil_r.
      split; [reflexivity|]. split; [simpl; lia|]. split; [|reflexivity].
      destruct (0 >? M1 - counter)%Z eqn:E; [apply Z.gtb_lt in E; lia | rewrite orb_false_r; reflexivity].
    - destruct L as [|L']; [lia|]. simpl firstn.
      assert (Hes' : forall e0, In e0 es -> In e0 K /\ productive e0 = true) by (intros e0 H0; apply Hes; right; exact H0).
      destruct (Hes e (or_introl eq_refl)) as [HeK HeP].
      change (R D (e :: es)) with (ref_tree ae delim D e ++ R D es).
      pose proof (prod_ref_nonempty e D HeP) as HNE.
      simpl loop. destruct (counter >=? M1)%Z eqn:EC.
      + assert (counter = M1) by (rewrite Z.geb_leb in EC; apply Z.leb_le in EC; lia). subst counter.
        replace (M1 - M1)%Z with 0%Z by lia. simpl firstn. rewrite app_nil_r.
        split; [reflexivity|]. split; [simpl; lia|]. split; [|reflexivity]. simpl r_trunc.
        rewrite app_length. destruct (ref_tree ae delim D e) as [|x xs]; [contradiction|]. simpl length.
        destruct (Z.of_nat (S (length xs) + length (R D es)) >? 0)%Z eqn:E; [rewrite orb_true_r; reflexivity | rewrite Z.gtb_ltb in E; apply Z.ltb_ge in E; lia].
      + assert (HCl : (counter < M1)%Z) by (rewrite Z.geb_leb in EC; apply Z.leb_gt in EC; exact EC).
        set (B := (M1 - counter)%Z). assert (HB : (1 <= B)%Z) by (unfold B; lia).
        assert (Hsingle : forall it next0, rel_marker D it = next0 ->
                  let r := loop ae rootk delim rec D M1 (firstn L' es) (items ++ [it]) (counter + 1)%Z trunc next0 in
                  let X := firstn (Z.to_nat B) ([it] ++ R D es) in
                  r_items r = items ++ X /\ r_count r = (counter + Z.of_nat (length X))%Z /\
                  r_trunc r = (trunc || (Z.of_nat (length ([it] ++ R D es)) >? B)%Z) /\
                  r_next r = last_marker D next X).
        { intros it next0 Hm. cbv zeta.
          destruct (IH Hes' L' (items ++ [it]) (counter + 1)%Z trunc next0 ltac:(lia) ltac:(lia)) as [I1 [I2 [I3 I4]]].
          replace (M1 - (counter + 1))%Z with (B - 1)%Z in * by (unfold B; lia).
          assert (EX : firstn (Z.to_nat B) ([it] ++ R D es) = it :: firstn (Z.to_nat (B - 1)) (R D es)).
          { replace (Z.to_nat B) with (S (Z.to_nat (B - 1))) by lia. reflexivity. }
          rewrite EX. split; [|split; [|split]].
          - rewrite I1, <- app_assoc. reflexivity.
          - rewrite I2. simpl length. lia.
          - rewrite I3. f_equal. simpl length.
            destruct (Z.of_nat (length (R D es)) >? B - 1)%Z eqn:E1; destruct (Z.of_nat (S (length (R D es))) >? B)%Z eqn:E2; try reflexivity;
              rewrite Z.gtb_ltb in *; try apply Z.ltb_lt in E1; try apply Z.ltb_ge in E1; try apply Z.ltb_lt in E2; try apply Z.ltb_ge in E2; lia.
          - rewrite I4. change (it :: firstn (Z.to_nat (B - 1)) (R D es)) with ([it] ++ firstn (Z.to_nat (B - 1)) (R D es)).
            rewrite last_marker_app. rewrite <- Hm. reflexivity. }
        destruct e as [n|n k].
        * (* a file *)
          exact (Hsingle (IKey (D ++ [n])) n (rel_marker_leaf D n (IKey (D ++ [n])) eq_refl)).
        * simpl in HeP. apply andb_true_iff in HeP. destruct HeP as [HU HY]. apply negb_true_iff in HU. rewrite HU.
          destruct (resolve_child rootk D K n k HP HW HK HeK) as [RC [WC PC]].
          pose proof (wf_kids n k K HK HeK) as WK.
          simpl (ref_tree ae delim D (Dir n k)). rewrite HU.
          destruct (Bool.bool_dec delim true) as [ED|ED].
          -- (* delimiter: one common prefix *)
             rewrite ED in HY.
             replace (negb delim) with false by (rewrite ED; reflexivity). cbv iota.
             match goal with |- context [if delim then ?A else ?B] => replace (if delim then A else B) with A by (rewrite ED; reflexivity) end.
             rewrite RC. unfold has_file. rewrite HY.
             assert (HS : negb ae && negb (existsb tree_has_file k) = false).
             { destruct ae; simpl in *; [reflexivity | rewrite HY; reflexivity]. }
             rewrite HS.
             exact (Hsingle (ICP (D ++ [n])) n (rel_marker_leaf D n (ICP (D ++ [n])) eq_refl)).
          -- (* no delimiter: the sub directory is listed recursively *)
             apply Bool.not_true_is_false in ED. rewrite ED in HY.
             replace (negb delim) with true by (rewrite ED; reflexivity). cbv iota.
             match goal with |- context [if delim then ?A else ?B] => replace (if delim then A else B) with B by (rewrite ED; reflexivity) end.
             apply andb_true_iff in HY. destruct HY as [HYn HYp].
             assert (Hh : forest_height k < h) by (pose proof (height_child n k K HeK); lia).
             destruct (HR (D ++ [n]) k B PC WC WK HYp Hh HB) as [S1 [S2 [S3 S4]]].
             change (flat_map (ref_tree ae delim (D ++ [n])) k) with (R (D ++ [n]) k).
             fold B. set (r' := rec (D ++ [n]) B) in *.
             assert (HRk : R (D ++ [n]) k <> []).
             { unfold R, ref_forest. destruct k as [|c k']; [discriminate|]. simpl in HYp. apply andb_true_iff in HYp.
               simpl. intros E. apply app_eq_nil in E. destruct E as [E _].
               exact (prod_ref_nonempty c _ (proj1 HYp) E). }
             assert (HX1 : r_items r' <> []).
             { rewrite S1. destruct (R (D ++ [n]) k); [contradiction|]. replace (Z.to_nat B) with (S (Z.to_nat (B - 1))) by lia. discriminate. }
             assert (Hin' : forall it, In it (r_items r') -> In it (ref_forest ae delim (D ++ [n]) k)).
             { intros it Hit. rewrite S1 in Hit. exact (firstn_in _ _ _ _ Hit). }
             pose proof (last_marker_child D n k (r_items r') HX1 Hin') as LM.
             rewrite S3. destruct (Z.of_nat (length (R (D ++ [n]) k)) >? B)%Z eqn:ET.
             ++ (* truncated inside the sub directory *)
                apply Z.gtb_lt in ET.
                assert (EX : firstn (Z.to_nat B) (R (D ++ [n]) k ++ R D es) = r_items r').
                { rewrite firstn_app. replace (Z.to_nat B - length (R (D ++ [n]) k)) with 0 by lia.
                  rewrite firstn_O, app_nil_r. symmetry. exact S1. }
                rewrite EX. split; [|split; [|split]].
                ** reflexivity.
                ** simpl. rewrite S2. reflexivity.
                ** simpl. rewrite app_length.
                   destruct (Z.of_nat (length (R (D ++ [n]) k) + length (R D es)) >? B)%Z eqn:E2; [rewrite orb_true_r; reflexivity|].
                   rewrite Z.gtb_ltb in E2. apply Z.ltb_ge in E2. lia.
                ** cbn [r_next]. rewrite (last_marker_dflt D next "" (r_items r') HX1). rewrite LM, S4. reflexivity.
             ++ (* the whole sub directory fits *)
                rewrite Z.gtb_ltb in ET. apply Z.ltb_ge in ET.
                assert (EA : r_items r' = R (D ++ [n]) k) by (rewrite S1; apply firstn_all2; lia).
                assert (HL1 : 1 <= length (R (D ++ [n]) k)) by (destruct (R (D ++ [n]) k); [contradiction | simpl; lia]).
                match goal with |- context [loop _ _ _ _ _ _ (firstn L' es) ?it ?c ?t ?nx] =>
                  destruct (IH Hes' L' it c t nx ltac:(rewrite S2, EA; lia) ltac:(rewrite S2, EA; lia)) as [I1 [I2 [I3 I4]]] end.
                rewrite S2, EA in *.
                replace (M1 - (counter + Z.of_nat (length (R (D ++ [n]) k))))%Z with (B - Z.of_nat (length (R (D ++ [n]) k)))%Z in * by (unfold B; lia).
                assert (EX : firstn (Z.to_nat B) (R (D ++ [n]) k ++ R D es) =
                             R (D ++ [n]) k ++ firstn (Z.to_nat (B - Z.of_nat (length (R (D ++ [n]) k)))) (R D es)).
                { rewrite firstn_app. rewrite firstn_all2 by lia. f_equal. f_equal. lia. }
                rewrite EX. split; [|split; [|split]].
                ** rewrite I1, <- app_assoc. reflexivity.
                ** rewrite I2, app_length. lia.
                ** rewrite I3. f_equal. rewrite app_length.
                   destruct (Z.of_nat (length (R D es)) >? B - Z.of_nat (length (R (D ++ [n]) k)))%Z eqn:E1;
                   destruct (Z.of_nat (length (R (D ++ [n]) k) + length (R D es)) >? B)%Z eqn:E2; try reflexivity;
                     rewrite Z.gtb_ltb in *; try apply Z.ltb_lt in E1; try apply Z.ltb_ge in E1; try apply Z.ltb_lt in E2; try apply Z.ltb_ge in E2; lia.
                ** rewrite I4. rewrite last_marker_app. f_equal.
                   rewrite (last_marker_dflt D next "" _ HRk). rewrite LM, S4. reflexivity.
  Qed.

  Lemma forallb_in : forall A (f : A -> bool) l x, forallb f l = true -> In x l -> f x = true.
  Proof. intros A f l x H Hx. rewrite forallb_forall in H. exact (H x Hx). Qed.

  Lemma do_list_exact : forall f, rec_exact f (fun D M => do_list ae rootk delim f D "" M "").
  Proof.
    induction f as [|f IH]; intros D K B HP HW HK HPr HH HB; [lia|].
    rewrite do_list_S. change ("" =? "/") with false. cbv iota. simpl andb. cbv iota.
    destruct (B <=? 0)%Z eqn:EB; [apply Z.leb_le in EB; lia|].
    change (cut_slash "") with (@None (string * string)). cbv iota beta.
    unfold list_entries. rewrite (resolve_plain rootk D K HP HW). rewrite (filter_all_entries K HK).
    pose proof (loop_exact f (fun D' m' => do_list ae rootk delim f D' "" m' "") D K B IH HP HW HK ltac:(lia) K
                  (fun e He => conj He (forallb_in _ _ _ e HPr He)) (Z.to_nat (B + 1)) [] 0%Z false "" ltac:(lia) ltac:(lia)) as G.
    cbv zeta in G. replace (B - 0)%Z with B in G by lia. destruct G as [G1 [G2 [G3 G4]]].
    unfold exact_res. simpl app in G1. rewrite G1. repeat split.
    - rewrite G2. lia.
    - rewrite G3. reflexivity.
    - rewrite G4. reflexivity.
  Qed.

  (* one page for a marker without "/" : exactly the first M items behind the marker *)
  Lemma page_exact : forall f D K pfx M m, plain D -> walk rootk D = Some K -> wf K = true ->
    forallb productive (filter (fun t => String.prefix pfx (tname t) && String.ltb m (tname t)) K) = true ->
    forest_height K <= f -> (1 <= M)%Z -> count_slash m = 0 -> ((pfx =? "/") && delim) = false ->
    let E := filter (fun t => String.prefix pfx (tname t) && String.ltb m (tname t)) K in
    let r := do_list ae rootk delim (S f) D pfx M m in
    r_items r = firstn (Z.to_nat M) (R D E) /\
    r_count r = Z.of_nat (length (r_items r)) /\
    r_trunc r = (Z.of_nat (length (R D E)) >? M)%Z /\
    r_next r = last_marker D "" (r_items r).
  Proof.
    intros f D K pfx M m HP HW HK HPr HH HM Hm Hsl E r. unfold r. clear r.
    rewrite do_list_S. rewrite Hsl.
    destruct (M <=? 0)%Z eqn:EB; [apply Z.leb_le in EB; lia|].
    rewrite (cut_slash_count m Hm). cbv iota beta.
    unfold list_entries. rewrite (resolve_plain rootk D K HP HW). fold E.
    assert (HE : forall e, In e E -> In e K /\ productive e = true).
    { intros e He. split; [unfold E in He; apply filter_In in He; exact (proj1 He) | exact (forallb_in _ _ _ e HPr He)]. }
    pose proof (loop_exact f (fun D' m' => do_list ae rootk delim f D' "" m' "") D K M (do_list_exact f) HP HW HK HH E
                  HE (Z.to_nat (M + 1)) [] 0%Z false "" ltac:(lia) ltac:(lia)) as G.
    cbv zeta in G. replace (M - 0)%Z with M in G by lia. destruct G as [G1 [G2 [G3 G4]]].
    simpl app in G1. rewrite G1. repeat split.
    - rewrite G2. lia.
    - rewrite G3. reflexivity.
    - rewrite G4. reflexivity.
  Qed.
End Exact.
