(* C27: concrete counterexamples (evaluated by vm_compute on the faithful model; every
   one of them is also replayed against the real handlers by harness/cmd/c27). *)
From Coq Require Import List NArith ZArith Bool String Ascii Arith.
From SW Require Import model.S3List.
Import ListNotations.
Local Open Scope string_scope.
Local Open Scope list_scope.

Definition F := File.
Definition Dr := Dir.

(* finding 0: prefix "d/", the client continues from the last key *)
Definition t_k0 : list tree := [Dr "d" [F "a"; F "b"; Dr "e" [F "a"]]].
(* finding 1: a bucket that once had a multipart upload *)
Definition t_k1 : list tree := [Dr ".uploads" [Dr "x" [F "0001.part"]]; F "a"; F "b"; F "da"].
(* finding 2: delimiter listing continued from the last item, a common prefix *)
Definition t_k2 : list tree := [F "a"; Dr "d" [F "a"; F "b"]; F "da"].
(* finding 3: two directory levels *)
Definition t_k3 : list tree := [Dr "d" [Dr "e" [F "a"; F "b"]; F "f"]; F "da"].
(* finding 4: prefix pointing into the multipart area *)
Definition t_k4 : list tree := [Dr ".uploads" [Dr "x" [F "0001.part"]]; F "a"].
(* finding 5: start-after names a directory *)
Definition t_k5 : list tree := [Dr "d" [Dr "e" [F "a"]]; F "da"].

(* ---- a page that is not sound ---- *)

(* marker "d/" with delimiter "/": the keys d/a, d/b are listed although they belong
   to the common prefix d/ *)
Theorem page_unsound_marker_into_subdir :
  wf t_k2 = true /\
  pg_keys (list_objects false t_k2 "" 5 "d/" true) = ["d/a"; "d/b"; "da"] /\
  page_sound_b false t_k2 "" 5 true "" (list_objects false t_k2 "" 5 "d/" true) = false.
Proof. vm_compute. repeat split; reflexivity. Qed.

(* marker "d/e/a" with max-keys 1: two keys on the page *)
Theorem page_unsound_too_many :
  wf t_k3 = true /\
  pg_keys (list_objects false t_k3 "" 1 "d/e/a" false) = ["d/e/b"; "da"] /\
  page_sound_b false t_k3 "" 1 false "" (list_objects false t_k3 "" 1 "d/e/a" false) = false.
Proof. vm_compute. repeat split; reflexivity. Qed.

(* prefix ".uploads/": the parts of an upload in progress are listed *)
Theorem page_unsound_uploads_prefix :
  wf t_k4 = true /\
  pg_keys (list_objects false t_k4 ".uploads/" 1000 "" false) = [".uploads/x/0001.part"] /\
  page_sound_b false t_k4 ".uploads/" 1000 false "" (list_objects false t_k4 ".uploads/" 1000 "" false) = false.
Proof. vm_compute. repeat split; reflexivity. Qed.

(* ---- pagination that does not enumerate the keys ---- *)

Definition all_keys (pages : list page) : list string := flat_map pg_keys pages.
Definition ended (pages : list page) : bool :=
  match rev pages with p :: _ => negb (pg_trunc p) | [] => false end.

(* finding 0: d/b is never listed *)
Theorem paginate_incomplete_lastkey_prefix_dir :
  let pages := paginate 14 false t_k0 "d/" 1 false V1LastKey "" in
  wf t_k0 = true /\ ended pages = true /\ all_keys pages = ["d/a"; "d/e/a"] /\
  spec_keys t_k0 "d/" false "" = ["d/a"; "d/b"; "d/e/a"] /\
  enumerates_b false t_k0 "d/" false "" pages = false.
Proof. vm_compute. repeat split; reflexivity. Qed.

(* finding 1: the first page says "not truncated" although "da" was not listed *)
Theorem paginate_incomplete_zero_yield :
  let pages := paginate 14 false t_k1 "" 2 false V2Token "" in
  wf t_k1 = true /\ ended pages = true /\ all_keys pages = ["a"; "b"] /\
  spec_keys t_k1 "" false "" = ["a"; "b"; "da"] /\
  enumerates_b false t_k1 "" false "" pages = false.
Proof. vm_compute. repeat split; reflexivity. Qed.

(* finding 2: d/a and d/b are listed beside the common prefix d/ *)
Theorem paginate_unsound_delim_lastkey :
  let pages := paginate 14 false t_k2 "" 1 true V1LastKey "" in
  wf t_k2 = true /\ ended pages = true /\ all_keys pages = ["a"; "d/a"; "d/b"; "da"] /\
  spec_keys t_k2 "" true "" = ["a"; "da"] /\
  enumerates_b false t_k2 "" true "" pages = false.
Proof. vm_compute. repeat split; reflexivity. Qed.

(* finding 3: with the continuation token itself: page 2 holds two keys for max-keys 1
   and d/f is never listed *)
Theorem paginate_incomplete_deep_token :
  let pages := paginate 14 false t_k3 "" 1 false V2Token "" in
  wf t_k3 = true /\ ended pages = true /\
  map pg_keys pages = [["d/e/a"]; ["d/e/b"; "da"]; []] /\
  spec_keys t_k3 "" false "" = ["d/e/a"; "d/e/b"; "d/f"; "da"] /\
  enumerates_b false t_k3 "" false "" pages = false.
Proof. vm_compute. repeat split; reflexivity. Qed.

(* finding 5: start-after "d": the keys below d/ sort behind "d" but are skipped *)
Theorem paginate_incomplete_start_is_dir :
  let pages := paginate 14 false t_k5 "" 1000 false V2StartAfter "d" in
  wf t_k5 = true /\ ended pages = true /\ all_keys pages = ["da"] /\
  spec_keys t_k5 "" false "d" = ["d/e/a"; "da"] /\
  enumerates_b false t_k5 "" false "d" pages = false.
Proof. vm_compute. repeat split; reflexivity. Qed.
