(* C05 proofs, part 2: one CompactSection — invariant, and Set / Delete / Get in terms of the
   abstract lookup [sec_lookup] (overflow first, then values). *)
From Coq Require Import List NArith ZArith Bool Lia Sorted Arith.
From Coq Require Import ZifyBool ZifyN ZifyNat.
From SW Require Import model.NeedleMap proof.NeedleMapSearch.
Import ListNotations.
Local Open Scope N_scope.

Definition sec_lookup (s : section) (k : N) : option sval :=
  match l_find (s_overflow s) k with Some o => Some o | None => l_find (s_values s) k end.

(* why a key sitting in the overflow list can never be appended / shifted into [values] later:
   the section is full, or at least min(counter,128) of the values are above the key *)
Definition ovf_ok (batch : N) (vals : list sval) (k : N) : Prop :=
  batch <= N.of_nat (length vals) \/
  ((0 < length vals)%nat /\ (Nat.min (length vals) lookback <= count_gt vals k)%nat).

Record sec_inv (batch : N) (s : section) : Prop := {
  si_vs : sorted (s_values s);
  si_os : sorted (s_overflow s);
  si_disj : forall k, In k (map sk (s_overflow s)) -> ~ In k (map sk (s_values s));
  si_ovf : forall k, In k (map sk (s_overflow s)) -> ovf_ok batch (s_values s) k }.

Lemma l_find_none_keys : forall l k, l_find l k = None <-> ~ In k (map sk l).
Proof.
  intros l k. rewrite l_find_none. split.
  - intros H Hin. apply in_map_iff in Hin. destruct Hin as [v [Hv Hin]]. exact (H v Hin Hv).
  - intros H v Hv E. apply H. rewrite <- E. apply in_map. assumption.
Qed.

Lemma l_find_keys_some : forall l k, In k (map sk l) -> exists v, l_find l k = Some v.
Proof.
  intros l k H. destruct (l_find l k) as [v|] eqn:E; [eauto|].
  apply l_find_none_keys in E. contradiction.
Qed.

Lemma sec_inv_keys : forall batch s s',
  map sk (s_values s') = map sk (s_values s) -> map sk (s_overflow s') = map sk (s_overflow s) ->
  sec_inv batch s -> sec_inv batch s'.
Proof.
  intros batch s s' Hv Ho [A B C D].
  assert (Hl : length (s_values s') = length (s_values s)).
  { rewrite <- (map_length sk (s_values s')), Hv, map_length. reflexivity. }
  constructor.
  - eapply sorted_of_keys; eauto.
  - eapply sorted_of_keys; eauto.
  - intros k. rewrite Hv, Ho. apply C.
  - intros k Hk. rewrite Ho in Hk. specialize (D k Hk). unfold ovf_ok in *.
    rewrite Hl. rewrite (count_gt_keys _ _ k Hv). exact D.
Qed.

Lemma l_insert_keys_in : forall l v k, In k (map sk (l_insert l v)) <-> k = sk v \/ In k (map sk l).
Proof.
  intros l v k. rewrite !in_map_iff. split.
  - intros [x [Hx Hin]]. apply l_insert_in in Hin. destruct Hin as [->|Hin]; [left; auto|right; eauto].
  - intros [->|[x [Hx Hin]]].
    + exists v. split; [reflexivity|]. apply l_insert_in. left. reflexivity.
    + exists x. split; [assumption|]. apply l_insert_in. right. assumption.
Qed.

Lemma l_replace_self : forall l o, l_find l (sk o) = Some o -> l_replace l o = l.
Proof.
  induction l as [|x r IH]; intros o H; [reflexivity|]. simpl in *.
  destruct (N.eqb_spec (sk x) (sk o)).
  - injection H as ->. reflexivity.
  - f_equal. apply IH. assumption.
Qed.

Lemma sv_off_mk : forall k off size, sv_off (mk_sval k off size) = off.
Proof.
  intros. unfold sv_off, mk_sval. simpl. pose proof (N.div_mod off two32). unfold two32 in *. lia.
Qed.

(* ---------- Get ---------- *)
Lemma sec_get_lookup : forall batch s key, sec_inv batch s ->
  sec_get s key = match sec_lookup s (u32 (sub64 key (s_start s))) with
                  | Some v => Some (to_nv s v)
                  | None => None
                  end.
Proof.
  intros batch s key [A B C D]. unfold sec_get, sec_lookup.
  set (skey := u32 (sub64 key (s_start s))).
  destruct (find_overflow (s_overflow s) skey) as [[c o]|] eqn:F.
  - destruct (find_overflow_some _ _ _ _ B F) as [F1 _]. rewrite F1. reflexivity.
  - rewrite (find_overflow_none _ _ B F).
    destruct (bsv (s_values s) skey) as [i|] eqn:V.
    + destruct (bsv_some _ _ _ A V) as [_ [_ [V1 _]]]. rewrite V1. reflexivity.
    + rewrite (bsv_none _ _ A V). reflexivity.
Qed.

(* ---------- Set ---------- *)
Lemma lb_window : forall cnt : nat, (cnt - (cnt - lookback) = Nat.min cnt lookback)%nat.
Proof. intros. unfold lookback. lia. Qed.

(* the two branches of Set that grow [values] *)
Lemma grow_inv : forall batch s v,
  sec_inv batch s ->
  l_find (s_values s) (sk v) = None ->
  N.of_nat (length (s_values s)) < batch ->
  (length (s_values s) = 0%nat \/
   key_at (s_values s) (length (s_values s) - lookback) < sk v) ->
  (forall s', s_values s' = l_insert (s_values s) v -> s_overflow s' = s_overflow s -> sec_inv batch s') /\
  l_find (s_overflow s) (sk v) = None.
Proof.
  intros batch s v [A B C D] Hn Hb Hw.
  set (vals := s_values s) in *. set (cnt := length vals) in *.
  assert (Hno : forall k, In k (map sk (s_overflow s)) -> (0 < cnt)%nat /\
                          (Nat.min cnt lookback <= count_gt vals k)%nat).
  { intros k Hk. destruct (D k Hk) as [H|H]; [lia|exact H]. }
  assert (Hfresh : ~ In (sk v) (map sk (s_overflow s))).
  { intros Hin. destruct (Hno _ Hin) as [Hc Hg]. destruct Hw as [Hw|Hw]; [lia|].
    assert (Hlt : sk v < key_at vals (cnt - lookback)).
    { apply count_gt_index; [assumption|unfold lookback; lia|]. rewrite lb_window. exact Hg. }
    lia. }
  split; [|apply l_find_none_keys; exact Hfresh].
  intros s' Hv Ho. constructor.
  - rewrite Hv. apply l_insert_sorted; assumption.
  - rewrite Ho. assumption.
  - intros k Hk Hin. rewrite Ho in Hk. rewrite Hv in Hin. apply l_insert_keys_in in Hin.
    destruct Hin as [->|Hin]; [contradiction|]. exact (C k Hk Hin).
  - intros k Hk. rewrite Ho in Hk. rewrite Hv. right.
    destruct (Hno k Hk) as [Hc Hg]. rewrite l_insert_length, count_gt_insert. fold vals cnt.
    split; [lia|].
    destruct (Nat.le_gt_cases lookback cnt) as [Hbig|Hsmall].
    + unfold lookback in *. lia.
    + (* fewer than 128 values: all of them are above k, and so is the new one *)
      assert (Hall : count_gt vals k = cnt).
      { pose proof (count_gt_le vals k) as Hle. fold cnt in Hle. unfold lookback in Hsmall, Hg. lia. }
      destruct Hw as [Hw|Hw]; [lia|].
      replace (cnt - lookback)%nat with 0%nat in Hw by lia.
      assert (Hk0 : k < key_at vals 0).
      { apply (count_gt_full vals k Hall). apply nth_In. fold cnt. lia. }
      destruct (N.ltb_spec k (sk v)); unfold lookback in *; lia.
Qed.

Lemma in_sec_app : forall (s : section) v, In v (s_values s ++ s_overflow s) <-> In v (s_values s) \/ In v (s_overflow s).
Proof. intros. apply in_app_iff. Qed.

Lemma sec_set_spec : forall batch s key off size s' oo os,
  sec_inv batch s ->
  sec_set batch s key off size = (s', oo, os) ->
  let skey := u32 (sub64 key (s_start s)) in
  sec_inv batch s' /\
  s_start s' = s_start s /\
  s_end s' = (if s_end s <? key then key else s_end s) /\
  (forall k', sec_lookup s' k' = if k' =? skey then Some (mk_sval skey off size) else sec_lookup s k') /\
  (oo, os) = match sec_lookup s skey with Some o => (sv_off o, ssz o) | None => (0, 0%Z) end /\
  (length (s_values s) <= length (s_values s'))%nat /\
  (forall v, In v (s_values s' ++ s_overflow s') ->
             v = mk_sval skey off size \/ In v (s_values s ++ s_overflow s)).
Proof.
  intros batch s key off size s' oo os Hinv Hset skey.
  pose proof Hinv as [A B C D].
  unfold sec_set in Hset. fold skey in Hset.
  set (v := mk_sval skey off size) in *.
  assert (Hskv : sk v = skey) by reflexivity.
  destruct (bsv (s_values s) skey) as [i|] eqn:V.
  - (* found in values: overwrite in place *)
    destruct (bsv_some _ _ _ A V) as [Hi [Hk [Hf Hrep]]].
    injection Hset as <- <- <-. cbn [s_start s_end s_values s_overflow].
    rewrite (Hrep v Hskv).
    assert (Hno : l_find (s_overflow s) skey = None).
    { apply l_find_none_keys. intros Hin. apply (C _ Hin).
      rewrite <- Hk. apply in_map. apply nth_In. assumption. }
    split; [|split; [reflexivity|split; [reflexivity|split; [|split; [|split]]]]].
    + eapply sec_inv_keys; [| |exact Hinv]; cbn [s_values s_overflow]; [apply l_replace_keys|reflexivity].
    + intros k'. unfold sec_lookup. cbn [s_values s_overflow].
      rewrite l_find_replace by (rewrite Hskv, Hf; discriminate). rewrite Hskv.
      destruct (N.eqb_spec k' skey) as [->|Hne]; [rewrite Hno; reflexivity|reflexivity].
    + unfold sec_lookup. rewrite Hno, Hf. reflexivity.
    + rewrite l_replace_length. lia.
    + intros x Hx. apply in_app_iff in Hx. cbn [s_values s_overflow] in Hx.
      destruct Hx as [Hx|Hx].
      * apply l_replace_in in Hx. destruct Hx as [->|Hx]; [left; reflexivity|right; apply in_app_iff; left; assumption].
      * right. apply in_app_iff. right. assumption.
  - pose proof (bsv_none _ _ A V) as Hnv.
    set (vals := s_values s) in *. set (cnt := length vals) in *.
    destruct ((batch <=? N.of_nat cnt) || ((0 <? cnt)%nat && (skey <? key_at vals (cnt - 1)))) eqn:Need.
    + destruct ((N.of_nat cnt <? batch) && (key_at vals (cnt - lookback) <? skey)) eqn:Cond.
      * (* look-back insertion *)
        apply andb_true_iff in Cond. destruct Cond as [Hcap Hwin].
        apply N.ltb_lt in Hcap. apply N.ltb_lt in Hwin.
        assert (Hpos : (0 < cnt)%nat).
        { apply orb_true_iff in Need. destruct Need as [Hn|Hn]; [apply N.leb_le in Hn; lia|].
          apply andb_true_iff in Hn. destruct Hn as [Hn _]. apply Nat.ltb_lt in Hn. assumption. }
        injection Hset as <- <- <-. cbn [s_start s_end s_values s_overflow].
        rewrite (lookback_insert vals (cnt - lookback) v A) by (try assumption; unfold lookback; fold cnt; lia).
        destruct (grow_inv batch s v Hinv Hnv Hcap (or_intror Hwin)) as [G1 G2]. rewrite Hskv in G2.
        split; [apply G1; reflexivity|].
        split; [reflexivity|split; [reflexivity|split; [|split; [|split]]]].
        -- intros k'. unfold sec_lookup. cbn [s_values s_overflow].
           rewrite l_find_insert by assumption. rewrite Hskv.
           destruct (N.eqb_spec k' skey) as [->|Hne]; [rewrite G2; reflexivity|reflexivity].
        -- unfold sec_lookup. fold vals. rewrite G2, Hnv. reflexivity.
        -- rewrite l_insert_length. fold cnt. lia.
        -- intros x Hx. apply in_app_iff in Hx. cbn [s_values s_overflow] in Hx.
           destruct Hx as [Hx|Hx].
           ++ apply l_insert_in in Hx. destruct Hx as [->|Hx]; [left; reflexivity|right; apply in_app_iff; left; assumption].
           ++ right. apply in_app_iff. right. assumption.
      * (* overflow *)
        rewrite (set_overflow_rec _ skey off size B) in Hset. fold v in Hset.
        assert (Hok : ovf_ok batch vals skey).
        { apply orb_true_iff in Need. destruct Need as [Hn|Hn]; [left; apply N.leb_le in Hn; exact Hn|].
          apply andb_true_iff in Hn. destruct Hn as [Hp Hl]. apply Nat.ltb_lt in Hp. apply N.ltb_lt in Hl.
          apply andb_false_iff in Cond. destruct Cond as [Hc|Hc].
          - left. apply N.ltb_ge in Hc. exact Hc.
          - right. split; [assumption|]. apply N.ltb_ge in Hc. fold cnt.
            assert (Hne : key_at vals (cnt - lookback) <> skey).
            { rewrite l_find_none in Hnv. apply Hnv. apply nth_In. fold cnt. unfold lookback. lia. }
            rewrite <- lb_window. apply index_count_gt; [assumption|fold cnt; unfold lookback; lia|lia]. }
        assert (Hold : (oo, os) = match sec_lookup s skey with Some o => (sv_off o, ssz o) | None => (0, 0%Z) end).
        { unfold sec_lookup. fold vals. rewrite Hnv.
          destruct (find_overflow (s_overflow s) skey) as [[c o]|] eqn:F.
          - destruct (find_overflow_some _ _ _ _ B F) as [F1 _]. rewrite F1. injection Hset as _ <- <-. reflexivity.
          - rewrite (find_overflow_none _ _ B F). injection Hset as _ <- <-. reflexivity. }
        assert (Hs' : s' = {| s_start := s_start s; s_end := if s_end s <? key then key else s_end s;
                              s_values := vals;
                              s_overflow := match l_find (s_overflow s) skey with
                                            | Some _ => l_replace (s_overflow s) v
                                            | None => l_insert (s_overflow s) v end |}).
        { destruct (find_overflow (s_overflow s) skey) as [[c o]|]; injection Hset as <- _ _; reflexivity. }
        clear Hset. subst s'. cbn [s_start s_end s_values s_overflow].
        split; [|split; [reflexivity|split; [reflexivity|split; [|split; [exact Hold|split]]]]].
        -- destruct (l_find (s_overflow s) skey) as [o|] eqn:Fo.
           ++ eapply sec_inv_keys; [| |exact Hinv]; cbn [s_values s_overflow]; [reflexivity|apply l_replace_keys].
           ++ constructor; cbn [s_values s_overflow].
              ** assumption.
              ** apply l_insert_sorted; assumption.
              ** intros k Hk. apply l_insert_keys_in in Hk. destruct Hk as [->|Hk]; [|apply C; assumption].
                 apply l_find_none_keys. exact Hnv.
              ** intros k Hk. apply l_insert_keys_in in Hk. destruct Hk as [->|Hk]; [exact Hok|apply D; assumption].
        -- intros k'. unfold sec_lookup. cbn [s_values s_overflow]. fold vals.
           destruct (l_find (s_overflow s) skey) as [o|] eqn:Fo.
           ++ rewrite l_find_replace by (rewrite Hskv, Fo; discriminate). rewrite Hskv.
              destruct (N.eqb_spec k' skey); reflexivity.
           ++ rewrite l_find_insert by assumption. rewrite Hskv.
              destruct (N.eqb_spec k' skey); reflexivity.
        -- lia.
        -- intros x Hx. apply in_app_iff in Hx. cbn [s_values s_overflow] in Hx.
           destruct Hx as [Hx|Hx]; [right; apply in_app_iff; left; assumption|].
           destruct (l_find (s_overflow s) skey).
           ++ apply l_replace_in in Hx. destruct Hx as [->|Hx]; [left; reflexivity|right; apply in_app_iff; right; assumption].
           ++ apply l_insert_in in Hx. destruct Hx as [->|Hx]; [left; reflexivity|right; apply in_app_iff; right; assumption].
    + (* plain append *)
      apply orb_false_iff in Need. destruct Need as [Hcap Hlast].
      apply N.leb_gt in Hcap.
      assert (Hall : Forall (fun x => sk x < sk v) vals).
      { destruct (Nat.eq_dec cnt 0) as [Hz|Hz].
        - destruct vals; [constructor|simpl in Hz; discriminate].
        - apply andb_false_iff in Hlast. destruct Hlast as [Hl|Hl]; [apply Nat.ltb_ge in Hl; lia|].
          apply N.ltb_ge in Hl.
          assert (Hne : key_at vals (cnt - 1) <> skey).
          { rewrite l_find_none in Hnv. apply Hnv. apply nth_In. fold cnt. lia. }
          apply sorted_last_lt; [assumption|fold cnt; lia|fold cnt; rewrite Hskv; lia]. }
      assert (Hw : cnt = 0%nat \/ key_at vals (cnt - lookback) < sk v).
      { destruct (Nat.eq_dec cnt 0) as [Hz|Hz]; [left; assumption|right].
        rewrite Forall_forall in Hall. apply Hall. apply nth_In. fold cnt. unfold lookback. lia. }
      injection Hset as <- <- <-. cbn [s_start s_end s_values s_overflow].
      rewrite <- (l_insert_all_lt vals v Hall).
      destruct (grow_inv batch s v Hinv Hnv Hcap Hw) as [G1 G2]. rewrite Hskv in G2.
      split; [apply G1; reflexivity|].
      split; [reflexivity|split; [reflexivity|split; [|split; [|split]]]].
      * intros k'. unfold sec_lookup. cbn [s_values s_overflow].
        rewrite l_find_insert by assumption. rewrite Hskv.
        destruct (N.eqb_spec k' skey) as [->|Hne]; [rewrite G2; reflexivity|reflexivity].
      * unfold sec_lookup. fold vals. rewrite G2, Hnv. reflexivity.
      * rewrite l_insert_length. fold cnt. lia.
      * intros x Hx. apply in_app_iff in Hx. cbn [s_values s_overflow] in Hx.
        destruct Hx as [Hx|Hx].
        -- apply l_insert_in in Hx. destruct Hx as [->|Hx]; [left; reflexivity|right; apply in_app_iff; left; assumption].
        -- right. apply in_app_iff. right. assumption.
Qed.

(* ---------- Delete ---------- *)
Lemma neg_if_live_sk : forall v, sk (neg_if_live v) = sk v.
Proof. intros v. unfold neg_if_live. destruct (0 <? ssz v)%Z; reflexivity. Qed.

Definition del_list (l : list sval) (k : N) : list sval :=
  match l_find l k with Some o => l_replace l (neg_if_live o) | None => l end.

Lemma del_list_keys : forall l k, map sk (del_list l k) = map sk l.
Proof. intros. unfold del_list. destruct (l_find l k); [apply l_replace_keys|reflexivity]. Qed.

Lemma del_list_find : forall l k k',
  l_find (del_list l k) k' = if k' =? k then option_map neg_if_live (l_find l k) else l_find l k'.
Proof.
  intros l k k'. unfold del_list. destruct (l_find l k) as [o|] eqn:F.
  - destruct (l_find_some _ _ _ F) as [_ Hk].
    rewrite l_find_replace by (rewrite neg_if_live_sk, Hk, F; discriminate).
    rewrite neg_if_live_sk, Hk. reflexivity.
  - destruct (N.eqb_spec k' k) as [->|]; [rewrite F|]; reflexivity.
Qed.

Lemma sec_delete_shape : forall batch s key, sec_inv batch s ->
  let skey := u32 (sub64 key (s_start s)) in
  sec_delete s key =
  ({| s_start := s_start s; s_end := s_end s;
      s_values := del_list (s_values s) skey; s_overflow := del_list (s_overflow s) skey |},
   let vr := match l_find (s_values s) skey with
             | Some v => if (0 <? ssz v)%Z then ssz v else 0%Z
             | None => 0%Z
             end in
   match l_find (s_overflow s) skey with
   | Some o => if size_is_valid (ssz o) then ssz o else vr
   | None => vr
   end).
Proof.
  intros batch s key [A B C D] skey. unfold sec_delete. fold skey.
  assert (Hv : (let '(vals', ret) :=
                 match bsv (s_values s) skey with
                 | Some i => let o := nth i (s_values s) dummy in
                     if (0 <? ssz o)%Z && size_is_valid (ssz o)
                     then (set_nth i (sv_set_size o (- ssz o)%Z) (s_values s), ssz o)
                     else (s_values s, 0%Z)
                 | None => (s_values s, 0%Z)
                 end in (vals', ret)) =
               (del_list (s_values s) skey,
                match l_find (s_values s) skey with
                | Some v => if (0 <? ssz v)%Z then ssz v else 0%Z
                | None => 0%Z end)).
  { unfold del_list. destruct (bsv (s_values s) skey) as [i|] eqn:V.
    - destruct (bsv_some _ _ _ A V) as [Hi [Hk [Hf Hrep]]]. rewrite Hf. cbv zeta.
      unfold neg_if_live, size_is_valid, tombstone.
      destruct (Z.ltb_spec 0 (ssz (nth i (s_values s) dummy))) as [Hp|Hp].
      + destruct (Z.eqb_spec (ssz (nth i (s_values s) dummy)) (-1)); [lia|]. cbn [negb andb].
        rewrite Hrep by exact Hk. reflexivity.
      + cbn [andb]. rewrite l_replace_self by (rewrite Hk; exact Hf). reflexivity.
    - rewrite (bsv_none _ _ A V). reflexivity. }
  destruct (match bsv (s_values s) skey with
            | Some i => let o := nth i (s_values s) dummy in
                if (0 <? ssz o)%Z && size_is_valid (ssz o)
                then (set_nth i (sv_set_size o (- ssz o)%Z) (s_values s), ssz o)
                else (s_values s, 0%Z)
            | None => (s_values s, 0%Z)
            end) as [vals' ret]. injection Hv as -> ->.
  destruct (find_overflow (s_overflow s) skey) as [[c o]|] eqn:F.
  - destruct (find_overflow_some _ _ _ _ B F) as [F1 _]. rewrite F1.
    rewrite (delete_overflow_rec _ _ B). unfold del_list. rewrite F1. reflexivity.
  - rewrite (find_overflow_none _ _ B F). unfold del_list.
    rewrite (find_overflow_none _ _ B F). reflexivity.
Qed.

Lemma sec_delete_spec : forall batch s key s' ret, sec_inv batch s ->
  sec_delete s key = (s', ret) ->
  let skey := u32 (sub64 key (s_start s)) in
  sec_inv batch s' /\ s_start s' = s_start s /\ s_end s' = s_end s /\
  length (s_values s') = length (s_values s) /\
  (forall k', sec_lookup s' k' = if k' =? skey then option_map neg_if_live (sec_lookup s skey)
                                 else sec_lookup s k') /\
  ret = match sec_lookup s skey with
        | Some v => if (0 <? ssz v)%Z then ssz v else 0%Z
        | None => 0%Z
        end /\
  map sk (s_values s') = map sk (s_values s) /\ map sk (s_overflow s') = map sk (s_overflow s).
Proof.
  intros batch s key s' ret Hinv Hd skey.
  rewrite (sec_delete_shape batch s key Hinv) in Hd. fold skey in Hd. injection Hd as <- <-.
  cbn [s_start s_end s_values s_overflow].
  split; [|split; [reflexivity|split; [reflexivity|split; [|split; [|split; [|split]]]]]].
  - eapply sec_inv_keys; [| |exact Hinv]; cbn [s_values s_overflow]; apply del_list_keys.
  - rewrite <- (map_length sk), del_list_keys, map_length. reflexivity.
  - intros k'. unfold sec_lookup. cbn [s_values s_overflow]. rewrite !del_list_find.
    destruct (N.eqb_spec k' skey) as [->|Hne]; [|reflexivity].
    destruct (l_find (s_overflow s) skey); reflexivity.
  - cbv zeta. unfold sec_lookup. destruct (l_find (s_overflow s) skey) as [o|] eqn:Fo; [|reflexivity].
    (* an overflow key is not in values *)
    destruct (l_find_some _ _ _ Fo) as [Hin Hk].
    assert (Hnv : l_find (s_values s) skey = None).
    { apply l_find_none_keys. apply (si_disj _ _ Hinv). rewrite <- Hk. apply in_map. assumption. }
    rewrite Hnv. unfold size_is_valid, tombstone.
    destruct (Z.ltb_spec 0 (ssz o)); [|reflexivity]. destruct (Z.eqb_spec (ssz o) (-1)); [lia|reflexivity].
  - apply del_list_keys.
  - apply del_list_keys.
Qed.

(* a fresh section is well formed *)
Lemma new_section_inv : forall batch k, sec_inv batch (new_section k).
Proof.
  intros. constructor; simpl.
  - constructor.
  - constructor.
  - intros k0 [].
  - intros k0 [].
Qed.
