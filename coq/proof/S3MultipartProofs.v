(* C28 proofs, part 4: concrete refutations, and the refinement theorem — on every
   history of requests (inside the stated domain) on which none of the known-finding
   triggers fires, the gateway+filer model answers every GET / ListParts as the flat
   key -> bytes specification does and ends with the same objects. *)
From Coq Require Import List NArith ZArith Bool String Arith Lia.
From SW Require Import model.HttpRange proof.HttpRangeProofs model.S3Multipart
  proof.S3MultipartNames proof.S3MultipartParts proof.S3MultipartNS.
Import ListNotations.
Local Open Scope N_scope.
Local Open Scope list_scope.
Local Notation length := List.length.

Definition cfg_plain : cfg := {| c_inline := 0; c_chunk := 4 |}.

(* ---------- the remaining refutation of the full multipart statement ---------- *)
(* trigger 0: parts small enough to be stored inline *)
Theorem complete_concat_refuted_inline :
  let c := {| c_inline := 4; c_chunk := 8 |} in
  let h := [(1, [1; 1]); (2, [2; 2; 2; 2; 2]); (3, [3])] in
  (forall n, In n (map fst h) -> n <= 10000) /\
  List.concat (map snd (parts_of h)) = [1; 1; 2; 2; 2; 2; 2; 3] /\
  file_bytes (completed_file (dir_of c h)) = [2; 2; 2; 2; 2].
Proof.
  cbv zeta. split.
  - intros n [<-|[<-|[<-|[]]]]; simpl; lia.
  - vm_compute. split; reflexivity.
Qed.

(* the repaired defects, as concrete facts: part 10000 next to 1001 (the names sort the other way
   round, the completed object does not), and more parts than a small -dirListLimit would list *)
Example complete_concat_10000 :
  let h := [(1001, [1; 1]); (10000, [2; 2; 2]); (2, [3])] in
  map (fun e => part_number_of (fst e)) (dir_of cfg_plain h) = [2; 10000; 1001] /\
  file_bytes (completed_file (dir_of cfg_plain h)) = [3; 1; 1; 2; 2; 2].
Proof. vm_compute. split; reflexivity. Qed.

(* non-vacuity of complete_concat: overwrites, out-of-order uploads, multi-chunk parts *)
Example complete_concat_example :
  let h := [(9999, [9; 9; 9; 9; 9; 9]); (2, [7]); (1000, [5; 5; 5; 5; 5]); (2, [2; 2]); (10000, [4]); (1, [])] in
  trig_inline (dir_of cfg_plain h) = false /\
  file_bytes (completed_file (dir_of cfg_plain h)) = [2; 2; 5; 5; 5; 5; 5; 9; 9; 9; 9; 9; 9; 4] /\
  map (fun e => List.length (f_chunks (snd e))) (dir_of cfg_plain h) = [0; 1; 2; 1; 2]%nat.
Proof. vm_compute. repeat split; reflexivity. Qed.

(* ---------- small facts ---------- *)
Lemma bytes_eqb_refl : forall b, bytes_eqb b b = true.
Proof. induction b as [|x b IH]; simpl; auto. rewrite N.eqb_refl. exact IH. Qed.

Lemma pairs_eqb_refl : forall l, pairs_eqb l l = true.
Proof. induction l as [|[x y] l IH]; simpl; auto. rewrite !N.eqb_refl. exact IH. Qed.

Lemma flag_nil : forall k b, flag k b = [] -> b = false.
Proof. intros k [|]; simpl; intros H; [discriminate|reflexivity]. Qed.

Lemma sfind_filter_key : forall {V} (g : path -> bool) (m : list (path * V)) q,
  sfind (filter (fun kv => g (fst kv)) m) q = if g q then sfind m q else None.
Proof.
  intros V g. induction m as [|[k v] m IH]; intros q; simpl.
  - destruct (g q); reflexivity.
  - destruct (g k) eqn:Eg; simpl.
    + destruct (path_eqb k q) eqn:E.
      * apply path_eqb_eq in E. subst. rewrite Eg. reflexivity.
      * apply IH.
    + destruct (path_eqb k q) eqn:E.
      * apply path_eqb_eq in E. subst. rewrite IH, Eg. reflexivity.
      * apply IH.
Qed.

Lemma sfind_sremove : forall {V} (m : list (path * V)) k q,
  sfind (sremove m k) q = if path_eqb q k then None else sfind m q.
Proof.
  intros V m k q. unfold sremove. rewrite (sfind_filter_key (fun x => negb (path_eqb x k))).
  destruct (path_eqb q k); reflexivity.
Qed.

Lemma sfind_sput : forall {V} (m : list (path * V)) k v q,
  sfind (sput m k v) q = if path_eqb k q then Some v else sfind m q.
Proof.
  intros V m k v q. unfold sput. simpl. destruct (path_eqb k q) eqn:E; auto.
  rewrite sfind_sremove. rewrite path_eqb_sym, E. reflexivity.
Qed.

Lemma sfind_fold_sremove : forall {V} ks (m : list (path * V)) q,
  sfind (fold_left sremove ks m) q = if existsb (path_eqb q) ks then None else sfind m q.
Proof.
  intros V. induction ks as [|k ks IH]; intros m q; simpl; auto.
  rewrite IH. rewrite sfind_sremove.
  destruct (path_eqb q k); simpl; destruct (existsb (path_eqb q) ks); reflexivity.
Qed.

Lemma Forall2_nth_error : forall {A B} (P : A -> B -> Prop) l1 l2 n, Forall2 P l1 l2 ->
  match nth_error l1 n, nth_error l2 n with
  | Some a, Some b => P a b
  | None, None => True
  | _, _ => False
  end.
Proof.
  intros A B P l1 l2 n H. revert n. induction H as [|a b l1 l2 Hab H IH]; intros n.
  - destruct n; simpl; exact I.
  - destruct n; simpl; [exact Hab|apply IH].
Qed.

Lemma Forall2_set_nth : forall {A B} (P : A -> B -> Prop) l1 l2 n a b, Forall2 P l1 l2 -> P a b ->
  Forall2 P (set_nth n a l1) (set_nth n b l2).
Proof.
  intros A B P l1 l2 n a b H Hab. revert n. induction H as [|x y l1 l2 Hxy H IH]; intros n.
  - destruct n; simpl; constructor.
  - destruct n; simpl; constructor; auto.
Qed.

(* ---------- deletes only remove entries ---------- *)
Lemma delete_recursive_sub : forall s p, sub_store (delete_recursive s p) s.
Proof.
  intros s p. unfold delete_recursive. destruct (find s p) as [[|f]|].
  - intros q n H. rewrite (find_filter_key (fun k => negb (is_prefix p k))) in H.
    destruct (negb (is_prefix p q)); [exact H|discriminate].
  - apply remove_sub.
  - apply sub_store_refl.
Qed.

Lemma purge_up_sub : forall fuel s d, sub_store (purge_up fuel s d) s.
Proof. intros. apply (purge_up_spec fuel s d). Qed.

Lemma batch_delete_sub : forall s ks, sub_store (batch_delete s ks) s.
Proof.
  intros s ks. unfold batch_delete.
  change (fold_left _ ks (s, [])) with (fold_left batch_step ks (s, [])).
  assert (G1 : forall ks s ds, sub_store (fst (fold_left batch_step ks (s, ds))) s).
  { induction ks0 as [|k ks0 IH]; intros s0 ds; simpl; [apply sub_store_refl|].
    pose proof (grpc_delete_sub s0 k) as Hs. destruct (grpc_delete s0 k) as [s' ok]. simpl in Hs.
    eapply sub_store_trans; [apply IH|exact Hs]. }
  assert (G2 : forall dirs s0, sub_store (fold_left (fun s0 d => purge_up (S (length d)) s0 d) dirs s0) s0).
  { induction dirs as [|d dirs IH]; intros s0; cbn [fold_left]; [apply sub_store_refl|].
    eapply sub_store_trans; [apply IH|apply purge_up_sub]. }
  specialize (G1 ks s []). destruct (fold_left batch_step ks (s, [])) as [s1 dirs]. simpl in G1.
  eapply sub_store_trans; [apply G2|exact G1].
Qed.

(* ---------- histories of one upload ---------- *)
Lemma parts_put_nonnil : forall n b l, parts_put n b l <> [].
Proof.
  intros n b [|[m x] l]; simpl; [discriminate|].
  destruct (n =? m); [discriminate|]. destruct (n <? m); discriminate.
Qed.

Lemma dir_put_nonnil : forall nm f d, dir_put nm f d <> [].
Proof.
  intros nm f [|[m g] d]; simpl; [discriminate|]. destruct (lex_cmp nm m); discriminate.
Qed.

Lemma hist_nil_or_snoc : forall {A} (h : list A), h = [] \/ exists h' p, h = h' ++ [p].
Proof.
  intros A h. destruct h as [|a h]; auto. right.
  destruct (exists_last (l := a :: h) ltac:(discriminate)) as [h' [p E]]. eauto.
Qed.

Lemma dir_of_nil_inv : forall c h, dir_of c h = [] -> h = [].
Proof.
  intros c h H. destruct (hist_nil_or_snoc h) as [E|[h' [p E]]]; auto.
  subst. rewrite dir_of_snoc in H. unfold dir_step in H. exfalso. exact (dir_put_nonnil _ _ _ H).
Qed.

Lemma parts_of_nonnil : forall h, h <> [] -> parts_of h <> [].
Proof.
  intros h H. destruct (hist_nil_or_snoc h) as [E|[h' [p E]]]; [congruence|].
  subst. rewrite parts_of_snoc. unfold parts_step. apply parts_put_nonnil.
Qed.


(* ---------- the domain of the refinement theorem ---------- *)
Definition nonempty (k : path) : bool := match k with [] => false | _ :: _ => true end.
(* (every part number and every CompleteMultipartUpload part list is inside the domain: the gateway
   refuses part numbers outside 1..10000 as the specification does; what it gets wrong with the
   part list is covered by trigger 6) *)
Definition op_in_domain (o : op) : bool :=
  match o with
  | Put k _ | PutS k _ _ | Get k _ | Del k | MpCreate k => nonempty k
  | Copy src dst => nonempty src && nonempty dst
  | BatchDel ks => forallb nonempty ks
  | MpCopy _ _ src _ => nonempty src
  | MpPut _ _ _ | MpPutS _ _ _ _ | MpComplete _ _ | MpAbort _ | MpList _ => true
  end.

(* the gateway's test on a part number is the S3 range *)
Lemma part_refused_valid : forall n, part_refused n = negb (valid_part n).
Proof.
  intros n. unfold part_refused, valid_part, in_range, max_part_id.
  destruct (n <? 1) eqn:A; destruct (10000 <? n) eqn:B; destruct (1 <=? n) eqn:C; destruct (n <=? 10000) eqn:D;
    try reflexivity; exfalso;
    repeat match goal with
           | H : (_ <? _) = true |- _ => apply N.ltb_lt in H
           | H : (_ <? _) = false |- _ => apply N.ltb_ge in H
           | H : (_ <=? _) = true |- _ => apply N.leb_le in H
           | H : (_ <=? _) = false |- _ => apply N.leb_gt in H
           end; lia.
Qed.
Lemma domain_big_invalid : forall n, part_refused n = true -> valid_part n = false.
Proof. intros n H. rewrite part_refused_valid in H. apply negb_true_iff in H. exact H. Qed.
Lemma domain_small_valid : forall n, part_refused n = false -> valid_part n = true.
Proof. intros n H. rewrite part_refused_valid in H. apply negb_false_iff in H. exact H. Qed.

(* ---------- the part list of CompleteMultipartUpload ---------- *)
Lemma nums_eqb_eq : forall a b, nums_eqb a b = true -> a = b.
Proof.
  induction a as [|x a IH]; intros [|y b] H; simpl in H; try discriminate; auto.
  apply andb_prop in H. destruct H as [H1 H2]. apply N.eqb_eq in H1. subst. f_equal. auto.
Qed.

Lemma pget_ascending : forall ps, ascending ps -> forall q, In q ps -> pget (fst q) ps = Some (snd q).
Proof.
  induction ps as [|[m x] r IH]; intros Ha q Hq; [contradiction|].
  cbn [pget]. destruct Hq as [<-|Hq].
  - cbn [fst snd]. rewrite N.eqb_refl. reflexivity.
  - pose proof (ascending_head_lt (m, x) r Ha q Hq) as Hlt. cbn [fst] in Hlt.
    destruct (m =? fst q) eqn:E. { apply N.eqb_eq in E. lia. }
    apply IH; auto. destruct Ha as [_ Ha]. exact Ha.
Qed.

Lemma pick_sub : forall l ps, (forall q, In q l -> pget (fst q) ps = Some (snd q)) ->
  pick (map fst l) ps = Some (map snd l).
Proof.
  induction l as [|q l IH]; intros ps H; cbn [map pick]; auto.
  rewrite (H q (or_introl eq_refl)). rewrite IH; auto. intros x Hx. apply H. right. exact Hx.
Qed.

Lemma pick_self : forall ps, ascending ps -> pick (map fst ps) ps = Some (map snd ps).
Proof. intros ps Ha. apply pick_sub. apply pget_ascending. exact Ha. Qed.

Lemma strict_asc_self : forall ps, ascending ps -> strict_asc (map fst ps) = true.
Proof.
  induction ps as [|a r IH]; intros Ha; auto.
  destruct r as [|b r']; auto. destruct Ha as [H1 H2].
  change (strict_asc (map fst (a :: b :: r'))) with ((fst a <? fst b) && strict_asc (map fst (b :: r'))).
  rewrite (IH H2). apply N.ltb_lt in H1. rewrite H1. reflexivity.
Qed.

Lemma nonempty_true : forall k, nonempty k = true -> k <> [].
Proof. intros [|a k] H; [discriminate|discriminate]. Qed.

Section Refinement.
Variable c : cfg.
Hypothesis Hchunk : 0 < c_chunk c.

Definition hist_ok (h : list (N * bytes)) : Prop := forall n, In n (map fst h) -> 1 <= n /\ n <= 10000.

Definition up_rel (up : upload) (sp : sup) : Prop :=
  u_key up = su_key sp /\ u_key up <> [] /\
  ((u_dir up = None /\ su_parts sp = None) \/
   (exists h, hist_ok h /\ u_dir up = Some (dir_of c h) /\ su_parts sp = Some (parts_of h))).

Definition files_ok (s : store) : Prop := forall q f, find s q = Some (File f) -> file_ok f.

(* the refinement relation between the gateway+filer model and the flat specification *)
Definition R (st : state) (ss : sstate) : Prop :=
  (forall q, obj_at (st_store st) q = sfind (ss_objs ss) q) /\
  files_ok (st_store st) /\
  Forall2 up_rel (st_ups st) (ss_ups ss).

Lemma R_init : R init_state sinit.
Proof. split; [reflexivity|]. split; [intros q f H; discriminate|constructor]. Qed.

Lemma files_ok_sub : forall s1 s, sub_store s1 s -> files_ok s -> files_ok s1.
Proof. intros s1 s Hs Hf q f H. apply (Hf q f). apply Hs. exact H. Qed.

(* writing a file entry = binding the key in the specification *)
Lemma write_rel : forall s objs k f, (forall q, obj_at s q = sfind objs q) -> files_ok s -> k <> [] ->
  trig_write s k = false -> file_ok f ->
  exists s', create_entry s k (File f) = (s', true) /\
             (forall q, obj_at s' q = sfind (sput objs k (file_bytes f)) q) /\ files_ok s'.
Proof.
  intros s objs k f H1 H2 Hk T Hf.
  destruct (create_file_spec s k f Hk T) as [s' [E1 [E2 [E3 E4]]]].
  exists s'. split; auto. split.
  - intros q. rewrite sfind_sput. destruct (path_eqb k q) eqn:E.
    + apply path_eqb_eq in E. subst. exact E2.
    + apply path_eqb_neq in E. rewrite E3 by congruence. apply H1.
  - intros q g Hg. destruct (E4 q g Hg) as [[_ ->]|Hold]; auto. apply (H2 q g Hold).
Qed.

Lemma put_obj_refines : forall st ss k b st' r fl, R st ss -> k <> [] ->
  put_obj c st k b = (st', r, fl) -> fl = [] ->
  r = ROk /\ R st' {| ss_objs := sput (ss_objs ss) k b; ss_ups := ss_ups ss |}.
Proof.
  intros st ss k b st' r fl [R1 [R2 R3]] Hk E Hfl. unfold put_obj in E.
  destruct (http_put (st_store st) k (store_body c b)) as [s' ok] eqn:Ep.
  injection E as Hst Hr Hf. rewrite Hfl in Hf. apply flag_nil in Hf. rename Hf into Hfl'.
  rewrite (http_put_is_create _ _ _ Hfl') in Ep.
  destruct (write_rel (st_store st) (ss_objs ss) k (store_body c b) R1 R2 Hk Hfl' (store_body_ok c b Hchunk))
    as [s1 [E1 [E2 E3]]].
  rewrite E1 in Ep. inversion Ep; subst s' ok. rewrite (store_body_bytes c b Hchunk) in E2.
  split; [symmetry; exact Hr|]. rewrite <- Hst. split; [exact E2|]. split; [exact E3|exact R3].
Qed.

(* an accepted part upload extends the history of the upload; a refused one changes nothing *)
Lemma put_part_refines : forall st ss u n b st' r ss' e, R st ss ->
  put_part c st u n b = (st', r, []) -> s_put_part ss u n b = (ss', e) ->
  meets e r = true /\ R st' ss'.
Proof.
  intros st ss u n b st' r ss' e HR E Es. pose proof HR as [R1 [R2 R3]].
  unfold put_part, get_upload in E. unfold s_put_part in Es.
  pose proof (Forall2_nth_error up_rel _ _ (N.to_nat u) R3) as Hu.
  destruct (nth_error (st_ups st) (N.to_nat u)) as [up|] eqn:Eu;
    destruct (nth_error (ss_ups ss) (N.to_nat u)) as [sp|] eqn:Esp; try contradiction.
  2: { injection E as <- <-. injection Es as <- <-. split; [reflexivity|exact HR]. }
  destruct Hu as [K1 [K2 [[D1 D2]|[h [H1 [H2 H3]]]]]].
  - rewrite D1 in E. rewrite D2 in Es. injection E as <- <-. injection Es as <- <-. split; [reflexivity|exact HR].
  - rewrite H2 in E. rewrite H3 in Es.
    destruct (part_refused n) eqn:Emax.
    + rewrite (domain_big_invalid n Emax) in Es. injection E as <- <-. injection Es as <- <-.
      split; [reflexivity|exact HR].
    + injection E as Hst Hr. pose proof (domain_small_valid n Emax) as Hfl.
      rewrite Hfl in Es. injection Es as <- <-. rewrite <- Hr.
      split; [reflexivity|]. rewrite <- Hst.
      split; [exact R1|]. split; [exact R2|].
      unfold set_updir, s_set_parts. cbn [st_ups ss_ups].
      apply Forall2_set_nth; auto.
      split; [exact K1|]. split; [exact K2|]. right. exists (h ++ [(n, b)]). split; [|split].
      * intros m Hm. rewrite map_app in Hm. apply in_app_or in Hm. destruct Hm as [Hm|[<-|[]]]; auto.
        unfold valid_part, in_range in Hfl. apply andb_prop in Hfl. destruct Hfl as [A B].
        apply N.leb_le in A. apply N.leb_le in B. simpl. lia.
      * cbn [u_dir]. rewrite dir_of_snoc. reflexivity.
      * cbn [su_parts]. rewrite parts_of_snoc. reflexivity.
Qed.

Lemma s_put_part_dead : forall ss u n b,
  match nth_error (ss_ups ss) (N.to_nat u) with
  | None => True
  | Some sp => su_parts sp = None \/ valid_part n = false
  end -> s_put_part ss u n b = (ss, EFail).
Proof.
  intros ss u n b H. unfold s_put_part. destruct (nth_error (ss_ups ss) (N.to_nat u)) as [sp|]; auto.
  destruct (su_parts sp); auto. destruct H as [H|H]; [discriminate|]. rewrite H. reflexivity.
Qed.

(* names of a history inside 1..10000 *)
Lemma hist_agree : forall h, hist_ok h -> trig_order (map fst h) = false ->
  forall n m, In n (map fst h) -> In m (map fst h) -> agree n m.
Proof.
  intros h Hh T n m Hn Hm. apply name_order.
  - apply Hh; auto.
  - apply Hh; auto.
  - apply (trig_order_pairs (map fst h)); auto.
Qed.

Lemma hist_le : forall h, hist_ok h -> forall n, In n (map fst h) -> n <= 10000.
Proof. intros h Hh n Hn. apply Hh. exact Hn. Qed.

Lemma dir_suffix : forall h, hist_ok h -> forall e, In e (dir_of c h) -> has_part_suffix (fst e) = true.
Proof.
  intros h Hh e He. assert (Hn : In (fst e) (map fst (dir_of c h))) by (apply in_map; exact He).
  apply dir_of_names in Hn. apply in_map_iff in Hn. destruct Hn as [p [Ep Hp]]. rewrite <- Ep.
  apply part_name_facts. apply (hist_le h Hh). apply in_map. exact Hp.
Qed.

Lemma takeN_in : forall {A} (l : list A) n x, In x (takeN n l) -> In x l.
Proof.
  induction l as [|a l IH]; intros n x H; simpl in *; auto.
  destruct (n =? 0); simpl in H; [contradiction|]. destruct H as [H|H]; auto. right. eapply IH; eauto.
Qed.

Lemma filter_all : forall {A} (f : A -> bool) l, (forall x, In x l -> f x = true) -> filter f l = l.
Proof.
  intros A f. induction l as [|a l IH]; intros H; simpl; auto.
  rewrite (H a (or_introl eq_refl)). f_equal. apply IH. intros x Hx. apply H. right. exact Hx.
Qed.

(* ---------- one step ---------- *)
Theorem step_refines : forall st ss o st' r ss' e,
  R st ss -> op_in_domain o = true ->
  step c st o = (st', r, []) -> sstep ss o = (ss', e) ->
  meets e r = true /\ R st' ss'.
Proof.
  intros st ss o st' r ss' e HR Hdom Est Ess.
  pose proof HR as [R1 [R2 R3]].
  destruct o as [k b|k b t|src dst|k rg|k|ks|k|u n b|u n b t|u n src rg|u ns|u|u];
    cbn [op_in_domain] in Hdom.
  - (* Put *)
    cbn [step sstep] in Est, Ess. injection Ess as <- <-.
    destruct (put_obj_refines st ss k b st' r [] HR (nonempty_true _ Hdom) Est eq_refl) as [-> HR'].
    split; [reflexivity|exact HR'].
  - (* PutS *)
    cbn [step sstep] in Est, Ess. destruct t.
    + injection Est as <- <-. injection Ess as <- <-. split; [reflexivity|exact HR].
    + injection Ess as <- <-.
      destruct (put_obj_refines st ss k b st' r [] HR (nonempty_true _ Hdom) Est eq_refl) as [-> HR'].
      split; [reflexivity|exact HR'].
  - (* Copy *)
    apply andb_prop in Hdom. destruct Hdom as [Hs Hd]. apply nonempty_true in Hs. apply nonempty_true in Hd.
    cbn [step sstep] in Est, Ess. destruct (path_eqb src dst).
    + injection Est as <- <-. injection Ess as <- <-. split; [reflexivity|exact HR].
    + destruct (raw_meta src || raw_meta dst).
      { (* a key with '%', '?' or '#': trigger 7 *)
        destruct (copy_obj c st (raw_path src) (raw_path dst)) as [[? ?] ?]. discriminate. }
      unfold copy_obj in Est. cbv beta iota zeta in Est.
      assert (Hfn : find_node (st_store st) src = find (st_store st) src) by (destruct src; [congruence|reflexivity]).
      pose proof (R1 src) as Hsrc. unfold obj_at in Hsrc.
      rewrite Hfn in Est. destruct (find (st_store st) src) as [[|fs]|] eqn:Efs.
      2: { destruct (http_put (st_store st) dst (store_body c (fetch_any (st_store st) src))) as [s' ok] eqn:Ep.
           injection Est as Hst Hr Hfl.
           apply app_eq_nil in Hfl. destruct Hfl as [F4 F6]. apply flag_nil in F4. apply flag_nil in F6.
           assert (Hb : fetch_any (st_store st) src = file_bytes fs).
           { unfold fetch_any. rewrite ?Hfn, ?Efs. reflexivity. }
           rewrite <- Hsrc in Ess. injection Ess as <- <-.
           rewrite Hb in Ep. rewrite (http_put_is_create _ _ _ F4) in Ep.
           destruct (write_rel (st_store st) (ss_objs ss) dst (store_body c (file_bytes fs)) R1 R2 Hd F4
                       (store_body_ok c _ Hchunk)) as [s1 [E1 [E2 E3]]].
           rewrite E1 in Ep. injection Ep as <- <-. rewrite (store_body_bytes c _ Hchunk) in E2.
           rewrite <- Hr. split; [reflexivity|].
           rewrite <- Hst. split; [exact E2|]. split; [exact E3|exact R3]. }
      { (* the source key is a directory: trigger 2 *)
        destruct (http_put (st_store st) dst (store_body c (fetch_any (st_store st) src))) as [s' ok].
        injection Est as _ _ Hfl. exfalso.
        apply app_eq_nil in Hfl. destruct Hfl as [_ F6]. apply flag_nil in F6.
        unfold is_dir_at in F6. rewrite ?Hfn, ?Efs in F6. discriminate. }
      (* the source does not exist: refused, nothing changes *)
      rewrite <- Hsrc in Ess. injection Est as <- <-. injection Ess as <- <-. split; [reflexivity|exact HR].
  - (* Get *)
    apply nonempty_true in Hdom. cbn [step sstep] in Est, Ess. injection Est as <- <-.
    assert (Hfn : find_node (st_store st) k = find (st_store st) k) by (destruct k; [congruence|reflexivity]).
    pose proof (R1 k) as Hk. unfold obj_at in Hk.
    destruct (find (st_store st) k) as [[|f]|] eqn:Ef.
    + rewrite <- Hk in Ess. injection Ess as <- <-. split; [|exact HR].
      unfold get_obj. rewrite ?Hfn, ?Ef. reflexivity.
    + rewrite <- Hk in Ess. destruct rg as [sp|].
      * destruct (ref_spec sp (Z.of_N (blen (file_bytes f)))) as [[o l]|] eqn:Er.
        -- injection Ess as <- <-. split; [|exact HR].
           rewrite (get_range (st_store st) k f sp o l Hdom Ef (R2 k f Ef) Er). cbn [meets]. apply bytes_eqb_refl.
        -- injection Ess as <- <-. split; [reflexivity|exact HR].
      * injection Ess as <- <-. split; [|exact HR].
        rewrite (get_whole (st_store st) k f Hdom Ef). cbn [meets]. apply bytes_eqb_refl.
    + rewrite <- Hk in Ess. injection Ess as <- <-. split; [|exact HR].
      unfold get_obj. rewrite ?Hfn, ?Ef. reflexivity.
  - (* Del *)
    cbn [step sstep] in Est, Ess. injection Est as <- <- Hfl. injection Ess as <- <-.
    apply flag_nil in Hfl. split; [reflexivity|]. split; [|split]; cbn [st_store st_ups ss_objs ss_ups].
    + intros q. rewrite (delete_exact _ _ Hfl). rewrite sfind_sremove. rewrite R1. reflexivity.
    + eapply files_ok_sub; [apply delete_recursive_sub|exact R2].
    + exact R3.
  - (* BatchDel *)
    cbn [step sstep] in Est, Ess. injection Est as <- <-. injection Ess as <- <-.
    split; [reflexivity|]. split; [|split]; cbn [st_store st_ups ss_objs ss_ups].
    + intros q. rewrite batch_delete_exact.
      * rewrite sfind_fold_sremove. rewrite R1. reflexivity.
      * intros k Hk. apply nonempty_true. rewrite forallb_forall in Hdom. apply Hdom. exact Hk.
    + eapply files_ok_sub; [apply batch_delete_sub|exact R2].
    + exact R3.
  - (* MpCreate *)
    cbn [step sstep] in Est, Ess. injection Est as <- <-. injection Ess as <- <-.
    split; [reflexivity|]. split; [exact R1|]. split; [exact R2|]. cbn [st_ups ss_ups].
    apply Forall2_app; auto. constructor; [|constructor].
    split; [reflexivity|]. split; [apply nonempty_true; exact Hdom|]. right. exists []. split; [|split]; try reflexivity.
    intros m [].
  - (* MpPut *)
    cbn [step sstep] in Est, Ess. eapply put_part_refines; eauto.
  - (* MpPutS *)
    cbn [step sstep] in Est, Ess. unfold get_upload in Est.
    pose proof (Forall2_nth_error up_rel _ _ (N.to_nat u) R3) as Hu.
    destruct (nth_error (st_ups st) (N.to_nat u)) as [up|] eqn:Eu;
      destruct (nth_error (ss_ups ss) (N.to_nat u)) as [sp|] eqn:Es; try contradiction.
    2: { injection Est as <- <-.
         destruct t; [|rewrite s_put_part_dead in Ess by (rewrite Es; exact I)];
           injection Ess as <- <-; (split; [reflexivity|exact HR]). }
    destruct Hu as [K1 [K2 [[D1 D2]|[h [H1 [H2 H3]]]]]].
    + rewrite D1 in Est. injection Est as <- <-.
      destruct t; [|rewrite s_put_part_dead in Ess by (rewrite Es; left; exact D2)];
        injection Ess as <- <-; (split; [reflexivity|exact HR]).
    + rewrite H2 in Est. destruct (part_refused n) eqn:Emax.
      * injection Est as <- <-.
        destruct t; [|rewrite s_put_part_dead in Ess
                        by (rewrite Es; right; apply domain_big_invalid; exact Emax)];
          injection Ess as <- <-; (split; [reflexivity|exact HR]).
      * destruct t.
        -- injection Est as <- <-. injection Ess as <- <-. split; [reflexivity|exact HR].
        -- eapply put_part_refines; eauto.
  - (* MpCopy *)
    rename Hdom into Hs. apply nonempty_true in Hs.
    cbn [step sstep] in Est, Ess.
    (* a source key with '%', '?' or '#': trigger 7 unless the request is refused before the source is read *)
    assert (Est' : mp_copy c st u n false (Some src) rg = (st', r, [])).
    { destruct (raw_meta src); [|exact Est]. revert Est. unfold mp_copy.
      destruct (get_upload st u) as [up0|]; [|intros E; exact E].
      destruct (u_dir up0) as [d0|]; [|intros E; exact E].
      destruct (part_refused n); [intros E; exact E|].
      destruct (raw_path src) as [s0|]; [destruct (fetch_range (st_store st) s0 rg)|];
        cbn [flag app]; intros E; discriminate. }
    clear Est. rename Est' into Est.
    unfold mp_copy in Est. cbv beta iota zeta in Est. cbn [flag app] in Est. unfold get_upload in Est.
    assert (Hfn : find_node (st_store st) src = find (st_store st) src) by (destruct src; [congruence|reflexivity]).
    pose proof (R1 src) as Hsrc. unfold obj_at in Hsrc.
    pose proof (Forall2_nth_error up_rel _ _ (N.to_nat u) R3) as Hu.
    (* when the specification's upload is missing or the number is refused, the specification does nothing *)
    assert (Hnothing : (forall d, s_put_part ss u n d = (ss, EFail)) ->
                       meets e RNoUpload = true /\ meets e RErr = true /\ ss' = ss).
    { intros Hdead. destruct (sfind (ss_objs ss) src) as [d|].
      - destruct rg as [[a b]|].
        + destruct (ref_spec (RClosed a b) (Z.of_N (blen d))) as [[o l]|]; rewrite ?Hdead in Ess;
            injection Ess as <- <-; auto.
        + rewrite Hdead in Ess. injection Ess as <- <-. auto.
      - injection Ess as <- <-. auto. }
    destruct (nth_error (st_ups st) (N.to_nat u)) as [up|] eqn:Eu;
      destruct (nth_error (ss_ups ss) (N.to_nat u)) as [sp|] eqn:Es; try contradiction.
    2: { injection Est as <- <-.
         destruct Hnothing as [M [_ ->]]; [|split; [exact M|exact HR]].
         intros d. apply s_put_part_dead. rewrite Es. exact I. }
    destruct Hu as [K1 [K2 [[D1 D2]|[h [H1 [H2 H3]]]]]].
    { rewrite D1 in Est. injection Est as <- <-.
      destruct Hnothing as [M [_ ->]]; [|split; [exact M|exact HR]].
      intros d. apply s_put_part_dead. rewrite Es. left. exact D2. }
    rewrite H2 in Est.
    destruct (part_refused n) eqn:Emax.
    { injection Est as <- <-.
      destruct Hnothing as [_ [M ->]]; [|split; [exact M|exact HR]].
      intros d. apply s_put_part_dead. rewrite Es. right. apply domain_big_invalid. exact Emax. }
    clear Hnothing.
    unfold fetch_range in Est. rewrite Hfn in Est.
    destruct (find (st_store st) src) as [[|f]|] eqn:Ef.
    + (* the source is a directory: trigger 2 *)
      injection Est as _ _ Hfl. exfalso.
      apply app_eq_nil in Hfl. destruct Hfl as [F6 _]. apply flag_nil in F6.
      unfold is_dir_at in F6. rewrite ?Hfn, ?Ef in F6. discriminate.
    + rewrite <- Hsrc in Ess.
      pose proof (R2 src f Ef) as Hok. pose proof (file_ok_size f Hok) as Hsz.
      (* the data the model copies, given that it succeeds, is the data of the specification *)
      assert (Hgo : forall data,
                (set_updir st u up (Some (dir_put (part_name n) (store_body c data) (dir_of c h))), ROk,
                 flag 2 (is_dir_at (st_store st) src) ++ flag 3 (range_at_end (st_store st) src rg)) = (st', r, []) ->
                s_put_part ss u n data = (ss', e) ->
                meets e r = true /\ R st' ss').
      { intros data E Es'. injection E as Hst Hr Hfl.
        apply (put_part_refines st ss u n data st' r ss' e); auto.
        unfold put_part, get_upload. rewrite Eu, H2, Emax. rewrite <- Hst, <- Hr. reflexivity. }
      destruct rg as [[a b]|].
      * rewrite Hsz in Est.
        destruct (parse_spec (RClosed a b) (Z.of_N (blen (file_bytes f)))) as [[o l]|] eqn:Ep.
        -- destruct (ref_spec (RClosed a b) (Z.of_N (blen (file_bytes f)))) as [[o' l']|] eqn:Er.
           ++ rewrite (parse_spec_ref _ _ _ Er) in Ep. injection Ep as <- <-.
              destruct (ref_spec_bounds _ _ o' l' (N2Z.is_nonneg _) Er) as [B1 [B2 B3]].
              assert (Hrd : read_file f (Z.to_N o') (Z.to_N l') = slice (file_bytes f) (Z.to_N o') (Z.to_N l')).
              { apply read_file_slice; auto. rewrite Hsz. lia. }
              rewrite Hrd in Est. eapply Hgo; eauto.
           ++ (* parse accepts, the reference does not: the range starts at the end (trigger 3) *)
              exfalso. injection Est as _ _ Hfl.
              apply app_eq_nil in Hfl. destruct Hfl as [_ F8].
              apply flag_nil in F8. unfold range_at_end in F8. rewrite ?Hfn, ?Ef, ?Hsz in F8.
              apply N.eqb_neq in F8.
              cbn [parse_spec ref_spec] in Ep, Er.
              destruct (Z.of_N a >? Z.of_N (blen (file_bytes f)))%Z eqn:G1; [discriminate|].
              destruct (Z.of_N a >? Z.of_N b)%Z eqn:G2; [discriminate|].
              destruct ((Z.of_N a <=? Z.of_N b) && (Z.of_N a <? Z.of_N (blen (file_bytes f))))%Z eqn:G3; [discriminate|].
              apply andb_false_iff in G3. rewrite Z.gtb_ltb in G1, G2.
              apply Z.ltb_ge in G1. apply Z.ltb_ge in G2.
              destruct G3 as [G3|G3]; [apply Z.leb_gt in G3; lia|apply Z.ltb_ge in G3; lia].
        -- injection Est as <- <-.
           destruct (ref_spec (RClosed a b) (Z.of_N (blen (file_bytes f)))) as [[o' l']|] eqn:Er.
           ++ rewrite (parse_spec_ref _ _ _ Er) in Ep. discriminate.
           ++ injection Ess as <- <-. split; [reflexivity|exact HR].
      * eapply Hgo; eauto.
    + rewrite <- Hsrc in Ess. injection Est as <- <-. injection Ess as <- <-. split; [reflexivity|exact HR].
  - (* MpComplete *)
    cbn [step sstep] in Est, Ess. unfold get_upload in Est.
    pose proof (Forall2_nth_error up_rel _ _ (N.to_nat u) R3) as Hu.
    destruct (nth_error (st_ups st) (N.to_nat u)) as [up|] eqn:Eu;
      destruct (nth_error (ss_ups ss) (N.to_nat u)) as [sp|] eqn:Es; try contradiction.
    2: { injection Est as <- <-. injection Ess as <- <-. split; [reflexivity|exact HR]. }
    destruct Hu as [K1 [K2 [[D1 D2]|[h [H1 [H2 H3]]]]]].
    { rewrite D1 in Est. rewrite D2 in Ess. injection Est as <- <-. injection Ess as <- <-.
      split; [reflexivity|exact HR]. }
    rewrite H2 in Est. rewrite H3 in Ess.
    rewrite (listed_all c h (hist_le h H1)) in Est.
    destruct (dir_of c h) as [|e0 es0] eqn:El.
    + assert (Hh : h = []) by (apply (dir_of_nil_inv c); exact El).
      subst h. cbn [parts_of fold_left] in Ess. injection Est as <- <-. injection Ess as <- <-.
      split; [reflexivity|exact HR].
    + rewrite <- El in *.
      assert (Hne : h <> []). { intros ->. cbn in El. discriminate. }
      pose proof (parts_of_nonnil h Hne) as Hpn.
      destruct (create_entry (st_store st) (u_key up) (File (completed_file (dir_of c h)))) as [s' ok] eqn:Ec.
      assert (Hflags : flag 0 (trig_inline (dir_of c h)) ++ flag 2 (trig_write (st_store st) (u_key up)) ++
                       flag 6 (negb (nums_eqb ns (map (fun e => part_number_of (fst e))
                                                      (sort_by_number (dir_of c h))))) = []).
      { destruct ok; injection Est as _ _ Hf; exact Hf. }
      apply app_eq_nil in Hflags. destruct Hflags as [F2 Hflags].
      apply app_eq_nil in Hflags. destruct Hflags as [F4 F6].
      apply flag_nil in F2. apply flag_nil in F4. apply flag_nil in F6.
      apply negb_false_iff in F6. apply nums_eqb_eq in F6.
      rewrite (sorted_dir_is_parts c h (hist_le h H1)) in F6. rewrite map_map in F6.
      assert (F6' : ns = map fst (parts_of h)).
      { rewrite F6. apply map_ext_in. intros q Hq. apply (knum_enc c q).
        apply (hist_le h H1). apply parts_of_numbers. apply in_map. exact Hq. }
      clear F6. subst ns.
      pose proof (parts_of_ascending h) as Hasc.
      assert (Ess' : (s_set_parts {| ss_objs := sput (ss_objs ss) (su_key sp) (List.concat (map snd (parts_of h)));
                                     ss_ups := ss_ups ss |} u sp None, EOk) = (ss', e)).
      { rewrite <- Ess. clear Ess.
        pose proof (strict_asc_self _ Hasc) as S1. pose proof (pick_self _ Hasc) as S2.
        destruct (parts_of h) as [|p0 ps0]; [congruence|].
        cbn [map] in S1, S2 |- *. rewrite S1, S2. reflexivity. }
      clear Ess. injection Ess' as <- <-.
      destruct (write_rel (st_store st) (ss_objs ss) (u_key up) (completed_file (dir_of c h)) R1 R2 K2 F4
                  (completed_file_ok _ (complete_suffix c h (hist_le h H1)))) as [s1 [E1 [E2 E3]]].
      rewrite E1 in Ec. injection Ec as <- <-.
      rewrite (complete_concat c h Hchunk (hist_le h H1) F2) in E2.
      injection Est as <- <-. split; [reflexivity|].
      split; [|split]; cbn [set_updir s_set_parts st_store st_ups ss_objs ss_ups].
      * rewrite <- K1. exact E2.
      * exact E3.
      * apply Forall2_set_nth; auto. split; [exact K1|]. split; [exact K2|]. left. auto.
  - (* MpAbort *)
    cbn [step sstep] in Est, Ess. unfold get_upload in Est.
    pose proof (Forall2_nth_error up_rel _ _ (N.to_nat u) R3) as Hu.
    destruct (nth_error (st_ups st) (N.to_nat u)) as [up|] eqn:Eu;
      destruct (nth_error (ss_ups ss) (N.to_nat u)) as [sp|] eqn:Es; try contradiction.
    2: { injection Est as <- <-. injection Ess as <- <-. split; [reflexivity|exact HR]. }
    injection Est as <- <-. injection Ess as <- <-. split; [destruct (su_parts sp); reflexivity|].
    split; [exact R1|]. split; [exact R2|]. unfold set_updir, s_set_parts. cbn [st_ups ss_ups].
    destruct Hu as [K1 [K2 _]]. apply Forall2_set_nth; auto. split; [exact K1|]. split; [exact K2|]. left. auto.
  - (* MpList *)
    cbn [step sstep] in Est, Ess. unfold get_upload in Est.
    pose proof (Forall2_nth_error up_rel _ _ (N.to_nat u) R3) as Hu.
    destruct (nth_error (st_ups st) (N.to_nat u)) as [up|] eqn:Eu;
      destruct (nth_error (ss_ups ss) (N.to_nat u)) as [sp|] eqn:Es; try contradiction.
    2: { injection Est as <- <-. injection Ess as <- <-. split; [reflexivity|exact HR]. }
    destruct Hu as [K1 [K2 [[D1 D2]|[h [H1 [H2 H3]]]]]].
    { rewrite D2 in Ess. injection Est as <- <- _. injection Ess as <- <-. split; [reflexivity|exact HR]. }
    rewrite H2 in Est. rewrite H3 in Ess. injection Est as <- <- Hfl. injection Ess as <- <-.
    split; [|exact HR].
    apply flag_nil in Hfl. rewrite (trig_order_dir c h (hist_le h H1)) in Hfl.
    rewrite (dir_of_parts c h (hist_agree h H1 Hfl)).
    assert (Hin : forall p, In p (parts_of h) -> 1 <= fst p /\ fst p <= 10000).
    { intros p Hp. apply H1. apply parts_of_numbers. apply in_map. exact Hp. }
    rewrite (filter_all (fun e => lex_ltb (part_name 0) (fst e)) (map (enc c) (parts_of h))).
    2: { intros e He. apply in_map_iff in He. destruct He as [p [<- Hp]]. destruct (Hin p Hp) as [A B].
         unfold enc. cbn [fst]. unfold lex_ltb. rewrite name_order; try lia.
         - destruct (N.compare_spec 0 (fst p)); auto; lia.
         - unfold bad_pair, in_range. simpl. destruct (fst p =? 10000); reflexivity. }
    rewrite takeN_all.
    2: { unfold nlen. rewrite map_length.
         pose proof (ascending_length (parts_of h) 1 10000 (parts_of_ascending h) Hin). unfold max_parts_list. lia. }
    rewrite filter_all.
    2: { intros e He. apply in_map_iff in He. destruct He as [p [<- Hp]]. unfold enc. cbn [fst].
         apply part_name_facts. apply Hin. exact Hp. }
    rewrite map_map. cbn [meets].
    replace (map (fun x => (part_number_of (fst (enc c x)), file_size (snd (enc c x)))) (parts_of h))
      with (map (fun p => (fst p, blen (snd p))) (parts_of h)); [apply pairs_eqb_refl|].
    apply map_ext_in. intros p Hp. unfold enc. cbn [fst snd].
    destruct (part_name_facts (fst p) (proj2 (Hin p Hp))) as [F _]. rewrite F.
    rewrite (file_ok_size _ (store_body_ok c (snd p) Hchunk)). rewrite (store_body_bytes c _ Hchunk). reflexivity.
Qed.

(* ---------- whole histories ---------- *)
Theorem run_refines : forall ops st ss rs fl fin es sfin,
  R st ss -> forallb op_in_domain ops = true ->
  run c st ops = (rs, fl, fin) -> srun ss ops = (es, sfin) -> fl = [] ->
  all2 meets es rs = true /\ R fin sfin.
Proof.
  induction ops as [|o ops IH]; intros st ss rs fl fin es sfin HR Hdom Er Es Hfl.
  - simpl in Er, Es. injection Er as <- _ <-. injection Es as <- <-. split; [reflexivity|exact HR].
  - simpl in Hdom. apply andb_prop in Hdom. destruct Hdom as [Hd1 Hd2].
    cbn [run srun] in Er, Es.
    destruct (step c st o) as [[st1 r1] fl1] eqn:E1.
    destruct (run c st1 ops) as [[rs1 fls1] fin1] eqn:E2.
    destruct (sstep ss o) as [ss1 e1] eqn:E3.
    destruct (srun ss1 ops) as [es1 sfin1] eqn:E4.
    injection Er as <- Hf <-. injection Es as <- <-.
    rewrite Hfl in Hf. apply app_eq_nil in Hf. destruct Hf as [F1 F2]. subst fl1.
    destruct (step_refines st ss o st1 r1 ss1 e1 HR Hd1 E1 E3) as [M1 HR1].
    destruct (IH st1 ss1 rs1 fls1 fin1 es1 sfin1 HR1 Hd2 E2 E4 F2) as [M2 HR2].
    split; [|exact HR2]. simpl. rewrite M1, M2. reflexivity.
Qed.

End Refinement.

(* C28 over whole histories: starting from the empty bucket, for every configuration with a
   positive chunk size and every history of requests inside the domain on
   which no known-finding trigger fires: every GET (whole or satisfiable range) and every
   ListParts answer is the one of the flat S3 specification, and at the end the file entries
   under the bucket are exactly the specification's objects, byte for byte *)
Theorem history_refines_spec : forall c ops rs fin es sfin,
  0 < c_chunk c -> forallb op_in_domain ops = true ->
  run c init_state ops = (rs, [], fin) -> srun sinit ops = (es, sfin) ->
  all2 meets es rs = true /\
  forall q, obj_at (st_store fin) q = sfind (ss_objs sfin) q.
Proof.
  intros c ops rs fin es sfin Hc Hd Er Es.
  destruct (run_refines c Hc ops init_state sinit rs [] fin es sfin (R_init c) Hd Er Es eq_refl) as [M [R1 _]].
  split; auto.
Qed.

(* non-vacuity: a history inside the domain, without trigger, that exercises PUT, copy,
   multipart with an overwrite and out-of-order part numbers, ranged GET and deletes *)
Example history_example :
  let c := {| c_inline := 0; c_chunk := 4 |} in
  let ka := ["a"%string; "b"%string] in let kf := ["f"%string] in let kg := ["g"%string; "h"%string] in
  let ops := [Put ka [1; 2; 3; 4; 5; 6]; Copy ka kg; MpCreate kf; MpPut 0 10000 [7; 7; 7; 7; 7];
              MpPut 0 2 [8]; MpPut 0 2 [9; 9]; MpCopy 0 1001 ka (Some (1, 3)); MpComplete 0 [2; 1001; 10000];
              Get kf None; Get kf (Some (RClosed 1 6)); Del ka; BatchDel [kg; ka]; Get kg None] in
  forallb op_in_domain ops = true /\
  snd (fst (run c init_state ops)) = [] /\
  fst (fst (run c init_state ops)) =
    [ROk; ROk; ROk; ROk; ROk; ROk; ROk; ROk;
     RData [9; 9; 2; 3; 4; 7; 7; 7; 7; 7]; RData [9; 2; 3; 4; 7; 7]; ROk; ROk; RNotFound] /\
  objects (st_store (snd (run c init_state ops))) = [(kf, [9; 9; 2; 3; 4; 7; 7; 7; 7; 7])].
Proof. vm_compute. repeat split; reflexivity. Qed.

(* finding 6: CompleteMultipartUpload with the part list [1; 3] of an upload that holds parts 1, 2, 3:
   the gateway never reads the list and assembles all three parts *)
Theorem complete_list_refuted :
  let kf := ["f"%string] in
  let ops := [MpCreate kf; MpPut 0 1 [1; 1]; MpPut 0 2 [2]; MpPut 0 3 [3; 3]; MpComplete 0 [1; 3]; Get kf None] in
  forallb op_in_domain ops = true /\
  run cfg_plain init_state ops =
    ([ROk; ROk; ROk; ROk; ROk; RData [1; 1; 2; 3; 3]], [6], snd (run cfg_plain init_state ops)) /\
  fst (srun sinit ops) = [EOk; EOk; EOk; EOk; EOk; EData [1; 1; 3; 3]] /\
  all2 meets (fst (srun sinit ops)) (fst (fst (run cfg_plain init_state ops))) = false.
Proof. vm_compute. repeat split; reflexivity. Qed.

(* former finding 5 (repaired: PutObjectPartHandler / CopyObjectPartHandler refuse partID < 1 and
   partID > globalMaxPartID = 10000).  FULL statement, every state and configuration: a part upload,
   streaming part upload or part copy whose number is outside 1..10000 is answered with an error,
   raises no trigger and changes nothing *)
Definition part_op_number (o : op) : option N :=
  match o with
  | MpPut _ n _ | MpPutS _ n _ _ | MpCopy _ n _ _ => Some n
  | _ => None
  end.
Definition refusal (r : res) : bool := match r with RErr | RNoUpload => true | _ => false end.

Theorem part_number_range : forall c st o n, part_op_number o = Some n -> valid_part n = false ->
  exists r, step c st o = (st, r, []) /\ refusal r = true.
Proof.
  intros c st o n Ho Hv.
  assert (Hr : part_refused n = true) by (rewrite part_refused_valid, Hv; reflexivity).
  destruct o; try discriminate; injection Ho as ->; cbn [step]; unfold put_part;
    try (destruct (raw_meta src)); unfold mp_copy;
    destruct (get_upload st u) as [up|]; try (exists RNoUpload; split; reflexivity);
    destruct (u_dir up); try (exists RNoUpload; split; reflexivity);
    rewrite Hr; exists RErr; split; reflexivity.
Qed.

(* .. and conversely the gateway's own test refuses nothing inside the S3 range: an intact part upload
   with a number in 1..10000 to a live upload is acknowledged and stored under its part name *)
Theorem part_number_accepted : forall c st u up d n b,
  get_upload st u = Some up -> u_dir up = Some d -> valid_part n = true ->
  step c st (MpPut u n b) =
    (set_updir st u up (Some (dir_put (part_name n) (store_body c b) d)), ROk, []).
Proof.
  intros c st u up d n b Hu Hd Hv. cbn [step]. unfold put_part. rewrite Hu, Hd.
  assert (Hr : part_refused n = false) by (rewrite part_refused_valid, Hv; reflexivity).
  rewrite Hr. reflexivity.
Qed.

(* the former witness of finding 5 (parts 0, 1, 10001; then ListParts, complete, GET): the two
   out-of-range uploads are refused, ListParts and the object hold part 1 only, no trigger fires and
   every answer meets the specification *)
Theorem part_range_repaired :
  let kf := ["f"%string] in
  let ops := [MpCreate kf; MpPut 0 0 [7]; MpPut 0 1 [1]; MpPut 0 10001 [9]; MpPut 0 100000 [8]; MpList 0;
              MpComplete 0 [1]; Get kf None] in
  forallb op_in_domain ops = true /\
  run cfg_plain init_state ops =
    ([ROk; RErr; ROk; RErr; RErr; RParts [(1, 1)]; ROk; RData [1]], [], snd (run cfg_plain init_state ops)) /\
  fst (srun sinit ops) = [EOk; EFail; EOk; EFail; EFail; EParts [(1, 1)]; EOk; EData [1]] /\
  all2 meets (fst (srun sinit ops)) (fst (fst (run cfg_plain init_state ops))) = true.
Proof. vm_compute. repeat split; reflexivity. Qed.

(* the specification of CompleteMultipartUpload, stated on its own: a request that lists uploaded part
   numbers in ascending order yields exactly the listed parts' bodies, in that order *)
Theorem pick_listed : forall ns ps bs, pick ns ps = Some bs ->
  map Some bs = map (fun n => pget n ps) ns.
Proof.
  induction ns as [|n ns IH]; intros ps bs H; cbn [pick] in H.
  - injection H as <-. reflexivity.
  - destruct (pget n ps) as [b|] eqn:E1; [|discriminate].
    destruct (pick ns ps) as [bs'|] eqn:E2; [|discriminate]. injection H as <-.
    cbn [map]. rewrite E1. f_equal. apply IH. exact E2.
Qed.

(* the part list that raises no trigger 6 selects every uploaded part *)
Theorem pick_all : forall h, pick (map fst (parts_of h)) (parts_of h) = Some (map snd (parts_of h)).
Proof. intros h. apply pick_self. apply parts_of_ascending. Qed.

(* ---------- finding 7: the raw key in the filer URL of CopyObject / UploadPartCopy ---------- *)
(* on every key without '%', '?', '#' (blank, '+', '&', '=' and all other characters included) the
   raw-URL route sees the literal key, like urlPathEscape and the gRPC routes *)
Lemma seg_cut_literal : forall g, seg_meta g = false -> seg_cut g = (g, false).
Proof.
  induction g as [|a r IH]; cbn [seg_meta seg_cut]; intros H; [reflexivity|].
  apply orb_false_iff in H. destruct H as [H1 H2]. unfold is_meta in H1.
  apply orb_false_iff in H1. destruct H1 as [_ H1]. rewrite H1. rewrite (IH H2). reflexivity.
Qed.
Lemma seg_unescape_literal : forall g, seg_meta g = false -> seg_unescape g = Some g.
Proof.
  induction g as [|a r IH]; intros H; [reflexivity|]. cbn [seg_meta] in H.
  apply orb_false_iff in H. destruct H as [H1 H2]. unfold is_meta in H1.
  apply orb_false_iff in H1. destruct H1 as [H0 _].
  cbn [seg_unescape]. rewrite H0. rewrite (IH H2). reflexivity.
Qed.
Lemma raw_cut_literal : forall k, raw_meta k = false -> raw_cut k = k.
Proof.
  induction k as [|g r IH]; intros H; [reflexivity|]. unfold raw_meta in H. cbn [existsb] in H.
  apply orb_false_iff in H. destruct H as [H1 H2]. cbn [raw_cut]. rewrite (seg_cut_literal g H1).
  rewrite (IH H2). reflexivity.
Qed.
Lemma raw_unescape_literal : forall k, raw_meta k = false -> raw_unescape k = Some k.
Proof.
  induction k as [|g r IH]; intros H; [reflexivity|]. unfold raw_meta in H. cbn [existsb] in H.
  apply orb_false_iff in H. destruct H as [H1 H2]. cbn [raw_unescape]. rewrite (seg_unescape_literal g H1).
  rewrite (IH H2). reflexivity.
Qed.
Theorem raw_path_literal : forall k, raw_meta k = false -> raw_path k = Some k.
Proof. intros k H. unfold raw_path. rewrite (raw_cut_literal k H). apply raw_unescape_literal. exact H. Qed.

(* .. so a copy between such keys reads and writes the literal keys and raises no trigger 7 *)
Theorem copy_literal_keys : forall c st src dst, raw_meta src = false -> raw_meta dst = false ->
  step c st (Copy src dst) =
    (if path_eqb src dst then (st, RErr, []) else copy_obj c st (raw_path src) (raw_path dst)) /\
  raw_path src = Some src /\ raw_path dst = Some dst /\
  forall u n r, step c st (MpCopy u n src r) = mp_copy c st u n false (raw_path src) r.
Proof.
  intros c st src dst Hs Hd. rewrite (raw_path_literal src Hs), (raw_path_literal dst Hd).
  cbn [step]. rewrite Hs, Hd. cbn [orb]. repeat split; reflexivity.
Qed.

(* the full statement (every route stores and reads a key under the literal key) fails on the code:
   CopyObject from "t?u" reads "t" *)
Theorem copy_raw_key_refuted :
  let kt := ["t"%string] in let kq := ["t?u"%string] in let kf := ["f"%string] in
  let ops := [Put kt [1]; Put kq [2; 3]; Copy kq kf; Get kf None] in
  forallb op_in_domain ops = true /\
  run cfg_plain init_state ops = ([ROk; ROk; ROk; RData [1]], [7], snd (run cfg_plain init_state ops)) /\
  fst (srun sinit ops) = [EOk; EOk; EOk; EData [2; 3]] /\
  all2 meets (fst (srun sinit ops)) (fst (fst (run cfg_plain init_state ops))) = false.
Proof. vm_compute. repeat split; reflexivity. Qed.

(* non-vacuity: one key with a blank and one with '+', '&', '=' through every route (HTTP-proxied
   put / get / delete, gRPC-side batch delete and multipart completion, raw-URL copy and part copy):
   no trigger fires and every answer is the specification's *)
Theorem cross_routes_example :
  let kb := ["x y"%string] in let kp := ["dir one"%string; "i+n&a=b"%string] in
  let ops := [Put kb [1; 2; 3]; BatchDel [kb]; Get kb None;
              MpCreate kb; MpPut 0 2 [5; 5]; MpPut 0 1 [4]; MpComplete 0 [1; 2]; Get kb None;
              Copy kb kp; Get kp (Some (RClosed 1 2)); Del kb; Get kb None;
              MpCreate kb; MpCopy 1 1 kp None; MpComplete 1 [1]; Get kb None; BatchDel [kp; kb]; Get kp None] in
  raw_meta kb = false /\ raw_meta kp = false /\
  forallb op_in_domain ops = true /\
  snd (fst (run cfg_plain init_state ops)) = [] /\
  fst (fst (run cfg_plain init_state ops)) =
    [ROk; ROk; RNotFound; ROk; ROk; ROk; ROk; RData [4; 5; 5]; ROk; RData [5; 5]; ROk; RNotFound;
     ROk; ROk; ROk; RData [4; 5; 5]; ROk; RNotFound] /\
  all2 meets (fst (srun sinit ops)) (fst (fst (run cfg_plain init_state ops))) = true.
Proof. vm_compute. repeat split; reflexivity. Qed.
