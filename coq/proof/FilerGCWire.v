(* C20: the garbage decisions depend on the DECODED chunk ids only (model/FilerGCWire.v).
   A: the id comparisons on wire chunks commute with decoding, hence are invariant under re-encoding;
      the variant keyed by the raw string field is not.
   B: the encoding-aware state machine equals the decoded one except at UpdateEntry's EqualEntry shortcut
      (refutation + partial), and the C20 step / history theorems hold for EVERY encoding. *)
From Coq Require Import List NArith ZArith Bool String Arith Lia Permutation.
From SW Require Import model.FilerNS proof.FilerNSBase model.Chunks model.HardLink model.FilerGC model.FilerGCWire
  proof.HardLinkBase proof.HardLinkInv proof.HardLinkOps proof.HardLinkProofs
  proof.FilerGCBase proof.FilerGCGeneric proof.FilerGCProofs proof.FilerGCMain.
Import ListNotations.
Local Open Scope list_scope.

(* ================= A ================= *)
Lemma has_fid_decode : forall b f, has_fid (map decode b) f = existsb (fun d => (get_id d =? f)%N) b.
Proof. induction b as [|d b IH]; intro f; simpl; [reflexivity|]. now rewrite IH. Qed.

Theorem decode_do_minus : forall a b,
  map decode (do_minus_w a b) = do_minus (map decode a) (map decode b).
Proof.
  intros a b. unfold do_minus_w, do_minus. induction a as [|c a IH]; simpl; [reflexivity|].
  rewrite has_fid_decode.
  destruct (existsb (fun d => (get_id d =? get_id c)%N) b); simpl; now rewrite IH.
Qed.

(* what reaches the deletion sink is a function of the decoded lists *)
Theorem sink_do_minus : forall a b,
  sink_ids_w (do_minus_w a b) = fids (do_minus (map decode a) (map decode b)).
Proof.
  intros. rewrite <- decode_do_minus. unfold sink_ids_w, fids. rewrite map_map. reflexivity.
Qed.

Theorem do_minus_w_by_ids : forall a a' b b',
  map decode a = map decode a' -> map decode b = map decode b' ->
  map decode (do_minus_w a b) = map decode (do_minus_w a' b') /\
  sink_ids_w (do_minus_w a b) = sink_ids_w (do_minus_w a' b').
Proof.
  intros a a' b b' Ha Hb. split.
  - rewrite !decode_do_minus. now rewrite Ha, Hb.
  - rewrite !sink_do_minus. now rewrite Ha, Hb.
Qed.

Lemma decode_encode : forall enc c, decode (encode enc c) = c.
Proof.
  intros enc [f o sz m mf]. unfold decode, encode, get_id. simpl.
  destruct (enc =? 1)%N eqn:E1; simpl; [|reflexivity].
  apply N.eqb_eq in E1. subst enc. reflexivity.
Qed.

Lemma map_decode_encode : forall (encs : N -> N) cs, map decode (map (fun c => encode (encs (c_fid c)) c) cs) = cs.
Proof. intros. rewrite map_map. induction cs as [|c cs IH]; simpl; [reflexivity|]. now rewrite decode_encode, IH. Qed.

(* re-encoding the two lists in any way does not change the garbage *)
Theorem do_minus_reencode : forall (e1 e2 e3 e4 : N -> N) a b,
  sink_ids_w (do_minus_w (map (fun c => encode (e1 (c_fid c)) c) a) (map (fun c => encode (e2 (c_fid c)) c) b)) =
  sink_ids_w (do_minus_w (map (fun c => encode (e3 (c_fid c)) c) a) (map (fun c => encode (e4 (c_fid c)) c) b)).
Proof. intros. apply do_minus_w_by_ids; now rewrite !map_decode_encode. Qed.

(* the variant keyed by the raw string field is NOT invariant: the kept chunk 1, sent with its fid object
   only, is reported as garbage *)
Definition wa : list wchunk := [encode 0 (Chunk 1 0 10 1 false); encode 0 (Chunk 2 10 10 2 false)].
Definition wb0 : list wchunk := [encode 0 (Chunk 1 0 10 1 false)].
Definition wb1 : list wchunk := [encode 1 (Chunk 1 0 10 1 false)].
Theorem raw_key_not_invariant :
  map decode wb0 = map decode wb1 /\
  sink_ids_w (do_minus_raw wa wb0) = [2%N] /\ sink_ids_w (do_minus_raw wa wb1) = [1%N; 2%N] /\
  sink_ids_w (do_minus_w wa wb0) = [2%N] /\ sink_ids_w (do_minus_w wa wb1) = [2%N].
Proof. vm_compute. repeat split. Qed.

(* ================= B ================= *)
Lemma update_w_eq : forall ev s p e sn, update_enc_visible ev s p e sn = false ->
  grpc_update_w ev s p e sn = grpc_update ev s p e.
Proof.
  intros ev s p e sn H. unfold grpc_update_w, grpc_update, update_enc_visible in *.
  destruct (find_entry ev s p) as [ex|]; [|reflexivity].
  destruct (cleanup_chunks ev (Some ex) (h_chunks e)) as [[chunks g]|]; [|reflexivity].
  destruct (hentry_eqb ex (set_chunks e chunks)); simpl in *; [|reflexivity].
  rewrite H. reflexivity.
Qed.

Theorem step_w_eq : forall ev s o sn, enc_visible ev s o sn = false -> step_w ev s o sn = step ev s o.
Proof.
  intros ev s o sn H. destruct o as [p e x|p e|p cs|p rec ign data|oldp newp|oldp newp fresh|p cs mt via|p];
    try reflexivity; simpl in *; unfold scoped.
  - destruct (in_scope p); [|reflexivity]. simpl in H. now rewrite update_w_eq.
  - destruct (in_scope p); [|reflexivity]. unfold mount_write_w, mount_write.
    destruct (find_entry ev s p) as [e0|]; [|reflexivity].
    destruct via; [reflexivity|]. simpl in H. now rewrite update_w_eq.
Qed.

Theorem step_w_enc_invariant : forall ev s o sn1 sn2,
  enc_visible ev s o sn1 = false -> enc_visible ev s o sn2 = false -> step_w ev s o sn1 = step_w ev s o sn2.
Proof. intros. rewrite !step_w_eq by assumption. reflexivity. Qed.

(* requests in which every chunk reference carries its fid object (LookupDirectoryEntry / ListEntries answers
   sent back, metadata events) never reach the visible spot *)
Definition all_with_fid (sn : sent) : bool := forallb (fun ke => negb (snd ke =? 2)%N) sn.

Lemma lacks_fid_false : forall sn c, all_with_fid sn = true -> lacks_fid sn c = false.
Proof.
  unfold lacks_fid, all_with_fid. induction sn as [|ke sn IHs]; intros c H; simpl; [reflexivity|].
  simpl in H. apply andb_true_iff in H. destruct H as [H1 H2]. apply negb_true_iff in H1.
  rewrite H1, andb_false_r. simpl. now apply IHs.
Qed.

Lemma lacks_fid_none : forall sn cs, all_with_fid sn = true -> existsb (lacks_fid sn) cs = false.
Proof.
  intros sn cs H. induction cs as [|c cs IH]; simpl; [reflexivity|].
  now rewrite IH, orb_false_r, lacks_fid_false.
Qed.

Theorem with_fid_not_visible : forall ev s o sn, all_with_fid sn = true -> enc_visible ev s o sn = false.
Proof.
  intros ev s o sn H.
  assert (U : forall p e, update_enc_visible ev s p e sn = false).
  { intros p e. unfold update_enc_visible. destruct (find_entry ev s p); [|reflexivity].
    destruct (cleanup_chunks ev (Some h) (h_chunks e)) as [[chunks g]|]; [|reflexivity].
    now rewrite lacks_fid_none, andb_false_r. }
  destruct o; try reflexivity; simpl.
  - now rewrite U, andb_false_r.
  - destruct via_create; [reflexivity|]. destruct (find_entry ev s p); [|now rewrite andb_false_r].
    now rewrite U, andb_false_r.
Qed.

(* the full statement is false: the same decoded request (an unchanged entry plus a chunk that is covered by a
   newer one), sent with both fields / with the string only *)
Definition w_ev : env := mk_env [] 0.
Definition w_ent (cs : list chunk) : hentry := mk_hentry false 420 1 1 1 cs 0 0%Z.
Definition w_c1 := Chunk 1 0 10 1 false.
Definition w_c2 := Chunk 2 10 10 2 false.
Definition w_c9 := Chunk 9 0 10 0 false.
Definition w_s : st := st_of (step w_ev empty_st (Create ["a"%string] (w_ent [w_c1; w_c2]) false)).
Definition w_o : op := Update ["a"%string] (w_ent [w_c9; w_c1; w_c2]).
Definition w_sn (enc : N) : sent := [(9, enc); (1, enc); (2, enc)]%N.

Theorem enc_invariance_refuted :
  sent_matches w_o (w_sn 0) = true /\ sent_matches w_o (w_sn 2) = true /\
  c20_quiet w_ev w_s w_o = true /\
  sched_of (step_w w_ev w_s w_o (w_sn 0)) = [] /\ sched_of (step_w w_ev w_s w_o (w_sn 2)) = [9%N] /\
  enc_visible w_ev w_s w_o (w_sn 0) = false /\ enc_visible w_ev w_s w_o (w_sn 2) = true.
Proof. vm_compute. repeat split. Qed.

(* ================= the C20 theorems for every encoding ================= *)
Lemma grpc_update_w_good : forall ev s p e sn, PS s -> Excl s -> p <> [] ->
  h_hl e = 0%N -> good_list (h_chunks e) -> (h_dir e = true -> h_chunks e = []) ->
  (forall c, In c (fids (h_chunks e)) -> In c (ids_at s p) \/ ~ In c (refs ev s)) ->
  let r := grpc_update_w ev s p e sn in Good ev s (st_of r) (sched_of r) true.
Proof.
  intros ev s p e sn P X Hp He Hg Hd Hfresh. simpl.
  unfold grpc_update_w. rewrite (find_entry_ps ev s p P Hp).
  destruct (nfind s p) as [old|] eqn:Eo; [|unfold st_of, sched_of; simpl; now apply good_same].
  pose proof (ps_good _ P p old Eo) as Hog.
  destruct (cleanup_good ev (Some old) (h_chunks e) Hg) as [g Hc].
  { intros o Ho. inversion Ho; subst. exact Hog. }
  rewrite Hc. clear Hc.
  set (kept := filter (fun c => g (c_fid c)) (h_chunks e) ++ []).
  set (e' := set_chunks e kept).
  destruct (hentry_eqb old e' && negb (existsb (lacks_fid sn) kept));
    [unfold st_of, sched_of; simpl; now apply good_same|].
  destruct (filer_update s p old e') as [s1 r1] eqn:Eu.
  destruct (filer_update_cases _ _ _ _ _ _ Eu) as [[A B]|[A B]]; subst s1.
  - destruct r1; try congruence; unfold st_of, sched_of; simpl; now apply good_same.
  - subst r1. unfold st_of, sched_of. simpl.
    assert (Hsched : forall c,
      In c (expand_delete ev ((do_minus (h_chunks old) (h_chunks e) ++ []) ++
                              filter (fun c0 => negb (g (c_fid c0))) (h_chunks e))) <->
      (In c (ids old) /\ ~ In c (fids (h_chunks e))) \/ (In c (fids (h_chunks e)) /\ g c = false)).
    { intro c. rewrite expand_good.
      - rewrite fids_app, app_nil_r, in_app_iff, In_do_minus.
        rewrite (In_fids_filter (fun f => negb (g f)) (h_chunks e) c), negb_true_iff. reflexivity.
      - apply good_app; [rewrite app_nil_r; apply good_filter; exact Hog|apply good_filter; exact Hg]. }
    apply (write_generic ev s s p); [exact P|exact X| | | | | | | | ].
    + now left.
    + reflexivity.
    + exact He.
    + apply good_kept; exact Hg.
    + simpl. intro D. unfold kept. rewrite (Hd D). reflexivity.
    + intros c Hc. unfold ids in Hc. simpl in Hc. apply in_kept in Hc. apply Hfresh. tauto.
    + intros c Hc. apply Hsched in Hc. destruct Hc as [[Hc1 Hc2]|[Hc1 Hc2]].
      * split; [|left; unfold ids_at; now rewrite Eo].
        unfold ids. simpl. intro Hk. apply in_kept in Hk. tauto.
      * split; [|now apply Hfresh].
        unfold ids. simpl. intro Hk. apply in_kept in Hk. destruct Hk. congruence.
    + intros c Hc Hn. apply Hsched. unfold ids_at in Hc. rewrite Eo in Hc.
      destruct (in_dec N.eq_dec c (fids (h_chunks e))) as [Hi|Hi]; [|left; auto].
      right. split; [exact Hi|]. destruct (g c) eqn:Eg; [|reflexivity].
      exfalso. apply Hn. unfold ids. simpl. apply in_kept. auto.
Qed.

Theorem step_w_good20 : forall ev s o sn, PS s -> Excl s -> c20_quiet ev s o = true ->
  let r := step_w ev s o sn in Good ev s (st_of r) (sched_of r) (requests_deletion ev s o).
Proof.
  intros ev s o sn P X Hq.
  destruct o as [p e x|p e|p cs|p rec ign data|oldp newp|oldp newp fresh|p cs mt via|p];
    try exact (step_good20 ev s _ P X Hq).
  - (* Update *)
    destruct (quiet20_parts ev s _ Hq) as [Hok [Hfr [H21 [Hsp [Hnl [Hmf Hrn]]]]]].
    pose proof (good_of_flags _ Hok Hmf) as Hg.
    pose proof (fresh_of ev s _ P Hg Hfr) as Hfresh. simpl.
    apply scoped_good; auto. intros _ Hp. simpl in H21. apply N.eqb_eq in H21.
    apply grpc_update_w_good; auto. now apply dir_no_chunks.
  - (* Write *)
    destruct via; [exact (step_good20 ev s _ P X Hq)|].
    destruct (quiet20_parts ev s _ Hq) as [Hok [Hfr [H21 [Hsp [Hnl [Hmf Hrn]]]]]].
    pose proof (good_of_flags _ Hok Hmf) as Hg.
    pose proof (fresh_of ev s _ P Hg Hfr) as Hfresh. simpl.
    apply scoped_good; auto. intros _ Hp. unfold mount_write_w.
    rewrite (find_entry_ps ev s p P Hp).
    destruct (nfind s p) as [e0|] eqn:E0; [|unfold st_of, sched_of; simpl; now apply good_same].
    simpl in H21. unfold file_at in H21. rewrite (find_entry_ps ev s p P Hp), E0 in H21.
    apply negb_true_iff in H21.
    apply grpc_update_w_good; auto.
    + apply (ps_plain _ P p e0 E0).
    + simpl. intro D. congruence.
Qed.

Theorem step_prop_quiet_w : forall ev s o sn, PS s -> Excl s -> c20_quiet ev s o = true ->
  let r := step_w ev s o sn in
  step_prop ev s o (refs ev s) (refs ev (st_of r)) (sched_of r) = true /\ PS (st_of r) /\ Excl (st_of r).
Proof.
  intros ev s o sn P X Hq. pose proof (step_w_good20 ev s o sn P X Hq) as G. simpl in *.
  split; [|split; [apply (g_ps _ _ _ _ _ G)|apply (g_excl _ _ _ _ _ G)]].
  eapply good_prop; [exact G|reflexivity].
Qed.

Lemma run_ok_quiet_w : forall ev ops sns s, PS s -> Excl s ->
  c20_hist_quiet_w ev s ops sns = true -> c20_run_ok_w ev s ops sns = true.
Proof.
  induction ops as [|o ops IH]; intros sns s P X H; [reflexivity|].
  simpl in H. apply andb_true_iff in H. destruct H as [Hq Hr].
  destruct (step_prop_quiet_w ev s o (hd [] sns) P X Hq) as [A [P' X']]. simpl. rewrite A. simpl. now apply IH.
Qed.

Theorem c20_history_quiet_w : forall ev ops sns,
  c20_hist_quiet_w ev empty_st ops sns = true -> c20_run_ok_w ev empty_st ops sns = true.
Proof. intros. apply run_ok_quiet_w; [apply PS_empty|apply Excl_empty|assumption]. Qed.

(* with fid objects everywhere the encoding-aware run IS the decoded run *)
Theorem run_w_eq : forall ev ops sns s, forallb all_with_fid sns = true -> run_w ev s ops sns = run ev s ops.
Proof.
  induction ops as [|o ops IH]; intros sns s H; [reflexivity|]. simpl.
  assert (H0 : all_with_fid (hd [] sns) = true) by (destruct sns; simpl in *; [reflexivity|now apply andb_true_iff in H]).
  assert (H1 : forallb all_with_fid (tl sns) = true) by (destruct sns; simpl in *; [reflexivity|now apply andb_true_iff in H]).
  rewrite (step_w_eq ev s o _ (with_fid_not_visible ev s o _ H0)). now rewrite IH.
Qed.

(* non-vacuity: a history inside the hypothesis with all three encodings, the encoding visible at its last step *)
Definition w_hist : list op := [Create ["a"%string] (w_ent [w_c1; w_c2]) false;
                                Update ["a"%string] (mk_hentry false 384 1 2 1 [w_c1; w_c2] 0 0%Z);
                                Write ["a"%string] [w_c2; Chunk 3 0 10 3 false] 3 false;
                                Update ["a"%string] (mk_hentry false 384 1 3 1 [w_c9; w_c2; Chunk 3 0 10 3 false] 0 0%Z)].
Definition w_sns : list sent := [[(1, 2); (2, 2)]; [(1, 1); (2, 1)]; [(2, 1); (3, 2)]; [(9, 0); (2, 2); (3, 0)]]%N.
Theorem wire_example :
  c20_hist_quiet_w w_ev empty_st w_hist w_sns = true /\
  map sched_of (run_w w_ev empty_st w_hist w_sns) = [[]; []; [1]; [9]]%N /\
  map sched_of (run w_ev empty_st w_hist) = [[]; []; [1]; []]%N.
Proof. vm_compute. repeat split. Qed.
