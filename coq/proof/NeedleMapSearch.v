(* C05 proofs, part 1: sort.Search, and the index-based array operations of CompactSection
   expressed as plain recursive list operations on sorted lists. *)
From Coq Require Import List NArith ZArith Bool Lia Sorted Arith.
From Coq Require Import ZifyBool ZifyN ZifyNat.
From SW Require Import model.NeedleMap.
Import ListNotations.
Local Open Scope N_scope.
Ltac Zify.zify_post_hook ::= Z.div_mod_to_equations.

(* ---------- sort.Search ---------- *)
Definition monotone (f : nat -> bool) (n : nat) : Prop :=
  forall i j, (i <= j < n)%nat -> f i = true -> f j = true.

Lemma bsearch_spec : forall f n, monotone f n ->
  forall fuel i j, (i <= j <= n)%nat -> (j - i < fuel)%nat ->
  (forall k, (k < i)%nat -> f k = false) -> (forall k, (j <= k < n)%nat -> f k = true) ->
  (i <= bsearch fuel f i j <= j)%nat /\
  (forall k, (k < bsearch fuel f i j)%nat -> f k = false) /\
  (forall k, (bsearch fuel f i j <= k < n)%nat -> f k = true).
Proof.
  intros f n Hm. induction fuel as [|fuel IH]; intros i j Hij Hf Hlo Hhi; [lia|].
  cbn [bsearch]. destruct (Nat.ltb_spec i j) as [Hlt|Hge].
  - set (h := ((i + j) / 2)%nat).
    assert (Hh : (i <= h < j)%nat) by (unfold h; lia).
    destruct (f h) eqn:Fh; cbn [negb].
    + destruct (IH i h) as [A [B C]]; try lia; auto.
      { intros k Hk. destruct (Nat.eq_dec k h) as [->|Hne]; [assumption|].
        apply (Hm h k); [lia|assumption]. }
      repeat split; auto; lia.
    + destruct (IH (h + 1)%nat j) as [A [B C]]; try lia; auto.
      { intros k Hk. destruct (f k) eqn:Fk; [|reflexivity].
        assert (f h = true) by (apply (Hm k h); [lia|assumption]). congruence. }
      repeat split; auto; lia.
  - assert (i = j) by lia. subst. repeat split; auto; lia.
Qed.

Lemma sort_search_spec : forall f n, monotone f n ->
  (sort_search n f <= n)%nat /\
  (forall k, (k < sort_search n f)%nat -> f k = false) /\
  (forall k, (sort_search n f <= k < n)%nat -> f k = true).
Proof.
  intros f n Hm. unfold sort_search.
  assert (H1 : forall k, (k < 0)%nat -> f k = false) by (intros k Hk; lia).
  assert (H2 : forall k, (n <= k < n)%nat -> f k = true) by (intros k Hk; lia).
  destruct (bsearch_spec f n Hm (S n) 0%nat n ltac:(lia) ltac:(lia) H1 H2) as [A [B C]].
  repeat split; auto; lia.
Qed.

(* ---------- sorted lists of sectional values ---------- *)
Definition sorted (l : list sval) : Prop := StronglySorted (fun a b => sk a < sk b) l.

Lemma sorted_nth_le : forall l i j, sorted l -> (i <= j < length l)%nat -> key_at l i <= key_at l j.
Proof.
  induction l as [|x l IH]; intros i j Hs Hij; simpl in Hij; [lia|].
  inversion Hs as [|? ? Hs' Hall]; subst. unfold key_at in *.
  destruct j; destruct i; simpl; try lia.
  - rewrite Forall_forall in Hall. apply N.lt_le_incl. apply Hall. apply nth_In. lia.
  - apply IH; auto. lia.
Qed.

(* number of leading elements with Key < k *)
Fixpoint lb_rec (l : list sval) (k : N) : nat :=
  match l with
  | [] => O
  | v :: r => if sk v <? k then S (lb_rec r k) else O
  end.

Lemma lb_rec_le : forall l k, (lb_rec l k <= length l)%nat.
Proof. induction l as [|v r IH]; intros k; simpl; [lia|]. destruct (sk v <? k); simpl; [specialize (IH k)|]; lia. Qed.
Lemma lb_rec_below : forall l k i, (i < lb_rec l k)%nat -> key_at l i < k.
Proof.
  induction l as [|v r IH]; intros k i H; simpl in H; [lia|].
  destruct (N.ltb_spec (sk v) k); [|lia]. unfold key_at in *. destruct i; simpl; [assumption|].
  apply IH. lia.
Qed.
Lemma lb_rec_at : forall l k, (lb_rec l k < length l)%nat -> k <= key_at l (lb_rec l k).
Proof.
  induction l as [|v r IH]; intros k H; simpl in H; [lia|]. simpl.
  destruct (N.ltb_spec (sk v) k); unfold key_at in *; simpl; [|assumption].
  apply IH. lia.
Qed.

Lemma lower_bound_rec : forall l k, sorted l -> lower_bound l k = lb_rec l k.
Proof.
  intros l k Hs. unfold lower_bound.
  assert (Hm : monotone (fun i => k <=? key_at l i) (length l)).
  { intros i j Hij Hi. apply N.leb_le in Hi. apply N.leb_le.
    eapply N.le_trans; [exact Hi|]. apply sorted_nth_le; assumption. }
  destruct (sort_search_spec _ _ Hm) as [A [B C]].
  set (c := sort_search (length l) (fun i => k <=? key_at l i)) in *.
  pose proof (lb_rec_le l k) as L.
  destruct (Nat.lt_trichotomy c (lb_rec l k)) as [H|[H|H]]; [|assumption|].
  - pose proof (lb_rec_below l k c H) as H1.
    assert (H2 : (k <=? key_at l c) = true) by (apply C; lia).
    apply N.leb_le in H2. lia.
  - assert (H1 : (k <=? key_at l (lb_rec l k)) = false) by (apply B; lia).
    apply N.leb_gt in H1. pose proof (lb_rec_at l k). lia.
Qed.

(* ---------- the plain list operations ---------- *)
Fixpoint l_find (l : list sval) (k : N) : option sval :=
  match l with
  | [] => None
  | v :: r => if sk v =? k then Some v else l_find r k
  end.
(* replace the element whose Key is [sk v] *)
Fixpoint l_replace (l : list sval) (v : sval) : list sval :=
  match l with
  | [] => []
  | x :: r => if sk x =? sk v then v :: r else x :: l_replace r v
  end.
(* insert before the first element whose Key is >= [sk v] *)
Fixpoint l_insert (l : list sval) (v : sval) : list sval :=
  match l with
  | [] => [v]
  | x :: r => if sk x <? sk v then x :: l_insert r v else v :: l
  end.

Lemma l_find_some : forall l k v, l_find l k = Some v -> In v l /\ sk v = k.
Proof.
  induction l as [|x r IH]; intros k v H; simpl in H; [discriminate|].
  destruct (N.eqb_spec (sk x) k).
  - injection H as ->. split; [left; reflexivity|assumption].
  - destruct (IH k v H). split; [right|]; assumption.
Qed.
Lemma l_find_none : forall l k, l_find l k = None <-> (forall v, In v l -> sk v <> k).
Proof.
  induction l as [|x r IH]; intros k; simpl.
  - split; [intros _ v []|reflexivity].
  - destruct (N.eqb_spec (sk x) k) as [E|E].
    + split; [discriminate|]. intros H. exfalso. apply (H x); auto.
    + rewrite IH. split.
      * intros H v [<-|Hv]; auto.
      * intros H v Hv. apply H. right. assumption.
Qed.
Lemma l_find_in_sorted : forall l v, sorted l -> In v l -> l_find l (sk v) = Some v.
Proof.
  induction l as [|x r IH]; intros v Hs Hin; [destruct Hin|].
  inversion Hs as [|? ? Hs' Hall]; subst. simpl. destruct Hin as [->|Hin].
  - rewrite N.eqb_refl. reflexivity.
  - rewrite Forall_forall in Hall. specialize (Hall v Hin).
    destruct (N.eqb_spec (sk x) (sk v)); [lia|]. apply IH; assumption.
Qed.

(* everything at index >= lb_rec is >= k; for sorted lists, > k unless it is the one at lb_rec *)
Lemma sorted_tail_gt : forall x r k, sorted (x :: r) -> k <= sk x -> forall v, In v r -> k < sk v.
Proof.
  intros x r k Hs Hk v Hv. inversion Hs as [|? ? _ Hall]; subst.
  rewrite Forall_forall in Hall. specialize (Hall v Hv). lia.
Qed.

(* binarySearchValues in list terms *)
Lemma bsv_rec : forall l k, sorted l ->
  bsv l k = (let c := lb_rec l k in
             if (c =? length l)%nat then None else if k <? key_at l c then None else Some c).
Proof. intros. unfold bsv. rewrite lower_bound_rec by assumption. reflexivity. Qed.

Lemma bsv_some : forall l k i, sorted l -> bsv l k = Some i ->
  (i < length l)%nat /\ sk (nth i l dummy) = k /\ l_find l k = Some (nth i l dummy) /\
  (forall v, sk v = k -> set_nth i v l = l_replace l v).
Proof.
  intros l k i Hs H. rewrite bsv_rec in H by assumption. cbv zeta in H.
  revert i Hs H. induction l as [|x r IH]; intros i Hs H; simpl in H; [discriminate|].
  inversion Hs as [|? ? Hs' Hall]; subst.
  destruct (N.ltb_spec (sk x) k) as [Hlt|Hge].
  - cbn [Nat.eqb length] in H. unfold key_at in H. cbn [nth] in H.
    change (sk (nth (lb_rec r k) r dummy)) with (key_at r (lb_rec r k)) in H.
    destruct ((lb_rec r k =? length r)%nat) eqn:E; [discriminate|].
    destruct (k <? key_at r (lb_rec r k)) eqn:E2; [discriminate|].
    injection H as <-.
    destruct (IH (lb_rec r k) Hs' eq_refl) as [A [B [C D]]].
    repeat split.
    + simpl. lia.
    + exact B.
    + simpl. destruct (N.eqb_spec (sk x) k); [lia|]. exact C.
    + intros v Hv. unfold set_nth. simpl. destruct (N.eqb_spec (sk x) (sk v)); [lia|].
      f_equal. apply D. assumption.
  - cbn [Nat.eqb length] in H. unfold key_at in H. cbn [nth] in H.
    destruct (N.ltb_spec k (sk x)); [discriminate|]. injection H as <-.
    assert (E : sk x = k) by lia. repeat split.
    + simpl. lia.
    + exact E.
    + simpl. rewrite E, N.eqb_refl. reflexivity.
    + intros v Hv. unfold set_nth. simpl. rewrite E, Hv, N.eqb_refl. reflexivity.
Qed.

Lemma bsv_none : forall l k, sorted l -> bsv l k = None -> l_find l k = None.
Proof.
  intros l k Hs H. rewrite bsv_rec in H by assumption. cbv zeta in H.
  revert Hs H. induction l as [|x r IH]; intros Hs H; [reflexivity|].
  inversion Hs as [|? ? Hs' Hall]; subst. simpl in *.
  destruct (N.ltb_spec (sk x) k) as [Hlt|Hge].
  - destruct (N.eqb_spec (sk x) k); [lia|]. apply IH; [assumption|].
    cbn [Nat.eqb length] in H. unfold key_at in *. cbn [nth] in H.
    destruct ((lb_rec r k =? length r)%nat); [reflexivity|].
    destruct (k <? sk (nth (lb_rec r k) r dummy)); [reflexivity|discriminate].
  - cbn [Nat.eqb] in H. unfold key_at in H. cbn [nth] in H.
    destruct (N.ltb_spec k (sk x)); [|discriminate].
    destruct (N.eqb_spec (sk x) k); [lia|].
    apply l_find_none. intros v Hv. rewrite Forall_forall in Hall. specialize (Hall v Hv). lia.
Qed.

(* findOverflowEntry agrees with binarySearchValues on sorted lists *)
Lemma find_overflow_bsv : forall l k, sorted l ->
  find_overflow l k = match bsv l k with Some i => Some (i, nth i l dummy) | None => None end.
Proof.
  intros l k Hs. unfold find_overflow, bsv. rewrite lower_bound_rec by assumption.
  set (c := lb_rec l k). destruct (Nat.eqb_spec c (length l)) as [E|E]; [reflexivity|].
  cbn [negb andb].
  assert (Hc : (c < length l)%nat) by (pose proof (lb_rec_le l k); unfold c in *; lia).
  pose proof (lb_rec_at l k Hc) as Hat. fold c in Hat.
  destruct (N.eqb_spec (key_at l c) k); destruct (N.ltb_spec k (key_at l c)); try reflexivity; lia.
Qed.

Lemma find_overflow_some : forall l k c o, sorted l -> find_overflow l k = Some (c, o) ->
  l_find l k = Some o /\ sk o = k /\ In o l /\ (forall v, sk v = k -> set_nth c v l = l_replace l v).
Proof.
  intros l k c o Hs H. rewrite find_overflow_bsv in H by assumption.
  destruct (bsv l k) as [i|] eqn:E; [|discriminate]. injection H as <- <-.
  destruct (bsv_some l k i Hs E) as [A [B [C D]]]. repeat split; auto. apply nth_In. assumption.
Qed.
Lemma find_overflow_none : forall l k, sorted l -> find_overflow l k = None -> l_find l k = None.
Proof.
  intros l k Hs H. rewrite find_overflow_bsv in H by assumption.
  destruct (bsv l k) as [i|] eqn:E; [discriminate|]. apply bsv_none; assumption.
Qed.

(* inserting at the lower bound *)
Lemma insert_at_rec : forall l v, insert_at (lb_rec l (sk v)) v l = l_insert l v.
Proof.
  induction l as [|x r IH]; intros v; [reflexivity|]. simpl.
  destruct (sk x <? sk v); [|reflexivity]. unfold insert_at in *. simpl. f_equal. apply IH.
Qed.

Lemma set_overflow_rec : forall l k off size, sorted l ->
  set_overflow l k off size =
  match l_find l k with
  | Some _ => l_replace l (mk_sval k off size)
  | None => l_insert l (mk_sval k off size)
  end.
Proof.
  intros l k off size Hs.
  pose proof (find_overflow_bsv l k Hs) as F. unfold find_overflow in F.
  unfold set_overflow. rewrite lower_bound_rec in * by assumption.
  destruct (negb (lb_rec l k =? length l)%nat && (key_at l (lb_rec l k) =? k)) eqn:E.
  - destruct (bsv l k) as [i|] eqn:B; [|discriminate]. injection F as F1 F2.
    destruct (bsv_some l k i Hs B) as [_ [_ [C D]]]. rewrite C. rewrite F1. apply D. reflexivity.
  - destruct (bsv l k) as [i|] eqn:B; [discriminate|].
    rewrite (bsv_none l k Hs B). change k with (sk (mk_sval k off size)) at 1. apply insert_at_rec.
Qed.

Lemma set_nth_same : forall {A} (l : list A) i d, (i < length l)%nat -> set_nth i (nth i l d) l = l.
Proof.
  intros A l. induction l as [|x r IH]; intros i d H; simpl in H; [lia|].
  unfold set_nth in *. destruct i; simpl; [reflexivity|]. f_equal. apply IH. lia.
Qed.

Definition neg_if_live (v : sval) : sval := if (0 <? ssz v)%Z then sv_set_size v (- ssz v)%Z else v.

Lemma delete_overflow_rec : forall l k, sorted l ->
  delete_overflow l k = match l_find l k with Some o => l_replace l (neg_if_live o) | None => l end.
Proof.
  intros l k Hs.
  pose proof (find_overflow_bsv l k Hs) as F. unfold find_overflow in F.
  unfold delete_overflow. rewrite lower_bound_rec in * by assumption.
  destruct (negb (lb_rec l k =? length l)%nat && (key_at l (lb_rec l k) =? k)) eqn:E.
  - destruct (bsv l k) as [i|] eqn:B; [|discriminate]. injection F as F1 F2.
    destruct (bsv_some l k i Hs B) as [_ [Hk [C D]]]. rewrite C. rewrite F1 in *.
    unfold neg_if_live, size_is_valid, tombstone.
    destruct (Z.ltb_spec 0 (ssz (nth i l dummy))) as [Hp|Hp].
    + destruct (Z.eqb_spec (ssz (nth i l dummy)) (-1)); [lia|]. cbn [negb andb].
      apply D. exact Hk.
    + cbn [andb]. symmetry. rewrite <- (D (nth i l dummy) Hk).
      apply set_nth_same. destruct (bsv_some l k i Hs B) as [A _]. exact A.
  - destruct (bsv l k) as [i|] eqn:B; [discriminate|].
    rewrite (bsv_none l k Hs B). reflexivity.
Qed.

(* ---------- l_find / l_replace / l_insert algebra ---------- *)
Lemma l_find_replace : forall l v k, l_find l (sk v) <> None ->
  l_find (l_replace l v) k = if k =? sk v then Some v else l_find l k.
Proof.
  induction l as [|x r IH]; intros v k H; simpl in *; [congruence|].
  destruct (N.eqb_spec (sk x) (sk v)) as [E|E].
  - simpl. destruct (N.eqb_spec (sk v) k) as [E1|E1]; destruct (N.eqb_spec k (sk v)) as [E2|E2]; try congruence.
    destruct (N.eqb_spec (sk x) k); congruence.
  - simpl. destruct (N.eqb_spec (sk x) k) as [E1|E1].
    + destruct (N.eqb_spec k (sk v)); [congruence|reflexivity].
    + apply IH. assumption.
Qed.

Lemma l_find_insert : forall l v k, l_find l (sk v) = None ->
  l_find (l_insert l v) k = if k =? sk v then Some v else l_find l k.
Proof.
  induction l as [|x r IH]; intros v k H; simpl in *.
  - destruct (N.eqb_spec (sk v) k); destruct (N.eqb_spec k (sk v)); congruence.
  - destruct (N.eqb_spec (sk x) (sk v)) as [E|E]; [discriminate|].
    destruct (sk x <? sk v); simpl.
    + destruct (N.eqb_spec (sk x) k) as [E1|E1].
      * destruct (N.eqb_spec k (sk v)); [congruence|reflexivity].
      * apply IH. assumption.
    + destruct (N.eqb_spec (sk v) k) as [E1|E1]; destruct (N.eqb_spec k (sk v)) as [E2|E2]; congruence.
Qed.

Lemma l_replace_keys : forall l v, map sk (l_replace l v) = map sk l.
Proof.
  induction l as [|x r IH]; intros v; [reflexivity|]. simpl.
  destruct (N.eqb_spec (sk x) (sk v)); simpl; [congruence|]. f_equal. apply IH.
Qed.

Lemma sorted_of_keys : forall l l', map sk l' = map sk l -> sorted l -> sorted l'.
Proof.
  induction l as [|x l IH]; intros l' Hm Hs; destruct l' as [|x' l']; simpl in Hm; try discriminate.
  - constructor.
  - injection Hm as Hk Hm. inversion Hs as [|? ? Hs' Hall]; subst.
    constructor; [apply IH; auto|].
    rewrite Forall_forall in *. intros y Hy.
    assert (Hin : In (sk y) (map sk l)) by (rewrite <- Hm; apply in_map; exact Hy).
    apply in_map_iff in Hin. destruct Hin as [w [Hw Hin]]. rewrite Hk, <- Hw. apply Hall. exact Hin.
Qed.

Lemma l_replace_sorted : forall l v, sorted l -> sorted (l_replace l v).
Proof. intros. eapply sorted_of_keys; [apply l_replace_keys|assumption]. Qed.

Lemma l_replace_in : forall l v x, In x (l_replace l v) -> x = v \/ In x l.
Proof.
  induction l as [|y r IH]; intros v x H; simpl in H; [destruct H|].
  destruct (sk y =? sk v); simpl in H.
  - destruct H as [<-|H]; [left; reflexivity|right; right; assumption].
  - destruct H as [<-|H]; [right; left; reflexivity|]. destruct (IH v x H); [left|right; right]; assumption.
Qed.

Lemma l_insert_in : forall l v x, In x (l_insert l v) <-> x = v \/ In x l.
Proof.
  induction l as [|y r IH]; intros v x; simpl.
  - split; [intros [<-|[]]; left; reflexivity | intros [->|[]]; left; reflexivity].
  - destruct (sk y <? sk v); simpl.
    + rewrite IH. split; [intros [H|[H|H]]|intros [H|[H|H]]]; auto.
    + split; [intros [<-|H]|intros [->|H]]; auto.
Qed.

Lemma l_insert_sorted : forall l v, sorted l -> l_find l (sk v) = None -> sorted (l_insert l v).
Proof.
  induction l as [|x r IH]; intros v Hs Hn; simpl.
  - constructor; constructor.
  - simpl in Hn. destruct (N.eqb_spec (sk x) (sk v)) as [E|E]; [discriminate|].
    inversion Hs as [|? ? Hs' Hall]; subst.
    destruct (N.ltb_spec (sk x) (sk v)) as [Hlt|Hge].
    + constructor; [apply IH; assumption|].
      rewrite Forall_forall in *. intros y Hy. apply l_insert_in in Hy.
      destruct Hy as [->|Hy]; [assumption|apply Hall; assumption].
    + constructor; [assumption|].
      constructor; [lia|]. rewrite Forall_forall in *. intros y Hy. specialize (Hall y Hy). lia.
Qed.

Lemma l_insert_length : forall l v, length (l_insert l v) = S (length l).
Proof. induction l as [|x r IH]; intros v; simpl; [reflexivity|]. destruct (sk x <? sk v); simpl; [rewrite IH|]; reflexivity. Qed.
Lemma l_replace_length : forall l v, length (l_replace l v) = length l.
Proof. induction l as [|x r IH]; intros v; simpl; [reflexivity|]. destruct (sk x =? sk v); simpl; [|rewrite IH]; reflexivity. Qed.

(* ---------- the two ways Set grows [values] are both l_insert ---------- *)
Lemma l_insert_all_lt : forall l v, Forall (fun x => sk x < sk v) l -> l_insert l v = l ++ [v].
Proof.
  induction l as [|x r IH]; intros v H; [reflexivity|]. inversion H as [|? ? H1 H2]; subst. simpl.
  destruct (N.ltb_spec (sk x) (sk v)); [|lia]. f_equal. apply IH. assumption.
Qed.

Lemma l_insert_app_lt : forall a w v, Forall (fun x => sk x < sk v) a -> l_insert (a ++ w) v = a ++ l_insert w v.
Proof.
  induction a as [|x r IH]; intros w v H; [reflexivity|]. inversion H as [|? ? H1 H2]; subst. simpl.
  destruct (N.ltb_spec (sk x) (sk v)); [|lia]. f_equal. apply IH. assumption.
Qed.

Lemma l_insert_snoc_gt : forall a x v, sk v < sk x -> l_insert (a ++ [x]) v = l_insert a v ++ [x].
Proof.
  induction a as [|y r IH]; intros x v H; simpl.
  - destruct (N.ltb_spec (sk x) (sk v)); [lia|reflexivity].
  - destruct (sk y <? sk v); simpl; [f_equal; apply IH; assumption|reflexivity].
Qed.

Lemma sorted_app_l : forall a b, sorted (a ++ b) -> sorted a.
Proof.
  induction a as [|x a IH]; intros b H; [constructor|]. simpl in H.
  inversion H as [|? ? Hs Hall]; subst. constructor; [eapply IH; eauto|].
  rewrite Forall_forall in *. intros y Hy. apply Hall. apply in_or_app. left. assumption.
Qed.

Lemma sorted_snoc_lt : forall a x, sorted (a ++ [x]) -> Forall (fun y => sk y < sk x) a.
Proof.
  induction a as [|y a IH]; intros x H; [constructor|]. simpl in H.
  inversion H as [|? ? Hs Hall]; subst. constructor; [|apply IH; assumption].
  rewrite Forall_forall in Hall. apply Hall. apply in_or_app. right. left. reflexivity.
Qed.

Lemma ins_back_rev : forall w v, sorted w -> (forall x, In x w -> sk x <> sk v) ->
  rev (ins_back (rev w) v) = l_insert w v.
Proof.
  intros w v. induction w as [|x w IH] using rev_ind; intros Hs Hne; [reflexivity|].
  rewrite rev_app_distr. cbn [rev app ins_back].
  assert (Hx : sk x <> sk v) by (apply Hne; apply in_or_app; right; left; reflexivity).
  destruct (N.ltb_spec (sk v) (sk x)) as [Hlt|Hge].
  - cbn [rev]. rewrite IH.
    + symmetry. apply l_insert_snoc_gt. assumption.
    + eapply sorted_app_l; eauto.
    + intros y Hy. apply Hne. apply in_or_app. left. assumption.
  - cbn [rev]. rewrite rev_involutive.
    rewrite l_insert_all_lt.
    + rewrite <- app_assoc. reflexivity.
    + pose proof (sorted_snoc_lt w x Hs) as Hw. apply Forall_app. split.
      * rewrite Forall_forall in *. intros y Hy. specialize (Hw y Hy). lia.
      * constructor; [lia|constructor].
Qed.

Lemma nth_firstn_lt : forall {A} (l : list A) c i d, (i < c)%nat -> nth i (firstn c l) d = nth i l d.
Proof.
  intros A l. induction l as [|x l IH]; intros c i d H.
  - destruct c; destruct i; reflexivity.
  - destruct c; [lia|]. destruct i; simpl; [reflexivity|]. apply IH. lia.
Qed.

Lemma sorted_firstn_lt : forall l lb v, sorted l -> (lb < length l)%nat -> key_at l lb < sk v ->
  Forall (fun x => sk x < sk v) (firstn lb l).
Proof.
  intros l lb v Hs Hlb Hk. rewrite Forall_forall. intros x Hx.
  apply (In_nth _ _ dummy) in Hx. destruct Hx as [i [Hi Hn]].
  rewrite firstn_length in Hi.
  rewrite nth_firstn_lt in Hn by lia.
  pose proof (sorted_nth_le l i lb Hs) as H. unfold key_at in *. rewrite Hn in H. lia.
Qed.

Lemma sorted_skipn : forall l c, sorted l -> sorted (skipn c l).
Proof.
  induction l as [|x l IH]; intros c Hs; destruct c; simpl; auto.
  inversion Hs; subst. apply IH. assumption.
Qed.

Lemma lookback_insert : forall l lb v, sorted l -> (lb < length l)%nat -> key_at l lb < sk v ->
  l_find l (sk v) = None ->
  firstn lb l ++ rev (ins_back (rev (skipn lb l)) v) = l_insert l v.
Proof.
  intros l lb v Hs Hlb Hk Hn.
  rewrite ins_back_rev.
  - rewrite <- (firstn_skipn lb l) at 3. symmetry. apply l_insert_app_lt.
    apply sorted_firstn_lt; assumption.
  - apply sorted_skipn. assumption.
  - intros x Hx. rewrite l_find_none in Hn. apply Hn.
    rewrite <- (firstn_skipn lb l). apply in_or_app. right. assumption.
Qed.

Lemma sorted_last_lt : forall l k, sorted l -> (0 < length l)%nat -> key_at l (length l - 1) < k ->
  Forall (fun x => sk x < k) l.
Proof.
  intros l k Hs Hl Hk. rewrite Forall_forall. intros x Hx.
  apply (In_nth _ _ dummy) in Hx. destruct Hx as [i [Hi Hn]].
  pose proof (sorted_nth_le l i (length l - 1) Hs) as H. unfold key_at in *. rewrite Hn in H. lia.
Qed.

(* ---------- counting the elements above a key (the look-back window argument) ---------- *)
Definition count_gt (l : list sval) (k : N) : nat := length (filter (fun v => k <? sk v) l).

Lemma filter_length_le : forall {A} (f : A -> bool) l, (length (filter f l) <= length l)%nat.
Proof. intros A f l. induction l as [|x l IH]; simpl; [lia|]. destruct (f x); simpl; lia. Qed.

Lemma count_gt_le : forall l k, (count_gt l k <= length l)%nat.
Proof. intros. unfold count_gt. apply filter_length_le. Qed.

Lemma count_gt_full : forall l k, count_gt l k = length l -> forall x, In x l -> k < sk x.
Proof.
  induction l as [|y r IH]; intros k H x Hx; [destruct Hx|].
  unfold count_gt in *. simpl in H. destruct (N.ltb_spec k (sk y)) as [Hy|Hy].
  - simpl in H. destruct Hx as [<-|Hx]; [assumption|]. apply IH; [lia|assumption].
  - pose proof (filter_length_le (fun v => k <? sk v) r). simpl in H. lia.
Qed.

Lemma count_gt_all : forall l k, (forall x, In x l -> k < sk x) -> count_gt l k = length l.
Proof.
  induction l as [|y r IH]; intros k H; [reflexivity|]. unfold count_gt in *. simpl.
  destruct (N.ltb_spec k (sk y)) as [Hy|Hy].
  - simpl. f_equal. apply IH. intros x Hx. apply H. right. assumption.
  - specialize (H y (or_introl eq_refl)). lia.
Qed.

Lemma count_gt_none : forall l k, Forall (fun x => sk x < k) l -> count_gt l k = 0%nat.
Proof.
  induction l as [|y r IH]; intros k H; [reflexivity|]. inversion H; subst. unfold count_gt in *. simpl.
  destruct (N.ltb_spec k (sk y)); [lia|]. apply IH. assumption.
Qed.

Lemma count_gt_keys : forall l l' k, map sk l = map sk l' -> count_gt l k = count_gt l' k.
Proof.
  induction l as [|y r IH]; intros l' k H; destruct l' as [|y' r']; simpl in H; try discriminate; [reflexivity|].
  injection H as H1 H2. unfold count_gt in *. simpl. rewrite H1.
  destruct (k <? sk y'); simpl; [f_equal|]; apply IH; assumption.
Qed.

Lemma count_gt_insert : forall l v k,
  count_gt (l_insert l v) k = (count_gt l k + (if (k <? sk v)%N then 1 else 0))%nat.
Proof.
  induction l as [|y r IH]; intros v k; unfold count_gt in *; simpl.
  - destruct (k <? sk v); reflexivity.
  - destruct (sk y <? sk v); simpl.
    + destruct (k <? sk y); simpl; rewrite IH; lia.
    + destruct (k <? sk v); destruct (k <? sk y); simpl; lia.
Qed.

(* G1: enough elements above k force the element at index i above k *)
Lemma count_gt_index : forall l i k, sorted l -> (i < length l)%nat ->
  (length l - i <= count_gt l k)%nat -> k < key_at l i.
Proof.
  induction l as [|x r IH]; intros i k Hs Hi Hc; simpl in Hi; [lia|].
  inversion Hs as [|? ? Hs' Hall]; subst.
  destruct i.
  - assert (E : count_gt (x :: r) k = length (x :: r)).
    { pose proof (count_gt_le (x :: r) k). simpl in *. lia. }
    unfold key_at. simpl. apply (count_gt_full _ _ E). left. reflexivity.
  - unfold key_at. simpl. change (sk (nth i r dummy)) with (key_at r i).
    unfold count_gt in Hc. simpl in Hc. destruct (N.ltb_spec k (sk x)) as [Hx|Hx].
    + rewrite Forall_forall in Hall. eapply N.lt_trans; [exact Hx|]. apply Hall. apply nth_In. lia.
    + apply IH; [assumption|lia|]. unfold count_gt. simpl in Hc. lia.
Qed.

(* G2: an element above k at index i puts the whole suffix above k *)
Lemma index_count_gt : forall l i k, sorted l -> (i < length l)%nat -> k < key_at l i ->
  (length l - i <= count_gt l k)%nat.
Proof.
  induction l as [|x r IH]; intros i k Hs Hi Hk; simpl in Hi; [lia|].
  inversion Hs as [|? ? Hs' Hall]; subst.
  destruct i.
  - unfold key_at in Hk. simpl in Hk.
    rewrite count_gt_all; [simpl; lia|].
    intros y [<-|Hy]; [assumption|]. rewrite Forall_forall in Hall. specialize (Hall y Hy). lia.
  - unfold key_at in Hk. simpl in Hk.
    specialize (IH i k Hs' ltac:(lia) Hk).
    unfold count_gt in *. simpl. destruct (k <? sk x); simpl; lia.
Qed.
