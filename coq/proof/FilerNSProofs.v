(* Proofs about model/FilerNS.v (C18): entry point re-exporting the parts.
     FilerNSBase    paths, the flat store, well-formedness
     FilerNSCreate  CreateEntry / UpdateEntry
     FilerNSDelete  DeleteEntryMetaAndData
     FilerNSRename  moveEntry / AtomicRenameEntry
     FilerNSHist    histories, the reference namespace, the C18 statements
     FilerNSRaw     the request layer of AtomicRenameEntry (model/FilerNSRaw.v), narrow trigger, examples *)
From SW Require Export model.FilerNS model.FilerNSRaw proof.FilerNSBase proof.FilerNSCreate proof.FilerNSDelete
  proof.FilerNSRename proof.FilerNSHist proof.FilerNSRaw.
