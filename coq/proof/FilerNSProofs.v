(* Proofs about model/FilerNS.v (C18): entry point re-exporting the parts.
     FilerNSBase    paths, the flat store, well-formedness
     FilerNSCreate  CreateEntry / UpdateEntry
     FilerNSDelete  DeleteEntryMetaAndData
     FilerNSRename  moveEntry / AtomicRenameEntry
     FilerNSHist    histories, the reference namespace, the C18 statements *)
From SW Require Export model.FilerNS proof.FilerNSBase proof.FilerNSCreate proof.FilerNSDelete
  proof.FilerNSRename proof.FilerNSHist.
