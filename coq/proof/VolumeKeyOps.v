(* C01, per-key refinement, part 2: what each operation does to a key that no finding has
   touched (the key's own entry of the invariant suffices). *)
From Coq Require Import List NArith ZArith Bool Lia.
From SW Require Import model.Volume proof.VolumeProofs proof.VolumeKeyProofs.
Import ListNotations.
Local Open Scope N_scope.

(* ---------- reads ---------- *)
Lemma read_k : forall st sp seen id c now,
  K st sp seen id ->
  match s_lookup sp id now with
  | Some (c', n) =>
      c' = n_cookie n /\
      store_read st id c false now = (ENone, Z.of_N (blen (n_data n)), exp_view n)
  | None =>
      exists e v, (e = ENotFound \/ e = EDeleted) /\
                store_read st id c false now = (e, (-1)%Z, v)
  end.
Proof.
  intros st sp seen id c now HR.
  unfold K, s_lookup, R_entry in *. destruct (s_get (s_map sp) id) as [e|].
  - destruct (s_live e) as [[n t]|].
    + destruct HR as (off & r & H1 & H2 & H3 & H4 & H5 & H6 & H7 & H8 & H9).
      assert (Hv : view_of_rec r = exp_view n).
      { unfold view_of_rec. apply N.ltb_lt in H4. rewrite H4. exact H5. }
      assert (Hexp : view_expired (exp_view n) (r_at r) now = view_expired (exp_view n) t now).
      { rewrite !view_expired_exp. destruct (expirable n) eqn:E; [rewrite (H8 eq_refl); reflexivity | reflexivity]. }
      assert (Hrd : store_read st id c false now =
                    if view_expired (exp_view n) t now then (ENotFound, (-1)%Z, exp_view n)
                    else (ENone, Z.of_N (blen (n_data n)), exp_view n)).
      { unfold store_read. rewrite H1. cbn [nv_off nv_size].
        apply N.eqb_neq in H3. rewrite H3.
        assert (Hd : size_deleted (Z.of_N (r_size r)) = false).
        { unfold size_deleted. apply orb_false_iff. split; [apply Z.ltb_ge; lia | apply Z.eqb_neq; lia]. }
        rewrite Hd.
        assert (Hz : (Z.of_N (r_size r) =? 0)%Z = false) by (apply Z.eqb_neq; lia).
        rewrite Hz. unfold read_data. rewrite H2. rewrite Z.eqb_refl. rewrite Hv, Hexp.
        destruct (view_expired (exp_view n) t now); reflexivity. }
      destruct (view_expired (exp_view n) t now).
      * exists ENotFound, (exp_view n). split; [left; reflexivity | exact Hrd].
      * split; [symmetry; exact H6 | exact Hrd].
    + destruct HR as (off & sz & r & H1 & H2 & H3 & H4 & H5).
      exists EDeleted, (blank_view c). split; [right; reflexivity|].
      unfold store_read. rewrite H1. cbn [nv_off nv_size]. apply N.eqb_neq in H4. rewrite H4.
      assert (Hd : size_deleted sz = true).
      { unfold size_deleted. apply orb_true_iff. left. apply Z.ltb_lt. exact H2. }
      rewrite Hd. reflexivity.
  - exists ENotFound, (blank_view c). split; [left; reflexivity|]. unfold store_read. rewrite HR. reflexivity.
Qed.

Lemma lookup_stored : forall sp id t c n, s_lookup sp id t = Some (c, n) -> s_stored sp id = Some (c, n).
Proof.
  intros sp id t c n. unfold s_lookup, s_stored. destruct (s_get (s_map sp) id) as [e|]; [|discriminate].
  destruct (s_live e) as [[n0 t0]|]; [|discriminate].
  destruct (view_expired (exp_view n0) t0 t); [discriminate | auto].
Qed.

(* the HTTP projection of what the handler read *)
Lemma hproj_default : forall gun v, hproj_x gun gopt_default v = hproj v.
Proof.
  intros gun v. unfold hproj_x, hproj, served_data, gopt_default. cbn [g_gzip g_head g_name blen length N.of_nat N.eqb].
  destruct (is_compressed (v_flags v)); cbn [andb]; [|reflexivity].
  destruct (is_gzip_content (v_data v)); reflexivity.
Qed.

(* ---------- deletes ---------- *)
Lemma delete_k : forall st sp seen id c t,
  bounded st -> K st sp seen id -> no_write_or_delete st = false ->
  exists st', store_delete st id c t = (st', ENone, Z.of_N (stored_size sp id)) /\
              K st' (spec_kill sp id) seen id.
Proof.
  intros st sp seen id c t [B1 B2] He Hro.
  unfold store_delete. rewrite Hro. unfold spec_kill, stored_size, s_stored. unfold K in *.
  unfold R_entry in He. destruct (s_get (s_map sp) id) as [e|] eqn:Hg.
  - destruct (s_live e) as [[n tw]|] eqn:Hl.
    + destruct He as (off & r & E1 & E2 & E3 & E4 & E5 & E6 & E7 & E8 & E9).
      rewrite E1. cbn [nv_size].
      assert (Hv : size_valid (Z.of_N (r_size r)) = true).
      { unfold size_valid. apply andb_true_iff. split; [apply Z.ltb_lt; lia | apply negb_true_iff, Z.eqb_neq; lia]. }
      rewrite Hv. unfold append. cbn [nm].
      assert (Hsz : r_size r = needle_size n).
      { destruct (B2 _ _ E2) as [_ Hs]. rewrite Hs.
        change (needle_size (r_n r)) with (v_size (view_of (r_n r))). rewrite E5. reflexivity. }
      eexists. split; [rewrite Hsz; reflexivity|].
      cbn [with_map s_map]. rewrite s_get_same. unfold R_entry. cbn [s_live s_cookie nm recs with_nm].
      unfold nm_delete. rewrite E1. cbn [nv_size nv_off]. rewrite Hv.
      exists off, (- Z.of_N (r_size r))%Z, r. rewrite nm_get_same.
      repeat split; auto; try lia.
      * cbn [find_rec r_off]. destruct (B2 _ _ E2) as [Hb _].
        destruct (dat_end st =? off) eqn:E; [apply N.eqb_eq in E; lia | exact E2].
      * rewrite <- E6. change (n_cookie (r_n r)) with (v_cookie (view_of (r_n r))). rewrite E5. reflexivity.
    + destruct He as (off & sz & r & E1 & E2 & E3 & E4 & E5).
      rewrite E1. cbn [nv_size].
      assert (Hv : size_valid sz = false).
      { unfold size_valid. apply andb_false_iff. left. apply Z.ltb_ge. lia. }
      rewrite Hv. eexists. split; [reflexivity|].
      cbn [with_map s_map]. rewrite s_get_same. unfold R_entry. cbn [s_live s_cookie].
      exists off, sz, r. repeat split; auto.
  - rewrite He. eexists. split; [reflexivity|]. rewrite Hg. exact He.
Qed.

(* ---------- writes ---------- *)
Lemma write_k : forall st sp seen n t,
  flags_eq st sp -> bounded st -> K st sp seen (n_id n) ->
  wf_needle n = true -> blen (n_data n) =? 0 = false -> fresh seen n ->
  xmatch (xexpect_write sp n t)
         (XO (OWrite (w_err (snd (store_write st n t))) (w_unchanged (snd (store_write st n t)))
                     (w_size (snd (store_write st n t))))) = true /\
  xmatch (xexpect_write sp n t)
         (XO (OPost (post_status (snd (store_write st n t))) (w_err (snd (store_write st n t))))) = true /\
  K (fst (store_write st n t)) (fst (spec_write sp n t)) (n :: seen) (n_id n).
Proof.
  intros st sp seen n t [F1 F2] [B1 B2] He Hwf Hne Hfresh.
  unfold xexpect_write, spec_unchanged, s_stored, store_write, spec_write, is_read_only. rewrite F1, F2.
  unfold K in *.
  destruct (s_nwod sp || s_nwcd sp) eqn:Hro.
  { cbn [negb andb fst snd w_err w_unchanged w_size post_status xmatch err_eqb Bool.eqb N.eqb Pos.eqb].
    split; [reflexivity|]. split; [reflexivity|].
    eapply R_entry_frame; [exact He | reflexivity | auto | apply incl_tl, incl_refl]. }
  cbn [negb andb].
  assert (Hnew : forall off, (forall r0, find_rec (recs st) off = Some r0 -> True) -> True) by auto.
  (* the entry after an append that updates the needle map *)
  assert (Happ : forall e0,
    R_entry (with_nm (fst (fst (append st n t)))
               (nm_set (nm (fst (fst (append st n t)))) (n_id n) {| nv_off := dat_end st; nv_size := Z.of_N (needle_size n) |}))
            (n :: seen) (n_id n)
            (s_get ((n_id n, {| s_cookie := n_cookie n; s_live := Some (n, t) |}) :: e0) (n_id n))).
  { intro e0. rewrite s_get_same. unfold R_entry. cbn [s_live s_cookie].
    exists (dat_end st), {| r_off := dat_end st; r_size := needle_size n; r_at := t; r_n := n |}.
    cbn [with_nm nm recs]. unfold nm_set. rewrite nm_get_same. cbn [r_size r_n r_at].
    split; [reflexivity|].
    split; [unfold append; cbn [fst recs find_rec r_off]; rewrite N.eqb_refl; reflexivity|].
    split; [lia|].
    split; [apply needle_size_pos; exact Hne|].
    split; [apply wf_view; exact Hwf|].
    split; [reflexivity|]. split; [reflexivity|].
    split; [intros _; reflexivity | left; reflexivity]. }
  unfold R_entry in He. unfold do_write, is_file_unchanged.
  destruct (s_get (s_map sp) (n_id n)) as [e|] eqn:Hg.
  - destruct (s_live e) as [[n0 t0]|] eqn:Hl.
    + destruct He as (off & r & E1 & E2 & E3 & E4 & E5 & E6 & E7 & E8 & E9).
      rewrite E1. cbn [nv_off nv_size].
      assert (Hoff : (off =? 0) = false) by (apply N.eqb_neq; exact E3).
      assert (Hv : size_valid (Z.of_N (r_size r)) = true).
      { unfold size_valid. apply andb_true_iff. split; [apply Z.ltb_lt; lia | apply negb_true_iff, Z.eqb_neq; lia]. }
      rewrite Hoff, Hv. cbn [negb andb]. unfold read_data. rewrite E2, Z.eqb_refl.
      assert (Hvr : view_of_rec r = exp_view n0).
      { unfold view_of_rec. apply N.ltb_lt in E4. rewrite E4. exact E5. }
      rewrite Hvr. cbn [exp_view v_cookie v_data].
      assert (Hck : n_cookie (r_n r) = n_cookie n0).
      { change (n_cookie (r_n r)) with (v_cookie (view_of (r_n r))). rewrite E5. reflexivity. }
      rewrite Hck, E6.
      destruct ((s_cookie e =? n_cookie n) && bytes_eqb (n_data n0) (n_data n)) eqn:Hun.
      * (* isFileUnchanged *)
        apply andb_true_iff in Hun. destruct Hun as [Hc Hd].
        rewrite Hc. cbn [fst snd w_err w_unchanged w_size post_status xmatch err_eqb Bool.eqb andb].
        rewrite ?N.eqb_refl.
        split; [reflexivity|]. split; [reflexivity|].
        apply N.eqb_eq in Hc. apply bytes_eqb_eq in Hd.
        pose proof (fresh_not_conflict _ _ _ Hfresh E9) as Hcf. unfold conflicts in Hcf.
        assert (Hid : (n_id n =? n_id n0) = true) by (apply N.eqb_eq; congruence).
        assert (Hco : (n_cookie n =? n_cookie n0) = true) by (apply N.eqb_eq; congruence).
        assert (Hda : bytes_eqb (n_data n) (n_data n0) = true) by (apply bytes_eqb_eq; congruence).
        rewrite Hid, Hco, Hda in Hcf. cbn [andb] in Hcf. apply orb_false_iff in Hcf.
        destruct Hcf as [Hve Hex]. apply negb_false_iff, view_eqb_eq in Hve.
        cbn [with_map s_map]. rewrite s_get_same. unfold R_entry. cbn [s_live s_cookie].
        exists off, r. repeat split; auto.
        -- rewrite Hve. exact E5.
        -- intro Hx. congruence.
        -- left. reflexivity.
      * destruct (s_cookie e =? n_cookie n) eqn:Hc.
        -- (* overwrite *)
           cbn [andb] in Hun.
           unfold append. cbn [fst snd].
           assert (Hlt : off <? dat_end st = true) by (apply N.ltb_lt; destruct (B2 _ _ E2); assumption).
           rewrite Hlt. cbn [fst snd w_err w_unchanged w_size post_status xmatch err_eqb Bool.eqb andb].
           rewrite ?N.eqb_refl. cbn [Bool.eqb andb].
           split; [reflexivity|]. split; [reflexivity|]. apply Happ.
        -- cbn [andb fst snd w_err w_unchanged w_size post_status xmatch err_eqb Bool.eqb N.eqb Pos.eqb].
           split; [reflexivity|]. split; [reflexivity|].
           rewrite Hg. unfold R_entry. rewrite Hl. exists off, r. repeat split; auto. right. exact E9.
    + destruct He as (off & sz & r & E1 & E2 & E3 & E4 & E5).
      rewrite E1. cbn [nv_off nv_size].
      assert (Hv : size_valid sz = false).
      { unfold size_valid. apply andb_false_iff. left. apply Z.ltb_ge. lia. }
      rewrite Hv, andb_false_r. rewrite E3, E5.
      destruct (s_cookie e =? n_cookie n) eqn:Hc.
      * unfold append. cbn [fst snd].
        assert (Hlt : off <? dat_end st = true) by (apply N.ltb_lt; destruct (B2 _ _ E3); assumption).
        rewrite Hlt. cbn [fst snd w_err w_unchanged w_size post_status xmatch err_eqb Bool.eqb andb].
        rewrite ?N.eqb_refl.
        split; [reflexivity|]. split; [reflexivity|]. apply Happ.
      * cbn [fst snd w_err w_unchanged w_size post_status xmatch err_eqb Bool.eqb andb N.eqb Pos.eqb].
        split; [reflexivity|]. split; [reflexivity|].
        rewrite Hg. unfold R_entry. rewrite Hl. exists off, sz, r. repeat split; auto.
  - (* a new id *)
    rewrite He. unfold append. cbn [fst snd].
    cbn [fst snd w_err w_unchanged w_size post_status xmatch err_eqb Bool.eqb andb].
    rewrite ?N.eqb_refl.
    split; [reflexivity|]. split; [reflexivity|]. apply Happ.
Qed.
