(* C30: entry point of the proofs about model/DirtyPages.v.
     DirtyPagesBase       byte lists indexed by Z, blit
     DirtyPagesIntervals  the interval-list algebra (AddInterval, RemoveLargest, ReadDataAt), generic in the payload
     DirtyPagesState      chunks, POSIX reference, invariant of ContinuousDirtyPages
     DirtyPagesMem        theorems for the in-memory buffer
     DirtyPagesTemp       theorems for the temp-file buffer
     DirtyPagesRead       FileHandle.Read on trigger-free histories
   This file adds the concrete counterexamples to the full-strength statements (the known findings). *)
From Coq Require Import List ZArith NArith Bool Lia.
From SW Require Export model.DirtyPages proof.DirtyPagesBase proof.DirtyPagesIntervals proof.DirtyPagesState
                       proof.DirtyPagesMem proof.DirtyPagesTemp proof.DirtyPagesRead.
Import ListNotations.
Local Open Scope Z_scope.

Ltac ops_ok := repeat constructor; cbn; try lia; try discriminate.

(* ---- finding 0: a truncate below the file size while pages are dirty ---- *)
Definition w0_mem : list op := [Write 0 [1;2;3;4]%N; Write 8 [5;6;7;8]%N; Trunc 8].
Definition w0_temp : list op := [Write 0 [1;2;3;4;5;6;7;8]%N; Trunc 4].

Lemma m_flush_refuted : exists limit pre, 0 < limit /\ Forall op_ok (pre ++ [Flush]) /\
  content_of (m_meta (exec mstate (m_step limit) mstate0 (pre ++ [Flush]))) <> pfile (pre ++ [Flush]).
Proof.
  exists 16, w0_mem. split; [lia|]. split; [unfold w0_mem; ops_ok|].
  intro H. vm_compute in H. discriminate.
Qed.

Lemma t_flush_refuted : exists limit pre, 0 < limit /\ Forall op_ok (pre ++ [Flush]) /\
  content_of (t_meta (exec tstate (t_step limit) tstate0 (pre ++ [Flush]))) <> pfile (pre ++ [Flush]).
Proof.
  exists 16, w0_temp. split; [lia|]. split; [unfold w0_temp; ops_ok|].
  intro H. vm_compute in H. discriminate.
Qed.

(* what the witnesses produce, for the report *)
Lemma w0_mem_values :
  content_of (m_meta (exec mstate (m_step 16) mstate0 (w0_mem ++ [Flush]))) = [0;0;0;0;0;0;0;0]%N /\
  shape _ (m_iv (exec mstate (m_step 16) mstate0 (w0_mem ++ [Flush]))) = [[(0, 4)]] /\
  pfile (w0_mem ++ [Flush]) = [1;2;3;4;0;0;0;0]%N /\
  m_trigger 16 (w0_mem ++ [Flush]) = Some 0%N.
Proof. vm_compute. repeat split; reflexivity. Qed.

Lemma w0_temp_values :
  content_of (t_meta (exec tstate (t_step 16) tstate0 (w0_temp ++ [Flush]))) = [1;2;3;4;5;6;7;8]%N /\
  pfile (w0_temp ++ [Flush]) = [1;2;3;4]%N /\
  t_trigger 16 (w0_temp ++ [Flush]) = Some 0%N.
Proof. vm_compute. repeat split; reflexivity. Qed.

(* the dirty buffer itself returns stale bytes after shrink + extend *)
Definition w0_read : list op := [Write 0 [1;2;3;4;5;6;7;8]%N; Trunc 4; Trunc 8; Read 0 8].
Lemma w0_read_values :
  last (m_run 16 w0_read) (OTrunc [] 0) = ORead [1;2;3;4;5;6;7;8]%N 8 [1;2;3;4;5;6;7;8]%N /\
  pread (pfile w0_read) 0 8 = [1;2;3;4;0;0;0;0]%N.
Proof. vm_compute. split; reflexivity. Qed.

(* ---- repaired (file.go Setattr now keeps the chunks lying wholly inside the new size): the former
   witness of the dropped chunks is trigger-free and resolves to the POSIX file ---- *)
Definition w_kept : list op := [Write 0 [1;2;3;4]%N; Flush; Write 4 [5;6;7;8]%N; Flush; Trunc 6].

Lemma w_kept_values :
  m_trigger 16 (w_kept ++ [Flush]) = None /\ t_trigger 16 (w_kept ++ [Flush]) = None /\
  content_of (m_meta (exec mstate (m_step 16) mstate0 (w_kept ++ [Flush]))) = [1;2;3;4;5;6]%N /\
  content_of (t_meta (exec tstate (t_step 16) tstate0 (w_kept ++ [Flush]))) = [1;2;3;4;5;6]%N /\
  pfile (w_kept ++ [Flush]) = [1;2;3;4;5;6]%N.
Proof. vm_compute. repeat split; reflexivity. Qed.

(* ---- finding 1: FileHandle.Read keeps serving the visible intervals computed at the first read ---- *)
Definition w2 : list op := [Write 0 [1;2;3;4]%N; Flush; Read 0 8; Write 0 [5;6;7;8]%N; Flush; Read 0 8].

Definition read_data (o : obs) : list N := match o with ORead _ _ d => d | _ => [] end.

Lemma handle_read_refuted : exists limit ops, 0 < limit /\ Forall op_ok ops /\
  m_trigger limit ops = Some 1%N /\ t_trigger limit ops = Some 1%N /\
  read_data (last (m_run limit ops) (OTrunc [] 0)) <> pread (pfile ops) 0 8 /\
  read_data (last (t_run limit ops) (OTrunc [] 0)) <> pread (pfile ops) 0 8.
Proof.
  exists 16, w2. split; [lia|]. split; [unfold w2; ops_ok|].
  split; [vm_compute; reflexivity|]. split; [vm_compute; reflexivity|].
  split; intro H; vm_compute in H; discriminate.
Qed.

Lemma w2_values :
  read_data (last (m_run 16 w2) (OTrunc [] 0)) = [1;2;3;4]%N /\ pread (pfile w2) 0 8 = [5;6;7;8]%N.
Proof. vm_compute. split; reflexivity. Qed.

(* ---- non-vacuity: trigger-free histories with a page larger than the chunk limit, an automatic
   save, a hole, and a shrinking truncate; the partial theorems apply and give the POSIX content ---- *)
Definition ex_ops : list op :=
  [Write 0 [1;2;3;4;5;6]%N; Write 9 [7;8]%N; Flush; Trunc 3; Write 5 [9]%N; Read 0 6; Trunc 10; Flush].

Lemma ex_trigger_free : m_trigger 4 ex_ops = None /\ t_trigger 4 ex_ops = None /\ Forall op_ok ex_ops.
Proof. split; [vm_compute; reflexivity|]. split; [vm_compute; reflexivity|]. unfold ex_ops. ops_ok. Qed.

Lemma ex_content :
  content_of (m_meta (exec mstate (m_step 4) mstate0 ex_ops)) = [1;2;3;0;0;9;0;0;0;0]%N /\
  content_of (t_meta (exec tstate (t_step 4) tstate0 ex_ops)) = [1;2;3;0;0;9;0;0;0;0]%N /\
  pfile ex_ops = [1;2;3;0;0;9;0;0;0;0]%N /\
  length (f_chunks (m_meta (exec mstate (m_step 4) mstate0 ex_ops))) = 3%nat.
Proof. vm_compute. repeat split; reflexivity. Qed.
