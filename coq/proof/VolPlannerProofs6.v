(* Proofs about model/VolPlanner.v (C15), part 6: the snapshot as initial state,
   and the whole volume.balance run (all phases). *)
From Coq Require Import List NArith ZArith Bool Arith Lia Permutation.
From SW Require Import model.VolPlanner proof.VolPlannerProofs proof.VolPlannerProofs2
  proof.VolPlannerProofs3 proof.VolPlannerProofs4 proof.VolPlannerProofs5.
Import ListNotations.

Lemma reps_of_in : forall s vid r, In r (reps_of s vid) <->
  exists n, In n s /\ r_loc r = n_loc n /\ In (r_info r) (all_vols n) /\ v_id (r_info r) = vid.
Proof.
  intros s vid r. unfold reps_of. rewrite in_flat_map. split.
  - intros [n [Hn Hr]]. apply in_map_iff in Hr. destruct Hr as [v [Er Hv]]. subst r.
    apply filter_In in Hv. destruct Hv as [Hv E]. apply N.eqb_eq in E. exists n. cbn. auto.
  - intros [n [Hn [El [Hv E]]]]. exists n. split; auto. apply in_map_iff. exists (r_info r).
    split; [destruct r as [rl ri]; cbn [r_loc r_info] in *; subst; reflexivity|].
    apply filter_In. split; auto. apply N.eqb_eq; auto.
Qed.

Lemma filter_vid_le1 : forall vid l, NoDup (map v_id l) ->
  length (filter (fun v => (v_id v =? vid)%N) l) <= 1.
Proof.
  induction l as [|a l IH]; intros Hnd; cbn [filter length]; auto.
  cbn [map] in Hnd. inversion Hnd as [|? ? Hn Hd]; subst.
  destruct (N.eqb_spec (v_id a) vid) as [E|E]; [|auto].
  assert (filter (fun v => (v_id v =? vid)%N) l = []) as ->; [|cbn [length]; lia].
  destruct (filter (fun v => (v_id v =? vid)%N) l) as [|x r] eqn:Ef; auto.
  exfalso. assert (In x (filter (fun v => (v_id v =? vid)%N) l)) as Hx by (rewrite Ef; left; auto).
  apply filter_In in Hx. destruct Hx as [Hx Ex]. apply N.eqb_eq in Ex.
  apply Hn. rewrite E, <- Ex. apply in_map; auto.
Qed.

Lemma init_NodesOk : forall s, wf_snap s -> NodesOk (init_world s).
Proof.
  intros s [Hnd Hv] vid. cbn [init_world w_reps].
  induction s as [|n s IH]; [constructor|].
  cbn [map] in Hnd. inversion Hnd as [|? ? Hn Hd]; subst.
  unfold reps_of. cbn [flat_map]. fold (reps_of s vid).
  unfold locs. rewrite !map_app, !map_map. cbn [r_loc].
  assert (forall x, In x (map (fun r => l_node (r_loc r)) (reps_of s vid)) -> In x (map n_id s)) as Hsub.
  { intros x Hx. apply in_map_iff in Hx. destruct Hx as [r [<- Hr]]. apply reps_of_in in Hr.
    destruct Hr as [m [Hm [El _]]]. rewrite El. apply in_map_iff. exists m; auto. }
  assert (NoDup (map (fun r => l_node (r_loc r)) (reps_of s vid))) as Hrest.
  { assert (NoDup (map l_node (locs (reps_of s vid)))) as H0
      by (apply IH; [exact Hd|intros; apply Hv; right; auto]).
    unfold locs in H0. rewrite map_map in H0. exact H0. }
  pose proof (filter_vid_le1 vid (all_vols n) (Hv n (or_introl eq_refl))) as Hle.
  destruct (filter (fun v => (v_id v =? vid)%N) (all_vols n)) as [|x [|y r]].
  - cbn [map app]. exact Hrest.
  - cbn [map app]. constructor; [|exact Hrest]. intro Hi. apply Hn. apply Hsub. exact Hi.
  - exfalso. cbn [length] in Hle. lia.
Qed.

Lemma init_WInv : forall s, WInv s (init_world s).
Proof.
  intros s vid r Hr. cbn [init_world w_reps] in Hr. apply reps_of_in in Hr.
  destruct Hr as [n [Hn [El _]]]. rewrite El. unfold cl. apply in_map; auto.
Qed.

Lemma in_all_vids : forall s n v, In n s -> In v (all_vols n) -> In (v_id v) (all_vids s).
Proof.
  intros s n v Hn Hv. unfold all_vids. apply nodup_In. apply in_flat_map. exists n. split; auto.
  apply in_map; auto.
Qed.

Lemma init_rest : forall s n v, In n s -> In v (all_vols n) ->
  In {| r_loc := n_loc n; r_info := v |} (w_reps (init_world s) (v_id v)).
Proof.
  intros s n v Hn Hv. cbn [init_world w_reps]. apply reps_of_in. exists n. cbn [r_loc r_info]. auto.
Qed.

(* ---------- between the phases ---------- *)
Record GInv (s : snapshot) (done : vol -> bool) (w : world) : Prop := {
  g_w : WInv s w; g_n : NodesOk w;
  g_rest : forall n v, In n s -> In v (all_vols n) -> done v = false ->
           In {| r_loc := n_loc n; r_info := v |} (w_reps w (v_id v)) }.

Lemma init_GInv : forall s, wf_snap s ->
  GInv s (fun _ => false) (init_world s).
Proof.
  intros s Hwf. constructor.
  - apply init_WInv. - apply init_NodesOk; auto.
  - intros. apply init_rest; auto.
Qed.

Lemma phase_start_BInv : forall limit s done ph w, wf_snap s -> GInv s done w ->
  (forall v, selects limit ph v = true -> done v = false) ->
  BInv s (fun v => done v || selects limit ph v) {| b_sel := init_sel limit s ph; b_w := w |}.
Proof.
  intros limit s done ph w [Hnd Hvids] [HW HN Hrest] Hdis.
  constructor; cbn [b_sel b_w]; auto.
  - intros n v Hv. unfold init_sel in Hv. unfold loc_of.
    destruct (find_node s n) as [nd|] eqn:E; [|destruct Hv].
    apply find_node_some in E. destruct E as [Hnd' _]. apply filter_In in Hv. destruct Hv as [Hv Hs].
    apply Hrest; auto.
  - intros n. unfold init_sel. destruct (find_node s n) as [nd|] eqn:E; [|constructor].
    apply find_node_some in E. apply NoDup_map_filter. apply Hvids. apply E.
  - intros n v Hv. unfold init_sel in Hv. destruct (find_node s n); [|destruct Hv].
    apply filter_In in Hv. destruct Hv as [_ Hs]. rewrite Hs. apply orb_true_r.
  - intros n v Hv. unfold init_sel in Hv. destruct (find_node s n) as [nd|] eqn:E; [|destruct Hv].
    apply find_node_some in E. apply filter_In in Hv. exists nd. tauto.
  - intros n v Hn Hv HP. apply orb_false_iff in HP. apply Hrest; tauto.
Qed.

Lemma mk_bctx_ctxok : forall limit s ph, CtxOk s (mk_bctx limit s ph).
Proof.
  intros limit s ph nc H. apply mk_bctx_nodes in H. destruct H as [n [Hn [-> _]]]. cbn [fst].
  unfold cl. apply in_map; auto.
Qed.

Fixpoint PhasesDisjoint (limit : N) (done : vol -> bool) (phs : list phase) : Prop :=
  match phs with
  | [] => True
  | ph :: r => (forall v, selects limit ph v = true -> done v = false) /\
               PhasesDisjoint limit (fun v => done v || selects limit ph v) r
  end.

Theorem balance_run_safe : forall limit s phs done w tr w',
  wf_snap s -> GInv s done w -> PhasesDisjoint limit done phs ->
  balance_phases limit s phs w tr = Some w' ->
  ok_coloc (prop_trace s w tr) = true /\
  (trig_rp_xy s = false -> ok_pres (prop_trace s w tr) = true).
Proof.
  intros limit s phs. induction phs as [|ph phs IH]; intros done w tr w' Hwf HG Hdis H.
  - cbn [balance_phases] in H. destruct tr; [|discriminate]. split; auto.
  - cbn [balance_phases] in H. destruct Hdis as [Hd1 Hd2].
    destruct (balance_phase s (mk_bctx limit s ph) {| b_sel := init_sel limit s ph; b_w := w |} tr)
      as [[st tr']|] eqn:E; [|discriminate].
    pose proof (phase_start_BInv limit s done ph w Hwf HG Hd1) as HB.
    destruct (balance_phase_safe s _ _ tr _ st tr' (proj1 Hwf) (mk_bctx_ctxok limit s ph) HB E)
      as [used [Eu [HB' [Hw [Hc Hp]]]]].
    cbn [b_w] in *.
    assert (GInv s (fun v => done v || selects limit ph v) (b_w st)) as HG'.
    { destruct HB'. constructor; auto. }
    destruct (IH _ _ _ _ Hwf HG' Hd2 H) as [Hc2 Hp2].
    subst tr. rewrite prop_trace_app. unfold v4_and. cbn [ok_coloc ok_pres]. rewrite <- Hw. split.
    + rewrite Hc, Hc2. reflexivity.
    + intros Htr. rewrite (Hp Htr), (Hp2 Htr). reflexivity.
Qed.

(* ---------- a decidable sufficient condition for PhasesDisjoint ---------- *)
Definition compatible (a b : phase) : bool :=
  (match ph_coll a, ph_coll b with Some x, Some y => (x =? y)%N | _, _ => true end) &&
  (ph_dt a =? ph_dt b)%N && Bool.eqb (ph_ro a) (ph_ro b).

Fixpoint phases_ok (phs : list phase) : bool :=
  match phs with
  | [] => true
  | ph :: r => forallb (fun q => negb (compatible ph q)) r && phases_ok r
  end.

Lemma selects_compatible : forall limit a b v,
  selects limit a v = true -> selects limit b v = true -> compatible a b = true.
Proof.
  intros limit a b v Ha Hb. unfold selects, compatible in *.
  apply andb_true_iff in Ha. destruct Ha as [Ha Ha3]. apply andb_true_iff in Ha. destruct Ha as [Ha1 Ha2].
  apply andb_true_iff in Hb. destruct Hb as [Hb Hb3]. apply andb_true_iff in Hb. destruct Hb as [Hb1 Hb2].
  apply N.eqb_eq in Ha2. apply N.eqb_eq in Hb2.
  apply andb_true_iff. split; [apply andb_true_iff; split|].
  - destruct (ph_coll a), (ph_coll b); auto. apply N.eqb_eq in Ha1. apply N.eqb_eq in Hb1.
    apply N.eqb_eq. congruence.
  - apply N.eqb_eq. congruence.
  - destruct (ph_ro a), (ph_ro b); auto; cbn [Bool.eqb].
    + apply andb_true_iff in Hb3. destruct Hb3 as [Hr Hs]. apply negb_true_iff in Hr. rewrite Hr in Ha3.
      cbn [orb] in Ha3. apply N.leb_le in Ha3. apply N.ltb_lt in Hs. lia.
    + apply andb_true_iff in Ha3. destruct Ha3 as [Hr Hs]. apply negb_true_iff in Hr. rewrite Hr in Hb3.
      cbn [orb] in Hb3. apply N.leb_le in Hb3. apply N.ltb_lt in Hs. lia.
Qed.

Lemma phases_ok_disjoint : forall limit phs (D : list phase) done,
  (forall v, done v = true -> exists q, In q D /\ selects limit q v = true) ->
  (forall q ph, In q D -> In ph phs -> compatible q ph = false) ->
  phases_ok phs = true -> PhasesDisjoint limit done phs.
Proof.
  intros limit phs. induction phs as [|ph r IH]; intros D done Hdone Hinc Hok; cbn [PhasesDisjoint]; auto.
  cbn [phases_ok] in Hok. apply andb_true_iff in Hok. destruct Hok as [Hf Hok]. rewrite forallb_forall in Hf.
  split.
  - intros v Hs. destruct (done v) eqn:Ed; auto. exfalso.
    destruct (Hdone v Ed) as [q [Hq Hqs]].
    pose proof (selects_compatible limit q ph v Hqs Hs) as Hc.
    rewrite (Hinc q ph Hq (or_introl eq_refl)) in Hc. discriminate.
  - apply (IH (ph :: D)); auto.
    + intros v Hv. apply orb_true_iff in Hv. destruct Hv as [Hv|Hv].
      * destruct (Hdone v Hv) as [q [Hq Hqs]]. exists q. split; [right; auto|auto].
      * exists ph. split; [left; auto|auto].
    + intros q p [<-|Hq] Hp.
      * apply negb_true_iff. apply Hf; auto.
      * apply Hinc; auto. right; auto.
Qed.

Theorem balance_accepts_safe : forall limit s colls dts tr w',
  wf_snap s -> phases_ok (phases_of colls dts) = true ->
  balance_accepts limit s colls dts tr = Some w' ->
  ok_coloc (prop_trace s (init_world s) tr) = true /\
  (trig_rp_xy s = false -> ok_pres (prop_trace s (init_world s) tr) = true).
Proof.
  intros limit s colls dts tr w' Hwf Hok H. unfold balance_accepts in H.
  eapply balance_run_safe; eauto.
  - apply init_GInv; auto.
  - apply (phases_ok_disjoint limit _ []); auto.
    + intros v Hv. discriminate.
    + intros q ph [].
Qed.
