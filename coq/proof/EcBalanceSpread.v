(* Rack spread of the ec.balance model (C16): a move to another rack never leaves
   more than ceil(14/#racks) shards of the volume on the destination rack. *)
From Coq Require Import List NArith ZArith Bool Lia Arith.
From SW Require Import model.EcBalance proof.EcBalanceBase proof.EcBalanceInv.
Import ListNotations.
Local Open Scope N_scope.
Local Open Scope Z_scope.

(* ---------- exact popcount change ---------- *)
Definition andq (f : N -> bool) (i : N) : N -> bool := fun j => f j && negb (N.eqb i j).
Lemma filter_remove_exact : forall (f : N -> bool) i l, NoDup l ->
  (In i l -> f i = true -> length (filter (andq f i) l) + 1 = length (filter f l))%nat /\
  (~ In i l -> length (filter (andq f i) l) = length (filter f l)).
Proof.
  intros f i l. unfold andq. induction l as [|x l IH]; intros Hnd; simpl.
  - split; [intros []|auto].
  - inv Hnd. destruct (IH H2) as [A B]. destruct (N.eqb_spec i x) as [E|E].
    + subst x. rewrite andb_false_r. split.
      * intros _ Hf. rewrite Hf. simpl. rewrite (B H1). lia.
      * intros X. exfalso. apply X. left. reflexivity.
    + rewrite andb_true_r. split.
      * intros [X|X] Hf; [congruence|]. specialize (A X Hf). destruct (f x); simpl; lia.
      * intros X. assert (Y : ~ In i l) by tauto. specialize (B Y). destruct (f x); simpl; lia.
Qed.

Lemma shard_in_bit_range : forall s, In s shard_range -> In s bit_range.
Proof. intros s H. unfold shard_range, bit_range in *. simpl in *. intuition. Qed.

Lemma count_remove_exact : forall b s, has b s = true -> In s bit_range -> count (remove_id b s) = count b - 1.
Proof.
  intros b s Hh Hin. unfold count.
  rewrite (filter_ext_len (has (remove_id b s)) (andq (has b) s)) by (intros; apply has_remove_id).
  destruct (filter_remove_exact (has b) s bit_range bit_range_NoDup) as [A _].
  specialize (A Hin Hh). lia.
Qed.

(* ---------- shards of volume v on rack r ---------- *)
Fixpoint rsum (ns : list node) (r v : N) : Z :=
  match ns with
  | [] => 0
  | n :: ns' => (if N.eqb (n_rack n) r then count (find n v) else 0) + rsum ns' r v
  end.

Lemma rack_vid_count_rsum : forall ns r v, rack_vid_count ns r v = rsum ns r v.
Proof.
  intros ns r v. unfold rack_vid_count.
  assert (G : forall l a, fold_left (fun acc n => if N.eqb (n_rack n) r then acc + count (find n v) else acc) l a = a + rsum l r v).
  { induction l as [|n l IH]; intros a; simpl; [lia|]. rewrite IH. destruct (N.eqb (n_rack n) r); lia. }
  rewrite G. lia.
Qed.

Lemma rsum_nonneg : forall ns r v, 0 <= rsum ns r v.
Proof.
  induction ns as [|n ns IH]; intros r v; simpl; [lia|].
  specialize (IH r v). pose proof (count_nonneg (find n v)). destruct (N.eqb (n_rack n) r); lia.
Qed.

Lemma rsum_upd : forall ns id f n r v, keeps_id_rack f -> wf_ids ns -> get_node ns id = Some n ->
  rsum (upd_node ns id f) r v =
  rsum ns r v + (if N.eqb (n_rack n) r then count (find (f n) v) - count (find n v) else 0).
Proof.
  induction ns as [|x ns IH]; intros id f n r v Hk Hwf G; simpl in *; [discriminate|].
  inv Hwf. destruct (N.eqb_spec (n_id x) id) as [E|E].
  - inv G. rewrite notin_upd by auto. destruct (Hk n) as [_ Hr]. rewrite Hr.
    destruct (N.eqb (n_rack n) r); lia.
  - rewrite (IH id f n r v Hk H2 G). lia.
Qed.

Lemma node_rack_get : forall ns id n, get_node ns id = Some n -> node_rack ns id = n_rack n.
Proof. intros. unfold node_rack. rewrite H. reflexivity. Qed.
Lemma node_bits_get : forall ns id n v, get_node ns id = Some n -> node_bits ns id v = find n v.
Proof. intros. unfold node_bits. rewrite H. reflexivity. Qed.

Definition ind (b : bool) : Z := if b then 1 else 0.

Lemma rsum_del : forall ns id v s r, wf_ids ns ->
  rsum (upd_node ns id (del_shard v s)) r v <= rsum ns r v.
Proof.
  intros ns id v s r Hwf. destruct (get_node ns id) as [n|] eqn:G.
  - rewrite (rsum_upd ns id _ n r v (keeps_del v s) Hwf G). rewrite find_del_shard, N.eqb_refl.
    pose proof (count_remove_le (find n v) s). destruct (N.eqb (n_rack n) r); lia.
  - rewrite get_node_none_upd by auto. lia.
Qed.

Lemma rsum_del_held : forall ns id v s r, wf_ids ns -> hb ns id v s = true -> In s bit_range ->
  rsum (upd_node ns id (del_shard v s)) r v = rsum ns r v - ind (N.eqb (node_rack ns id) r).
Proof.
  intros ns id v s r Hwf Hb Hin. unfold hb in Hb. destruct (get_node ns id) as [n|] eqn:G.
  - rewrite (rsum_upd ns id _ n r v (keeps_del v s) Hwf G). rewrite find_del_shard, N.eqb_refl.
    rewrite (node_rack_get _ _ _ G). rewrite (node_bits_get _ _ _ _ G) in Hb.
    rewrite (count_remove_exact _ _ Hb Hin). unfold ind. destruct (N.eqb (n_rack n) r); lia.
  - unfold node_bits in Hb. rewrite G, has_zero in Hb. discriminate.
Qed.

Lemma rsum_add : forall ns id v c s r, wf_ids ns ->
  rsum (upd_node ns id (add_shard v c s)) r v <= rsum ns r v + ind (N.eqb (node_rack ns id) r).
Proof.
  intros ns id v c s r Hwf. destruct (get_node ns id) as [n|] eqn:G.
  - rewrite (rsum_upd ns id _ n r v (keeps_add v c s) Hwf G). rewrite find_add_shard, N.eqb_refl.
    rewrite (node_rack_get _ _ _ G). pose proof (count_add_le (find n v) s).
    unfold ind. destruct (N.eqb (n_rack n) r); lia.
  - rewrite get_node_none_upd by auto. unfold ind. destruct (N.eqb (node_rack ns id) r); lia.
Qed.

Lemma node_rack_move : forall ns src v c s dst x, node_rack (move_shard ns src v c s dst) x = node_rack ns x.
Proof. intros. unfold move_shard. rewrite !node_rack_upd; auto with c16. Qed.

Lemma rsum_move : forall ns src v c s dst r, wf_ids ns ->
  rsum (move_shard ns src v c s dst) r v <= rsum ns r v + ind (N.eqb (node_rack ns dst) r).
Proof.
  intros ns src v c s dst r Hwf. unfold move_shard.
  pose proof (rsum_add ns dst v c s r Hwf) as A.
  assert (Hwf1 : wf_ids (upd_node ns dst (add_shard v c s))) by (apply upd_wf; auto with c16).
  pose proof (rsum_del (upd_node ns dst (add_shard v c s)) src v s r Hwf1) as D. lia.
Qed.

(* ---------- Go int maps ---------- *)
Lemma alookup_aadd : forall l k d k', alookup (aadd l k d) k' = alookup l k' + (if N.eqb k k' then d else 0).
Proof.
  induction l as [|[k0 x] l IH]; intros k d k'; simpl.
  - destruct (N.eqb k k'); lia.
  - destruct (N.eqb_spec k0 k) as [E|E]; simpl.
    + subst. destruct (N.eqb k k'); lia.
    + destruct (N.eqb_spec k0 k') as [E2|E2].
      * subst. destruct (N.eqb_spec k k'); [congruence|lia].
      * apply IH.
Qed.

(* ---------- rackToShardCount is the real per-rack count ---------- *)
Fixpoint lsum (ns : list node) (locs : list N) (r v : N) : Z :=
  match locs with
  | [] => 0
  | id :: l => (if N.eqb (node_rack ns id) r then count (node_bits ns id v) else 0) + lsum ns l r v
  end.
Lemma lsum_app : forall ns a b r v, lsum ns (a ++ b) r v = lsum ns a r v + lsum ns b r v.
Proof. induction a as [|x a IH]; intros; simpl; [lia|]. rewrite IH. lia. Qed.

Lemma group_count_lsum : forall ns locs v r, alookup (group_count ns locs v) r = lsum ns locs r v.
Proof.
  intros ns locs v r. unfold group_count.
  assert (G : forall l acc,
    alookup (fold_left (fun acc id => aadd acc (node_rack ns id) (count (node_bits ns id v))) l acc) r =
    alookup acc r + lsum ns l r v).
  { induction l as [|id l IH]; intros acc; simpl; [lia|]. rewrite IH, alookup_aadd. lia. }
  rewrite G. simpl. lia.
Qed.

Lemma get_node_self : forall ns n, wf_ids ns -> In n ns -> get_node ns (n_id n) = Some n.
Proof.
  induction ns as [|x ns IH]; intros n Hwf Hin; simpl in *; [destruct Hin|].
  inv Hwf. destruct Hin as [E|Hin].
  - subst. rewrite N.eqb_refl. reflexivity.
  - destruct (N.eqb_spec (n_id x) (n_id n)) as [E|E].
    + exfalso. apply H1. rewrite E. apply in_map. exact Hin.
    + apply IH; auto.
Qed.

Lemma filter_vid_cases : forall es v, NoDup (map e_vid es) ->
  (filter (fun e => N.eqb (e_vid e) v) es = [] /\ find_bits es v = 0%N) \/
  (exists e, filter (fun e => N.eqb (e_vid e) v) es = [e]).
Proof.
  induction es as [|e es IH]; intros v Hnd; simpl.
  - left. auto.
  - inv Hnd. destruct (N.eqb_spec (e_vid e) v) as [E|E].
    + right. exists e. f_equal.
      assert (X : forall l, ~ In v (map e_vid l) -> filter (fun e0 => N.eqb (e_vid e0) v) l = []).
      { induction l as [|y l IHl]; intros Hn; simpl in *; auto.
        destruct (N.eqb_spec (e_vid y) v); [exfalso; apply Hn; auto|]. apply IHl. tauto. }
      apply X. rewrite <- E. exact H1.
    + apply IH. exact H2.
Qed.

Lemma locations_lsum : forall ns v r, wf ns -> lsum ns (locations ns v) r v = rsum ns r v.
Proof.
  intros ns v r [Hi He].
  assert (G : forall l, (forall n, In n l -> In n ns) -> lsum ns (locations l v) r v = rsum l r v).
  { induction l as [|n l IH]; intros Hsub; simpl; [reflexivity|].
    unfold locations in *. simpl. rewrite lsum_app. rewrite IH by (intros; apply Hsub; right; auto).
    f_equal.
    assert (Hn : In n ns) by (apply Hsub; left; reflexivity).
    unfold wf_entries in He. rewrite Forall_forall in He. specialize (He n Hn).
    pose proof (get_node_self ns n Hi Hn) as G.
    destruct (filter_vid_cases (entries n) v He) as [[F Z0]|[e F]]; rewrite F; simpl.
    - unfold find. rewrite Z0. destruct (N.eqb (n_rack n) r); reflexivity.
    - rewrite (node_rack_get _ _ _ G), (node_bits_get _ _ _ _ G). lia. }
  apply G. auto.
Qed.

Lemma group_count_rsum : forall ns v r, wf ns ->
  alookup (group_count ns (locations ns v) v) r = rsum ns r v.
Proof. intros. rewrite group_count_lsum. apply locations_lsum. auto. Qed.

(* ---------- picked shards waiting for a destination, per source rack ---------- *)
Fixpoint pend (p : list (N * N)) (ns : list node) (r : N) : Z :=
  match p with
  | [] => 0
  | (_, src) :: p' => ind (N.eqb (node_rack ns src) r) + pend p' ns r
  end.
Lemma pend_nonneg : forall p ns r, 0 <= pend p ns r.
Proof. induction p as [|[k x] p IH]; intros; simpl; [lia|]. specialize (IH ns r). unfold ind. destruct (N.eqb _ _); lia. Qed.
Lemma pend_pset_le : forall p k x ns r, pend (pset p k x) ns r <= pend p ns r + ind (N.eqb (node_rack ns x) r).
Proof.
  induction p as [|[k' y] p IH]; intros k x ns r; simpl.
  - lia.
  - destruct (N.eqb k' k); simpl.
    + unfold ind. destruct (N.eqb (node_rack ns y) r), (N.eqb (node_rack ns x) r); lia.
    + specialize (IH k x ns r). lia.
Qed.
Lemma pend_ptake : forall p k x p' ns r, ptake p k = Some (x, p') ->
  pend p' ns r = pend p ns r - ind (N.eqb (node_rack ns x) r).
Proof.
  induction p as [|[k' y] p IH]; intros k x p' ns r H; simpl in H; [discriminate|].
  destruct (N.eqb k' k).
  - inv H. simpl. lia.
  - destruct (ptake p k) as [[x0 q]|] eqn:T; [|discriminate]. inv H. simpl.
    rewrite (IH _ _ _ ns r T). lia.
Qed.
Lemma pend_ext : forall p ns ns' r, (forall x, node_rack ns' x = node_rack ns x) -> pend p ns' r = pend p ns r.
Proof. induction p as [|[k x] p IH]; intros ns ns' r H; simpl; auto. rewrite H. f_equal. apply IH. auto. Qed.

(* ---------- the invariant of doBalanceEcShardsAcrossRacks ---------- *)
Definition SI (ns : list node) (rsc : list (N * Z)) (picked : list (N * N)) (v : N) : Prop :=
  forall r, rsum ns r v + pend picked ns r <= alookup rsc r.
Definition same_racks (ns ns' : list node) : Prop := forall x, node_rack ns' x = node_rack ns x.

Definition spread_item (i : item) : Prop :=
  match i with
  | IMove _ m => (m_kind m = KAcross -> m_dst_rack_count m <= m_limit m) /\
                 (m_kind m <> KAcross -> m_src_rack m = m_dst_rack m) /\
                 (* every guard tests freeEcSlot of the destination on the books of that moment;
                    needs neither uniqueness nor absence of drops *)
                 0 < m_dst_free m
  | _ => True
  end.
Definition spread_ok (its : list item) : Prop := Forall spread_item its.

Lemma same_racks_refl : forall ns, same_racks ns ns.
Proof. intros ns x. reflexivity. Qed.
Lemma same_racks_trans : forall a b c, same_racks a b -> same_racks b c -> same_racks a c.
Proof. intros a b c H1 H2 x. rewrite H2, H1. reflexivity. Qed.
Lemma same_racks_move : forall ns src v c s dst, same_racks ns (move_shard ns src v c s dst).
Proof. intros ns src v c s dst x. apply node_rack_move. Qed.
Lemma same_racks_del : forall ns id v s, same_racks ns (upd_node ns id (del_shard v s)).
Proof. intros ns id v s x. apply node_rack_upd. auto with c16. Qed.

Lemma shard_ids_range : forall b s, In s (shard_ids b) -> In s bit_range.
Proof. intros b s H. apply shard_in_bit_range. unfold shard_ids in H. apply filter_In in H. tauto. Qed.

Lemma pick_n_spread : forall n v cands ns picked ns' picked' rsc,
  pick_n n v cands ns picked = (ns', picked') -> wf ns -> SI ns rsc picked v ->
  wf ns' /\ SI ns' rsc picked' v /\ same_racks ns ns'.
Proof.
  induction n as [|n IH]; intros v cands ns picked ns' picked' rsc H Hwf Hsi; simpl in H.
  - inv H. split; auto. split; auto. apply same_racks_refl.
  - destruct (first_nonzero ns v cands 0) as [[[i id] b]|] eqn:F;
      [|inv H; split; auto; split; auto; apply same_racks_refl].
    destruct (shard_ids b) as [|s rest] eqn:S; [inv H; split; auto; split; auto; apply same_racks_refl|].
    assert (Hs : In s (shard_ids b)) by (rewrite S; left; reflexivity).
    assert (Hb : hb ns id v s = true).
    { unfold hb. rewrite <- (first_nonzero_spec _ _ _ _ _ _ _ F). apply shard_ids_has. exact Hs. }
    apply IH with (rsc := rsc) in H.
    + destruct H as [A [B C]]. split; auto. split; auto.
      eapply same_racks_trans; [apply same_racks_del|exact C].
    + apply wf_del; auto.
    + intros r. rewrite (pend_ext _ ns _ r (same_racks_del ns id v s)).
      pose proof (pend_pset_le picked s id ns r) as P.
      rewrite (rsum_del_held ns id v s r (proj1 Hwf) Hb (shard_ids_range _ _ Hs)).
      specialize (Hsi r). lia.
Qed.

Lemma pick_racks_spread : forall ro ns v avg rsc locs picked ns' picked',
  pick_racks ns v avg rsc locs ro picked = Some (ns', picked') -> wf ns -> SI ns rsc picked v ->
  wf ns' /\ SI ns' rsc picked' v /\ same_racks ns ns'.
Proof.
  induction ro as [|[r cands] ro IH]; intros ns v avg rsc locs picked ns' picked' H Hwf Hsi; simpl in H.
  - inv H. split; auto. split; auto. apply same_racks_refl.
  - destruct (alookup rsc r >? avg).
    + destruct (valid_cands _ _ _ _); [|discriminate].
      match type of H with context [pick_n ?a ?b ?c ?d ?e] =>
        destruct (pick_n a b c d e) as [ns1 picked1] eqn:P end.
      destruct (pick_n_spread _ _ _ _ _ _ _ rsc P Hwf Hsi) as [A [B C]].
      apply IH in H; auto. destruct H as [A' [B' C']]. split; auto. split; auto.
      eapply same_racks_trans; eauto.
    + eapply IH; eauto.
Qed.

Lemma rack_node_ids_rack : forall ns r x, wf_ids ns -> In x (rack_node_ids ns r) -> node_rack ns x = r.
Proof.
  intros ns r x Hwf H. unfold rack_node_ids in H. apply in_map_iff in H. destruct H as [n [E Hin]].
  apply filter_In in Hin. destruct Hin as [Hin Hr]. apply N.eqb_eq in Hr. subst x.
  rewrite (node_rack_get _ _ _ (get_node_self ns n Hwf Hin)). exact Hr.
Qed.

Lemma across_moves_spread : forall ms c v avg st rsc picked st' its,
  across_moves c v avg st rsc picked ms = Some (st', its) ->
  wf (nodes st) -> SI (nodes st) rsc picked v ->
  wf (nodes st') /\ spread_ok its /\ same_racks (nodes st) (nodes st').
Proof.
  induction ms as [|[s ch] ms IH]; intros c v avg st rsc picked st' its H Hwf Hsi; simpl in H.
  - destruct picked; [|discriminate]. inv H. split; auto. split; [constructor|apply same_racks_refl].
  - destruct (ptake picked s) as [[src picked']|] eqn:T; [|discriminate].
    assert (PT : forall r, pend picked' (nodes st) r = pend picked (nodes st) r - ind (N.eqb (node_rack (nodes st) src) r))
      by (intros; eapply pend_ptake; eauto).
    destruct ch as [|r d].
    + destruct (existsb (rack_ok st rsc avg) (rack_ids st)); [discriminate|].
      destruct (across_moves c v avg st rsc picked' ms) as [[st1 its1]|] eqn:R; [|discriminate]. inv H.
      apply IH in R; auto.
      * destruct R as [A [B C]]. split; auto. split; auto. constructor; simpl; auto.
      * intros r. rewrite PT. specialize (Hsi r). unfold ind. destruct (N.eqb _ r); lia.
    + destruct (mem r (rack_ids st) && rack_ok st rsc avg r) eqn:RO; [|discriminate].
      apply andb_true_iff in RO. destruct RO as [_ RO]. unfold rack_ok in RO.
      apply andb_true_iff in RO. destruct RO as [RO _]. apply Z.ltb_lt in RO.
      destruct (valid_dest (nodes st) src v avg (rack_node_ids (nodes st) r) d) eqn:V; [|discriminate].
      destruct d as [dst|].
      * match type of H with context [across_moves c v avg ?S ?R picked' ms] =>
          destruct (across_moves c v avg S R picked' ms) as [[st1 its1]|] eqn:R1; [|discriminate] end.
        inv H.
        destruct (valid_dest_some _ _ _ _ _ _ V) as [Hin [_ [Hfree _]]].
        pose proof (rack_node_ids_rack _ _ _ (proj1 Hwf) Hin) as Hr.
        assert (Hsi1 : SI (move_shard (nodes st) src v c s dst)
                          (aadd (aadd rsc r 1) (node_rack (nodes st) src) (-1)) picked' v).
        { intros r0. rewrite (pend_ext _ (nodes st) _ r0 (same_racks_move _ _ _ _ _ _)). rewrite PT.
          pose proof (rsum_move (nodes st) src v c s dst r0 (proj1 Hwf)) as M. rewrite Hr in M.
          rewrite !alookup_aadd. specialize (Hsi r0). unfold ind in *.
          destruct (N.eqb r r0), (N.eqb (node_rack (nodes st) src) r0); lia. }
        apply IH in R1; simpl; auto; [|apply wf_move; auto].
        simpl in R1. destruct R1 as [A [B C]]. split; auto. split.
        -- constructor; auto. simpl. split; [|split; [intros X; congruence|exact Hfree]].
           intros _. rewrite Hr, rack_vid_count_rsum.
           specialize (Hsi1 r). rewrite !alookup_aadd in Hsi1. rewrite N.eqb_refl in Hsi1.
           pose proof (pend_nonneg picked' (move_shard (nodes st) src v c s dst) r).
           destruct (N.eqb (node_rack (nodes st) src) r); lia.
        -- eapply same_racks_trans; [apply same_racks_move|exact C].
      * match type of H with context [across_moves c v avg ?S ?R picked' ms] =>
          destruct (across_moves c v avg S R picked' ms) as [[st1 its1]|] eqn:R1; [|discriminate] end.
        inv H.
        apply IH in R1; simpl; auto.
        -- simpl in R1. destruct R1 as [A [B C]]. split; auto. split; auto. constructor; simpl; auto.
        -- intros r0. rewrite PT. rewrite !alookup_aadd. specialize (Hsi r0). unfold ind.
           destruct (N.eqb r r0), (N.eqb (node_rack (nodes st) src) r0); lia.
Qed.

Lemma across_vid_spread : forall c st o st' its,
  across_vid c st o = Some (st', its) -> wf (nodes st) ->
  wf (nodes st') /\ spread_ok its /\ same_racks (nodes st) (nodes st').
Proof.
  intros c st o st' its H Hwf. unfold across_vid in H.
  destruct (perm_eqb _ _); [|discriminate].
  destruct (pick_racks _ _ _ _ _ _ _) as [[ns1 picked]|] eqn:P; [|discriminate].
  apply pick_racks_spread in P; auto.
  - destruct P as [A [B C]]. apply across_moves_spread in H; simpl; auto.
    simpl in H. destruct H as [A' [B' C']]. split; auto. split; auto. eapply same_racks_trans; eauto.
  - intros r. simpl. rewrite group_count_rsum by auto. lia.
Qed.

Definition sp (ns ns' : list node) (its : list item) : Prop :=
  wf ns' /\ spread_ok its /\ same_racks ns ns'.
Lemma sp_refl : forall ns, wf ns -> sp ns ns [].
Proof. intros. split; auto. split; [constructor|apply same_racks_refl]. Qed.
Lemma sp_trans : forall a b c i1 i2, sp a b i1 -> sp b c i2 -> sp a c (i1 ++ i2).
Proof.
  intros a b c i1 i2 [A1 [B1 C1]] [A2 [B2 C2]]. split; auto. split.
  - apply Forall_app. auto.
  - eapply same_racks_trans; eauto.
Qed.

Lemma across_vids_spread : forall os c st st' its,
  across_vids c st os = Some (st', its) -> wf (nodes st) -> sp (nodes st) (nodes st') its.
Proof.
  induction os as [|o os IH]; intros c st st' its H Hwf; simpl in H.
  - inv H. apply sp_refl; auto.
  - destruct (across_vid c st o) as [[st1 i1]|] eqn:A; [|discriminate].
    destruct (across_vids c st1 os) as [[st2 i2]|] eqn:B; [|discriminate]. inv H.
    pose proof (across_vid_spread _ _ _ _ _ A Hwf) as P1.
    eapply sp_trans; [exact P1|]. eapply IH; eauto. apply P1.
Qed.

Lemma within_shards_spread : forall ss c v avgn nracks ns src dests over ch ns' its ch' r,
  within_shards c v avgn nracks ns src dests ss over ch = Some (ns', its, ch') ->
  wf ns -> node_rack ns src = r -> (forall x, In x dests -> node_rack ns x = r) -> sp ns ns' its.
Proof.
  induction ss as [|s ss IH]; intros c v avgn nracks ns src dests over ch ns' its ch' r H Hwf Hs Hd; simpl in H.
  - inv H. apply sp_refl; auto.
  - destruct (over <=? 0); [inv H; apply sp_refl; auto|].
    destruct ch as [|d ch1]; [discriminate|].
    destruct (valid_dest ns src v avgn dests d) eqn:V; [|discriminate].
    destruct d as [dst|].
    + destruct (within_shards c v avgn nracks (move_shard ns src v c s dst) src dests ss (over - 1) ch1)
        as [[[ns2 its2] ch2]|] eqn:R; [|discriminate]. inv H.
      destruct (valid_dest_some _ _ _ _ _ _ V) as [Hin [_ [Hfree _]]].
      apply IH with (r := node_rack ns src) in R.
      * match goal with |- sp _ _ (?a :: ?b :: its2) => change (a :: b :: its2) with ([a; b] ++ its2) end.
        eapply sp_trans; [|exact R]. split; [apply wf_move; auto|]. split; [|apply same_racks_move].
        constructor; [simpl; auto|]. constructor; [|constructor]. simpl. split; [intros X; discriminate|].
        split; [|exact Hfree]. intros _. rewrite (Hd _ Hin). reflexivity.
      * apply wf_move; auto.
      * apply node_rack_move.
      * intros x Hx. rewrite node_rack_move. apply Hd. exact Hx.
    + destruct (within_shards c v avgn nracks ns src dests ss (over - 1) ch1)
        as [[[ns2 its2] ch2]|] eqn:R; [|discriminate]. inv H.
      apply IH with (r := node_rack ns src) in R; auto.
      match goal with |- sp _ _ (?a :: its2) => change (a :: its2) with ([a] ++ its2) end.
      eapply sp_trans; [|exact R]. split; auto. split; [|apply same_racks_refl]. constructor; [simpl; auto|constructor].
Qed.

Lemma within_sources_spread : forall srcs c v avgn nracks ns dests ch ns' its ch' r,
  within_sources c v avgn nracks ns srcs dests ch = Some (ns', its, ch') ->
  wf ns -> (forall x, In x srcs -> node_rack ns x = r) -> (forall x, In x dests -> node_rack ns x = r) ->
  sp ns ns' its.
Proof.
  induction srcs as [|src srcs IH]; intros c v avgn nracks ns dests ch ns' its ch' r H Hwf Hs Hd; simpl in H.
  - inv H. apply sp_refl; auto.
  - match type of H with context [within_shards ?a ?b ?c0 ?d ?e ?f ?g ?h ?i ?j] =>
      destruct (within_shards a b c0 d e f g h i j) as [[[ns1 i1] ch1]|] eqn:A; [|discriminate] end.
    destruct (within_sources c v avgn nracks ns1 srcs dests ch1) as [[[ns2 i2] ch2]|] eqn:B; [|discriminate].
    inv H.
    apply within_shards_spread with (r := r) in A; auto; [|apply Hs; left; reflexivity].
    eapply sp_trans; [exact A|]. destruct A as [W [_ SR]].
    eapply IH with (r := r); eauto.
    + intros x Hx. rewrite SR. apply Hs. right. exact Hx.
    + intros x Hx. rewrite SR. apply Hd. exact Hx.
Qed.

Lemma within_racks_spread : forall ros c v nracks rsc locs ns ns' its,
  within_racks c v nracks rsc locs ns ros = Some (ns', its) -> wf ns -> sp ns ns' its.
Proof.
  induction ros as [|ro ros IH]; intros c v nracks rsc locs ns ns' its H Hwf; simpl in H.
  - inv H. apply sp_refl; auto.
  - match type of H with context [within_sources ?a ?b ?c0 ?d ?e ?f ?g ?h] =>
      destruct (within_sources a b c0 d e f g h) as [[[ns1 i1] ch1]|] eqn:A; [|discriminate] end.
    destruct ch1; [|discriminate].
    destruct (within_racks c v nracks rsc locs ns1 ros) as [[ns2 i2]|] eqn:B; [|discriminate]. inv H.
    apply within_sources_spread with (r := wr_rack ro) in A; auto.
    + eapply sp_trans; [exact A|]. eapply IH; eauto. apply A.
    + intros x Hx. apply filter_In in Hx. destruct Hx as [_ Hx]. apply N.eqb_eq in Hx. exact Hx.
    + intros x Hx. apply filter_In in Hx. destruct Hx as [Hx _]. apply rack_node_ids_rack; auto. apply Hwf.
Qed.

Lemma within_vids_spread : forall os c nracks ns ns' its,
  within_vids c nracks ns os = Some (ns', its) -> wf ns -> sp ns ns' its.
Proof.
  induction os as [|o os IH]; intros c nracks ns ns' its H Hwf; simpl in H.
  - inv H. apply sp_refl; auto.
  - destruct (within_vid c nracks ns o) as [[ns1 i1]|] eqn:A; [|discriminate].
    destruct (within_vids c nracks ns1 os) as [[ns2 i2]|] eqn:B; [|discriminate]. inv H.
    unfold within_vid in A. destruct (perm_eqb _ _); [|discriminate].
    apply within_racks_spread in A; auto.
    eapply sp_trans; [exact A|]. eapply IH; eauto. apply A.
Qed.

Lemma rack_loop_spread : forall steps nracks ns ids cnts avg ns' its r,
  rack_loop nracks ns ids cnts avg steps = Some (ns', its) ->
  wf ns -> (forall x, In x ids -> node_rack ns x = r) -> sp ns ns' its.
Proof.
  induction steps as [|[e f] rest IH]; intros nracks ns ids cnts avg ns' its r H Hwf Hr; simpl in H; [discriminate|].
  destruct (valid_ends ns ids e f) eqn:V; [|discriminate].
  destruct (valid_ends_spec _ _ _ _ V) as [He [Hf Hne]].
  assert (Stop : match rest with [] => Some (ns, []) | _ :: _ => None end = Some (ns', its) -> sp ns ns' its).
  { intros X. destruct rest; [|discriminate]. inv X. apply sp_refl; auto. }
  destruct ((alookup cnts f >? avg) && (alookup cnts e + 1 <=? avg) && (0 <? node_free ns e)) eqn:Cond; [|auto].
  apply andb_true_iff in Cond. destruct Cond as [_ Hfree]. apply Z.ltb_lt in Hfree.
  destruct (first_foreign (node_entries ns f) (map e_vid (node_entries ns e))) as [en|] eqn:FF; [|auto].
  destruct (shard_ids (e_bits en)) as [|s ss] eqn:S; [auto|].
  match type of H with context [rack_loop nracks ?a ids ?b avg rest] =>
    destruct (rack_loop nracks a ids b avg rest) as [[ns2 its2]|] eqn:R; [|discriminate] end.
  inv H.
  apply IH with (r := r) in R.
  - match goal with |- sp _ _ (?i :: its2) => change (i :: its2) with ([i] ++ its2) end.
    eapply sp_trans; [|exact R]. split; [apply wf_move; auto|]. split; [|apply same_racks_move].
    constructor; [|constructor]. simpl. split; [intros X; discriminate|]. split; [|exact Hfree]. intros _.
    rewrite (Hr _ He), (Hr _ Hf). reflexivity.
  - apply wf_move; auto.
  - intros x Hx. rewrite node_rack_move. apply Hr. exact Hx.
Qed.

Lemma balance_racks_list_spread : forall os nracks ns ns' its,
  balance_racks_list nracks ns os = Some (ns', its) -> wf ns -> sp ns ns' its.
Proof.
  induction os as [|o os IH]; intros nracks ns ns' its H Hwf; simpl in H.
  - inv H. apply sp_refl; auto.
  - destruct (balance_rack nracks ns o) as [[ns1 i1]|] eqn:A; [|discriminate].
    destruct (balance_racks_list nracks ns1 os) as [[ns2 i2]|] eqn:B; [|discriminate]. inv H.
    assert (P1 : sp ns ns1 i1).
    { unfold balance_rack in A. destruct (length (rack_node_ids ns (rb_rack o)) <=? 1)%nat.
      - destruct (rb_steps o); [|discriminate]. inv A. apply sp_refl; auto.
      - eapply rack_loop_spread with (r := rb_rack o); eauto.
        intros x Hx. apply rack_node_ids_rack; auto. apply Hwf. }
    eapply sp_trans; [exact P1|]. eapply IH; eauto. apply P1.
Qed.

(* dedup (dry run) prints only *)
Lemma dedup_shards_spread : forall ss ns locs v keeps ns' its,
  dedup_shards false ns locs v ss keeps = Some (ns', its) -> spread_ok its.
Proof.
  induction ss as [|s ss IH]; intros ns locs v keeps ns' its H; simpl in H.
  - destruct keeps; [|discriminate]. inv H. constructor.
  - destruct (length (holders ns locs v s) <=? 1)%nat; [eapply IH; eauto|].
    destruct keeps as [|k keeps]; [discriminate|].
    destruct (mem k (holders ns locs v s) && _); [|discriminate].
    destruct (dedup_shards false ns locs v ss keeps) as [[ns2 its2]|] eqn:R; [|discriminate]. inv H.
    constructor; [simpl; auto|]. eapply IH; eauto.
Qed.
Lemma dedup_vids_spread : forall os ns ns' its,
  dedup_vids false ns os = Some (ns', its) -> spread_ok its.
Proof.
  induction os as [|o os IH]; intros ns ns' its H; cbn [dedup_vids] in H.
  - inv H. constructor.
  - destruct (dedup_shards false ns _ _ _ _) as [[ns1 i1]|] eqn:A; [|discriminate].
    destruct (dedup_vids false ns1 os) as [[ns2 i2]|] eqn:B; [|discriminate]. inv H.
    apply Forall_app. split; [eapply dedup_shards_spread; eauto|eapply IH; eauto].
Qed.

Lemma round_spread : forall st o st' its,
  round false st o = Some (st', its) -> wf (nodes st) -> sp (nodes st) (nodes st') its.
Proof.
  intros st o st' its H Hwf. unfold round in H.
  destruct (dedup_phase false st (ro_dedup o)) as [[st1 i1]|] eqn:A; [|discriminate].
  destruct (across_phase (ro_coll o) st1 (ro_across o)) as [[st2 i2]|] eqn:B; [|discriminate].
  destruct (within_phase (ro_coll o) st2 (ro_within o)) as [[st3 i3]|] eqn:C; [|discriminate]. inv H.
  pose proof (dedup_phase_dry _ _ _ _ A) as [E _]. subst st1.
  assert (S1 : spread_ok i1).
  { unfold dedup_phase in A. destruct (perm_eqb _ _); [|discriminate].
    destruct (dedup_vids false (nodes st) (ro_dedup o)) as [[ns its0]|] eqn:D; [|discriminate]. inv A.
    eapply dedup_vids_spread; eauto. }
  unfold across_phase in B. destruct (perm_eqb _ _); [|discriminate].
  apply across_vids_spread in B; auto.
  unfold within_phase in C. destruct (perm_eqb _ _); [|discriminate].
  destruct (within_vids _ _ _ _) as [[ns3 its3]|] eqn:D; [|discriminate]. inv C. simpl.
  apply within_vids_spread in D; [|apply B].
  match goal with |- sp _ _ (?a :: i1 ++ ?rest) => change (a :: i1 ++ rest) with ((a :: i1) ++ rest) end.
  eapply sp_trans with (b := nodes st).
  - split; auto. split; [constructor; simpl; auto|apply same_racks_refl].
  - eapply sp_trans; eauto.
Qed.

Lemma rounds_spread : forall os st st' its,
  rounds false st os = Some (st', its) -> wf (nodes st) -> sp (nodes st) (nodes st') its.
Proof.
  induction os as [|o os IH]; intros st st' its H Hwf; simpl in H.
  - inv H. apply sp_refl; auto.
  - destruct (round false st o) as [[st1 i1]|] eqn:A; [|discriminate].
    destruct (rounds false st1 os) as [[st2 i2]|] eqn:B; [|discriminate]. inv H.
    pose proof (round_spread _ _ _ _ A Hwf) as P1.
    eapply sp_trans; [exact P1|]. eapply IH; eauto. apply P1.
Qed.

Theorem run_plan_spread : forall st o st' its,
  run_plan false st o = Some (st', its) -> wf (nodes st) -> sp (nodes st) (nodes st') its.
Proof.
  intros st o st' its H Hwf. unfold run_plan in H.
  destruct (rounds false st (po_rounds o)) as [[st1 i1]|] eqn:A; [|discriminate].
  pose proof (rounds_spread _ _ _ _ A Hwf) as P1.
  destruct (po_racks o) as [rbs|].
  - destruct (balance_racks st1 rbs) as [[st2 i2]|] eqn:B; [|discriminate]. inv H.
    eapply sp_trans; [exact P1|]. unfold balance_racks in B. destruct (perm_eqb _ _); [|discriminate].
    destruct (balance_racks_list _ _ _) as [[ns its0]|] eqn:C; [|discriminate]. inv B. simpl.
    eapply balance_racks_list_spread; eauto. apply P1.
  - inv H. exact P1.
Qed.
