(* The operations of model/HardLink.v, layer by layer: what each does to the link-record
   invariant [InvG] and which names it leaves alone. *)
From Coq Require Import List NArith ZArith Bool String Arith Lia Permutation.
From SW Require Import model.FilerNS proof.FilerNSBase model.Chunks model.HardLink
  proof.HardLinkBase proof.HardLinkInv.
Import ListNotations.
Local Open Scope list_scope.

(* ================= where the names change ================= *)
Lemma huhl_names : forall s p e, names (handle_update_to_hard_links s p e) = names s.
Proof.
  intros. unfold handle_update_to_hard_links. cbv zeta.
  set (s1 := if (h_hl e =? 0)%N then s else kv_put s (h_hl e) e).
  assert (H1 : names s1 = names s) by (unfold s1; destruct (h_hl e =? 0)%N; reflexivity).
  destruct (nfind s1 p) as [ex|]; [|exact H1].
  destruct (negb (h_hl ex =? 0)%N && negb (h_hl ex =? h_hl e)%N); [|exact H1].
  now rewrite dhl_names.
Qed.

Lemma w_insert_nfind : forall s p e q,
  nfind (w_insert s p e) q = if HardLink.path_eqb p q then Some e else nfind s q.
Proof.
  intros. unfold w_insert. rewrite nfind_raw_put. destruct (HardLink.path_eqb p q); [reflexivity|].
  unfold nfind. now rewrite huhl_names.
Qed.

Lemma w_delete_one_nfind : forall s p x q,
  nfind (w_delete_one s p x) q = if HardLink.path_eqb p q then None else nfind s q.
Proof.
  intros. unfold w_delete_one. rewrite nfind_raw_del. destruct (HardLink.path_eqb p q); [reflexivity|].
  destruct (h_hl x =? 0)%N; [reflexivity|apply dhl_nfind].
Qed.

Lemma dfc_nfind : forall s d q,
  nfind (w_delete_folder_children s d) q = if HardLink.is_child_of d q then None else nfind s q.
Proof.
  intros. unfold nfind, w_delete_folder_children. simpl.
  rewrite (aget_filter_key _ peqb_spec (fun k => negb (HardLink.is_child_of d k))).
  now destruct (HardLink.is_child_of d q).
Qed.

Lemma dhl_fold_nfind : forall ids s q, nfind (fold_left delete_hard_link ids s) q = nfind s q.
Proof. intros. unfold nfind. now rewrite dhl_fold_names. Qed.

(* names that exist before and are not in [ps] keep their blob *)
Definition Keeps (P : path -> Prop) (s s' : st) : Prop :=
  forall q e0, nfind s q = Some e0 -> ~ P q -> nfind s' q = Some e0.

Lemma Keeps_refl : forall P s, Keeps P s s.
Proof. intros P s q e0 H _. exact H. Qed.

Lemma Keeps_trans : forall (P : path -> Prop) s1 s2 s3, Keeps P s1 s2 -> Keeps P s2 s3 -> Keeps P s1 s3.
Proof. intros P s1 s2 s3 A B q e0 H Hn. apply B; auto. Qed.

Lemma Keeps_weaken : forall (P Q : path -> Prop) s s', (forall q, P q -> Q q) -> Keeps P s s' -> Keeps Q s s'.
Proof. intros P Q s s' H K q e0 Hq Hn. apply K; auto. Qed.

Lemma find_entry_nonroot : forall ev s p, p <> [] -> find_entry ev s p = w_find s p.
Proof. intros. destruct p; [congruence|reflexivity]. Qed.

Lemma w_find_None : forall s p, w_find s p = None <-> nfind s p = None.
Proof. intros. unfold w_find. destruct (nfind s p); split; congruence. Qed.

Lemma w_find_Some : forall s p e, w_find s p = Some e -> exists ex, nfind s p = Some ex /\ e = view s ex.
Proof. intros. unfold w_find in H. destruct (nfind s p) as [ex|]; [|discriminate]. inversion H. eauto. Qed.

(* ================= Filer.UpdateEntry / ensureParent / CreateEntry ================= *)
Lemma set_crtime_fields : forall e t,
  h_hl (set_crtime e t) = h_hl e /\ h_cnt (set_crtime e t) = h_cnt e /\ h_dir (set_crtime e t) = h_dir e /\
  h_chunks (set_crtime e t) = h_chunks e /\ h_mtime (set_crtime e t) = h_mtime e.
Proof. intros. repeat split. Qed.

Lemma set_chunks_fields : forall e cs,
  h_hl (set_chunks e cs) = h_hl e /\ h_cnt (set_chunks e cs) = h_cnt e /\ h_dir (set_chunks e cs) = h_dir e /\
  h_mtime (set_chunks e cs) = h_mtime e /\ h_crtime (set_chunks e cs) = h_crtime e.
Proof. intros. repeat split. Qed.

Lemma filer_update_cases : forall s p old e s' r, filer_update s p old e = (s', r) ->
  (s' = s /\ r <> OK) \/ (s' = w_insert s p (set_crtime e (h_crtime old)) /\ r = OK).
Proof.
  intros s p old e s' r H. unfold filer_update in H.
  destruct (h_dir old && negb (h_dir e)); [inversion H; left; split; congruence|].
  destruct (negb (h_dir old) && h_dir e); [inversion H; left; split; congruence|].
  inversion H. right. auto.
Qed.

Lemma filer_update_keeps : forall s p old e, Keeps (eq p) s (fst (filer_update s p old e)).
Proof.
  intros s p old e. destruct (filer_update s p old e) as [s' r] eqn:E.
  destruct (filer_update_cases _ _ _ _ _ _ E) as [[A _]|[A _]]; subst; simpl; [apply Keeps_refl|].
  intros q e0 H Hn. rewrite w_insert_nfind. destruct (peqb_spec p q); [contradiction|assumption].
Qed.

Lemma ensure_parent_cases : forall ev s p tmpl s1 r, ensure_parent ev s p tmpl = (s1, r) ->
  (s1 = s) \/
  (r = OK /\ nfind s (HardLink.parent p) = None /\ s1 = w_insert s (HardLink.parent p) (implicit_dir tmpl)).
Proof.
  intros ev s p tmpl s1 r H. unfold ensure_parent in H.
  destruct (HardLink.parent p) as [|a d] eqn:Ep; [inversion H; auto|].
  rewrite find_entry_nonroot in H by discriminate.
  destruct (w_find s (a :: d)) as [de|] eqn:Ef.
  - destruct (h_dir de); inversion H; auto.
  - inversion H. right. repeat split. now apply w_find_None.
Qed.

Lemma ensure_parent_inv : forall l ev s p tmpl, InvG l s -> InvG l (fst (ensure_parent ev s p tmpl)).
Proof.
  intros l ev s p tmpl I. destruct (ensure_parent ev s p tmpl) as [s1 r] eqn:E.
  destruct (ensure_parent_cases _ _ _ _ _ _ E) as [A|[_ [A B]]]; subst; simpl; [assumption|].
  apply w_insert_plain_inv; auto. intros ex H. congruence.
Qed.

Lemma ensure_parent_keeps : forall ev s p tmpl, Keeps (fun _ => False) s (fst (ensure_parent ev s p tmpl)).
Proof.
  intros ev s p tmpl. destruct (ensure_parent ev s p tmpl) as [s1 r] eqn:E.
  destruct (ensure_parent_cases _ _ _ _ _ _ E) as [A|[_ [A B]]]; subst; simpl; [apply Keeps_refl|].
  intros q e0 H _. rewrite w_insert_nfind. destruct (peqb_spec (HardLink.parent p) q); [congruence|assumption].
Qed.

(* the blob at p after ensure_parent is the old one, or the (plain) implicit directory *)
Lemma ensure_parent_blob : forall ev s p tmpl q ex,
  nfind (fst (ensure_parent ev s p tmpl)) q = Some ex ->
  nfind s q = Some ex \/ (nfind s q = None /\ h_hl ex = 0%N).
Proof.
  intros ev s p tmpl q ex H. destruct (ensure_parent ev s p tmpl) as [s1 r] eqn:E.
  destruct (ensure_parent_cases _ _ _ _ _ _ E) as [A|[_ [A B]]]; subst; simpl in H; [auto|].
  rewrite w_insert_nfind in H. destruct (peqb_spec (HardLink.parent p) q); [|auto].
  subst q. inversion H. right. split; auto.
Qed.

Lemma filer_create_keeps : forall ev s p e x, Keeps (eq p) s (st_of (filer_create ev s p e x)).
Proof.
  intros ev s p e x. unfold filer_create.
  destruct (find_entry ev s p) as [old|].
  - destruct x; [apply Keeps_refl|].
    pose proof (filer_update_keeps s p old e) as K.
    destruct (filer_update s p old e) as [s1 r]. simpl in K.
    destruct (is_err r); exact K.
  - pose proof (ensure_parent_keeps ev s p e) as K.
    destruct (ensure_parent ev s p e) as [s1 r]. simpl in K.
    destruct (is_err r); unfold st_of; simpl.
    + eapply Keeps_weaken; [|exact K]. intros q [].
    + intros q e0 H Hn. rewrite w_insert_nfind. destruct (peqb_spec p q); [contradiction|].
      apply K; auto.
Qed.

(* a plain entry over a plain blob or at a new name *)
Lemma filer_create_plain_inv : forall l ev s p e x, InvG l s -> p <> [] -> h_hl e = 0%N ->
  (forall ex, nfind s p = Some ex -> h_hl ex = 0%N) ->
  InvG l (st_of (filer_create ev s p e x)).
Proof.
  intros l ev s p e x I Hp He Hold. unfold filer_create. rewrite find_entry_nonroot by assumption.
  destruct (w_find s p) as [old|] eqn:Ef.
  - destruct x; [exact I|].
    destruct (filer_update s p old e) as [s1 r] eqn:Eu.
    destruct (filer_update_cases _ _ _ _ _ _ Eu) as [[A B]|[A B]]; subst.
    + destruct r; simpl; exact I.
    + simpl. apply w_insert_plain_inv; auto.
  - pose proof (ensure_parent_inv l ev s p e I) as I1.
    pose proof (ensure_parent_blob ev s p e p) as Hb.
    destruct (ensure_parent ev s p e) as [s1 r]. simpl in I1, Hb.
    destruct (is_err r); unfold st_of; simpl; [exact I1|].
    apply w_insert_plain_inv; auto.
    intros ex H. destruct (Hb ex H) as [A|[_ A]]; auto.
Qed.

(* a plain entry at any name (a link id carried by the replaced blob is decremented) *)
Lemma filer_create_plain_inv' : forall l ev s p e x, InvG l s -> p <> [] -> h_hl e = 0%N ->
  InvG l (st_of (filer_create ev s p e x)).
Proof.
  intros l ev s p e x I Hp He. unfold filer_create. rewrite find_entry_nonroot by assumption.
  destruct (w_find s p) as [old|] eqn:Ef.
  - destruct x; [exact I|].
    destruct (filer_update s p old e) as [s1 r] eqn:Eu.
    destruct (filer_update_cases _ _ _ _ _ _ Eu) as [[A B]|[A B]]; subst.
    + destruct r; simpl; exact I.
    + simpl. apply w_insert_plain_inv'; auto.
  - pose proof (ensure_parent_inv l ev s p e I) as I1.
    destruct (ensure_parent ev s p e) as [s1 r]. simpl in I1.
    destruct (is_err r); unfold st_of; simpl; [exact I1|].
    apply w_insert_plain_inv'; auto.
Qed.

(* a write through a name whose blob carries an id: the entry carries the same id and the record's counter *)
Lemma filer_create_same_link_inv : forall l ev s p ex b e, InvG l s -> p <> [] ->
  nfind s p = Some ex -> h_hl ex <> 0%N -> kv_get s (h_hl ex) = Some b ->
  h_hl e = h_hl ex -> h_cnt e = h_cnt b -> h_dir e = false ->
  InvG l (st_of (filer_create ev s p e false)) /\ err_of (filer_create ev s p e false) = OK.
Proof.
  intros l ev s p ex b e I Hp H Hn Hb He Hc Hd. unfold filer_create.
  rewrite find_entry_nonroot by assumption. unfold w_find. rewrite H.
  rewrite (view_linked s ex b Hn Hb).
  destruct (ig_cnt _ _ I _ _ Hb) as [A [B _]].
  unfold filer_update. rewrite B, Hd. simpl.
  split; [|reflexivity].
  eapply w_insert_same_link_inv; eauto.
Qed.

(* Dir.Link's CreateEntry: the new name does not exist, its parent directory does *)
Lemma filer_create_link2_inv : forall l ev s p b e X, InvG (X :: l) s -> p <> [] ->
  nfind s p = None ->
  (exists de, find_entry ev s (HardLink.parent p) = Some de /\ h_dir de = true) ->
  h_dir e = false -> h_hl e = X -> X <> 0%N -> kv_get s X = Some b -> h_cnt e = h_cnt b ->
  InvG l (st_of (filer_create ev s p e false)) /\ err_of (filer_create ev s p e false) = OK /\
  st_of (filer_create ev s p e false) = w_insert s p e.
Proof.
  intros l ev s p b e X I Hp H [de [Hde Hdd]] Hd He HX Hb Hc. unfold filer_create.
  rewrite find_entry_nonroot by assumption. unfold w_find. rewrite H.
  unfold ensure_parent.
  destruct (HardLink.parent p) as [|a d] eqn:Ep.
  - simpl. split; [|split; reflexivity].
    apply (w_insert_link_second_inv l s p b e X); assumption.
  - rewrite Hde, Hdd. simpl. split; [|split; reflexivity].
    apply (w_insert_link_second_inv l s p b e X); assumption.
Qed.

(* ================= the gRPC handlers ================= *)
Lemma grpc_create_cases : forall ev s p e x,
  (st_of (grpc_create ev s p e x) = s /\ err_of (grpc_create ev s p e x) <> OK) \/
  (exists cs, st_of (grpc_create ev s p e x) = st_of (filer_create ev s p (set_chunks e cs) x) /\
              err_of (grpc_create ev s p e x) = err_of (filer_create ev s p (set_chunks e cs) x)).
Proof.
  intros. unfold grpc_create. destruct (cleanup_chunks ev None (h_chunks e)) as [[cs g]|].
  - right. exists cs. destruct (filer_create ev s p (set_chunks e cs) x) as [[s1 r] d].
    destruct r; auto.
  - left. split; [reflexivity|discriminate].
Qed.

Lemma grpc_create_keeps : forall ev s p e x, Keeps (eq p) s (st_of (grpc_create ev s p e x)).
Proof.
  intros. destruct (grpc_create_cases ev s p e x) as [[A _]|[cs [A _]]]; rewrite A;
    [apply Keeps_refl|apply filer_create_keeps].
Qed.

Inductive upd_outcome (ev : env) (s : st) (p : path) (e : hentry) : st -> err -> Prop :=
| upd_fail : forall r, r <> OK -> upd_outcome ev s p e s r
| upd_same : forall ex cs, find_entry ev s p = Some ex -> hentry_eqb ex (set_chunks e cs) = true ->
    upd_outcome ev s p e s OK
| upd_done : forall ex cs, find_entry ev s p = Some ex -> hentry_eqb ex (set_chunks e cs) = false ->
    (h_dir ex = h_dir e) ->
    upd_outcome ev s p e (w_insert s p (set_crtime (set_chunks e cs) (h_crtime ex))) OK.

Lemma grpc_update_cases : forall ev s p e,
  upd_outcome ev s p e (st_of (grpc_update ev s p e)) (err_of (grpc_update ev s p e)).
Proof.
  intros. unfold grpc_update. destruct (find_entry ev s p) as [ex|] eqn:Ef.
  - destruct (cleanup_chunks ev (Some ex) (h_chunks e)) as [[cs g]|].
    + destruct (hentry_eqb ex (set_chunks e cs)) eqn:Eq.
      * eapply upd_same; eauto.
      * unfold filer_update. simpl.
        destruct (h_dir ex) eqn:Ed, (h_dir e) eqn:Ed'; simpl; try (apply upd_fail; discriminate).
        -- eapply upd_done; eauto; congruence.
        -- eapply upd_done; eauto; congruence.
    + apply upd_fail. discriminate.
  - apply upd_fail. discriminate.
Qed.

Lemma grpc_update_keeps : forall ev s p e, Keeps (eq p) s (st_of (grpc_update ev s p e)).
Proof.
  intros. destruct (grpc_update_cases ev s p e); try apply Keeps_refl.
  intros q e0 Hq Hn. rewrite w_insert_nfind. destruct (peqb_spec p q); [contradiction|assumption].
Qed.

Lemma hentry_eqb_link : forall a b, hentry_eqb a b = true -> h_hl a = h_hl b /\ h_cnt a = h_cnt b /\ h_mtime a = h_mtime b.
Proof.
  intros a b H. unfold hentry_eqb in H. repeat rewrite andb_true_iff in H.
  destruct H as [[[[[[[_ _] _] Hm] _] _] Hh] Hc].
  apply N.eqb_eq in Hh. apply Z.eqb_eq in Hc. apply N.eqb_eq in Hm. auto.
Qed.

Lemma chunk_eqb_refl : forall c, chunk_eqb c c = true.
Proof. intro c. unfold chunk_eqb. now rewrite !N.eqb_refl, eqb_reflx. Qed.

Lemma list_eqb_refl : forall {A} (f : A -> A -> bool) l, (forall x, f x x = true) -> list_eqb f l l = true.
Proof. induction l; simpl; intro H; [reflexivity|]. now rewrite H, IHl. Qed.

Lemma hentry_eqb_refl : forall e, hentry_eqb e e = true.
Proof.
  intro e. unfold hentry_eqb.
  now rewrite eqb_reflx, !N.eqb_refl, Z.eqb_refl, (list_eqb_refl chunk_eqb _ chunk_eqb_refl).
Qed.

(* ================= DeleteEntryMetaAndData ================= *)
Lemma delete_entry_cases : forall ev s p rec ign data,
  (st_of (delete_entry ev s p rec ign data) = s /\ err_of (delete_entry ev s p rec ign data) <> OK) \/
  (exists e, find_entry ev s p = Some e /\ err_of (delete_entry ev s p rec ign data) = OK /\
     (h_dir e = true -> rec = false -> list_children s p = []) /\
     let cs := if h_dir e then list_children s p else [] in
     let s1 := if h_dir e then w_delete_folder_children s p else s in
     let s2 := w_delete_one s1 p e in
     st_of (delete_entry ev s p rec ign data) = fold_left delete_hard_link (snd (collect_children cs)) s2).
Proof.
  intros. unfold delete_entry. destruct (find_entry ev s p) as [e|] eqn:Ef.
  - destruct (h_dir e && negb rec && negb match (if h_dir e then list_children s p else []) with [] => true | _ => false end) eqn:Ec.
    + left. split; [reflexivity|discriminate].
    + right. exists e. split; [reflexivity|].
      assert (Hnil : h_dir e = true -> rec = false -> list_children s p = []).
      { intros Hd Hr. rewrite Hd, Hr in Ec. simpl in Ec. destruct (list_children s p); [reflexivity|discriminate]. }
      destruct (collect_children (if h_dir e then list_children s p else [])) as [dc ids] eqn:Ecc.
      simpl. auto.
  - left. split; [reflexivity|discriminate].
Qed.

(* names outside p's subtree are left alone *)
Lemma delete_entry_keeps : forall ev s p rec ign data,
  Keeps (fun q => HardLink.is_prefix p q = true) s (st_of (delete_entry ev s p rec ign data)).
Proof.
  intros. destruct (delete_entry_cases ev s p rec ign data) as [[A _]|[e [_ [_ [_ A]]]]]; rewrite A; [apply Keeps_refl|].
  intros q e0 Hq Hn.
  assert (Hne : HardLink.path_eqb p q = false).
  { destruct (peqb_spec p q); [|reflexivity]. subst. exfalso. apply Hn. apply is_prefix_refl. }
  assert (Hnc : HardLink.is_child_of p q = false).
  { destruct (HardLink.is_child_of p q) eqn:E; [|reflexivity]. exfalso. apply Hn.
    apply is_child_of_spec in E. destruct E as [n E]. subst. apply is_prefix_app. }
  assert (H2 : nfind (w_delete_one (if h_dir e then w_delete_folder_children s p else s) p e) q = Some e0).
  { rewrite w_delete_one_nfind, Hne. destruct (h_dir e); [rewrite dfc_nfind, Hnc|]; assumption. }
  rewrite dhl_fold_nfind. exact H2.
Qed.

Lemma collect_nil : collect_children [] = ([], []).
Proof. reflexivity. Qed.

(* every removed name's id is decremented (since the repair: whether or not the data is deleted) *)
Lemma delete_entry_inv : forall ev s p rec ign data, Inv s -> p <> [] ->
  Inv (st_of (delete_entry ev s p rec ign data)).
Proof.
  intros ev s p rec ign data I Hp.
  destruct (delete_entry_cases ev s p rec ign data) as [[A _]|[e [Ef [_ [Hnil A]]]]]; rewrite A; [exact I|].
  rewrite find_entry_nonroot in Ef by assumption.
  destruct (w_find_Some _ _ _ Ef) as [ex [Hex Hv]]. subst e.
  set (ids := snd (collect_children (if h_dir (view s ex) then list_children s p else []))).
  assert (I1 : InvG (ids ++ []) (if h_dir (view s ex) then w_delete_folder_children s p else s)).
  { unfold ids. destruct (h_dir (view s ex)); [apply dfc_inv; exact I|]. simpl. exact I. }
  (* the blob at p survives DeleteFolderChildren *)
  assert (Hex1 : nfind (if h_dir (view s ex) then w_delete_folder_children s p else s) p = Some ex).
  { destruct (h_dir (view s ex)); [|assumption]. rewrite dfc_nfind.
    destruct (HardLink.is_child_of p p) eqn:E; [|assumption].
    apply is_child_of_spec in E. destruct E as [n E]. exfalso.
    apply (f_equal (@List.length _)) in E. rewrite app_length in E. simpl in E. lia. }
  (* the view of ex is the same in both states: the KV store is untouched *)
  assert (Hview : view (if h_dir (view s ex) then w_delete_folder_children s p else s) ex = view s ex).
  { destruct (h_dir (view s ex)); reflexivity. }
  pose proof (w_delete_one_inv _ _ p ex I1 Hex1) as I2. rewrite Hview in I2.
  unfold Inv. apply dhl_fold_inv. exact I2.
Qed.

Lemma grpc_delete_st : forall ev s p rec ign data,
  st_of (grpc_delete ev s p rec ign data) = st_of (delete_entry ev s p rec ign data).
Proof.
  intros. unfold grpc_delete. destruct (delete_entry ev s p rec ign data) as [[s1 r] d]. destruct r; reflexivity.
Qed.
