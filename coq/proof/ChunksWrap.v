(* C17, part 7: the window end offset+size with the int64-wrap repair (ViewFromChunks,
   ViewFromVisibleIntervals, StreamContent), ReadAll, and CompactFileChunks on a list that
   still contains manifest chunks (finding 2). *)
From Coq Require Import List NArith Bool Arith Lia.
From Coq Require Import ZifyBool ZifyN ZifyNat.
From SW Require Import model.Chunks proof.ChunksProofs proof.ChunksOverlay proof.ChunksRead proof.ChunksStream
  proof.ChunksManifest.
Import ListNotations.
Local Open Scope N_scope.

Lemma clamp_stop_facts : forall off size, off <= max_int64 ->
  off <= clamp_stop off size /\ clamp_stop off size <= max_int64 /\
  off + (clamp_stop off size - off) = clamp_stop off size.
Proof. intros off size H. unfold clamp_stop. destruct (max_int64 <? off + size) eqn:E; lia. Qed.

Lemma view_from_chunks_w_eq : forall fuel ms chunks off size, off <= max_int64 ->
  view_from_chunks_w fuel ms chunks off size =
  view_from_chunks fuel ms chunks off (clamp_stop off size - off).
Proof.
  intros fuel ms chunks off size H. destruct (clamp_stop_facts off size H) as [_ [_ E]].
  unfold view_from_chunks_w, view_from_chunks, view_from_visibles_w, view_from_visibles.
  rewrite E. reflexivity.
Qed.

(* without a wrap the repaired functions are the ones of the earlier theorems *)
Lemma view_from_chunks_w_nowrap : forall fuel ms chunks off size, off + size <= max_int64 ->
  view_from_chunks_w fuel ms chunks off size = view_from_chunks fuel ms chunks off size.
Proof.
  intros. rewrite view_from_chunks_w_eq by lia. unfold clamp_stop.
  replace (max_int64 <? off + size) with false by lia. f_equal. lia.
Qed.

Theorem stream_content_w_spec : forall src fuel ms chunks d m off size,
  off <= max_int64 -> size <= max_int64 ->
  resolve fuel ms off (clamp_stop off size) chunks = Some (d, m) -> NoDup (map key d) ->
  (forall c, In c d -> N.of_nat (length (src (c_fid c))) = c_size c) ->
  ((size =? max_int64) || (max_int64 <? off + size) = true -> forall c, In c d -> c_stop c <= total_size chunks) ->
  total_size chunks <= max_int64 ->
  let stop := if (size =? max_int64) || (max_int64 <? off + size) then total_size chunks else off + size in
  stream_content_w src fuel ms chunks off size = map (overlay src d) (nrange off stop).
Proof.
  intros src fuel ms chunks d m off size Ho Hs Hres Hn Hlen Hall Htot stop.
  destruct (clamp_stop_facts off size Ho) as [C1 [C2 C3]].
  set (size' := clamp_stop off size - off) in *.
  rewrite <- C3 in Hres.
  destruct (window_views_facts src fuel ms chunks d m off size' Hres Hn Hlen) as [HV [HVsrc Hw]].
  unfold stream_content_w. fold stop. rewrite view_from_chunks_w_eq by auto. fold size'.
  set (V := view_from_chunks fuel ms chunks off size') in *.
  destruct (stream_views_spec src V off HV) as [S1 [S2 [S3 S4]]].
  { intros w Hin. apply Hw. auto. }
  { intros w Hin. apply Hw. auto. }
  destruct (stream_views src V off) as [out pos] eqn:E. simpl in *.
  assert (Hstop : stop <= off + size').
  { rewrite C3. unfold stop, clamp_stop. destruct (size =? max_int64) eqn:E1; destruct (max_int64 <? off + size) eqn:E2; simpl; lia. }
  assert (Hpos : pos <= stop \/ (pos = off /\ stop < off)).
  { destruct S3 as [S3|[w [Hin S3]]].
    - destruct (N.le_gt_cases off stop); [left; lia|right; lia].
    - left. destruct (Hw w Hin) as [W1 [W2 [_ [c [Ic W4]]]]]. unfold stop.
      destruct ((size =? max_int64) || (max_int64 <? off + size)) eqn:Es.
      + specialize (Hall eq_refl c Ic). lia.
      + unfold clamp_stop in C3. replace (max_int64 <? off + size) with false in C3 by lia. lia. }
  destruct Hpos as [Hpos|[Hp1 Hp2]].
  - rewrite (nrange_split off pos stop) by lia. rewrite map_app. f_equal.
    + rewrite S4. apply map_ext_in. intros q Hq. apply in_nrange in Hq. unfold overlay.
      rewrite HVsrc. replace ((off <=? q) && (q <? off + size')) with true by lia. reflexivity.
    + rewrite (map_const_repeat _ 0).
      { rewrite nrange_length. reflexivity. }
      intros q Hq. apply in_nrange in Hq. unfold overlay.
      assert (Hnone : src_of_views V q = None).
      { unfold src_of_views. rewrite views_find_none; auto. intros w Hin.
        specialize (S2 w Hin). unfold cvcovers. unfold cv_end in S2. lia. }
      rewrite HVsrc in Hnone. replace ((off <=? q) && (q <? off + size')) with true in Hnone by lia.
      rewrite Hnone. reflexivity.
  - subst pos. rewrite S4. rewrite nrange_empty. unfold nrange.
    replace (stop - off) with 0 by lia. reflexivity.
Qed.

(* ReadAll: the overlay of [0, E) where E is the end of the content (no chunk has a byte at or after E) *)
Theorem read_all_spec : forall src fuel ms chunks d m,
  resolve fuel ms 0 max_int64 chunks = Some (d, m) -> NoDup (map key d) ->
  (forall c, In c d -> N.of_nat (length (src (c_fid c))) = c_size c) ->
  exists E, read_all src fuel ms chunks = map (overlay src d) (nrange 0 E) /\
            (forall p, E <= p -> p < max_int64 -> overlay_src d p = None).
Proof.
  intros src fuel ms chunks d m Hres Hn Hlen. unfold read_all.
  rewrite view_from_chunks_w_eq by (unfold max_int64; lia).
  change (clamp_stop 0 max_int64 - 0) with max_int64.
  destruct (window_views_facts src fuel ms chunks d m 0 max_int64 Hres Hn Hlen) as [HV [HVsrc Hw]].
  set (V := view_from_chunks fuel ms chunks 0 max_int64) in *.
  destruct (stream_views_spec src V 0 HV) as [S1 [S2 [S3 S4]]].
  { intros w Hin. apply Hw. auto. }
  { intros w Hin. apply Hw. auto. }
  exists (snd (stream_views src V 0)).
  assert (HE : snd (stream_views src V 0) <= max_int64).
  { destruct S3 as [S3|[w [Hin S3]]]; [rewrite S3; unfold max_int64; lia|].
    destruct (Hw w Hin) as [_ [W2 _]]. rewrite S3. exact W2. }
  split.
  - rewrite S4. apply map_ext_in. intros q Hq.
    apply in_nrange in Hq. unfold overlay. rewrite HVsrc.
    replace ((0 <=? q) && (q <? 0 + max_int64)) with true by lia. reflexivity.
  - intros p Hp1 Hp2. specialize (HVsrc p).
    replace ((0 <=? p) && (p <? 0 + max_int64)) with true in HVsrc by lia. rewrite <- HVsrc.
    unfold src_of_views. rewrite views_find_none; auto. intros w Hin.
    specialize (S2 w Hin). unfold cvcovers. unfold cv_end in S2. lia.
Qed.

(* the wrap witness of the audit: chunks [0,2)+[5,7), StreamContent(3, MaxInt64) and a window that
   ends one past MaxInt64 *)
Lemma stream_wrap_example :
  let chunks := [Chunk 1 0 2 1 false; Chunk 2 5 2 2 false] in
  let src := fun f => match f with 1 => [11;12] | 2 => [21;22] | _ => [] end in
  stream_content_w src 1 [] chunks 3 max_int64 = [0;0;21;22] /\
  stream_content_w src 1 [] chunks 6 (max_int64 - 5) = [22] /\
  view_from_chunks_w 1 [] chunks 6 (max_int64 - 3) = [View 2 1 1 6 2].
Proof. vm_compute. repeat split; reflexivity. Qed.

(* finding 2: CompactFileChunks on a list with a manifest chunk throws the manifest (and with it
   everything it lists) into the garbage *)
Theorem compact_manifest_refuted :
  exists ms chunks d m,
    resolve 2 ms 0 max_int64 chunks = Some (d, m) /\ NoDup (map key d) /\
    existsb c_manifest chunks = true /\
    compact_file_chunks 2 ms chunks = ([], chunks) /\
    overlay_src d 0 <> None /\
    (* what the callers do (SeparateManifestChunks first) keeps the manifest *)
    compact_entry 2 ms chunks = (chunks, []).
Proof.
  exists [(60, [Chunk 1 0 4 1 false])], [Chunk 60 0 4 0 true], [Chunk 1 0 4 1 false], [Chunk 60 0 4 0 true].
  split; [vm_compute; reflexivity|]. split; [repeat constructor; simpl; tauto|].
  split; [reflexivity|]. split; [vm_compute; reflexivity|]. split; [vm_compute; discriminate|].
  vm_compute. reflexivity.
Qed.

(* ... with the manifests separated (what both callers do) nothing that is visible is lost, whatever
   the manifests contribute: a dropped data chunk is covered everywhere by newer kept data chunks *)
Theorem compact_entry_same : forall f ms chunks,
  Forall (fun c => c_stop c <= max_int64) chunks ->
  NoDup (map key (filter (fun c => negb (c_manifest c)) chunks)) ->
  Permutation.Permutation (fst (compact_entry (S f) ms chunks) ++ snd (compact_entry (S f) ms chunks)) chunks /\
  forall p, overlay_src (filter (fun c => negb (c_manifest c)) (fst (compact_entry (S f) ms chunks))) p =
            overlay_src (filter (fun c => negb (c_manifest c)) chunks) p.
Proof.
  intros f ms chunks Hstop Hn. unfold compact_entry.
  set (data := filter (fun c => negb (c_manifest c)) chunks) in *.
  assert (Hd : Forall (fun c => c_manifest c = false) data).
  { apply Forall_forall. intros c Hc. apply filter_In in Hc. destruct Hc as [_ Hc]. destruct (c_manifest c); auto; discriminate. }
  assert (Hs : Forall (fun c => c_stop c <= max_int64) data).
  { rewrite Forall_forall in *. intros c Hc. apply filter_In in Hc. apply Hstop. tauto. }
  destruct (compact_same f ms data Hd Hs Hn) as [P1 P2].
  destruct (compact_file_chunks (S f) ms data) as [keep garb] eqn:E. simpl in *.
  assert (Hk : Forall (fun c => c_manifest c = false) keep).
  { rewrite Forall_forall in *. intros c Hc. apply Hd. eapply Permutation.Permutation_in; [exact P1|]. apply in_or_app. auto. }
  split.
  - rewrite <- app_assoc. eapply Permutation.Permutation_trans.
    + apply Permutation.Permutation_app_head. exact P1.
    + apply (filter_perm_partition c_manifest).
  - intros p. rewrite filter_app.
    assert (Hm : filter (fun c => negb (c_manifest c)) (filter c_manifest chunks) = []).
    { clear. induction chunks as [|c l IH]; simpl; auto. destruct (c_manifest c) eqn:Ec; simpl; auto. rewrite Ec. simpl. auto. }
    rewrite Hm. simpl.
    assert (Hkk : filter (fun c => negb (c_manifest c)) keep = keep).
    { clear - Hk. induction keep as [|c l IH]; simpl; auto. inversion Hk; subst. rewrite H1. simpl. f_equal. auto. }
    rewrite Hkk. apply P2.
Qed.

(* ---------- concrete examples used by props/C17.v ---------- *)
(* the witness of the defect that was repaired: chunks [0,2) and [5,7), GET of bytes 0..6 *)
Lemma stream_example :
  let chunks := [Chunk 1 0 2 1 false; Chunk 2 5 2 2 false] in
  let src := fun f => match f with 1 => [11;12] | 2 => [21;22] | _ => [] end in
  stream_content src 1 [] chunks 0 7 = [11;12;0;0;0;21;22] /\
  stream_content src 1 [] chunks 3 6 = [0;0;21;22;0;0] /\
  stream_content src 1 [] chunks 0 max_int64 = [11;12;0;0;0;21;22].
Proof. vm_compute. repeat split; reflexivity. Qed.

Lemma nested_example :
  let b := Chunk 2 2 4 3 false in let c := Chunk 3 5 3 2 false in let d0 := Chunk 4 1 2 1 false in
  let a := Chunk 1 0 4 4 false in let z := Chunk 5 12 2 5 false in
  let inner := Chunk 60 2 6 0 true in let outer := Chunk 61 1 7 0 true in
  let ms := [(61, [inner; d0]); (60, [b; c])] in
  let chunks := [outer; a; z] in
  let src := fun f => match f with 1 => [10;11;12;13] | 2 => [20;21;22;23] | 3 => [30;31;32] | 4 => [40;41]
                                 | 5 => [50;51] | _ => [] end in
  resolve 3 ms 0 max_int64 chunks = Some ([b; c; d0; a; z], [outer; inner]) /\
  NoDup (map key [b; c; d0; a; z]) /\
  let r := read_at src (view_from_chunks 3 ms chunks 0 max_int64) 15 (repeat 238 17) 0 in
  rr_buf r = [10;11;12;13;22;23;31;32;0;0;0;0;50;51;0;238;238] /\ rr_n r = 15 /\ rr_eof r = true /\
  fst (compact_file_chunks 1 [] [b; c; d0; a; z]) = [b; c; a; z] /\
  fst (maybe_manifestize 2 100 9 chunks) = [outer; Chunk 100 0 14 9 true].
Proof.
  cbv zeta. split; [vm_compute; reflexivity|]. split.
  - repeat (constructor; [simpl; intuition discriminate|]). constructor.
  - vm_compute. repeat split; reflexivity.
Qed.
