(* C17, part 2: the fold over the sorted chunks, the last-writer-wins reference,
   the sort, manifest resolution, and the central theorem (lookup = overlay). *)
From Coq Require Import List NArith Bool Arith Lia Permutation Sorted.
From Coq Require Import ZifyBool ZifyN ZifyNat.
From SW Require Import model.Chunks proof.ChunksProofs.
Import ListNotations.
Local Open Scope N_scope.

(* ================================================================== *)
(* folding merges: the last chunk in merge order that covers p wins    *)
(* ================================================================== *)
Fixpoint last_cover (s : list chunk) (p : N) : option chunk :=
  match s with
  | [] => None
  | c :: l => match last_cover l p with
              | Some x => Some x
              | None => if covers c p then Some c else None
              end
  end.

Lemma fold_merge_spec : forall s vs0, vis_ok vs0 -> Forall (fun c => 0 < c_size c) s ->
  vis_ok (fold_left merge_into_visibles s vs0) /\
  forall p, src_of_visibles (fold_left merge_into_visibles s vs0) p =
            match last_cover s p with
            | Some c => Some (c_fid c, p - c_off c)
            | None => src_of_visibles vs0 p
            end.
Proof.
  induction s as [|c s IH]; intros vs0 Hok Hf; simpl.
  - split; auto.
  - inversion Hf as [|? ? Hc Hf']; subst.
    destruct (IH (merge_into_visibles vs0 c) (merge_ok vs0 c Hok Hc) Hf') as [H1 H2].
    split; auto. intros p. rewrite H2. destruct (last_cover s p); auto.
    rewrite merge_src; auto. destruct (covers c p); reflexivity.
Qed.

(* the invariant of C17: after ANY sequence of merges of non-empty chunks *)
Theorem merges_keep_invariant : forall cs vs0, vis_ok vs0 -> Forall (fun c => 0 < c_size c) cs ->
  vis_ok (fold_left merge_into_visibles cs vs0).
Proof. intros cs vs0 H1 H2. apply (fold_merge_spec cs vs0 H1 H2). Qed.

(* ================================================================== *)
(* the order on chunks                                                 *)
(* ================================================================== *)
Definition key (c : chunk) : N * N := (c_mtime c, c_fid c).

Ltac ltb_solve :=
  unfold chunk_ltb in *;
  repeat match goal with
         | H : context [if ?b then _ else _] |- _ => destruct b eqn:?
         | |- context [if ?b then _ else _] => destruct b eqn:?
         end; try lia.

Lemma ltb_irrefl : forall a, chunk_ltb a a = false.
Proof. intros a. ltb_solve. Qed.
Lemma ltb_trans : forall a b c, chunk_ltb a b = true -> chunk_ltb b c = true -> chunk_ltb a c = true.
Proof. intros a b c H1 H2. ltb_solve. Qed.
Lemma ltb_asym : forall a b, chunk_ltb a b = true -> chunk_ltb b a = false.
Proof. intros a b H. ltb_solve. Qed.
Lemma le_trans : forall a b c, chunk_ltb b a = false -> chunk_ltb c b = false -> chunk_ltb c a = false.
Proof. intros a b c H1 H2. ltb_solve. Qed.
Lemma ltb_le_trans : forall a b c, chunk_ltb a b = true -> chunk_ltb c b = false -> chunk_ltb a c = true.
Proof. intros a b c H1 H2. ltb_solve. Qed.
Lemma ltb_total : forall a b, chunk_ltb a b = false -> chunk_ltb b a = false -> key a = key b.
Proof. intros a b H1 H2. unfold key. ltb_solve; f_equal; lia. Qed.

(* ================================================================== *)
(* the reference: winner                                               *)
(* ================================================================== *)
Definition is_newest (l : list chunk) (p : N) (c : chunk) : Prop :=
  In c l /\ covers c p = true /\
  forall c', In c' l -> covers c' p = true -> chunk_ltb c c' = false.

Lemma winner_spec : forall l p,
  match winner l p with
  | Some c => is_newest l p c
  | None => forall c, In c l -> covers c p = false
  end.
Proof.
  induction l as [|c l IH]; intros p; simpl.
  - intros ? [].
  - specialize (IH p). destruct (winner l p) as [w|].
    + destruct IH as [Iw [Cw Mw]].
      destruct (covers c p && chunk_ltb w c) eqn:E.
      * apply andb_true_iff in E. destruct E as [Cc Lt].
        split; [left; auto|]. split; auto.
        intros c' [Hc'|Hc'] Cc'; subst; [apply ltb_irrefl|].
        specialize (Mw c' Hc' Cc').
        destruct (chunk_ltb c c') eqn:E2; auto.
        rewrite (ltb_trans w c c' Lt E2) in Mw. discriminate.
      * split; [right; auto|]. split; auto.
        intros c' [Hc'|Hc'] Cc'; subst; auto.
        rewrite Cc' in E. simpl in E. exact E.
    + destruct (covers c p) eqn:Cc.
      * split; [left; auto|]. split; auto.
        intros c' [Hc'|Hc'] Cc'; subst; [apply ltb_irrefl|].
        rewrite (IH c' Hc') in Cc'. discriminate.
      * intros c' [Hc'|Hc']; subst; auto.
Qed.

Lemma winner_in : forall l p w, winner l p = Some w -> In w l /\ covers w p = true.
Proof.
  intros l p w H. pose proof (winner_spec l p) as S. rewrite H in S. destruct S as [A [B _]]. auto.
Qed.

Lemma newest_unique : forall l p a b, NoDup (map key l) ->
  is_newest l p a -> is_newest l p b -> a = b.
Proof.
  intros l p a b Hn [Ia [Ca Ma]] [Ib [Cb Mb]].
  apply (NoDup_map_inj key l a b Hn Ia Ib).
  apply ltb_total; auto.
Qed.

Lemma winner_newest : forall l p c, NoDup (map key l) -> is_newest l p c -> winner l p = Some c.
Proof.
  intros l p c Hn Hc. pose proof (winner_spec l p) as S.
  destruct (winner l p) as [w|].
  - f_equal. eapply newest_unique; eauto.
  - destruct Hc as [Ic [Cc _]]. rewrite (S c Ic) in Cc. discriminate.
Qed.

(* the winner does not depend on the order of the list (distinct (mtime,key) pairs) *)
Lemma winner_perm : forall l l' p, Permutation l l' -> NoDup (map key l) -> winner l p = winner l' p.
Proof.
  intros l l' p Hp Hn.
  assert (Hn' : NoDup (map key l')).
  { eapply Permutation_NoDup; [apply Permutation_map; exact Hp|exact Hn]. }
  pose proof (winner_spec l p) as S.
  destruct (winner l p) as [w|].
  - symmetry. apply winner_newest; auto.
    destruct S as [Iw [Cw Mw]]. split; [eapply Permutation_in; eauto|]. split; auto.
    intros c' Hc'. apply Mw. eapply Permutation_in; [apply Permutation_sym; exact Hp|exact Hc'].
  - pose proof (winner_spec l' p) as S'. destruct (winner l' p) as [w'|]; auto.
    destruct S' as [Iw [Cw _]].
    rewrite (S w') in Cw; [discriminate|]. eapply Permutation_in; [apply Permutation_sym; exact Hp|exact Iw].
Qed.

(* dropping chunks that do not cover p changes nothing *)
Lemma winner_filter : forall (f : chunk -> bool) l p,
  (forall c, In c l -> covers c p = true -> f c = true) ->
  winner (filter f l) p = winner l p.
Proof.
  intros f l p. induction l as [|c l IH]; intros H; simpl; auto.
  assert (IH' : winner (filter f l) p = winner l p) by (apply IH; intros; apply H; auto; right; auto).
  destruct (f c) eqn:Fc; simpl.
  - rewrite IH'. reflexivity.
  - rewrite IH'. assert (Cc : covers c p = false).
    { destruct (covers c p) eqn:Cc; auto. rewrite (H c (or_introl eq_refl) Cc) in Fc. discriminate. }
    rewrite Cc. simpl. destruct (winner l p); reflexivity.
Qed.

(* dropping chunks while keeping the winner changes nothing *)
Lemma winner_filter_keep : forall (f : chunk -> bool) l p, NoDup (map key l) ->
  (forall w, winner l p = Some w -> f w = true) ->
  winner (filter f l) p = winner l p.
Proof.
  intros f l p Hn H. pose proof (winner_spec l p) as S.
  destruct (winner l p) as [w|].
  - apply winner_newest; [apply NoDup_map_filter; auto|].
    destruct S as [Iw [Cw Mw]]. split; [apply filter_In; auto|]. split; auto.
    intros c' Hc'. apply filter_In in Hc'. apply Mw. tauto.
  - pose proof (winner_spec (filter f l) p) as S'. destruct (winner (filter f l) p) as [w'|]; auto.
    destruct S' as [Iw [Cw _]]. apply filter_In in Iw. rewrite (S w') in Cw; [discriminate|tauto].
Qed.

(* ================================================================== *)
(* the sort                                                            *)
(* ================================================================== *)
Definition cle (a b : chunk) : Prop := chunk_ltb b a = false.

Lemma insert_chunk_perm : forall c l, Permutation (c :: l) (insert_chunk c l).
Proof.
  intros c l. induction l as [|x l IH]; simpl; auto.
  destruct (chunk_ltb x c); auto.
  eapply perm_trans; [apply perm_swap|]. constructor. auto.
Qed.

Lemma sort_chunks_perm : forall l, Permutation l (sort_chunks l).
Proof.
  induction l as [|c l IH]; simpl; auto.
  eapply perm_trans; [|apply insert_chunk_perm]. constructor. auto.
Qed.

Lemma insert_chunk_sorted : forall c l, StronglySorted cle l -> StronglySorted cle (insert_chunk c l).
Proof.
  intros c l H. induction H as [|x l Hs IH Hf]; simpl.
  - repeat constructor.
  - rewrite Forall_forall in Hf. destruct (chunk_ltb x c) eqn:E.
    + constructor; auto. apply Forall_forall. intros y Hy.
      apply Permutation_in with (l' := c :: l) in Hy; [|apply Permutation_sym, insert_chunk_perm].
      destruct Hy as [Hy|Hy]; subst; [apply ltb_asym; auto|apply Hf; auto].
    + constructor; [constructor; auto; apply Forall_forall; auto|].
      apply Forall_forall. intros y [Hy|Hy]; subst; [exact E|].
      unfold cle. apply (le_trans c x y); [exact E|apply Hf; auto].
Qed.

Lemma sort_chunks_sorted : forall l, StronglySorted cle (sort_chunks l).
Proof. induction l; simpl; [constructor|apply insert_chunk_sorted; auto]. Qed.

(* ANY sorted permutation is the same list when the (mtime,key) pairs are distinct:
   which sorting algorithm sort.Slice uses is irrelevant. *)
Lemma sorted_perm_unique : forall l1 l2, StronglySorted cle l1 -> StronglySorted cle l2 ->
  Permutation l1 l2 -> NoDup (map key l1) -> l1 = l2.
Proof.
  induction l1 as [|a l1 IH]; intros l2 S1 S2 P Hn.
  - apply Permutation_nil in P. auto.
  - destruct l2 as [|b l2]; [apply Permutation_sym, Permutation_nil in P; discriminate|].
    assert (a = b).
    { assert (Ia : In a (b :: l2)) by (eapply Permutation_in; [exact P|left; auto]).
      assert (Ib : In b (a :: l1)) by (eapply Permutation_in; [apply Permutation_sym; exact P|left; auto]).
      destruct Ia as [Ia|Ia]; auto. destruct Ib as [Ib|Ib]; auto.
      pose proof (ss_in_cons _ _ _ _ S1 Ib) as L1. pose proof (ss_in_cons _ _ _ _ S2 Ia) as L2.
      unfold cle in *. apply (NoDup_map_inj key (a :: l1)); auto; [left; auto|right; auto|].
      apply ltb_total; auto. }
    subst b. f_equal. apply IH.
    + inversion S1; auto.
    + inversion S2; auto.
    + eapply Permutation_cons_inv; eauto.
    + inversion Hn; auto.
Qed.

Theorem sort_chunks_unique : forall l s, Permutation l s -> StronglySorted cle s ->
  NoDup (map key l) -> s = sort_chunks l.
Proof.
  intros l s P S Hn. apply sorted_perm_unique; auto.
  - apply sort_chunks_sorted.
  - eapply perm_trans; [apply Permutation_sym; exact P|apply sort_chunks_perm].
  - eapply Permutation_NoDup; [apply Permutation_map; exact P|exact Hn].
Qed.

(* on a sorted list the last covering chunk is the winner *)
Lemma winner_sorted : forall s p, StronglySorted cle s -> winner s p = last_cover s p.
Proof.
  intros s p H. induction H as [|c l Hs IH Hf]; simpl; auto.
  destruct (last_cover l p) as [w|] eqn:E; rewrite IH; auto.
  apply winner_in in IH. destruct IH as [Iw _].
  rewrite Forall_forall in Hf. specialize (Hf w Iw). unfold cle in Hf. rewrite Hf.
  rewrite andb_false_r. reflexivity.
Qed.

(* ================================================================== *)
(* the central theorem on a list of non-empty data chunks              *)
(* ================================================================== *)
Theorem visibles_overlay : forall d, Forall (fun c => 0 < c_size c) d -> NoDup (map key d) ->
  vis_ok (visibles_of (sort_chunks d)) /\
  forall p, src_of_visibles (visibles_of (sort_chunks d)) p = overlay_src d p.
Proof.
  intros d Hf Hn. unfold visibles_of.
  assert (Hf' : Forall (fun c => 0 < c_size c) (sort_chunks d)).
  { rewrite Forall_forall in *. intros c Hc. apply Hf.
    eapply Permutation_in; [apply Permutation_sym, sort_chunks_perm|exact Hc]. }
  destruct (fold_merge_spec (sort_chunks d) [] (iok_nil _ _) Hf') as [H1 H2].
  split; auto. intros p. rewrite H2. unfold overlay_src.
  rewrite (winner_perm d (sort_chunks d) p (sort_chunks_perm d) Hn).
  rewrite (winner_sorted _ p (sort_chunks_sorted d)).
  destruct (last_cover (sort_chunks d) p); reflexivity.
Qed.

(* ================================================================== *)
(* ResolveChunkManifest                                                *)
(* ================================================================== *)
Definition resolve_one (f : nat) (ms : mstore) (s e : N) (c : chunk) : option (list chunk * list chunk) :=
  if outside_window s e c then Some ([], [])
  else if negb (c_manifest c) then Some ([c], [])
  else match ms_lookup ms (c_fid c) with
       | None => None
       | Some sub =>
           match resolve f ms s e sub with
           | None => None
           | Some (d, m) => Some (d, c :: m)
           end
       end.

Lemma resolve_nil : forall f ms s e, resolve (S f) ms s e [] = Some ([], []).
Proof. reflexivity. Qed.

Lemma resolve_cons : forall f ms s e c l,
  resolve (S f) ms s e (c :: l) = join_resolved (resolve_one f ms s e c) (resolve (S f) ms s e l).
Proof. reflexivity. Qed.

Lemma join_some : forall a b d m, join_resolved a b = Some (d, m) ->
  exists d1 m1 d2 m2, a = Some (d1, m1) /\ b = Some (d2, m2) /\ d = d1 ++ d2 /\ m = m1 ++ m2.
Proof.
  intros a b d m H. destruct a as [[d1 m1]|]; [|discriminate]. destruct b as [[d2 m2]|]; [|discriminate].
  simpl in H. inversion H; subst. exists d1, m1, d2, m2. auto.
Qed.

Lemma resolve_fuel_pos : forall fuel ms s e cs r, resolve fuel ms s e cs = Some r -> exists f, fuel = S f.
Proof. intros [|f] ms s e cs r H; [discriminate|eauto]. Qed.

Definition in_window (s e : N) (c : chunk) : bool := negb (outside_window s e c).

(* what comes out of a resolution: data chunks that intersect the window (hence non-empty) *)
Lemma resolve_data : forall fuel ms s e cs d m, resolve fuel ms s e cs = Some (d, m) ->
  Forall (fun c => c_manifest c = false /\ outside_window s e c = false) d.
Proof.
  induction fuel as [|f IHf]; intros ms s e cs d m H; [discriminate|].
  revert d m H. induction cs as [|c cs IHc]; intros d m H.
  - rewrite resolve_nil in H. inversion H; subst. constructor.
  - rewrite resolve_cons in H. apply join_some in H.
    destruct H as [d1 [m1 [d2 [m2 [H1 [H2 [Ed Em]]]]]]]. subst d m.
    apply Forall_app. split; [|eapply IHc; eauto].
    unfold resolve_one in H1. destruct (outside_window s e c) eqn:Eo.
    + inversion H1; subst. constructor.
    + destruct (c_manifest c) eqn:Em; simpl in H1.
      * destruct (ms_lookup ms (c_fid c)) as [sub|]; [|discriminate].
        destruct (resolve f ms s e sub) as [[d' m']|] eqn:Er; [|discriminate].
        inversion H1; subst. eapply IHf; eauto.
      * inversion H1; subst. constructor; auto.
Qed.

Lemma in_window_size : forall s e c, outside_window s e c = false -> 0 < c_size c.
Proof. intros s e c H. unfold outside_window, c_stop in H. lia. Qed.

Lemma covers_in_window : forall s e c p, covers c p = true -> s <= p -> p < e -> outside_window s e c = false.
Proof. intros s e c p H H1 H2. unfold covers, outside_window in *. lia. Qed.

(* a list without manifest chunks resolves to its chunks inside the window *)
Lemma resolve_data_only : forall f ms s e cs, Forall (fun c => c_manifest c = false) cs ->
  resolve (S f) ms s e cs = Some (filter (in_window s e) cs, []).
Proof.
  intros f ms s e cs H. induction H as [|c cs Hc Hf IH].
  - reflexivity.
  - rewrite resolve_cons. rewrite IH. unfold resolve_one, in_window. simpl.
    destruct (outside_window s e c); simpl; [reflexivity|]. rewrite Hc. reflexivity.
Qed.

(* ================================================================== *)
(* C17: lookup in NonOverlappingVisibleIntervals = overlay             *)
(* ================================================================== *)
Theorem non_overlapping_ok : forall fuel ms chunks s e d m,
  resolve fuel ms s e chunks = Some (d, m) ->
  vis_ok (fst (non_overlapping_visible_intervals fuel ms chunks s e)).
Proof.
  intros fuel ms chunks s e d m H. unfold non_overlapping_visible_intervals. rewrite H. simpl.
  pose proof (resolve_data _ _ _ _ _ _ _ H) as Hd.
  assert (Hf : Forall (fun c => 0 < c_size c) (sort_chunks d)).
  { rewrite Forall_forall in *. intros c Hc. apply (in_window_size s e). apply Hd.
    eapply Permutation_in; [apply Permutation_sym, sort_chunks_perm|exact Hc]. }
  unfold visibles_of. apply merges_keep_invariant; auto. apply iok_nil.
Qed.

Theorem non_overlapping_overlay : forall fuel ms chunks s e d m,
  resolve fuel ms s e chunks = Some (d, m) -> NoDup (map key d) ->
  forall p, src_of_visibles (fst (non_overlapping_visible_intervals fuel ms chunks s e)) p = overlay_src d p.
Proof.
  intros fuel ms chunks s e d m H Hn p. unfold non_overlapping_visible_intervals. rewrite H. simpl.
  pose proof (resolve_data _ _ _ _ _ _ _ H) as Hd.
  apply visibles_overlay; auto.
  rewrite Forall_forall in *. intros c Hc. apply (in_window_size s e). apply Hd. auto.
Qed.

(* the same for a plain list of data chunks and any window: inside the window the lookup is
   the overlay of ALL the chunks (those outside the window cannot matter) *)
Theorem non_overlapping_overlay_data : forall f ms chunks s e p,
  Forall (fun c => c_manifest c = false) chunks -> NoDup (map key chunks) ->
  s <= p -> p < e ->
  src_of_visibles (fst (non_overlapping_visible_intervals (S f) ms chunks s e)) p = overlay_src chunks p.
Proof.
  intros f ms chunks s e p Hd Hn Hs He.
  rewrite (non_overlapping_overlay (S f) ms chunks s e _ _ (resolve_data_only f ms s e chunks Hd)).
  - unfold overlay_src. rewrite winner_filter; auto.
    intros c Hc Cc. unfold in_window. rewrite (covers_in_window s e c p Cc Hs He). reflexivity.
  - apply NoDup_map_filter. auto.
Qed.
