(* C06: small facts that tie the statements to plain lists / production sizes. *)
From Coq Require Import List ZArith NArith Bool Lia ZifyBool.
From SW Require Import model.EC proof.ECProofs proof.ECReadProofs proof.ECRebuildProofs.
Import ListNotations.
Local Open Scope Z_scope.

Lemma dslice_whole (l : list byte) : dslice (dat_of_list l) 0 (zlen l) = l.
Proof. unfold dslice, dat_of_list. apply list_eq_map_znth. Qed.

Lemma dslice_sublist (l : list byte) a n : 0 <= a -> 0 <= n -> a + n <= zlen l ->
  dslice (dat_of_list l) a n = firstn (Z.to_nat n) (skipn (Z.to_nat a) l).
Proof.
  unfold byte in *. intros Ha Hn Hle.
  set (sub := firstn (Z.to_nat n) (skipn (Z.to_nat a) l)).
  assert (Hlen : zlen sub = n).
  { unfold sub, zlen in *. rewrite firstn_length, skipn_length. lia. }
  rewrite <- (list_eq_map_znth 0%N sub). rewrite Hlen.
  unfold dslice, dat_of_list. apply map_zrange_ext. intros t Ht.
  unfold sub, znth. rewrite nth_firstn_lt by lia. rewrite nth_skipn_add. f_equal; lia.
Qed.

Lemma shard_len_multiple_of_small rs_col dat L S buf D : sizes_ok L S buf -> 0 <= D ->
  zlen (znth (all_shards rs_col dat L S buf D) 0 []) mod S = 0.
Proof.
  intros Hok HD. destruct (shards_facts dat L S buf D Hok HD) as [R [s [Hlay EF]]].
  destruct (sizes_ok_pos _ _ _ Hok) as [_ [HS _]].
  unfold all_shards. rewrite znth_app_l.
  2:{ unfold data_shards. rewrite zlen_map, zlen_zrange; lia. }
  rewrite (ef_len _ _ _ _ _ _ _ EF 0) by lia.
  destruct Hok as [_ [_ [m [Hm HL]]]]. subst L.
  replace (R * (m * S) + s * S) with ((R * m + s) * S) by lia.
  apply Z.mod_mul. lia.
Qed.

(* ---------- the closed form of a data shard byte / of the shard length ---------- *)
Lemma shard_byte_correct dat L S buf D i o : sizes_ok L S buf -> 0 <= D -> 0 <= i < 10 ->
  0 <= o < zlen (data_shard dat L S buf D i) ->
  znth (data_shard dat L S buf D i) o 0%N = shard_byte dat L S D i o.
Proof.
  intros Hok HD Hi Ho. destruct (shards_facts dat L S buf D Hok HD) as [R [s [Hlay EF]]].
  destruct (sizes_ok_pos _ _ _ Hok) as [HL [HS _]].
  pose proof (n_large_rows_true L S D R s HL HS HD Hlay) as HR.
  pose proof (ef_len _ _ _ _ _ _ _ EF i Hi) as Hlen.
  rewrite znth_data_shards in Hlen by lia. rewrite Hlen in Ho.
  assert (HR0 : 0 <= R) by apply Hlay. assert (Hs0 : 0 <= s) by apply Hlay.
  rewrite <- (znth_data_shards dat L S buf D i) by lia.
  unfold shard_byte. rewrite HR. cbv zeta.
  destruct (o <? R * L) eqn:E.
  - assert (Hq : 0 <= Z.quot o L < R).
    { rewrite Z.quot_div_nonneg by lia. split; [apply Z.div_pos; lia|apply Z.div_lt_upper_bound; lia]. }
    assert (Hr : 0 <= Z.rem o L < L) by (rewrite Z.rem_mod_nonneg by lia; apply Z.mod_pos_bound; lia).
    pose proof (Z.quot_rem' o L) as Hqr.
    replace o with (Z.quot o L * L + Z.rem o L) at 1 by lia.
    rewrite (ef_large _ _ _ _ _ _ _ EF i _ _ Hi Hq Hr). unfold datz. reflexivity.
  - set (o' := o - R * L). assert (Ho' : 0 <= o' < s * S) by (unfold o'; lia).
    assert (Hq : 0 <= Z.quot o' S < s).
    { rewrite Z.quot_div_nonneg by lia. split; [apply Z.div_pos; lia|apply Z.div_lt_upper_bound; lia]. }
    assert (Hr : 0 <= Z.rem o' S < S) by (rewrite Z.rem_mod_nonneg by lia; apply Z.mod_pos_bound; lia).
    pose proof (Z.quot_rem' o' S) as Hqr.
    replace o with (R * L + Z.quot o' S * S + Z.rem o' S) at 1 by (unfold o' in *; lia).
    rewrite (ef_small _ _ _ _ _ _ _ EF i _ _ Hi Hq Hr). unfold datz. reflexivity.
Qed.

Lemma shard_len_correct dat L S buf D i : sizes_ok L S buf -> 0 <= D -> 0 <= i < 10 ->
  zlen (data_shard dat L S buf D i) = shard_len L S D.
Proof.
  intros Hok HD Hi. destruct (shards_facts dat L S buf D Hok HD) as [R [s [Hlay EF]]].
  destruct (sizes_ok_pos _ _ _ Hok) as [HL [HS _]].
  pose proof (n_large_rows_true L S D R s HL HS HD Hlay) as HR.
  pose proof (ef_len _ _ _ _ _ _ _ EF i Hi) as Hlen.
  rewrite znth_data_shards in Hlen by lia. rewrite Hlen.
  unfold shard_len. rewrite HR. destruct Hlay as [H1 [H2 [H3 H4]]].
  destruct (D <=? 0) eqn:E.
  - destruct (H3 ltac:(lia)) as [-> ->]. lia.
  - specialize (H4 ltac:(lia)). f_equal. f_equal.
    apply Z.div_unique with (r := D - R * (L * 10) + S * 10 - 1 - s * (S * 10)); lia.
Qed.

(* ---------- non-vacuity example of props/C06.v ---------- *)
Lemma c06_example_holds :
  sizes_ok 100 10 10 /\
  (let l := lcg_bytes 995 7 in
   read_needle_prod 100 10 (data_shards (dat_of_list l) 100 10 10 995) 0 8 = Some (firstn 8 l) /\
   map i_large (locate_data 100 10 (10 * 100) 0 8) = [false]) /\
  (let l := lcg_bytes 1000 9 in
   write_dat 100 10 (data_shards (dat_of_list l) 100 10 10 1000) 1000 = Some l) /\
  (let present := [true; false; true; true; false; true; true; true; true; true; false; true; true; false] in
   length present = 14%nat /\ count_lost present <= 4 /\
   let len := zlen (znth (all_shards (fun _ => [0; 0; 0; 0]%N) (dat_of_list (lcg_bytes 437 3)) 40 10 10 437) 0 []) in
   len = 50 /\ len < 1048576) /\
  (* the closed forms on a .dat with one large row and three small rows *)
  (let l := lcg_bytes 650 5 in
   shard_len 40 10 650 = 70 /\
   map (shard_byte (dat_of_list l) 40 10 650 3) (zrange 0 70) = data_shard (dat_of_list l) 40 10 10 650 3).
Proof.
  split.
  - split; [reflexivity|]. split; [exists 1|exists 10]; split; reflexivity.
  - vm_compute. repeat split; reflexivity || (intro; discriminate).
Qed.
