(* C06: small facts that tie the statements to plain lists / production sizes. *)
From Coq Require Import List ZArith NArith Bool Lia ZifyBool.
From SW Require Import model.EC proof.ECProofs proof.ECReadProofs proof.ECRebuildProofs.
Import ListNotations.
Local Open Scope Z_scope.

Lemma dslice_whole (l : list byte) : dslice (dat_of_list l) 0 (zlen l) = l.
Proof. unfold dslice, dat_of_list. apply list_eq_map_znth. Qed.

Lemma dslice_sublist (l : list byte) a n : 0 <= a -> 0 <= n -> a + n <= zlen l ->
  dslice (dat_of_list l) a n = firstn (Z.to_nat n) (skipn (Z.to_nat a) l).
Proof.
  unfold byte in *. intros Ha Hn Hle.
  set (sub := firstn (Z.to_nat n) (skipn (Z.to_nat a) l)).
  assert (Hlen : zlen sub = n).
  { unfold sub, zlen in *. rewrite firstn_length, skipn_length. lia. }
  rewrite <- (list_eq_map_znth 0%N sub). rewrite Hlen.
  unfold dslice, dat_of_list. apply map_zrange_ext. intros t Ht.
  unfold sub, znth. rewrite nth_firstn_lt by lia. rewrite nth_skipn_add. f_equal; lia.
Qed.

Lemma shard_len_multiple_of_small rs_col dat L S buf D : sizes_ok L S buf -> 0 <= D ->
  zlen (znth (all_shards rs_col dat L S buf D) 0 []) mod S = 0.
Proof.
  intros Hok HD. destruct (shards_facts dat L S buf D Hok HD) as [R [s [Hlay EF]]].
  destruct (sizes_ok_pos _ _ _ Hok) as [_ [HS _]].
  unfold all_shards. rewrite znth_app_l.
  2:{ unfold data_shards. rewrite zlen_map, zlen_zrange; lia. }
  rewrite (ef_len _ _ _ _ _ _ _ EF 0) by lia.
  destruct Hok as [_ [_ [m [Hm HL]]]]. subst L.
  replace (R * (m * S) + s * S) with ((R * m + s) * S) by lia.
  apply Z.mod_mul. lia.
Qed.
