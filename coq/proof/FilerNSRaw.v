(* Proofs about model/FilerNSRaw.v (C18): the request layer of AtomicRenameEntry (clean
   directories, plain names, buckets), histories with raw renames, the type-flip witness of known
   finding 0 and the non-vacuity examples added after the audit. *)
From Coq Require Import List NArith Bool String Ascii Arith Lia.
From SW Require Import model.FilerNSRaw proof.FilerNSBase proof.FilerNSCreate proof.FilerNSDelete
  proof.FilerNSRename proof.FilerNSHist.
Import ListNotations.
Local Open Scope string_scope.
Local Open Scope list_scope.

(* ================= strings.Split / path.Clean ================= *)
Lemma has_slash_app : forall a b, has_slash (a ++ b) = has_slash a || has_slash b.
Proof. induction a as [|c a IH]; intro b; simpl; [reflexivity|]. rewrite IH, orb_assoc. reflexivity. Qed.

Lemma split_slash_acc_no_slash : forall s cur, has_slash cur = false ->
  Forall (fun x => has_slash x = false) (split_slash_acc s cur).
Proof.
  induction s as [|c s IH]; intros cur Hc; simpl.
  - constructor; [exact Hc|constructor].
  - destruct (is_slash c) eqn:Ec.
    + constructor; [exact Hc|]. apply IH. reflexivity.
    + apply IH. rewrite has_slash_app, Hc. simpl. rewrite Ec. reflexivity.
Qed.

Lemma split_slash_no_slash : forall s, Forall (fun x => has_slash x = false) (split_slash s).
Proof. intro s. apply split_slash_acc_no_slash. reflexivity. Qed.

Lemma clean_step_valid : forall acc seg, has_slash seg = false ->
  Forall (fun n => valid_name n = true) acc -> Forall (fun n => valid_name n = true) (clean_step acc seg).
Proof.
  intros acc seg Hs Ha. unfold clean_step.
  destruct (String.eqb seg "" || String.eqb seg ".") eqn:E1; [exact Ha|].
  destruct (String.eqb seg "..") eqn:E2.
  - destruct acc; [exact Ha|]. inversion Ha; assumption.
  - constructor; [|exact Ha]. unfold valid_name. apply orb_false_iff in E1. destruct E1 as [E0 E1].
    rewrite E0, E1, E2, Hs. reflexivity.
Qed.

Lemma fold_clean_valid : forall segs acc, Forall (fun x => has_slash x = false) segs ->
  Forall (fun n => valid_name n = true) acc ->
  Forall (fun n => valid_name n = true) (fold_left clean_step segs acc).
Proof.
  induction segs as [|g segs IH]; intros acc Hs Ha; simpl; [exact Ha|].
  inversion Hs; subst. apply IH; [assumption|]. apply clean_step_valid; assumption.
Qed.

(* every segment of a cleaned directory is a plain entry name: the segment-list paths of
   model/FilerNS.v are exactly what the handler works on after path.Clean *)
Theorem clean_dir_valid : forall d, Forall (fun n => valid_name n = true) (clean_dir d).
Proof.
  intro d. unfold clean_dir. apply Forall_rev. apply fold_clean_valid; [apply split_slash_no_slash|constructor].
Qed.

(* ================= AtomicRenameEntry on raw strings ================= *)
Theorem rename_raw_valid : forall s od on nd nn,
  valid_name on = true -> valid_name nn = true -> can_rename (clean_dir od) (clean_dir nd) = true ->
  rename_raw s od on nd nn = rename s (clean_dir od) on (clean_dir nd) nn.
Proof. intros s od on nd nn H1 H2 H3. unfold rename_raw. rewrite H1, H2, H3. reflexivity. Qed.

Theorem rename_raw_bad_name_refused : forall s od on nd nn,
  valid_name on && valid_name nn = false -> rename_raw s od on nd nn = (s, EInvalid).
Proof. intros s od on nd nn H. unfold rename_raw. rewrite H. reflexivity. Qed.

Theorem rename_raw_cross_bucket_refused : forall s od on nd nn,
  can_rename (clean_dir od) (clean_dir nd) = false -> rename_raw s od on nd nn = (s, EInvalid).
Proof.
  intros s od on nd nn H. unfold rename_raw. rewrite H.
  destruct (negb (valid_name on && valid_name nn)); reflexivity.
Qed.

(* whatever the spelling of the two directories and whatever the names: when the NORMALISED target
   directory is the normalised source path or below it, the request is refused and nothing changes *)
Theorem rename_raw_into_own_subtree_refused : forall s od on nd nn,
  is_prefix (child (clean_dir od) on) (clean_dir nd) = true -> rename_raw s od on nd nn = (s, EInvalid).
Proof.
  intros s od on nd nn H. unfold rename_raw.
  destruct (negb (valid_name on && valid_name nn)); [reflexivity|].
  destruct (negb (can_rename (clean_dir od) (clean_dir nd))); [reflexivity|].
  apply rename_into_own_subtree_refused. exact H.
Qed.

(* a name with a '/' can no longer smuggle the target below the source: the request the audit
   confirmed on the code before the repair (/a -> "/" + "a/b") and its relatives *)
Theorem rename_raw_slash_name_refused : forall s od on nd nn,
  has_slash on = true \/ has_slash nn = true -> rename_raw s od on nd nn = (s, EInvalid).
Proof.
  intros s od on nd nn H. apply rename_raw_bad_name_refused.
  unfold valid_name. destruct H as [H|H]; rewrite H, ?orb_true_r; simpl; [reflexivity|apply andb_false_r].
Qed.

Theorem rename_raw_wf : forall s od on nd nn, wf s -> wf (fst (rename_raw s od on nd nn)).
Proof.
  intros s od on nd nn H. unfold rename_raw.
  destruct (negb (valid_name on && valid_name nn)); [exact H|].
  destruct (negb (can_rename (clean_dir od) (clean_dir nd))); [exact H|].
  apply rename_wf. exact H.
Qed.

Theorem xstep_wf : forall s x, wf s -> wf (fst (xstep s x)).
Proof. intros s [o|od on nd nn] H; simpl; [apply step_wf|apply rename_raw_wf]; exact H. Qed.

Theorem xfinal_wf : forall xs s, wf s -> wf (xfinal s xs).
Proof. induction xs as [|x xs IH]; intros s H; simpl; [exact H|]. apply IH, xstep_wf, H. Qed.

Theorem xrun_wf : forall xs s, wf s -> Forall (fun sr => wf (fst sr)) (xrun s xs).
Proof.
  induction xs as [|x xs IH]; intros s H; simpl; constructor.
  - apply xstep_wf, H.
  - apply IH, xstep_wf, H.
Qed.

(* outside the (narrow or wide) trigger a raw rename does what the reference says *)
Theorem rename_raw_ref : forall s od on nd nn, wf s ->
  valid_name on && valid_name nn && can_rename (clean_dir od) (clean_dir nd) &&
    rename_trigger s (clean_dir od) on (clean_dir nd) nn = false ->
  exists se, ref_rename_raw s od on nd nn = Some (se, snd (rename_raw s od on nd nn)) /\
             equiv (fst (rename_raw s od on nd nn)) se.
Proof.
  intros s od on nd nn Hwf H. unfold ref_rename_raw, rename_raw.
  destruct (valid_name on && valid_name nn); simpl in *; [|exists s; split; [reflexivity|intro; reflexivity]].
  destruct (can_rename (clean_dir od) (clean_dir nd)); simpl in *; [|exists s; split; [reflexivity|intro; reflexivity]].
  exact (step_ref s (Rename (clean_dir od) on (clean_dir nd) nn) Hwf H).
Qed.

(* ================= the narrow trigger ================= *)
Lemma narrow_implies_wide : forall s od on nd nn,
  rename_trigger_n s od on nd nn = true -> rename_trigger s od on nd nn = true.
Proof. intros s od on nd nn H. unfold rename_trigger_n in H. apply andb_true_iff in H. tauto. Qed.

Lemma wide_false_narrow_false : forall s o, op_trigger s o = false -> op_trigger_n s o = false.
Proof.
  intros s [p e x|p e|p r i|od on nd nn] H; simpl in *; try reflexivity.
  unfold rename_trigger_n. rewrite H. reflexivity.
Qed.

(* ================= the type flip inside the trigger (known finding 0, third witness) =================
   directory /a/b/a and file /a/b/b/a; then  mv /a/b -> /a :  the directory /a/b/a goes to /a/a, the
   file /a/b/b/a arrives at /a/b/a, and the final delete of /a/b fails on it (ENotEmpty) *)
Definition w_flip : store :=
  final [] [Create ["a"; "b"; "a"]%string (wD 1) false; Create ["a"; "b"; "b"; "a"]%string (wF 2) false].

Theorem rename_onto_ancestor_flips_type :
  exists s od on nd nn q a b,
    wf s /\ is_prefix (child od on) nd = false /\ rename_trigger_n s od on nd nn = true /\
    q <> [] /\ find s q = Some a /\ find (fst (rename s od on nd nn)) q = Some b /\ e_dir b <> e_dir a.
Proof.
  exists w_flip, ["a"%string], "b"%string, [], "a"%string, ["a"; "b"; "a"]%string. do 2 eexists.
  split; [apply wf_b_spec; vm_compute; reflexivity|].
  split; [vm_compute; reflexivity|].
  split; [vm_compute; reflexivity|].
  split; [discriminate|].
  split; [vm_compute; reflexivity|].
  split; [vm_compute; reflexivity|].
  vm_compute. discriminate.
Qed.

(* the two older witnesses are inside the NARROW trigger too *)
Theorem witnesses_inside_narrow_trigger :
  rename_trigger_n w_lost ["a"%string] "a"%string [] "a"%string = true /\
  rename_trigger_n w_half [] "a"%string [] "b"%string = true.
Proof. split; vm_compute; reflexivity. Qed.

(* ================= non-vacuity examples ================= *)
(* the spellings the audit tried on the code before the repair *)
Example ex_raw_requests :
  let s := final [] [Create ["a"; "x"]%string (wF 1) false] in
  rename_raw s "/" "a" "/" "a/b" = (s, EInvalid) /\
  rename_raw s "/" "a" "//a" "b" = (s, EInvalid) /\
  rename_raw s "/" "a" "/a/../a/./" "b" = (s, EInvalid) /\
  rename_raw s "/a" "" "/a/x2" "y" = (s, EInvalid) /\
  rename_raw s "/" "a" "/buckets/c" "a" = (s, EInvalid) /\
  clean_dir "//a/./b/../c/" = ["a"; "c"]%string /\ clean_dir "/../.." = [] /\ clean_dir "" = [] /\
  snd (rename_raw s "//a/" "x" "/b/../c" "y") = OK /\
  find (fst (rename_raw s "//a/" "x" "/b/../c" "y")) ["c"; "y"]%string = Some (wF 1).
Proof. vm_compute. repeat split; reflexivity. Qed.

(* a failing rename outside the trigger (hypotheses of the all-or-nothing theorem): a directory
   onto a file *)
Example ex_rename_fails_outside_trigger :
  let s := final [] [Create ["a"; "x"]%string (wF 1) false; Create ["b"]%string (wF 2) false] in
  wf s /\ rename_trigger s [] "a"%string [] "b"%string = false /\
  snd (rename s [] "a"%string [] "b"%string) = EIsFile.
Proof.
  cbv zeta. split; [apply final_wf, wf_nil|]. split; vm_compute; reflexivity.
Qed.

(* the hypotheses of the delete theorems *)
Example ex_delete_hypotheses :
  let s := final [] [Create ["a"; "b"; "x"]%string (wF 1) false; Create ["c"]%string (wF 2) false] in
  wf s /\ find s ["a"]%string = Some (implicit_dir (wF 1)) /\ has_children s ["a"]%string = true /\
  delete_entry s ["a"]%string false false = (s, ENotEmpty) /\
  snd (delete_entry s ["a"]%string true false) = OK /\
  keys (fst (delete_entry s ["a"]%string true false)) = [["c"]%string].
Proof.
  cbv zeta. split; [apply final_wf, wf_nil|]. vm_compute. repeat split; reflexivity.
Qed.

(* the hypotheses of the no-type-flip theorem: an update of a file by a directory is refused and a
   path present before and after a (non-trigger) rename keeps its type *)
Example ex_no_flip_hypotheses :
  let s := final [] [Create ["a"; "x"]%string (wF 1) false; Create ["b"; "x"]%string (wF 2) false] in
  let o := Rename [] "a"%string [] "c"%string in
  wf s /\ op_trigger s o = false /\
  find s ["b"; "x"]%string = Some (wF 2) /\ find (fst (step s o)) ["b"; "x"]%string = Some (wF 2) /\
  snd (step s (Update ["a"; "x"]%string (wD 9))) = EIsFile.
Proof.
  cbv zeta. split; [apply final_wf, wf_nil|]. vm_compute. repeat split; reflexivity.
Qed.
