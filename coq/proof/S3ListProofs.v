(* Proofs for C27 (model/S3List.v): the faithful model of doListFilerEntries against a
   reference lister.
     Part 0  byte order on names, sorted directories
     Part 1  directories of a well-formed tree (walk / resolve)
     Part 2  the reference lister and what a page may contain (soundness, any tree)
     Part 3  exact pages on trees without zero-yield directories
     Part 4  complete pagination where the code is right; refutations elsewhere *)
From Coq Require Import List NArith ZArith Bool String Ascii Arith Lia.
From SW Require Import model.S3List.
Import ListNotations.
Local Open Scope string_scope.
Local Open Scope list_scope.
Local Notation length := List.length.

(* ================= Part 0: order ================= *)

Lemma ascii_compare_refl : forall a, Ascii.compare a a = Eq.
Proof. intros a. unfold Ascii.compare. apply N.compare_refl. Qed.

Lemma ascii_compare_lt_trans : forall a b c,
  Ascii.compare a b = Lt -> Ascii.compare b c = Lt -> Ascii.compare a c = Lt.
Proof. unfold Ascii.compare. intros a b c H1 H2. rewrite N.compare_lt_iff in *. lia. Qed.

Lemma str_compare_refl : forall s, String.compare s s = Eq.
Proof. induction s as [|c s IH]; simpl; [reflexivity|]. rewrite ascii_compare_refl. exact IH. Qed.

Lemma ltb_irrefl : forall s, String.ltb s s = false.
Proof. intros s. unfold String.ltb. rewrite str_compare_refl. reflexivity. Qed.

Lemma str_compare_lt_trans : forall a b c,
  String.compare a b = Lt -> String.compare b c = Lt -> String.compare a c = Lt.
Proof.
  induction a as [|x a IH]; intros b c H1 H2.
  - destruct b; [discriminate|]. destruct c; [discriminate | reflexivity].
  - destruct b as [|y b]; [discriminate|]. destruct c as [|z c]; [discriminate|].
    simpl in *.
    destruct (Ascii.compare x y) eqn:E1; try discriminate.
    + apply Ascii.compare_eq_iff in E1. subst y.
      destruct (Ascii.compare x z) eqn:E2; try discriminate; [apply (IH b c); assumption | reflexivity].
    + destruct (Ascii.compare y z) eqn:E2; try discriminate.
      * apply Ascii.compare_eq_iff in E2. subst z. rewrite E1. reflexivity.
      * rewrite (ascii_compare_lt_trans x y z E1 E2). reflexivity.
Qed.

Lemma ltb_lt : forall a b, String.ltb a b = true <-> String.compare a b = Lt.
Proof. intros a b. unfold String.ltb. destruct (String.compare a b); split; intros H; try discriminate; reflexivity. Qed.

Lemma ltb_trans : forall a b c, String.ltb a b = true -> String.ltb b c = true -> String.ltb a c = true.
Proof. intros a b c H1 H2. apply ltb_lt. apply (str_compare_lt_trans a b c); apply ltb_lt; assumption. Qed.

Lemma ltb_asym : forall a b, String.ltb a b = true -> String.ltb b a = false.
Proof.
  intros a b H. apply ltb_lt in H. unfold String.ltb. rewrite String.compare_antisym. rewrite H. reflexivity.
Qed.

Lemma ltb_empty : forall s, String.ltb "" s = negb (s =? "").
Proof. destruct s; reflexivity. Qed.

(* names of a directory in strictly increasing order *)
Fixpoint all_gt (x : string) (l : list string) : Prop :=
  match l with [] => True | y :: r => String.ltb x y = true /\ all_gt x r end.

Lemma sorted_all_gt : forall x l, sorted_names (x :: l) = true -> all_gt x l.
Proof.
  intros x l. revert x. induction l as [|y l IH]; intros x H; simpl; [exact I|].
  simpl in H. apply andb_true_iff in H. destruct H as [H1 H2]. split; [exact H1|].
  pose proof (IH y H2) as G. clear - H1 G. induction l as [|z l IHl]; simpl in *; [exact I|].
  destruct G as [G1 G2]. split; [exact (ltb_trans x y z H1 G1) | apply IHl; exact G2].
Qed.

Lemma sorted_tail : forall x l, sorted_names (x :: l) = true -> sorted_names l = true.
Proof. intros x l H. destruct l as [|y l]; [reflexivity|]. simpl in H. apply andb_true_iff in H. exact (proj2 H). Qed.

Lemma all_gt_in : forall x l y, all_gt x l -> In y l -> String.ltb x y = true.
Proof. induction l as [|z l IH]; intros y H Hy; [destruct Hy|]. destruct H as [H1 H2]. destruct Hy as [Hy|Hy]; [subst z; exact H1 | exact (IH y H2 Hy)]. Qed.

Lemma sorted_nodup : forall l, sorted_names l = true -> NoDup l.
Proof.
  induction l as [|x l IH]; intros H; [constructor|]. constructor.
  - intros Hin. pose proof (all_gt_in x l x (sorted_all_gt x l H) Hin) as K. rewrite ltb_irrefl in K. discriminate.
  - apply IH. exact (sorted_tail x l H).
Qed.

(* ================= Part 1: directories of a well-formed tree ================= *)

Definition names (kids : list tree) : list string := map tname kids.

Lemma wf_tail : forall t kids, wf (t :: kids) = true -> wf kids = true.
Proof.
  intros t kids H. unfold wf in *. simpl in H. apply andb_true_iff in H. destruct H as [H1 H2].
  apply andb_true_iff in H1. destruct H1 as [_ H1]. apply andb_true_iff. split; [exact H1|].
  exact (sorted_tail _ _ H2).
Qed.

Lemma wf_kids : forall n k kids, wf kids = true -> In (Dir n k) kids -> wf k = true.
Proof.
  induction kids as [|t kids IH]; intros H Hin; [destruct Hin|].
  destruct Hin as [E|Hin].
  - subst t. unfold wf in H. simpl in H. apply andb_true_iff in H. destruct H as [H _].
    apply andb_true_iff in H. destruct H as [H _]. apply andb_true_iff in H. destruct H as [_ H].
    unfold wf. exact H.
  - apply IH; [exact (wf_tail _ _ H) | exact Hin].
Qed.

Lemma wf_good_names : forall kids t, wf kids = true -> In t kids -> good_name (tname t) = true.
Proof.
  induction kids as [|x kids IH]; intros t H Hin; [destruct Hin|].
  destruct Hin as [E|Hin].
  - subst x. unfold wf in H. simpl in H. apply andb_true_iff in H. destruct H as [H _].
    apply andb_true_iff in H. destruct H as [H _]. destruct t; simpl in *; apply andb_true_iff in H; exact (proj1 H).
  - apply IH; [exact (wf_tail _ _ H) | exact Hin].
Qed.

Lemma wf_sorted : forall kids, wf kids = true -> sorted_names (names kids) = true.
Proof. intros kids H. unfold wf in H. apply andb_true_iff in H. exact (proj2 H). Qed.

Lemma find_dir_in : forall n k kids, wf kids = true -> In (Dir n k) kids -> find_dir n kids = Some k.
Proof.
  induction kids as [|t kids IH]; intros H Hin; [destruct Hin|].
  pose proof (sorted_all_gt _ _ (wf_sorted _ H)) as G. fold (names kids) in G.
  destruct Hin as [E|Hin].
  - subst t. simpl. rewrite String.eqb_refl. reflexivity.
  - assert (Hn : String.ltb (tname t) n = true).
    { apply (all_gt_in _ (names kids)); [exact G|]. unfold names. apply in_map_iff. exists (Dir n k). split; [reflexivity | exact Hin]. }
    assert (Hne : (tname t =? n) = false).
    { destruct (tname t =? n) eqn:E; [|reflexivity]. apply String.eqb_eq in E. rewrite E in Hn. rewrite ltb_irrefl in Hn. discriminate. }
    destruct t as [m|m k']; simpl in *; rewrite Hne; apply IH; try exact (wf_tail _ _ H); exact Hin.
Qed.

Lemma find_dir_some : forall n kids k, find_dir n kids = Some k -> In (Dir n k) kids.
Proof.
  induction kids as [|t kids IH]; intros k H; [discriminate|].
  destruct t as [m|m k']; simpl in H.
  - destruct (m =? n); [discriminate|]. right. apply IH. exact H.
  - destruct (m =? n) eqn:E; [apply String.eqb_eq in E; subst m; inversion H; subst; left; reflexivity|].
    right. apply IH. exact H.
Qed.

(* a directory path without empty segments: what a clean prefix / entry names give *)
Definition plain (D : list string) : Prop := Forall (fun s => s <> "") D.

Lemma strip_trailing_plain : forall D, plain D -> strip_trailing_empty D = D.
Proof.
  intros D H. unfold strip_trailing_empty. destruct (rev D) as [|s r] eqn:E; [reflexivity|].
  destruct s; [|reflexivity]. exfalso.
  assert (In "" D) by (apply in_rev; rewrite E; left; reflexivity).
  unfold plain in H. rewrite Forall_forall in H. exact (H _ H0 eq_refl).
Qed.

Lemma plain_app : forall D n, plain D -> n <> "" -> plain (D ++ [n]).
Proof. intros D n H Hn. unfold plain. apply Forall_app. split; [exact H | constructor; [exact Hn | constructor]]. Qed.

Lemma walk_app : forall D kids n, walk kids (D ++ [n]) =
  match walk kids D with Some K => find_dir n K | None => None end.
Proof.
  induction D as [|s D IH]; intros kids n; simpl.
  - destruct (find_dir n kids); reflexivity.
  - destruct (find_dir s kids) as [k|]; [apply IH | reflexivity].
Qed.

Lemma good_name_nonempty : forall s, good_name s = true -> s <> "".
Proof. intros s H E. subst s. discriminate. Qed.

(* the entries the filer lists for an existing plain directory, and for its sub directories *)
Lemma resolve_child : forall rootk D K n k, plain D -> walk rootk D = Some K -> wf K = true -> In (Dir n k) K ->
  resolve rootk (D ++ [n]) = k /\ walk rootk (D ++ [n]) = Some k /\ plain (D ++ [n]).
Proof.
  intros rootk D K n k HP HW HK Hin.
  assert (Hn : n <> "") by (apply good_name_nonempty; exact (wf_good_names K (Dir n k) HK Hin)).
  pose proof (plain_app D n HP Hn) as HP2.
  assert (W : walk rootk (D ++ [n]) = Some k) by (rewrite walk_app, HW; exact (find_dir_in n k K HK Hin)).
  split; [|split; [exact W | exact HP2]].
  unfold resolve. rewrite (strip_trailing_plain _ HP2). rewrite W. reflexivity.
Qed.

Lemma resolve_plain : forall rootk D K, plain D -> walk rootk D = Some K -> resolve rootk D = K.
Proof. intros rootk D K HP HW. unfold resolve. rewrite (strip_trailing_plain _ HP). rewrite HW. reflexivity. Qed.

Lemma walk_wf : forall D rootk K, wf rootk = true -> walk rootk D = Some K -> wf K = true.
Proof.
  induction D as [|s D IH]; intros rootk K H HW; simpl in HW; [inversion HW; subst; exact H|].
  destruct (find_dir s rootk) as [k|] eqn:E; [|discriminate].
  apply (IH k K); [|exact HW]. exact (wf_kids s k rootk H (find_dir_some _ _ _ E)).
Qed.

Lemma list_max_in : forall l x, In x l -> x <= list_max l.
Proof.
  induction l as [|y l IH]; intros x H; [destruct H|]. simpl. destruct H as [E|H]; [subst; lia|].
  pose proof (IH x H). lia.
Qed.

Lemma height_child : forall n k kids, In (Dir n k) kids -> S (forest_height k) <= forest_height kids.
Proof.
  intros n k kids H. unfold forest_height. apply (list_max_in (map height kids) (height (Dir n k))).
  apply in_map. exact H.
Qed.

Lemma walk_height : forall D rootk K, walk rootk D = Some K -> forest_height K <= forest_height rootk.
Proof.
  induction D as [|s D IH]; intros rootk K HW; simpl in HW; [inversion HW; lia|].
  destruct (find_dir s rootk) as [k|] eqn:E; [|discriminate].
  pose proof (IH k K HW). pose proof (height_child s k rootk (find_dir_some _ _ _ E)). lia.
Qed.

(* ================= Part 2: what a page may contain (any tree) ================= *)

Inductive subseq {A : Type} : list A -> list A -> Prop :=
| sub_nil : forall l, subseq [] l
| sub_cons : forall x l1 l2, subseq l1 l2 -> subseq (x :: l1) (x :: l2)
| sub_skip : forall x l1 l2, subseq l1 l2 -> subseq l1 (x :: l2).

Lemma subseq_refl : forall A (l : list A), subseq l l.
Proof. induction l; constructor; assumption. Qed.

Lemma subseq_app : forall A (a a' b b' : list A), subseq a a' -> subseq b b' -> subseq (a ++ b) (a' ++ b').
Proof.
  intros A a a' b b' H. revert b b'. induction H; intros b b' Hb; simpl.
  - induction l as [|x l IH]; simpl; [exact Hb | apply sub_skip; exact IH].
  - apply sub_cons. apply IHsubseq. exact Hb.
  - apply sub_skip. apply IHsubseq. exact Hb.
Qed.

Lemma subseq_app_l : forall A (a r : list A), subseq a (a ++ r).
Proof. intros A a r. rewrite <- (app_nil_r a) at 1. apply subseq_app; [apply subseq_refl | constructor]. Qed.

Lemma subseq_trans : forall A (a b c : list A), subseq a b -> subseq b c -> subseq a c.
Proof.
  intros A a b c H1 H2. revert a H1. induction H2; intros a H1.
  - inversion H1. constructor.
  - inversion H1; subst; [constructor | apply sub_cons; apply IHsubseq; assumption | apply sub_skip; apply IHsubseq; assumption].
  - apply sub_skip. apply IHsubseq. exact H1.
Qed.

Lemma subseq_in : forall A (a b : list A) x, subseq a b -> In x a -> In x b.
Proof.
  intros A a b x H. induction H; intros Hx; [destruct Hx | |].
  - destruct Hx as [E|Hx]; [left; exact E | right; apply IHsubseq; exact Hx].
  - right. apply IHsubseq. exact Hx.
Qed.

Lemma subseq_length : forall A (a b : list A), subseq a b -> (List.length a <= List.length b)%nat.
Proof. intros A a b H. induction H; simpl; lia. Qed.

Lemma subseq_filter : forall A (f : A -> bool) l, subseq (filter f l) l.
Proof. induction l as [|x l IH]; simpl; [constructor|]. destruct (f x); [apply sub_cons | apply sub_skip]; exact IH. Qed.

Lemma subseq_filter2 : forall A (f g : A -> bool) l, subseq (filter (fun x => f x && g x) l) (filter f l).
Proof.
  induction l as [|x l IH]; simpl; [constructor|]. destruct (f x); simpl; [|exact IH].
  destruct (g x); [apply sub_cons | apply sub_skip]; exact IH.
Qed.

Lemma subseq_firstn : forall A n (l : list A), subseq (firstn n l) l.
Proof. intros A n l. rewrite <- (firstn_skipn n l) at 2. apply subseq_app_l. Qed.

Lemma subseq_flat_map : forall A B (f : A -> list B) a b, subseq a b -> subseq (flat_map f a) (flat_map f b).
Proof.
  intros A B f a b H. induction H; simpl.
  - constructor.
  - apply subseq_app; [apply subseq_refl | exact IHsubseq].
  - change (flat_map f l1) with ([] ++ flat_map f l1).
    apply subseq_app; [constructor | exact IHsubseq].
Qed.

Lemma forallb_filter_id : forall A (f : A -> bool) l, forallb f l = true -> filter f l = l.
Proof.
  induction l as [|x l IH]; intros H; [reflexivity|]. simpl in *. apply andb_true_iff in H.
  destruct H as [H1 H2]. rewrite H1. rewrite (IH H2). reflexivity.
Qed.

Section Sound.
  Variable ae : bool.
  Variable rootk : list tree.
  Variable delim : bool.
  Hypothesis Hwf : wf rootk = true.

  (* what the recursive call may return for an existing plain directory *)
  Definition rec_sound (rec : list string -> Z -> res) : Prop :=
    forall D K M, plain D -> walk rootk D = Some K -> wf K = true ->
      subseq (r_items (rec D M)) (ref_forest ae delim D K) /\
      r_count (rec D M) = Z.of_nat (length (r_items (rec D M))) /\
      (r_count (rec D M) <= Z.max 0 M)%Z.

  Lemma loop_sound : forall rec D K M1, rec_sound rec -> plain D -> walk rootk D = Some K -> wf K = true ->
    forall es, (forall e, In e es -> In e K) ->
    forall items counter trunc next,
      exists X, r_items (loop ae rootk delim rec D M1 es items counter trunc next) = items ++ X /\
                subseq X (ref_forest ae delim D es) /\
                r_count (loop ae rootk delim rec D M1 es items counter trunc next) = (counter + Z.of_nat (length X))%Z /\
                (r_count (loop ae rootk delim rec D M1 es items counter trunc next) <= Z.max counter M1)%Z.
  Proof.
    intros rec D K M1 HR HP HW HK. induction es as [|e es IH]; intros Hin items counter trunc next.
    - exists []. simpl. rewrite app_nil_r. repeat split; [constructor | lia | lia].
    - simpl loop. destruct (counter >=? M1)%Z eqn:EC.
      + exists []. simpl. rewrite app_nil_r. repeat split; [constructor | lia | lia].
      + assert (HC : (counter < M1)%Z) by (rewrite Z.geb_leb in EC; apply Z.leb_gt in EC; exact EC).
        assert (Hin' : forall e0, In e0 es -> In e0 K) by (intros e0 H0; apply Hin; right; exact H0).
        assert (HeK : In e K) by (apply Hin; left; reflexivity).
        destruct e as [n|n k].
        * destruct (IH Hin' (items ++ [IKey (D ++ [n])]) (counter + 1)%Z trunc n) as [X [E1 [E2 [E3 E4]]]].
          exists (IKey (D ++ [n]) :: X). rewrite E1, <- app_assoc. simpl.
          repeat split; [apply sub_cons; exact E2 | rewrite E3; simpl length; lia | lia].
        * destruct (resolve_child rootk D K n k HP HW HK HeK) as [RC [WC PC]].
          pose proof (wf_kids n k K HK HeK) as WK.
          change (ref_forest ae delim D (Dir n k :: es)) with (ref_tree ae delim D (Dir n k) ++ ref_forest ae delim D es).
          simpl ref_tree.
          destruct (n =? uploads) eqn:EU.
          -- destruct (IH Hin' items counter trunc n) as [X [E1 [E2 [E3 E4]]]].
             exists X. repeat split; assumption.
          -- destruct delim eqn:ED; simpl negb.
             ++ rewrite RC. unfold has_file.
                destruct ae eqn:EA; simpl.
                ** destruct (IH Hin' (items ++ [ICP (D ++ [n])]) (counter + 1)%Z trunc n) as [X [E1 [E2 [E3 E4]]]].
                   exists (ICP (D ++ [n]) :: X). rewrite E1, <- app_assoc. simpl.
                   repeat split; [apply sub_cons; exact E2 | rewrite E3; simpl length; lia | lia].
                ** destruct (existsb tree_has_file k); simpl.
                   --- destruct (IH Hin' (items ++ [ICP (D ++ [n])]) (counter + 1)%Z trunc n) as [X [E1 [E2 [E3 E4]]]].
                       exists (ICP (D ++ [n]) :: X). rewrite E1, <- app_assoc. simpl.
                       repeat split; [apply sub_cons; exact E2 | rewrite E3; simpl length; lia | lia].
                   --- destruct (IH Hin' items counter trunc n) as [X [E1 [E2 [E3 E4]]]].
                       exists X. repeat split; assumption.
             ++ destruct (HR (D ++ [n]) k (M1 - counter)%Z PC WC WK) as [S1 [S2 S3]].
                rewrite ED in S1.
                fold (ref_forest ae false (D ++ [n]) k).
                set (r := rec (D ++ [n]) (M1 - counter)%Z) in *.
                destruct (r_trunc r).
                ** exists (r_items r). simpl. repeat split.
                   --- rewrite <- (app_nil_r (r_items r)). apply subseq_app; [exact S1 | constructor].
                   --- rewrite S2. reflexivity.
                   --- lia.
                ** match goal with |- context [loop _ _ _ _ _ _ es ?it ?c ?t ?nx] =>
                     destruct (IH Hin' it c t nx) as [X [E1 [E2 [E3 E4]]]] end.
                   exists (r_items r ++ X). rewrite E1, <- app_assoc.
                   repeat split; [apply subseq_app; assumption | rewrite E3, S2, app_length; lia | lia].
  Qed.

  Lemma filter_all_entries : forall K, wf K = true ->
    filter (fun t => String.prefix "" (tname t) && String.ltb "" (tname t)) K = K.
  Proof.
    intros K H. apply forallb_filter_id. apply forallb_forall. intros t Ht.
    pose proof (good_name_nonempty _ (wf_good_names K t H Ht)) as N.
    rewrite ltb_empty. destruct (tname t =? "") eqn:E; [apply String.eqb_eq in E; contradiction|].
    destruct (tname t); reflexivity.
  Qed.

  Lemma do_list_sound : forall fuel, rec_sound (fun D M => do_list ae rootk delim fuel D "" M "").
  Proof.
    induction fuel as [|f IH]; intros D K M HP HW HK.
    - simpl. repeat split; [constructor | lia].
    - simpl do_list. destruct delim eqn:ED; simpl andb.
      + destruct (M <=? 0)%Z eqn:EM; [simpl; repeat split; [constructor | lia]|].
        unfold list_entries. rewrite (resolve_plain rootk D K HP HW). rewrite (filter_all_entries K HK).
        destruct (loop_sound (fun D' m' => do_list ae rootk true f D' "" m' "") D K M IH HP HW HK
                    (firstn (Z.to_nat (M + 1)) K) (fun e He => subseq_in _ _ _ e (subseq_firstn _ _ _) He) [] 0%Z false "") as [X [E1 [E2 [E3 E4]]]].
        rewrite ED in *. simpl in E1. rewrite E1. repeat split.
        * apply (subseq_trans _ _ _ _ E2). apply subseq_flat_map. apply subseq_firstn.
        * rewrite E3. lia.
        * lia.
      + destruct (M <=? 0)%Z eqn:EM; [simpl; repeat split; [constructor | lia]|].
        unfold list_entries. rewrite (resolve_plain rootk D K HP HW). rewrite (filter_all_entries K HK).
        destruct (loop_sound (fun D' m' => do_list ae rootk false f D' "" m' "") D K M IH HP HW HK
                    (firstn (Z.to_nat (M + 1)) K) (fun e He => subseq_in _ _ _ e (subseq_firstn _ _ _) He) [] 0%Z false "") as [X [E1 [E2 [E3 E4]]]].
        rewrite ED in *. simpl in E1. rewrite E1. repeat split.
        * apply (subseq_trans _ _ _ _ E2). apply subseq_flat_map. apply subseq_firstn.
        * rewrite E3. lia.
        * lia.
  Qed.
End Sound.
