(* Proofs about model/HttpRange.v (C32): int64 arithmetic, the structured parser against the
   RFC reference, the response for in-bounds ranges (single and multipart, with the framing
   arithmetic), the partial theorems on parsed ranges.  The text parser is in
   proof/HttpRangeParseProofs.v.  NOTE: parse_spec_ref is also used by C28. *)
From Coq Require Import List NArith ZArith Bool String Ascii Lia.
From Coq Require Import ZifyBool ZifyN ZifyNat.
From SW Require Import model.HttpRange.
Import ListNotations.
Local Open Scope Z_scope.
Ltac Zify.zify_post_hook ::= Z.div_mod_to_equations.

(* ------------------------------------------------------------------ *)
(* int64 *)
Lemma int64_max_val : int64_max = 9223372036854775807.
Proof. reflexivity. Qed.
Lemma int64_min_val : int64_min = -9223372036854775808.
Proof. reflexivity. Qed.

Lemma wrap64_eq : forall z, wrap64 z = (z + 9223372036854775808) mod 18446744073709551616 - 9223372036854775808.
Proof. reflexivity. Qed.

Lemma wrap64_id : forall z, int64_min <= z <= int64_max -> wrap64 z = z.
Proof. intros z. rewrite int64_min_val, int64_max_val, wrap64_eq. intros H. lia. Qed.

Lemma wrap64_range : forall z, int64_min <= wrap64 z <= int64_max.
Proof. intros z. rewrite int64_min_val, int64_max_val, wrap64_eq. lia. Qed.

(* r.length = size - (size - i) in int64 arithmetic is i again *)
Lemma wrap64_sub_sub : forall size i, int64_min <= i <= int64_max ->
  wrap64 (size - wrap64 (size - i)) = i.
Proof. intros size i. rewrite int64_min_val, int64_max_val, !wrap64_eq. intros H. lia. Qed.

(* ------------------------------------------------------------------ *)
(* boolean equalities are reflexive *)
Lemma blob_eqb_refl : forall b, blob_eqb b b = true.
Proof. induction b as [|x b IH]; simpl; auto. rewrite N.eqb_refl. auto. Qed.
Lemma crange_eqb_refl : forall c, crange_eqb c c = true.
Proof. intros [[a b] c]. unfold crange_eqb. rewrite !Z.eqb_refl. reflexivity. Qed.
Lemma parts_eqb_refl : forall p, parts_eqb p p = true.
Proof.
  induction p as [|x p IH]; simpl; auto. unfold part_eqb.
  rewrite crange_eqb_refl, blob_eqb_refl, IH. reflexivity.
Qed.
Lemma oz_eqb_refl : forall o, oz_eqb o o = true.
Proof. intros [z|]; simpl; auto. apply Z.eqb_refl. Qed.
Lemma ranges_eqb_refl : forall l, ranges_eqb l l = true.
Proof.
  induction l as [|x l IH]; simpl; auto. unfold range_eqb. rewrite !Z.eqb_refl, IH. reflexivity.
Qed.

Lemma blob_eqb_eq : forall a b, blob_eqb a b = true -> a = b.
Proof.
  induction a as [|x a IH]; intros [|y b] H; simpl in H; try discriminate; auto.
  apply andb_true_iff in H. destruct H as [H1 H2]. apply N.eqb_eq in H1. subst. f_equal. auto.
Qed.

(* ------------------------------------------------------------------ *)
(* slices *)
Lemma blen_nonneg : forall d, 0 <= blen d.
Proof. intros. unfold blen. lia. Qed.

Lemma slice_len : forall d off len, 0 <= off -> 0 < len -> off + len <= blen d ->
  blen (slice d off len) = len.
Proof.
  intros d off len H0 H1 H2. unfold slice.
  destruct ((off <? 0) || (len <=? 0) || (blen d <=? off)) eqn:E; [lia|].
  unfold blen in *. rewrite firstn_length, skipn_length. lia.
Qed.

Lemma write_fn_ok : forall d off len, 0 <= off -> 0 < len -> off + len <= blen d ->
  write_fn d off len = (slice d off len, 0%N).
Proof.
  intros d off len H0 H1 H2. unfold write_fn.
  destruct (off <? 0) eqn:E; [lia|].
  rewrite slice_len by assumption. rewrite Z.ltb_irrefl. reflexivity.
Qed.

Lemma write_fn_fst : forall d off len, 0 <= off -> fst (write_fn d off len) = slice d off len.
Proof. intros d off len H. unfold write_fn. destruct (off <? 0) eqn:E; [lia|]. reflexivity. Qed.

(* ------------------------------------------------------------------ *)
(* the structured parser: closed forms (the "requested bytes") *)

Definition in_bounds (size : Z) (r : range) : Prop := 0 <= fst r /\ 0 < snd r /\ fst r + snd r <= size.

Lemma ref_spec_in_bounds : forall sp size r, ref_spec sp size = Some r -> in_bounds size r.
Proof.
  intros [a b|a|n] size r H; unfold ref_spec in H; cbv zeta in H.
  - destruct ((Z.of_N a <=? Z.of_N b) && (Z.of_N a <? size)) eqn:E; [|discriminate].
    injection H as <-. unfold in_bounds. simpl. lia.
  - destruct (Z.of_N a <? size) eqn:E; [|discriminate].
    injection H as <-. unfold in_bounds. simpl. lia.
  - destruct ((0 <? Z.of_N n) && (0 <? size)) eqn:E; [|discriminate].
    injection H as <-. unfold in_bounds. simpl. lia.
Qed.

(* whenever the RFC says a spec selects bytes, the arithmetic of parseRange computes exactly those *)
Lemma parse_spec_ref : forall sp size r, ref_spec sp size = Some r -> parse_spec sp size = Some r.
Proof.
  intros [a b|a|n] size r H; unfold ref_spec in H; cbv zeta in H; unfold parse_spec; cbv zeta.
  - destruct ((Z.of_N a <=? Z.of_N b) && (Z.of_N a <? size)) eqn:E; [|discriminate].
    injection H as <-.
    destruct (Z.of_N a >? size) eqn:E1; [lia|].
    destruct (Z.of_N a >? Z.of_N b) eqn:E2; [lia|].
    destruct (Z.of_N b >=? size) eqn:E3; f_equal; f_equal; lia.
  - destruct (Z.of_N a <? size) eqn:E; [|discriminate].
    injection H as <-. destruct (Z.of_N a >? size) eqn:E1; [lia|]. reflexivity.
  - destruct ((0 <? Z.of_N n) && (0 <? size)) eqn:E; [|discriminate].
    injection H as <-. destruct (Z.of_N n >? size) eqn:E1; f_equal; f_equal; lia.
Qed.

(* conversely a parsed range of non-zero length is the RFC's range *)
Lemma parse_spec_nonzero : forall sp size r, 0 <= size ->
  parse_spec sp size = Some r -> snd r <> 0 -> ref_spec sp size = Some r.
Proof.
  intros [a b|a|n] size r Hs H Hnz; unfold parse_spec in H; cbv zeta in H; unfold ref_spec; cbv zeta.
  - destruct (Z.of_N a >? size) eqn:E1; [discriminate|].
    destruct (Z.of_N a >? Z.of_N b) eqn:E2; [discriminate|].
    destruct (Z.of_N b >=? size) eqn:E3; injection H as <-; simpl in Hnz.
    + destruct ((Z.of_N a <=? Z.of_N b) && (Z.of_N a <? size)) eqn:E; [|lia]. f_equal. f_equal. lia.
    + destruct ((Z.of_N a <=? Z.of_N b) && (Z.of_N a <? size)) eqn:E; [|lia]. f_equal. f_equal. lia.
  - destruct (Z.of_N a >? size) eqn:E1; [discriminate|]. injection H as <-. simpl in Hnz.
    destruct (Z.of_N a <? size) eqn:E; [reflexivity|lia].
  - destruct (Z.of_N n >? size) eqn:E1; injection H as <-; simpl in Hnz.
    + destruct ((0 <? Z.of_N n) && (0 <? size)) eqn:E; [|lia]. f_equal. f_equal; lia.
    + destruct ((0 <? Z.of_N n) && (0 <? size)) eqn:E; [|lia]. f_equal. f_equal; lia.
Qed.

Lemma parse_spec_len_nonneg : forall sp size r, 0 <= size -> parse_spec sp size = Some r -> 0 <= snd r.
Proof.
  intros [a b|a|n] size r Hs H; unfold parse_spec in H; cbv zeta in H.
  - destruct (Z.of_N a >? size) eqn:E1; [discriminate|].
    destruct (Z.of_N a >? Z.of_N b) eqn:E2; [discriminate|].
    destruct (Z.of_N b >=? size) eqn:E3; injection H as <-; simpl; lia.
  - destruct (Z.of_N a >? size) eqn:E1; [discriminate|]. injection H as <-. simpl. lia.
  - destruct (Z.of_N n >? size) eqn:E1; injection H as <-; simpl; lia.
Qed.

Lemma parse_spec_start_le : forall sp size r, 0 <= size -> parse_spec sp size = Some r -> 0 <= fst r <= size.
Proof.
  intros [a b|a|n] size r Hs H; unfold parse_spec in H; cbv zeta in H.
  - destruct (Z.of_N a >? size) eqn:E1; [discriminate|].
    destruct (Z.of_N a >? Z.of_N b) eqn:E2; [discriminate|].
    destruct (Z.of_N b >=? size) eqn:E3; injection H as <-; simpl; lia.
  - destruct (Z.of_N a >? size) eqn:E1; [discriminate|]. injection H as <-. simpl. lia.
  - destruct (Z.of_N n >? size) eqn:E1; injection H as <-; simpl; lia.
Qed.

(* the faithful structured parser = the arithmetic, unless a number does not fit int64 *)
Lemma parse_spec64_small : forall sp size, spec_big sp = false -> parse_spec64 sp size = parse_spec sp size.
Proof. intros sp size H. unfold parse_spec64. rewrite H. reflexivity. Qed.
Lemma parse_spec64_big : forall sp size, spec_big sp = true -> parse_spec64 sp size = None.
Proof. intros sp size H. unfold parse_spec64. rewrite H. reflexivity. Qed.
Lemma parse_spec64_some : forall sp size r, parse_spec64 sp size = Some r ->
  parse_spec sp size = Some r /\ spec_big sp = false.
Proof. intros sp size r H. unfold parse_spec64 in H. destruct (spec_big sp); [discriminate|auto]. Qed.

(* whenever the RFC says a spec selects bytes and its numbers fit int64, parseRange computes exactly those *)
Lemma parse_spec64_ref : forall sp size r, spec_big sp = false ->
  ref_spec sp size = Some r -> parse_spec64 sp size = Some r.
Proof. intros sp size r Hb H. rewrite parse_spec64_small by assumption. apply parse_spec_ref. assumption. Qed.

Lemma num_big_false : forall n, Z.of_N n <= int64_max -> num_big n = false.
Proof. intros n H. unfold num_big. lia. Qed.

(* the three single-range forms, explicitly *)
Lemma parse_closed : forall a b size, size <= int64_max -> Z.of_N b <= int64_max ->
  (a <= b)%N -> Z.of_N a < size ->
  parse_specs [RClosed a b] size = Some [(Z.of_N a, Z.min (Z.of_N b) (size - 1) - Z.of_N a + 1)].
Proof.
  intros a b size Hs Hb Hab Ha. unfold parse_specs.
  rewrite (parse_spec64_ref (RClosed a b) size (Z.of_N a, Z.min (Z.of_N b) (size - 1) - Z.of_N a + 1)); auto.
  - simpl. rewrite !num_big_false by lia. reflexivity.
  - unfold ref_spec. cbv zeta.
    destruct ((Z.of_N a <=? Z.of_N b) && (Z.of_N a <? size)) eqn:E; [reflexivity|lia].
Qed.
Lemma parse_from : forall a size, size <= int64_max -> Z.of_N a < size ->
  parse_specs [RFrom a] size = Some [(Z.of_N a, size - Z.of_N a)].
Proof.
  intros a size Hs Ha. unfold parse_specs, parse_spec64. simpl spec_big.
  rewrite num_big_false by lia. unfold parse_spec. cbv zeta.
  destruct (Z.of_N a >? size) eqn:E; [lia|reflexivity].
Qed.
Lemma parse_suffix : forall n size, 0 <= size -> Z.of_N n <= int64_max ->
  parse_specs [RSuffix n] size = Some [(size - Z.min (Z.of_N n) size, Z.min (Z.of_N n) size)].
Proof.
  intros n size Hs Hn. unfold parse_specs, parse_spec64. simpl spec_big.
  rewrite num_big_false by lia. unfold parse_spec. cbv zeta.
  destruct (Z.of_N n >? size) eqn:E; f_equal; f_equal; f_equal; lia.
Qed.
(* first-byte-pos beyond the size: the whole header is refused; first-byte-pos = size is NOT *)
Lemma parse_start_beyond : forall a b size, size < Z.of_N a -> parse_specs [RClosed a b] size = None.
Proof.
  intros a b size H. unfold parse_specs, parse_spec64.
  destruct (spec_big (RClosed a b)); [reflexivity|]. unfold parse_spec. cbv zeta.
  destruct (Z.of_N a >? size) eqn:E; [reflexivity|lia].
Qed.
Lemma parse_start_at_size : forall b size, 0 <= size <= int64_max -> (Z.to_N size <= b)%N ->
  Z.of_N b <= int64_max ->
  parse_specs [RClosed (Z.to_N size) b] size = Some [(size, 0)].
Proof.
  intros b size Hs Hb Hb2. unfold parse_specs, parse_spec64. simpl spec_big.
  rewrite !num_big_false by lia. unfold parse_spec. cbv zeta. cbn [orb].
  rewrite Z2N.id by lia.
  destruct (size >? size) eqn:E1; [lia|].
  destruct (size >? Z.of_N b) eqn:E2; [lia|].
  destruct (Z.of_N b >=? size) eqn:E3; [|lia].
  f_equal. f_equal. f_equal. lia.
Qed.
(* a number above int64 max: "invalid range" *)
Lemma parse_big : forall sp size, spec_big sp = true -> parse_specs [sp] size = None.
Proof. intros sp size H. unfold parse_specs. rewrite parse_spec64_big by assumption. reflexivity. Qed.

(* ------------------------------------------------------------------ *)
(* the structured parser against the reference ranges *)

Lemma parse_specs_none : forall sps size, parse_specs sps size = None ->
  existsb (spec_start_beyond size) sps = true \/ existsb spec_invalid sps = true \/ existsb spec_big sps = true.
Proof.
  induction sps as [|sp sps IH]; intros size H; simpl in H; [discriminate|].
  destruct (parse_spec64 sp size) as [r|] eqn:E.
  - destruct (parse_specs sps size) as [rs|] eqn:E2; [discriminate|].
    destruct (IH size E2) as [H1|[H1|H1]]; [left|right; left|right; right]; simpl; rewrite H1; apply orb_true_r.
  - clear IH H. unfold parse_spec64 in E. destruct (spec_big sp) eqn:Eb.
    { right. right. simpl. rewrite Eb. reflexivity. }
    destruct sp as [a b|a|n]; unfold parse_spec in E; cbv zeta in E.
    + destruct (Z.of_N a >? size) eqn:E1.
      * left. simpl. rewrite E1. reflexivity.
      * destruct (Z.of_N a >? Z.of_N b) eqn:E2; [|destruct (Z.of_N b >=? size); discriminate].
        right. left. simpl. replace (b <? a)%N with true by lia. reflexivity.
    + destruct (Z.of_N a >? size) eqn:E1; [|discriminate]. left. simpl. rewrite E1. reflexivity.
    + destruct (Z.of_N n >? size); discriminate.
Qed.

Lemma parse_specs_some : forall sps size rs, 0 <= size ->
  parse_specs sps size = Some rs -> has_zero_length rs = false ->
  rs = ref_ranges sps size.
Proof.
  induction sps as [|sp sps IH]; intros size rs Hs H Hz; simpl in H.
  - injection H as <-. reflexivity.
  - destruct (parse_spec64 sp size) as [r|] eqn:E; [|discriminate].
    destruct (parse_specs sps size) as [rs'|] eqn:E2; [|discriminate].
    injection H as <-. simpl in Hz. apply orb_false_iff in Hz. destruct Hz as [Hz1 Hz2].
    apply parse_spec64_some in E. destruct E as [E _].
    simpl. rewrite (parse_spec_nonzero sp size r Hs E) by lia.
    f_equal. apply IH; auto.
Qed.

Lemma ref_ranges_in_bounds : forall sps size r, In r (ref_ranges sps size) -> in_bounds size r.
Proof.
  induction sps as [|sp sps IH]; intros size r H; simpl in H; [contradiction|].
  destruct (ref_spec sp size) as [r0|] eqn:E; auto.
  destruct H as [H|H]; auto. subst. eapply ref_spec_in_bounds; eauto.
Qed.

Lemma parse_specs_no_negative : forall sps size rs, 0 <= size ->
  parse_specs sps size = Some rs -> has_negative_length rs = false.
Proof.
  induction sps as [|sp sps IH]; intros size rs Hs H; simpl in H.
  - injection H as <-. reflexivity.
  - destruct (parse_spec64 sp size) as [r|] eqn:E; [|discriminate].
    destruct (parse_specs sps size) as [rs'|] eqn:E2; [|discriminate].
    injection H as <-. simpl. rewrite (IH size rs' Hs E2).
    apply parse_spec64_some in E. destruct E as [E _].
    pose proof (parse_spec_len_nonneg sp size r Hs E). rewrite orb_false_r. lia.
Qed.

Lemma parse_specs_start_le : forall sps size rs, 0 <= size ->
  parse_specs sps size = Some rs -> existsb (fun ra : range => fst ra >? size) rs = false.
Proof.
  induction sps as [|sp sps IH]; intros size rs Hs H; simpl in H.
  - injection H as <-. reflexivity.
  - destruct (parse_spec64 sp size) as [r|] eqn:E; [|discriminate].
    destruct (parse_specs sps size) as [rs'|] eqn:E2; [|discriminate].
    injection H as <-. simpl. rewrite (IH size rs' Hs E2).
    apply parse_spec64_some in E. destruct E as [E _].
    pose proof (parse_spec_start_le sp size r Hs E). rewrite orb_false_r. lia.
Qed.

(* ------------------------------------------------------------------ *)
(* the size of the multipart framing *)

Lemma ndigits_pos : forall f n, 1 <= ndigits f n.
Proof.
  induction f as [|f IH]; intros n; cbn [ndigits]; [lia|].
  destruct (n <? 10); [lia|]. generalize (IH (n / 10)). generalize (ndigits f (n / 10)). intros k Hk. lia.
Qed.
Lemma dec_len_pos : forall z, 1 <= dec_len z.
Proof.
  intros z. unfold dec_len. destruct (z <? 0).
  - pose proof (ndigits_pos 20 (- z)). lia.
  - apply ndigits_pos.
Qed.
Lemma cr_len_pos : forall c, 0 <= cr_len c.
Proof.
  intros [[a b] s]. unfold cr_len.
  pose proof (dec_len_pos a). pose proof (dec_len_pos b). pose proof (dec_len_pos s). lia.
Qed.
Lemma boundary_len_val : boundary_len = 60. Proof. reflexivity. Qed.
Lemma closing_len_val : closing_len = 68. Proof. reflexivity. Qed.
Lemma part_hdr_len_pos : forall first c ctlen, 0 <= ctlen -> 0 <= part_hdr_len first c ctlen.
Proof.
  intros first c ctlen H. unfold part_hdr_len. rewrite boundary_len_val.
  pose proof (cr_len_pos c). destruct first; lia.
Qed.
Lemma mp_hdrs_pos : forall size ctlen rs first, 0 <= ctlen -> 0 <= mp_hdrs size ctlen first rs.
Proof.
  intros size ctlen rs. induction rs as [|r rs IH]; intros first H; simpl; [lia|].
  pose proof (part_hdr_len_pos first (content_range r size) ctlen H). specialize (IH false H). lia.
Qed.
Lemma slen_nonneg : forall s, 0 <= slen s.
Proof. intros. unfold slen. lia. Qed.

Lemma sum_lens_nonneg : forall rs, (forall r, In r rs -> 0 <= snd r) -> 0 <= sum_lens rs.
Proof.
  induction rs as [|r rs IH]; intros H; [unfold sum_lens; simpl; lia|].
  pose proof (H r (or_introl eq_refl)). assert (0 <= sum_lens rs) by (apply IH; intros; apply H; right; assumption).
  change (sum_lens (r :: rs)) with (snd r + sum_lens rs). lia.
Qed.

(* sumRangesSize does not wrap when the exact sum fits *)
Lemma sum_ranges_nowrap_acc : forall rs acc, 0 <= acc -> (forall r, In r rs -> 0 <= snd r) ->
  acc + sum_lens rs <= int64_max ->
  fold_left (fun acc r => wrap64 (acc + snd r)) rs acc = acc + sum_lens rs.
Proof.
  induction rs as [|r rs IH]; intros acc Ha Hp Hm.
  - unfold sum_lens. simpl. lia.
  - assert (H0 : 0 <= snd r) by (apply Hp; left; reflexivity).
    assert (H1 : 0 <= sum_lens rs) by (apply sum_lens_nonneg; intros; apply Hp; right; assumption).
    assert (E : sum_lens (r :: rs) = snd r + sum_lens rs) by reflexivity.
    rewrite E in *. cbn [fold_left].
    rewrite wrap64_id by (rewrite int64_min_val; lia).
    rewrite IH; [lia|lia| |lia]. intros; apply Hp; right; assumption.
Qed.
Lemma sum_ranges_nowrap : forall rs, (forall r, In r rs -> 0 <= snd r) ->
  sum_lens rs <= int64_max -> sum_ranges rs = sum_lens rs.
Proof.
  intros rs Hp Hm. unfold sum_ranges. rewrite sum_ranges_nowrap_acc; auto; lia.
Qed.

(* ------------------------------------------------------------------ *)
(* response for a list of in-bounds ranges *)

Lemma content_range_in_bounds : forall size r, size <= int64_max -> in_bounds size r ->
  content_range r size = (fst r, fst r + snd r - 1, size).
Proof.
  intros size r Hm [H0 [H1 H2]]. unfold content_range.
  rewrite wrap64_id; [reflexivity|]. rewrite int64_min_val. lia.
Qed.

Lemma no_start_beyond : forall size rs, (forall r, In r rs -> in_bounds size r) ->
  existsb (fun ra : range => fst ra >? size) rs = false.
Proof.
  induction rs as [|r rs IH]; intros H; simpl; auto.
  rewrite IH by (intros; apply H; right; assumption).
  destruct (H r (or_introl eq_refl)) as [H0 [H1 H2]]. rewrite orb_false_r. lia.
Qed.

(* the writer goroutine on in-bounds ranges: every part complete, no abort *)
Lemma mp_write_in_bounds : forall d ctlen rs first, (forall r, In r rs -> in_bounds (blen d) r) ->
  mp_write d ctlen first rs = (expected_parts d rs, mp_hdrs (blen d) ctlen first rs + sum_lens rs, false).
Proof.
  intros d ctlen rs. induction rs as [|r rs IH]; intros first H.
  - reflexivity.
  - destruct (H r (or_introl eq_refl)) as [H0 [H1 H2]].
    cbn [mp_write]. rewrite write_fn_ok by assumption. cbn [N.eqb].
    rewrite (IH false) by (intros; apply H; right; assumption).
    rewrite slice_len by assumption.
    assert (E : sum_lens (r :: rs) = snd r + sum_lens rs) by reflexivity. rewrite E.
    cbn [expected_parts map mp_hdrs]. f_equal. f_equal. lia.
Qed.

(* the 206 answer for a non-empty list of in-bounds ranges carries exactly these slices;
   a multipart body is complete and its Content-Length is its size *)
Lemma process_in_bounds : forall d rs enc ct, rs <> [] ->
  (forall r, In r rs -> in_bounds (blen d) r) -> sum_ranges rs >? blen d = false ->
  mp_fits (blen d) (slen ct) rs = true ->
  let resp := process_parsed (Some rs) d enc ct in
  r_status resp = 206%N /\ resp_parts resp = expected_parts d rs /\ no_write_error resp = true /\
  mp_framing_ok resp = true /\
  (is_multipart resp = false -> exists r, rs = [r] /\ r_cl resp = Some (snd r)).
Proof.
  intros d rs enc ct Hne Hin Hsum Hfit. unfold process_parsed. rewrite Hsum.
  destruct rs as [|r1 [|r2 rs]]; [congruence| |].
  - destruct (Hin r1 (or_introl eq_refl)) as [H0 [H1 H2]].
    rewrite write_fn_ok by assumption. simpl. repeat split; auto.
    intros _. exists r1. split; reflexivity.
  - rewrite no_start_beyond by assumption.
    set (rs' := r1 :: r2 :: rs) in *.
    assert (Hp : forall r, In r rs' -> 0 <= snd r) by (intros r Hr; destruct (Hin r Hr) as [_ [G _]]; lia).
    pose proof (sum_lens_nonneg rs' Hp) as Hl0.
    pose proof (mp_hdrs_pos (blen d) (slen ct) rs' true (slen_nonneg ct)) as Hh0.
    unfold mp_fits in Hfit. unfold mp_overhead in *. rewrite closing_len_val in *.
    rewrite sum_ranges_nowrap by (auto; lia).
    rewrite wrap64_id by (rewrite int64_min_val; lia).
    rewrite mp_write_in_bounds by assumption. cbv zeta. cbn [negb andb].
    replace (sum_lens rs' + (mp_hdrs (blen d) (slen ct) true rs' + 68) <=? 0) with false by lia.
    replace (sum_lens rs' + (mp_hdrs (blen d) (slen ct) true rs' + 68) =?
             mp_hdrs (blen d) (slen ct) true rs' + sum_lens rs' + 68) with true by lia.
    unfold resp_parts, no_write_error, is_multipart, mp_framing_ok. cbn [r_status r_body r_cr r_cl].
    repeat split; auto.
    + destruct enc; [reflexivity|]. rewrite Z.eqb_refl. reflexivity.
    + intros H. discriminate.
Qed.

(* a multi-range request with a start beyond the size: 416 "Out of Range" *)
Lemma process_beyond : forall d r1 r2 rs enc ct,
  sum_ranges (r1 :: r2 :: rs) >? blen d = false ->
  existsb (fun ra : range => fst ra >? blen d) (r1 :: r2 :: rs) = true ->
  process_parsed (Some (r1 :: r2 :: rs)) d enc ct = resp_416 4.
Proof. intros d r1 r2 rs enc ct Hs He. unfold process_parsed. cbv zeta. rewrite Hs. cbv beta iota. rewrite He. reflexivity. Qed.

(* ------------------------------------------------------------------ *)
(* what an untriggered list of parsed ranges looks like *)

Lemma trig_parsed_none : forall rs size, trig_parsed (Some rs) size = None ->
  sum_ranges rs >? size = false /\ rs <> [] /\
  ((exists r1 r2 rest, rs = r1 :: r2 :: rest /\ existsb (fun ra : range => fst ra >? size) rs = true)
   \/ (has_negative_length rs = false /\ has_zero_length rs = false)).
Proof.
  intros rs size H. unfold trig_parsed in H.
  destruct (sum_ranges rs >? size) eqn:Hsum; [discriminate|].
  split; [reflexivity|].
  destruct rs as [|r1 [|r2 rest]]; [discriminate| |].
  - split; [congruence|]. right.
    destruct (snd r1 <? 0) eqn:E1; [discriminate|]. destruct (snd r1 =? 0) eqn:E2; [discriminate|].
    simpl. rewrite E1, E2. auto.
  - split; [congruence|].
    destruct (existsb (fun ra : range => fst ra >? size) (r1 :: r2 :: rest)) eqn:Eb.
    + left. exists r1, r2, rest. auto.
    + right. destruct (has_negative_length (r1 :: r2 :: rest)); [discriminate|].
      destruct (has_zero_length (r1 :: r2 :: rest)); [discriminate|]. auto.
Qed.

Lemma trig_specs_none : forall sps size, trig_specs sps size = None ->
  trig_mixed sps size = false /\ trig_big sps size = false /\ trig_parsed (parse_specs sps size) size = None.
Proof.
  intros sps size H. unfold trig_specs in H.
  destruct (trig_mixed sps size); [discriminate|]. destruct (trig_big sps size); [discriminate|]. auto.
Qed.

Lemma is_nil_false : forall {A} (l : list A), is_nil l = false -> l <> [].
Proof. intros A [|x l] H; simpl in H; congruence. Qed.
Lemma not_nil_is_nil : forall {A} (l : list A), l <> [] -> is_nil l = false.
Proof. intros A [|x l] H; simpl; congruence. Qed.

(* a 416 is right when the structured parser fails outside the triggers k=4, k=6 *)
Lemma parse_none_416_ok : forall sps size, parse_specs sps size = None ->
  trig_mixed sps size = false -> trig_big sps size = false ->
  is_nil (ref_ranges sps size) || existsb spec_invalid sps = true.
Proof.
  intros sps size Ep Hmix Hbig.
  destruct (existsb spec_invalid sps) eqn:Hi; [apply orb_true_r|].
  destruct (parse_specs_none sps size Ep) as [Hb|[Hb|Hb]].
  - unfold trig_mixed in Hmix. rewrite Hb, Hi in Hmix. cbn [andb negb] in Hmix.
    apply negb_false_iff in Hmix. rewrite Hmix. reflexivity.
  - congruence.
  - unfold trig_big in Hbig. rewrite Hb, Hi in Hbig. cbn [andb negb] in Hbig.
    apply negb_false_iff in Hbig. rewrite Hbig. reflexivity.
Qed.

(* ------------------------------------------------------------------ *)
(* C32 on structured headers: partial theorem *)

Theorem exact_specs_partial : forall d sps enc ct,
  mp_fits (blen d) (slen ct) (ref_ranges sps (blen d)) = true ->
  trig_specs sps (blen d) = None ->
  spec_ok d sps (process_parsed (parse_specs sps (blen d)) d enc ct) = true.
Proof.
  intros d sps enc ct Hfit Ht. apply trig_specs_none in Ht. destruct Ht as [Hmix [Hbig Htp]].
  pose proof (blen_nonneg d) as Hs.
  destruct (parse_specs sps (blen d)) as [rs|] eqn:Ep.
  - (* parsed *)
    destruct (trig_parsed_none rs (blen d) Htp) as [Hsum [Hne Hcase]].
    assert (Hz : has_zero_length rs = false).
    { destruct Hcase as [[r1 [r2 [rest [_ Hb]]]]|[_ Hz]]; [|assumption].
      rewrite (parse_specs_start_le sps (blen d) rs Hs Ep) in Hb. discriminate. }
    pose proof (parse_specs_some sps (blen d) rs Hs Ep Hz) as Hrs.
    assert (Hin : forall r, In r rs -> in_bounds (blen d) r).
    { intros r Hr. rewrite Hrs in Hr. eapply ref_ranges_in_bounds; eauto. }
    rewrite <- Hrs in Hfit.
    destruct (process_in_bounds d rs enc ct Hne Hin Hsum Hfit) as [H1 [H2 [H3 [H4 H5]]]].
    unfold spec_ok. rewrite <- Hrs.
    set (resp := process_parsed (Some rs) d enc ct) in *.
    rewrite H1, H2, H3, H4, parts_eqb_refl. cbn [N.eqb Pos.eqb andb].
    rewrite (not_nil_is_nil rs Hne). cbn [negb andb].
    destruct (is_multipart resp) eqn:Em.
    + rewrite orb_true_r. reflexivity.
    + destruct (H5 eq_refl) as [r [Hr Hcl]]. rewrite Hr, Hcl, oz_eqb_refl. rewrite orb_true_r. reflexivity.
  - (* parse error: 416 *)
    unfold spec_ok, process_parsed, resp_416, full_200. cbn [r_status N.eqb Pos.eqb andb orb].
    apply parse_none_416_ok; assumption.
Qed.

(* the parser alone on structured headers *)
Lemma trig_parse_specs_none : forall sps size, trig_parse_specs sps size = None ->
  trig_mixed sps size = false /\ trig_big sps size = false /\
  (forall rs, parse_specs sps size = Some rs -> has_zero_length rs = false).
Proof.
  intros sps size H. unfold trig_parse_specs in H.
  destruct (trig_mixed sps size); [discriminate|]. destruct (trig_big sps size); [discriminate|].
  repeat split; auto. intros rs E. rewrite E in H. destruct (has_zero_length rs); [discriminate|reflexivity].
Qed.

Theorem parse_specs_partial : forall sps size, 0 <= size ->
  trig_parse_specs sps size = None ->
  parse_spec_ok sps size (parse_specs sps size) = true.
Proof.
  intros sps size Hs Ht. apply trig_parse_specs_none in Ht. destruct Ht as [Hmix [Hbig Hz]].
  unfold parse_spec_ok. destruct (parse_specs sps size) as [rs|] eqn:Ep.
  - rewrite <- (parse_specs_some sps size rs Hs Ep (Hz rs eq_refl)). apply ranges_eqb_refl.
  - apply parse_none_416_ok; assumption.
Qed.

(* ------------------------------------------------------------------ *)
(* arbitrary header strings: bounds of what parseRange returns *)

Lemma parse_int_range : forall s v, parse_int s = Some v -> int64_min <= v <= int64_max.
Proof.
  intros s v H. unfold parse_int in H. destruct s as [|c s']; [discriminate|].
  destruct (if Ascii.eqb c c_plus then (false, s') else if Ascii.eqb c c_dash then (true, s') else (false, String c s')) as [neg body].
  destruct (str_empty body); [discriminate|].
  destruct (parse_digits body 0) as [v0|]; [|discriminate].
  cbv zeta in H. remember (if neg then - v0 else v0) as r eqn:Hr. clear Hr.
  destruct ((int64_min <=? r) && (r <=? int64_max)) eqn:E; [|discriminate].
  injection H as <-. lia.
Qed.

Definition range_sound (size : Z) (r : range) : Prop :=
  snd r < 0 \/ (0 <= fst r /\ 0 <= snd r /\ fst r + snd r <= size).

Lemma parse_one_sound : forall ra size r, 0 <= size <= int64_max ->
  parse_one ra size = Some r -> range_sound size r.
Proof.
  intros ra size r Hs H. unfold parse_one in H.
  pose proof int64_min_val as Emin. pose proof int64_max_val as Emax.
  destruct (cut_at c_dash ra) as [[s0 e0]|]; [|discriminate]. cbv zeta in H.
  destruct (str_empty (trim s0)).
  - destruct (parse_int (trim e0)) as [i|] eqn:Ei; [|discriminate].
    apply parse_int_range in Ei. injection H as <-. unfold range_sound. simpl.
    set (i' := if i >? size then size else i).
    assert (Hi' : int64_min <= i' <= int64_max) by (subst i'; destruct (i >? size) eqn:E; lia).
    rewrite (wrap64_sub_sub size i' Hi').
    destruct (Z_lt_ge_dec i' 0) as [Hn|Hp]; [left; assumption|right].
    assert (Hi2 : i' <= size) by (subst i'; destruct (i >? size) eqn:E; lia).
    rewrite wrap64_id; [lia|]. rewrite int64_min_val. lia.
  - destruct (parse_int (trim s0)) as [i|] eqn:Ei; [|discriminate].
    destruct ((i >? size) || (i <? 0)) eqn:E1; [discriminate|].
    destruct (str_empty (trim e0)).
    + injection H as <-. right. simpl. lia.
    + destruct (parse_int (trim e0)) as [j|] eqn:Ej; [|discriminate].
      destruct (i >? j) eqn:E2; [discriminate|].
      injection H as <-. right. simpl. destruct (j >=? size) eqn:E3; lia.
Qed.

Lemma parse_items_sound : forall items size rs, 0 <= size <= int64_max ->
  parse_items items size = Some rs -> forall r, In r rs -> range_sound size r.
Proof.
  induction items as [|it items IH]; intros size rs Hs H r Hr; simpl in H.
  - injection H as <-. contradiction.
  - destruct (str_empty (trim it)); [eapply IH; eauto|].
    destruct (parse_one (trim it) size) as [r0|] eqn:E; [|discriminate].
    destruct (parse_items items size) as [rs'|] eqn:E2; [|discriminate].
    injection H as <-. destruct Hr as [Hr|Hr].
    + subst. eapply parse_one_sound; eauto.
    + eapply IH; eauto.
Qed.

Theorem parse_range_sound : forall hdr size rs, 0 <= size <= int64_max ->
  parse_range hdr size = Some rs -> forall r, In r rs -> range_sound size r.
Proof.
  intros hdr size rs Hs H. unfold parse_range in H.
  destruct (strip_prefix "bytes=" hdr) as [rest|]; [|discriminate].
  eapply parse_items_sound; eauto.
Qed.

Lemma existsb_false_forall : forall {A} (f : A -> bool) l, existsb f l = false -> forall x, In x l -> f x = false.
Proof.
  intros A f l H x Hx. destruct (f x) eqn:E; auto.
  assert (existsb f l = true) by (apply existsb_exists; eauto). congruence.
Qed.

(* outside k=3, k=2 every parsed range lies inside the blob and is not empty *)
Lemma sound_in_bounds : forall hdr size rs, 0 <= size <= int64_max ->
  parse_range hdr size = Some rs -> has_negative_length rs = false -> has_zero_length rs = false ->
  forall r, In r rs -> in_bounds size r.
Proof.
  intros hdr size rs Hs Ep Hneg Hz r Hr.
  pose proof (existsb_false_forall _ _ Hneg r Hr) as H1.
  pose proof (existsb_false_forall _ _ Hz r Hr) as H2.
  destruct (parse_range_sound hdr size rs Hs Ep r Hr) as [H3|[H3 [H4 H5]]]; [lia|].
  unfold in_bounds. lia.
Qed.

Theorem parse_raw_partial : forall hdr size, 0 <= size <= int64_max ->
  trig_parse_raw (parse_range hdr size) = None ->
  parse_raw_ok size (parse_range hdr size) = true.
Proof.
  intros hdr size Hs Ht. unfold parse_raw_ok. destruct (parse_range hdr size) as [rs|] eqn:Ep; [|reflexivity].
  unfold trig_parse_raw in Ht.
  destruct (has_negative_length rs) eqn:Hneg; [discriminate|].
  destruct (has_zero_length rs) eqn:Hz; [discriminate|].
  apply forallb_forall. intros r Hr.
  destruct (sound_in_bounds hdr size rs Hs Ep Hneg Hz r Hr) as [H0 [H1 H2]].
  unfold range_in_blob. lia.
Qed.

Lemma expected_parts_consistent : forall d rs, blen d <= int64_max ->
  (forall r, In r rs -> in_bounds (blen d) r) ->
  forallb (part_consistent d) (expected_parts d rs) = true.
Proof.
  intros d rs Hm H. unfold expected_parts. apply forallb_forall. intros p Hp.
  apply in_map_iff in Hp. destruct Hp as [r [<- Hr]].
  specialize (H r Hr). rewrite content_range_in_bounds by assumption.
  destruct H as [H0 [H1 H2]]. unfold part_consistent.
  replace (fst r + snd r - 1 - fst r + 1) with (snd r) by lia.
  rewrite blob_eqb_refl, Z.eqb_refl. lia.
Qed.

(* C32 on arbitrary header strings: partial theorem *)
Theorem raw_consistent_partial : forall d hdr enc ct, blen d <= int64_max ->
  mp_fits_hdr hdr d ct = true ->
  trig_parsed (parse_range hdr (blen d)) (blen d) = None ->
  self_consistent d (process_range hdr d enc ct) = true.
Proof.
  intros d hdr enc ct Hm Hfit Ht. pose proof (blen_nonneg d) as Hs. unfold process_range.
  destruct (str_empty hdr).
  - unfold self_consistent, full_200. cbn [r_status r_body r_cl r_cr N.eqb Pos.eqb andb].
    unfold body_eqb, oz_eqb, ocr_eqb. rewrite blob_eqb_refl, Z.eqb_refl. reflexivity.
  - unfold mp_fits_hdr in Hfit.
    destruct (parse_range hdr (blen d)) as [rs|] eqn:Ep.
    + destruct (trig_parsed_none rs (blen d) Ht) as [Hsum [Hne Hcase]].
      destruct Hcase as [[r1 [r2 [rest [-> Hb]]]]|[Hneg Hz]].
      { rewrite process_beyond by assumption. reflexivity. }
      pose proof (sound_in_bounds hdr (blen d) rs (conj Hs Hm) Ep Hneg Hz) as Hin.
      destruct (process_in_bounds d rs enc ct Hne Hin Hsum Hfit) as [H1 [H2 [H3 [H4 H5]]]].
      unfold self_consistent.
      set (resp := process_parsed (Some rs) d enc ct) in *.
      rewrite H1, H2, H3, H4, (expected_parts_consistent d rs Hm Hin). cbn [N.eqb Pos.eqb andb].
      replace (is_nil (expected_parts d rs)) with false
        by (destruct rs; [congruence|reflexivity]).
      cbn [negb andb].
      destruct (is_multipart resp) eqn:Em.
      * rewrite orb_true_r. reflexivity.
      * destruct (H5 eq_refl) as [r [Hr Hcl]]. subst rs.
        assert (Hb : r_body resp = Plain (slice d (fst r) (snd r)) 0).
        { subst resp. unfold process_parsed. rewrite Hsum.
          destruct (Hin r (or_introl eq_refl)) as [G0 [G1 G2]].
          rewrite write_fn_ok by assumption. reflexivity. }
        rewrite Hb, Hcl.
        destruct (Hin r (or_introl eq_refl)) as [G0 [G1 G2]].
        rewrite slice_len by assumption. rewrite oz_eqb_refl, orb_true_r. reflexivity.
    + unfold self_consistent, process_parsed, resp_416. cbn [r_status N.eqb Pos.eqb]. apply orb_true_r.
Qed.
