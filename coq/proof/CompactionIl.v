(* C04 proofs, part 7: writers running concurrently with the scan-based copy loop, and the
   per-key form of the invisibility theorem.
   The copy loop is only required to be right on the keys that get no .idx entry while the
   compaction is pending ([copy_spec_on]): every other key is overridden by makeupDiff. *)
From Coq Require Import List NArith ZArith Bool Lia Permutation.
From SW Require Import model.Volume model.Compaction.
From SW Require Import proof.CompactionInv proof.CompactionRead proof.CompactionCopy proof.CompactionMakeup
                       proof.CompactionProofs proof.CompactionTail.
Import ListNotations.
Local Open Scope N_scope.

(* ---------- per-key versions of the "no empty blob" facts ---------- *)
Lemma exec_nzid : forall vt h s id, cinv s -> nzid s id -> (forall ev, In ev h -> ev_ne_on id ev) ->
  nzid (c_exec vt s h) id.
Proof.
  induction h as [|ev h IH]; intros s id H Hz Hne; [exact Hz|].
  unfold c_exec. simpl. fold (c_exec vt (fst (c_step vt s ev)) h).
  apply IH; [apply c_step_inv; exact H | apply step_nzid; [exact H | exact Hz | apply Hne; left; reflexivity] |].
  intros e He. apply Hne. right. exact He.
Qed.

Lemma live_size_k : forall s k off size, nzid s k -> live (nm (cv s)) k = Some (off, size) -> size <> 0%Z.
Proof.
  intros s k off size Hz L. unfold live in L. destruct (nm_get (nm (cv s)) k) as [nv|] eqn:G; [|discriminate].
  destruct (nv_off nv =? 0); [discriminate|]. destruct (size_deleted (nv_size nv)); [discriminate|].
  inversion L; subst. apply (Hz nv G).
Qed.

Lemma content_rec_k : forall s k p, cinv s -> content (cv s) k = Some p ->
  exists r, In r (recs (cv s)) /\ p = pl r /\ n_id (r_n r) = k.
Proof.
  intros s k p H C. unfold content in C. destruct (live (nm (cv s)) k) as [[off size]|] eqn:L; [|discriminate].
  destruct (live_facts _ _ _ _ H L) as [_ [_ [_ [r [Hf [_ [Hid Hrd]]]]]]]. rewrite Hrd in C. inversion C; subst p.
  exists r. split; [eapply find_rec_In; eauto | split; [reflexivity | exact Hid]].
Qed.

Lemma content_size_pos_k : forall s k p, cinv s -> nzid s k -> content (cv s) k = Some p -> 0 < fst (fst p).
Proof.
  intros s k p H Hz C. unfold content in C. destruct (live (nm (cv s)) k) as [[off size]|] eqn:L; [|discriminate].
  destruct (live_facts _ _ _ _ H L) as [Hs0 [_ [_ [r [_ [Hsz [_ Hrd]]]]]]]. rewrite Hrd in C. inversion C; subst p.
  pose proof (live_size_k _ _ _ _ Hz L). simpl. lia.
Qed.

Lemma reload_content_k : forall s k a b, cinv s -> nzid s k ->
  content {| recs := recs (cv s); nm := load_idx (cidx s); dat_end := dat_end (cv s);
             no_write_or_delete := a; no_write_can_delete := b |} k = content (cv s) k.
Proof.
  intros s k a b H Hz. rewrite content_files. unfold content at 1.
  destruct (live (nm (cv s)) k) as [[off size]|] eqn:L.
  - destruct (live_facts _ _ _ _ H L) as [Hs0 [Ho [Hi [r [Hf [Hsz [Hid Hrd]]]]]]].
    rewrite Hi. unfold entry_valid. simpl. pose proof (live_size_k _ _ _ _ Hz L) as Hnz.
    assert (O : negb (off =? 0) = true) by (apply negb_true_iff, N.eqb_neq; exact Ho).
    assert (V : size_valid size = true) by (apply size_valid_pos; lia).
    rewrite O, V, Hf, Hsz, Z.eqb_refl, Hrd. reflexivity.
  - destruct (idx_get (cidx s) k) as [e|] eqn:G; [|reflexivity].
    unfold entry_valid. rewrite (dead_entry _ _ _ H L G), andb_false_r. reflexivity.
Qed.

(* ---------- what the copy loop owes to the keys in U ---------- *)
Record copy_spec_on (U : N -> Prop) (vt : N * N) (now_s : N) (s : cvol) (a : cacc) : Prop := {
  co_sorted : sorted_recs (a_recs a) (a_end a);
  co_asc : asc (a_db a);
  co_mod8 : a_end a mod 8 = 0;
  co_some : forall k e, U k -> idx_get (a_db a) k = Some e ->
      8 <= ie_off e /\ (0 <= ie_size e)%Z /\
      exists r', find_rec (a_recs a) (ie_off e) = Some r' /\ Z.of_N (r_size r') = ie_size e /\
                 content (cv s) k = Some (pl r');
  co_none : forall k, U k -> nzid s k -> idx_get (a_db a) k = None ->
      content (cv s) k = None \/
      exists p, content (cv s) k = Some p /\ 0 < fst (fst p) /\ ttl_dropped vt now_s (view_pl p) = true
}.

Lemma copy_spec_weaken : forall U vt now_s s a, copy_spec vt now_s s a -> copy_spec_on U vt now_s s a.
Proof.
  intros U vt now_s s a [Cs Ca Cm Csome Cnone]. constructor; [exact Cs | exact Ca | exact Cm | |].
  - intros k e _ Hg. destruct (Csome k e Hg) as [A [B [_ R]]]. auto.
  - intros k _ Hz Hg. apply Cnone; [exact Hz | exact Hg].
Qed.

(* ---------- the core of the invisibility proof, for one key ---------- *)
Lemma invisible_core : forall g now_s now_r ord h1 hm s1 s2 d a F id,
  setting g ord h1 hm s1 s2 d ->
  copy_spec_on (fun k => idx_get d k = None) (g_vttl g) now_s s1 a ->
  F = (if makeup_fails (length (cidx s1)) s2 then old_files s2
       else fold_left (mstep (cv s2) d) ord (files_of a)) ->
  no_empty_on id (h1 ++ hm) = true ->
  ttl_consistent_on id (g_vttl g) now_s now_r h1 = true ->
  check_noop (check_files F) = true ->
  read_of (commit F) now_r id = read_of (twin g h1 hm) now_r id.
Proof.
  intros g now_s now_r ord h1 hm s1 s2 d a F id S CS EF Hemp Httl Hnoop.
  destruct S as [E1 E2 I1 I2 G Hd Hdiff Htw Hnd Hord].
  set (vt := g_vttl g) in *.
  assert (Hne : forall ev, In ev (h1 ++ hm) -> ev_ne_on id ev) by (apply no_empty_on_forall; exact Hemp).
  assert (Z1 : nzid s1 id).
  { rewrite E1. apply exec_nzid; [apply cinv_init | intros nv Hg; discriminate |].
    intros ev Hin. apply Hne, in_or_app. auto. }
  assert (Z2 : nzid s2 id).
  { rewrite E2. apply exec_nzid; [exact I1 | exact Z1 |]. intros ev Hin. apply Hne, in_or_app. auto. }
  unfold read_of. rewrite Htw.
  rewrite (commit_noop F Hnoop).
  rewrite read_char by (intros nv Hg; apply (load_nz (f_idx F) id nv Hg)).
  rewrite read_char by (intros nv Hg; apply (Z2 nv Hg)).
  set (fin := {| recs := f_recs F; nm := load_idx (f_idx F); dat_end := f_end F;
                 no_write_or_delete := false; no_write_can_delete := false |}).
  assert (Main : content fin id = content (cv s2) id \/
                 (content fin id = None /\ exists p, content (cv s2) id = Some p /\ read_pl now_r p = None)).
  { unfold fin. rewrite content_files.
    destruct (makeup_fails (length (cidx s1)) s2).
    - left. rewrite EF. simpl. rewrite <- (reload_content_k s2 id false false I2 Z2). rewrite content_files. reflexivity.
    - destruct CS as [Cs Ca Cm Csome Cnone].
      set (F0 := files_of a) in *.
      assert (Hs0 : sorted_recs (f_recs F0) (f_end F0)) by exact Cs.
      assert (Hm0 : f_end F0 mod 8 = 0) by exact Cm.
      assert (Hpre : forall k e, idx_get d k = Some e -> idx_get (cidx s2) k = Some e).
      { intros k e Hg. rewrite Hd, idx_get_app, Hg. reflexivity. }
      assert (Hsrc : forall k e, idx_get d k = Some e -> ent_src (cv s2) e).
      { intros k e Hg U. unfold is_upd in U. apply andb_prop in U. destruct U as [U V]. apply andb_prop in U. destruct U as [U1 U2].
        assert (Dd : entry_dead e = false).
        { unfold entry_dead. apply orb_false_intro; [apply negb_true_iff; exact U1|].
          destruct (size_deleted (ie_size e)) eqn:D; [|reflexivity]. apply size_deleted_neg in D. apply size_valid_pos in V. lia. }
        destruct (idx_live _ _ _ I2 (Hpre _ _ Hg) Dd) as [L _].
        destruct (live_facts _ _ _ _ I2 L) as [_ [_ [_ [r [Hf [Hsz _]]]]]]. exists r. auto. }
      assert (FI : finv F0 F) by (rewrite EF; apply fold_finv; assumption).
      pose proof (makeup_idx (cv s2) d ord F0 id Hnd) as MI. simpl in MI. rewrite <- EF in MI.
      destruct (idx_get d id) as [e|] eqn:Gd.
      + assert (Hin : In id ord) by (apply Hord; congruence).
        destruct (in_dec N.eq_dec id ord) as [_|Hx]; [|contradiction]. destruct MI as [o MI].
        pose proof (Hpre _ _ Gd) as G2.
        destruct (live (nm (cv s2)) id) as [[off size]|] eqn:L.
        * destruct (live_facts _ _ _ _ I2 L) as [Hsz0 [Ho [Hi [r [Hf [Hsz [Hid Hrd]]]]]]].
          rewrite Hi in G2. inversion G2; subst e. clear G2. pose proof (live_size_k _ _ _ _ Z2 L) as Hnz.
          assert (U : is_upd {| ie_key := id; ie_off := off; ie_size := size |} = true).
          { unfold is_upd. simpl. apply andb_true_intro. split; [apply andb_true_intro; split|].
            - apply negb_true_iff, N.eqb_neq. exact Ho.
            - apply negb_true_iff, Z.eqb_neq. exact Hnz.
            - apply size_valid_pos. lia. }
          destruct (makeup_upd (cv s2) d ord F0 id _ r Hnd Hs0 Hm0 Hsrc Hin Gd U Hf Hsz)
            as [noff [r' [Hi' [H8 [Hf' Hpl]]]]].
          rewrite <- EF in Hi', Hf'. simpl in Hi'. left. rewrite Hi'. unfold entry_valid. simpl.
          assert (O : negb (noff =? 0) = true) by (apply negb_true_iff, N.eqb_neq; lia).
          assert (V : size_valid size = true) by (apply size_valid_pos; lia).
          rewrite O, V, Hf'. simpl.
          assert (Hsz' : Z.of_N (r_size r') = size).
          { unfold pl in Hpl. inversion Hpl as [[Ha Hb Hc]]. rewrite Ha. exact Hsz. }
          rewrite Hsz', Z.eqb_refl. unfold content. rewrite L, Hrd, Hpl. reflexivity.
        * left. rewrite MI. unfold entry_valid. simpl. rewrite (dead_entry _ _ _ I2 L G2), andb_false_r.
          unfold content. rewrite L. reflexivity.
      + rewrite MI. clear MI. rewrite (untouched_content s1 s2 d id I1 I2 G Hd Gd).
        change (f_idx F0) with (save_idx (a_db a)). rewrite save_idx_get by exact Ca.
        destruct (idx_get (a_db a) id) as [e0|] eqn:G0.
        * destruct (Csome id e0 Gd G0) as [H8 [Hsz0 [r' [Hf [Hsz Hc]]]]].
          pose proof (content_size_pos_k _ _ _ I1 Z1 Hc) as Hpos. simpl in Hpos.
          assert (Dd : entry_dead e0 = false).
          { unfold entry_dead. apply orb_false_intro; [apply N.eqb_neq; lia|].
            destruct (size_deleted (ie_size e0)) eqn:D; [|reflexivity]. apply size_deleted_neg in D. lia. }
          rewrite Dd. unfold entry_valid.
          assert (O : negb (ie_off e0 =? 0) = true) by (apply negb_true_iff, N.eqb_neq; lia).
          assert (V : size_valid (ie_size e0) = true) by (apply size_valid_pos; lia).
          rewrite O, V. simpl. rewrite (fi_old _ _ FI _ _ Hf), Hsz, Z.eqb_refl. left. symmetry. exact Hc.
        * destruct (Cnone id Gd Z1 G0) as [Hc|[p [Hc [Hpos Hdrop]]]]; [left; symmetry; exact Hc|].
          right. split; [reflexivity|]. exists p. split; [exact Hc|].
          destruct (content_rec_k _ _ _ I1 Hc) as [r [Hin [-> Hid]]]. simpl in Hpos.
          rewrite E1 in Hin. destruct (exec_provenance vt h1 cinit r cinv_init Hin) as [Hr|[Hz|[n0 [Hev Hn]]]].
          -- simpl in Hr. contradiction.
          -- lia.
          -- unfold ttl_consistent_on in Httl. rewrite forallb_forall in Httl. specialize (Httl _ Hev).
             assert (Wk : writes_key id (r_at r, CWrite n0) = true).
             { unfold writes_key. simpl. apply N.eqb_eq. rewrite <- (adjust_id vt n0), <- Hn. exact Hid. }
             rewrite Wk in Httl. simpl in Httl.
             unfold ttl_ok in Httl. simpl in Httl. rewrite <- Hn in Httl.
             assert (Hv : view_pl (pl r) = view_of (r_n r)).
             { unfold view_pl, pl. simpl. assert (L : 0 <? r_size r = true) by (apply N.ltb_lt; exact Hpos). rewrite L. reflexivity. }
             unfold read_pl. rewrite Hv in *. rewrite Hdrop in Httl. simpl in Httl. simpl. rewrite Httl. reflexivity. }
  destruct Main as [->|[-> [p [-> Hp]]]]; [reflexivity | symmetry; exact Hp].
Qed.

(* ---------- the interleaved scan as a run of the generic copy loop ---------- *)
Definition sel_il (vt : N * N) (now_s : N) (x : nmap * rec) : option rec := sel_scan vt now_s (fst x) (snd x).

(* what the scanner visits: the record and the live map at the moment of the lookup *)
Fixpoint il_trace (vt : N * N) (sched : list (list cevent)) (s : cvol) (i : nat) : list (nmap * rec) :=
  match sched with
  | [] => map (fun r => (nm (cv s), r)) (skipn i (rev (recs (cv s))))
  | evs :: sched' =>
      match nth_error (rev (recs (cv s))) i with
      | Some r => let s' := c_exec vt s evs in (nm (cv s'), r) :: il_trace vt sched' s' (S i)
      | None => []
      end
  end.

Lemma fold_left_map : forall {A B C} (f : A -> B -> A) (g : C -> B) l a,
  fold_left f (map g l) a = fold_left (fun a x => f a (g x)) l a.
Proof. intros A B C f g. induction l as [|x l IH]; intros a; simpl; [reflexivity | apply IH]. Qed.

Lemma scan_il_trace : forall vt now_s sched s i a,
  scan_il vt now_s sched s i a = fold_left (visit (sel_il vt now_s)) (il_trace vt sched s i) a.
Proof.
  intros vt now_s. induction sched as [|evs sched IH]; intros s i a; simpl.
  - rewrite fold_left_map. apply fold_left_ext_fn. intros a0 r. rewrite scan_visit_eq. reflexivity.
  - destruct (nth_error (rev (recs (cv s))) i) as [r|]; [|reflexivity].
    simpl. rewrite IH. rewrite scan_visit_eq. reflexivity.
Qed.

Lemma skipn_In : forall {A} (l : list A) i x, In x (skipn i l) -> In x l.
Proof. intros A l i x H. rewrite <- (firstn_skipn i l). apply in_or_app. right. exact H. Qed.

Lemma nth_skipn_In : forall {A} (l : list A) i j r, nth_error l j = Some r -> (i <= j)%nat -> In r (skipn i l).
Proof.
  intros A. induction l as [|x l IH]; intros i j r H Hle.
  - destruct j; discriminate.
  - destruct i as [|i]; [exact (nth_error_In _ _ H)|].
    destruct j as [|j]; [lia|]. simpl in H. simpl. apply (IH i j r H). lia.
Qed.

(* every visit happens in a state between the start of the compaction and the commit *)
Definition mid (s1 s2 : cvol) (x : nmap * rec) : Prop :=
  exists s', fst x = nm (cv s') /\ cinv s' /\ grows s1 s' /\ grows s' s2 /\ In (snd x) (recs (cv s')).

Lemma il_trace_mid : forall vt s1 s2 tl sched s i,
  cinv s -> grows s1 s -> c_exec vt s (concat sched ++ tl) = s2 ->
  forall x, In x (il_trace vt sched s i) -> mid s1 s2 x.
Proof.
  intros vt s1 s2 tl. induction sched as [|evs sched IH]; intros s i H G E x Hin; simpl in Hin.
  - apply in_map_iff in Hin. destruct Hin as [r [<- Hr]].
    exists s. simpl. split; [reflexivity|]. split; [exact H|]. split; [exact G|]. split.
    + rewrite <- E. apply exec_grows. exact H.
    + rewrite in_rev. eapply skipn_In; exact Hr.
  - destruct (nth_error (rev (recs (cv s))) i) as [r|] eqn:N; [|destruct Hin].
    set (s' := c_exec vt s evs) in *.
    assert (H' : cinv s') by (apply c_exec_inv; exact H).
    assert (Gs : grows s s') by (apply exec_grows; exact H).
    assert (E' : c_exec vt s' (concat sched ++ tl) = s2).
    { rewrite <- E. simpl. rewrite <- app_assoc. unfold s'. symmetry. apply c_exec_app. }
    destruct Hin as [<-|Hin].
    + exists s'. simpl. split; [reflexivity|]. split; [exact H'|]. split; [eapply grows_trans; eauto|]. split.
      * rewrite <- E'. apply exec_grows. exact H'.
      * apply nth_error_In in N. rewrite <- in_rev in N. destruct Gs as [[newr [R _]] _ _]. rewrite R.
        apply in_or_app. right. exact N.
    + apply (IH s' (S i) H' (grows_trans _ _ _ G Gs) E' x Hin).
Qed.

(* every record present when the compaction starts is visited *)
Lemma il_trace_complete : forall vt sched s i j r, cinv s ->
  nth_error (rev (recs (cv s))) j = Some r -> (i <= j)%nat ->
  exists m, In (m, r) (il_trace vt sched s i).
Proof.
  intros vt. induction sched as [|evs sched IH]; intros s i j r H N Hle; simpl.
  - exists (nm (cv s)). apply in_map_iff. exists r. split; [reflexivity|]. eapply nth_skipn_In; eauto.
  - destruct (nth_error (rev (recs (cv s))) i) as [r0|] eqn:Ni.
    + destruct (Nat.eq_dec i j) as [Heq|Hne].
      * subst j. rewrite N in Ni. inversion Ni; subst r0. eexists. left. reflexivity.
      * set (s' := c_exec vt s evs).
        assert (N' : nth_error (rev (recs (cv s'))) j = Some r).
        { destruct (exec_grows vt evs s H) as [[newr [R _]] _ _]. fold s' in R. rewrite R, rev_app_distr.
          rewrite nth_error_app1; [exact N|]. apply nth_error_Some. congruence. }
        destruct (IH s' (S i) j r (c_exec_inv vt evs s H) N') as [m Hm]; [lia|].
        exists m. right. exact Hm.
    + exfalso. apply nth_error_None in Ni.
      assert (X : nth_error (rev (recs (cv s))) j = None) by (apply nth_error_None; lia). congruence.
Qed.

(* a key without .idx entry while the compaction is pending has the same map entry throughout *)
Lemma mid_idx : forall s1 s2 s' d k, grows s1 s' -> grows s' s2 -> cidx s2 = d ++ cidx s1 -> idx_get d k = None ->
  idx_get (cidx s') k = idx_get (cidx s1) k.
Proof.
  intros s1 s2 s' d k [_ [d1 D1] _] [_ [d2 D2] _] Hd Hn.
  rewrite D1 in D2. rewrite app_assoc in D2. rewrite D2 in Hd. apply app_inv_tail in Hd. subst d.
  rewrite idx_get_app in Hn. rewrite D1, idx_get_app.
  destruct (idx_get d2 k); [discriminate|]. rewrite Hn. reflexivity.
Qed.

Lemma live_entry_dead : forall k off size, off <> 0 -> (0 <= size)%Z ->
  entry_dead {| ie_key := k; ie_off := off; ie_size := size |} = false.
Proof.
  intros k off size Ho Hs. unfold entry_dead. simpl. apply orb_false_intro; [apply N.eqb_neq; exact Ho|].
  destruct (size_deleted size) eqn:D; [|reflexivity]. apply size_deleted_neg in D. lia.
Qed.

Lemma live_by_idx : forall s s' k, cinv s -> cinv s' -> idx_get (cidx s') k = idx_get (cidx s) k ->
  live (nm (cv s')) k = live (nm (cv s)) k.
Proof.
  intros s s' k H H' Hi.
  destruct (live (nm (cv s')) k) as [[off size]|] eqn:L'.
  - destruct (live_facts _ _ _ _ H' L') as [Hs0 [Ho [Hi' _]]]. rewrite Hi in Hi'.
    destruct (idx_live _ _ _ H Hi' (live_entry_dead k off size Ho Hs0)) as [L _]. simpl in L. symmetry. exact L.
  - destruct (live (nm (cv s)) k) as [[off size]|] eqn:L; [|reflexivity]. exfalso.
    destruct (live_facts _ _ _ _ H L) as [Hs0 [Ho [Hi1 _]]]. rewrite <- Hi in Hi1.
    destruct (idx_live _ _ _ H' Hi1 (live_entry_dead k off size Ho Hs0)) as [L2 _]. simpl in L2. congruence.
Qed.

(* the interleaved scan is right on every key that is not touched while the compaction is pending *)
Lemma il_spec_on : forall vt now_s sched tl s1 s2 d,
  cinv s1 -> c_exec vt s1 (concat sched ++ tl) = s2 -> cidx s2 = d ++ cidx s1 ->
  copy_spec_on (fun k => idx_get d k = None) vt now_s s1 (scan_il vt now_s sched s1 0 acc0).
Proof.
  intros vt now_s sched tl s1 s2 d H1 E Hd.
  rewrite scan_il_trace.
  set (T := il_trace vt sched s1 0).
  pose proof (jinv_fold _ (sel_il vt now_s) T [] acc0 (jinv_acc0 _ _)) as J. rewrite app_nil_r in J.
  destruct J as [Js Ja Jm Jsome Jnone].
  assert (LiveEq : forall x k, In x T -> idx_get d k = None ->
            exists s', fst x = nm (cv s') /\ cinv s' /\ grows s1 s' /\ In (snd x) (recs (cv s')) /\
                       live (nm (cv s')) k = live (nm (cv s1)) k).
  { intros x k Hin Hn.
    destruct (il_trace_mid vt s1 s2 tl sched s1 0%nat H1 (grows_refl s1) E x Hin) as [s' [Em [I' [G1 [G2 Hr]]]]].
    exists s'. split; [exact Em|]. split; [exact I'|]. split; [exact G1|]. split; [exact Hr|].
    apply live_by_idx; [exact H1 | exact I' |]. eapply mid_idx; eauto. }
  constructor; auto.
  - intros k e Hn Hg.
    destruct (Jsome k e Hg) as [A [B [r' [x [r [Hf [Hsz [Hin [Hsel [Hid Hpl]]]]]]]]]].
    split; [exact A|]. split; [exact B|]. exists r'. split; [exact Hf|]. split; [exact Hsz|].
    rewrite <- in_rev in Hin.
    destruct (LiveEq x k Hin Hn) as [s' [Em [I' [G1 [Hr Hl]]]]].
    unfold sel_il in Hsel. destruct (sel_scan_some _ _ _ _ _ Hsel) as [-> [Hd0 [nv [Gnv [Ho Hp]]]]].
    rewrite Em, Hid in Gnv.
    destruct (sorted_recs_bound _ _ _ (ci_sorted _ I') Hr) as [Hb8 _].
    assert (L' : live (nm (cv s')) k = Some (nv_off nv, nv_size nv)).
    { unfold live. rewrite Gnv.
      assert (O : nv_off nv =? 0 = false) by (apply N.eqb_neq; lia). rewrite O.
      assert (D : size_deleted (nv_size nv) = false).
      { destruct (size_deleted (nv_size nv)) eqn:D; [|reflexivity]. apply size_deleted_neg in D. lia. }
      rewrite D. reflexivity. }
    rewrite Hl in L'.
    destruct (live_facts _ _ _ _ H1 L') as [_ [_ [_ [r1 [Hf1 [Hsz1 [Hid1 Hrd1]]]]]]].
    pose proof (grows_find _ _ _ _ H1 G1 Hf1) as Hf'. rewrite Ho in Hf'.
    rewrite (find_rec_sorted _ _ _ (ci_sorted _ I') Hr) in Hf'. inversion Hf'; subst r1.
    unfold content. rewrite L', Hrd1, Hpl. reflexivity.
  - intros k Hn Hz Hg. destruct (content (cv s1) k) as [p|] eqn:C; [|left; reflexivity]. right.
    unfold content in C. destruct (live (nm (cv s1)) k) as [[off size]|] eqn:L; [|discriminate].
    destruct (live_facts _ _ _ _ H1 L) as [Hs0 [Ho [Hi [r [Hf [Hsz [Hid Hrd]]]]]]].
    rewrite Hrd in C. inversion C; subst p. clear C.
    assert (Hin : In r (recs (cv s1))) by (eapply find_rec_In; eauto).
    pose proof (live_size_k _ _ _ _ Hz L) as Hnz. assert (Hpos : (0 < size)%Z) by lia.
    exists (pl r). split; [reflexivity|]. split; [simpl; lia|].
    rewrite in_rev in Hin. destruct (In_nth_error _ _ Hin) as [j Hj].
    destruct (il_trace_complete vt sched s1 0%nat j r H1 Hj) as [m Hm]; [lia|]. fold T in Hm.
    destruct (LiveEq (m, r) k Hm Hn) as [s' [Em [I' [G1 [Hr Hl]]]]]. simpl in Em, Hr.
    destruct (sel_il vt now_s (m, r)) as [r0|] eqn:Sel.
    + exfalso. apply (Jnone (m, r) r0); [rewrite <- in_rev; exact Hm | exact Sel |].
      unfold sel_il in Sel. destruct (sel_scan_some _ _ _ _ _ Sel) as [-> _]. simpl. rewrite Hid. exact Hg.
    + unfold sel_il, sel_scan in Sel. simpl in Sel. rewrite <- view_of_rec_pl.
      destruct (ttl_dropped vt now_s (view_of_rec r)); [reflexivity|]. exfalso. simpl in Sel.
      rewrite Hid, Em in Sel. rewrite L in Hl. unfold live in Hl.
      destruct (nm_get (nm (cv s')) k) as [nv|]; [|discriminate].
      destruct (nv_off nv =? 0); [discriminate|]. destruct (size_deleted (nv_size nv)); [discriminate|].
      inversion Hl; subst. pose proof (find_rec_off _ _ _ Hf) as Hro.
      assert (C1 : nv_off nv =? r_off r = true) by (apply N.eqb_eq; congruence).
      assert (C2 : (0 <? nv_size nv)%Z = true) by (apply Z.ltb_lt; lia).
      assert (C3 : size_valid (nv_size nv) = true) by (apply size_valid_pos; lia).
      rewrite C1, C2, C3 in Sel. discriminate.
Qed.

(* ---------- C04, per key, with writers during the copy loop ---------- *)
Theorem invisible_il_key : forall g al now_s now_r ord h1 sched h2 id,
  Permutation ord (default_ord g h1 (concat sched ++ h2)) ->
  no_empty_on id (h1 ++ concat sched ++ h2) = true ->
  ttl_consistent_on id (g_vttl g) now_s now_r h1 = true ->
  check_noop (check_files (compacted_files_il g al now_s ord h1 sched h2)) = true ->
  read_of (commit (compacted_files_il g al now_s ord h1 sched h2)) now_r id =
  read_of (twin g h1 (concat sched ++ h2)) now_r id.
Proof.
  intros g al now_s now_r ord h1 sched h2 id P Hemp Httl Hnoop.
  destruct (setting_intro g ord h1 (concat sched ++ h2) P) as [s1 [s2 [d S]]].
  pose proof S as [E1 E2 I1 I2 G Hd Hdiff Htw Hnd Hord].
  set (a := match al with
            | Scan => scan_il (g_vttl g) now_s sched s1 0 acc0
            | Index => compact_index (g_vttl g) now_s s1
            end).
  assert (CS : copy_spec_on (fun k => idx_get d k = None) (g_vttl g) now_s s1 a).
  { destruct al; unfold a.
    - eapply il_spec_on; [exact I1 | symmetry; exact E2 | exact Hd].
    - apply copy_spec_weaken. apply index_spec. exact I1. }
  assert (EF : compacted_files_il g al now_s ord h1 sched h2 =
               if makeup_fails (length (cidx s1)) s2 then old_files s2
               else fold_left (mstep (cv s2) d) ord (files_of a)).
  { unfold compacted_files_il. cbv zeta. rewrite <- E1, <- E2. rewrite makeup_unfold, Hdiff. reflexivity. }
  eapply invisible_core; eauto.
Qed.

(* without writers during the copy loop this is the phase-structured run *)
Lemma compacted_files_il_nil : forall g al now_s ord h1 h2,
  compacted_files_il g al now_s ord h1 [] h2 = compacted_files g al now_s ord h1 h2.
Proof. intros g [] now_s ord h1 h2; reflexivity. Qed.

Lemma ttl_consistent_all : forall id vt now_s now_r h,
  ttl_consistent vt now_s now_r h = true -> ttl_consistent_on id vt now_s now_r h = true.
Proof.
  intros id vt now_s now_r h H. unfold ttl_consistent in H. unfold ttl_consistent_on.
  rewrite forallb_forall in *. intros ev Hin. rewrite (H ev Hin). apply orb_true_r.
Qed.

Lemma no_empty_all : forall id h, has_empty h = false -> no_empty_on id h = true.
Proof.
  intros id h H. unfold no_empty_on. rewrite forallb_forall. intros ev Hin.
  pose proof (has_empty_false h H ev Hin) as Hne. unfold ev_nonempty in Hne.
  destruct ev as [t o]. simpl in *. destruct o as [n| |]; auto. unfold ev_needle in Hne. simpl in Hne.
  rewrite Hne. apply orb_true_r.
Qed.

(* ---------- non-vacuity: writers in the middle of the scan ---------- *)
(* key 1 is overwritten after its record was copied, key 2 is deleted before the scanner
   reaches it, key 4 appears during the scan (its record is visited by the scanner and
   replayed by makeupDiff) *)
Definition il_h1 : list cevent :=
  [(1, CWrite (nd 1 [1] 8 1000 (0, 0))); (2, CWrite (nd 2 [2] 8 1000 (0, 0))); (3, CWrite (nd 3 [3] 8 1000 (0, 0)))].
Definition il_sched : list (list cevent) :=
  [[]; [(4, CWrite (nd 1 [9; 9] 8 1000 (0, 0))); (5, CDelete 2 7)]; [(6, CWrite (nd 4 [4] 8 1000 (0, 0)))]].

Lemma il_example_ok :
  let ord := default_ord g4 il_h1 (concat il_sched ++ []) in
  let F := compacted_files_il g4 Scan 1000 ord il_h1 il_sched [] in
  forallb (fun k => no_empty_on k (il_h1 ++ concat il_sched ++ []) &&
                    ttl_consistent_on k (g_vttl g4) 1000 (1001 * sec) il_h1) [1; 2; 3; 4] = true /\
  check_noop (check_files F) = true /\
  length (f_recs F) = 7%nat /\
  map (fun k => option_map fst (read_of (commit F) (1001 * sec) k)) [1; 2; 3; 4] = [Some 2%Z; None; Some 1%Z; Some 1%Z] /\
  map (fun k => option_map fst (read_of (twin g4 il_h1 (concat il_sched ++ [])) (1001 * sec) k)) [1; 2; 3; 4]
  = [Some 2%Z; None; Some 1%Z; Some 1%Z].
Proof. vm_compute. repeat split; reflexivity. Qed.

(* the per-key hypotheses are strictly weaker than the history-wide ones: an empty blob on key 1
   (finding 0) leaves the guarantee for key 2 intact *)
Lemma key_narrowing_ok :
  has_empty (w_empty_h1 ++ []) = true /\
  no_empty_on 2 (w_empty_h1 ++ concat [] ++ []) = true /\
  ttl_consistent_on 2 (g_vttl g4) 1000 (1001 * sec) w_empty_h1 = true /\
  check_noop (check_files (compacted_files_il g4 Index 1000 [] w_empty_h1 [] [])) = true /\
  read_of (commit (compacted_files_il g4 Index 1000 [] w_empty_h1 [] [])) (1001 * sec) 2 =
  Some (1%Z, view_of (nd 2 [7] 8 1000 (0, 0))).
Proof. vm_compute. repeat split; reflexivity. Qed.

Lemma key_hypotheses_weaker : forall (id : N) (vt : N * N) (now_s now_r : N) (h1 h : list cevent),
  (has_empty h = false -> no_empty_on id h = true) /\
  (ttl_consistent vt now_s now_r h1 = true -> ttl_consistent_on id vt now_s now_r h1 = true).
Proof. intros. split; [apply no_empty_all | apply ttl_consistent_all]. Qed.
