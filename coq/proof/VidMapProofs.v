(* Proofs about model/VidMap.v (C35). *)
From Coq Require Import String List NArith ZArith Bool Arith Lia Permutation.
From SW Require Import model.VidMap.
Import ListNotations.
Local Open Scope string_scope.
Local Open Scope list_scope.

(* ---------- lists ---------- *)
Lemma set_nth_length : forall {A} i (x : A) l, length (set_nth i x l) = length l.
Proof. induction i as [|i IH]; intros x [|y l]; simpl; auto. Qed.

Lemma nth_set_nth_same : forall {A} i (x d : A) l, i < length l -> nth i (set_nth i x l) d = x.
Proof.
  induction i as [|i IH]; intros x d [|y l] H; simpl in *; try lia; auto.
  apply IH. lia.
Qed.

Lemma nth_set_nth_other : forall {A} i j (x d : A) l, i <> j -> nth j (set_nth i x l) d = nth j l d.
Proof.
  induction i as [|i IH]; intros j x d [|y l] H; simpl; auto.
  - destruct j; [congruence|reflexivity].
  - destruct j; auto.
Qed.

Lemma firstn_set_nth_ge : forall {A} n i (x : A) l, n <= i -> firstn n (set_nth i x l) = firstn n l.
Proof.
  induction n as [|n IH]; intros i x l H; [reflexivity|].
  destruct i as [|i]; [lia|]. destruct l as [|y l]; simpl; auto.
  f_equal. apply IH. lia.
Qed.

Lemma firstn_S_set_nth : forall {A} i (x : A) l, i < length l ->
  firstn (S i) (set_nth i x l) = firstn i l ++ [x].
Proof.
  induction i as [|i IH]; intros x [|y l] H; simpl in *; try lia; auto.
  f_equal. apply IH. lia.
Qed.

Lemma firstn_snoc_pad : forall {A} (a : list A) x pad n, length a = n ->
  firstn (S n) (a ++ x :: pad) = a ++ [x].
Proof.
  intros A a x pad n H. subst n. induction a as [|y a IH]; simpl.
  - destruct pad; reflexivity.
  - f_equal. exact IH.
Qed.

Lemma nth_alloc_old : forall {A} a (h : list (list A)) x, a < length h -> nth a (h ++ [x]) [] = nth a h [].
Proof. intros. apply app_nth1. auto. Qed.

Lemma nth_alloc_new : forall {A} (h : list (list A)) x, nth (length h) (h ++ [x]) [] = x.
Proof. intros. rewrite app_nth2 by lia. rewrite Nat.sub_diag. reflexivity. Qed.

(* ---------- vid2Locations ---------- *)
Lemma find_put_same : forall v s m, find_vid v (put_vid v s m) = Some s.
Proof. intros. unfold put_vid. simpl. rewrite N.eqb_refl. reflexivity. Qed.

Lemma find_put_other : forall v w s m, v <> w -> find_vid w (put_vid v s m) = find_vid w m.
Proof.
  intros v w s m H. unfold put_vid. simpl.
  destruct (N.eqb_spec w v) as [E|E]; [congruence|].
  induction m as [|[x sx] m IH]; simpl; auto.
  destruct (N.eqb_spec v x) as [E1|E1]; simpl.
  - subst x. destruct (N.eqb_spec w v); [congruence|auto].
  - destruct (N.eqb w x); auto.
Qed.

Lemma r_find_put_same : forall v ls r, r_find v (r_put v ls r) = Some ls.
Proof. intros. unfold r_put. simpl. rewrite N.eqb_refl. reflexivity. Qed.

Lemma r_find_put_other : forall v w ls r, v <> w -> r_find w (r_put v ls r) = r_find w r.
Proof.
  intros v w ls r H. unfold r_put. simpl.
  destruct (N.eqb_spec w v) as [E|E]; [congruence|].
  induction r as [|[x lx] r IH]; simpl; auto.
  destruct (N.eqb_spec v x) as [E1|E1]; simpl.
  - subst x. destruct (N.eqb_spec w v); [congruence|auto].
  - destruct (N.eqb w x); auto.
Qed.

Lemma find_del_same : forall v m, find_vid v (del_vid v m) = None.
Proof.
  intros v m. unfold del_vid. induction m as [|[x sx] m IH]; simpl; auto.
  destruct (N.eqb_spec v x) as [E|E]; simpl; auto.
  destruct (N.eqb_spec v x); [contradiction|auto].
Qed.

Lemma find_del_other : forall v w m, v <> w -> find_vid w (del_vid v m) = find_vid w m.
Proof.
  intros v w m H. unfold del_vid. induction m as [|[x sx] m IH]; simpl; auto.
  destruct (N.eqb_spec v x) as [E1|E1]; simpl.
  - subst x. destruct (N.eqb_spec w v); [congruence|auto].
  - destruct (N.eqb w x); auto.
Qed.

Lemma r_find_remove_same : forall v r, r_find v (r_remove v r) = None.
Proof.
  intros v r. unfold r_remove. induction r as [|[x lx] r IH]; simpl; auto.
  destruct (N.eqb_spec v x) as [E|E]; simpl; auto.
  destruct (N.eqb_spec v x); [contradiction|auto].
Qed.

Lemma r_find_remove_other : forall v w r, v <> w -> r_find w (r_remove v r) = r_find w r.
Proof.
  intros v w r H. unfold r_remove. induction r as [|[x lx] r IH]; simpl; auto.
  destruct (N.eqb_spec v x) as [E1|E1]; simpl.
  - subst x. destruct (N.eqb_spec w v); [congruence|auto].
  - destruct (N.eqb w x); auto.
Qed.

Arguments put_vid : simpl never.
Arguments del_vid : simpl never.
Arguments r_put : simpl never.
Arguments r_remove : simpl never.
Arguments grow : simpl never.

(* ---------- well-formed maps ---------- *)
Definition ok_slice (h : list (list loc)) (s : slice) : Prop :=
  s_arr s < length h /\ s_len s <= s_cap s /\ length (nth (s_arr s) h []) = s_cap s.

Definition wf (m : vmap) : Prop :=
  (forall v s, find_vid v (v2l m) = Some s -> ok_slice (heap m) s) /\
  (forall v w s1 s2, find_vid v (v2l m) = Some s1 -> find_vid w (v2l m) = Some s2 ->
                     s_arr s1 = s_arr s2 -> v = w).

Lemma wf_new : forall h d, wf (new_vid_map h d).
Proof. intros h d. split; simpl; intros; discriminate. Qed.

(* ---------- case analysis of the two updates ---------- *)
Definition add_fresh (m : vmap) (v : N) (l : loc) : vmap :=
  {| heap := heap m ++ [[l]];
     v2l := put_vid v {| s_arr := length (heap m); s_len := 1; s_cap := 1 |} (v2l m);
     data_center := data_center m |}.
Definition add_inplace (m : vmap) (v : N) (l : loc) (s : slice) : vmap :=
  {| heap := set_nth (s_arr s) (set_nth (s_len s) l (nth (s_arr s) (heap m) [])) (heap m);
     v2l := put_vid v {| s_arr := s_arr s; s_len := S (s_len s); s_cap := s_cap s |} (v2l m);
     data_center := data_center m |}.
Definition add_grow (m : vmap) (v : N) (l : loc) (s : slice) : vmap :=
  {| heap := heap m ++ [cells (heap m) s ++ [l] ++ repeat zero_loc (grow (s_cap s) - S (s_len s))];
     v2l := put_vid v {| s_arr := length (heap m); s_len := S (s_len s); s_cap := grow (s_cap s) |} (v2l m);
     data_center := data_center m |}.
Definition cut (i : nat) (cs : list loc) : list loc := firstn i cs ++ skipn (S i) cs.
Arguments cut : simpl never.
Definition del_at (m : vmap) (v : N) (s : slice) (i : nat) : vmap :=
  {| heap := heap m ++ [cut i (cells (heap m) s)];
     v2l := put_vid v {| s_arr := length (heap m); s_len := s_len s - 1; s_cap := s_len s - 1 |} (v2l m);
     data_center := data_center m |}.

Inductive add_case (m : vmap) (v : N) (l : loc) : vmap -> Prop :=
| AddFresh : find_vid v (v2l m) = None -> add_case m v l (add_fresh m v l)
| AddDup : forall s, find_vid v (v2l m) = Some s -> has_url (url l) (cells (heap m) s) = true ->
    add_case m v l m
| AddInplace : forall s, find_vid v (v2l m) = Some s -> has_url (url l) (cells (heap m) s) = false ->
    s_len s < s_cap s -> add_case m v l (add_inplace m v l s)
| AddGrow : forall s, find_vid v (v2l m) = Some s -> has_url (url l) (cells (heap m) s) = false ->
    s_cap s <= s_len s -> add_case m v l (add_grow m v l s).

Lemma add_cases : forall m v l, add_case m v l (add_location m v l).
Proof.
  intros m v l. unfold add_location.
  destruct (find_vid v (v2l m)) as [s|] eqn:F.
  - destruct (has_url (url l) (cells (heap m) s)) eqn:H.
    + eapply AddDup; eauto.
    + destruct (Nat.ltb_spec (s_len s) (s_cap s)).
      * apply AddInplace; auto.
      * apply AddGrow; auto.
  - apply AddFresh; auto.
Qed.

Definition del_last (m : vmap) (v : N) : vmap :=
  {| heap := heap m; v2l := del_vid v (v2l m); data_center := data_center m |}.

Inductive del_case (m : vmap) (v : N) (l : loc) : vmap -> Prop :=
| DelNoVid : find_vid v (v2l m) = None -> del_case m v l m
| DelNoUrl : forall s, find_vid v (v2l m) = Some s ->
    index_of_url (url l) (cells (heap m) s) = None -> del_case m v l m
| DelLast : forall s i, find_vid v (v2l m) = Some s ->
    index_of_url (url l) (cells (heap m) s) = Some i -> s_len s = 1 -> del_case m v l (del_last m v)
| DelAt : forall s i, find_vid v (v2l m) = Some s ->
    index_of_url (url l) (cells (heap m) s) = Some i -> s_len s <> 1 -> del_case m v l (del_at m v s i).

Lemma del_cases : forall m v l, del_case m v l (delete_location m v l).
Proof.
  intros m v l. unfold delete_location.
  destruct (find_vid v (v2l m)) as [s|] eqn:F.
  - destruct (index_of_url (url l) (cells (heap m) s)) as [i|] eqn:I.
    + destruct (Nat.eqb_spec (s_len s) 1) as [E|E].
      * eapply DelLast; eauto.
      * apply DelAt; auto.
    + eapply DelNoUrl; eauto.
  - apply DelNoVid; auto.
Qed.

(* ---------- urls in a list ---------- *)
Lemma index_of_url_spec : forall u ls,
  match index_of_url u ls with
  | Some i => i < length ls /\ has_url u ls = true /\ remove_url u ls = firstn i ls ++ skipn (S i) ls
  | None => has_url u ls = false /\ remove_url u ls = ls
  end.
Proof.
  intros u ls. induction ls as [|l ls IH]; simpl; auto.
  destruct (String.eqb (url l) u) eqn:E; simpl.
  - repeat split; auto. lia.
  - destruct (index_of_url u ls) as [i|]; simpl.
    + destruct IH as [H1 [H2 H3]]. repeat split; auto; try lia. rewrite H3. reflexivity.
    + destruct IH as [H1 H2]. split; auto. rewrite H2. reflexivity.
Qed.

Lemma cut_length : forall i (cs : list loc), i < length cs ->
  length (cut i cs) = length cs - 1.
Proof. intros i cs H. unfold cut. rewrite app_length, firstn_length, skipn_length. lia. Qed.

(* ---------- the frame: what an update cannot change ---------- *)
(* a header [hd] of volume v is "held safely" when its array is either still the
   current array of v, with at least as many elements, or owned by nobody *)
Definition held (m : vmap) (v : N) (hd : slice) : Prop :=
  s_arr hd < length (heap m) /\
  ((exists s, find_vid v (v2l m) = Some s /\ s_arr s = s_arr hd /\ s_len hd <= s_len s) \/
   (forall w s, find_vid w (v2l m) = Some s -> s_arr s <> s_arr hd)).

Lemma held_current : forall m v s, wf m -> find_vid v (v2l m) = Some s -> held m v s.
Proof.
  intros m v s [W1 W2] F. destruct (W1 v s F) as [H _]. split; auto.
  left. exists s. auto.
Qed.

(* NO update touches the cells a held header denotes: appends write behind them
   or into a fresh array, deletes build a fresh array, a reset drops the map *)
Lemma apply_frame : forall m e v hd, wf m -> held m v hd ->
  cells (heap (apply m e)) hd = cells (heap m) hd /\ held (apply m e) v hd.
Proof.
  intros m e v hd W [Ha Hown]. pose proof W as [W1 W2].
  destruct e as [w l|w l|]; cbn.
  - (* add *)
    destruct (add_cases m w l) as [F|s F D|s F D Hlt|s F D Hge].
    + (* fresh array *)
      unfold held, add_fresh, cells; cbn. rewrite nth_alloc_old by auto. split; auto.
      split; [rewrite app_length; cbn; lia|].
      destruct Hown as [[s [Fv [Es Hl]]]|Hno].
      * left. exists s. destruct (N.eq_dec w v) as [E|E]; [subst; congruence|].
        rewrite find_put_other by auto. auto.
      * right. intros x sx Fx. destruct (N.eq_dec w x) as [E|E].
        -- subst x. rewrite find_put_same in Fx. inversion Fx; subst; cbn. lia.
        -- rewrite find_put_other in Fx by auto. eauto.
    + split; auto. split; auto.
    + (* in place *)
      destruct (W1 w s F) as [Hs1 [Hs2 Hs3]].
      assert (C : cells (heap (add_inplace m w l s)) hd = cells (heap m) hd).
      { unfold add_inplace, cells; cbn.
        destruct (Nat.eq_dec (s_arr s) (s_arr hd)) as [E|E].
        - rewrite <- E. rewrite nth_set_nth_same by auto.
          destruct Hown as [[s' [Fv [Es Hl]]]|Hno].
          + assert (w = v) by (eapply W2; eauto; congruence). subst w.
            rewrite F in Fv. inversion Fv; subst s'.
            apply firstn_set_nth_ge. auto.
          + exfalso. eapply Hno; eauto.
        - rewrite nth_set_nth_other by auto. reflexivity. }
      split; auto. unfold held, add_inplace; cbn. split; [rewrite set_nth_length; auto|].
      destruct Hown as [[s' [Fv [Es Hl]]]|Hno].
      * left. destruct (N.eq_dec w v) as [E|E].
        -- subst w. rewrite F in Fv. inversion Fv; subst s'.
           eexists. rewrite find_put_same. split; [reflexivity|]. cbn. split; auto.
        -- exists s'. rewrite find_put_other by auto. auto.
      * right. intros x sx Fx. destruct (N.eq_dec w x) as [E|E].
        -- subst x. rewrite find_put_same in Fx. inversion Fx; subst; cbn. eauto.
        -- rewrite find_put_other in Fx by auto. eauto.
    + (* grow *)
      unfold held, add_grow, cells; cbn. rewrite nth_alloc_old by auto. split; auto.
      split; [rewrite app_length; cbn; lia|].
      destruct Hown as [[s' [Fv [Es Hl]]]|Hno].
      * destruct (N.eq_dec w v) as [E|E].
        -- subst w. rewrite F in Fv. inversion Fv; subst s'.
           right. intros x sx Fx. destruct (N.eq_dec v x) as [E|E].
           ++ subst x. rewrite find_put_same in Fx. inversion Fx; subst; cbn. lia.
           ++ rewrite find_put_other in Fx by auto. intro Hc. apply E.
              eapply W2; eauto. congruence.
        -- left. exists s'. rewrite find_put_other by auto. auto.
      * right. intros x sx Fx. destruct (N.eq_dec w x) as [E|E].
        -- subst x. rewrite find_put_same in Fx. inversion Fx; subst; cbn. lia.
        -- rewrite find_put_other in Fx by auto. eauto.
  - (* delete *)
    destruct (del_cases m w l) as [F|s F I|s i F I L1|s i F I L1].
    + split; auto. split; auto.
    + split; auto. split; auto.
    + (* the entry goes: the heap is untouched, the array is owned by nobody *)
      unfold held, del_last; cbn. split; [reflexivity|]. split; auto.
      destruct Hown as [[s' [Fv [Es Hl]]]|Hno].
      * destruct (N.eq_dec w v) as [E|E].
        -- subst w. rewrite F in Fv. inversion Fv; subst s'.
           right. intros x sx Fx. destruct (N.eq_dec v x) as [E|E].
           ++ subst x. rewrite find_del_same in Fx. discriminate.
           ++ rewrite find_del_other in Fx by auto. intro Hc. apply E.
              eapply W2; eauto. congruence.
        -- left. exists s'. rewrite find_del_other by auto. auto.
      * right. intros x sx Fx. destruct (N.eq_dec w x) as [E|E].
        -- subst x. rewrite find_del_same in Fx. discriminate.
        -- rewrite find_del_other in Fx by auto. eauto.
    + (* fresh array, like a growing append *)
      unfold held, del_at; cbn. unfold cells at 1; cbn. rewrite nth_alloc_old by auto.
      split; [reflexivity|].
      split; [rewrite app_length; cbn; lia|].
      destruct Hown as [[s' [Fv [Es Hl]]]|Hno].
      * destruct (N.eq_dec w v) as [E|E].
        -- subst w. rewrite F in Fv. inversion Fv; subst s'.
           right. intros x sx Fx. destruct (N.eq_dec v x) as [E|E].
           ++ subst x. rewrite find_put_same in Fx. inversion Fx; subst; cbn. lia.
           ++ rewrite find_put_other in Fx by auto. intro Hc. apply E.
              eapply W2; eauto. congruence.
        -- left. exists s'. rewrite find_put_other by auto. auto.
      * right. intros x sx Fx. destruct (N.eq_dec w x) as [E|E].
        -- subst x. rewrite find_put_same in Fx. inversion Fx; subst; cbn. lia.
        -- rewrite find_put_other in Fx by auto. eauto.
  - (* reset *)
    split; auto. split; auto. right. cbn. intros; discriminate.
Qed.

(* ---------- one update: well-formedness and the view of every volume ---------- *)
Definition view_list (m : vmap) (v : N) : list loc := match view m v with Some ls => ls | None => [] end.

Lemma cells_length : forall h s, ok_slice h s -> length (cells h s) = s_len s.
Proof. intros h s [H1 [H2 H3]]. unfold cells. rewrite firstn_length. lia. Qed.

Lemma apply_wf : forall m e, wf m -> wf (apply m e).
Proof.
  intros m e W. pose proof W as [W1 W2]. destruct e as [w l|w l|]; cbn.
  - destruct (add_cases m w l) as [F|s F D|s F D Hlt|s F D Hge]; auto.
    + split; cbn.
      * intros x sx Fx. destruct (N.eq_dec w x) as [E|E].
        -- subst x. rewrite find_put_same in Fx. inversion Fx; subst. unfold ok_slice; cbn.
           rewrite app_length, nth_alloc_new. cbn. lia.
        -- rewrite find_put_other in Fx by auto. destruct (W1 x sx Fx) as [A [B C]].
           unfold ok_slice. rewrite app_length, nth_alloc_old by auto. cbn. lia.
      * intros x y s1 s2 Fx Fy Ea.
        destruct (N.eq_dec w x) as [E1|E1]; destruct (N.eq_dec w y) as [E2|E2]; try congruence.
        -- subst x. rewrite find_put_same in Fx. rewrite find_put_other in Fy by auto.
           inversion Fx; subst s1. cbn in Ea. destruct (W1 y s2 Fy). lia.
        -- subst y. rewrite find_put_same in Fy. rewrite find_put_other in Fx by auto.
           inversion Fy; subst s2. cbn in Ea. destruct (W1 x s1 Fx). lia.
        -- rewrite find_put_other in Fx, Fy by auto. eauto.
    + destruct (W1 w s F) as [Hs1 [Hs2 Hs3]]. split; cbn.
      * intros x sx Fx. destruct (N.eq_dec w x) as [E|E].
        -- subst x. rewrite find_put_same in Fx. inversion Fx; subst. unfold ok_slice; cbn.
           rewrite set_nth_length, nth_set_nth_same, set_nth_length by auto. lia.
        -- rewrite find_put_other in Fx by auto. destruct (W1 x sx Fx) as [A [B C]].
           assert (s_arr s <> s_arr sx) by (intro Hc; apply E; eapply W2; eauto).
           unfold ok_slice. rewrite set_nth_length, nth_set_nth_other by auto. lia.
      * intros x y s1 s2 Fx Fy Ea.
        destruct (N.eq_dec w x) as [E1|E1]; destruct (N.eq_dec w y) as [E2|E2]; try congruence.
        -- subst x. rewrite find_put_same in Fx. rewrite find_put_other in Fy by auto.
           inversion Fx; subst s1. cbn in Ea. eapply W2; eauto.
        -- subst y. rewrite find_put_same in Fy. rewrite find_put_other in Fx by auto.
           inversion Fy; subst s2. cbn in Ea. eapply W2; eauto.
        -- rewrite find_put_other in Fx, Fy by auto. eauto.
    + destruct (W1 w s F) as [Hs1 [Hs2 Hs3]]. split; cbn.
      * intros x sx Fx. destruct (N.eq_dec w x) as [E|E].
        -- subst x. rewrite find_put_same in Fx. inversion Fx; subst. unfold ok_slice; cbn.
           rewrite app_length, nth_alloc_new. cbn.
           rewrite app_length. cbn [length]. rewrite repeat_length.
           rewrite cells_length by (split; auto).
           unfold grow. destruct (s_cap s); lia.
        -- rewrite find_put_other in Fx by auto. destruct (W1 x sx Fx) as [A [B C]].
           unfold ok_slice. rewrite app_length, nth_alloc_old by auto. cbn. lia.
      * intros x y s1 s2 Fx Fy Ea.
        destruct (N.eq_dec w x) as [E1|E1]; destruct (N.eq_dec w y) as [E2|E2]; try congruence.
        -- subst x. rewrite find_put_same in Fx. rewrite find_put_other in Fy by auto.
           inversion Fx; subst s1. cbn in Ea. destruct (W1 y s2 Fy). lia.
        -- subst y. rewrite find_put_same in Fy. rewrite find_put_other in Fx by auto.
           inversion Fy; subst s2. cbn in Ea. destruct (W1 x s1 Fx). lia.
        -- rewrite find_put_other in Fx, Fy by auto. eauto.
  - destruct (del_cases m w l) as [F|s F I|s i F I L1|s i F I L1]; auto.
    { split; cbn.
      - intros x sx Fx. destruct (N.eq_dec w x) as [E|E].
        + subst x. rewrite find_del_same in Fx. discriminate.
        + rewrite find_del_other in Fx by auto. eauto.
      - intros x y s1 s2 Fx Fy Ea.
        destruct (N.eq_dec w x) as [E1|E1]; [subst x; rewrite find_del_same in Fx; discriminate|].
        destruct (N.eq_dec w y) as [E2|E2]; [subst y; rewrite find_del_same in Fy; discriminate|].
        rewrite find_del_other in Fx, Fy by auto. eauto. }
    pose proof (index_of_url_spec (url l) (cells (heap m) s)) as Sp. rewrite I in Sp.
    destruct Sp as [Hi _]. destruct (W1 w s F) as [Hs1 [Hs2 Hs3]].
    pose proof (cut_length i _ Hi) as Lc.
    rewrite cells_length in Hi, Lc by (split; auto).
    split; cbn.
    + intros x sx Fx. destruct (N.eq_dec w x) as [E|E].
      * subst x. rewrite find_put_same in Fx. inversion Fx; subst. unfold ok_slice; cbn.
        rewrite app_length, nth_alloc_new, Lc. cbn. lia.
      * rewrite find_put_other in Fx by auto. destruct (W1 x sx Fx) as [A [B C]].
        unfold ok_slice. rewrite app_length, nth_alloc_old by auto. cbn. lia.
    + intros x y s1 s2 Fx Fy Ea.
      destruct (N.eq_dec w x) as [E1|E1]; destruct (N.eq_dec w y) as [E2|E2]; try congruence.
      * subst x. rewrite find_put_same in Fx. rewrite find_put_other in Fy by auto.
        inversion Fx; subst s1. cbn in Ea. destruct (W1 y s2 Fy). lia.
      * subst y. rewrite find_put_same in Fy. rewrite find_put_other in Fx by auto.
        inversion Fy; subst s2. cbn in Ea. destruct (W1 x s1 Fx). lia.
      * rewrite find_put_other in Fx, Fy by auto. eauto.
  - apply wf_new.
Qed.

(* the refinement relation: every volume's slice denotes the reference list *)
Definition sim (m : vmap) (r : rmap) : Prop := wf m /\ forall v, view m v = r_find v r.

Lemma view_other : forall m e v w l, wf m -> (e = EvAdd w l \/ e = EvDel w l) -> w <> v ->
  view (apply m e) v = view m v.
Proof.
  intros m e v w l W He Hne. unfold view, get_locations.
  assert (Fv : find_vid v (v2l (apply m e)) = find_vid v (v2l m)).
  { destruct He; subst e; cbn.
    - destruct (add_cases m w l); cbn; auto using find_put_other.
    - destruct (del_cases m w l); cbn; auto using find_put_other, find_del_other. }
  rewrite Fv. destruct (find_vid v (v2l m)) as [s|] eqn:F; cbn; auto.
  f_equal. apply (apply_frame m e v s); auto using held_current.
Qed.

Lemma apply_sim : forall m r e, sim m r -> sim (apply m e) (r_apply r e).
Proof.
  intros m r e [W V]. split; [apply apply_wf; auto|]. pose proof W as [W1 W2].
  intro v. destruct e as [w l|w l|].
  - (* add *)
    destruct (N.eq_dec w v) as [E|E].
    2:{ rewrite (view_other m _ v w l) by auto. rewrite V. cbn. unfold r_add.
        destruct (r_find w r) as [ls|]; [destruct (has_url (url l) ls)|];
          auto using r_find_put_other. symmetry; auto using r_find_put_other.
        symmetry; auto using r_find_put_other. }
    subst w. cbn. unfold r_add. rewrite <- (V v). unfold view, get_locations.
    destruct (add_cases m v l) as [F|s F D|s F D Hlt|s F D Hge]; rewrite F; cbn.
    + rewrite find_put_same, r_find_put_same. cbn. unfold cells. cbn.
      rewrite nth_alloc_new. reflexivity.
    + rewrite D. rewrite <- V. unfold view, get_locations. rewrite F. reflexivity.
    + rewrite D, find_put_same, r_find_put_same. cbn. f_equal.
      destruct (W1 v s F) as [Hs1 [Hs2 Hs3]].
      unfold cells. cbn. rewrite nth_set_nth_same by auto.
      apply firstn_S_set_nth. lia.
    + rewrite D, find_put_same, r_find_put_same. cbn [option_map]. f_equal.
      pose proof (cells_length (heap m) s (W1 v s F)) as L.
      unfold cells in *. cbn [s_arr s_len]. rewrite nth_alloc_new.
      apply firstn_snoc_pad. exact L.
  - (* delete *)
    destruct (N.eq_dec w v) as [E|E].
    2:{ rewrite (view_other m _ v w l) by auto. rewrite V. cbn. unfold r_del.
        destruct (r_find w r) as [ls|]; [destruct (has_url (url l) ls)|]; auto.
        destruct (remove_url (url l) ls); symmetry; auto using r_find_put_other, r_find_remove_other. }
    subst w. cbn. unfold r_del. rewrite <- (V v). unfold view, get_locations.
    destruct (del_cases m v l) as [F|s F I|s i F I L1|s i F I L1]; rewrite F; cbn.
    + rewrite <- V. unfold view, get_locations. rewrite F. reflexivity.
    + pose proof (index_of_url_spec (url l) (cells (heap m) s)) as Sp. rewrite I in Sp.
      destruct Sp as [Hu _]. rewrite Hu. rewrite <- V. unfold view, get_locations. rewrite F. reflexivity.
    + pose proof (index_of_url_spec (url l) (cells (heap m) s)) as Sp. rewrite I in Sp.
      destruct Sp as [Hi [Hu Hr]]. rewrite Hu, find_del_same. cbn.
      pose proof (cut_length i _ Hi) as Lc.
      rewrite cells_length in Lc by (apply (W1 v s F)). unfold cut in Lc. rewrite <- Hr in Lc.
      destruct (remove_url (url l) (cells (heap m) s)) as [|x xs]; [|cbn in Lc; lia].
      rewrite r_find_remove_same. reflexivity.
    + pose proof (index_of_url_spec (url l) (cells (heap m) s)) as Sp. rewrite I in Sp.
      destruct Sp as [Hi [Hu Hr]]. rewrite Hu, find_put_same.
      pose proof (cut_length i _ Hi) as Lc.
      rewrite cells_length in Lc by (apply (W1 v s F)).
      pose proof Hi as Hi'. rewrite cells_length in Hi' by (apply (W1 v s F)).
      assert (Hne : remove_url (url l) (cells (heap m) s) <> []).
      { rewrite Hr. fold (cut i (cells (heap m) s)). intro Hc. rewrite Hc in Lc. cbn in Lc. lia. }
      destruct (remove_url (url l) (cells (heap m) s)) as [|x xs] eqn:Hrm; [congruence|].
      rewrite r_find_put_same. cbn. f_equal. rewrite Hr.
      unfold cells at 1. cbn [s_arr s_len]. rewrite nth_alloc_new.
      apply firstn_all2. unfold cut in Lc. lia.
  - reflexivity.
Qed.

Lemma init_sim : forall d, sim (init d) [].
Proof. intro d. split; [apply wf_new|reflexivity]. Qed.

Lemma run_sim : forall evs m r, sim m r -> sim (run m evs) (r_run r evs).
Proof.
  induction evs as [|e evs IH]; intros m r S; simpl; auto.
  apply IH. apply apply_sim. auto.
Qed.

(* the cache holds exactly the reference's lists, for every history *)
Theorem view_is_reference : forall d evs v,
  view (run (init d) evs) v = r_find v (r_run [] evs).
Proof. intros. apply run_sim. apply init_sim. Qed.

(* ---------- the data center the cache orders by ---------- *)
(* no update, and no reconnect, changes it *)
Lemma apply_dc : forall m e, data_center (apply m e) = data_center m.
Proof.
  intros m [w l|w l|]; simpl; auto.
  - destruct (add_cases m w l); reflexivity.
  - destruct (del_cases m w l); reflexivity.
Qed.

Lemma run_dc : forall evs m, data_center (run m evs) = data_center m.
Proof.
  induction evs as [|e evs IH]; intros m; simpl; auto.
  rewrite IH. apply apply_dc.
Qed.

Theorem data_center_kept : forall d evs, data_center (run (init d) evs) = d.
Proof. intros. rewrite run_dc. reflexivity. Qed.

(* ---------- LookupVolumeServerUrl's ordering ---------- *)
Lemma order_locs_acc : forall d ls acc,
  fold_left (order_step d) ls acc =
  rev (filter (same_dc d) ls) ++ acc ++ filter (fun l => negb (same_dc d l)) ls.
Proof.
  induction ls as [|l ls IH]; intros acc; simpl.
  - rewrite app_nil_r. reflexivity.
  - rewrite IH. unfold order_step. destruct (same_dc d l); simpl.
    + rewrite <- app_assoc. reflexivity.
    + rewrite <- app_assoc. reflexivity.
Qed.

Lemma order_locs_spec : forall d ls,
  order_locs d ls = rev (filter (same_dc d) ls) ++ filter (fun l => negb (same_dc d l)) ls.
Proof. intros. unfold order_locs. rewrite order_locs_acc. reflexivity. Qed.

(* lookups of the cache = lookups of the reference, ordered by the cache's CURRENT data center *)
Theorem lookup_is_reference_current_dc : forall d evs v,
  let m := run (init d) evs in
  lookup_locs m v = r_lookup (data_center m) (r_run [] evs) v.
Proof.
  intros d evs v m. unfold lookup_locs, r_lookup. subst m.
  rewrite view_is_reference. destruct (r_find v (r_run [] evs)); auto.
  rewrite order_locs_spec. reflexivity.
Qed.

(* the property's statement: ordered by the CLIENT's data center, for every history
   of notifications and lost connections *)
Theorem sequential_exact : forall d evs v,
  lookup_locs (run (init d) evs) v = r_lookup d (r_run [] evs) v.
Proof.
  intros d evs v. rewrite lookup_is_reference_current_dc.
  rewrite data_center_kept. reflexivity.
Qed.

(* concrete values for the examples (the former witnesses of findings) *)
Definition dcA : string := "dcA".
Definition locA : loc := {| url := "u1"; public_url := "p1"; dc := "dcA" |}.
Definition locB : loc := {| url := "u2"; public_url := "p2"; dc := "dcB" |}.
Definition reconnect_witness : list ev := [EvReset; EvAdd 1%N locB; EvAdd 1%N locA].

(* ---------- what the reference lists are: "the locations currently added" ---------- *)
Definition urls_nodup (ls : list loc) : Prop := NoDup (map url ls).

Lemma has_url_in : forall u ls, has_url u ls = true <-> In u (map url ls).
Proof.
  intros u ls. unfold has_url. rewrite existsb_exists. rewrite in_map_iff. split.
  - intros [l [H1 H2]]. apply String.eqb_eq in H2. eauto.
  - intros [l [H1 H2]]. exists l. split; auto. apply String.eqb_eq. auto.
Qed.

Lemma has_url_false : forall u ls, has_url u ls = false <-> ~ In u (map url ls).
Proof.
  intros. rewrite <- has_url_in. destruct (has_url u ls); split; intro H; auto; try discriminate.
  exfalso. apply H. reflexivity.
Qed.

Lemma remove_url_in : forall u ls x, In x (map url (remove_url u ls)) -> In x (map url ls).
Proof.
  induction ls as [|l ls IH]; simpl; auto. intros x H.
  destruct (String.eqb (url l) u); simpl in *; auto. destruct H; auto.
Qed.

Lemma remove_url_nodup : forall u ls, urls_nodup ls -> urls_nodup (remove_url u ls).
Proof.
  unfold urls_nodup. induction ls as [|l ls IH]; simpl; intro H; auto.
  inversion H as [|? ? Hn Hd]; subst.
  destruct (String.eqb (url l) u); simpl; auto.
  constructor; auto. intro Hin. apply Hn. eapply remove_url_in; eauto.
Qed.

Lemma find_url_none : forall u ls, find_url u ls = None <-> has_url u ls = false.
Proof.
  intros u ls. unfold find_url, has_url. induction ls as [|l ls IH]; simpl; [tauto|].
  destruct (String.eqb (url l) u); simpl; auto. split; discriminate.
Qed.

Lemma find_url_snoc : forall u ls l,
  find_url u (ls ++ [l]) =
  match find_url u ls with Some x => Some x | None => if String.eqb (url l) u then Some l else None end.
Proof.
  intros u ls l. unfold find_url. induction ls as [|x ls IH]; simpl; auto.
  destruct (String.eqb (url x) u); auto.
Qed.

Lemma find_url_remove : forall u u' ls, urls_nodup ls ->
  find_url u (remove_url u' ls) = if String.eqb u' u then None else find_url u ls.
Proof.
  unfold urls_nodup. induction ls as [|l ls IH]; simpl; intro H.
  - destruct (String.eqb u' u); reflexivity.
  - inversion H as [|? ? Hn Hd]; subst.
    destruct (String.eqb (url l) u') eqn:E1.
    + apply String.eqb_eq in E1. subst u'.
      destruct (String.eqb (url l) u) eqn:E2.
      * apply String.eqb_eq in E2. subst u.
        apply find_url_none. apply has_url_false. auto.
      * unfold find_url. simpl. try rewrite E2. reflexivity.
    + unfold find_url in *. simpl. destruct (String.eqb (url l) u) eqn:E2.
      * apply String.eqb_eq in E2. subst u.
        destruct (String.eqb u' (url l)) eqn:E3; auto.
        apply String.eqb_eq in E3. subst u'. rewrite String.eqb_refl in E1. discriminate.
      * apply IH. auto.
Qed.

Definition r_ok (r : rmap) : Prop := forall v ls, r_find v r = Some ls -> urls_nodup ls.

Lemma r_apply_ok : forall r e, r_ok r -> r_ok (r_apply r e).
Proof.
  intros r e H. destruct e as [w l|w l|]; simpl.
  - unfold r_add. destruct (r_find w r) as [ls|] eqn:F.
    + destruct (has_url (url l) ls) eqn:D; auto.
      intros v ls' Fv. destruct (N.eq_dec w v) as [E|E].
      * subst v. rewrite r_find_put_same in Fv. inversion Fv; subst.
        unfold urls_nodup. rewrite map_app. simpl.
        apply Permutation_NoDup with (l := url l :: map url ls).
        -- apply Permutation_cons_append.
        -- constructor; [apply has_url_false; auto|apply (H w); auto].
      * rewrite r_find_put_other in Fv by auto. eauto.
    + intros v ls' Fv. destruct (N.eq_dec w v) as [E|E].
      * subst v. rewrite r_find_put_same in Fv. inversion Fv; subst.
        unfold urls_nodup. simpl. constructor; [intros []|constructor].
      * rewrite r_find_put_other in Fv by auto. eauto.
  - unfold r_del. destruct (r_find w r) as [ls|] eqn:F; auto.
    destruct (has_url (url l) ls) eqn:D; auto.
    destruct (remove_url (url l) ls) as [|x xs] eqn:Hrm.
    { intros v ls' Fv. destruct (N.eq_dec w v) as [E|E].
      - subst v. rewrite r_find_remove_same in Fv. discriminate.
      - rewrite r_find_remove_other in Fv by auto. eauto. }
    intros v ls' Fv. destruct (N.eq_dec w v) as [E|E].
    + subst v. rewrite r_find_put_same in Fv. inversion Fv; subst.
      rewrite <- Hrm. apply remove_url_nodup. eauto.
    + rewrite r_find_put_other in Fv by auto. eauto.
  - intros v ls Fv. discriminate.
Qed.

Lemma r_run_ok : forall evs r, r_ok r -> r_ok (r_run r evs).
Proof. induction evs as [|e evs IH]; intros r H; simpl; auto using r_apply_ok. Qed.

Definition r_list (r : rmap) (v : N) : list loc := match r_find v r with Some ls => ls | None => [] end.

Lemma r_apply_live : forall r e v u, r_ok r ->
  find_url u (r_list (r_apply r e) v) = live_step v u (find_url u (r_list r v)) e.
Proof.
  intros r e v u Hok. unfold r_list. destruct e as [w l|w l|]; simpl.
  - unfold r_add. destruct (N.eqb_spec v w) as [E|E]; simpl.
    + subst w. destruct (r_find v r) as [ls|] eqn:F.
      * destruct (has_url (url l) ls) eqn:D.
        -- rewrite F. destruct (String.eqb (url l) u) eqn:E2; auto.
           apply String.eqb_eq in E2. subst u.
           destruct (find_url (url l) ls) eqn:Fu; auto.
           apply find_url_none in Fu. congruence.
        -- rewrite r_find_put_same. rewrite find_url_snoc.
           destruct (find_url u ls); destruct (String.eqb (url l) u); auto.
      * rewrite r_find_put_same. unfold find_url. simpl.
        destruct (String.eqb (url l) u); reflexivity.
    + destruct (r_find w r) as [ls|]; [destruct (has_url (url l) ls)|]; auto;
        rewrite r_find_put_other by auto; reflexivity.
  - unfold r_del. destruct (N.eqb_spec v w) as [E|E]; simpl.
    + subst w. destruct (r_find v r) as [ls|] eqn:F.
      * destruct (has_url (url l) ls) eqn:D.
        -- pose proof (find_url_remove u (url l) ls (Hok v ls F)) as Hfr.
           destruct (remove_url (url l) ls) as [|x xs] eqn:Hrm.
           ++ rewrite r_find_remove_same. exact Hfr.
           ++ rewrite r_find_put_same. exact Hfr.
        -- rewrite F. destruct (String.eqb (url l) u) eqn:E2; auto.
           apply String.eqb_eq in E2. subst u. apply find_url_none. auto.
      * rewrite F. destruct (String.eqb (url l) u); reflexivity.
    + destruct (r_find w r) as [ls|]; [destruct (has_url (url l) ls)|]; auto.
      destruct (remove_url (url l) ls);
        [rewrite r_find_remove_other by auto|rewrite r_find_put_other by auto]; reflexivity.
  - reflexivity.
Qed.

Lemma r_run_live : forall evs r v u, r_ok r ->
  find_url u (r_list (r_run r evs) v) = fold_left (live_step v u) evs (find_url u (r_list r v)).
Proof.
  induction evs as [|e evs IH]; intros r v u H; simpl; auto.
  rewrite IH by auto using r_apply_ok. rewrite r_apply_live by auto. reflexivity.
Qed.

Lemma r_ok_nil : r_ok [].
Proof. intros v ls H. discriminate. Qed.

(* each Url at most once, and present exactly when currently added, with the
   location record of the notification that added it *)
Theorem locations_exact : forall d evs v,
  let ls := view_list (run (init d) evs) v in
  NoDup (map url ls) /\ forall u, find_url u ls = live v u evs.
Proof.
  intros d evs v ls. subst ls. unfold view_list. rewrite view_is_reference.
  pose proof (r_run_ok evs [] r_ok_nil) as Hok. split.
  - destruct (r_find v (r_run [] evs)) eqn:F; [apply (Hok v); auto|constructor].
  - intro u. pose proof (r_run_live evs [] v u r_ok_nil) as H. unfold r_list in H. exact H.
Qed.

(* same data center first: the answer splits into own-DC locations followed by the others *)
Theorem same_dc_first : forall d r v ls, r_lookup d r v = Ok ls ->
  exists a b, ls = a ++ b /\ forallb (same_dc d) a = true /\ forallb (fun l => negb (same_dc d l)) b = true /\
              Permutation ls (r_list r v).
Proof.
  intros d r v ls H. unfold r_lookup, r_list in *. destruct (r_find v r) as [l0|]; [|discriminate].
  inversion H; subst. eexists. eexists. split; [reflexivity|]. split; [|split].
  - apply forallb_forall. intros x Hx. apply in_rev in Hx. apply filter_In in Hx. tauto.
  - apply forallb_forall. intros x Hx. apply filter_In in Hx. tauto.
  - clear H. induction l0 as [|x l0 IH]; simpl; auto.
    destruct (same_dc d x); simpl.
    + rewrite <- app_assoc. simpl. eapply perm_trans; [apply Permutation_sym, Permutation_middle|].
      constructor. auto.
    + eapply perm_trans; [apply Permutation_sym, Permutation_middle|]. constructor. auto.
Qed.

(* ---------- readers holding a slice while writers proceed ---------- *)
Lemma run_frame : forall evs m v hd, wf m -> held m v hd ->
  cells (heap (run m evs)) hd = cells (heap m) hd.
Proof.
  induction evs as [|e evs IH]; intros m v hd W Hh; simpl; auto.
  destruct (apply_frame m e v hd W Hh) as [C Hh'].
  rewrite (IH (apply m e) v hd); auto using apply_wf.
Qed.

(* a slice handed out by GetLocations keeps denoting the list of the moment it was
   taken, whatever updates (adds, deletes, reconnects) follow, in any interleaving *)
Theorem snapshot_stable : forall d evs1 evs2 v hd,
  get_locations (run (init d) evs1) v = Some hd ->
  cells (heap (run (init d) (evs1 ++ evs2))) hd = cells (heap (run (init d) evs1)) hd.
Proof.
  intros d evs1 evs2 v hd G. unfold run at 1. rewrite fold_left_app. fold (run (init d) evs1).
  pose proof (run_sim evs1 _ _ (init_sim d)) as S.
  apply (run_frame evs2 _ v); [apply S|]. apply held_current; auto. apply S.
Qed.

(* the property's wording: what the reader sees later is the list of SOME state of
   the history (namely the state the slice was taken in) *)
Theorem snapshot_some_past_state : forall d evs1 evs2 v hd,
  get_locations (run (init d) evs1) v = Some hd ->
  exists k, k <= length (evs1 ++ evs2) /\
    view (run (init d) (firstn k (evs1 ++ evs2))) v
      = Some (cells (heap (run (init d) (evs1 ++ evs2))) hd).
Proof.
  intros d evs1 evs2 v hd G. exists (length evs1). split.
  - rewrite app_length. lia.
  - rewrite firstn_app, Nat.sub_diag, firstn_all. simpl. rewrite app_nil_r.
    rewrite (snapshot_stable d evs1 evs2 v hd G). unfold view. rewrite G. reflexivity.
Qed.

(* the former witness of the in-place removal: the held slice still shows u1 u2 u3 *)
Definition locC : loc := {| url := "u3"; public_url := "p3"; dc := "dcA" |}.
Definition alias_before : list ev := [EvAdd 1%N locA; EvAdd 1%N locB; EvAdd 1%N locC].
Definition alias_after : list ev := [EvDel 1%N locA].

Lemma alias_witness_read :
  map url (cells (heap (run (init dcA) (alias_before ++ alias_after))) {| s_arr := 2; s_len := 3; s_cap := 4 |})
  = ["u1"; "u2"; "u3"].
Proof. reflexivity. Qed.

(* ---------- lookup by volume-id string ---------- *)
(* a string is answered only if it parses, and then with the locations of exactly
   the volume it denotes, which is a uint32 *)
Lemma parse_uint32_sound : forall s v, parse_uint32 s = Some v ->
  s <> "" /\ digits s 0%N = Some v /\ (v < 4294967296)%N.
Proof.
  intros s v H. unfold parse_uint32 in H. destruct s as [|c s]; [discriminate|].
  destruct (digits (String c s) 0%N) as [n|] eqn:D; [|discriminate].
  destruct (N.ltb_spec n 4294967296); [|discriminate].
  inversion H; subst. repeat split; auto. discriminate.
Qed.

Theorem lookup_by_string : forall m s us, lookup_volume_server_url m s = Ok us ->
  exists v ls, parse_uint32 s = Some v /\ (v < 4294967296)%N /\
               lookup_locs m v = Ok ls /\ us = map url ls.
Proof.
  intros m s us H. unfold lookup_volume_server_url in H.
  destruct (parse_uint32 s) as [v|] eqn:P; [|discriminate].
  destruct (lookup_locs m v) as [ls|e] eqn:L; [|discriminate].
  inversion H; subst. exists v, ls. repeat split; auto.
  apply (parse_uint32_sound s v P).
Qed.

Theorem lookup_by_string_rejects : forall m s, parse_uint32 s = None ->
  lookup_volume_server_url m s = Err ErrParse.
Proof. intros m s H. unfold lookup_volume_server_url. rewrite H. reflexivity. Qed.

Lemma parse_examples :
  parse_uint32 "4294967297" = None /\ parse_uint32 "4294967295" = Some 4294967295%N /\
  parse_uint32 "-1" = None /\ parse_uint32 "+2" = None /\ parse_uint32 "" = None /\
  parse_uint32 "007" = Some 7%N /\ parse_uint32 "99999999999999999999" = None.
Proof. vm_compute. repeat split; reflexivity. Qed.

(* ---------- messages ---------- *)
Lemma events_app : forall a b, events (a ++ b) = events a ++ events b.
Proof. intros. unfold events. apply flat_map_app. Qed.

(* a message carrying a leader hint changes nothing *)
Lemma leader_hint_ignored : forall g, m_leader g <> "" -> events_of_op (Msg g) = [].
Proof.
  intros g H. simpl. destruct (String.eqb_spec (m_leader g) ""); [contradiction|reflexivity].
Qed.

(* ---------- not-found: exactly when no location is currently added ---------- *)
Definition r_nonempty (r : rmap) : Prop := forall v ls, r_find v r = Some ls -> ls <> [].

Lemma r_apply_nonempty : forall r e, r_nonempty r -> r_nonempty (r_apply r e).
Proof.
  intros r e H. destruct e as [w l|w l|]; simpl.
  - unfold r_add. destruct (r_find w r) as [ls|] eqn:F.
    + destruct (has_url (url l) ls); auto.
      intros v ls' Fv. destruct (N.eq_dec w v) as [E|E].
      * subst v. rewrite r_find_put_same in Fv. inversion Fv; subst.
        intro Hc. apply app_eq_nil in Hc. destruct Hc; discriminate.
      * rewrite r_find_put_other in Fv by auto. eauto.
    + intros v ls' Fv. destruct (N.eq_dec w v) as [E|E].
      * subst v. rewrite r_find_put_same in Fv. inversion Fv; subst. discriminate.
      * rewrite r_find_put_other in Fv by auto. eauto.
  - unfold r_del. destruct (r_find w r) as [ls|] eqn:F; auto.
    destruct (has_url (url l) ls); auto.
    destruct (remove_url (url l) ls) as [|x xs] eqn:Hrm.
    + intros v ls' Fv. destruct (N.eq_dec w v) as [E|E].
      * subst v. rewrite r_find_remove_same in Fv. discriminate.
      * rewrite r_find_remove_other in Fv by auto. eauto.
    + intros v ls' Fv. destruct (N.eq_dec w v) as [E|E].
      * subst v. rewrite r_find_put_same in Fv. inversion Fv; subst. discriminate.
      * rewrite r_find_put_other in Fv by auto. eauto.
  - intros v ls Fv. discriminate.
Qed.

Lemma r_run_nonempty : forall evs r, r_nonempty r -> r_nonempty (r_run r evs).
Proof. induction evs as [|e evs IH]; intros r H; simpl; auto using r_apply_nonempty. Qed.

Lemma r_nonempty_nil : r_nonempty [].
Proof. intros v ls H. discriminate. Qed.

(* the cache never holds "found, no locations" *)
Theorem view_nonempty : forall d evs v ls, view (run (init d) evs) v = Some ls -> ls <> [].
Proof.
  intros d evs v ls H. rewrite view_is_reference in H.
  exact (r_run_nonempty evs [] r_nonempty_nil v ls H).
Qed.

(* the "or not-found" clause: a lookup answers not-found exactly when NO location
   of the volume is currently added (never added, all removed, or dropped by a
   lost connection) *)
Theorem not_found_iff : forall d evs v,
  lookup_locs (run (init d) evs) v = Err ErrNotFound <-> forall u, live v u evs = None.
Proof.
  intros d evs v. pose proof (locations_exact d evs v) as [_ HL]. cbn zeta in HL.
  pose proof (view_nonempty d evs v) as HN.
  unfold lookup_locs, view_list in *.
  destruct (view (run (init d) evs) v) as [ls|] eqn:Vw.
  - split; [discriminate|]. intro Hall. exfalso.
    destruct ls as [|l ls]; [apply (HN []); reflexivity|].
    specialize (HL (url l)). rewrite Hall in HL. unfold find_url in HL. simpl in HL.
    rewrite String.eqb_refl in HL. discriminate.
  - split; auto. intros _ u. rewrite <- HL. reflexivity.
Qed.

(* "same data center first" and "never empty", composed on the cache's own lookup *)
Theorem lookup_same_dc_first : forall d evs v ls, lookup_locs (run (init d) evs) v = Ok ls ->
  exists a b, ls = a ++ b /\ forallb (same_dc d) a = true /\
              forallb (fun l => negb (same_dc d l)) b = true /\
              Permutation ls (view_list (run (init d) evs) v) /\ ls <> [].
Proof.
  intros d evs v ls H. rewrite sequential_exact in H.
  destruct (same_dc_first d _ v ls H) as [a [b [E [Ha [Hb P]]]]].
  assert (RV : r_list (r_run [] evs) v = view_list (run (init d) evs) v).
  { unfold r_list, view_list. rewrite view_is_reference. reflexivity. }
  exists a, b. repeat split; auto.
  - rewrite <- RV. exact P.
  - intro Hc. subst ls. rewrite Hc in P. apply Permutation_nil in P.
    unfold r_lookup, r_list in *. destruct (r_find v (r_run [] evs)) as [l0|] eqn:F; [|discriminate].
    subst l0. exact (r_run_nonempty evs [] r_nonempty_nil v [] F eq_refl).
Qed.

(* ---------- a lookup that is not atomic ---------- *)
Lemma nth_firstn_lt : forall {A} n i (l : list A) d, i < n -> nth i (firstn n l) d = nth i l d.
Proof.
  induction n as [|n IH]; intros i l d H; [lia|].
  destruct l as [|x l]; destruct i as [|i]; simpl; auto. apply IH. lia.
Qed.

Lemma map_nth_seq : forall {A} (l : list A) d, map (fun i => nth i l d) (seq 0 (length l)) = l.
Proof.
  induction l as [|x l IH]; intro d; simpl; auto. f_equal.
  rewrite <- seq_shift, map_map. exact (IH d).
Qed.

(* LookupVolumeServerUrl takes the slice under the read lock (after evs1), then
   reads cell i after any further updates [t i] and the data center after any
   further updates [t']: the answer is the atomic lookup's answer of the moment the
   lock was held *)
Theorem concurrent_lookup : forall d evs1 (t : nat -> list ev) t' v,
  lookup_locs_conc (run (init d) evs1) (fun i => run (init d) (evs1 ++ t i))
                   (run (init d) (evs1 ++ t')) v
  = lookup_locs (run (init d) evs1) v.
Proof.
  intros d evs1 t t' v. unfold lookup_locs_conc, lookup_locs, view.
  destruct (get_locations (run (init d) evs1) v) as [hd|] eqn:G; cbn [option_map]; auto.
  rewrite !data_center_kept. f_equal. f_equal.
  pose proof (run_sim evs1 _ _ (init_sim d)) as [[W1 _] _].
  pose proof (cells_length _ _ (W1 v hd G)) as L.
  unfold read_cells.
  transitivity (map (fun i => nth i (cells (heap (run (init d) evs1)) hd) zero_loc) (seq 0 (s_len hd))).
  - apply map_ext_in. intros i Hi. apply in_seq in Hi.
    rewrite <- (snapshot_stable d evs1 (t i) v hd G). unfold cells.
    rewrite nth_firstn_lt by lia. reflexivity.
  - set (c := cells (heap (run (init d) evs1)) hd) in *. rewrite <- L. apply map_nth_seq.
Qed.

(* ---------- the window checker of the concurrent harness ---------- *)
Lemma in_window_spec : forall p n lo,
  in_window p lo n = true <-> exists j, lo <= j < lo + n /\ p j = true.
Proof.
  induction n as [|n IH]; intros lo; simpl.
  - split; [discriminate|]. intros [j [H _]]. lia.
  - destruct (p lo) eqn:P.
    + split; auto. intros _. exists lo. split; [lia|auto].
    + rewrite IH. split; intros [j [H1 H2]].
      * exists j. split; [lia|auto].
      * exists j. split; auto. destruct (Nat.eq_dec j lo); [subst; congruence|lia].
Qed.

(* [window_ok p lo hi] decides "some update index j with lo <= j <= hi explains the answer" *)
Theorem window_ok_spec : forall p lo hi,
  window_ok p lo hi = true <-> exists j, lo <= j <= hi /\ p j = true.
Proof.
  intros. unfold window_ok. rewrite in_window_spec.
  split; intros [j [H1 H2]]; exists j; split; auto; lia.
Qed.

(* what a reader gets that takes the read lock after j of the updates: exactly the
   locations currently added at that index *)
Theorem concurrent_get_exact : forall d evs j v,
  let ls := view_list (run (init d) (firstn j evs)) v in
  view (run (init d) (firstn j evs)) v = r_find v (r_run [] (firstn j evs)) /\
  NoDup (map url ls) /\ (forall u, find_url u ls = live v u (firstn j evs)) /\
  (view (run (init d) (firstn j evs)) v = None <-> forall u, live v u (firstn j evs) = None).
Proof.
  intros d evs j v ls. subst ls. split; [apply view_is_reference|].
  destruct (locations_exact d (firstn j evs) v) as [H1 H2]. split; [exact H1|]. split; [exact H2|].
  rewrite <- not_found_iff with (d := d). unfold lookup_locs.
  destruct (view (run (init d) (firstn j evs)) v); split; intro H; try discriminate; auto.
Qed.

(* ---------- examples ---------- *)
Definition last_gone : list ev := [EvAdd 1%N locA; EvDel 1%N locA].

Lemma example_witnesses :
  (* a slice held across a delete still shows what it showed *)
  (exists hd, get_locations (run (init dcA) alias_before) 1%N = Some hd /\
     map url (cells (heap (run (init dcA) (alias_before ++ alias_after))) hd) = ["u1"; "u2"; "u3"]) /\
  map url (view_list (run (init dcA) (alias_before ++ alias_after)) 1%N) = ["u2"; "u3"] /\
  (* own data center first after a reconnect *)
  lookup_locs (run (init dcA) reconnect_witness) 1%N = Ok [locA; locB] /\
  (* an id string that is no uint32 is rejected *)
  lookup_volume_server_url (run (init dcA) [EvAdd 1%N locA]) "4294967297" = Err ErrParse /\
  lookup_volume_server_url (run (init dcA) [EvAdd 1%N locA]) "1" = Ok ["u1"] /\
  (* the last location removed: not-found, not "found, empty" *)
  lookup_locs (run (init dcA) last_gone) 1%N = Err ErrNotFound /\
  get_locations (run (init dcA) last_gone) 1%N = None /\
  (* and a held slice still shows it *)
  (exists hd, get_locations (run (init dcA) [EvAdd 1%N locA]) 1%N = Some hd /\
     map url (cells (heap (run (init dcA) (last_gone ++ [EvReset; EvAdd 1%N locB]))) hd) = ["u1"]) /\
  (* the window checker: an answer explained by index 2 only *)
  window_ok (fun j => Nat.eqb j 2) 1 3 = true /\ window_ok (fun j => Nat.eqb j 2) 3 5 = false.
Proof.
  vm_compute. repeat split; try reflexivity; eexists; split; reflexivity.
Qed.
