(* Proofs about model/Seq.v (C13). *)
From Coq Require Import List NArith ZArith Bool Arith Lia Sorted.
From Coq Require Import ZifyBool ZifyN ZifyNat.
From SW Require Import model.Seq.
Import ListNotations.
Local Open Scope N_scope.

(* ================================================================== *)
(* 0. Generic facts                                                    *)
(* ================================================================== *)

Lemma ev_okb_spec : forall e1 e2, ev_okb e1 e2 = true <-> ev_ok e1 e2.
Proof.
  intros [m1 s1 c1|m1 k1] [m2 s2 c2|m2 k2]; unfold ev_okb, ev_ok, in_range; try tauto.
  - split.
    + intros H x. lia.
    + intros H.
      destruct (c1 =? 0) eqn:E1; [reflexivity|].
      destruct (c2 =? 0) eqn:E2; [reflexivity|].
      destruct (s1 + c1 <=? s2) eqn:E3; [reflexivity|].
      destruct (s2 + c2 <=? s1) eqn:E4; [reflexivity|].
      exfalso. apply (H (N.max s1 s2)). lia.
  - split.
    + intros H Hm x Hx. subst m2. rewrite Nat.eqb_refl in H. simpl in H. lia.
    + intros H.
      destruct (Nat.eqb m1 m2) eqn:Em; [|reflexivity].
      apply Nat.eqb_eq in Em. simpl.
      destruct (c2 =? 0) eqn:E2; [reflexivity|]. simpl.
      specialize (H Em s2). lia.
Qed.

Lemma trace_okb_spec : forall tr, trace_okb tr = true <-> ForallOrdPairs ev_ok tr.
Proof.
  induction tr as [|e tr IH]; simpl.
  - split; [constructor|reflexivity].
  - rewrite andb_true_iff, forallb_forall, IH. split.
    + intros [H1 H2]. constructor; [|exact H2].
      apply Forall_forall. intros x Hx. apply ev_okb_spec. auto.
    + intros H. inversion H as [|? ? Hf Hp]; subst. split; [|exact Hp].
      intros x Hx. apply ev_okb_spec. rewrite Forall_forall in Hf. auto.
Qed.

Lemma chain_okb_sound : forall tr hi, chain_okb hi tr = true ->
  trace_okb tr = true /\ forall e, In e tr -> match e with Ret _ s _ => hi <= s | Max _ _ => False end.
Proof.
  induction tr as [|e tr IH]; intros hi H; simpl in *.
  - split; [reflexivity|intros e []].
  - destruct e as [m s c|m k]; [|discriminate].
    apply andb_true_iff in H. destruct H as [H1 H2].
    destruct (IH _ H2) as [I1 I2]. split.
    + rewrite I1, andb_true_r. apply forallb_forall. intros x Hx. specialize (I2 x Hx).
      destruct x as [m' s' c'|]; [|destruct I2]. simpl.
      assert (s + c <=? s' = true) by lia. rewrite H. rewrite orb_true_r. reflexivity.
    + intros e [He|He]; [subst; lia|]. specialize (I2 e He). destruct e; auto. lia.
Qed.

Lemma trace_okb_fast_eq : forall tr, trace_okb_fast tr = trace_okb tr.
Proof.
  intros tr. unfold trace_okb_fast. destruct (chain_okb 0 tr) eqn:E; [|reflexivity].
  destruct (chain_okb_sound _ _ E) as [H _]. rewrite H. reflexivity.
Qed.

Lemma fop_map_in : forall {A B} (R : A -> A -> Prop) (R' : B -> B -> Prop) (f : A -> B) (l : list A),
  ForallOrdPairs R l ->
  (forall x y, In x l -> In y l -> R x y -> R' (f x) (f y)) ->
  ForallOrdPairs R' (map f l).
Proof.
  intros A B R R' f l H. induction H as [|a l Hf Hp IH]; intros Himp; simpl.
  - constructor.
  - constructor.
    + apply Forall_forall. intros y Hy. apply in_map_iff in Hy. destruct Hy as [x [Hx Hin]]. subst y.
      rewrite Forall_forall in Hf. apply Himp; simpl; auto.
    + apply IH. intros x y Hx Hy. apply Himp; simpl; auto.
Qed.

Lemma nth_setnth_eq : forall {A} (l : list A) i x d, (i < length l)%nat -> nth i (setnth l i x) d = x.
Proof.
  induction l as [|y l IH]; intros i x d Hi; simpl in *; [lia|].
  destruct i; simpl; auto. apply IH. lia.
Qed.

Lemma nth_setnth_neq : forall {A} (l : list A) i j x d, i <> j -> nth j (setnth l i x) d = nth j l d.
Proof.
  induction l as [|y l IH]; intros i j x d Hij; simpl; auto.
  destruct i, j; simpl; auto; try congruence.
Qed.

Lemma length_setnth : forall {A} (l : list A) i x, length (setnth l i x) = length l.
Proof. induction l as [|y l IH]; intros i x; simpl; auto. destruct i; simpl; auto. Qed.

(* runs of a guarded step function keep an invariant that relates the state to
   the events so far, and every new event is in relation with every older one *)
Section GenericRun.
  Variables (S I E : Type) (step : S -> I -> S * option E) (g : S -> I -> bool).
  Variables (R : E -> E -> Prop) (Inv : S -> list E -> Prop).
  Hypothesis step_ok : forall s past i, Inv s past -> g s i = true ->
    match snd (step s i) with
    | Some x => Inv (fst (step s i)) (x :: past) /\ (forall old, In old past -> R old x)
    | None => Inv (fst (step s i)) past
    end.

  Lemma grun_ok : forall l s past, Inv s past -> gall step g s l = true ->
    ForallOrdPairs R (somes (snd (grun step s l))) /\
    (forall old new, In old past -> In new (somes (snd (grun step s l))) -> R old new) /\
    exists past', Inv (fst (grun step s l)) past' /\
                  (forall e, In e past' <-> In e past \/ In e (somes (snd (grun step s l)))).
  Proof.
    induction l as [|i l IH]; intros s past Hinv Hg; simpl in *.
    - split; [constructor|]. split; [intros ? ? ? []|]. exists past. split; auto. intros e. tauto.
    - apply andb_true_iff in Hg. destruct Hg as [Hg1 Hg2].
      pose proof (step_ok s past i Hinv Hg1) as Hs.
      destruct (step s i) as [s' e] eqn:Est. simpl in Hs, Hg2.
      destruct (grun step s' l) as [sf tr] eqn:Erun. simpl.
      destruct e as [x|].
      + destruct Hs as [Hinv' Hold].
        destruct (IH s' (x :: past) Hinv' Hg2) as [Hfop [Hcross [past' [Hfin Hiff]]]].
        rewrite Erun in *. simpl in *.
        split; [|split].
        * constructor; auto. apply Forall_forall. intros y Hy. apply Hcross; auto.
        * intros old new Ho [Hn|Hn]; [subst; auto|]. apply Hcross; auto.
        * exists past'. split; auto. intros e. rewrite Hiff. tauto.
      + destruct (IH s' past Hs Hg2) as [Hfop [Hcross [past' [Hfin Hiff]]]].
        rewrite Erun in *. simpl in *.
        split; [|split]; auto. exists past'. split; auto.
  Qed.
End GenericRun.

Lemma gall_and : forall {S I E} (step : S -> I -> S * option E) g1 g2 l s,
  gall step (fun s i => g1 s i && g2 s i) s l = gall step g1 s l && gall step g2 s l.
Proof.
  induction l as [|i l IH]; intros s; simpl; auto.
  rewrite IH. destruct (g1 s i), (g2 s i), (gall step g1 (fst (step s i)) l); simpl; auto.
Qed.

Lemma gall_true : forall {S I E} (step : S -> I -> S * option E) l s, gall step (fun _ _ => true) s l = true.
Proof. induction l; intros; simpl; auto. Qed.

(* ================================================================== *)
(* 1. Memory sequencer                                                 *)
(* ================================================================== *)

Definition mem_inv (c : N) (past : list ev) : Prop :=
  forall e, In e past -> match e with Ret _ s n => s + n <= c | Max _ k => k < c end.

Lemma mem_step_ok : forall c past o, mem_inv c past -> mem_guard c o = true ->
  match snd (mem_step c o) with
  | Some x => mem_inv (fst (mem_step c o)) (x :: past) /\ (forall old, In old past -> ev_ok old x)
  | None => mem_inv (fst (mem_step c o)) past
  end.
Proof.
  intros c past o Hinv Hg. unfold mem_inv in *.
  destruct o as [count|k]; simpl in *; unfold w64.
  - assert (Hlt : c + count < two64) by lia.
    rewrite (N.mod_small _ _ Hlt). split.
    + intros e [He|He]; [subst; lia|]. specialize (Hinv e He). destruct e; lia.
    + intros old Ho. specialize (Hinv old Ho). destruct old; unfold ev_ok, in_range; intros; lia.
  - split; [|intros old _; destruct old; exact I].
    destruct (c <=? k) eqn:Ec.
    + assert (Hlt : k + 1 < two64) by lia. rewrite (N.mod_small _ _ Hlt).
      intros e [He|He]; [subst; lia|]. specialize (Hinv e He). destruct e; lia.
    + intros e [He|He]; [subst; lia|]. apply Hinv; auto.
Qed.

Theorem mem_trace_ok : forall ops c past, mem_inv c past -> mem_fits c ops = true ->
  ForallOrdPairs ev_ok (somes (snd (mem_run c ops))) /\
  (forall old new, In old past -> In new (somes (snd (mem_run c ops))) -> ev_ok old new).
Proof.
  intros ops c past Hinv Hf.
  destruct (grun_ok _ _ _ mem_step mem_guard ev_ok mem_inv mem_step_ok ops c past Hinv Hf) as [H1 [H2 _]].
  split; assumption.
Qed.

Theorem mem_ok : forall ops, mem_fits mem_init ops = true ->
  ForallOrdPairs ev_ok (somes (snd (mem_run mem_init ops))).
Proof.
  intros ops Hf. apply (mem_trace_ok ops mem_init []); auto. intros e [].
Qed.

Definition actor (e : ev) : nat := match e with Ret m _ _ => m | Max m _ => m end.

Lemma mem_actor0 : forall ops c e, In e (somes (snd (mem_run c ops))) -> actor e = 0%nat.
Proof.
  unfold mem_run. induction ops as [|o ops IH]; intros c e He; simpl in *; [tauto|].
  destruct (mem_step c o) as [c' x] eqn:Es.
  destruct (grun mem_step c' ops) as [cf tr] eqn:Er. simpl in He.
  assert (Hx : exists y, x = Some y /\ actor y = 0%nat).
  { destruct o; simpl in Es; inversion Es; eexists; split; reflexivity. }
  destruct Hx as [y [Hy Hy0]]. subst x. simpl in He. destruct He as [He|He]; [subst; auto|].
  apply (IH c'). rewrite Er. exact He.
Qed.

(* a fresh sequencer (new leader, counter back to 1) that first learns, through
   heartbeats, a key k not below any key handed out before *)
Definition ranges_ok (e1 e2 : ev) : Prop :=
  match e1, e2 with
  | Ret _ s1 c1, Ret _ s2 c2 => forall x, ~ (in_range x s1 c1 /\ in_range x s2 c2)
  | _, _ => True
  end.

Theorem mem_failover_ok : forall ops1 ops2 k,
  mem_fits mem_init ops1 = true ->
  mem_fits mem_init (MSetMax k :: ops2) = true ->
  (forall m s c x, In (Ret m s c) (somes (snd (mem_run mem_init ops1))) -> in_range x s c -> x <= k) ->
  forall e1 e2, In e1 (somes (snd (mem_run mem_init ops1))) ->
                In e2 (somes (snd (mem_run mem_init (MSetMax k :: ops2)))) -> ranges_ok e1 e2.
Proof.
  intros ops1 ops2 k Hf1 Hf2 Hk e1 e2 H1 H2.
  destruct e1 as [m1 s1 c1|]; [|exact I]. destruct e2 as [m2 s2 c2|]; [|exact I].
  assert (Hmax : ForallOrdPairs ev_ok (somes (snd (mem_run mem_init (MSetMax k :: ops2)))))
    by (apply mem_ok; auto).
  pose proof (mem_actor0 _ _ _ H2) as Ha. simpl in Ha. subst m2.
  unfold mem_run in *. simpl in Hmax, H2.
  destruct (grun mem_step (if mem_init <=? k then w64 (k + 1) else mem_init) ops2) as [cf tr] eqn:Er.
  simpl in Hmax, H2. destruct H2 as [H2|H2]; [discriminate|].
  inversion Hmax as [|? ? Hfa _]; subst. rewrite Forall_forall in Hfa.
  specialize (Hfa _ H2). simpl in Hfa.
  intros x [Hx1 Hx2]. specialize (Hk _ _ _ _ H1 Hx1). specialize (Hfa eq_refl x Hx2). lia.
Qed.

(* ================================================================== *)
(* 2a. The etcd sequencer with unbounded arithmetic (proof device): the  *)
(*     uint64 model of model/Seq.v coincides with it on every step whose *)
(*     guard [mguard] holds                                              *)
(* ================================================================== *)
Definition reqsteps_u (count : N) : N := if etcd_steps <? count then etcd_steps + count else etcd_steps.

Definition mstep_u (i : nat) (st : option N) (m : mst) (a : act) : option N * mst * option mev :=
  match a with
  | ABoot => (st, set_pc m (MaxGet Boot (file m)), None)
  | ANext count =>
      match p m with
      | Idle =>
          if cur m + count <? mx m
          then (st, {| cur := cur m + count; mx := mx m; file := file m; p := Idle |}, Some (MRet i (cur m) count))
          else (st, set_pc m (NextGet count), None)
      | _ => (st, m, None)
      end
  | ASetMax k =>
      match p m with
      | Idle =>
          if mx m <? k
          then (st, set_pc m (MaxGet Beat k), None)
          else (st, m, Some (MMax i k (k <? cur m)))
      | _ => (st, m, None)
      end
  | ATick f =>
      match p m with
      | Idle | Down => (st, m, None)
      | NextGet count =>
          match f, st with
          | Ok, Some v => (st, set_pc m (NextSet count v), None)
          | _, _ => (st, set_pc m Idle, Some (MRetErr i count))
          end
      | NextSet count prev =>
          let steps := reqsteps_u count in
          match f with
          | Ok =>
              if hit st prev
              then (Some (prev + steps),
                    {| cur := prev + count; mx := prev + steps; file := prev + steps; p := Idle |},
                    Some (MRet i prev count))
              else (st, set_pc m (NextGet count), None)
          | Err => (st, set_pc m (NextGet count), None)
          | ErrAfter => ((if hit st prev then Some (prev + steps) else st), set_pc m (NextGet count), None)
          end
      | MaxGet w k =>
          match f, st with
          | Ok, None => (st, set_pc m (MaxCreate w k), None)
          | Ok, Some v =>
              if k <=? v
              then let '(m', e) := max_done i m w k v in (st, m', e)
              else (st, set_pc m (MaxSet w k v), None)
          | _, _ => let '(m', e) := max_fail i m w k in (st, m', e)
          end
      | MaxCreate w k =>
          match f with
          | Ok => ((match st with None => Some k | Some _ => st end), set_pc m (MaxGet w k), None)
          | Err => let '(m', e) := max_fail i m w k in (st, m', e)
          | ErrAfter => let '(m', e) := max_fail i m w k in ((match st with None => Some k | Some _ => st end), m', e)
          end
      | MaxSet w k prev =>
          match f with
          | Ok =>
              if hit st prev then (Some k, set_pc m (MaxGet w k), None)
              else let '(m', e) := max_fail i m w k in (st, m', e)
          | Err => let '(m', e) := max_fail i m w k in (st, m', e)
          | ErrAfter => let '(m', e) := max_fail i m w k in ((if hit st prev then Some k else st), m', e)
          end
      end
  end.

Definition estep_u (s : est) (ia : nat * act) : est * option mev :=
  let '(i, a) := ia in
  if Nat.ltb i (length (masters s)) then
    let '(st', m', e) := mstep_u i (store s) (nth i (masters s) mst0) a in
    ({| store := st'; masters := setnth (masters s) i m' |}, e)
  else (s, None).
Definition erun_u (s : est) (sched : list (nat * act)) : est * list (option mev) := grun estep_u s sched.
Definition etcd_trace_u (n : nat) (sched : list (nat * act)) : list mev := somes (snd (erun_u (einit n) sched)).

Lemma w64_small : forall x, x < two64 -> w64 x = x.
Proof. intros x H. unfold w64. apply N.mod_small. exact H. Qed.

Lemma reqsteps_eq : forall count, etcd_steps + count < two64 -> reqsteps count = reqsteps_u count.
Proof.
  intros count H. unfold reqsteps, reqsteps_u. destruct (etcd_steps <? count); [|reflexivity].
  apply w64_small. exact H.
Qed.

Lemma reqsteps_u_pos : forall count, count <= reqsteps_u count /\ 0 < reqsteps_u count.
Proof. intros count. unfold reqsteps_u, etcd_steps. destruct (500 <? count) eqn:E; lia. Qed.

Lemma sub_back : forall prev steps, prev + steps < two64 -> w64 (w64 (prev + steps) + two64 - steps) = prev.
Proof.
  intros prev steps H. rewrite (w64_small _ H).
  replace (prev + steps + two64 - steps) with (prev + 1 * two64) by lia.
  unfold w64. rewrite N.mod_add by (unfold two64; lia). apply N.mod_small. lia.
Qed.

Lemma mstep_eq : forall i st m a, mguard m a = true -> mstep i st m a = mstep_u i st m a.
Proof.
  intros i st m a Hg. destruct a as [count|k| |f]; unfold mstep, mstep_u, mguard in *; try reflexivity.
  - destruct (p m); try reflexivity.
    apply andb_true_iff in Hg. destruct Hg as [G1 G2].
    rewrite (w64_small (cur m + count)) by lia.
    destruct (cur m + count <? mx m); [reflexivity|].
    rewrite reqsteps_eq by lia. destruct (reqsteps_u_pos count) as [_ Hp].
    destruct (reqsteps_u count =? 0) eqn:E; [lia|reflexivity].
  - destruct (p m) as [| |c|count prev|w k|w k|w k prev]; try reflexivity.
    apply andb_true_iff in Hg. destruct Hg as [G1 G2].
    rewrite reqsteps_eq in * by lia. destruct (reqsteps_u_pos count) as [Hle _].
    cbv zeta.
    rewrite sub_back by lia.
    rewrite (w64_small (prev + reqsteps_u count)) by lia.
    rewrite (w64_small (prev + count)) by lia.
    reflexivity.
Qed.

Lemma estep_eq : forall s ia, eguard s ia = true -> estep s ia = estep_u s ia.
Proof.
  intros s [i a] Hg. unfold estep, estep_u, eguard in *. simpl in Hg.
  destruct (Nat.ltb i (length (masters s))); [|reflexivity].
  rewrite (mstep_eq _ _ _ _ Hg). reflexivity.
Qed.

Lemma grun_ext : forall {St I E} (step step' : St -> I -> St * option E) g,
  (forall s i, g s i = true -> step s i = step' s i) ->
  forall l s, gall step g s l = true -> grun step s l = grun step' s l.
Proof.
  intros St I E step step' g Heq. induction l as [|i l IH]; intros s H; simpl in *; [reflexivity|].
  apply andb_true_iff in H. destruct H as [H1 H2].
  rewrite <- (Heq s i H1). destruct (step s i) as [s' e]. simpl in H2. rewrite (IH s' H2). reflexivity.
Qed.

Lemma etcd_trace_eq : forall n sched, etcd_fits n sched = true -> etcd_trace n sched = etcd_trace_u n sched.
Proof.
  intros n sched H. unfold etcd_trace, etcd_trace_u, erun, erun_u.
  rewrite (grun_ext estep estep_u eguard estep_eq sched (einit n) H). reflexivity.
Qed.

(* the run up to the first failing guard *)
Lemma gall_fit_len : forall {St I E} (step : St -> I -> St * option E) g l s,
  gall step g s (firstn (gfit_len step g s l) l) = true.
Proof.
  induction l as [|i l IH]; intros s; simpl; [reflexivity|].
  destruct (g s i) eqn:Eg; simpl; [|reflexivity]. rewrite Eg. simpl. apply IH.
Qed.

Lemma grun_firstn : forall {St I E} (step : St -> I -> St * option E) k l s,
  snd (grun step s (firstn k l)) = firstn k (snd (grun step s l)).
Proof.
  induction k as [|k IH]; intros l s; simpl.
  - destruct l; reflexivity.
  - destruct l as [|i l]; simpl; [reflexivity|].
    destruct (step s i) as [s' e]. specialize (IH l s').
    destruct (grun step s' (firstn k l)) as [sf tr]. destruct (grun step s' l) as [sf' tr']. simpl in *.
    f_equal. exact IH.
Qed.

Lemma gfit_len_all : forall {St I E} (step : St -> I -> St * option E) g l s,
  gall step g s l = true -> gfit_len step g s l = length l.
Proof.
  induction l as [|i l IH]; intros s H; simpl in *; [reflexivity|].
  apply andb_true_iff in H. destruct H as [H1 H2]. rewrite H1. f_equal. apply IH. exact H2.
Qed.

(* ================================================================== *)
(* 2b. Etcd sequencer, unbounded arithmetic                            *)
(* ================================================================== *)

(* value of the shared counter (0 while the key does not exist) *)
Definition EV (st : option N) : N := match st with Some v => v | None => 0 end.

(* local invariant of one master against the store *)
Definition Lm (st : option N) (m : mst) : Prop :=
  cur m <= mx m /\ mx m <= EV st /\ match p m with MaxSet _ k prev => prev < k | _ => True end.

Lemma reqsteps_ge : forall count, count <= reqsteps_u count.
Proof. intros count. unfold reqsteps_u, etcd_steps. destruct (500 <? count) eqn:E; lia. Qed.

Definition mfacts (i : nat) (st : option N) (m : mst) (st' : option N) (m' : mst) (e : option mev) : Prop :=
  EV st <= EV st' /\ cur m <= cur m' /\ Lm st' m' /\ (mx m' = mx m \/ EV st <= cur m') /\
  match e with
  | Some (MRet j s c) => j = i /\ cur m <= s /\ s + c = cur m' /\ (mx m' = mx m \/ EV st <= s)
  | Some (MMax j k true) => j = i /\ k < cur m'
  | Some (MMax j k false) => j = i
  | Some (MRetErr j c) => j = i
  | None => True
  end.

Lemma hit_true : forall st prev, hit st prev = true -> st = Some prev.
Proof. intros [v|] prev H; simpl in H; [|discriminate]. f_equal. lia. Qed.

Ltac inv_step H := inversion H; subst; clear H.

Lemma mstep_facts : forall i st m a st' m' e, Lm st m -> mstep_u i st m a = (st', m', e) -> mfacts i st m st' m' e.
Proof.
  intros i st m a st' m' e [HL1 [HL2 HL3]] Hs. unfold mfacts, Lm.
  destruct a as [count|k| |f]; unfold mstep_u in Hs.
  - (* ANext *)
    destruct (p m) eqn:Ep; try (inv_step Hs; rewrite ?Ep; repeat split; auto; lia).
    destruct (cur m + count <? mx m) eqn:Ec; inv_step Hs; simpl; rewrite ?Ep; repeat split; auto; lia.
  - (* ASetMax *)
    destruct (p m) eqn:Ep; try (inv_step Hs; rewrite ?Ep; repeat split; auto; lia).
    destruct (mx m <? k) eqn:Ec; inv_step Hs; simpl; rewrite ?Ep; repeat split; auto; try lia.
    destruct (k <? cur m') eqn:Ek; [split; [reflexivity|lia]|reflexivity].
  - (* ABoot *)
    inv_step Hs. simpl. repeat split; auto; lia.
  - (* ATick *)
    destruct (p m) as [| |count|count prev|w k|w k|w k prev] eqn:Ep.
    + inv_step Hs. rewrite Ep. repeat split; auto; lia.
    + inv_step Hs. rewrite Ep. repeat split; auto; lia.
    + (* NextGet *)
      destruct f; destruct st as [v|]; inv_step Hs; simpl; repeat split; auto; lia.
    + (* NextSet *)
      pose proof (reqsteps_ge count) as Hrq.
      destruct f.
      * destruct (hit st prev) eqn:Eh.
        -- apply hit_true in Eh. subst st. inv_step Hs. simpl in *. repeat split; auto; lia.
        -- inv_step Hs. simpl. repeat split; auto; lia.
      * inv_step Hs. simpl. repeat split; auto; lia.
      * destruct (hit st prev) eqn:Eh.
        -- apply hit_true in Eh. subst st. inv_step Hs. simpl in *. repeat split; auto; lia.
        -- inv_step Hs. simpl. repeat split; auto; lia.
    + (* MaxGet *)
      destruct f; destruct st as [v|]; simpl in *.
      * destruct (k <=? v) eqn:Ek.
        -- destruct w; simpl in Hs; inv_step Hs; simpl; repeat split; auto; try lia.
           destruct (k <? v) eqn:Ekv; [split; [reflexivity|lia]|reflexivity].
        -- inv_step Hs. simpl. repeat split; auto; lia.
      * inv_step Hs. simpl. repeat split; auto; lia.
      * destruct w; simpl in Hs; inv_step Hs; simpl; repeat split; auto; lia.
      * destruct w; simpl in Hs; inv_step Hs; simpl; repeat split; auto; lia.
      * destruct w; simpl in Hs; inv_step Hs; simpl; repeat split; auto; lia.
      * destruct w; simpl in Hs; inv_step Hs; simpl; repeat split; auto; lia.
    + (* MaxCreate *)
      destruct f; destruct st as [v|]; destruct w; simpl in Hs; inv_step Hs; simpl in *; repeat split; auto; lia.
    + (* MaxSet *)
      destruct f.
      * destruct (hit st prev) eqn:Eh.
        -- apply hit_true in Eh. subst st. inv_step Hs. simpl in *. repeat split; auto; lia.
        -- destruct w; simpl in Hs; inv_step Hs; simpl; repeat split; auto; lia.
      * destruct w; simpl in Hs; inv_step Hs; simpl; repeat split; auto; lia.
      * destruct (hit st prev) eqn:Eh.
        -- apply hit_true in Eh. subst st. destruct w; simpl in Hs; inv_step Hs; simpl in *; repeat split; auto; lia.
        -- destruct w; simpl in Hs; inv_step Hs; simpl; repeat split; auto; lia.
Qed.

Definition getm (s : est) (j : nat) : mst := nth j (masters s) mst0.

Record Ginv (s : est) (past : list mev) : Prop := {
  g_loc : forall j, Lm (store s) (getm s j);
  g_win : forall j j', j <> j' -> mx (getm s j) <= cur (getm s j') \/ mx (getm s j') <= cur (getm s j);
  g_ret : forall i s0 c, In (MRet i s0 c) past ->
            s0 + c <= EV (store s) /\ forall j, s0 + c <= cur (getm s j) \/ mx (getm s j) <= s0;
  g_max : forall i k, In (MMax i k true) past -> k < cur (getm s i) }.

Definition mev_ok (e1 e2 : mev) : Prop :=
  match e1, e2 with
  | MRet _ s1 c1, MRet _ s2 c2 => forall x, ~ (in_range x s1 c1 /\ in_range x s2 c2)
  | MMax m k true, MRet m' s c => m = m' -> forall x, in_range x s c -> k < x
  | _, _ => True
  end.

Lemma Lm_mst0 : forall st, Lm st mst0.
Proof. intros st. unfold Lm, mst0. simpl. repeat split; lia. Qed.

Lemma Lm_mono : forall st st' m, EV st <= EV st' -> Lm st m -> Lm st' m.
Proof. intros st st' m H [H1 [H2 H3]]. repeat split; auto. lia. Qed.

Lemma estep_ok : forall s past ia, Ginv s past -> (fun _ _ => true) s ia = true ->
  match snd (estep_u s ia) with
  | Some x => Ginv (fst (estep_u s ia)) (x :: past) /\ (forall old, In old past -> mev_ok old x)
  | None => Ginv (fst (estep_u s ia)) past
  end.
Proof.
  intros s past [i a] HG _. unfold estep_u.
  destruct (Nat.ltb i (length (masters s))) eqn:Ei; [|simpl; exact HG].
  apply Nat.ltb_lt in Ei.
  destruct (mstep_u i (store s) (nth i (masters s) mst0) a) as [[st' m'] e] eqn:Es.
  pose proof (mstep_facts _ _ _ _ _ _ _ (g_loc _ _ HG i) Es) as [F1 [F2 [F3 [F4 F5]]]].
  fold (getm s i) in *. simpl.
  set (s' := {| store := st'; masters := setnth (masters s) i m' |}).
  assert (Hgi : getm s' i = m') by (unfold getm, s'; simpl; apply nth_setnth_eq; auto).
  assert (Hgj : forall j, j <> i -> getm s' j = getm s j)
    by (intros j Hj; unfold getm, s'; simpl; apply nth_setnth_neq; auto).
  assert (Hst : store s' = st') by reflexivity.
  (* invariant for the old events *)
  assert (Hloc : forall j, Lm (store s') (getm s' j)).
  { intros j. destruct (Nat.eq_dec j i) as [->|Hj]; [rewrite Hgi; auto|].
    rewrite Hgj by auto. eapply Lm_mono; [|apply (g_loc _ _ HG)]. simpl. auto. }
  assert (Hwin : forall j j', j <> j' -> mx (getm s' j) <= cur (getm s' j') \/ mx (getm s' j') <= cur (getm s' j)).
  { intros j j' Hjj.
    destruct (Nat.eq_dec j i) as [->|Hj]; destruct (Nat.eq_dec j' i) as [->|Hj']; try congruence.
    - rewrite Hgi, (Hgj j') by auto.
      pose proof (g_win _ _ HG i j' Hjj) as Hw. pose proof (g_loc _ _ HG j') as [_ [Hm _]].
      destruct F4 as [F4|F4]; [rewrite F4; lia|lia].
    - rewrite Hgi, (Hgj j) by auto.
      pose proof (g_win _ _ HG j i Hjj) as Hw. pose proof (g_loc _ _ HG j) as [_ [Hm _]].
      destruct F4 as [F4|F4]; [rewrite F4; lia|lia].
    - rewrite !Hgj by auto. apply (g_win _ _ HG); auto. }
  assert (Hret : forall i0 s0 c, In (MRet i0 s0 c) past ->
            s0 + c <= EV (store s') /\ forall j, s0 + c <= cur (getm s' j) \/ mx (getm s' j) <= s0).
  { intros i0 s0 c Hin. destruct (g_ret _ _ HG _ _ _ Hin) as [R1 R2]. split; [simpl; lia|].
    intros j. destruct (Nat.eq_dec j i) as [->|Hj].
    - rewrite Hgi. specialize (R2 i). destruct F4 as [F4|F4]; [rewrite F4; lia|lia].
    - rewrite Hgj by auto. apply R2. }
  assert (Hmax : forall i0 k, In (MMax i0 k true) past -> k < cur (getm s' i0)).
  { intros i0 k Hin. pose proof (g_max _ _ HG _ _ Hin) as Hk.
    destruct (Nat.eq_dec i0 i) as [->|Hj]; [rewrite Hgi; lia|rewrite Hgj by auto; auto]. }
  destruct e as [x|]; [|constructor; auto].
  split.
  - constructor; auto.
    + intros i0 s0 c [Hin|Hin]; [|apply (Hret _ _ _ Hin)]. subst x.
      destruct F5 as [-> [G1 [G2 G3]]]. destruct F3 as [L1 [L2 _]]. split; [simpl; lia|].
      intros j. destruct (Nat.eq_dec j i) as [->|Hj]; [rewrite Hgi; lia|].
      rewrite Hgj by auto.
      pose proof (g_win _ _ HG i j (not_eq_sym Hj)) as Hw. pose proof (g_loc _ _ HG j) as [_ [Hm _]].
      destruct G3 as [G3|G3]; [rewrite G3 in L2; lia|lia].
    + intros i0 k [Hin|Hin]; [|apply Hmax; auto]. subst x.
      destruct F5 as [-> G1]. rewrite Hgi. auto.
  - intros old Hold. destruct x as [j s0 c|j c|j k b]; try (destruct old as [? ? ?|? ?|? ? []]; exact I).
    destruct F5 as [-> [G1 [G2 G3]]]. destruct F3 as [L1 [L2 _]].
    destruct old as [i0 s1 c1|i0 c1|i0 k b]; simpl; auto.
    + destruct (g_ret _ _ HG _ _ _ Hold) as [R1 R2]. specialize (R2 i). unfold in_range. intros x.
      destruct G3 as [G3|G3]; [rewrite G3 in L2; lia|lia].
    + destruct b; auto. intros <- x Hx. pose proof (g_max _ _ HG _ _ Hold) as Hk. unfold in_range in Hx. lia.
Qed.

Lemma Ginv_init : forall n, Ginv (einit n) [].
Proof.
  intros n.
  assert (Hg : forall j, getm (einit n) j = mst0).
  { intros j. unfold getm, einit. simpl. destruct (Nat.ltb j n) eqn:E.
    - apply nth_repeat.
    - apply nth_overflow. rewrite repeat_length. apply Nat.ltb_ge in E. lia. }
  constructor.
  - intros j. rewrite Hg. apply Lm_mst0.
  - intros j j' _. rewrite !Hg. simpl. lia.
  - intros ? ? ? [].
  - intros ? ? [].
Qed.

Theorem etcd_all_u : forall n sched, ForallOrdPairs mev_ok (etcd_trace_u n sched).
Proof.
  intros n sched. unfold etcd_trace_u, erun_u.
  destruct (grun_ok _ _ _ estep_u (fun _ _ => true) mev_ok Ginv estep_ok sched (einit n) [] (Ginv_init n) (gall_true _ _ _)) as [H _].
  exact H.
Qed.

Theorem etcd_ranges_ok_u : forall n sched, etcd_err_trigger (etcd_trace_u n sched) = false ->
  ForallOrdPairs ranges_ok (map vis (etcd_trace_u n sched)).
Proof.
  intros n sched Ht. eapply fop_map_in; [apply etcd_all_u|].
  intros x y Hx Hy Hxy. unfold etcd_err_trigger in Ht.
  assert (Hnx : is_reterr x = false).
  { destruct (is_reterr x) eqn:E; auto. exfalso.
    assert (existsb is_reterr (etcd_trace_u n sched) = true) by (apply existsb_exists; eauto). congruence. }
  assert (Hny : is_reterr y = false).
  { destruct (is_reterr y) eqn:E; auto. exfalso.
    assert (existsb is_reterr (etcd_trace_u n sched) = true) by (apply existsb_exists; eauto). congruence. }
  destruct x as [? ? ?|? ?|? ? ?], y as [? ? ?|? ?|? ? ?]; simpl in *; try discriminate; auto.
Qed.

Theorem etcd_partial_ok_u : forall n sched,
  etcd_err_trigger (etcd_trace_u n sched) = false ->
  etcd_setmax_trigger (etcd_trace_u n sched) = false ->
  ForallOrdPairs ev_ok (map vis (etcd_trace_u n sched)).
Proof.
  intros n sched Ht Hu. eapply fop_map_in; [apply etcd_all_u|].
  intros x y Hx Hy Hxy. unfold etcd_err_trigger, etcd_setmax_trigger in *.
  assert (Hn : forall z, In z (etcd_trace_u n sched) -> is_reterr z = false /\ is_unsafe_max z = false).
  { intros z Hz. split.
    - destruct (is_reterr z) eqn:E; auto. exfalso.
      assert (existsb is_reterr (etcd_trace_u n sched) = true) by (apply existsb_exists; eauto). congruence.
    - destruct (is_unsafe_max z) eqn:E; auto. exfalso.
      assert (existsb is_unsafe_max (etcd_trace_u n sched) = true) by (apply existsb_exists; eauto). congruence. }
  destruct (Hn x Hx) as [X1 X2]. destruct (Hn y Hy) as [Y1 Y2].
  destruct x as [? ? ?|? ?|? ? []], y as [? ? ?|? ?|? ? []]; simpl in *; try discriminate; auto.
Qed.


(* ---- the same for the uint64 model, as long as no operation wraps ---- *)
Theorem etcd_all : forall n sched, etcd_fits n sched = true -> ForallOrdPairs mev_ok (etcd_trace n sched).
Proof. intros n sched H. rewrite (etcd_trace_eq _ _ H). apply etcd_all_u. Qed.

Theorem etcd_ranges_ok : forall n sched, etcd_fits n sched = true ->
  etcd_err_trigger (etcd_trace n sched) = false ->
  ForallOrdPairs ranges_ok (map vis (etcd_trace n sched)).
Proof. intros n sched H. rewrite (etcd_trace_eq _ _ H). apply etcd_ranges_ok_u. Qed.

Theorem etcd_partial_ok : forall n sched, etcd_fits n sched = true ->
  etcd_err_trigger (etcd_trace n sched) = false ->
  etcd_setmax_trigger (etcd_trace n sched) = false ->
  ForallOrdPairs ev_ok (map vis (etcd_trace n sched)).
Proof. intros n sched H. rewrite (etcd_trace_eq _ _ H). apply etcd_partial_ok_u. Qed.

(* per pair, no whole-trace hypothesis: two events that carry neither tag
   (NextFileId returned 0 after an etcd error; SetMax that did not move the
   sequence past k) satisfy the property *)
Definition pair_ok (e1 e2 : mev) : Prop :=
  untagged e1 = true -> untagged e2 = true -> ev_ok (vis e1) (vis e2).

Lemma mev_ok_pair : forall e1 e2, mev_ok e1 e2 -> pair_ok e1 e2.
Proof.
  intros e1 e2 H U1 U2. unfold untagged in *.
  destruct e1 as [? ? ?|? ?|? ? []], e2 as [? ? ?|? ?|? ? []]; simpl in *; try discriminate; auto.
Qed.

Lemma fop_impl : forall {A} (R R' : A -> A -> Prop) l, (forall x y, R x y -> R' x y) ->
  ForallOrdPairs R l -> ForallOrdPairs R' l.
Proof.
  intros A R R' l Himp H. induction H as [|a l Hf Hp IH]; constructor; auto.
  eapply Forall_impl; [|exact Hf]. intros; auto.
Qed.

Theorem etcd_pairs_ok : forall n sched, etcd_fits n sched = true -> ForallOrdPairs pair_ok (etcd_trace n sched).
Proof. intros n sched H. eapply fop_impl; [apply mev_ok_pair|]. apply etcd_all; auto. Qed.

(* per step, no hypothesis at all: the run up to the first step at which a
   uint64 operation wraps satisfies the per-pair property; its trace is a
   prefix of the whole run's outputs *)
Theorem etcd_prefix_ok : forall n sched,
  ForallOrdPairs pair_ok (etcd_trace n (firstn (etcd_fit_len n sched) sched)) /\
  snd (erun (einit n) (firstn (etcd_fit_len n sched) sched)) = firstn (etcd_fit_len n sched) (snd (erun (einit n) sched)) /\
  (etcd_fits n sched = true -> etcd_fit_len n sched = length sched).
Proof.
  intros n sched. split; [|split].
  - apply etcd_pairs_ok. unfold etcd_fits, etcd_fit_len. apply gall_fit_len.
  - unfold erun. apply grun_firstn.
  - unfold etcd_fits, etcd_fit_len. apply gfit_len_all.
Qed.

(* ================================================================== *)
(* 3. Snowflake sequencer                                              *)
(* ================================================================== *)

Lemma land_shiftl_low : forall a b n, b < 2 ^ n -> N.land (N.shiftl a n) b = 0.
Proof.
  intros a b n Hb. apply N.bits_inj. intros m. rewrite N.land_spec, N.bits_0.
  destruct (N.lt_ge_cases m n) as [Hm|Hm].
  - rewrite N.shiftl_spec_low by auto. reflexivity.
  - rewrite <- (N.mod_small b (2 ^ n)) by auto. rewrite N.mod_pow2_bits_high by auto.
    apply andb_false_r.
Qed.

Lemma lor_shiftl_add : forall a b n, b < 2 ^ n -> N.lor (N.shiftl a n) b = a * 2 ^ n + b.
Proof.
  intros a b n Hb. rewrite <- N.lxor_lor by (apply land_shiftl_low; auto).
  rewrite <- N.add_nocarry_lxor by (apply land_shiftl_low; auto).
  rewrite N.shiftl_mul_pow2. reflexivity.
Qed.

Lemma sf_id_add : forall now nid step, nid < 1024 -> step < 4096 ->
  sf_id now nid step = now * 4194304 + nid * 4096 + step.
Proof.
  intros now nid step Hn Hs. unfold sf_id.
  rewrite (lor_shiftl_add nid step 12) by (change (2 ^ 12) with 4096; lia).
  rewrite (lor_shiftl_add now _ 22) by (change (2 ^ 12) with 4096; change (2 ^ 22) with 4194304; lia).
  change (2 ^ 12) with 4096. change (2 ^ 22) with 4194304. lia.
Qed.

Lemma land_4095 : forall a, N.land a 4095 = a mod 4096.
Proof. intros a. change 4095 with (N.ones 12). rewrite N.land_ones. reflexivity. Qed.

Ltac Zify.zify_post_hook ::= Z.div_mod_to_equations.
Lemma sf_node_field : forall t nid s, nid < 1024 -> s < 4096 ->
  ((t * 4194304 + nid * 4096 + s) / 4096) mod 1024 = nid.
Proof. intros. lia. Qed.
Ltac Zify.zify_post_hook ::= idtac.

Fixpoint nodup_N_spec (l : list N) : nodup_N l = true -> NoDup l.
Proof.
  destruct l as [|x l]; simpl; intros H; [constructor|].
  apply andb_true_iff in H. destruct H as [H1 H2]. constructor.
  - intro Hin. apply negb_true_iff in H1.
    assert (existsb (N.eqb x) l = true) by (apply existsb_exists; exists x; split; auto; apply N.eqb_refl).
    congruence.
  - apply nodup_N_spec; auto.
Qed.

Definition sf_key (nids : list N) (sts : list sfnode) (j : nat) : N :=
  sf_time (nth j sts sfnode0) * 4194304 + nth j nids 0 * 4096 + sf_step (nth j sts sfnode0).

Record SFinv (nids : list N) (sts : list sfnode) (past : list ev) : Prop := {
  sfi_len : length sts = length nids;
  sfi_step : forall j, sf_step (nth j sts sfnode0) < 4096;
  sfi_past : forall e, In e past ->
     match e with
     | Ret j id c => (j < length nids)%nat /\ c <= 1 /\ (id / 4096) mod 1024 = nth j nids 0 /\ id <= sf_key nids sts j
     | Max _ _ => False
     end }.

Definition sf_guard1 (sts : list sfnode) (c : sfcall) : bool := sf_guard sts c && (sc_count c <=? 1).

Lemma sf_step_ok : forall nids, sf_nodes_ok nids = true ->
  forall sts past c, SFinv nids sts past -> sf_guard1 sts c = true ->
  match snd (sf_step1 nids sts c) with
  | Some x => SFinv nids (fst (sf_step1 nids sts c)) (x :: past) /\ (forall old, In old past -> ev_ok old x)
  | None => SFinv nids (fst (sf_step1 nids sts c)) past
  end.
Proof.
  intros nids Hnodes sts past c HI Hg.
  unfold sf_nodes_ok in Hnodes. apply andb_true_iff in Hnodes. destruct Hnodes as [Hlt Hnd].
  apply nodup_N_spec in Hnd. rewrite forallb_forall in Hlt.
  assert (Hnid : forall j, nth j nids 0 < 1024).
  { intros j. destruct (Nat.ltb j (length nids)) eqn:E.
    - apply Nat.ltb_lt in E. specialize (Hlt (nth j nids 0) (nth_In _ _ E)). lia.
    - apply Nat.ltb_ge in E. rewrite nth_overflow by auto. lia. }
  unfold sf_step1. destruct (Nat.ltb (sc_node c) (length sts)) eqn:Ei; [|simpl; exact HI].
  apply Nat.ltb_lt in Ei. set (i := sc_node c) in *.
  unfold sf_guard1, sf_guard in Hg. fold i in Hg.
  set (n := nth i sts sfnode0) in *. set (nid := nth i nids 0).
  pose proof (sfi_step _ _ _ HI i) as Hstep. fold n in Hstep.
  pose proof (Hnid i) as Hnidi. fold nid in Hnidi.
  destruct (sf_generate nid n (sc_now c) (sc_spin c)) as [n' id] eqn:Eg. simpl.
  (* what Generate does *)
  assert (Hgen : sf_step n' < 4096 /\ id = sf_time n' * 4194304 + nid * 4096 + sf_step n' /\
                 sf_time n * 4194304 + nid * 4096 + sf_step n < id).
  { unfold sf_generate in Eg. rewrite land_4095 in Eg.
    destruct (sc_now c =? sf_time n) eqn:En.
    - destruct ((sf_step n + 1) mod 4096 =? 0) eqn:Ez; inversion Eg; subst; simpl.
      + rewrite sf_id_add by lia. repeat split; try lia.
      + assert (Hs : (sf_step n + 1) mod 4096 = sf_step n + 1).
        { apply N.mod_small. assert (sf_step n + 1 <> 4096); [|lia].
          intro Hx. rewrite Hx in Ez. vm_compute in Ez. discriminate. }
        rewrite Hs. rewrite sf_id_add by lia. repeat split; lia.
    - inversion Eg; subst; simpl. rewrite sf_id_add by lia. repeat split; lia. }
  destruct Hgen as [Hs' [Hid Hgt]].
  assert (Hlen' : length (setnth sts i n') = length nids) by (rewrite length_setnth; apply (sfi_len _ _ _ HI)).
  assert (Hkey_i : sf_key nids (setnth sts i n') i = id).
  { unfold sf_key. rewrite nth_setnth_eq by auto. fold nid. lia. }
  assert (Hkey_j : forall j, j <> i -> sf_key nids (setnth sts i n') j = sf_key nids sts j).
  { intros j Hj. unfold sf_key. rewrite nth_setnth_neq by auto. reflexivity. }
  assert (Hkey_old : sf_key nids sts i < id) by (unfold sf_key; fold n nid; lia).
  assert (Hfield : (id / 4096) mod 1024 = nid).
  { rewrite Hid. apply sf_node_field; auto. }
  split.
  - constructor; auto.
    + intros j. destruct (Nat.eq_dec j i) as [->|Hj].
      * rewrite nth_setnth_eq by auto. auto.
      * rewrite nth_setnth_neq by auto. apply (sfi_step _ _ _ HI).
    + intros e [He|He].
      * subst e. rewrite Hkey_i. repeat split; auto; try lia.
        rewrite <- (sfi_len _ _ _ HI). auto.
      * pose proof (sfi_past _ _ _ HI e He) as Hp. destruct e as [j id0 c0|]; auto.
        destruct Hp as [P1 [P2 [P3 P4]]]. repeat split; auto.
        destruct (Nat.eq_dec j i) as [->|Hj]; [rewrite Hkey_i; lia|rewrite Hkey_j by auto; auto].
  - intros old Ho. pose proof (sfi_past _ _ _ HI old Ho) as Hp. destruct old as [j id0 c0|]; [|destruct Hp].
    destruct Hp as [P1 [P2 [P3 P4]]]. simpl. unfold in_range. intros x.
    assert (Hne : id0 <> id).
    { destruct (Nat.eq_dec j i) as [->|Hj]; [lia|].
      intro Heq. subst id0. rewrite Hfield in P3. unfold nid in P3.
      rewrite (NoDup_nth nids 0) in Hnd. apply Hj. symmetry. apply (Hnd i j); auto.
      rewrite <- (sfi_len _ _ _ HI). auto. }
    lia.
Qed.

Lemma sf_init_inv : forall nids, SFinv nids (sf_init nids) [].
Proof.
  intros nids. unfold sf_init. constructor.
  - apply repeat_length.
  - intros j. destruct (Nat.ltb j (length nids)) eqn:E.
    + rewrite nth_repeat. simpl. lia.
    + apply Nat.ltb_ge in E. rewrite nth_overflow by (rewrite repeat_length; auto). simpl. lia.
  - intros e [].
Qed.

Lemma sf_count_gall : forall nids calls sts, sf_count_trigger calls = false ->
  gall (sf_step1 nids) (fun _ c => sc_count c <=? 1) sts calls = true.
Proof.
  unfold sf_count_trigger. induction calls as [|c calls IH]; intros sts H; simpl in *; auto.
  apply orb_false_iff in H. destruct H as [H1 H2]. rewrite IH by auto.
  rewrite andb_true_r. lia.
Qed.

Theorem sf_partial_ok : forall nids calls,
  sf_nodes_ok nids = true ->
  sf_clock_ok nids (sf_init nids) calls = true ->
  sf_count_trigger calls = false ->
  ForallOrdPairs ev_ok (somes (snd (sf_run nids (sf_init nids) calls))).
Proof.
  intros nids calls Hn Hc Ht. unfold sf_run.
  assert (Hg : gall (sf_step1 nids) sf_guard1 (sf_init nids) calls = true).
  { unfold sf_guard1. rewrite gall_and. unfold sf_clock_ok in Hc. rewrite Hc. simpl.
    apply sf_count_gall; auto. }
  destruct (grun_ok _ _ _ (sf_step1 nids) sf_guard1 ev_ok (SFinv nids) (sf_step_ok nids Hn) calls _ [] (sf_init_inv nids) Hg) as [H _].
  exact H.
Qed.

(* ids of one run are pairwise different even when counts are ignored: the
   ids themselves (count projected to 1) never repeat *)

(* ================================================================== *)
(* 4. Volume ids                                                       *)
(* ================================================================== *)

Definition vol_ok (e1 e2 : ev) : Prop :=
  match e1, e2 with
  | Ret _ v1 _, Ret _ v2 _ => v1 < v2
  | _, _ => True
  end.

Record Vinv (s : vst) (past : list ev) : Prop := {
  vi_ret : forall e, In e past -> match e with Ret _ v _ => v <= vmax s | Max _ _ => False end;
  vi_len : (length (vpend s) <= 1)%nat;
  vi_pend : forall a next, In (a, next) (vpend s) ->
            forall e, In e past -> match e with Ret _ v _ => v < next | Max _ _ => False end }.

Lemma vfind_in : forall l a x, vfind l a = Some x -> In (a, x) l.
Proof.
  induction l as [|[b y] l IH]; intros a x H; simpl in *; [discriminate|].
  destruct (Nat.eqb a b) eqn:E.
  - apply Nat.eqb_eq in E. inversion H; subst. auto.
  - right. auto.
Qed.

Lemma vdrop_single : forall l a x, (length l <= 1)%nat -> vfind l a = Some x -> vdrop l a = [].
Proof.
  intros [|[b y] [|z l]] a x Hl H; simpl in *; try discriminate; try lia.
  destruct (Nat.eqb a b); simpl; [reflexivity|discriminate].
Qed.

Definition vguard (s : vst) (o : vstep) : bool := vlock_guard s o && vfit_guard s o.

Lemma vstep_ok : forall s past o, Vinv s past -> vguard s o = true ->
  match snd (vstep1 s o) with
  | Some x => Vinv (fst (vstep1 s o)) (x :: past) /\ (forall old, In old past -> vol_ok old x)
  | None => Vinv (fst (vstep1 s o)) past
  end.
Proof.
  intros s past o HI Hg. unfold vguard in Hg. apply andb_true_iff in Hg. destruct Hg as [Hg1 Hg2].
  destruct o as [a|a ok|v]; simpl in *.
  - destruct (vfind (vpend s) a) eqn:Ef; simpl; [exact HI|].
    destruct (vpend s) eqn:Ep; [|discriminate].
    assert (Hm : (vmax s + 1) mod two32 = vmax s + 1) by (apply N.mod_small; lia).
    constructor; simpl.
    + apply (vi_ret _ _ HI).
    + lia.
    + intros a0 next [Hin|[]] e He. inversion Hin; subst. rewrite Hm.
      pose proof (vi_ret _ _ HI e He) as Hr. destruct e; auto. lia.
  - destruct (vfind (vpend s) a) as [next|] eqn:Ef; simpl; [|exact HI].
    pose proof (vdrop_single _ _ _ (vi_len _ _ HI) Ef) as Hd.
    pose proof (vfind_in _ _ _ Ef) as Hin.
    destruct ok; simpl.
    + split.
      * constructor; simpl.
        -- intros e [He|He]; [subst; lia|]. pose proof (vi_ret _ _ HI e He) as Hr. destruct e; auto. lia.
        -- rewrite Hd. simpl. lia.
        -- rewrite Hd. intros ? ? [].
      * intros old Ho. pose proof (vi_pend _ _ HI _ _ Hin old Ho) as Hp. destruct old; simpl; auto.
    + constructor; simpl.
      * apply (vi_ret _ _ HI).
      * rewrite Hd. simpl. lia.
      * rewrite Hd. intros ? ? [].
  - constructor; simpl.
    + intros e He. pose proof (vi_ret _ _ HI e He) as Hr. destruct e; auto. lia.
    + apply (vi_len _ _ HI).
    + apply (vi_pend _ _ HI).
Qed.

Lemma vinit_inv : Vinv vinit [].
Proof. constructor; simpl; [intros ? []|lia|intros ? ? []]. Qed.

Theorem vol_trace_ok : forall sched, vlocked vinit sched = true -> vfits vinit sched = true ->
  ForallOrdPairs vol_ok (somes (snd (vrun vinit sched))).
Proof.
  intros sched Hl Hf. unfold vrun.
  assert (Hg : gall vstep1 vguard vinit sched = true).
  { unfold vguard. rewrite gall_and. unfold vlocked, vfits in *. rewrite Hl, Hf. reflexivity. }
  destruct (grun_ok _ _ _ vstep1 vguard vol_ok Vinv vstep_ok sched vinit [] vinit_inv Hg) as [H _].
  exact H.
Qed.

Lemma rets_sorted : forall l, ForallOrdPairs vol_ok (somes l) -> StronglySorted N.lt (rets l).
Proof.
  induction l as [|[[m v c|m k]|] l IH]; simpl; intros H.
  - constructor.
  - inversion H as [|? ? Hf Hp]; subst. constructor; [apply IH; auto|].
    clear - Hf. induction l as [|[[m' v' c'|m' k']|] l IHl]; simpl in *.
    + constructor.
    + inversion Hf; subst. constructor; auto.
    + inversion Hf; subst. auto.
    + auto.
  - inversion H; subst. auto.
  - auto.
Qed.

Theorem vol_sorted : forall sched, vlocked vinit sched = true -> vfits vinit sched = true ->
  StronglySorted N.lt (rets (snd (vrun vinit sched))).
Proof. intros. apply rets_sorted. apply vol_trace_ok; auto. Qed.

Lemma sorted_nodup : forall l, StronglySorted N.lt l -> NoDup l.
Proof.
  induction 1 as [|a l Hs IH Hf]; constructor; auto.
  intro Hin. rewrite Forall_forall in Hf. specialize (Hf a Hin). lia.
Qed.

Theorem vol_unique : forall sched, vlocked vinit sched = true -> vfits vinit sched = true ->
  NoDup (rets (snd (vrun vinit sched))).
Proof. intros. apply sorted_nodup. apply vol_sorted; auto. Qed.

(* freshness: the id computed at READ exceeds every id the master knows *)
Lemma grun_app : forall {S I E} (step : S -> I -> S * option E) l1 l2 s,
  grun step s (l1 ++ l2) =
  (fst (grun step (fst (grun step s l1)) l2), snd (grun step s l1) ++ snd (grun step (fst (grun step s l1)) l2)).
Proof.
  induction l1 as [|i l1 IH]; intros l2 s; simpl.
  - destruct (grun step s l2); reflexivity.
  - destruct (step s i) as [s' e]. rewrite IH.
    destruct (grun step s' l1) as [s1 o1]. simpl.
    destruct (grun step s1 l2) as [s2 o2]. reflexivity.
Qed.

Lemma vknown_le : forall sched s,
  vmax s <= vmax (fst (vrun s sched)) /\
  forall v, In v (vknown sched (snd (vrun s sched))) -> v <= vmax (fst (vrun s sched)).
Proof.
  unfold vrun. induction sched as [|o sched IH]; intros s; simpl.
  - split; [lia|intros v []].
  - destruct (vstep1 s o) as [s' e] eqn:Es.
    destruct (IH s') as [H1 H2]. destruct (grun vstep1 s' sched) as [sf outs] eqn:Er. simpl in *.
    assert (Hs : vmax s <= vmax s' /\ match e with Some (Ret _ v _) => v <= vmax s' | _ => True end /\
                 match o with VHb v => v <= vmax s' | _ => True end).
    { destruct o as [a|a ok|v]; simpl in Es.
      - destruct (vfind (vpend s) a); inversion Es; subst; simpl; repeat split; lia.
      - destruct (vfind (vpend s) a); [destruct ok|]; inversion Es; subst; simpl; repeat split; lia.
      - inversion Es; subst; simpl. repeat split; lia. }
    destruct Hs as [S1 [S2 S3]]. split; [lia|].
    intros v Hv.
    destruct o as [a|a ok|v0].
    + destruct e as [[? v1 ?|]|]; simpl in Hv; try (apply H2; exact Hv).
      destruct Hv as [Hv|Hv]; [subst; lia|apply H2; auto].
    + destruct e as [[? v1 ?|]|]; simpl in Hv; try (apply H2; exact Hv).
      destruct Hv as [Hv|Hv]; [subst; lia|apply H2; auto].
    + simpl in Hv. destruct Hv as [Hv|Hv]; [subst; lia|apply H2; auto].
Qed.

Lemma vrun_hbs : forall hbs s,
  vpend (fst (vrun s (map VHb hbs))) = vpend s /\ vmax s <= vmax (fst (vrun s (map VHb hbs))) /\
  snd (vrun s (map VHb hbs)) = map (fun _ => None) hbs.
Proof.
  unfold vrun. induction hbs as [|h hbs IH]; intros s; simpl.
  - repeat split; lia.
  - destruct (IH {| vmax := N.max (vmax s) h; vpend := vpend s |}) as [H1 [H2 H3]].
    destruct (grun vstep1 {| vmax := N.max (vmax s) h; vpend := vpend s |} (map VHb hbs)) as [sf outs].
    simpl in *. repeat split; auto. lia. f_equal. auto.
Qed.

Theorem vol_fresh : forall pre a hbs,
  let s := fst (vrun vinit pre) in
  vfind (vpend s) a = None -> vmax s + 1 < two32 ->
  exists next,
    snd (vrun s (VRead a :: map VHb hbs ++ [VApply a true])) =
      None :: map (fun _ => None) hbs ++ [Some (Ret a next 1)] /\
    forall v, In v (vknown pre (snd (vrun vinit pre))) -> v < next.
Proof.
  intros pre a hbs s Hf Hfit. exists (vmax s + 1). split.
  - unfold vrun. simpl. rewrite Hf.
    set (s1 := {| vmax := vmax s; vpend := (a, (vmax s + 1) mod two32) :: vpend s |}).
    rewrite grun_app. destruct (vrun_hbs hbs s1) as [H1 [H2 H3]]. unfold vrun in *.
    destruct (grun vstep1 s1 (map VHb hbs)) as [s2 o2]. simpl in *. rewrite H3.
    rewrite H1. simpl. rewrite Nat.eqb_refl. simpl.
    rewrite (N.mod_small (vmax s + 1) two32) by lia. reflexivity.
  - intros v Hv. destruct (vknown_le pre vinit) as [_ H]. specialize (H v Hv). fold s in H. lia.
Qed.

(* ================================================================== *)
(* 5. Counterexamples (the full statements that do NOT hold) and        *)
(*    concrete runs inside the hypotheses of the theorems              *)
(* ================================================================== *)

Lemma not_fop_of_okb : forall tr, trace_okb tr = false -> ~ ForallOrdPairs ev_ok tr.
Proof. intros tr H Hf. apply trace_okb_spec in Hf. congruence. Qed.

(* one master boots against an empty etcd: Get (not found), Create, Get *)
Definition boot (i : nat) : list (nat * act) := [(i, ABoot); (i, ATick Ok); (i, ATick Ok); (i, ATick Ok)].

(* finding 0a: SetMax(k) with k > maxSeqId writes k itself to etcd and the next id is k *)
Definition wit_setmax : list (nat * act) :=
  boot 0 ++ [(0%nat, ASetMax 1000); (0%nat, ATick Ok); (0%nat, ATick Ok); (0%nat, ATick Ok);
             (0%nat, ANext 1); (0%nat, ATick Ok); (0%nat, ATick Ok)].

Lemma etcd_setmax_refuted :
  exists n sched, etcd_err_trigger (etcd_trace n sched) = false /\
                  ~ ForallOrdPairs ev_ok (map vis (etcd_trace n sched)).
Proof.
  exists 1%nat, wit_setmax. split; [vm_compute; reflexivity|].
  apply not_fop_of_okb. vm_compute. reflexivity.
Qed.

(* finding 0b: SetMax(k) with currentSeqId <= k <= maxSeqId is ignored *)
Definition wit_setmax_ignored : list (nat * act) :=
  boot 0 ++ [(0%nat, ANext 1); (0%nat, ATick Ok); (0%nat, ATick Ok); (0%nat, ASetMax 300); (0%nat, ANext 1)].

Lemma etcd_setmax_ignored_refuted :
  etcd_err_trigger (etcd_trace 1 wit_setmax_ignored) = false /\
  map vis (etcd_trace 1 wit_setmax_ignored) = [Ret 0 1 1; Max 0 300; Ret 0 2 1] /\
  ~ ForallOrdPairs ev_ok (map vis (etcd_trace 1 wit_setmax_ignored)).
Proof.
  split; [vm_compute; reflexivity|]. split; [vm_compute; reflexivity|].
  apply not_fop_of_okb. vm_compute. reflexivity.
Qed.

(* finding 2: an etcd error makes NextFileId return 0, twice *)
Definition wit_err : list (nat * act) :=
  boot 0 ++ [(0%nat, ANext 2); (0%nat, ATick Err); (0%nat, ANext 2); (0%nat, ATick Err)].

Lemma etcd_err_refuted :
  exists n sched, etcd_setmax_trigger (etcd_trace n sched) = false /\
                  ~ ForallOrdPairs ev_ok (map vis (etcd_trace n sched)).
Proof.
  exists 1%nat, wit_err. split; [vm_compute; reflexivity|].
  apply not_fop_of_okb. vm_compute. reflexivity.
Qed.

(* finding 1: snowflake ignores count: two NextFileId(3) in the same millisecond *)
Definition wit_snow : list sfcall :=
  [ {| sc_node := 0; sc_count := 3; sc_now := 1000; sc_spin := 1001 |};
    {| sc_node := 0; sc_count := 3; sc_now := 1000; sc_spin := 1001 |} ].

Lemma sf_count_refuted :
  exists nids calls, sf_nodes_ok nids = true /\ sf_clock_ok nids (sf_init nids) calls = true /\
                     ~ ForallOrdPairs ev_ok (somes (snd (sf_run nids (sf_init nids) calls))).
Proof.
  exists [5], wit_snow. split; [vm_compute; reflexivity|]. split; [vm_compute; reflexivity|].
  apply not_fop_of_okb. vm_compute. reflexivity.
Qed.

(* the hypotheses that are not findings but necessary: key space exhaustion, the growth lock *)
Lemma mem_nofit_refuted :
  exists ops, ~ ForallOrdPairs ev_ok (somes (snd (mem_run mem_init ops))).
Proof.
  exists [MNext 18446744073709551615; MNext 1; MNext 2].
  apply not_fop_of_okb. vm_compute. reflexivity.
Qed.

Lemma vol_unlocked_refuted :
  exists sched, vfits vinit sched = true /\ ~ NoDup (rets (snd (vrun vinit sched))).
Proof.
  exists [VRead 0; VRead 1; VApply 0 true; VApply 1 true]. split; [vm_compute; reflexivity|].
  vm_compute. intro H. inversion H as [|? ? Hn _]; subst. apply Hn. left. reflexivity.
Qed.

(* a heartbeat that arrives between READ and the raft apply is not taken into account *)
Lemma vol_hb_between :
  vlocked vinit [VRead 0; VHb 7; VApply 0 true] = true /\
  snd (vrun vinit [VRead 0; VHb 7; VApply 0 true]) = [None; None; Some (Ret 0 1 1)].
Proof. split; vm_compute; reflexivity. Qed.

(* ---- runs inside the hypotheses ---- *)
Example mem_example :
  let ops := [MNext 3; MSetMax 10; MNext 2; MSetMax 5; MNext 1] in
  mem_fits mem_init ops = true /\
  somes (snd (mem_run mem_init ops)) = [Ret 0 1 3; Max 0 10; Ret 0 11 2; Max 0 5; Ret 0 13 1].
Proof. split; vm_compute; reflexivity. Qed.

(* two masters: both boot, both fetch with an interleaved compare-and-swap
   conflict, a harmless SetMax on master 1, a master restart *)
Definition ex_etcd : list (nat * act) :=
  boot 0 ++ [(1%nat, ABoot); (1%nat, ATick Ok);
             (0%nat, ANext 2); (1%nat, ANext 3);
             (0%nat, ATick Ok); (1%nat, ATick Ok);      (* both Get 1 *)
             (1%nat, ATick Ok);                         (* master 1 wins: 1 -> 501 *)
             (0%nat, ATick Ok);                         (* master 0 loses, retries *)
             (0%nat, ATick Ok); (0%nat, ATick Ok);      (* Get 501, Set 1001 *)
             (1%nat, ASetMax 2); (1%nat, ANext 1);
             (0%nat, ABoot); (0%nat, ATick Ok); (0%nat, ANext 5); (0%nat, ATick Ok); (0%nat, ATick ErrAfter);
             (0%nat, ATick Ok); (0%nat, ATick Ok)].

Example etcd_example :
  etcd_err_trigger (etcd_trace 2 ex_etcd) = false /\
  etcd_setmax_trigger (etcd_trace 2 ex_etcd) = false /\
  map vis (etcd_trace 2 ex_etcd) = [Ret 1 1 3; Ret 0 501 2; Max 1 2; Ret 1 4 1; Ret 0 1501 5].
Proof. split; [|split]; vm_compute; reflexivity. Qed.

Example sf_example :
  let calls := [ {| sc_node := 0; sc_count := 1; sc_now := 1000; sc_spin := 1001 |};
                 {| sc_node := 1; sc_count := 1; sc_now := 1000; sc_spin := 1001 |};
                 {| sc_node := 0; sc_count := 1; sc_now := 1000; sc_spin := 1001 |};
                 {| sc_node := 0; sc_count := 0; sc_now := 1002; sc_spin := 1003 |} ] in
  sf_nodes_ok [5; 6] = true /\ sf_clock_ok [5; 6] (sf_init [5; 6]) calls = true /\
  sf_count_trigger calls = false /\
  somes (snd (sf_run [5; 6] (sf_init [5; 6]) calls)) =
    [Ret 0 4194324480 1; Ret 1 4194328576 1; Ret 0 4194324481 1; Ret 0 4202713088 0].
Proof. repeat split; vm_compute; reflexivity. Qed.

(* the 12-bit roll-over: step 4095 -> 0 waits for the next millisecond *)
Example sf_rollover :
  sf_generate 5 {| sf_time := 1000; sf_step := 4095 |} 1000 1001 =
  ({| sf_time := 1001; sf_step := 0 |}, sf_id 1001 5 0).
Proof. vm_compute. reflexivity. Qed.

Example vol_example :
  let sched := [VHb 3; VRead 0; VHb 2; VApply 0 true; VRead 1; VApply 1 false; VRead 1; VApply 1 true] in
  vlocked vinit sched = true /\ vfits vinit sched = true /\ rets (snd (vrun vinit sched)) = [4; 5].
Proof. repeat split; vm_compute; reflexivity. Qed.

(* ================================================================== *)
(* 6. Per-step / per-pair forms and the refutations of the audit        *)
(* ================================================================== *)

(* memory: the run up to the first wrapping addition satisfies the property *)
Theorem mem_prefix_ok : forall ops,
  ForallOrdPairs ev_ok (somes (snd (mem_run mem_init (firstn (mem_fit_len mem_init ops) ops)))) /\
  snd (mem_run mem_init (firstn (mem_fit_len mem_init ops) ops)) = firstn (mem_fit_len mem_init ops) (snd (mem_run mem_init ops)) /\
  (mem_fits mem_init ops = true -> mem_fit_len mem_init ops = length ops).
Proof.
  intros ops. split; [|split].
  - apply mem_ok. unfold mem_fits, mem_fit_len. apply gall_fit_len.
  - unfold mem_run. apply grun_firstn.
  - unfold mem_fits, mem_fit_len. apply gfit_len_all.
Qed.

(* leader change, per pair: a range of the old leader that lies at or below the
   key k reported by the first heartbeat is never met again by the new leader *)
Theorem mem_failover_pair : forall ops1 ops2 k,
  mem_fits mem_init ops1 = true ->
  mem_fits mem_init (MSetMax k :: ops2) = true ->
  forall e1 e2, In e1 (somes (snd (mem_run mem_init ops1))) ->
                In e2 (somes (snd (mem_run mem_init (MSetMax k :: ops2)))) ->
                fo_unwritten k e1 = false -> ranges_ok e1 e2.
Proof.
  intros ops1 ops2 k Hf1 Hf2 e1 e2 H1 H2 Hw.
  destruct e1 as [m1 s1 c1|]; [|exact I]. destruct e2 as [m2 s2 c2|]; [|exact I].
  assert (Hmax : ForallOrdPairs ev_ok (somes (snd (mem_run mem_init (MSetMax k :: ops2)))))
    by (apply mem_ok; auto).
  pose proof (mem_actor0 _ _ _ H2) as Ha. simpl in Ha. subst m2.
  unfold mem_run in *. simpl in Hmax, H2.
  destruct (grun mem_step (if mem_init <=? k then w64 (k + 1) else mem_init) ops2) as [cf tr] eqn:Er.
  simpl in Hmax, H2. destruct H2 as [H2|H2]; [discriminate|].
  inversion Hmax as [|? ? Hfa _]; subst. rewrite Forall_forall in Hfa.
  specialize (Hfa _ H2). simpl in Hfa.
  unfold fo_unwritten, ev_hi in Hw.
  intros x [Hx1 Hx2]. specialize (Hfa eq_refl x Hx2). unfold in_range in *.
  destruct (c1 =? 0) eqn:Ec; lia.
Qed.

(* finding 4: the heartbeat reports the largest key WRITTEN (here 2, a key the
   old leader handed out), not the largest key handed out (5) *)
Lemma mem_failover_written_refuted :
  exists ops1 ops2 k m s c,
    mem_fits mem_init ops1 = true /\ mem_fits mem_init (MSetMax k :: ops2) = true /\
    In (Ret m s c) (somes (snd (mem_run mem_init ops1))) /\ in_range k s c /\
    exists e1 e2, In e1 (somes (snd (mem_run mem_init ops1))) /\
                  In e2 (somes (snd (mem_run mem_init (MSetMax k :: ops2)))) /\ ~ ranges_ok e1 e2.
Proof.
  exists [MNext 5], [MNext 1], 2, 0%nat, 1, 5.
  split; [vm_compute; reflexivity|]. split; [vm_compute; reflexivity|].
  split; [vm_compute; auto|]. split; [unfold in_range; lia|].
  exists (Ret 0 1 5), (Ret 0 3 1). split; [vm_compute; auto|]. split; [vm_compute; auto|].
  intro H. apply (H 3). unfold in_range. lia.
Qed.

(* finding 3 (etcd): NextFileId(2^64-1) wraps currentSeqId + count: no batch is
   fetched, currentSeqId moves backwards and key 1 is handed out twice *)
Definition wit_wrap : list (nat * act) :=
  boot 0 ++ [(0%nat, ANext 1); (0%nat, ATick Ok); (0%nat, ATick Ok);
             (0%nat, ANext 18446744073709551615); (0%nat, ANext 1)].

Lemma etcd_wrap_refuted :
  etcd_err_trigger (etcd_trace 1 wit_wrap) = false /\
  etcd_setmax_trigger (etcd_trace 1 wit_wrap) = false /\
  map vis (etcd_trace 1 wit_wrap) = [Ret 0 1 1; Ret 0 2 18446744073709551615; Ret 0 1 1] /\
  etcd_fit_len 1 wit_wrap = 7%nat /\
  ~ ForallOrdPairs ev_ok (map vis (etcd_trace 1 wit_wrap)).
Proof.
  split; [vm_compute; reflexivity|]. split; [vm_compute; reflexivity|].
  split; [vm_compute; reflexivity|]. split; [vm_compute; reflexivity|].
  apply not_fop_of_okb. vm_compute. reflexivity.
Qed.

(* finding 3, second form: count = 2^64-500 makes reqSteps 0; NextFileId returns
   key 0 without any etcd call *)
Lemma etcd_wrap_zero_steps :
  map vis (etcd_trace 1 (boot 0 ++ [(0%nat, ANext 18446744073709551116)])) = [Ret 0 0 18446744073709551116].
Proof. vm_compute. reflexivity. Qed.

(* the three older witnesses are runs without any wrap *)
Lemma etcd_wits_fit :
  etcd_fits 1 wit_setmax = true /\ etcd_fits 1 wit_setmax_ignored = true /\ etcd_fits 1 wit_err = true /\
  etcd_fits 2 ex_etcd = true.
Proof. repeat split; vm_compute; reflexivity. Qed.

Lemma etcd_setmax_refuted_fit :
  exists n sched, etcd_fits n sched = true /\ etcd_err_trigger (etcd_trace n sched) = false /\
                  ~ ForallOrdPairs ev_ok (map vis (etcd_trace n sched)).
Proof.
  exists 1%nat, wit_setmax. split; [vm_compute; reflexivity|]. split; [vm_compute; reflexivity|].
  apply not_fop_of_okb. vm_compute. reflexivity.
Qed.

Lemma etcd_err_refuted_fit :
  exists n sched, etcd_fits n sched = true /\ etcd_setmax_trigger (etcd_trace n sched) = false /\
                  ~ ForallOrdPairs ev_ok (map vis (etcd_trace n sched)).
Proof.
  exists 1%nat, wit_err. split; [vm_compute; reflexivity|]. split; [vm_compute; reflexivity|].
  apply not_fop_of_okb. vm_compute. reflexivity.
Qed.

(* finding 5: two snowflake nodes with the same 10-bit node id generate the same
   id in the same millisecond (all other hypotheses of sf_partial_ok hold) *)
Definition wit_snow_collision : list sfcall :=
  [ {| sc_node := 0; sc_count := 1; sc_now := 1000; sc_spin := 1001 |};
    {| sc_node := 1; sc_count := 1; sc_now := 1000; sc_spin := 1001 |} ].

Lemma sf_collision_refuted :
  exists nids calls, forallb (fun x => x <? 1024) nids = true /\
                     sf_clock_ok nids (sf_init nids) calls = true /\ sf_count_trigger calls = false /\
                     ~ ForallOrdPairs ev_ok (somes (snd (sf_run nids (sf_init nids) calls))).
Proof.
  exists [5; 5], wit_snow_collision. split; [vm_compute; reflexivity|]. split; [vm_compute; reflexivity|].
  split; [vm_compute; reflexivity|]. apply not_fop_of_okb. vm_compute. reflexivity.
Qed.
