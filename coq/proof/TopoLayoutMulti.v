(* More proofs for C11: the per-vid form of the size clause, the oversized-set
   guard of RegisterVolume, and the witnesses of the findings of the
   multi-layout / object-identity model (model/TopoMulti.v). *)
From Coq Require Import List NArith Bool Lia Permutation.
From SW Require Import model.TopoLayout model.TopoMulti proof.TopoLayoutProofs.
Import ListNotations.
Local Open Scope N_scope.

(* ---------- per-vid size clause ---------- *)
Definition small_v (c : cfg) (ns : nodes) (v : N) : Prop :=
  forall n i, ginfo ns n v = Some i -> vi_size i < c_limit c.

Section PerVid.
  Variable c : cfg.
  Hypothesis Hc : 1 <= c_copy c.

  Lemma small_step_v : forall s e v, 0 < c_limit c -> Inv c s -> wf_event e = true ->
    reports_full_v c v e = false -> small_v c (s_nodes s) v -> small_v c (s_nodes (step c s e)) v.
  Proof.
    intros s e v Hl HI Hwf Hr Hs. destruct HI as [_ Hns _ _].
    destruct e as [n actual|n news dels| |n]; simpl in *.
    - unfold sync_full, update_volumes.
      set (vs0 := node_vols (s_nodes s) n). set (dels := deleted_of vs0 actual).
      pose proof (node_vols_ok _ n Hns) as Hvs0. fold vs0 in Hvs0.
      apply nodupb_spec in Hwf.
      destruct (deleted_of_spec vs0 actual Hvs0) as [_ Dspec]. fold dels in Dspec.
      assert (Hdisj : forall a, In a actual -> ~ In (vi_id a) (map vi_id dels)).
      { intros a Ha H. apply Dspec in H. destruct H as [_ H]. apply H. now apply in_map. }
      destruct (after_update vs0 dels actual Hvs0 Hwf Hdisj) as (_ & V1 & V2 & _ & _).
      set (u := fold_left add_or_update actual _) in *. simpl.
      intros m i Hi. destruct (N.eq_dec n m) as [<-|Hne].
      + rewrite ginfo_aset_eq in Hi.
        destruct (in_dec N.eq_dec v (map vi_id actual)) as [Hin|Hni].
        * apply in_map_iff in Hin. destruct Hin as (a & E & Ha).
          rewrite <- E, (V1 a Ha) in Hi. inversion Hi; subst i.
          destruct (c_limit c <=? vi_size a) eqn:El; [|now apply N.leb_gt].
          exfalso.
          assert (existsb (fun vi => (vi_id vi =? v) && (c_limit c <=? vi_size vi)) actual = true).
          { apply existsb_exists; exists a; split; [assumption|]. rewrite El, E, N.eqb_refl. reflexivity. }
          congruence.
        * rewrite (V2 v Hni) in Hi. destruct (existsb _ dels); [discriminate|].
          apply (Hs n i). now rewrite ginfo_node_vols.
      + rewrite ginfo_aset_neq in Hi by assumption. eauto.
    - unfold sync_incr, delta_update_volumes.
      set (vs0 := node_vols (s_nodes s) n).
      set (nv := map short_info news). set (dv := map short_info dels).
      pose proof (node_vols_ok _ n Hns) as Hvs0. fold vs0 in Hvs0.
      apply andb_true_iff in Hwf. destruct Hwf as [Hwf H3]. apply andb_true_iff in Hwf. destruct Hwf as [H1 H2].
      apply nodupb_spec in H1. apply nodupb_spec in H2.
      assert (Hnn' : NoDup (map vi_id nv)) by (fold (ids nv); subst nv; now rewrite ids_short).
      assert (Hdisj : forall a, In a nv -> ~ In (vi_id a) (map vi_id dv)).
      { intros a Ha. fold (ids dv). subst dv. rewrite ids_short.
        subst nv. apply in_map_iff in Ha. destruct Ha as (x & <- & Hx). simpl.
        rewrite forallb_forall in H3. specialize (H3 x Hx). apply negb_true_iff in H3. now apply mem_false. }
      destruct (after_update vs0 dv nv Hvs0 Hnn' Hdisj) as (_ & V1 & V2 & _ & _).
      set (u := fold_left add_or_update nv _) in *. simpl.
      intros m i Hi. destruct (N.eq_dec n m) as [<-|Hne].
      + rewrite ginfo_aset_eq in Hi.
        destruct (in_dec N.eq_dec v (map vi_id nv)) as [Hin|Hni].
        * apply in_map_iff in Hin. destruct Hin as (a & E & Ha).
          rewrite <- E, (V1 a Ha) in Hi. inversion Hi; subst i.
          subst nv. apply in_map_iff in Ha. destruct Ha as (x & <- & _). simpl. exact Hl.
        * rewrite (V2 v Hni) in Hi. destruct (existsb _ dv); [discriminate|].
          apply (Hs n i). now rewrite ginfo_node_vols.
      + rewrite ginfo_aset_neq in Hi by assumption. eauto.
    - exact Hs.
    - intros m i Hi. destruct (N.eq_dec n m) as [<-|Hne].
      + rewrite ginfo_adel_eq in Hi. discriminate.
      + rewrite ginfo_adel_neq in Hi by assumption. eauto.
  Qed.

  Lemma small_run_v : forall es s v, 0 < c_limit c -> Inv c s -> forallb wf_event es = true ->
    trigger_size_v c es v = false -> small_v c (s_nodes s) v -> small_v c (s_nodes (run c s es)) v.
  Proof.
    induction es as [|e es IH]; intros s v Hl HI Hwf Ht Hs; simpl in *; [assumption|].
    apply andb_true_iff in Hwf. destruct Hwf as [W1 W2].
    unfold trigger_size_v in Ht. simpl in Ht. apply orb_false_iff in Ht. destruct Ht as [T1 T2].
    apply IH; auto; [now apply step_inv|now apply small_step_v].
  Qed.

  (* the whole criterion for every vid whose OWN full reports stay under the limit *)
  Lemma writable_sound_partial_v : 0 < c_limit c ->
    forall es, wf_history es -> forall v, trigger_size_v c es v = false ->
      let s := run c init es in writable s v = true -> crit c (s_nodes s) v = true.
  Proof.
    intros Hl es Hwf v Ht s Hw. pose proof (reach_inv c Hc es Hwf) as HI. fold s in HI.
    destruct (writable_copies_rw_inv c s v HI Hw) as [A B].
    apply crit_of_parts; auto; [apply HI|].
    intros n i Hi. eapply (small_run_v es init v Hl (init_inv c) Hwf Ht); [|exact Hi].
    intros n' i' H; discriminate.
  Qed.
End PerVid.

(* the global trigger implies nothing about other vids: a history inside the old
   trigger whose vid 2 is still covered by the per-vid theorem *)
Lemma per_vid_trigger_narrower :
  let h := [EFull 1 [vi 1 150 false]; EFull 1 [vi 2 10 false; vi 1 150 false]] in
  trigger_size cfg000 h = true /\ trigger_size_v cfg000 h 2 = false /\ writable (run cfg000 init h) 2 = true.
Proof. vm_compute; repeat split; reflexivity. Qed.

(* ---------- the oversized-set guard of RegisterVolume + EnsureCorrectWritables ---------- *)
Lemma reg_loop_writ : forall ns v locs l x,
  mem x (l_writ (reg_loop ns v locs l)) = true -> mem x (l_writ l) = true.
Proof.
  intros ns v locs; induction locs as [|m rest IH]; intros l x H; simpl in *; [assumption|].
  destruct (ginfo ns m v) as [i|].
  - destruct (vi_ro i).
    + simpl in H. apply mem_In in H. apply mem_In. eapply In_lremove_sub; eauto.
    + apply IH in H. exact H.
  - simpl in H. apply mem_In in H. apply mem_In. eapply In_lremove_sub; eauto.
Qed.

(* registering a replica whose size is at or over the limit never ADDS the vid
   to writables (it can only stay or be removed) *)
Lemma oversized_registration_not_admitted : forall c ns vi n l,
  c_limit c <= vi_size vi ->
  mem (vi_id vi) (l_writ (register_layout c ns vi n l)) = true -> mem (vi_id vi) (l_writ l) = true.
Proof.
  intros c ns vi n l Hsz H. unfold register_layout, ensure in H.
  set (l1 := register_volume c ns vi n l) in *.
  assert (Hos : bs_true (vi_id vi) (l_os l1) = true).
  { subst l1. unfold register_volume, remember_oversized. apply N.leb_le in Hsz. rewrite Hsz. simpl.
    unfold bs_true. rewrite bs_add_eq. reflexivity. }
  assert (Hw1 : forall x, mem x (l_writ l1) = true -> mem x (l_writ l) = true).
  { intros x Hx. subst l1. unfold register_volume, remember_oversized in Hx.
    destruct (c_limit c <=? vi_size vi); simpl in Hx; apply reg_loop_writ in Hx; exact Hx. }
  rewrite Hos in H. simpl in H.
  destruct (enough c (nlen (loc l1 (vi_id vi))) && all_writable ns (vi_id vi) (loc l1 (vi_id vi))).
  - now apply Hw1.
  - apply Hw1. unfold remove_writable in H. simpl in H. apply mem_In in H. apply mem_In. eapply In_lremove_sub; eauto.
Qed.

(* ... and the vid is in the oversized set afterwards *)
Lemma oversized_registration_recorded : forall c ns vi n l,
  c_limit c <= vi_size vi -> bs_true (vi_id vi) (l_os (register_layout c ns vi n l)) = true.
Proof.
  intros c ns vi n l Hsz. unfold register_layout, ensure.
  set (l1 := register_volume c ns vi n l).
  assert (Hos : bs_true (vi_id vi) (l_os l1) = true).
  { subst l1. unfold register_volume, remember_oversized. apply N.leb_le in Hsz. rewrite Hsz. simpl.
    unfold bs_true. rewrite bs_add_eq. reflexivity. }
  rewrite Hos. simpl.
  destruct (enough c (nlen (loc l1 (vi_id vi))) && all_writable ns (vi_id vi) (loc l1 (vi_id vi))); simpl; exact Hos.
Qed.

(* ---------- witnesses of the multi-layout / object findings ---------- *)
Definition mi (v sz : N) (ro : bool) (k : N) : minfo := {| mi_vi := vi v sz ro; mi_key := k |}.
Definition mc1 : mcfg := {| mc_copies := [1]; mc_asmin := false; mc_limit := 100 |}.
Definition mc12 : mcfg := {| mc_copies := [1; 2]; mc_asmin := false; mc_limit := 100 |}.
Definition mc33 : mcfg := {| mc_copies := [3; 3]; mc_asmin := false; mc_limit := 100 |}.

(* the statements at full strength over the multi model, against the cluster
   state as the servers reported it *)
Definition m_lookup_exact (mc : mcfg) : Prop :=
  forall es v, exists x, mlookup (mrun mc minit es) v = Some x /\
                         nsort x = nsort (t_holders (fold_left tstep es tinit) v).
Definition m_writable_sound (mc : mcfg) : Prop :=
  forall es k v, mwritable (mrun mc minit es) k v = true -> t_crit mc (fold_left tstep es tinit) k v = true.

(* finding 1 *)
Definition relayout_history : list mevent :=
  [MConnect 1 1 1; MFull 1 [mi 1 10 false 0]; MFull 1 [mi 1 10 false 1]; MFull 1 []].
Lemma relayout_witness :
  let s := mrun mc12 minit relayout_history in let t := fold_left tstep relayout_history tinit in
  t_holders t 1 = [] /\ mlookup s 1 = Some [1] /\ mwritable s 0 1 = true /\
  trig_relayout_v relayout_history 1 = true.
Proof. vm_compute; repeat split; reflexivity. Qed.
Lemma m_lookup_exact_refuted_relayout : ~ m_lookup_exact mc12.
Proof. intros H. destruct (H relayout_history 1) as (x & A & B). vm_compute in A. inversion A; subst x. vm_compute in B. discriminate. Qed.
Lemma m_writable_sound_refuted_relayout : ~ m_writable_sound mc12.
Proof. intros H. specialize (H relayout_history 0 1 eq_refl). vm_compute in H. discriminate. Qed.

(* finding 2 (a): heartbeat on an object that the old stream's end unlinked *)
Definition stale_object_history : list mevent :=
  [MConnect 1 1 1; MFull 1 [mi 1 10 false 0]; MConnect 11 1 1; MClose 1; MFull 11 [mi 1 10 false 0; mi 2 10 false 0]].
Lemma stale_object_witness :
  let s := mrun mc1 minit stale_object_history in let t := fold_left tstep stale_object_history tinit in
  t_holders t 1 = [1] /\ mlookup s 1 = Some [] /\ mlookup s 2 = Some [1] /\ mwritable s 0 2 = true /\
  pick_panics s 0 = true /\ trig_object_v stale_object_history 1 = true.
Proof. vm_compute; repeat split; reflexivity. Qed.
(* finding 2 (b): the late end of the first stream removes the second object's registrations *)
Definition late_close_history : list mevent :=
  [MConnect 1 1 1; MFull 1 [mi 1 10 false 0]; MConnect 11 1 0; MFull 11 [mi 1 10 false 0]; MClose 1; MFull 11 [mi 1 10 false 0]].
Lemma late_close_witness :
  let s := mrun mc1 minit late_close_history in let t := fold_left tstep late_close_history tinit in
  t_holders t 1 = [1] /\ mlookup s 1 = Some [] /\ trig_object_v late_close_history 1 = true.
Proof. vm_compute; repeat split; reflexivity. Qed.
Lemma m_lookup_exact_refuted_object : ~ m_lookup_exact mc1.
Proof. intros H. destruct (H stale_object_history 1) as (x & A & B). vm_compute in A. inversion A; subst x. vm_compute in B. discriminate. Qed.

(* finding 3: a short "new" message resets the registered read-only flag *)
Definition clobber_history : list mevent :=
  [MConnect 1 1 1; MFull 1 [mi 1 10 true 0]; MIncr 1 [(1, 0)] []].
Lemma clobber_witness :
  let s := mrun mc1 minit clobber_history in let t := fold_left tstep clobber_history tinit in
  mwritable s 0 1 = true /\ t_rw_ok t 1 = false /\ trig_clobber_v mc1 clobber_history 1 = true /\
  trig_size_v mc1 clobber_history 1 = false.
Proof. vm_compute; repeat split; reflexivity. Qed.
Lemma m_writable_sound_refuted_clobber : ~ m_writable_sound mc1.
Proof. intros H. specialize (H clobber_history 0 1 eq_refl). vm_compute in H. discriminate. Qed.
(* the same in the single-layout model: registered read-only flag false after a read-only report *)
Lemma clobber_single_witness :
  let s := run cfg000 init [EFull 1 [vi 1 10 true]; EIncr 1 [1] []] in
  writable s 1 = true /\ ginfo (s_nodes s) 1 1 = Some (vi 1 0 false).
Proof. vm_compute; split; reflexivity. Qed.

(* finding 4: replicas of one vid under two layouts: no determined lookup answer,
   and each candidate misses a holder *)
Definition split_history : list mevent :=
  [MConnect 2 2 0; MConnect 3 3 1; MFull 2 [mi 3 10 false 0]; MFull 3 [mi 3 10 false 1]].
Lemma split_witness :
  let s := mrun mc33 minit split_history in let t := fold_left tstep split_history tinit in
  t_holders t 3 = [2; 3] /\ lookup_candidates s 3 = [[2]; [3]] /\ mlookup s 3 = None /\
  trig_split_v split_history 3 = true /\ trig_relayout_v split_history 3 = false.
Proof. vm_compute; repeat split; reflexivity. Qed.
Lemma m_lookup_exact_refuted_split : ~ m_lookup_exact mc33.
Proof. intros H. destruct (H split_history 3) as (x & A & _). vm_compute in A. discriminate. Qed.

(* non-vacuity of the multi model outside every trigger: two layouts, two
   servers, a reconnect; lookups exact and the offered volume meets the criterion *)
Definition multi_sample : list mevent :=
  [MConnect 1 1 1; MConnect 2 2 0; MFull 1 [mi 1 10 false 0; mi 2 20 false 1]; MFull 2 [mi 2 20 false 1];
   MClose 1; MConnect 1 1 1; MFull 1 [mi 1 10 false 0; mi 2 20 false 1]].
Lemma multi_sample_ok :
  let s := mrun mc12 minit multi_sample in let t := fold_left tstep multi_sample tinit in
  mlookup s 1 = Some [1] /\ mlookup s 2 = Some [2; 1] /\ t_holders t 2 = [2; 1] /\
  mwritable s 0 1 = true /\ mwritable s 1 2 = true /\ t_crit mc12 t 1 2 = true /\
  forallb (fun v => negb (trig_relayout_v multi_sample v || trig_split_v multi_sample v ||
                          trig_object_v multi_sample v || trig_clobber_v mc12 multi_sample v || trig_size_v mc12 multi_sample v)) [1; 2] = true.
Proof. vm_compute; repeat split; reflexivity. Qed.

(* the collector's two tests in the multi model, at their edges (limit 100, growThreshold 0.9):
   sizes 90 / 91 around the crowded edge, 99 / 100 around the limit *)
Definition crowded_history : list mevent :=
  [MConnect 1 1 1; MFull 1 [mi 1 10 false 0; mi 2 10 false 0; mi 3 10 false 0; mi 4 10 false 0];
   MFull 1 [mi 1 90 false 0; mi 2 91 false 0; mi 3 99 false 0; mi 4 100 false 0]; MCollect].
Lemma crowded_boundary :
  let s := mrun mc1 minit crowded_history in
  l_writ (lay (ms_lays s) 0) = [1; 2; 3] /\ mcrowded s 0 = [2; 3] /\
  (* a crowded vid that leaves writables leaves crowded *)
  mcrowded (mrun mc1 minit (crowded_history ++ [MFull 1 [mi 1 90 false 0; mi 2 91 true 0; mi 3 100 false 0; mi 4 100 false 0]; MCollect])) 0 = [].
Proof. vm_compute; repeat split; reflexivity. Qed.
