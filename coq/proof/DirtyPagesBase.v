(* Proofs about model/DirtyPages.v (C30). *)
From Coq Require Import List ZArith NArith Bool Lia.
From SW Require Import model.DirtyPages.
Import ListNotations.
Local Open Scope Z_scope.

(* destruct every boolean comparison of the goal into its Prop form; close absurd branches *)
Ltac brefl :=
  repeat match goal with
  | |- context [(?a <=? ?b)%nat] => destruct (Nat.leb_spec a b)
  | |- context [(?a <? ?b)%nat] => destruct (Nat.ltb_spec a b)
  | |- context [(?a <=? ?b)%Z] => destruct (Z.leb_spec a b)
  | |- context [(?a <? ?b)%Z] => destruct (Z.ltb_spec a b)
  | |- context [(?a >=? ?b)%Z] => rewrite (Z.geb_leb a b)
  | |- context [(?a >? ?b)%Z] => rewrite (Z.gtb_ltb a b)
  | |- context [(?a =? ?b)%Z] => destruct (Z.eqb_spec a b)
  end; cbn [andb orb negb]; try lia.

(* ================= byte lists indexed by Z ================= *)
Definition zget (l : list N) (p : Z) : option N :=
  if p <? 0 then None else nth_error l (Z.to_nat p).

Lemma zlen_nonneg : forall {A} (l : list A), 0 <= zlen l.
Proof. intros. unfold zlen. lia. Qed.

Lemma zlen_app : forall {A} (a b : list A), zlen (a ++ b) = zlen a + zlen b.
Proof. intros. unfold zlen. rewrite app_length. lia. Qed.

Lemma zlen_nil : forall {A}, zlen (@nil A) = 0.
Proof. reflexivity. Qed.

Lemma zlen_cons : forall {A} (x : A) l, zlen (x :: l) = 1 + zlen l.
Proof. intros. unfold zlen. simpl length. lia. Qed.

Lemma zget_none : forall l p, zget l p = None <-> (p < 0 \/ zlen l <= p).
Proof.
  intros l p. unfold zget, zlen. destruct (p <? 0) eqn:E.
  - apply Z.ltb_lt in E. split; auto.
  - apply Z.ltb_ge in E. rewrite nth_error_None. lia.
Qed.

Lemma zget_some_range : forall l p b, zget l p = Some b -> 0 <= p < zlen l.
Proof.
  intros l p b H. destruct (Z_lt_dec p 0); [|destruct (Z_le_dec (zlen l) p)].
  - assert (zget l p = None) by (apply zget_none; auto). congruence.
  - assert (zget l p = None) by (apply zget_none; auto). congruence.
  - lia.
Qed.

Lemma zget_in_range : forall l p, 0 <= p < zlen l -> exists b, zget l p = Some b.
Proof.
  intros l p H. destruct (zget l p) eqn:E; eauto.
  apply zget_none in E. lia.
Qed.

Lemma zget_app : forall a b p, 0 <= p ->
  zget (a ++ b) p = if p <? zlen a then zget a p else zget b (p - zlen a).
Proof.
  intros a b p Hp. unfold zget, zlen.
  destruct (p <? 0) eqn:E0; [apply Z.ltb_lt in E0; lia|].
  destruct (p <? Z.of_nat (length a)) eqn:E.
  - apply Z.ltb_lt in E. apply nth_error_app1. lia.
  - apply Z.ltb_ge in E.
    destruct (p - Z.of_nat (length a) <? 0) eqn:E1; [apply Z.ltb_lt in E1; lia|].
    rewrite nth_error_app2 by lia. f_equal. lia.
Qed.

Lemma zget_ext : forall l1 l2, (forall p, zget l1 p = zget l2 p) -> l1 = l2.
Proof.
  induction l1 as [|x l1 IH]; intros l2 H.
  - destruct l2 as [|y l2]; auto. specialize (H 0). discriminate.
  - destruct l2 as [|y l2]; [specialize (H 0); discriminate|].
    f_equal.
    + specialize (H 0). unfold zget in H. simpl in H. congruence.
    + apply IH. intros p. destruct (Z_lt_dec p 0).
      * unfold zget. destruct (p <? 0) eqn:E; auto. apply Z.ltb_ge in E. lia.
      * specialize (H (p + 1)). unfold zget in *.
        destruct (p + 1 <? 0) eqn:E1; [apply Z.ltb_lt in E1; lia|].
        destruct (p <? 0) eqn:E2; [apply Z.ltb_lt in E2; lia|].
        replace (Z.to_nat (p + 1)) with (S (Z.to_nat p)) in H by lia. exact H.
Qed.

Lemma nth_error_skipn' : forall {A} (l : list A) k n, nth_error (skipn k l) n = nth_error l (k + n).
Proof.
  intros A l k. revert l. induction k as [|k IH]; intros l n; simpl; auto.
  destruct l as [|x l]; simpl; auto. destruct n; auto.
Qed.

Lemma zget_skipn : forall l k p, 0 <= p -> zget (skipn k l) p = zget l (Z.of_nat k + p).
Proof.
  intros l k p Hp. unfold zget.
  destruct (p <? 0) eqn:E; [apply Z.ltb_lt in E; lia|].
  destruct (Z.of_nat k + p <? 0) eqn:E1; [apply Z.ltb_lt in E1; lia|].
  rewrite nth_error_skipn'. f_equal. lia.
Qed.

Lemma nth_error_firstn' : forall {A} (l : list A) k n, (n < k)%nat -> nth_error (firstn k l) n = nth_error l n.
Proof.
  intros A l k. revert l. induction k as [|k IH]; intros l n H; [lia|].
  destruct l as [|x l]; simpl; auto. destruct n; simpl; auto. apply IH. lia.
Qed.

Lemma zget_firstn : forall l k p, zget (firstn k l) p = if p <? Z.of_nat k then zget l p else None.
Proof.
  intros l k p. unfold zget. destruct (p <? 0) eqn:E.
  - destruct (p <? Z.of_nat k); auto.
  - apply Z.ltb_ge in E. destruct (p <? Z.of_nat k) eqn:E1.
    + apply Z.ltb_lt in E1. apply nth_error_firstn'. lia.
    + apply Z.ltb_ge in E1. apply nth_error_None. rewrite firstn_length. lia.
Qed.

Lemma zget_slice : forall d a b p, 0 <= a ->
  zget (slice d a b) p = if (0 <=? p) && (p <? b - a) then zget d (a + p) else None.
Proof.
  intros d a b p Ha. unfold slice. rewrite zget_firstn.
  destruct (0 <=? p) eqn:E0; simpl.
  - apply Z.leb_le in E0.
    destruct (p <? Z.of_nat (Z.to_nat (b - a))) eqn:E1; destruct (p <? b - a) eqn:E2; auto;
      try (apply Z.ltb_lt in E1); try (apply Z.ltb_ge in E1); try (apply Z.ltb_lt in E2); try (apply Z.ltb_ge in E2); try lia.
    rewrite zget_skipn by lia. f_equal. lia.
  - apply Z.leb_gt in E0. destruct (p <? Z.of_nat (Z.to_nat (b - a))); auto.
    unfold zget. destruct (p <? 0) eqn:E; auto. apply Z.ltb_ge in E. lia.
Qed.

Lemma zlen_slice : forall {A} (d : list A) a b, 0 <= a -> a <= b -> b <= zlen d -> zlen (slice d a b) = b - a.
Proof.
  intros A d a b Ha Hab Hb. unfold slice, zlen in *. rewrite firstn_length, skipn_length. lia.
Qed.

Lemma slice_full : forall {A} (d : list A), slice d 0 (zlen d) = d.
Proof.
  intros. unfold slice, zlen. simpl. rewrite Z.sub_0_r, Nat2Z.id. apply firstn_all.
Qed.

Lemma zget_repeat0 : forall n p, zget (repeat 0%N n) p = if (0 <=? p) && (p <? Z.of_nat n) then Some 0%N else None.
Proof.
  intros n p. unfold zget. destruct (p <? 0) eqn:E.
  - apply Z.ltb_lt in E. destruct (0 <=? p) eqn:E1; auto. apply Z.leb_le in E1. lia.
  - apply Z.ltb_ge in E. destruct (0 <=? p) eqn:E1; [|apply Z.leb_gt in E1; lia]. simpl.
    destruct (p <? Z.of_nat n) eqn:E2.
    + apply Z.ltb_lt in E2. destruct (nth_error (repeat 0%N n) (Z.to_nat p)) eqn:E3.
      * apply nth_error_In in E3. apply repeat_spec in E3. congruence.
      * apply nth_error_None in E3. rewrite repeat_length in E3. lia.
    + apply Z.ltb_ge in E2. apply nth_error_None. rewrite repeat_length. lia.
Qed.

(* ---- blit ---- *)
Lemma blit_length : forall buf pos src, length (blit buf pos src) = length buf.
Proof.
  induction buf as [|b buf IH]; intros pos src; simpl; auto.
  destruct pos; simpl.
  - destruct src; simpl; auto.
  - rewrite IH. auto.
Qed.

Lemma zlen_blit : forall buf pos src, zlen (blit buf pos src) = zlen buf.
Proof. intros. unfold zlen. rewrite blit_length. auto. Qed.

Lemma nth_error_blit : forall buf pos src i,
  nth_error (blit buf pos src) i =
  if (pos <=? i)%nat && (i <? pos + length src)%nat && (i <? length buf)%nat
  then nth_error src (i - pos) else nth_error buf i.
Proof.
  induction buf as [|b buf IH]; intros pos src i.
  - cbn [blit length]. brefl; destruct i; reflexivity.
  - cbn [blit]. destruct pos as [|pos].
    + destruct src as [|s src].
      * cbn [length]. brefl; reflexivity.
      * destruct i as [|i].
        { cbn [length nth_error]. brefl; reflexivity. }
        { cbn [nth_error]. rewrite IH. cbn [length]. brefl;
            try (replace (S i - 0)%nat with (S (i - 0)) by lia; reflexivity); reflexivity. }
    + destruct i as [|i].
      * cbn [length nth_error]. brefl; reflexivity.
      * cbn [nth_error]. rewrite IH. cbn [length]. brefl; reflexivity.
Qed.

Lemma zget_blit : forall buf pos src p, 0 <= pos ->
  zget (blit buf (Z.to_nat pos) src) p =
  if (pos <=? p) && (p <? pos + zlen src) && (p <? zlen buf) then zget src (p - pos) else zget buf p.
Proof.
  intros buf pos src p Hpos. unfold zget, zlen. rewrite nth_error_blit.
  brefl; try reflexivity; f_equal; lia.
Qed.
