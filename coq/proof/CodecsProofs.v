(* Proofs about model/Codecs.v (C08). *)
From Coq Require Import List NArith ZArith Bool Lia ZifyBool ZifyN ZifyNat.
From SW Require Import model.Needle model.Codecs proof.NeedleProofs.
Import ListNotations.
Local Open Scope N_scope.
Ltac Zify.zify_post_hook ::= Z.div_mod_to_equations.

(* ---------- finite ranges ---------- *)
Definition nrange (n : nat) : list N := map N.of_nat (seq 0 n).

Lemma in_nrange : forall n x, x < N.of_nat n -> In x (nrange n).
Proof.
  intros n x H. unfold nrange. apply in_map_iff. exists (N.to_nat x). split; [lia|].
  apply in_seq. lia.
Qed.

(* ---------- decimal ---------- *)
Lemma dec_val_app : forall a b acc,
  dec_val (a ++ b) acc = match dec_val a acc with Some v => dec_val b v | None => None end.
Proof.
  induction a as [|c a IH]; intros b acc; [reflexivity|].
  cbn [app dec_val]. destruct (is_digit c); [apply IH|reflexivity].
Qed.

Lemma dec_val_digits : forall l acc v, dec_val l acc = Some v -> Forall (fun c => is_digit c = true) l.
Proof.
  induction l as [|c l IH]; intros acc v H; [constructor|].
  cbn [dec_val] in H. destruct (is_digit c) eqn:E; [|discriminate].
  constructor; [assumption|]. eapply IH; eassumption.
Qed.

Lemma dec_digits_spec : forall fuel n acc, n < 2 ^ N.of_nat (S fuel) ->
  exists ds w, dec_digits (S fuel) n acc = ds ++ acc /\ ds <> [] /\
               forall k, dec_val ds k = Some (k * w + n).
Proof.
  induction fuel as [|f IH]; intros n acc Hn.
  - change (2 ^ N.of_nat 1) with 2 in Hn. cbn [dec_digits].
    destruct (n <? 10) eqn:E; [|lia].
    exists [48 + n mod 10], 10. split; [reflexivity|]. split; [discriminate|].
    intros k. cbn [dec_val]. unfold is_digit.
    destruct ((48 <=? 48 + n mod 10) && (48 + n mod 10 <=? 57)) eqn:E2; [|lia].
    f_equal. lia.
  - cbn [dec_digits]. destruct (n <? 10) eqn:E.
    + exists [48 + n mod 10], 10. split; [reflexivity|]. split; [discriminate|].
      intros k. cbn [dec_val]. unfold is_digit.
      destruct ((48 <=? 48 + n mod 10) && (48 + n mod 10 <=? 57)) eqn:E2; [|lia].
      f_equal. lia.
    + assert (Hn' : n / 10 < 2 ^ N.of_nat (S f)).
      { replace (N.of_nat (S (S f))) with (N.succ (N.of_nat (S f))) in Hn by lia.
        rewrite N.pow_succ_r' in Hn. lia. }
      destruct (IH (n / 10) ((48 + n mod 10) :: acc) Hn') as [ds [w [Hd [Hne Hv]]]].
      exists (ds ++ [48 + n mod 10]), (w * 10). split.
      { change (dec_digits (S f) (n / 10) ((48 + n mod 10) :: acc) = (ds ++ [48 + n mod 10]) ++ acc).
        rewrite Hd, <- app_assoc. reflexivity. }
      split; [destruct ds; discriminate|].
      intros k. rewrite dec_val_app, Hv. cbn [dec_val]. unfold is_digit.
      destruct ((48 <=? 48 + n mod 10) && (48 + n mod 10 <=? 57)) eqn:E2; [|lia].
      f_equal. lia.
Qed.

Lemma itoa_spec : forall n, itoa n <> [] /\ dec_val (itoa n) 0 = Some n.
Proof.
  intros n. unfold itoa.
  assert (Hn : n < 2 ^ N.of_nat (S (N.to_nat (N.log2 n)))).
  { replace (N.of_nat (S (N.to_nat (N.log2 n)))) with (N.succ (N.log2 n)) by lia.
    destruct (N.eq_dec n 0) as [-> | Hz]; [reflexivity|].
    apply N.log2_spec. lia. }
  destruct (dec_digits_spec _ n [] Hn) as [ds [w [Hd [Hne Hv]]]].
  rewrite Hd, app_nil_r. split; [assumption|]. rewrite Hv. f_equal; lia.
Qed.

Lemma itoa_digits : forall n, Forall (fun c => is_digit c = true) (itoa n).
Proof. intros n. destruct (itoa_spec n) as [_ H]. eapply dec_val_digits; eassumption. Qed.

Lemma itoa_not_in : forall n c, is_digit c = false -> ~ In c (itoa n).
Proof.
  intros n c Hc Hin. pose proof (itoa_digits n) as H. rewrite Forall_forall in H.
  apply H in Hin. congruence.
Qed.

Lemma parse_uint_dec_itoa : forall bits n, n < 2 ^ bits -> parse_uint_dec bits (itoa n) = Some n.
Proof.
  intros bits n H. destruct (itoa_spec n) as [Hne Hv]. unfold parse_uint_dec.
  destruct (itoa n) as [|c r] eqn:E; [congruence|]. rewrite Hv.
  destruct (n <? 2 ^ bits) eqn:E2; [reflexivity|lia].
Qed.

(* whatever ParseUint accepts is the decimal value of its digits, and it fits *)
Lemma parse_uint_dec_sound : forall bits s v, parse_uint_dec bits s = Some v ->
  s <> [] /\ dec_val s 0 = Some v /\ v < 2 ^ bits.
Proof.
  intros bits s v H. unfold parse_uint_dec in H. destruct s as [|c r]; [discriminate|].
  destruct (dec_val (c :: r) 0) as [x|] eqn:E; [|discriminate].
  destruct (x <? 2 ^ bits) eqn:E2; [|discriminate]. inversion H; subst.
  split; [discriminate|]. split; [reflexivity|lia].
Qed.

(* ---------- volume id ---------- *)
Lemma volume_id_roundtrip : forall v, v < 2 ^ 32 -> new_volume_id (vid_string v) = Some v.
Proof. intros. apply parse_uint_dec_itoa. assumption. Qed.

Lemma volume_id_reject : forall s v, new_volume_id s = Some v ->
  s <> [] /\ dec_val s 0 = Some v /\ v < 2 ^ 32.
Proof. intros s v H. apply parse_uint_dec_sound in H. assumption. Qed.

(* ---------- TTL ---------- *)
Definition ttl_canon (t : ttl) : bool :=
  let '(c, u) := t in negb (c =? 0) && (1 <=? u) && (u <=? 6).

Definition ttl_string_rt_ok (t : ttl) : bool :=
  match read_ttl (ttl_string t) with
  | Some t' => ttl_pair_eqb t' (if ttl_canon t then t else (0, 0))
  | None => false
  end.

Lemma ttl_string_rt_all :
  forallb (fun c => forallb (fun u => ttl_string_rt_ok (c, u)) (nrange 256)) (nrange 256) = true.
Proof. vm_compute. reflexivity. Qed.

Lemma ttl_pair_eqb_eq : forall a b, ttl_pair_eqb a b = true -> a = b.
Proof. intros [a1 a2] [b1 b2] H. unfold ttl_pair_eqb in H. cbn [fst snd] in H. f_equal; lia. Qed.

(* ReadTTL(t.String()) for every count and unit byte: canonical TTLs (count >= 1, unit 1..6)
   come back exactly, every other TTL prints as "" and comes back as the empty TTL *)
Lemma ttl_string_roundtrip : forall c u, c < 256 -> u < 256 ->
  read_ttl (ttl_string (c, u)) = Some (if ttl_canon (c, u) then (c, u) else (0, 0)).
Proof.
  intros c u Hc Hu. pose proof ttl_string_rt_all as H. rewrite forallb_forall in H.
  specialize (H c (in_nrange 256 c Hc)). rewrite forallb_forall in H.
  specialize (H u (in_nrange 256 u Hu)). unfold ttl_string_rt_ok in H.
  destruct (read_ttl (ttl_string (c, u))) as [t'|]; [|discriminate].
  apply ttl_pair_eqb_eq in H. rewrite H. reflexivity.
Qed.

Lemma ttl_bytes_roundtrip : forall t, load_ttl_bytes (ttl_to_bytes t) = t.
Proof. intros [c u]. reflexivity. Qed.

Lemma ttl_u32_roundtrip : forall c u, c < 256 -> u < 256 ->
  load_ttl_u32 (ttl_to_u32 (c, u)) = if c =? 0 then (0, 0) else (c, u).
Proof.
  intros c u Hc Hu. unfold load_ttl_u32, ttl_to_u32. destruct (c =? 0) eqn:E; [reflexivity|].
  f_equal; lia.
Qed.

(* what ReadTTL accepts: the count is exactly the integer written (no wrap), 0..255, and the
   unit letter is a known one *)
Lemma read_ttl_sound : forall s c u, s <> [] -> read_ttl s = Some (c, u) ->
  atoi (fst (ttl_split s)) = Some (Z.of_N c) /\ c <= 255 /\
  u = to_stored_byte (snd (ttl_split s)) /\ 1 <= u <= 6.
Proof.
  intros s c u Hne H. unfold read_ttl in H. destruct s as [|x r]; [congruence|].
  destruct (ttl_split (x :: r)) as [cb ub]. cbn [fst snd].
  destruct (atoi cb) as [count|]; [|discriminate].
  destruct ((count <? 0)%Z || (255 <? count)%Z) eqn:E1; [discriminate|].
  destruct (to_stored_byte ub =? 0) eqn:E2; [discriminate|].
  inversion H; subst. split; [f_equal; lia|]. split; [lia|]. split; [reflexivity|].
  unfold to_stored_byte in *.
  destruct (ub =? 109), (ub =? 104), (ub =? 100), (ub =? 119), (ub =? 77), (ub =? 121); lia.
Qed.

(* ---------- hexadecimal ---------- *)
Lemma hex_digit_char_all :
  forallb (fun n => match hex_digit_val (hex_char n) with Some m => m =? n | None => false end) (nrange 16) = true.
Proof. vm_compute. reflexivity. Qed.

Lemma hex_digit_char : forall n, n < 16 -> hex_digit_val (hex_char n) = Some n.
Proof.
  intros n H. pose proof hex_digit_char_all as A. rewrite forallb_forall in A.
  specialize (A n (in_nrange 16 n H)). destruct (hex_digit_val (hex_char n)); [f_equal; lia|discriminate].
Qed.

Lemma hex_char_not : forall n c, n < 16 -> c < 48 \/ (57 < c /\ c < 97) \/ 102 < c -> hex_char n <> c.
Proof. intros n c H Hc. unfold hex_char. destruct (n <? 10) eqn:E; lia. Qed.

Lemma hex_of_bytes_app : forall a b, hex_of_bytes (a ++ b) = hex_of_bytes a ++ hex_of_bytes b.
Proof. intros. unfold hex_of_bytes. apply flat_map_app. Qed.

Lemma len_hex_of_bytes : forall l, len (hex_of_bytes l) = 2 * len l.
Proof.
  induction l as [|b l IH]; [reflexivity|].
  change (hex_of_bytes (b :: l)) with (hex_char (b / 16) :: hex_char (b mod 16) :: hex_of_bytes l).
  rewrite !len_cons, IH. lia.
Qed.

Lemma hex_val_bytes : forall l acc, bytes_ok l ->
  hex_val (hex_of_bytes l) acc = Some (fold_left (fun a b => a * 256 + b) l acc).
Proof.
  induction l as [|b l IH]; intros acc H; [reflexivity|].
  inversion H as [|? ? Hb Hl]; subst.
  change (hex_of_bytes (b :: l)) with (hex_char (b / 16) :: hex_char (b mod 16) :: hex_of_bytes l).
  cbn [hex_val fold_left]. rewrite !hex_digit_char by lia. rewrite IH by assumption.
  f_equal. f_equal. lia.
Qed.

Lemma hex_of_bytes_not_in : forall l c, bytes_ok l -> c < 48 \/ (57 < c /\ c < 97) \/ 102 < c ->
  ~ In c (hex_of_bytes l).
Proof.
  induction l as [|b l IH]; intros c H Hc Hin; [inversion Hin|].
  inversion H as [|? ? Hb Hl]; subst.
  change (hex_of_bytes (b :: l)) with (hex_char (b / 16) :: hex_char (b mod 16) :: hex_of_bytes l) in Hin.
  destruct Hin as [E|[E|Hin]].
  - revert E. apply hex_char_not; [lia|assumption].
  - revert E. apply hex_char_not; [lia|assumption].
  - eapply IH; eassumption.
Qed.

Lemma parse_uint_hex_bytes : forall bits l, bytes_ok l -> l <> [] -> be_decode l < 2 ^ bits ->
  parse_uint_hex bits (hex_of_bytes l) = Some (be_decode l).
Proof.
  intros bits l Hok Hne Hlt. unfold parse_uint_hex.
  destruct (hex_of_bytes l) as [|c r] eqn:E.
  { exfalso. apply Hne. apply len_zero_nil.
    pose proof (len_hex_of_bytes l) as Hl. rewrite E, len_nil in Hl. lia. }
  rewrite <- E, hex_val_bytes by assumption. fold (be_decode l).
  destruct (be_decode l <? 2 ^ bits) eqn:E2; [reflexivity|lia].
Qed.

(* ---------- file ids ---------- *)
Lemma strip_zeros_app : forall k K C, (k <= length K)%nat -> strip_zeros k (K ++ C) = strip_zeros k K ++ C.
Proof.
  induction k as [|k IH]; intros K C H; [reflexivity|].
  destruct K as [|x K]; [cbn [length] in H; lia|].
  cbn [length] in H. cbn [app strip_zeros]. destruct x; [apply IH; lia|reflexivity].
Qed.

Lemma strip_zeros_decode : forall k l, be_decode (strip_zeros k l) = be_decode l.
Proof.
  induction k as [|k IH]; intros l; [reflexivity|].
  destruct l as [|x l]; [reflexivity|]. destruct x; [|reflexivity].
  cbn [strip_zeros]. rewrite IH. reflexivity.
Qed.

Lemma strip_zeros_ok : forall k l, bytes_ok l -> bytes_ok (strip_zeros k l).
Proof.
  induction k as [|k IH]; intros l H; [assumption|].
  destruct l as [|x l]; [assumption|]. destruct x; [|assumption].
  cbn [strip_zeros]. apply IH. inversion H; assumption.
Qed.

Lemma strip_zeros_len : forall k l, len (strip_zeros k l) <= len l.
Proof.
  induction k as [|k IH]; intros l; [cbn [strip_zeros]; lia|].
  destruct l as [|x l]; [cbn [strip_zeros]; lia|]. destruct x; [|cbn [strip_zeros]; lia].
  cbn [strip_zeros]. rewrite len_cons. specialize (IH l). lia.
Qed.

(* at most k leading bytes are dropped *)
Lemma strip_zeros_len_ge : forall k l, len l <= len (strip_zeros k l) + N.of_nat k.
Proof.
  induction k as [|k IH]; intros l; [cbn [strip_zeros]; lia|].
  destruct l as [|x l]; [cbn [strip_zeros]; rewrite len_nil; lia|]. destruct x; [|cbn [strip_zeros]; lia].
  cbn [strip_zeros]. rewrite len_cons. specialize (IH l). lia.
Qed.

Lemma format_key_cookie_split : forall key cookie,
  format_key_cookie key cookie =
  hex_of_bytes (strip_zeros 7 (be_encode 8 key)) ++ hex_of_bytes (be_encode 4 cookie).
Proof.
  intros. unfold format_key_cookie.
  assert (H8 : length (be_encode 8 key) = 8%nat).
  { pose proof (len_be_encode 8 key) as H. unfold len in H. lia. }
  rewrite strip_zeros_app by lia. apply hex_of_bytes_app.
Qed.

(* the repaired loop keeps at least one key byte, whatever the key (0 included) *)
Lemma key_part_len : forall key, 1 <= len (strip_zeros 7 (be_encode 8 key)) <= 8.
Proof.
  intros key. pose proof (strip_zeros_len_ge 7 (be_encode 8 key)) as H1.
  pose proof (strip_zeros_len 7 (be_encode 8 key)) as H2. rewrite len_be_encode in H1, H2.
  change (N.of_nat 7) with 7 in H1. lia.
Qed.

Lemma parse_key_cookie_format : forall key cookie, key < 2 ^ 64 -> cookie < 2 ^ 32 ->
  parse_key_cookie (format_key_cookie key cookie) = Some (key, cookie).
Proof.
  intros key cookie Hk Hc. rewrite format_key_cookie_split.
  pose proof (key_part_len key) as HAlen.
  set (A := strip_zeros 7 (be_encode 8 key)) in *.
  assert (HA : be_decode A = key).
  { unfold A. rewrite strip_zeros_decode. apply be_decode_encode. assumption. }
  assert (HAok : bytes_ok A) by (apply strip_zeros_ok, be_encode_bytes_ok).
  assert (HAne : A <> []) by (intro E; rewrite E, len_nil in HAlen; lia).
  assert (HC : len (hex_of_bytes (be_encode 4 cookie)) = 8)
    by (rewrite len_hex_of_bytes, len_be_encode; reflexivity).
  unfold parse_key_cookie.
  rewrite len_app, HC, len_hex_of_bytes.
  destruct (2 * len A + 8 <=? 8) eqn:E1; [lia|].
  destruct (24 <? 2 * len A + 8) eqn:E2; [lia|].
  replace (2 * len A + 8 - 8) with (2 * len A) by lia.
  rewrite takeN_app, dropN_app by apply len_hex_of_bytes.
  rewrite parse_uint_hex_bytes by (auto; rewrite HA; assumption).
  rewrite parse_uint_hex_bytes.
  - rewrite HA, be_decode_encode by assumption. reflexivity.
  - apply be_encode_bytes_ok.
  - intro E. pose proof (len_be_encode 4 cookie) as H. rewrite E in H. discriminate H.
  - rewrite be_decode_encode by assumption. assumption.
Qed.

Lemma index_of_app : forall c a b i, ~ In c a -> index_of c (a ++ c :: b) i = Some (i + len a).
Proof.
  intros c a. induction a as [|x a IH]; intros b i Hn.
  - cbn [app index_of]. rewrite N.eqb_refl. f_equal. rewrite len_nil. lia.
  - cbn [app index_of]. destruct (x =? c) eqn:E.
    + exfalso. apply Hn. left. lia.
    + rewrite IH by (intro; apply Hn; right; assumption). f_equal. rewrite len_cons. lia.
Qed.

Lemma last_index_not_in : forall c s i found, ~ In c s -> last_index_of c s i found = found.
Proof.
  intros c s. induction s as [|x s IH]; intros i found Hn; [reflexivity|].
  cbn [last_index_of]. destruct (x =? c) eqn:E.
  - exfalso. apply Hn. left. lia.
  - apply IH. intro. apply Hn. right. assumption.
Qed.

Lemma last_index_app : forall c a b i found, ~ In c b ->
  last_index_of c (a ++ c :: b) i found = Some (i + len a).
Proof.
  intros c a. induction a as [|x a IH]; intros b i found Hn.
  - cbn [app last_index_of]. rewrite N.eqb_refl, last_index_not_in by assumption.
    f_equal. rewrite len_nil. lia.
  - cbn [app last_index_of]. rewrite IH by assumption. f_equal. rewrite len_cons. lia.
Qed.

Lemma format_ok_chars : forall key cookie c, c < 48 \/ (57 < c /\ c < 97) \/ 102 < c ->
  ~ In c (format_key_cookie key cookie).
Proof.
  intros. unfold format_key_cookie. apply hex_of_bytes_not_in; [|assumption].
  apply strip_zeros_ok. apply Forall_app. split; apply be_encode_bytes_ok.
Qed.

Lemma file_id_roundtrip : forall vid key cookie, vid < 2 ^ 32 -> key < 2 ^ 64 ->
  cookie < 2 ^ 32 -> parse_file_id (fid_string vid key cookie) = Some (vid, key, cookie).
Proof.
  intros vid key cookie Hv Hk Hc. unfold parse_file_id, fid_string, vid_string.
  cbn [app]. rewrite index_of_app by (apply itoa_not_in; reflexivity).
  destruct (itoa_spec vid) as [Hne _].
  assert (Hl : len (itoa vid) <> 0) by (intro E; apply Hne, len_zero_nil, E).
  destruct (0 + len (itoa vid) =? 0) eqn:E; [lia|].
  replace (0 + len (itoa vid)) with (len (itoa vid)) by lia.
  rewrite takeN_app by reflexivity.
  change (itoa vid ++ 44 :: format_key_cookie key cookie) with (itoa vid ++ [44] ++ format_key_cookie key cookie).
  rewrite app_assoc, dropN_app by (rewrite len_app; reflexivity).
  unfold new_volume_id. rewrite parse_uint_dec_itoa by assumption.
  rewrite parse_key_cookie_format by assumption. reflexivity.
Qed.

Lemma len_format_gt8 : forall key cookie, 8 < len (format_key_cookie key cookie).
Proof.
  intros key cookie. rewrite format_key_cookie_split, len_app, !len_hex_of_bytes, len_be_encode.
  pose proof (key_part_len key). lia.
Qed.

Lemma parse_path_plain : forall key cookie, key < 2 ^ 64 -> cookie < 2 ^ 32 ->
  parse_path (format_key_cookie key cookie) = Some (key, cookie).
Proof.
  intros key cookie Hk Hc. unfold parse_path.
  pose proof (len_format_gt8 key cookie) as Hl.
  destruct (len (format_key_cookie key cookie) <=? 8) eqn:E; [lia|].
  rewrite last_index_not_in by (apply format_ok_chars; lia).
  rewrite parse_key_cookie_format by assumption. reflexivity.
Qed.

Lemma parse_path_delta : forall key cookie d, key < 2 ^ 64 -> cookie < 2 ^ 32 -> d < 2 ^ 64 ->
  parse_path (format_key_cookie key cookie ++ [95] ++ itoa d) =
    Some ((key + d) mod 18446744073709551616, cookie).
Proof.
  intros key cookie d Hk Hc Hd. unfold parse_path.
  pose proof (len_format_gt8 key cookie) as Hl.
  destruct (len (format_key_cookie key cookie ++ [95] ++ itoa d) <=? 8) eqn:E.
  { rewrite len_app in E. lia. }
  cbn [app]. rewrite last_index_app by (apply itoa_not_in; reflexivity).
  destruct (0 <? 0 + len (format_key_cookie key cookie)) eqn:E2; [|lia].
  replace (0 + len (format_key_cookie key cookie)) with (len (format_key_cookie key cookie)) by lia.
  rewrite takeN_app by reflexivity.
  change (format_key_cookie key cookie ++ 95 :: itoa d) with (format_key_cookie key cookie ++ [95] ++ itoa d).
  rewrite app_assoc, dropN_app by (rewrite len_app; reflexivity).
  rewrite parse_key_cookie_format by assumption.
  destruct (itoa_spec d) as [Hne _]. destruct (itoa d) as [|x r] eqn:Ei; [congruence|].
  rewrite <- Ei, parse_uint_dec_itoa by assumption. reflexivity.
Qed.

(* whatever ParseNeedleIdCookie accepts has 9..24 characters, and key and cookie are the
   hexadecimal values of the two parts, cookie = the last 8 characters *)
Lemma parse_key_cookie_sound : forall s key cookie, parse_key_cookie s = Some (key, cookie) ->
  8 < len s <= 24 /\ hex_val (takeN (len s - 8) s) 0 = Some key /\ key < 2 ^ 64 /\
  hex_val (dropN (len s - 8) s) 0 = Some cookie /\ cookie < 2 ^ 32.
Proof.
  intros s key cookie H. unfold parse_key_cookie in H.
  destruct (len s <=? 8) eqn:E1; [discriminate|].
  destruct (24 <? len s) eqn:E2; [discriminate|].
  unfold parse_uint_hex in H.
  destruct (takeN (len s - 8) s) as [|a ra] eqn:Ea; [discriminate|].
  destruct (hex_val (a :: ra) 0) as [k|] eqn:Ek; [|discriminate].
  destruct (k <? 2 ^ 64) eqn:Ek2; [|discriminate].
  destruct (dropN (len s - 8) s) as [|b rb] eqn:Eb; [discriminate|].
  destruct (hex_val (b :: rb) 0) as [c|] eqn:Ec; [|discriminate].
  destruct (c <? 2 ^ 32) eqn:Ec2; [|discriminate].
  inversion H; subst. repeat split; try lia; reflexivity.
Qed.

(* ---------- replica placement ---------- *)
Lemma rp_cases : forall x, x <= 2 -> x = 0 \/ x = 1 \/ x = 2.
Proof. intros. lia. Qed.

Lemma rp_string_roundtrip : forall dc rack same, dc <= 2 -> rack <= 2 -> same <= 2 ->
  rp_from_string (rp_string (dc, rack, same)) = Some (dc, rack, same).
Proof.
  intros dc rack same H1 H2 H3.
  destruct (rp_cases dc H1) as [-> | [-> | ->]]; destruct (rp_cases rack H2) as [-> | [-> | ->]];
    destruct (rp_cases same H3) as [-> | [-> | ->]]; reflexivity.
Qed.

Lemma rp_byte_roundtrip : forall dc rack same, dc <= 2 -> rack <= 2 -> same <= 2 ->
  rp_from_byte (rp_byte (dc, rack, same)) = Some (dc, rack, same).
Proof.
  intros dc rack same H1 H2 H3.
  destruct (rp_cases dc H1) as [-> | [-> | ->]]; destruct (rp_cases rack H2) as [-> | [-> | ->]];
    destruct (rp_cases same H3) as [-> | [-> | ->]]; reflexivity.
Qed.

(* every byte: either rejected, or the byte of a valid placement which encodes back to it *)
Definition rp_byte_ok (b : N) : bool :=
  match rp_from_byte b with
  | Some r => rp_valid r && (rp_byte r =? b)
  | None => true
  end.
Lemma rp_byte_all : forallb rp_byte_ok (nrange 256) = true.
Proof. vm_compute. reflexivity. Qed.

Lemma rp_byte_reject : forall b r, b < 256 -> rp_from_byte b = Some r -> rp_valid r = true /\ rp_byte r = b.
Proof.
  intros b r Hb H. pose proof rp_byte_all as A. rewrite forallb_forall in A.
  specialize (A b (in_nrange 256 b Hb)). unfold rp_byte_ok in A. rewrite H in A.
  apply andb_true_iff in A. destruct A as [A1 A2]. split; [assumption|lia].
Qed.

(* three characters: accepted exactly when each is '0'..'2', and then it is the canonical string *)
Lemma rp_string3_sound : forall a b c r, rp_parse 0 [a; b; c] (0, 0, 0) = Some r ->
  rp_valid r = true /\ rp_string r = [a; b; c].
Proof.
  intros a b c r H. cbn [rp_parse] in H.
  destruct ((48 <=? a) && (a <=? 50)) eqn:Ea; [|discriminate].
  change (0 =? 0) with true in H. cbn iota in H. cbn [rp_parse] in H.
  destruct ((48 <=? b) && (b <=? 50)) eqn:Eb; [|discriminate].
  change (0 + 1 =? 0) with false in H. change (0 + 1 =? 1) with true in H. cbn iota in H.
  cbn [rp_parse] in H.
  destruct ((48 <=? c) && (c <=? 50)) eqn:Ec; [|discriminate].
  change (0 + 1 + 1 =? 0) with false in H. change (0 + 1 + 1 =? 1) with false in H.
  change (0 + 1 + 1 =? 2) with true in H. cbn iota in H. inversion H; subst.
  unfold rp_valid, rp_string. split; [lia|].
  f_equal; [|f_equal; [|f_equal]]; lia.
Qed.

(* any accepted string consists of characters '0'..'2' only *)
Lemma rp_parse_chars : forall s i r r', rp_parse i s r = Some r' ->
  Forall (fun c => 48 <= c <= 50) s.
Proof.
  induction s as [|c s IH]; intros i r r' H; [constructor|].
  cbn [rp_parse] in H. destruct ((48 <=? c) && (c <=? 50)) eqn:E; [|discriminate].
  destruct r as [[dc rack] same]. constructor; [lia|]. eapply IH; eassumption.
Qed.

Lemma len3_inv : forall (s : list N), len s = 3 -> exists a b c, s = [a; b; c].
Proof.
  intros s H. destruct s as [|a [|b [|c [|d s]]]]; try (cbn in H; discriminate).
  - exists a, b, c. reflexivity.
  - rewrite !len_cons in H. lia.
Qed.

(* repaired code: an accepted string is the empty string (the default placement 000) or the
   3-character encoding of the valid placement returned *)
Lemma rp_string_reject : forall s r, rp_from_string s = Some r ->
  rp_valid r = true /\ ((s = [] /\ r = (0, 0, 0)) \/ rp_string r = s).
Proof.
  intros s r H. unfold rp_from_string in H.
  destruct (negb (len s =? 0) && negb (len s =? 3)) eqn:E; [discriminate|].
  assert (Hl : len s = 0 \/ len s = 3) by lia. destruct Hl as [Hl|Hl].
  - apply len_zero_nil in Hl. subst s. cbn [rp_parse] in H. inversion H; subst.
    split; [reflexivity|]. left. split; reflexivity.
  - destruct (len3_inv s Hl) as [a [b [c ->]]].
    destruct (rp_string3_sound a b c r H) as [Hv Hs]. split; [assumption|]. right. assumption.
Qed.

Lemma rp_string_chars : forall s r, rp_from_string s = Some r -> Forall (fun c => 48 <= c <= 50) s.
Proof.
  intros s r H. unfold rp_from_string in H.
  destruct (negb (len s =? 0) && negb (len s =? 3)); [discriminate|].
  eapply rp_parse_chars. exact H.
Qed.

Lemma reject_examples :
  read_ttl [51; 48; 48; 109] = None            (* "300m" *)
  /\ read_ttl [53; 120] = None                 (* "5x" *)
  /\ read_ttl [45; 53; 109] = None             (* "-5m" *)
  /\ read_ttl [50; 53; 54; 104] = None         (* "256h" *)
  /\ read_ttl [109] = None                     (* "m" *)
  /\ new_volume_id [52; 50; 57; 52; 57; 54; 55; 50; 57; 55] = None   (* "4294967297" *)
  /\ new_volume_id [] = None
  /\ parse_file_id [51; 44; 48; 49; 54; 51; 55; 48; 51; 122; 100; 54] = None  (* "3,0163703zd6" *)
  /\ rp_from_string [48; 48; 51] = None        (* "003" *)
  /\ rp_from_string [49] = None                (* "1" *)
  /\ rp_from_string [48; 48; 49; 49] = None    (* "0011" *)
  /\ rp_from_byte 3 = None /\ rp_from_byte 255 = None.
Proof. vm_compute. repeat split; reflexivity. Qed.

(* ---------- super block ---------- *)
Definition sb_has_extra (s : super_block) : bool := negb (len (sb_extra s) =? 0).

Definition sb_ok (s : super_block) : Prop :=
  sb_version s < 256 /\ rp_valid (sb_rp s) = true /\ fst (sb_ttl s) < 256 /\ snd (sb_ttl s) < 256 /\
  sb_compaction s < 2 ^ 16.

Lemma be_encode_2 : forall x, be_encode 2 x = [(x / 256) mod 256; x mod 256].
Proof. reflexivity. Qed.

Lemma sb_bytes_shape : forall s, exists e1 e2,
  sb_bytes s = ([sb_version s; rp_byte (sb_rp s); fst (sb_ttl s); snd (sb_ttl s)] ++ be_encode 2 (sb_compaction s))
               ++ [e1; e2] ++ sb_extra s
  /\ be_decode [e1; e2] = (len (sb_extra s)) mod 65536.
Proof.
  intros s. unfold sb_bytes. destruct (sb_extra s) as [|x r] eqn:E.
  - exists 0, 0. split; [rewrite <- app_assoc; reflexivity|reflexivity].
  - exists ((len (x :: r) / 256) mod 256), (len (x :: r) mod 256). split.
    + rewrite be_encode_2, <- app_assoc. reflexivity.
    + rewrite <- be_encode_2, be_decode_encode_mod. reflexivity.
Qed.

Lemma sb_read_bytes : forall pb s tail, sb_ok s -> len (sb_extra s) < 65536 ->
  sb_read pb (sb_bytes s ++ tail) =
    if sb_has_extra s then
      match pb (sb_extra s) with
      | Some e => Some {| sb_version := sb_version s; sb_rp := sb_rp s; sb_ttl := sb_ttl s;
                          sb_compaction := sb_compaction s; sb_extra := e |}
      | None => None
      end
    else Some {| sb_version := sb_version s; sb_rp := sb_rp s; sb_ttl := sb_ttl s;
                 sb_compaction := sb_compaction s; sb_extra := [] |}.
Proof.
  intros pb s tail [Hv [Hrp [Hc [Hu Hcomp]]]] Hx.
  destruct (sb_bytes_shape s) as [e1 [e2 [Hs He]]]. rewrite Hs. clear Hs.
  set (front := [sb_version s; rp_byte (sb_rp s); fst (sb_ttl s); snd (sb_ttl s)]).
  assert (Hf6 : len (front ++ be_encode 2 (sb_compaction s)) = 6) by reflexivity.
  unfold sb_read.
  destruct (len (((front ++ be_encode 2 (sb_compaction s)) ++ [e1; e2] ++ sb_extra s) ++ tail) <? 8) eqn:E.
  { rewrite !len_app, len_be_encode in E. change (len front) with 4 in E.
    change (len [e1; e2]) with 2 in E. lia. }
  change (nth 1 (((front ++ be_encode 2 (sb_compaction s)) ++ [e1; e2] ++ sb_extra s) ++ tail) 0)
    with (rp_byte (sb_rp s)).
  change (nth 0 (((front ++ be_encode 2 (sb_compaction s)) ++ [e1; e2] ++ sb_extra s) ++ tail) 0)
    with (sb_version s).
  change (nth 2 (((front ++ be_encode 2 (sb_compaction s)) ++ [e1; e2] ++ sb_extra s) ++ tail) 0)
    with (fst (sb_ttl s)).
  change (nth 3 (((front ++ be_encode 2 (sb_compaction s)) ++ [e1; e2] ++ sb_extra s) ++ tail) 0)
    with (snd (sb_ttl s)).
  destruct (sb_rp s) as [[dc rack] same] eqn:Erp.
  unfold rp_valid in Hrp.
  rewrite rp_byte_roundtrip by lia.
  set (F := ((front ++ be_encode 2 (sb_compaction s)) ++ [e1; e2] ++ sb_extra s) ++ tail).
  assert (H6 : dropN 6 F = [e1; e2] ++ (sb_extra s ++ tail)).
  { unfold F. rewrite <- !app_assoc. rewrite (app_assoc front). apply dropN_app. exact Hf6. }
  assert (H4 : dropN 4 F = be_encode 2 (sb_compaction s) ++ ([e1; e2] ++ sb_extra s ++ tail)).
  { unfold F. rewrite <- !app_assoc. apply dropN_app. reflexivity. }
  assert (H8 : dropN 8 F = sb_extra s ++ tail).
  { assert (HF : F = ((front ++ be_encode 2 (sb_compaction s)) ++ [e1; e2]) ++ (sb_extra s ++ tail))
      by (unfold F; rewrite <- !app_assoc; reflexivity).
    rewrite HF. apply dropN_app. rewrite len_app, Hf6. reflexivity. }
  rewrite H6, H4, H8.
  rewrite (takeN_app _ [e1; e2]) by reflexivity. rewrite He, N.mod_small by lia.
  rewrite (takeN_app _ (be_encode 2 (sb_compaction s))) by reflexivity.
  rewrite be_decode_encode by assumption.
  rewrite (takeN_app _ (sb_extra s)) by reflexivity. rewrite N.ltb_irrefl.
  unfold sb_has_extra. destruct (len (sb_extra s) =? 0) eqn:E0; cbn [negb].
  - destruct (0 <? len (sb_extra s)) eqn:E1; [lia|].
    destruct (sb_ttl s) as [c u]. reflexivity.
  - destruct (0 <? len (sb_extra s)) eqn:E1; [|lia].
    destruct (sb_ttl s) as [c u]. reflexivity.
Qed.

(* FULL round trip (repaired code): [pb] returns the marshalled extra unchanged, which is the
   protobuf round-trip law for bytes that proto.Marshal produced *)
Lemma sb_roundtrip : forall pb s tail, sb_ok s -> len (sb_extra s) < 65536 ->
  (sb_has_extra s = true -> pb (sb_extra s) = Some (sb_extra s)) ->
  sb_read pb (sb_bytes s ++ tail) = Some s.
Proof.
  intros pb s tail Hok Hl Hpb. rewrite sb_read_bytes by assumption.
  destruct (sb_has_extra s) eqn:Hx.
  - rewrite Hpb by reflexivity. destruct s; reflexivity.
  - assert (He : sb_extra s = []).
    { apply len_zero_nil. unfold sb_has_extra in Hx. lia. }
    destruct s as [v r t c e]. cbn in He. subst e. reflexivity.
Qed.

(* truncated extra or extra that protobuf rejects: an error, never a different super block *)
Lemma sb_read_sound : forall pb file s, sb_read pb file = Some s ->
  8 <= len file /\ rp_from_byte (nth 1 file 0) = Some (sb_rp s) /\
  sb_version s = nth 0 file 0 /\ sb_ttl s = (nth 2 file 0, nth 3 file 0) /\
  sb_compaction s = be_decode (takeN 2 (dropN 4 file)) /\
  let extra_size := be_decode (takeN 2 (dropN 6 file)) in
  (if 0 <? extra_size
   then len (takeN extra_size (dropN 8 file)) = extra_size /\ pb (takeN extra_size (dropN 8 file)) = Some (sb_extra s)
   else sb_extra s = []).
Proof.
  intros pb file s H. unfold sb_read in H.
  destruct (len file <? 8) eqn:E; [discriminate|].
  destruct (rp_from_byte (nth 1 file 0)) as [r|] eqn:Er; [|discriminate].
  cbv zeta. cbv zeta in H.
  destruct (0 <? be_decode (takeN 2 (dropN 6 file))) eqn:Ex.
  - destruct (len (takeN (be_decode (takeN 2 (dropN 6 file))) (dropN 8 file)) <? be_decode (takeN 2 (dropN 6 file))) eqn:El;
      [discriminate|].
    destruct (pb (takeN (be_decode (takeN 2 (dropN 6 file))) (dropN 8 file))) as [e|] eqn:Ep; [|discriminate].
    inversion H; subst. cbn.
    pose proof (len_takeN_le _ (dropN 8 file) (be_decode (takeN 2 (dropN 6 file)))).
    repeat split; try reflexivity; lia.
  - inversion H; subst. cbn. repeat split; try reflexivity; lia.
Qed.

(* ---------- index entries ---------- *)
Lemma int32_roundtrip : forall x, (- 2147483648 <= x < 2147483648)%Z -> to_int32 (of_int32 x) = x.
Proof.
  intros x H. unfold to_int32, of_int32.
  destruct (Z.to_N (x mod 4294967296)%Z <? 2147483648) eqn:E; lia.
Qed.

Lemma of_int32_lt : forall x, of_int32 x < 2 ^ 32.
Proof. intros. unfold of_int32. change (2 ^ 32) with 4294967296. lia. Qed.

Lemma idx_roundtrip : forall key off size, key < 2 ^ 64 -> off < 2 ^ 32 ->
  (- 2147483648 <= size < 2147483648)%Z ->
  idx_parse (idx_bytes key off size) = (key, off, size) /\ len (idx_bytes key off size) = 16.
Proof.
  intros key off size Hk Ho Hs. unfold idx_parse, idx_bytes. split.
  - rewrite takeN_app by apply len_be_encode.
    rewrite dropN_app by apply len_be_encode.
    rewrite takeN_app by apply len_be_encode.
    rewrite (app_assoc (be_encode 8 key)).
    rewrite dropN_app by (rewrite len_app, !len_be_encode; reflexivity).
    rewrite takeN_all by apply len_be_encode.
    rewrite !be_decode_encode by (assumption || apply of_int32_lt).
    rewrite int32_roundtrip by assumption. reflexivity.
  - rewrite !len_app, !len_be_encode. reflexivity.
Qed.

Lemma offset_roundtrip : forall a, a mod 8 = 0 -> a < 34359738368 -> to_actual_offset (to_offset a) = a.
Proof. intros a H1 H2. unfold to_actual_offset, to_offset. lia. Qed.
