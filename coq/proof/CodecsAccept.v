(* More proofs about model/Codecs.v (C08): the known findings (key 0, TTL integers), what the
   decoders accept (ParseFileIdFromString, ParsePath, ReadSuperBlock as exact characterisations),
   the guarded SuperBlock.Bytes, and offsets / index entries for both offset widths. *)
From Coq Require Import List NArith ZArith Bool Lia ZifyBool ZifyN ZifyNat.
From SW Require Import model.Needle model.Codecs proof.NeedleProofs proof.CodecsProofs.
Import ListNotations.
Local Open Scope N_scope.
Ltac Zify.zify_post_hook ::= Z.div_mod_to_equations.

(* ---------- needle key 0 (former finding 0, repaired in the working tree) ---------- *)
(* formatNeedleIdCookie now keeps one key byte: key 0 prints as "00" followed by the cookie *)
Lemma format_key0 : forall cookie, format_key_cookie 0 cookie = [48; 48] ++ hex_of_bytes (be_encode 4 cookie).
Proof. intros. rewrite format_key_cookie_split. reflexivity. Qed.

Lemma len_format_key0 : forall cookie, len (format_key_cookie 0 cookie) = 10.
Proof. intros. rewrite format_key0, len_app, len_hex_of_bytes, len_be_encode. reflexivity. Qed.

(* the string of a file id with key 0 parses back to it, whatever the volume and cookie *)
Lemma file_id_key0 : forall vid cookie, vid < 2 ^ 32 -> cookie < 2 ^ 32 ->
  parse_file_id (fid_string vid 0 cookie) = Some (vid, 0, cookie).
Proof. intros vid cookie Hv Hc. apply file_id_roundtrip; try assumption. reflexivity. Qed.

Lemma parse_path_key0 : forall cookie, cookie < 2 ^ 32 -> parse_path (format_key_cookie 0 cookie) = Some (0, cookie).
Proof. intros cookie Hc. apply parse_path_plain; [reflexivity|assumption]. Qed.

(* the printed key part is never empty and never longer than 16 digits: 10..24 characters in all *)
Lemma len_format_range : forall key cookie, 10 <= len (format_key_cookie key cookie) <= 24.
Proof.
  intros key cookie. rewrite format_key_cookie_split, len_app, !len_hex_of_bytes, len_be_encode.
  pose proof (key_part_len key). lia.
Qed.

(* ---------- what ParseFileIdFromString accepts ---------- *)
Lemma index_of_spec : forall c s i j, index_of c s i = Some j ->
  i <= j /\ exists a b, s = a ++ c :: b /\ len a = j - i /\ ~ In c a.
Proof.
  intros c s. induction s as [|x r IH]; intros i j H; [discriminate|].
  cbn [index_of] in H. destruct (x =? c) eqn:E.
  - inversion H; subst j. apply N.eqb_eq in E. subst x. split; [lia|].
    exists [], r. split; [reflexivity|]. split; [rewrite len_nil; lia|intros []].
  - apply IH in H. destruct H as [Hle [a [b [Hs [Hl Hn]]]]]. split; [lia|].
    exists (x :: a), b. subst r. split; [reflexivity|]. split; [rewrite len_cons; lia|].
    intros [Hx|Hin]; [apply N.eqb_neq in E; congruence|contradiction].
Qed.

(* an accepted file id is  <decimal volume id < 2^32, non-empty> , <accepted key/cookie string>
   split at the FIRST comma *)
Lemma parse_file_id_sound : forall s vid key cookie, parse_file_id s = Some (vid, key, cookie) ->
  exists vs ks, s = vs ++ 44 :: ks /\ ~ In 44 vs /\ vs <> [] /\ dec_val vs 0 = Some vid /\ vid < 2 ^ 32 /\
                parse_key_cookie ks = Some (key, cookie).
Proof.
  intros s vid key cookie H. unfold parse_file_id in H.
  destruct (index_of 44 s 0) as [ci|] eqn:Ei; [|discriminate].
  destruct (ci =? 0) eqn:E0; [discriminate|].
  destruct (new_volume_id (takeN ci s)) as [v|] eqn:Ev; [|discriminate].
  destruct (parse_key_cookie (dropN (ci + 1) s)) as [[k ck]|] eqn:Ek; [|discriminate].
  inversion H; subst v k ck. clear H.
  apply index_of_spec in Ei. destruct Ei as [_ [a [b [Hs [Hl Hn]]]]].
  replace (ci - 0) with ci in Hl by lia. subst s.
  rewrite takeN_app in Ev by assumption.
  change (a ++ 44 :: b) with (a ++ [44] ++ b) in Ek.
  rewrite app_assoc, dropN_app in Ek by (rewrite len_app, Hl; reflexivity).
  apply volume_id_reject in Ev. destruct Ev as [Hne [Hd Hlt]].
  exists a, b. split; [reflexivity|]. split; [assumption|]. split; [assumption|].
  split; [assumption|]. split; assumption.
Qed.

(* ---------- what Needle.ParsePath accepts ---------- *)
Lemma last_index_spec : forall c s i found,
  match last_index_of c s i found with
  | None => found = None /\ ~ In c s
  | Some j => (found = Some j /\ ~ In c s) \/
              (i <= j /\ exists a b, s = a ++ c :: b /\ len a = j - i /\ ~ In c b)
  end.
Proof.
  intros c s. induction s as [|x r IH]; intros i found; cbn [last_index_of].
  - destruct found; [left|]; (split; [reflexivity|intros []]).
  - specialize (IH (i + 1) (if x =? c then Some i else found)).
    destruct (last_index_of c r (i + 1) (if x =? c then Some i else found)) as [j|].
    + destruct IH as [[Hf Hn] | [Hle [a [b [Hs [Hl Hn]]]]]].
      * destruct (x =? c) eqn:E.
        -- right. inversion Hf; subst j. apply N.eqb_eq in E. subst x. split; [lia|].
           exists [], r. split; [reflexivity|]. split; [rewrite len_nil; lia|assumption].
        -- left. split; [assumption|].
           intros [Hx|Hin]; [apply N.eqb_neq in E; congruence|contradiction].
      * right. split; [lia|]. exists (x :: a), b. subst r. split; [reflexivity|].
        split; [rewrite len_cons; lia|assumption].
    + destruct IH as [Hf Hn]. destruct (x =? c) eqn:E; [discriminate|]. split; [assumption|].
      intros [Hx|Hin]; [apply N.eqb_neq in E; congruence|contradiction].
Qed.

(* an accepted path is an accepted key/cookie string, or  <accepted key/cookie string> _ <delta>
   split at the LAST underscore, where the delta is empty (then ignored) or a decimal number
   below 2^64 which is added to the key modulo 2^64 *)
Lemma parse_path_sound : forall s k ck, parse_path s = Some (k, ck) ->
  8 < len s /\
  (parse_key_cookie s = Some (k, ck) \/
   exists f d k0, s = f ++ 95 :: d /\ f <> [] /\ ~ In 95 d /\ parse_key_cookie f = Some (k0, ck) /\
     ((d = [] /\ k = k0) \/
      (d <> [] /\ exists dv, dec_val d 0 = Some dv /\ dv < 2 ^ 64 /\ k = (k0 + dv) mod 18446744073709551616))).
Proof.
  intros s k ck H. unfold parse_path in H.
  destruct (len s <=? 8) eqn:E; [discriminate|]. split; [lia|].
  pose proof (last_index_spec 95 s 0 None) as L.
  destruct (last_index_of 95 s 0 None) as [di|].
  - destruct L as [[Hf _] | [_ [a [b [Hs [Hl Hn]]]]]]; [discriminate|].
    replace (di - 0) with di in Hl by lia.
    destruct (0 <? di) eqn:Ed.
    + subst s. rewrite takeN_app in H by assumption.
      change (a ++ 95 :: b) with (a ++ [95] ++ b) in H.
      rewrite app_assoc, dropN_app in H by (rewrite len_app, Hl; reflexivity).
      destruct (parse_key_cookie a) as [[k0 c0]|] eqn:Ek; [|discriminate].
      assert (Ha : a <> []) by (intro Ea; subst a; rewrite len_nil in Hl; lia).
      destruct b as [|y b'].
      * inversion H; subst k0 c0. right. exists a, [], k. split; [reflexivity|].
        split; [assumption|]. split; [assumption|]. split; [assumption|]. left. split; reflexivity.
      * destruct (parse_uint_dec 64 (y :: b')) as [dv|] eqn:Edv; [|discriminate].
        inversion H; subst k c0. apply parse_uint_dec_sound in Edv. destruct Edv as [_ [Hd Hlt]].
        right. exists a, (y :: b'), k0. split; [reflexivity|].
        split; [assumption|]. split; [assumption|]. split; [assumption|]. right.
        split; [discriminate|]. exists dv. split; [assumption|]. split; [assumption|reflexivity].
    + destruct (parse_key_cookie s) as [[k0 c0]|] eqn:Ek; [|discriminate].
      inversion H; subst. left. reflexivity.
  - destruct (parse_key_cookie s) as [[k0 c0]|] eqn:Ek; [|discriminate].
    inversion H; subst. left. reflexivity.
Qed.

(* ---------- finding 1: TTL integers; TTL bytes ---------- *)
(* the integers LoadTTLFromUint32 decodes to a TTL whose ToUint32 is that integer again are
   exactly those outside the trigger set: below 2^16 and, when the count byte is 0, equal to 0 *)
Lemma ttl_u32_accept_iff : forall x, ttl_to_u32 (load_ttl_u32 x) = x <-> trig_ttl_u32 x = false.
Proof.
  intros x. unfold trig_ttl_u32, ttl_to_u32, load_ttl_u32.
  destruct ((x / 256) mod 256 =? 0) eqn:E; split; intro H; lia.
Qed.

Lemma ttl_u32_refuted : exists x, x < 2 ^ 32 /\ ttl_to_u32 (load_ttl_u32 x) <> x /\ load_ttl_u32 x = (5, 1).
Proof. exists 66817. repeat split; try reflexivity. vm_compute. discriminate. Qed.

(* every pair of bytes is the encoding of exactly one (count, unit): nothing to reject,
   unknown units (7..255) included *)
Lemma ttl_bytes_accept_all : forall a b, ttl_to_bytes (load_ttl_bytes [a; b]) = [a; b].
Proof. reflexivity. Qed.

(* ---------- super block: exact acceptance; guarded Bytes ---------- *)
Lemma sb_read_iff : forall pb file s, sb_read pb file = Some s <->
  (8 <= len file /\ rp_from_byte (nth 1 file 0) = Some (sb_rp s) /\
   sb_version s = nth 0 file 0 /\ sb_ttl s = (nth 2 file 0, nth 3 file 0) /\
   sb_compaction s = be_decode (takeN 2 (dropN 4 file)) /\
   let extra_size := be_decode (takeN 2 (dropN 6 file)) in
   (if 0 <? extra_size
    then len (takeN extra_size (dropN 8 file)) = extra_size /\ pb (takeN extra_size (dropN 8 file)) = Some (sb_extra s)
    else sb_extra s = [])).
Proof.
  intros pb file s. split; [apply sb_read_sound|].
  intros (H8 & Hrp & Hv & Ht & Hc & Hx). unfold sb_read.
  destruct (len file <? 8) eqn:E; [lia|]. rewrite Hrp. cbv zeta. cbv zeta in Hx.
  destruct (0 <? be_decode (takeN 2 (dropN 6 file))) eqn:Ex.
  - destruct Hx as [Hl Hp]. rewrite Hl, N.ltb_irrefl, Hp.
    destruct s as [v r t c e]. cbn [sb_version sb_rp sb_ttl sb_compaction sb_extra] in *. subst. reflexivity.
  - destruct s as [v r t c e]. cbn [sb_version sb_rp sb_ttl sb_compaction sb_extra] in *. subst. reflexivity.
Qed.

(* no constraint on the version byte nor on the two TTL bytes *)
Lemma sb_read_any_version : forall pb v c u,
  sb_read pb [v; 0; c; u; 0; 0; 0; 0] =
    Some {| sb_version := v; sb_rp := (0, 0, 0); sb_ttl := (c, u); sb_compaction := 0; sb_extra := [] |}.
Proof. reflexivity. Qed.

Lemma sb_bytes_checked_none : forall s, sb_bytes_checked s = None <-> 65534 < len (sb_extra s).
Proof.
  intros s. unfold sb_bytes_checked, sb_extra_max.
  destruct (65534 <? len (sb_extra s)) eqn:E; split; intro H; try reflexivity; try discriminate; lia.
Qed.

Lemma sb_roundtrip_checked : forall pb s b tail, sb_ok s -> sb_bytes_checked s = Some b ->
  (sb_has_extra s = true -> pb (sb_extra s) = Some (sb_extra s)) ->
  sb_read pb (b ++ tail) = Some s.
Proof.
  intros pb s b tail Hok Hb Hpb. unfold sb_bytes_checked, sb_extra_max in Hb.
  destruct (65534 <? len (sb_extra s)) eqn:E; [discriminate|]. inversion Hb; subst b.
  apply sb_roundtrip; try assumption. lia.
Qed.

(* ---------- offsets and index entries, offset width 4 or 5 ---------- *)
Lemma nth4_be_encode4 : forall v h, nth 4 (be_encode 4 v ++ [h]) 0 = h.
Proof.
  intros v h. assert (Hlen : length (be_encode 4 v) = 4%nat).
  { pose proof (len_be_encode 4 v) as H. unfold len in H. lia. }
  pose proof (nth_middle (be_encode 4 v) [] h 0) as Hn. rewrite Hlen in Hn. exact Hn.
Qed.

Lemma off_roundtrip : forall osz off, osz = 4 \/ osz = 5 -> off < off_limit osz ->
  off_parse osz (off_bytes osz off) = off /\ len (off_bytes osz off) = osz.
Proof.
  intros osz off [-> | ->] H; unfold off_parse, off_bytes, off_limit in *.
  - change (4 =? 5) with false in *. cbv iota in *. rewrite app_nil_r.
    rewrite takeN_all by apply len_be_encode. rewrite be_decode_encode_mod, len_be_encode.
    change (256 ^ N.of_nat 4) with 4294967296. split; [lia|reflexivity].
  - change (5 =? 5) with true in *. cbv iota in *.
    rewrite takeN_app by apply len_be_encode. rewrite nth4_be_encode4, be_decode_encode_mod.
    rewrite len_app, len_be_encode. change (256 ^ N.of_nat 4) with 4294967296. split; [lia|reflexivity].
Qed.

Lemma idx_roundtrip_w : forall osz key off size, osz = 4 \/ osz = 5 -> key < 2 ^ 64 -> off < off_limit osz ->
  (- 2147483648 <= size < 2147483648)%Z ->
  idx_parse_w osz (idx_bytes_w osz key off size) = (key, off, size) /\
  len (idx_bytes_w osz key off size) = 12 + osz.
Proof.
  intros osz key off size Hosz Hk Ho Hs. destruct (off_roundtrip osz off Hosz Ho) as [Hp Hl].
  unfold idx_parse_w, idx_bytes_w. split.
  - rewrite takeN_app by apply len_be_encode.
    rewrite dropN_app by apply len_be_encode.
    rewrite takeN_app by exact Hl. rewrite Hp.
    rewrite (app_assoc (be_encode 8 key)).
    rewrite dropN_app by (rewrite len_app, len_be_encode, Hl; reflexivity).
    rewrite takeN_all by apply len_be_encode.
    rewrite !be_decode_encode by (assumption || apply of_int32_lt).
    rewrite int32_roundtrip by assumption. reflexivity.
  - rewrite !len_app, !len_be_encode, Hl. change (N.of_nat 8) with 8. change (N.of_nat 4) with 4. lia.
Qed.

(* with 4 bytes the width-indexed definitions are the original ones *)
Lemma idx_bytes_w4 : forall key off size, off < 2 ^ 32 -> idx_bytes_w 4 key off size = idx_bytes key off size.
Proof.
  intros key off size H. unfold idx_bytes_w, idx_bytes, off_bytes. change (4 =? 5) with false. cbv iota.
  rewrite app_nil_r, N.mod_small by exact H. reflexivity.
Qed.

Lemma to_offset_w4 : forall a, to_offset_w 4 a = to_offset a.
Proof. reflexivity. Qed.

(* ToActualOffset(ToOffset(a)) = a exactly for the multiples of 8 below MaxPossibleVolumeSize *)
Lemma offset_roundtrip_iff : forall osz a, osz = 4 \/ osz = 5 ->
  (to_actual_offset (to_offset_w osz a) = a <-> a mod 8 = 0 /\ a < max_volume_size osz).
Proof.
  intros osz a [-> | ->]; unfold to_actual_offset, to_offset_w, max_volume_size, off_limit.
  - change (4 =? 5) with false. cbv iota. split; intro H; lia.
  - change (5 =? 5) with true. cbv iota. split; intro H; lia.
Qed.

(* ---------- concrete examples (non-vacuity) ---------- *)
Lemma example_ok :
  fid_string 3 1 1668298710 = [51; 44; 48; 49; 54; 51; 55; 48; 51; 55; 100; 54]   (* "3,01637037d6" *)
  /\ parse_file_id [51; 44; 48; 49; 54; 51; 55; 48; 51; 55; 100; 54] = Some (3, 1, 1668298710)
  /\ read_ttl [49; 53; 100] = Some (15, 3) /\ ttl_string (15, 3) = [49; 53; 100]     (* "15d" *)
  /\ sb_read (fun b => Some b)
       (sb_bytes {| sb_version := 3; sb_rp := (0, 1, 2); sb_ttl := (15, 3); sb_compaction := 7; sb_extra := [10; 9; 8] |} ++ [1; 2])
     = Some {| sb_version := 3; sb_rp := (0, 1, 2); sb_ttl := (15, 3); sb_compaction := 7; sb_extra := [10; 9; 8] |}
  /\ sb_read (fun b => Some b) [3; 12; 15; 3; 0; 7; 0; 3; 10; 9] = None      (* truncated extra *)
  /\ idx_parse (idx_bytes 5 9 (-1)) = (5, 9, (-1)%Z).
Proof. vm_compute. repeat split; reflexivity. Qed.

Lemma example_more :
  fid_string 3 0 1668298710 = [51; 44; 48; 48; 54; 51; 55; 48; 51; 55; 100; 54]   (* "3,00637037d6": key 0 keeps one key byte (repaired) *)
  /\ parse_file_id [51; 44; 48; 48; 54; 51; 55; 48; 51; 55; 100; 54] = Some (3, 0, 1668298710)
  /\ parse_file_id [51; 44; 54; 51; 55; 48; 51; 55; 100; 54] = None                   (* "3,637037d6", what the unrepaired code printed *)
  /\ format_key_cookie 0 0 = [48; 48; 48; 48; 48; 48; 48; 48; 48; 48]
  /\ parse_path [48; 48; 48; 48; 48; 48; 48; 48; 48; 48] = Some (0, 0)
  /\ parse_path [48; 49; 54; 51; 55; 48; 51; 55; 100; 54; 95; 50] = Some (3, 1668298710)       (* "01637037d6_2" *)
  /\ parse_path [48; 49; 54; 51; 55; 48; 51; 55; 100; 54; 95] = Some (1, 1668298710)           (* "01637037d6_" *)
  /\ parse_path [48; 49; 54; 51; 55; 48; 51; 55; 100; 54; 95; 43; 49] = None                   (* "01637037d6_+1" *)
  /\ parse_file_id [51; 44; 44; 48; 49; 54; 51; 55; 48; 51; 55; 100; 54] = None                (* "3,,01637037d6" *)
  /\ load_ttl_u32 66817 = (5, 1) /\ ttl_to_u32 (5, 1) = 1281 /\ trig_ttl_u32 66817 = true      (* 0x10501 *)
  /\ load_ttl_u32 5 = (0, 5) /\ ttl_to_u32 (0, 5) = 0 /\ trig_ttl_u32 5 = true
  /\ trig_ttl_u32 1281 = false /\ trig_ttl_u32 0 = false
  /\ load_ttl_bytes [5; 9] = (5, 9) /\ ttl_string (5, 9) = []                                 (* unknown unit: prints as "" *)
  /\ sb_bytes_checked {| sb_version := 3; sb_rp := (0, 1, 2); sb_ttl := (15, 3); sb_compaction := 7; sb_extra := [10; 9; 8] |}
     = Some [3; 12; 15; 3; 0; 7; 0; 3; 10; 9; 8]
  /\ idx_parse_w 5 (idx_bytes_w 5 5 1099511627775 (-1)) = (5, 1099511627775, (-1)%Z)
  /\ idx_bytes_w 5 5 4294967297 7 = [0; 0; 0; 0; 0; 0; 0; 5; 0; 0; 0; 1; 1; 0; 0; 0; 7]
  /\ to_actual_offset (to_offset_w 5 34359738368) = 34359738368                              (* 32 GiB fits in 5 bytes *)
  /\ to_actual_offset (to_offset_w 4 34359738368) = 0                                        (* and wraps in 4 *)
  /\ to_actual_offset (to_offset_w 5 8796093022208) = 0.                                     (* 8 TiB wraps in 5 *)
Proof. vm_compute. repeat split; reflexivity. Qed.
