(* Proofs about model/VolPlanner.v (C15), part 7: volumeServer.evacuate. *)
From Coq Require Import List NArith ZArith Bool Arith Lia Permutation.
From SW Require Import model.VolPlanner proof.VolPlannerProofs proof.VolPlannerProofs2
  proof.VolPlannerProofs3 proof.VolPlannerProofs4 proof.VolPlannerProofs5 proof.VolPlannerProofs6.
Import ListNotations.

Lemma others_in : forall s this n, In n (others_of s this) -> In n s /\ n_id n <> this.
Proof.
  intros s this n H. unfold others_of in H. apply filter_In in H. destruct H as [H1 H2].
  apply negb_true_iff in H2. apply N.eqb_neq in H2. auto.
Qed.

Lemma evac_target_facts : forall s w this v to, evac_target_ok s w this v to = true ->
  exists t, In t s /\ n_id t = to /\ to <> l_node this /\
            movable w (vols_of_dt t (v_dt v)) v this (n_loc t) = true.
Proof.
  intros s w this v to H. unfold evac_target_ok in H.
  destruct (find (fun n => (n_id n =? to)%N) (others_of s (l_node this))) as [t|] eqn:E; [|discriminate].
  apply find_some in E. destruct E as [Ht Eid]. apply N.eqb_eq in Eid. apply others_in in Ht.
  apply andb_true_iff in H. destruct H as [Hm _].
  exists t. repeat split; try tauto. subst to. tauto.
Qed.

(* ---------- no colocation, placement preserved ---------- *)
Lemma evac_run_safe : forall s this skip vs evs w,
  NoDup (map n_id s) -> In this (cl s) ->
  WInv s w -> NodesOk w ->
  NoDup (map v_id vs) ->
  (forall v, In v vs -> In {| r_loc := this; r_info := v |} (w_reps w (v_id v))) ->
  (forall v, In v vs -> exists n0, In n0 s /\ In v (all_vols n0)) ->
  evac_run s this skip w vs evs = true ->
  ok_coloc (prop_trace s w (evac_steps (l_node this) evs)) = true /\
  (trig_rp_xy s = false -> ok_pres (prop_trace s w (evac_steps (l_node this) evs)) = true).
Proof.
  intros s this skip vs. induction vs as [|v vs IH]; intros evs w Hnd Hthis HW HN Hvs Hin Hsrc H.
  - destruct evs; [|discriminate]. cbn. auto.
  - cbn [map] in Hvs. inversion Hvs as [|? ? Hnv Hdv]; subst.
    destruct evs as [|e evs]; [discriminate|].
    destruct e as [vid dt to|vid|vid]; cbn [evac_run] in H.
    + (* EMove *)
      repeat (apply andb_true_iff in H; destruct H as [H ?]).
      match goal with X : evac_run _ _ _ _ _ _ = true |- _ => rename X into Hrec end.
      match goal with X : evac_target_ok _ _ _ _ _ = true |- _ => rename X into Htg end.
      apply N.eqb_eq in H. subst vid.
      destruct (evac_target_facts _ _ _ _ _ Htg) as [t [Ht [Etid [Hne Hmov]]]].
      assert (loc_of s (l_node this) = this) as Efl by (apply loc_of_cl; auto).
      assert (loc_of s to = n_loc t) as Etl by (rewrite <- Etid; apply loc_of_in; auto).
      unfold movable in Hmov. apply andb_true_iff in Hmov. destruct Hmov as [Hg _].
      destruct (move_step_safe s w dt (l_node this) to v Hnd HW HN) as [Hc [Hp [HW' [HN' [_ [_ Hoth]]]]]]; auto.
      { rewrite Etl. unfold cl. apply in_map; auto. }
      { rewrite Efl. apply Hin. left; auto. }
      { unfold move_guard. rewrite Efl, Etl. exact Hg. }
      set (w' := apply_step s w (Move (v_id v) dt (l_node this) to)) in *.
      destruct (IH evs w') as [Hc2 Hp2]; auto.
      { intros x Hx. rewrite Hoth; [apply Hin; right; auto|].
        intro E. apply Hnv. rewrite <- E. apply in_map; auto. }
      { intros x Hx. apply Hsrc. right; auto. }
      cbn [evac_steps flat_map app]. fold (evac_steps (l_node this) evs).
      rewrite prop_trace_cons. fold w'. unfold v4_and. cbn [ok_coloc ok_pres]. split.
      * rewrite Hc, Hc2. reflexivity.
      * intros Htr. rewrite Hp, (Hp2 Htr); auto.
        destruct (Hsrc v (or_introl eq_refl)) as [n0 [Hn0 Hv0]]. eapply no_rp_trig; eauto.
    + (* ESkip *)
      repeat (apply andb_true_iff in H; destruct H as [H ?]).
      match goal with X : evac_run _ _ _ _ _ _ = true |- _ => rename X into Hrec end.
      cbn [evac_steps flat_map app]. fold (evac_steps (l_node this) evs).
      apply IH; auto.
      * intros x Hx. apply Hin. right; auto.
      * intros x Hx. apply Hsrc. right; auto.
    + (* EFail *)
      destruct evs; [|discriminate]. cbn. auto.
Qed.

(* ---------- free slots ---------- *)
Local Open Scope Z_scope.
Definition cnt_dt (vs : list vol) (dt : N) : Z := Z.of_nat (length (filter (fun v => (v_dt v =? dt)%N) vs)).

Lemma cnt_dt_cons : forall v vs dt, cnt_dt (v :: vs) dt = (if (v_dt v =? dt)%N then 1 else 0) + cnt_dt vs dt.
Proof. intros. unfold cnt_dt. cbn [filter]. destruct (v_dt v =? dt)%N; cbn [length]; lia. Qed.
Lemma cnt_dt_nonneg : forall vs dt, 0 <= cnt_dt vs dt.
Proof. intros. unfold cnt_dt. lia. Qed.

Definition EvacCap (s : snapshot) (this : N) (w : world) (vs : list vol) : Prop :=
  forall n dt, In n s -> n_id n <> this -> 0 < cnt_dt vs dt ->
    w_occ w (n_id n) dt + cnt_dt vs dt <= max_of s (n_id n) dt.

Lemma evac_run_cap : forall s this skip vs evs w,
  EvacCap s (l_node this) w vs ->
  evac_run s this skip w vs evs = true ->
  ok_cap (prop_trace s w (evac_steps (l_node this) evs)) = true.
Proof.
  intros s this skip vs. induction vs as [|v vs IH]; intros evs w Hinv H.
  - destruct evs; [|discriminate]. reflexivity.
  - destruct evs as [|e evs]; [discriminate|].
    destruct e as [vid dt to|vid|vid]; cbn [evac_run] in H.
    + repeat (apply andb_true_iff in H; destruct H as [H ?]).
      match goal with X : evac_run _ _ _ _ _ _ = true |- _ => rename X into Hrec end.
      match goal with X : evac_target_ok _ _ _ _ _ = true |- _ => rename X into Htg end.
      match goal with X : (dt =? v_dt v)%N = true |- _ => rename X into Hdt end.
      apply N.eqb_eq in H. apply N.eqb_eq in Hdt. subst vid dt.
      destruct (evac_target_facts _ _ _ _ _ Htg) as [t [Ht [Etid [Hne _]]]].
      cbn [evac_steps flat_map app]. fold (evac_steps (l_node this) evs).
      rewrite prop_trace_cons. unfold v4_and. cbn [ok_cap].
      apply andb_true_iff. split.
      * cbn [prop_step ok_cap]. apply Z.ltb_lt.
        assert (0 < cnt_dt (v :: vs) (v_dt v)) as Hpos.
        { rewrite cnt_dt_cons, N.eqb_refl. pose proof (cnt_dt_nonneg vs (v_dt v)). lia. }
        pose proof (Hinv t (v_dt v) Ht (eq_ind_r (fun x => x <> l_node this) Hne Etid) Hpos) as Hi.
        rewrite Etid in Hi. lia.
      * apply IH; auto. intros n dt Hn Hnid Hpos.
        assert (0 < cnt_dt (v :: vs) dt) as Hpos' by (rewrite cnt_dt_cons; destruct (v_dt v =? dt)%N; lia).
        pose proof (Hinv n dt Hn Hnid Hpos') as Hi. rewrite cnt_dt_cons in Hi.
        cbn [apply_step w_occ].
        destruct (N.eq_dec (n_id n) to) as [E1|E1]; [destruct (N.eq_dec dt (v_dt v)) as [E2|E2]|].
        -- subst dt. rewrite E1, upd2_same, upd2_other by (left; congruence).
           rewrite N.eqb_refl in Hi. rewrite E1 in Hi. lia.
        -- rewrite upd2_other by (right; auto). rewrite upd2_other by (left; auto).
           destruct (N.eqb_spec (v_dt v) dt); [congruence|]. lia.
        -- rewrite upd2_other by (left; auto). rewrite upd2_other by (left; auto).
           destruct (v_dt v =? dt)%N; lia.
    + repeat (apply andb_true_iff in H; destruct H as [H ?]).
      match goal with X : evac_run _ _ _ _ _ _ = true |- _ => rename X into Hrec end.
      cbn [evac_steps flat_map app]. fold (evac_steps (l_node this) evs).
      apply IH; auto. intros n dt Hn Hnid Hpos.
      assert (0 < cnt_dt (v :: vs) dt) as Hpos' by (rewrite cnt_dt_cons; destruct (v_dt v =? dt)%N; lia).
      pose proof (Hinv n dt Hn Hnid Hpos') as Hi. rewrite cnt_dt_cons in Hi. destruct (v_dt v =? dt)%N; lia.
    + destruct evs; [|discriminate]. reflexivity.
Qed.
Local Close Scope Z_scope.

(* ---------- the disks of the evacuated server in any order ---------- *)
Lemma insert_all_perm : forall {A} (x : A) l y, In y (insert_all x l) -> Permutation (x :: l) y.
Proof.
  induction l as [|a l IH]; intros y Hy; cbn [insert_all] in Hy.
  - destruct Hy as [<-|[]]. apply Permutation_refl.
  - destruct Hy as [<-|Hy]; [apply Permutation_refl|].
    apply in_map_iff in Hy. destruct Hy as [z [<- Hz]].
    eapply perm_trans; [apply perm_swap|]. apply perm_skip. apply IH; auto.
Qed.

Lemma perms_perm : forall {A} (l p : list A), In p (perms l) -> Permutation l p.
Proof.
  induction l as [|a l IH]; intros p Hp; cbn [perms] in Hp.
  - destruct Hp as [<-|[]]. constructor.
  - apply in_flat_map in Hp. destruct Hp as [q [Hq Hp]].
    eapply perm_trans; [apply perm_skip; apply IH; exact Hq|]. apply insert_all_perm; auto.
Qed.

Theorem evac_accepts_safe : forall s this skip evs,
  wf_snap s -> evac_accepts s this skip evs = true ->
  ok_coloc (prop_trace s (init_world s) (evac_steps this evs)) = true /\
  (trig_rp_xy s = false -> ok_pres (prop_trace s (init_world s) (evac_steps this evs)) = true).
Proof.
  intros s this skip evs Hwf H. unfold evac_accepts in H.
  destruct (find_node s this) as [n|] eqn:En; [|discriminate].
  apply find_node_some in En. destruct En as [Hn Eid].
  apply existsb_exists in H. destruct H as [ds [Hds Hrun]].
  apply perms_perm in Hds.
  assert (Permutation (all_vols n) (flat_map d_vols ds)) as HP by (apply Permutation_flat_map; auto).
  destruct Hwf as [Hnd Hvids].
  assert (l_node (n_loc n) = this) as El by exact Eid. rewrite <- El.
  apply (evac_run_safe s (n_loc n) skip (flat_map d_vols ds) evs (init_world s)); auto.
  - unfold cl. apply in_map; auto.
  - apply init_WInv.
  - apply init_NodesOk. split; auto.
  - eapply Permutation_NoDup; [apply Permutation_map; exact HP|]. apply Hvids; auto.
  - intros v Hv. apply init_rest; auto. eapply Permutation_in; [apply Permutation_sym; exact HP|auto].
  - intros v Hv. exists n. split; auto. eapply Permutation_in; [apply Permutation_sym; exact HP|auto].
Qed.

Theorem evac_accepts_capacity : forall s this skip evs,
  NoDup (map n_id s) -> trig_evac_cap s this = false -> evac_accepts s this skip evs = true ->
  ok_cap (prop_trace s (init_world s) (evac_steps this evs)) = true.
Proof.
  intros s this skip evs Hnd Htr H. unfold evac_accepts in H. unfold trig_evac_cap in Htr.
  destruct (find_node s this) as [t|] eqn:En; [|discriminate].
  apply find_node_some in En. destruct En as [Ht Eid].
  apply existsb_exists in H. destruct H as [ds [Hds Hrun]].
  apply perms_perm in Hds.
  assert (Permutation (all_vols t) (flat_map d_vols ds)) as HP by (apply Permutation_flat_map; auto).
  assert (l_node (n_loc t) = this) as El by exact Eid. rewrite <- El.
  apply (evac_run_cap s (n_loc t) skip (flat_map d_vols ds) evs); auto.
  intros n dt Hn Hnid Hpos. rewrite El in Hnid.
  (* some volume of the evacuated server has this disk type *)
  unfold cnt_dt in Hpos.
  destruct (filter (fun v => (v_dt v =? dt)%N) (flat_map d_vols ds)) as [|v0 r] eqn:Ef; [cbn in Hpos; lia|].
  assert (In v0 (filter (fun v => (v_dt v =? dt)%N) (flat_map d_vols ds))) as Hv0 by (rewrite Ef; left; auto).
  apply filter_In in Hv0. destruct Hv0 as [Hv0 Edt]. apply N.eqb_eq in Edt.
  assert (In v0 (all_vols t)) as Hv0t by (eapply Permutation_in; [apply Permutation_sym; exact HP|auto]).
  assert (cnt_dt (flat_map d_vols ds) dt = Z.of_nat (length (vols_of_dt t dt))) as Ec.
  { unfold cnt_dt, vols_of_dt. f_equal. apply Permutation_length. apply filter_perm. apply Permutation_sym; auto. }
  rewrite Ec.
  destruct (Z.ltb_spec (cap_max n dt) (w_occ (init_world s) (n_id n) dt + Z.of_nat (length (vols_of_dt t dt)))) as [Hlt|Hge].
  - exfalso. assert (existsb (fun n => existsb (fun v =>
        (cap_max n (v_dt v) <? w_occ (init_world s) (n_id n) (v_dt v) + Z.of_nat (length (vols_of_dt t (v_dt v))))%Z)
        (all_vols t)) (others_of s this) = true); [|congruence].
    apply existsb_exists. exists n. split.
    + unfold others_of. apply filter_In. split; auto. apply negb_true_iff. apply N.eqb_neq; auto.
    + apply existsb_exists. exists v0. split; auto. rewrite Edt. apply Z.ltb_lt; auto.
  - unfold max_of. rewrite find_node_in; auto.
Qed.
