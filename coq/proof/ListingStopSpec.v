(* C19 proofs, part 7: what a callback that answers false gets.
   After "fix: a listing callback that returned false is not called again" the stop-aware
   StreamListDirectoryEntries hands its callback exactly the first min(limit, k+1) entries of
   the selection (k = index of the first false answer), for every store, directory and
   request; the gRPC server's loop sends exactly the first [limit] entries.
   Method: a stop-aware store call is [hand] over what the all-true store call visits
   (simulation, level 0); a stopped state satisfies the refill invariant [linv] of part 4 with
   the limit replaced by the number of entries delivered and nothing owed. *)
From Coq Require Import List NArith Bool String Ascii Arith Lia.
From SW Require Import model.Listing proof.ListingBase proof.ListingStore proof.ListingScan proof.ListingPattern
                       proof.ListingProofs proof.ListingStop.
Import ListNotations.
Local Open Scope string_scope.
Local Open Scope list_scope.
Local Notation length := List.length.

(* ================= the answers of the callback ================= *)
(* [n] answers of [ans0] have been consumed, [ans] are left; stop = the last consumed one was the
   first false *)
Definition ans_ok (ans0 : list bool) (n : nat) (ans : list bool) (stop : bool) : Prop :=
  ans = skipn n ans0 /\
  (if stop then 0 < n /\ first_false ans0 = Some (pred n) else all_true (firstn n ans0)).

Lemma first_false_skip : forall n ans k,
  all_true (firstn n ans) -> first_false (skipn n ans) = Some k -> first_false ans = Some (n + k).
Proof.
  unfold all_true. induction n as [|n IH]; intros ans k Ht Hf; [exact Hf|].
  destruct ans as [|a ans]; [discriminate|].
  cbn [firstn forallb] in Ht. apply andb_true_iff in Ht. destruct Ht as [Ha Ht]. subst a.
  cbn [skipn] in Hf. cbn [first_false]. rewrite (IH ans k Ht Hf). reflexivity.
Qed.

Lemma first_false_ge : forall n ans k, all_true (firstn n ans) -> first_false ans = Some k -> n <= k.
Proof.
  unfold all_true. induction n as [|n IH]; intros ans k Ht Hf; [lia|].
  destruct ans as [|a ans]; [discriminate|].
  cbn [firstn forallb] in Ht. apply andb_true_iff in Ht. destruct Ht as [Ha Ht]. subst a.
  cbn [first_false] in Hf. destruct (first_false ans) as [k'|] eqn:Ek; [|discriminate].
  inversion Hf; subst. specialize (IH ans k' Ht Ek). lia.
Qed.

Lemma ans_ok_trans : forall ans0 n a n1 a' st,
  ans_ok ans0 n a false -> ans_ok a n1 a' st -> ans_ok ans0 (n + n1) a' st.
Proof.
  intros ans0 n a n1 a' st [A1 A2] [B1 B2]. subst a. split; [rewrite skipn_add; exact B1|].
  destruct st.
  - destruct B2 as [B2 B3]. split; [lia|].
    rewrite (first_false_skip n ans0 (pred n1) A2 B3). f_equal. lia.
  - unfold all_true in *. rewrite firstn_add, forallb_app, A2, B2. reflexivity.
Qed.

Lemma ans_ok_0 : forall ans, ans_ok ans 0 ans false.
Proof. intros. split; reflexivity. Qed.

(* ================= [hand] ================= *)
Lemma hand_ans : forall ms l ans,
  ans_ok ans (length (filter (passes ms) (h_vis (hand ms l ans)))) (h_ans (hand ms l ans)) (h_stop (hand ms l ans)).
Proof.
  induction l as [|e l IH]; intros ans; cbn [hand]; [apply ans_ok_0|].
  unfold cb_step. destruct (passes ms e) eqn:Ep.
  - destruct ans as [|a ans]; cbn [fst snd].
    + cbn [h_vis h_ans h_stop filter]. rewrite Ep. cbn [length].
      destruct (IH []) as [I1 I2]. split; [rewrite I1; rewrite !skipn_nil; reflexivity|].
      destruct (h_stop (hand ms l [])); [destruct I2 as [_ I2]; discriminate|reflexivity].
    + destruct a.
      * cbn [h_vis h_ans h_stop filter]. rewrite Ep. cbn [length].
        destruct (IH ans) as [I1 I2]. split; [exact I1|].
        destruct (h_stop (hand ms l ans)).
        -- destruct I2 as [I2 I3]. split; [lia|]. cbn [first_false]. rewrite I3. cbn [option_map pred].
           f_equal. lia.
        -- unfold all_true in *. cbn [firstn forallb]. exact I2.
      * cbn [h_vis h_ans h_stop filter]. rewrite Ep. cbn [length]. split; [reflexivity|].
        split; [lia|reflexivity].
  - cbn [fst snd h_vis h_ans h_stop filter]. rewrite Ep. apply IH.
Qed.

Lemma hand_prefix : forall ms l ans,
  exists j, h_vis (hand ms l ans) = firstn j l /\ j <= length l /\
            (h_stop (hand ms l ans) = false -> h_vis (hand ms l ans) = l) /\
            (h_stop (hand ms l ans) = true -> 0 < j).
Proof.
  induction l as [|e l IH]; intros ans; cbn [hand].
  - exists 0. cbn. repeat split; auto. discriminate.
  - destruct (snd (cb_step ms ans e)).
    + destruct (IH (fst (cb_step ms ans e))) as [j [J1 [J2 [J3 J4]]]].
      exists (S j). cbn [h_vis h_stop firstn length]. rewrite J1.
      split; [reflexivity|]. split; [lia|]. split; [|intros; lia].
      intros Hs. rewrite <- J1. rewrite (J3 Hs). reflexivity.
    + exists 1. cbn [h_vis h_stop firstn length]. split; [reflexivity|]. split; [lia|].
      split; [discriminate|lia].
Qed.

Lemma hand_stop_ne : forall ms l ans, h_stop (hand ms l ans) = true -> h_vis (hand ms l ans) <> [].
Proof.
  intros ms l ans H. destruct (hand_prefix ms l ans) as [j [J1 [J2 [_ J4]]]]. specialize (J4 H).
  intro E. rewrite E in J1. assert (Hl : length (firstn j l) = 0) by (rewrite <- J1; reflexivity).
  rewrite firstn_length in Hl. lia.
Qed.

Lemma hand_app : forall ms l1 l2 ans,
  hand ms (l1 ++ l2) ans =
  if h_stop (hand ms l1 ans) then hand ms l1 ans
  else {| h_vis := h_vis (hand ms l1 ans) ++ h_vis (hand ms l2 (h_ans (hand ms l1 ans)));
          h_ans := h_ans (hand ms l2 (h_ans (hand ms l1 ans)));
          h_stop := h_stop (hand ms l2 (h_ans (hand ms l1 ans))) |}.
Proof.
  induction l1 as [|e l1 IH]; intros l2 ans; cbn [app hand].
  - cbn [h_stop h_vis h_ans app]. destruct (hand ms l2 ans); reflexivity.
  - destruct (snd (cb_step ms ans e)); [|reflexivity].
    rewrite IH. cbn [h_stop h_vis h_ans].
    destruct (h_stop (hand ms l1 (fst (cb_step ms ans e)))) eqn:Eh; [rewrite Eh|]; reflexivity.
Qed.

Lemma last_name_app_ne : forall l1 l2, l2 <> [] -> last_name (l1 ++ l2) = last_name l2.
Proof.
  induction l1 as [|x l1 IH]; intros l2 H; [reflexivity|].
  cbn [app]. rewrite last_name_cons; [apply IH; exact H|].
  destruct l1; [exact H|discriminate].
Qed.

(* ================= level 0: a stop-aware store call is [hand] over the all-true one ================= *)
Lemma lvl_iter_s_hand : forall ms l start incl limit p ans,
  lvl_iter_s ms l start incl limit p ans = hand ms (lvl_iter l start incl limit p) ans.
Proof.
  induction l as [|e l IH]; intros start incl limit p ans; cbn [lvl_iter_s lvl_iter]; [reflexivity|].
  destruct (negb (String.prefix p (ename e))); [reflexivity|].
  destruct (String.eqb (ename e) ""); [apply IH|].
  destruct (String.eqb (ename e) start && negb incl); [apply IH|].
  destruct limit as [|limit]; [reflexivity|].
  cbn [hand]. destruct (snd (cb_step ms ans e)); [rewrite IH; reflexivity|reflexivity].
Qed.

Lemma pf_batch_s_hand : forall ms p batch need last ans,
  let r := pf_batch_s ms p need batch last ans in
  let h := hand ms (fst (pf_batch p need batch last)) ans in
  b_em r = h_vis h /\ b_ans r = h_ans h /\ b_stop r = h_stop h /\
  b_last r = if h_stop h then last_name (h_vis h) else snd (pf_batch p need batch last).
Proof.
  induction batch as [|e b IH]; intros need last ans; cbn [pf_batch_s pf_batch]; [cbn; auto|].
  destruct (String.prefix p (ename e)); [|apply IH].
  destruct (snd (cb_step ms ans e)) eqn:Es.
  - destruct need as [|[|n]].
    + cbn [fst snd hand]. rewrite Es. cbn. auto.
    + cbn [fst snd hand]. rewrite Es. cbn. auto.
    + specialize (IH (S n) (ename e) (fst (cb_step ms ans e))). cbv zeta in IH.
      destruct (pf_batch p (S n) b (ename e)) as [em l] eqn:Eb. cbn [fst snd] in *.
      cbn [hand]. rewrite Es. cbn [b_em b_last b_ans b_stop h_vis h_ans h_stop].
      destruct IH as [I1 [I2 [I3 I4]]]. rewrite I1, I2, I3, I4.
      repeat split; auto.
      destruct (h_stop (hand ms em (fst (cb_step ms ans e)))) eqn:Eh; [|reflexivity].
      symmetry. apply last_name_cons. apply hand_stop_ne. exact Eh.
  - assert (E : forall em l, hand ms (fst (e :: em, l : string)) ans =
                             {| h_vis := [e]; h_ans := fst (cb_step ms ans e); h_stop := true |}).
    { intros. cbn [fst hand]. rewrite Es. reflexivity. }
    destruct need as [|[|n]]; try (rewrite E; cbn; auto).
    destruct (pf_batch p (S n) b (ename e)) as [em l]. rewrite E. cbn. auto.
Qed.

Lemma pf_loop_acc : forall fuel d limit p last count batch acc v l,
  pf_loop fuel d limit p last count batch acc = Some (v, l) -> exists t, v = acc ++ t.
Proof.
  induction fuel as [|f IH]; intros d limit p last count batch acc v l H.
  - cbn [pf_loop] in H. destruct (Nat.ltb count limit && negb (is_nil batch)); [discriminate|].
    inversion H; subst. exists []. rewrite app_nil_r. reflexivity.
  - rewrite pf_loop_S in H. destruct (Nat.ltb count limit && negb (is_nil batch)).
    + set (em := fst (pf_batch p (limit - count) batch last)) in *.
      destruct (Nat.ltb (count + length em) limit).
      * apply IH in H. destruct H as [t Ht]. exists (em ++ t). rewrite Ht, app_assoc. reflexivity.
      * inversion H; subst. exists em. reflexivity.
    + inversion H; subst. exists []. rewrite app_nil_r. reflexivity.
Qed.

Lemma pf_loop_s_hand : forall fuel ms d limit p last count batch acc ans0 ans v l,
  pf_loop fuel d limit p last count batch acc = Some (v, l) ->
  h_vis (hand ms acc ans0) = acc -> h_ans (hand ms acc ans0) = ans -> h_stop (hand ms acc ans0) = false ->
  pf_loop_s fuel ms d limit p last count batch acc ans =
  Some (h_vis (hand ms v ans0),
        (if h_stop (hand ms v ans0) then last_name (h_vis (hand ms v ans0)) else l),
        h_ans (hand ms v ans0), h_stop (hand ms v ans0)).
Proof.
  induction fuel as [|f IH]; intros ms d limit p last count batch acc ans0 ans v l H A1 A2 A3.
  - cbn [pf_loop] in H. cbn [pf_loop_s]. destruct (Nat.ltb count limit && negb (is_nil batch)); [discriminate|].
    inversion H; subst. rewrite A1, A3. reflexivity.
  - pose proof H as H0. rewrite pf_loop_S in H. cbn [pf_loop_s].
    destruct (Nat.ltb count limit && negb (is_nil batch)); [|inversion H; subst; rewrite A1, A3; reflexivity].
    destruct (pf_batch_s_hand ms p batch (limit - count) last ans) as [B1 [B2 [B3 B4]]]. cbv zeta in B1, B2, B3, B4.
    set (em := fst (pf_batch p (limit - count) batch last)) in *.
    set (last' := snd (pf_batch p (limit - count) batch last)) in *.
    set (hb := hand ms em ans) in *.
    assert (Happ : hand ms (acc ++ em) ans0 =
                   if h_stop hb then {| h_vis := acc ++ h_vis hb; h_ans := h_ans hb; h_stop := true |}
                   else {| h_vis := acc ++ h_vis hb; h_ans := h_ans hb; h_stop := h_stop hb |}).
    { rewrite hand_app, A3, A1, A2. fold hb. destruct (h_stop hb) eqn:Eh; try rewrite Eh; reflexivity. }
    rewrite B3. destruct (h_stop hb) eqn:Eh.
    + (* the chain returned false in this batch *)
      assert (Hv : exists t, v = (acc ++ em) ++ t).
      { destruct (Nat.ltb (count + length em) limit).
        - apply pf_loop_acc in H. exact H.
        - inversion H; subst. exists []. rewrite app_nil_r. reflexivity. }
      destruct Hv as [t Hv]. rewrite Hv, hand_app, Happ. cbn [h_stop h_vis h_ans].
      rewrite B1, B2, B4; rewrite ?Eh. rewrite last_name_app_ne by (apply hand_stop_ne; exact Eh). reflexivity.
    + destruct (hand_prefix ms em ans) as [j [_ [_ [J3 _]]]]. fold hb in J3. specialize (J3 Eh).
      rewrite B1, B2, B4; rewrite ?Eh, ?J3.
      destruct (Nat.ltb (count + length em) limit).
      * apply (IH ms _ limit p last' _ _ (acc ++ em) ans0 (h_ans hb) v l H); rewrite Happ, J3; reflexivity.
      * inversion H; subst. rewrite Happ, J3. cbn [h_vis h_ans h_stop]. rewrite ?Eh. reflexivity.
Qed.

Lemma wrapper_list_s_hand : forall s ms d start incl L p ans w,
  wrapper_list s d start incl L p = Some w ->
  wrapper_list_s s ms d start incl L p ans =
  Some ({| w_vis := h_vis (hand ms (w_vis w) ans);
           w_last := if h_stop (hand ms (w_vis w) ans) then last_name (h_vis (hand ms (w_vis w) ans)) else w_last w |},
        h_ans (hand ms (w_vis w) ans), h_stop (hand ms (w_vis w) ans)).
Proof.
  intros s ms d start incl L p ans w H. destruct s; cbn [wrapper_list wrapper_list_s] in *.
  - inversion H; subst. cbn [w_vis w_last]. rewrite lvl_iter_s_hand. fold (lvl_list d start incl L p).
    destruct (hand_prefix ms (lvl_list d start incl L p) ans) as [j [_ [_ [J3 _]]]].
    destruct (h_stop (hand ms (lvl_list d start incl L p) ans)); [reflexivity|].
    rewrite (J3 eq_refl). reflexivity.
  - unfold gen_list in H. destruct (String.eqb p "").
    + inversion H; subst. cbn [w_vis w_last].
      destruct (hand_prefix ms (mem_list d start incl L) ans) as [j [_ [_ [J3 _]]]].
      destruct (h_stop (hand ms (mem_list d start incl L) ans)); [reflexivity|].
      rewrite (J3 eq_refl). reflexivity.
    + destruct (pf_loop (S (length d)) d L p (last_name (mem_list d start incl L)) 0 (mem_list d start incl L) [])
        as [[v l]|] eqn:Ep; [|discriminate].
      inversion H; subst. cbn [w_vis w_last].
      rewrite (pf_loop_s_hand _ ms _ _ _ _ _ _ [] ans ans v l Ep); reflexivity.
Qed.

(* ================= a stopped state satisfies the refill invariant with nothing owed ================= *)
Lemma firstn_filter_prefix : forall {A} (f : A -> bool) m (c : list A),
  firstn (length (filter f (firstn m c))) (filter f c) = filter f (firstn m c).
Proof.
  intros. rewrite (filter_firstn_skipn f m c).
  rewrite firstn_app, Nat.sub_diag, firstn_all. cbn [firstn]. rewrite app_nil_r. reflexivity.
Qed.

Lemma length_filter_firstn_le : forall {A} (f : A -> bool) m (c : list A),
  length (filter f (firstn m c)) <= length (filter f c).
Proof. intros. rewrite (filter_firstn_skipn f m c). rewrite app_length. lia. Qed.

Lemma linv_stop_intro : forall f d0 c p r m,
  r_names r = map ename (filter f (firstn m c)) ->
  r_dir r = del_expired (firstn m c) d0 ->
  (r_last r <> "" -> cand (r_last r) false p (r_dir r) = skipn m c) ->
  (r_last r = "" -> firstn m c = []) ->
  r_count r = 0 ->
  linv f d0 c p (length (r_names r)) r m.
Proof.
  intros f d0 c p r m H1 H2 H3 H4 H5. unfold linv. rewrite H5.
  split; [exact H1|]. split; [exact H2|]. split; [intros; lia|]. split; [exact H3|]. split; [exact H4|].
  split; [lia|]. rewrite H1, map_length, firstn_filter_prefix. cbn [firstn]. rewrite app_nil_r. reflexivity.
Qed.

Lemma linv_names_le : forall f d0 c p L0 r m, linv f d0 c p L0 r m ->
  length (r_names r) + Nat.min (r_count r) (length (filter f (skipn m c))) <= L0.
Proof.
  intros f d0 c p L0 r m [I1 [_ [_ [_ [_ [_ I7]]]]]].
  apply (f_equal (@List.length entry)) in I7. rewrite app_length, !firstn_length in I7.
  rewrite I1, map_length. lia.
Qed.

(* a refill round whose callback stopped: the position advances, nothing is owed any more *)
Lemma linv_step_stop : forall f d0 c p L0 r m k r1 m1,
  linv f d0 c p L0 r m -> r_count r = S k ->
  linv f (r_dir r) (cand (r_last r) false p (r_dir r)) p (length (r_names r1)) r1 m1 ->
  r_count r1 = 0 -> length (r_names r1) <= S k ->
  linv f d0 c p (length (r_names r ++ r_names r1))
    {| r_count := r_count r1; r_last := keep_last (r_last r) (r_last r1);
       r_names := r_names r ++ r_names r1; r_dir := r_dir r1 |} (m + m1) /\
  length (r_names r ++ r_names r1) <= L0.
Proof.
  intros f d0 c p L0 r m k r1 m1 Hinv Ec P Ec1 Hle.
  pose proof (linv_names_le _ _ _ _ _ _ _ Hinv) as Hroom.
  destruct Hinv as [I1 [I2 [I3 [I4 [I6 [I7 I5]]]]]]. destruct P as [P1 [P2 [P3 [P4 [P6 [P7 P5]]]]]].
  assert (Hl : r_last r <> "") by (apply I3; lia).
  rewrite (I4 Hl) in *.
  split.
  - apply (linv_stop_intro f d0 c p
             {| r_count := r_count r1; r_last := keep_last (r_last r) (r_last r1);
                r_names := r_names r ++ r_names r1; r_dir := r_dir r1 |} (m + m1)); cbn [r_names r_dir r_count r_last].
    + rewrite I1, P1, <- map_app, <- filter_app, firstn_app_firstn. reflexivity.
    + rewrite P2, I2, del_expired_app, firstn_app_firstn. reflexivity.
    + intros _. unfold keep_last. destruct (String.eqb_spec (r_last r1) "") as [E|E].
      * specialize (P6 E). rewrite P2, P6, del_expired_nil. rewrite (I4 Hl).
        rewrite skipn_add. symmetry. apply firstn_nil_skipn. exact P6.
      * rewrite (P4 E). rewrite skipn_add. reflexivity.
    + intros E. exfalso. apply (keep_last_ne (r_last r) (r_last r1) Hl). exact E.
    + exact Ec1.
  - rewrite app_length. rewrite Ec in Hroom.
    assert (Hn1 : length (r_names r1) <= length (filter f (skipn m c))).
    { rewrite P1, map_length. apply length_filter_firstn_le. }
    lia.
Qed.

(* ================= the stop-aware states seen as states of part 4 ================= *)
(* inner level (doListValidEntries): owed = expired entries seen, unless stopped *)
Definition lr1 (rs : sres) : lres :=
  {| r_count := if s_stop rs then 0 else s_exp rs; r_last := s_last rs; r_names := s_live rs; r_dir := s_dir rs |}.
(* outer level (StreamListDirectoryEntries): owed = missed entries, unless stopped *)
Definition lr2 (rs : sres) : lres :=
  {| r_count := if s_stop rs then 0 else s_miss rs; r_last := s_last rs; r_names := s_names rs; r_dir := s_dir rs |}.

Definition sinv1 (ms : string -> bool) (d0 : dirst) (c : list entry) (p : string) (L0 : nat) (ans0 : list bool)
           (rs : sres) (m : nat) : Prop :=
  linv elive d0 c p (if s_stop rs then length (s_live rs) else L0) (lr1 rs) m /\
  length (s_live rs) <= L0 /\
  s_names rs = filter (fun n => negb (ms n)) (s_live rs) /\
  s_miss rs = length (filter ms (s_live rs)) /\
  ans_ok ans0 (length (s_names rs)) (s_ans rs) (s_stop rs).

Lemma names_len : forall ms v,
  length (filter (fun n => negb (ms n)) (map ename (filter elive v))) = length (filter (passes ms) v).
Proof.
  intros. rewrite length_filter_map, filter_filter. reflexivity.
Qed.

(* one store call seen from the Filer *)
Lemma do_list_s_sinv : forall s ms d start incl L p ans, wf d ->
  exists rs m, do_list_s s ms d start incl L p ans = Some rs /\
               sinv1 ms d (cand start incl p d) p L ans rs m.
Proof.
  intros s ms d start incl L p ans Hwf.
  destruct (do_list_linv s d start incl L p Hwf) as [r [Er Hl]].
  unfold do_list in Er.
  destruct (wrapper_list_spec s d start incl L p Hwf) as [w [Ew [H1 [H2 H3]]]].
  rewrite Ew in Er. inversion Er as [Er']. clear Er. rewrite <- Er' in Hl. clear Er' r.
  unfold do_list_s. rewrite (wrapper_list_s_hand s ms d start incl L p ans w Ew).
  set (c := cand start incl p d) in *.
  destruct (hand_prefix ms (w_vis w) ans) as [j [J1 [J2 [J3 J4]]]].
  pose proof (hand_ans ms (w_vis w) ans) as HA. rewrite <- names_len in HA.
  set (h := hand ms (w_vis w) ans) in *.
  assert (HjL : j <= L) by (rewrite H1, firstn_length in J2; lia).
  destruct (h_stop h) eqn:Eh.
  - (* stopped inside this call *)
    assert (Hv : h_vis h = firstn j c).
    { rewrite J1, H1, firstn_firstn. f_equal. lia. }
    rewrite Hv in *.
    destruct (scan_ok_last_visited d start incl j p Hwf) as [_ [S2 S3]]. cbn [w_vis w_last] in S2, S3. fold c in S2, S3.
    eexists _, j. split; [reflexivity|].
    unfold sinv1, lr1. cbn [s_exp s_miss s_last s_live s_names s_dir s_ans s_stop w_vis w_last].
    split; [|split; [|split; [reflexivity|split; [reflexivity|exact HA]]]].
    + apply (linv_stop_intro elive d c p
               {| r_count := 0; r_last := last_name (firstn j c);
                  r_names := map ename (filter elive (firstn j c)); r_dir := del_expired (firstn j c) d |} j);
        cbn [r_names r_dir r_count r_last]; auto.
    + rewrite map_length. pose proof (length_filter_le elive (firstn j c)). rewrite firstn_length in H. lia.
  - rewrite (J3 eq_refl) in *.
    eexists _, L. split; [reflexivity|].
    unfold sinv1, lr1. cbn [s_exp s_miss s_last s_live s_names s_dir s_ans s_stop w_vis w_last].
    split; [exact Hl|]. split; [|split; [reflexivity|split; [reflexivity|exact HA]]].
    rewrite map_length, H1. pose proof (length_filter_le elive (firstn L c)). rewrite firstn_length in H. lia.
Qed.

(* ================= doListValidEntries with `&& !stopped` ================= *)
Lemma lr1_done : forall rs, s_exp rs = 0 \/ s_stop rs = true -> r_count (lr1 rs) = 0.
Proof. intros rs [H|H]; unfold lr1; cbn [r_count]; rewrite H; [destruct (s_stop rs)|]; reflexivity. Qed.

Lemma valid_loop_s_spec : forall fuel s ms p d0 c L0 ans0 rs m,
  wf d0 -> sinv1 ms d0 c p L0 ans0 rs m -> (0 < r_count (lr1 rs) -> length (skipn m c) < fuel) ->
  exists rs' m', valid_loop_s fuel s ms p rs = Some rs' /\ sinv1 ms d0 c p L0 ans0 rs' m' /\ r_count (lr1 rs') = 0.
Proof.
  induction fuel as [|f IH]; intros s ms p d0 c L0 ans0 rs m Hwf Hinv Hfuel; cbn [valid_loop_s];
    (destruct (s_exp rs) as [|k] eqn:Ec; [exists rs, m; split; [reflexivity|split; [exact Hinv|apply lr1_done; auto]]|]);
    (destruct (s_stop rs) eqn:Es; [exists rs, m; split; [reflexivity|split; [exact Hinv|apply lr1_done; auto]]|]);
    assert (Hc : r_count (lr1 rs) = S k) by (unfold lr1; cbn [r_count]; rewrite Es; exact Ec).
  - exfalso. specialize (Hfuel ltac:(lia)). lia.
  - destruct Hinv as [HL [Hlen [Hn [Hm Ha]]]]. rewrite Es in HL, Ha.
    assert (Hwf1 : wf (s_dir rs)).
    { destruct HL as [_ [I2 _]]. cbn [lr1 r_dir] in I2. rewrite I2. apply wf_del_expired; auto. }
    destruct (do_list_s_sinv s ms (s_dir rs) (s_last rs) false (S k) p (s_ans rs) Hwf1)
      as [rs1 [m1 [E1 [PL [Plen [Pn [Pm Pa]]]]]]].
    rewrite E1.
    match goal with |- context [valid_loop_s f s ms p ?x] => set (rs2 := x) end.
    assert (Hl2 : lr1 rs2 = {| r_count := r_count (lr1 rs1); r_last := keep_last (r_last (lr1 rs)) (r_last (lr1 rs1));
                               r_names := r_names (lr1 rs) ++ r_names (lr1 rs1); r_dir := r_dir (lr1 rs1) |}) by reflexivity.
    apply (IH s ms p d0 c L0 ans0 rs2 (m + m1) Hwf).
    + unfold sinv1. rewrite Hl2.
      change (s_stop rs2) with (s_stop rs1). change (s_live rs2) with (s_live rs ++ s_live rs1).
      change (s_names rs2) with (s_names rs ++ s_names rs1). change (s_miss rs2) with (s_miss rs + s_miss rs1).
      change (s_ans rs2) with (s_ans rs1).
      assert (Hans : ans_ok ans0 (length (s_names rs ++ s_names rs1)) (s_ans rs1) (s_stop rs1))
        by (rewrite app_length; apply (ans_ok_trans ans0 _ (s_ans rs) _ _ _ Ha Pa)).
      assert (Hnm : s_names rs ++ s_names rs1 = filter (fun n => negb (ms n)) (s_live rs ++ s_live rs1))
        by (rewrite Hn, Pn, filter_app; reflexivity).
      assert (Hmm : s_miss rs + s_miss rs1 = length (filter ms (s_live rs ++ s_live rs1)))
        by (rewrite Hm, Pm, filter_app, app_length; reflexivity).
      destruct (s_stop rs1) eqn:Es1.
      * assert (Hc1 : r_count (lr1 rs1) = 0) by (apply lr1_done; auto).
        destruct (linv_step_stop elive d0 c p L0 (lr1 rs) m k (lr1 rs1) m1 HL Hc PL Hc1 Plen) as [HS1 HS2].
        split; [exact HS1|]. split; [exact HS2|]. auto.
      * pose proof (linv_step elive d0 c p L0 (lr1 rs) m k (lr1 rs1) m1 HL Hc PL) as HS1.
        split; [exact HS1|]. split; [|auto].
        pose proof (linv_names_le _ _ _ _ _ _ _ HS1) as Hroom. cbn [r_names lr1] in Hroom. lia.
    + rewrite Hl2. cbn [r_count]. intros Hpos.
      destruct HL as [_ [_ [I3 [I4 _]]]]. destruct PL as [_ [_ [_ [_ [_ [P7 _]]]]]].
      assert (Hl : r_last (lr1 rs) <> "") by (apply I3; lia).
      cbn [lr1 r_last r_dir] in I4, Hl. rewrite (I4 Hl) in P7.
      assert (Hne : firstn m1 (skipn m c) <> []) by (intro E; rewrite E in P7; cbn [List.length] in P7; lia).
      specialize (Hfuel ltac:(lia)). rewrite skipn_add.
      pose proof (skipn_shorter m1 (skipn m c) Hne). lia.
Qed.

(* ================= the pattern closure ================= *)
Definition sinv2 (p rest excl : string) (d0 : dirst) (c : list entry) (L0 : nat) (ans0 : list bool)
           (rs : sres) (m : nat) : Prop :=
  linv (good p rest excl) d0 c p (if s_stop rs then length (s_names rs) else L0) (lr2 rs) m /\
  length (s_names rs) <= L0 /\
  ans_ok ans0 (length (s_names rs)) (s_ans rs) (s_stop rs).

Lemma names_good : forall p rest excl l,
  filter (fun n => negb (ms_of p rest excl n)) (map ename (filter elive l)) = map ename (filter (good p rest excl) l).
Proof.
  intros. rewrite filter_map_comm, good_filter. f_equal.
  apply filter_ext_in_eq. intros e _. unfold okE. rewrite ms_of_missed. reflexivity.
Qed.

Lemma linv_pattern : forall p rest excl d c L r0 m,
  linv elive d c p L r0 m -> r_count r0 = 0 ->
  linv (good p rest excl) d c p L
    {| r_count := length (filter (ms_of p rest excl) (r_names r0)); r_last := r_last r0;
       r_names := filter (fun n => negb (ms_of p rest excl n)) (r_names r0); r_dir := r_dir r0 |} m.
Proof.
  intros p rest excl d c L r0 m [V1 [V2 [V3 [V4 [V6 [V7 V5]]]]]] V0.
  rewrite V0 in V5. cbn [firstn] in V5. rewrite app_nil_r in V5.
  assert (Hcount : length (filter (ms_of p rest excl) (r_names r0)) =
                   length (filter (fun e => negb (okE p rest excl e)) (filter elive (firstn m c)))).
  { rewrite V1, length_filter_map. f_equal. apply filter_ext_in_eq. intros e _.
    unfold okE. rewrite negb_involutive, ms_of_missed. reflexivity. }
  unfold linv. cbn [r_names r_count r_last r_dir].
  split; [|split; [exact V2|split; [|split; [exact V4|split; [exact V6|split]]]]].
  - rewrite V1. apply names_good.
  - intros Hpos Hl. specialize (V6 Hl). rewrite Hcount, V6 in Hpos. simpl in Hpos. lia.
  - rewrite Hcount. etransitivity; [apply length_filter_le|apply length_filter_le].
  - rewrite (good_filter p rest excl c).
    rewrite (firstn_filter_refill (okE p rest excl) (filter elive c) L).
    assert (Hsk : skipn L (filter elive c) = filter elive (skipn m c)).
    { apply (firstn_app_skipn_eq _ (filter elive (firstn m c))); [apply filter_firstn_skipn|exact V5]. }
    rewrite V5, Hsk. rewrite <- !good_filter. rewrite Hcount. reflexivity.
Qed.

Lemma sinv1_sinv2 : forall p rest excl d c L ans rs m,
  sinv1 (ms_of p rest excl) d c p L ans rs m -> r_count (lr1 rs) = 0 -> sinv2 p rest excl d c L ans rs m.
Proof.
  intros p rest excl d c L ans rs m [HL [Hlen [Hn [Hm Ha]]]] H0. unfold sinv2.
  assert (Hle : length (s_names rs) <= L).
  { rewrite Hn. pose proof (length_filter_le (fun n => negb (ms_of p rest excl n)) (s_live rs)). lia. }
  split; [|split; [exact Hle|exact Ha]].
  destruct (s_stop rs) eqn:Es.
  - destruct HL as [I1 [I2 [_ [I4 [I5 _]]]]]. cbn [lr1 r_names r_dir r_last] in I1, I2, I4, I5.
    apply (linv_stop_intro (good p rest excl) d c p (lr2 rs) m); cbn [lr2 r_names r_dir r_last r_count]; auto.
    + rewrite Hn, I1. apply names_good.
    + rewrite Es. reflexivity.
  - pose proof (linv_pattern p rest excl d c L (lr1 rs) m HL H0) as HP.
    cbn [lr1 r_names r_last r_dir] in HP. rewrite <- Hn, <- Hm in HP.
    unfold lr2. rewrite Es. exact HP.
Qed.

Lemma pattern_list_s_sinv2 : forall s d start incl L p rest excl ans, wf d ->
  exists rs m, pattern_list_s s (ms_of p rest excl) d start incl L p ans = Some rs /\
               sinv2 p rest excl d (cand start incl p d) L ans rs m.
Proof.
  intros s d start incl L p rest excl ans Hwf. unfold pattern_list_s.
  destruct (do_list_s_sinv s (ms_of p rest excl) d start incl L p ans Hwf) as [rs0 [m0 [E0 P]]]. rewrite E0.
  destruct (valid_loop_s_spec (S (length d)) s (ms_of p rest excl) p d (cand start incl p d) L ans rs0 m0 Hwf P)
    as [rs [m [E [Q Q0]]]].
  { intros _. rewrite skipn_length. unfold cand. pose proof (length_filter_le (sel start incl p) d). lia. }
  exists rs, m. split; [exact E|]. apply sinv1_sinv2; auto.
Qed.

(* ================= StreamListDirectoryEntries with `&& !stopped` ================= *)
Lemma lr2_done : forall rs, s_miss rs = 0 \/ s_stop rs = true -> r_count (lr2 rs) = 0.
Proof. intros rs [H|H]; unfold lr2; cbn [r_count]; rewrite H; [destruct (s_stop rs)|]; reflexivity. Qed.

Lemma stream_loop_s_spec : forall fuel s p rest excl d0 c L0 ans0 rs m,
  wf d0 -> sinv2 p rest excl d0 c L0 ans0 rs m -> (0 < r_count (lr2 rs) -> length (skipn m c) < fuel) ->
  exists rs' m', stream_loop_s fuel s (ms_of p rest excl) p rs = Some rs' /\
                 sinv2 p rest excl d0 c L0 ans0 rs' m' /\ r_count (lr2 rs') = 0.
Proof.
  induction fuel as [|f IH]; intros s p rest excl d0 c L0 ans0 rs m Hwf Hinv Hfuel; cbn [stream_loop_s];
    (destruct (s_miss rs) as [|k] eqn:Ec; [exists rs, m; split; [reflexivity|split; [exact Hinv|apply lr2_done; auto]]|]);
    (destruct (s_stop rs) eqn:Es; [exists rs, m; split; [reflexivity|split; [exact Hinv|apply lr2_done; auto]]|]);
    assert (Hc : r_count (lr2 rs) = S k) by (unfold lr2; cbn [r_count]; rewrite Es; exact Ec).
  - exfalso. specialize (Hfuel ltac:(lia)). lia.
  - destruct Hinv as [HL [Hlen Ha]]. rewrite Es in HL, Ha.
    assert (Hwf1 : wf (s_dir rs)).
    { destruct HL as [_ [I2 _]]. cbn [lr2 r_dir] in I2. rewrite I2. apply wf_del_expired; auto. }
    destruct (pattern_list_s_sinv2 s (s_dir rs) (s_last rs) false (S k) p rest excl (s_ans rs) Hwf1)
      as [rs1 [m1 [E1 [PL [Plen Pa]]]]].
    rewrite E1.
    match goal with |- context [stream_loop_s f s _ p ?x] => set (rs2 := x) end.
    assert (Hl2 : lr2 rs2 = {| r_count := r_count (lr2 rs1); r_last := keep_last (r_last (lr2 rs)) (r_last (lr2 rs1));
                               r_names := r_names (lr2 rs) ++ r_names (lr2 rs1); r_dir := r_dir (lr2 rs1) |}) by reflexivity.
    apply (IH s p rest excl d0 c L0 ans0 rs2 (m + m1) Hwf).
    + unfold sinv2. rewrite Hl2.
      change (s_stop rs2) with (s_stop rs1). change (s_names rs2) with (s_names rs ++ s_names rs1).
      change (s_ans rs2) with (s_ans rs1).
      assert (Hans : ans_ok ans0 (length (s_names rs ++ s_names rs1)) (s_ans rs1) (s_stop rs1))
        by (rewrite app_length; apply (ans_ok_trans ans0 _ (s_ans rs) _ _ _ Ha Pa)).
      destruct (s_stop rs1) eqn:Es1.
      * assert (Hc1 : r_count (lr2 rs1) = 0) by (apply lr2_done; auto).
        destruct (linv_step_stop (good p rest excl) d0 c p L0 (lr2 rs) m k (lr2 rs1) m1 HL Hc PL Hc1 Plen) as [HS1 HS2].
        split; [exact HS1|]. split; [exact HS2|]. auto.
      * pose proof (linv_step (good p rest excl) d0 c p L0 (lr2 rs) m k (lr2 rs1) m1 HL Hc PL) as HS1.
        split; [exact HS1|]. split; [|auto].
        pose proof (linv_names_le _ _ _ _ _ _ _ HS1) as Hroom. cbn [r_names lr2] in Hroom. lia.
    + rewrite Hl2. cbn [r_count]. intros Hpos.
      destruct HL as [_ [_ [I3 [I4 _]]]]. destruct PL as [_ [_ [_ [_ [_ [P7 _]]]]]].
      assert (Hl : r_last (lr2 rs) <> "") by (apply I3; lia).
      cbn [lr2 r_last r_dir] in I4, Hl. rewrite (I4 Hl) in P7.
      assert (Hne : firstn m1 (skipn m c) <> []) by (intro E; rewrite E in P7; cbn [List.length] in P7; lia).
      specialize (Hfuel ltac:(lia)). rewrite skipn_add.
      pose proof (skipn_shorter m1 (skipn m c) Hne). lia.
Qed.

Lemma stream_list_s_inv : forall s d start incl L prefix pat excl ans, wf d ->
  exists rs m, stream_list_s s d start incl L prefix pat excl ans = Some rs /\
    sinv2 (eff_prefix prefix pat) (snd (split_pattern pat)) excl d
          (cand start incl (eff_prefix prefix pat) d) L ans rs m /\
    r_count (lr2 rs) = 0.
Proof.
  intros s d start incl L prefix pat excl ans Hwf. unfold stream_list_s.
  set (p := eff_prefix prefix pat). set (rest := snd (split_pattern pat)).
  destruct (pattern_list_s_sinv2 s d start incl L p rest excl ans Hwf) as [rs0 [m0 [E0 P]]]. rewrite E0.
  apply (stream_loop_s_spec _ s p rest excl d (cand start incl p d) L ans rs0 m0 Hwf P).
  intros _. rewrite skipn_length. unfold cand.
  pose proof (length_filter_le (sel start incl p) d). lia.
Qed.

(* ================= what the callback gets ================= *)
Lemma want_eq : forall (P : list entry) L ans n a stop,
  ans_ok ans n a stop -> n <= L ->
  n = length (firstn (if stop then n else L) P) ->
  firstn (if stop then n else L) P = firstn (stop_want L ans) P.
Proof.
  intros P L ans n a stop [_ A2] HnL Hn. unfold stop_want. destruct stop.
  - destruct A2 as [Hp Hf]. rewrite Hf. f_equal. lia.
  - destruct (first_false ans) as [k|] eqn:Ef; [|reflexivity].
    pose proof (first_false_ge n ans k A2 Ef) as Hk.
    destruct (Nat.le_gt_cases L (S k)) as [H|H]; [f_equal; lia|].
    rewrite Nat.min_r by lia. rewrite firstn_length in Hn.
    rewrite (firstn_all2 (n := L) P) by lia. rewrite (firstn_all2 (n := S k) P) by lia. reflexivity.
Qed.

(* full: for EVERY callback (list of answers), store, directory and request the stop-aware
   StreamListDirectoryEntries terminates and hands the callback exactly the first
   min(limit, index of the first false + 1) entries of the selection; the directory loses expired
   children only; the returned lastFileName is the place to continue from; a callback that
   answered false is not called again *)
Theorem stream_list_s_full : forall s d start incl L prefix pat excl ans, wf d ->
  exists rs, stream_list_s s d start incl L prefix pat excl ans = Some rs /\
    s_names rs = map ename (firstn (stop_want L ans) (impl_sel start incl prefix pat excl d)) /\
    wf (s_dir rs) /\ filter elive (s_dir rs) = filter elive d /\
    (s_last rs <> "" -> impl_sel (s_last rs) false prefix pat excl (s_dir rs) =
                        skipn (stop_want L ans) (impl_sel start incl prefix pat excl d)) /\
    (s_last rs = "" -> s_names rs = []) /\
    stop_respected ans (s_names rs) = true.
Proof.
  intros s d start incl L prefix pat excl ans Hwf.
  destruct (stream_list_s_inv s d start incl L prefix pat excl ans Hwf) as [rs [m [E [[HL [Hlen Ha]] H0]]]].
  exists rs. split; [exact E|].
  set (p := eff_prefix prefix pat) in *. set (rest := snd (split_pattern pat)) in *.
  set (c := cand start incl p d) in *.
  destruct HL as [S1 [S2 [_ [S4 [S6 [_ S5]]]]]]. rewrite H0 in S5. cbn [firstn] in S5. rewrite app_nil_r in S5.
  cbn [lr2 r_names r_dir r_last] in S1, S2, S4, S6, S5.
  assert (Hn : length (s_names rs) =
               length (firstn (if s_stop rs then length (s_names rs) else L) (filter (good p rest excl) c))).
  { rewrite S5. rewrite S1 at 1. apply map_length. }
  pose proof (want_eq _ L ans _ _ _ Ha Hlen Hn) as Hw.
  assert (Hnames : s_names rs = map ename (firstn (stop_want L ans) (impl_sel start incl prefix pat excl d))).
  { unfold impl_sel. fold p rest c. rewrite <- Hw, S5. exact S1. }
  split; [exact Hnames|]. split; [rewrite S2; apply wf_del_expired; auto|].
  split; [rewrite S2; apply del_expired_live; auto; intros e He; eapply wf_incl_firstn_cand; eauto|].
  split; [|split].
  - intros Hl. unfold impl_sel. fold p rest c. rewrite (S4 Hl). symmetry.
    apply (firstn_app_skipn_eq _ (filter (good p rest excl) (firstn m c))); [apply filter_firstn_skipn|].
    rewrite <- Hw. exact S5.
  - intros El. rewrite S1, (S6 El). reflexivity.
  - unfold stop_respected. destruct (first_false ans) as [k|] eqn:Ef; [|reflexivity].
    apply Nat.leb_le. rewrite Hnames, map_length, firstn_length. unfold stop_want. rewrite Ef. lia.
Qed.

(* ================= FilerServer.ListEntries' loop ================= *)
Lemma first_false_grpc : forall limit, first_false (grpc_answers limit) = Some (limit - 1).
Proof.
  intros. unfold grpc_answers. generalize (limit - 1) as n.
  induction n as [|n IH]; cbn [repeat app first_false]; [reflexivity|rewrite IH; reflexivity].
Qed.

Lemma page_join : forall {A} q limit (M : list A), q <= limit ->
  firstn q M ++ firstn (limit - length (firstn q M)) (skipn q M) = firstn limit M.
Proof.
  intros A q limit M Hq. destruct (Nat.le_gt_cases q (length M)) as [H|H].
  - rewrite firstn_length_le by exact H. replace limit with (q + (limit - q)) at 2 by lia.
    symmetry. apply firstn_add.
  - rewrite (firstn_all2 (n := q) M) by lia. rewrite (skipn_all2 (n := q) M) by lia.
    rewrite firstn_nil, app_nil_r. symmetry. apply firstn_all2. lia.
Qed.

(* full: the gRPC loop terminates and sends exactly the first [limit] matches of the prefix
   listing, in pages of at most [pag] entries *)
Theorem grpc_list_exact : forall fuel s d start incl limit pag prefix,
  wf d -> 0 < pag -> length (spec_names d start incl prefix "" "") < fuel ->
  exists pages, grpc_list fuel s d start incl limit pag prefix = Some pages /\
                List.concat pages = firstn limit (spec_names d start incl prefix "" "") /\
                Forall (fun pg => length pg <= pag) pages.
Proof.
  induction fuel as [|f IH]; intros s d start incl limit pag prefix Hwf Hpag Hf; [lia|].
  destruct limit as [|l']; [exists []; cbn; auto|].
  cbn [grpc_list]. set (limit := S l') in *.
  assert (Hspec : forall d' st inc, spec_names d' st inc prefix "" "" = map ename (impl_sel st inc prefix "" "" d')).
  { intros. unfold spec_names. rewrite impl_sel_spec by apply trig_narrow_none. reflexivity. }
  destruct (stream_list_s_full s d start incl pag prefix "" "" (grpc_answers limit) Hwf)
    as [rs [E [Hn [Hwf' [Hlive [Hlast [Hempty _]]]]]]].
  rewrite E.
  set (M := spec_names d start incl prefix "" "") in *.
  assert (Hq : stop_want pag (grpc_answers limit) = Nat.min pag limit).
  { unfold stop_want. rewrite first_false_grpc. f_equal. unfold limit. lia. }
  rewrite Hq in Hn, Hlast. set (q := Nat.min pag limit) in *.
  assert (Hq0 : 0 < q) by (unfold q, limit; lia).
  assert (Hnames : s_names rs = firstn q M).
  { unfold M. rewrite Hspec, firstn_map. exact Hn. }
  destruct (is_nil (s_names rs)) eqn:En.
  - exists []. split; [reflexivity|]. split; [|constructor]. apply is_nil_true in En.
    rewrite Hnames in En. apply firstn_nil_inv in En; [|exact Hq0]. rewrite En. rewrite firstn_nil. reflexivity.
  - apply is_nil_false in En.
    assert (Hl : s_last rs <> "") by (intro El; apply En; apply Hempty; exact El).
    assert (Hrest : spec_names (s_dir rs) (s_last rs) false prefix "" "" = skipn q M).
    { rewrite Hspec, (Hlast Hl). unfold M. rewrite Hspec, skipn_map'. reflexivity. }
    destruct (IH s (s_dir rs) (s_last rs) false (limit - length (s_names rs)) pag prefix Hwf' Hpag) as [pages [E2 [Hc Hall]]].
    { rewrite Hrest, skipn_length.
      assert (0 < length M) by (destruct M; [rewrite firstn_nil in Hnames; congruence|simpl; lia]). lia. }
    rewrite E2. exists (s_names rs :: pages). split; [reflexivity|]. split.
    + cbn [List.concat]. rewrite Hc, Hrest, Hnames. apply page_join. unfold q. lia.
    + constructor; auto. rewrite Hnames, firstn_length. unfold q. lia.
Qed.

(* ================= the former witnesses of "a stopped callback is called again" (repaired) ================= *)
Definition stop_dir : dirst := [("a", true); ("b", false); ("c", false); ("d", false)].
Definition stop_dir_live : dirst := [("a", false); ("b", false); ("c", false); ("d", false)].
Definition grpc_dir : dirst := [("a", false); ("b", false); ("c", true); ("d", false); ("e", false); ("f", false)].

Definition s_proj (o : option sres) : option (list string * string) := option_map (fun r => (s_names r, s_last r)) o.

(* the callback answers false on its first call (entry b): neither the expired-entries refill
   (doListValidEntries) nor the missed-entries refill (StreamListDirectoryEntries) calls it with c;
   the gRPC loop with limit 3 and page size 2 sends a,b,d (it used to send a,b,d,e) *)
Lemma stop_repaired :
  wf stop_dir /\ wf stop_dir_live /\ wf grpc_dir /\
  s_proj (stream_list_s Lvl stop_dir "" false 3 "" "" "" [false]) = Some (["b"], "b") /\
  s_proj (stream_list_s Gen stop_dir "" false 3 "" "" "" [false]) = Some (["b"], "b") /\
  s_proj (stream_list_s Lvl stop_dir_live "" false 2 "" "" "a" [false]) = Some (["b"], "b") /\
  s_proj (stream_list_s Gen stop_dir_live "" false 2 "" "" "a" [false]) = Some (["b"], "b") /\
  stop_respected [false] ["b"] = true /\
  grpc_list 10 Lvl grpc_dir "" false 3 2 "" = Some [["a"; "b"]; ["d"]] /\
  grpc_list 10 Gen grpc_dir "" false 3 2 "" = Some [["a"; "b"]; ["d"]] /\
  firstn 3 (spec_names grpc_dir "" false "" "" "") = ["a"; "b"; "d"].
Proof.
  split; [apply wfb_wf; vm_compute; reflexivity|]. split; [apply wfb_wf; vm_compute; reflexivity|].
  split; [apply wfb_wf; vm_compute; reflexivity|].
  repeat (match goal with |- _ /\ _ => split end); vm_compute; reflexivity.
Qed.

(* non-vacuity: callbacks that never refuse, refuse late, refuse while entries are still owed *)
Example stop_example :
  stop_want 2 [true; true] = 2 /\ stop_want 3 [true; false] = 2 /\ stop_want 4 [true; false; false] = 2 /\
  s_proj (stream_list_s Lvl stop_dir "" false 2 "" "" "" [true; true]) = Some (["b"; "c"], "c") /\
  s_proj (stream_list_s Gen stop_dir "" false 2 "" "*" "d" [true; true]) = Some (["b"; "c"], "c") /\
  s_proj (stream_list_s Lvl stop_dir_live "" false 3 "" "" "" [true; false]) = Some (["a"; "b"], "b") /\
  s_proj (stream_list_s Gen stop_dir "" false 4 "" "" "b" [true; false; false]) = Some (["c"; "d"], "d").
Proof. repeat (match goal with |- _ /\ _ => split end); vm_compute; reflexivity. Qed.
