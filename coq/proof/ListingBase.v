(* Proofs about model/Listing.v (C19). *)
From Coq Require Import List NArith Bool String Ascii Arith Lia.
From SW Require Import model.Listing.
Import ListNotations.
Local Open Scope string_scope.
Local Open Scope list_scope.
Local Notation length := List.length.

(* ================= byte order on names ================= *)
Definition slt (a b : string) : Prop := String.compare a b = Lt.
Definition sle (a b : string) : Prop := slt a b \/ a = b.

Lemma acmp_refl : forall a, Ascii.compare a a = Eq.
Proof. intros a. unfold Ascii.compare. apply N.compare_refl. Qed.

Lemma acmp_lt_trans : forall a b c, Ascii.compare a b = Lt -> Ascii.compare b c = Lt -> Ascii.compare a c = Lt.
Proof.
  unfold Ascii.compare. intros a b c H1 H2.
  rewrite N.compare_lt_iff in *. eapply N.lt_trans; eauto.
Qed.

Lemma scmp_refl : forall s, String.compare s s = Eq.
Proof. induction s as [|c s IH]; simpl; auto. rewrite acmp_refl. auto. Qed.

Lemma scmp_eq : forall a b, String.compare a b = Eq <-> a = b.
Proof. intros a b. split; [apply String.compare_eq_iff|intros ->; apply scmp_refl]. Qed.

Lemma slt_trans : forall a b c, slt a b -> slt b c -> slt a c.
Proof.
  unfold slt. induction a as [|x a IH]; intros b c H1 H2.
  - destruct b as [|y b]; simpl in H1; [discriminate|].
    destruct c as [|z c]; simpl in H2; [discriminate|]. reflexivity.
  - destruct b as [|y b]; simpl in H1; [discriminate|].
    destruct c as [|z c]; simpl in H2; [discriminate|].
    simpl.
    destruct (Ascii.compare x y) eqn:Exy; try discriminate.
    + apply Ascii.compare_eq_iff in Exy. subst y.
      destruct (Ascii.compare x z) eqn:Exz; try discriminate; auto.
      eapply IH; eauto.
    + destruct (Ascii.compare y z) eqn:Eyz; try discriminate.
      * apply Ascii.compare_eq_iff in Eyz. subst z. rewrite Exy. reflexivity.
      * rewrite (acmp_lt_trans _ _ _ Exy Eyz). reflexivity.
Qed.

Lemma slt_irrefl : forall a, ~ slt a a.
Proof. unfold slt. intros a H. rewrite scmp_refl in H. discriminate. Qed.

Lemma slt_asym : forall a b, slt a b -> ~ slt b a.
Proof. intros a b H1 H2. apply (slt_irrefl a). eapply slt_trans; eauto. Qed.

Lemma scmp_gt : forall a b, String.compare a b = Gt <-> slt b a.
Proof.
  intros a b. unfold slt. rewrite (String.compare_antisym b a).
  destruct (String.compare a b); simpl; split; intro H; congruence.
Qed.

Lemma slt_total : forall a b, slt a b \/ a = b \/ slt b a.
Proof.
  intros a b. destruct (String.compare a b) eqn:E.
  - right. left. apply scmp_eq. auto.
  - left. auto.
  - right. right. apply scmp_gt. auto.
Qed.

Lemma ltb_slt : forall a b, String.ltb a b = true <-> slt a b.
Proof. intros a b. unfold String.ltb, slt. destruct (String.compare a b); split; intro H; congruence. Qed.

Lemma ltb_false : forall a b, String.ltb a b = false <-> sle b a.
Proof.
  intros a b. unfold String.ltb, sle. destruct (String.compare a b) eqn:E.
  - apply scmp_eq in E. subst. split; auto.
  - split; [discriminate|]. intros [H|H]; [exfalso; eapply slt_asym; eauto|subst; exfalso; eapply slt_irrefl; eauto].
  - apply scmp_gt in E. split; auto.
Qed.

Lemma leb_sle : forall a b, String.leb a b = true <-> sle a b.
Proof.
  intros a b. unfold String.leb, sle. destruct (String.compare a b) eqn:E.
  - apply scmp_eq in E. subst. split; auto.
  - split; auto.
  - apply scmp_gt in E. split; [discriminate|].
    intros [H|H]; [exfalso; eapply slt_asym; eauto|subst; exfalso; eapply slt_irrefl; eauto].
Qed.

Lemma sle_refl : forall a, sle a a.
Proof. right. reflexivity. Qed.

Lemma sle_trans : forall a b c, sle a b -> sle b c -> sle a c.
Proof.
  intros a b c [H1|H1] [H2|H2]; subst; unfold sle; auto. left. eapply slt_trans; eauto.
Qed.

Lemma sle_slt_trans : forall a b c, sle a b -> slt b c -> slt a c.
Proof. intros a b c [H|H] H2; subst; auto. eapply slt_trans; eauto. Qed.

Lemma slt_sle_trans : forall a b c, slt a b -> sle b c -> slt a c.
Proof. intros a b c H [H2|H2]; subst; auto. eapply slt_trans; eauto. Qed.

Lemma sle_antisym : forall a b, sle a b -> sle b a -> a = b.
Proof.
  intros a b [H1|H1] [H2|H2]; subst; auto. exfalso. eapply slt_asym; eauto.
Qed.

Lemma sle_empty : forall a, sle "" a.
Proof. intros [|c a]; [right; reflexivity|left; reflexivity]. Qed.

Lemma slt_empty : forall a, a <> "" -> slt "" a.
Proof. intros [|c a] H; [congruence|reflexivity]. Qed.

Lemma not_slt_sle : forall a b, ~ slt a b -> sle b a.
Proof. intros a b H. destruct (slt_total a b) as [H1|[H1|H1]]; [tauto|subst; apply sle_refl|left; auto]. Qed.

(* ---- prefixes and the order ---- *)
Lemma prefix_refl : forall p, String.prefix p p = true.
Proof. induction p as [|c p IH]; simpl; auto. destruct (ascii_dec c c); [auto|congruence]. Qed.

Lemma prefix_sle : forall p n, String.prefix p n = true -> sle p n.
Proof.
  induction p as [|c p IH]; intros n H.
  - apply sle_empty.
  - destruct n as [|d n]; simpl in H; [discriminate|].
    destruct (ascii_dec c d); [|discriminate]. subst d.
    destruct (IH n H) as [H1|H1].
    + left. unfold slt in *. simpl. rewrite acmp_refl. auto.
    + right. congruence.
Qed.

(* the names with a given prefix form an interval of the order *)
Lemma prefix_convex : forall p a b c,
  String.prefix p a = true -> String.prefix p c = true -> sle a b -> sle b c -> String.prefix p b = true.
Proof.
  induction p as [|x p IH]; intros a b c Ha Hc Hab Hbc; [destruct b; reflexivity|].
  destruct a as [|xa a]; simpl in Ha; [discriminate|].
  destruct (ascii_dec x xa); [|discriminate]. subst xa.
  destruct c as [|xc c]; simpl in Hc; [discriminate|].
  destruct (ascii_dec x xc); [|discriminate]. subst xc.
  destruct b as [|y b].
  - exfalso. destruct Hab as [H|H]; [unfold slt in H; simpl in H; discriminate|discriminate].
  - assert (Exy : Ascii.compare x y <> Gt).
    { destruct Hab as [H|H]; [|inversion H; subst; rewrite acmp_refl; discriminate].
      unfold slt in H. simpl in H. destruct (Ascii.compare x y); congruence. }
    assert (Eyx : Ascii.compare y x <> Gt).
    { destruct Hbc as [H|H]; [|inversion H; subst; rewrite acmp_refl; discriminate].
      unfold slt in H. simpl in H. destruct (Ascii.compare y x); congruence. }
    assert (x = y).
    { rewrite Ascii.compare_antisym in Eyx. destruct (Ascii.compare x y) eqn:E; simpl in *; try congruence.
      apply Ascii.compare_eq_iff; auto. }
    subst y. simpl. destruct (ascii_dec x x); [|congruence].
    apply (IH a b c); auto.
    + destruct Hab as [H|H]; [left|right; congruence].
      unfold slt in *. simpl in H. rewrite acmp_refl in H. auto.
    + destruct Hbc as [H|H]; [left|right; congruence].
      unfold slt in *. simpl in H. rewrite acmp_refl in H. auto.
Qed.

(* p <= n, n outside the prefix range: everything above n is outside too *)
Lemma prefix_past : forall p n m, sle p n -> String.prefix p n = false -> sle n m -> String.prefix p m = false.
Proof.
  intros p n m Hpn Hn Hnm. destruct (String.prefix p m) eqn:E; auto.
  rewrite (prefix_convex p p n m) in Hn; auto. apply prefix_refl.
Qed.

(* ================= generic list facts ================= *)
Lemma firstn_add : forall {A} (m k : nat) (l : list A), firstn (m + k) l = firstn m l ++ firstn k (skipn m l).
Proof.
  induction m as [|m IH]; intros k l; simpl; auto.
  destruct l as [|x l]; simpl; [rewrite firstn_nil; auto|]. rewrite IH. auto.
Qed.

Lemma skipn_add : forall {A} (m k : nat) (l : list A), skipn (m + k) l = skipn k (skipn m l).
Proof.
  induction m as [|m IH]; intros k l; simpl; auto.
  destruct l as [|x l]; simpl; [rewrite skipn_nil; auto|]. apply IH.
Qed.

Lemma filter_firstn_skipn : forall {A} (f : A -> bool) m (l : list A),
  filter f l = filter f (firstn m l) ++ filter f (skipn m l).
Proof. intros. rewrite <- filter_app, firstn_skipn. auto. Qed.

(* the refill identity: a page of L items of which k fail the filter is completed by the
   first k passing items of the remainder *)
Lemma firstn_filter_refill_gen : forall {A} (f : A -> bool) (c : list A) (L j : nat),
  firstn (L + j) (filter f c) =
  filter f (firstn L c) ++
  firstn (length (filter (fun x => negb (f x)) (firstn L c)) + j) (filter f (skipn L c)).
Proof.
  induction c as [|x c IH]; intros L j.
  - rewrite firstn_nil, skipn_nil. simpl. rewrite !firstn_nil. auto.
  - destruct L as [|L]; [reflexivity|].
    cbn [firstn skipn filter]. destruct (f x) eqn:Ef; cbn [negb filter length app].
    + change (S L + j) with (S (L + j)). cbn [firstn]. f_equal. apply IH.
    + cbn [negb length].
      replace (S L + j) with (L + S j) by lia.
      replace (S (length (filter (fun x0 => negb (f x0)) (firstn L c))) + j)
        with (length (filter (fun x0 => negb (f x0)) (firstn L c)) + S j) by lia.
      apply IH.
Qed.

Lemma firstn_filter_refill : forall {A} (f : A -> bool) (c : list A) (L : nat),
  firstn L (filter f c) =
  filter f (firstn L c) ++
  firstn (length (filter (fun x => negb (f x)) (firstn L c))) (filter f (skipn L c)).
Proof.
  intros. pose proof (firstn_filter_refill_gen f c L 0) as H. rewrite !Nat.add_0_r in H. exact H.
Qed.

Lemma firstn_app_skipn_eq : forall {A} (X a b : list A) k, X = a ++ b -> firstn k X = a -> skipn k X = b.
Proof.
  intros A X a b k -> H.
  destruct (Nat.le_gt_cases (length a) k) as [Hk|Hk].
  - rewrite firstn_app in H. rewrite firstn_all2 in H by auto.
    assert (Hb : firstn (k - length a) b = []).
    { apply (app_inv_head a). rewrite app_nil_r. auto. }
    rewrite skipn_app. rewrite skipn_all2 by auto. simpl.
    destruct (k - length a) as [|n] eqn:En; [reflexivity|].
    destruct b as [|y b]; [reflexivity|]. simpl in Hb. discriminate.
  - exfalso. assert (Hl : length (firstn k (a ++ b)) = length a) by (rewrite H; auto).
    rewrite firstn_length, app_length in Hl. lia.
Qed.

Lemma firstn_firstn_S : forall {A} (l : list A) L, firstn L (firstn (S L) l) = firstn L l.
Proof. intros. rewrite firstn_firstn. f_equal. lia. Qed.

Lemma filter_ext_in_eq : forall {A} (f g : A -> bool) l, (forall x, In x l -> f x = g x) -> filter f l = filter g l.
Proof.
  induction l as [|x l IH]; intros H; simpl; auto.
  rewrite (H x) by (left; auto). rewrite IH; auto. intros. apply H. right. auto.
Qed.

Lemma filter_filter : forall {A} (f g : A -> bool) l, filter f (filter g l) = filter (fun x => g x && f x) l.
Proof.
  induction l as [|x l IH]; simpl; auto. destruct (g x); simpl; [destruct (f x)|]; rewrite IH; auto.
Qed.

Lemma filter_none : forall {A} (f : A -> bool) l, (forall x, In x l -> f x = false) -> filter f l = [].
Proof.
  induction l as [|x l IH]; intros H; simpl; auto.
  rewrite (H x) by (left; auto). apply IH. intros. apply H. right. auto.
Qed.

Lemma filter_all : forall {A} (f : A -> bool) l, (forall x, In x l -> f x = true) -> filter f l = l.
Proof.
  induction l as [|x l IH]; intros H; simpl; auto.
  rewrite (H x) by (left; auto). f_equal. apply IH. intros. apply H. right. auto.
Qed.

Lemma length_filter_le : forall {A} (f : A -> bool) l, length (filter f l) <= length l.
Proof. induction l as [|x l IH]; simpl; auto. destruct (f x); simpl; lia. Qed.

(* END *)
