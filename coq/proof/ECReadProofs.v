(* C06: the locator (ec_locate.go) reads back exactly the original bytes. *)
From Coq Require Import List ZArith NArith Bool Lia ZifyBool.
From SW Require Import model.EC proof.ECProofs.
Import ListNotations.
Local Open Scope Z_scope.

Lemma quot_rem_pos a b : 0 <= a -> 0 < b ->
  exists q r, Z.quot a b = q /\ Z.rem a b = r /\ a = b * q + r /\ 0 <= r < b /\ 0 <= q.
Proof.
  intros Ha Hb. exists (a / b), (a mod b).
  rewrite Z.quot_div_nonneg, Z.rem_mod_nonneg by lia.
  pose proof (Z.div_mod a b ltac:(lia)). pose proof (Z.mod_pos_bound a b ltac:(lia)).
  pose proof (Z.div_pos a b ltac:(lia) ltac:(lia)). repeat split; lia.
Qed.

Section Read.
  Variables (dat : Z -> byte) (L S D R s : Z) (sh : list (list byte)).
  Hypothesis HL : 0 < L.
  Hypothesis HS : 0 < S.
  Hypothesis Hlay : layout L S D R s.
  Hypothesis EF : enc_facts dat L S D R s sh.

  Lemma datz_lt p : p < D -> datz dat D p = dat p.
  Proof. intros H. unfold datz. destruct (p <? D) eqn:E; [reflexivity|lia]. Qed.

  Lemma lay_R : 0 <= R. Proof. apply Hlay. Qed.
  Lemma lay_s : 0 <= s. Proof. apply Hlay. Qed.
  Lemma lay_end : D <= R * (L * 10) + s * (S * 10).
  Proof.
    destruct Hlay as [H1 [H2 [H3 H4]]]. destruct (Z_le_gt_dec D 0) as [Hle|Hgt].
    - destruct (H3 Hle). subst. lia.
    - specialize (H4 ltac:(lia)). lia.
  Qed.

  (* one interval inside a large block *)
  Lemma read_block_large bi inner n :
    0 <= bi < R * 10 -> 0 <= inner -> 0 < n -> inner + n <= L -> bi * L + inner + n <= D ->
    read_interval L S sh (mkI bi inner n true R) = Some (dslice dat (bi * L + inner) n).
  Proof.
    intros Hbi Hin Hn HinL HD.
    unfold read_interval, to_shard_offset. cbn [i_block i_large i_inner i_rows i_size].
    destruct (quot_rem_pos bi 10 ltac:(lia) ltac:(lia)) as [row [j [Hq [Hr [Hbij [Hj Hrow]]]]]].
    rewrite Hq, Hr. unfold read_exact. rewrite (ef_len _ _ _ _ _ _ _ EF j) by lia.
    assert (Hrow' : row < R) by lia.
    assert (H1 : (row + 1) * L <= R * L) by nia.
    assert (H2 : 0 <= row * L) by nia.
    assert (H3 : 0 <= s * S) by (pose proof lay_s; nia).
    destruct ((0 <=? inner + row * L) && (inner + row * L + n <=? R * L + s * S)) eqn:E; [|lia].
    f_equal. unfold dslice. apply map_zrange_ext. intros t Ht.
    replace (inner + row * L + t) with (row * L + (inner + t)) by lia.
    rewrite (ef_large _ _ _ _ _ _ _ EF) by lia.
    subst bi. rewrite datz_lt by lia. f_equal. lia.
  Qed.

  (* one interval inside a small block *)
  Lemma read_block_small bi inner n :
    0 <= bi -> 0 <= inner -> 0 < n -> inner + n <= S ->
    R * (L * 10) + bi * S + inner + n <= D ->
    read_interval L S sh (mkI bi inner n false R) = Some (dslice dat (R * (L * 10) + bi * S + inner) n).
  Proof.
    intros Hbi Hin Hn HinS HD.
    unfold read_interval, to_shard_offset. cbn [i_block i_large i_inner i_rows i_size].
    destruct (quot_rem_pos bi 10 ltac:(lia) ltac:(lia)) as [row [j [Hq [Hr [Hbij [Hj Hrow]]]]]].
    rewrite Hq, Hr. unfold read_exact. rewrite (ef_len _ _ _ _ _ _ _ EF j) by lia.
    pose proof lay_end as Hend. pose proof lay_R as HR.
    assert (Hrow' : row < s).
    { subst bi. destruct (Z_lt_ge_dec row s) as [|Hge]; auto. exfalso.
      assert (s * S <= row * S) by nia. assert (0 <= j * S) by nia. lia. }
    assert (H1 : (row + 1) * S <= s * S) by nia.
    assert (H2 : 0 <= row * S) by nia.
    assert (H3 : 0 <= R * L) by nia.
    destruct ((0 <=? inner + (R * L + row * S)) && (inner + (R * L + row * S) + n <=? R * L + s * S)) eqn:E; [|lia].
    f_equal. unfold dslice. apply map_zrange_ext. intros t Ht.
    replace (inner + (R * L + row * S) + t) with (R * L + row * S + (inner + t)) by lia.
    rewrite (ef_small _ _ _ _ _ _ _ EF) by lia.
    subst bi. rewrite datz_lt by lia. f_equal. lia.
  Qed.

  (* the loop of LocateData, started inside the small-block area *)
  Lemma loop_small : forall fuel bi inner size,
    0 <= bi -> 0 <= inner < S -> 0 <= size -> (Z.to_nat size <= fuel)%nat ->
    R * (L * 10) + bi * S + inner + size <= D ->
    read_intervals L S sh (locate_loop fuel L S R bi false inner size) =
    Some (dslice dat (R * (L * 10) + bi * S + inner) size).
  Proof.
    induction fuel as [|f IH]; intros bi inner size Hbi Hin Hsz Hf HD.
    - assert (size = 0) by lia. subst. reflexivity.
    - cbn [locate_loop]. destruct (size >? 0) eqn:E0.
      2:{ assert (size = 0) by lia. subst. reflexivity. }
      destruct (size <=? S - inner) eqn:E1.
      + cbn [read_intervals]. rewrite read_block_small by lia. rewrite app_nil_r. reflexivity.
      + cbn [andb read_intervals]. rewrite read_block_small by lia.
        rewrite IH by lia.
        replace (R * (L * 10) + (bi + 1) * S + 0) with (R * (L * 10) + bi * S + inner + (S - inner)) by lia.
        rewrite dslice_app by lia. f_equal. f_equal. lia.
  Qed.

  (* ... started inside the large-block area *)
  Lemma loop_large : forall fuel bi inner size,
    0 <= bi < R * 10 -> 0 <= inner < L -> 0 <= size -> (Z.to_nat size <= fuel)%nat ->
    bi * L + inner + size <= D ->
    read_intervals L S sh (locate_loop fuel L S R bi true inner size) =
    Some (dslice dat (bi * L + inner) size).
  Proof.
    induction fuel as [|f IH]; intros bi inner size Hbi Hin Hsz Hf HD.
    - assert (size = 0) by lia. subst. reflexivity.
    - cbn [locate_loop]. destruct (size >? 0) eqn:E0.
      2:{ assert (size = 0) by lia. subst. reflexivity. }
      destruct (size <=? L - inner) eqn:E1.
      + cbn [read_intervals]. rewrite read_block_large by lia. rewrite app_nil_r. reflexivity.
      + cbn [andb read_intervals]. rewrite read_block_large by lia.
        destruct (bi + 1 =? R * 10) eqn:E2.
        * rewrite loop_small by lia.
          replace (R * (L * 10) + 0 * S + 0) with (bi * L + inner + (L - inner)) by lia.
          rewrite dslice_app by lia. f_equal. f_equal. lia.
        * rewrite IH by lia.
          replace ((bi + 1) * L + 0) with (bi * L + inner + (L - inner)) by lia.
          rewrite dslice_app by lia. f_equal. f_equal. lia.
  Qed.

  (* LocateData with any datSize argument from which the repaired formula
     recovers the encoder's number of large rows *)
  Lemma locate_data_reads datSize offset size :
    n_large_rows L datSize = R ->
    0 <= offset -> 0 <= size -> offset + size <= D ->
    read_intervals L S sh (locate_data L S datSize offset size) = Some (dslice dat offset size).
  Proof.
    intros Hn Hoff Hsz HD. unfold locate_data, locate_offset. rewrite Hn.
    destruct (offset <? R * (L * 10)) eqn:E.
    - unfold locate_within.
      destruct (quot_rem_pos offset L Hoff HL) as [q [r [Hq [Hr [Ho [Hrb Hq0]]]]]].
      rewrite Hq, Hr.
      assert (q < R * 10) by nia.
      rewrite loop_large by lia. f_equal. f_equal. lia.
    - unfold locate_within.
      destruct (quot_rem_pos (offset - R * (L * 10)) S ltac:(lia) HS) as [q [r [Hq [Hr [Ho [Hrb Hq0]]]]]].
      rewrite Hq, Hr.
      rewrite loop_small by lia. f_equal. f_equal. lia.
  Qed.
End Read.

(* ---------- the repaired row-count formula ---------- *)
Lemma n_large_rows_true L S D R s : 0 < L -> 0 < S -> 0 <= D -> layout L S D R s -> n_large_rows L D = R.
Proof.
  intros HL HS HD [H1 [H2 [H3 H4]]]. unfold n_large_rows.
  destruct (Z.eq_dec D 0) as [->|Hne].
  - destruct (H3 ltac:(lia)) as [-> _]. change (0 - 1) with (- (1)).
    rewrite Z.quot_opp_l by lia. rewrite Z.quot_small by lia. reflexivity.
  - specialize (H4 ltac:(lia)). rewrite Z.quot_div_nonneg by lia.
    symmetry. apply Z.div_unique with (r := D - 1 - R * (L * 10)); lia.
Qed.

Lemma n_large_rows_prod L S D R s m : 0 < L -> 0 < S -> 0 <= D -> L = m * S -> layout L S D R s ->
  n_large_rows L (10 * (R * L + s * S)) = R.
Proof.
  intros HL HS HD Hm Hlay.
  pose proof (layout_small_le L S D R s m HS HL Hm Hlay) as Hle.
  destruct Hlay as [H1 [H2 [H3 H4]]]. unfold n_large_rows.
  destruct (Z.eq_dec D 0) as [->|Hne].
  - destruct (H3 ltac:(lia)) as [-> ->]. change (10 * (0 * L + 0 * S) - 1) with (- (1)).
    rewrite Z.quot_opp_l by lia. rewrite Z.quot_small by lia. reflexivity.
  - assert (1 <= s) by (apply (layout_pos L S D R s); unfold layout; auto; lia).
    assert (1 <= s * S) by nia.
    rewrite Z.quot_div_nonneg by nia.
    symmetry. apply Z.div_unique with (r := 10 * (s * S) - 1); lia.
Qed.

(* ---------- the theorems ---------- *)
(* block sizes as the code requires them: positive, small | large, and both multiples
   of the encoder's buffer (encodeData: otherwise glog.Fatalf) *)
Definition sizes_ok (L S buf : Z) : Prop :=
  0 < buf /\ (exists ms, 0 < ms /\ S = ms * buf) /\ (exists m, 0 < m /\ L = m * S).

Lemma sizes_ok_pos L S buf : sizes_ok L S buf -> 0 < L /\ 0 < S /\ 0 < buf.
Proof. intros [Hb [[ms [Hms HS]] [m [Hm HL]]]]. subst. nia. Qed.

Lemma shards_facts dat L S buf D : sizes_ok L S buf -> 0 <= D ->
  exists R s, layout L S D R s /\ enc_facts dat L S D R s (data_shards dat L S buf D).
Proof.
  intros Hok HD. destruct (sizes_ok_pos _ _ _ Hok) as [HL [HS Hb]].
  destruct Hok as [_ [[ms [Hms HSb]] [m [Hm HLs]]]].
  destruct (encode_layout_spec L S D HL HS) as [R [s [Hlay Hrows]]].
  exists R, s. split; auto.
  apply data_shard_facts with (ml := m * ms) (ms := ms); auto; try nia.
Qed.

(* reads located from the TRUE .dat size *)
Theorem read_exact_true_size : forall dat L S buf D offset size,
  sizes_ok L S buf -> 0 <= offset -> 0 <= size -> offset + size <= D ->
  read_intervals L S (data_shards dat L S buf D) (locate_data L S D offset size) =
  Some (dslice dat offset size).
Proof.
  intros dat L S buf D offset size Hok Hoff Hsz HD.
  destruct (sizes_ok_pos _ _ _ Hok) as [HL [HS Hb]].
  destruct (shards_facts dat L S buf D Hok ltac:(lia)) as [R [s [Hlay EF]]].
  apply (locate_data_reads dat L S D R s _ HL HS Hlay EF D offset size); try lia.
  apply (n_large_rows_true L S D R s HL HS ltac:(lia) Hlay).
Qed.

(* the production path: the locator is fed 10 x (size of shard file 0) *)
Theorem read_exact_prod : forall dat L S buf D offset size,
  sizes_ok L S buf -> 0 <= offset -> 0 <= size -> offset + size <= D ->
  read_needle_prod L S (data_shards dat L S buf D) offset size = Some (dslice dat offset size).
Proof.
  intros dat L S buf D offset size Hok Hoff Hsz HD.
  destruct (sizes_ok_pos _ _ _ Hok) as [HL [HS Hb]].
  destruct (shards_facts dat L S buf D Hok ltac:(lia)) as [R [s [Hlay EF]]].
  unfold read_needle_prod. rewrite (ef_len _ _ _ _ _ _ _ EF 0) by lia.
  apply (locate_data_reads dat L S D R s _ HL HS Hlay EF); try lia.
  destruct Hok as [_ [_ [m [Hm HLs]]]].
  apply (n_large_rows_prod L S D R s m HL HS ltac:(lia) HLs Hlay).
Qed.
