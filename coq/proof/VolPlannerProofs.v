(* Proofs about model/VolPlanner.v (C15). *)
From Coq Require Import List NArith ZArith Bool Arith Lia Permutation.
From SW Require Import model.VolPlanner.
Import ListNotations.

(* ---------------------------------------------------------------------- *)
(* equalities                                                              *)
(* ---------------------------------------------------------------------- *)
Lemma loc_eqb_eq : forall a b, loc_eqb a b = true <-> a = b.
Proof.
  intros [a1 a2 a3] [b1 b2 b3]; unfold loc_eqb; simpl.
  rewrite !andb_true_iff, !N.eqb_eq. split.
  - intros [[H1 H2] H3]; subst; reflexivity.
  - intros H; inversion H; auto.
Qed.

Lemma loc_eqb_refl : forall a, loc_eqb a a = true.
Proof. intros; apply loc_eqb_eq; reflexivity. Qed.

Lemma rack_eqb_eq : forall a b, rack_eqb a b = true <-> a = b.
Proof. intros a b; unfold rack_eqb; destruct (rack_dec a b); split; congruence. Qed.

(* ---------------------------------------------------------------------- *)
(* counting keys of a list                                                 *)
(* ---------------------------------------------------------------------- *)
Section Counting.
  Context {A : Type} (dec : forall x y : A, {x = y} + {x <> y}).

  Lemma nodup_len_NoDup : forall l : list A, length (nodup dec l) = length l -> NoDup l.
  Proof.
    induction l as [|x l IH]; simpl; intros H; [constructor|].
    destruct (in_dec dec x l) as [Hin|Hin].
    - exfalso. pose proof (NoDup_incl_length (NoDup_nodup dec l) (l' := l)) as Hl.
      assert (length (nodup dec l) <= length l).
      { apply Hl. intros y Hy. apply nodup_In in Hy; auto. }
      lia.
    - simpl in H. constructor; auto.
  Qed.

  Lemma NoDup_nodup_len : forall l : list A, NoDup l -> length (nodup dec l) = length l.
  Proof. intros l H. rewrite nodup_fixed_point; auto. Qed.

  Lemma nodup_len_le : forall l : list A, length (nodup dec l) <= length l.
  Proof.
    intros l. apply NoDup_incl_length; [apply NoDup_nodup|].
    intros y Hy. apply nodup_In in Hy; auto.
  Qed.

  Lemma nodup_perm_len : forall l l' : list A, Permutation l l' ->
    length (nodup dec l) = length (nodup dec l').
  Proof.
    intros l l' HP. apply Permutation_length. apply NoDup_Permutation; try apply NoDup_nodup.
    intros x. rewrite !nodup_In. split; intro; [eapply Permutation_in|eapply Permutation_in; [apply Permutation_sym|]]; eauto.
  Qed.

  Lemma nodup_perm : forall l l' : list A, Permutation l l' -> Permutation (nodup dec l) (nodup dec l').
  Proof.
    intros l l' HP. apply NoDup_Permutation; try apply NoDup_nodup.
    intros x. rewrite !nodup_In. split; intro; [eapply Permutation_in|eapply Permutation_in; [apply Permutation_sym|]]; eauto.
  Qed.

  Lemma sum_indicator : forall (ks : list A) x, NoDup ks -> In x ks ->
    list_sum (map (fun k => if dec x k then 1 else 0) ks) = 1.
  Proof.
    induction ks as [|k ks IH]; simpl; intros x Hnd Hin; [tauto|].
    inversion Hnd as [|? ? Hn Hd]; subst.
    destruct (dec x k) as [->|Hne].
    - assert (list_sum (map (fun k0 => if dec k k0 then 1 else 0) ks) = 0) as ->; [|reflexivity].
      clear IH Hin Hnd Hd. induction ks as [|k' ks IH]; simpl; auto.
      destruct (dec k k') as [->|]; [exfalso; apply Hn; left; auto|].
      apply IH. intro; apply Hn; right; auto.
    - destruct Hin as [->|Hin]; [congruence|]. simpl. apply IH; auto.
  Qed.

  Lemma sum_zero_indicator : forall (ks : list A) x, ~ In x ks ->
    list_sum (map (fun k => if dec x k then 1 else 0) ks) = 0.
  Proof.
    induction ks as [|k ks IH]; simpl; intros x Hn; auto.
    destruct (dec x k) as [->|]; [exfalso; apply Hn; left; auto|].
    apply IH. intro; apply Hn; right; auto.
  Qed.

  Lemma list_sum_map_add : forall (ks : list A) f g,
    list_sum (map (fun k => f k + g k) ks) = list_sum (map f ks) + list_sum (map g ks).
  Proof. induction ks as [|k ks IH]; simpl; intros; auto. rewrite IH. lia. Qed.

  (* the length is the sum of the counts of the distinct keys *)
  Lemma len_sum_counts : forall (l ks : list A), NoDup ks -> incl l ks ->
    length l = list_sum (map (count_occ dec l) ks).
  Proof.
    induction l as [|a l IH]; intros ks Hnd Hin.
    - clear Hnd Hin. induction ks as [|k ks IHk]; simpl; auto.
    - assert (forall k, count_occ dec (a :: l) k = count_occ dec l k + (if dec a k then 1 else 0)) as Hc.
      { intros k. simpl. destruct (dec a k); lia. }
      rewrite (map_ext _ _ Hc), list_sum_map_add, sum_indicator; auto.
      + simpl. rewrite (IH ks); auto. lia. intros y Hy. apply Hin. right; auto.
      + apply Hin. left; auto.
  Qed.

  Lemma len_sum_nodup : forall l : list A,
    length l = list_sum (map (count_occ dec l) (nodup dec l)).
  Proof.
    intros l. apply len_sum_counts; [apply NoDup_nodup|]. intros y Hy. apply nodup_In; auto.
  Qed.

  Lemma count_pos : forall (l : list A) k, In k (nodup dec l) -> count_occ dec l k >= 1.
  Proof. intros l k H. apply nodup_In in H. apply (count_occ_In dec) in H. lia. Qed.

  (* all counts >= 1 and the sum equals the number of keys: all counts are 1 *)
  Lemma sum_eq_len_all_one : forall (ks : list A) (f : A -> nat),
    (forall k, In k ks -> f k >= 1) -> list_sum (map f ks) = length ks ->
    forall k, In k ks -> f k = 1.
  Proof.
    induction ks as [|k0 ks IH]; simpl; intros f Hge Hs k Hin; [tauto|].
    assert (list_sum (map f ks) >= length ks) as Hlow.
    { clear - Hge. induction ks as [|k ks IH]; simpl; auto.
      assert (f k >= 1) by (apply Hge; right; left; auto).
      assert (list_sum (map f ks) >= length ks).
      { apply IH. intros k' [->|H']; apply Hge; auto. right; right; auto. }
      lia. }
    assert (f k0 >= 1) by (apply Hge; auto).
    destruct Hin as [->|Hin]; [lia|].
    apply IH; auto. lia.
  Qed.

  Lemma sum_ge_len : forall (ks : list A) (f : A -> nat),
    (forall k, In k ks -> f k >= 1) -> list_sum (map f ks) >= length ks.
  Proof.
    induction ks as [|k ks IH]; simpl; intros f Hge; auto.
    assert (f k >= 1) by (apply Hge; auto).
    assert (list_sum (map f ks) >= length ks) by (apply IH; intros; apply Hge; auto).
    lia.
  Qed.

  (* ... and one more than the number of keys: exactly one count is 2 *)
  Lemma sum_eq_len_plus_one : forall (ks : list A) (f : A -> nat), NoDup ks ->
    (forall k, In k ks -> f k >= 1) -> list_sum (map f ks) = length ks + 1 ->
    exists D, In D ks /\ f D = 2 /\ forall d, In d ks -> d <> D -> f d = 1.
  Proof.
    induction ks as [|k0 ks IH]; simpl; intros f Hnd Hge Hs; [lia|].
    inversion Hnd as [|? ? Hn Hd]; subst.
    assert (f k0 >= 1) by (apply Hge; auto).
    assert (list_sum (map f ks) >= length ks) by (apply sum_ge_len; intros; apply Hge; auto).
    destruct (Nat.eq_dec (f k0) 1) as [H1|H1].
    - destruct (IH f Hd) as [D [HD [H2 Ho]]]; [intros; apply Hge; auto|lia|].
      exists D. split; [right; auto|]. split; auto.
      intros d [->|Hin] Hne; auto.
    - exists k0. split; [left; auto|]. split; [lia|].
      intros d [->|Hin] Hne; [congruence|].
      apply (sum_eq_len_all_one ks f); [intros; apply Hge; auto | lia | auto].
  Qed.

  Lemma count_occ_filter_le : forall (l : list A) (g : A -> bool) k,
    count_occ dec (filter g l) k <= count_occ dec l k.
  Proof.
    induction l as [|a l IH]; simpl; intros g k; auto.
    destruct (g a); simpl; destruct (dec a k); specialize (IH g k); lia.
  Qed.
End Counting.

(* ---------------------------------------------------------------------- *)
(* Prop form of the placement spec                                         *)
(* ---------------------------------------------------------------------- *)
Definition MainRack (p : rp) (inD : list loc) (R : N * N) : Prop :=
  In R (racks inD) /\ (forall k, In k (racks inD) -> k <> R -> cnt_rack inD k = 1) /\
  cnt_rack inD R <= rp_same p + 1.

Definition MainDc (p : rp) (l : list loc) (D : N) : Prop :=
  In D (dcs l) /\ (forall d, In d (dcs l) -> d <> D -> cnt_dc l d = 1) /\
  length (racks (in_dc D l)) <= rp_rack p + 1 /\ exists R, MainRack p (in_dc D l) R.

Definition SubP (p : rp) (l : list loc) : Prop :=
  NoDup (map l_node l) /\ length (dcs l) <= rp_dc p + 1 /\ (l = [] \/ exists D, MainDc p l D).

Lemma nodup_nodes_iff : forall l, nodup_nodes l = true <-> NoDup (map l_node l).
Proof.
  intros l. unfold nodup_nodes. rewrite Nat.eqb_eq. split; intro H.
  - apply (nodup_len_NoDup N.eq_dec). rewrite map_length. auto.
  - rewrite (NoDup_nodup_len N.eq_dec), map_length; auto.
Qed.

Lemma main_rack_ok_iff : forall p inD R, In R (racks inD) ->
  (main_rack_ok p inD R = true <-> MainRack p inD R).
Proof.
  intros p inD R HR. unfold main_rack_ok, MainRack.
  rewrite andb_true_iff, forallb_forall, Nat.leb_le. split.
  - intros [H1 H2]. split; auto. split; auto.
    intros k Hk Hne. specialize (H1 k Hk). apply orb_true_iff in H1.
    destruct H1 as [H1|H1]; [apply rack_eqb_eq in H1; congruence|apply Nat.eqb_eq; auto].
  - intros [_ [H1 H2]]. split; auto. intros k Hk.
    destruct (rack_dec k R) as [->|Hne].
    + apply orb_true_iff; left; apply rack_eqb_eq; auto.
    + apply orb_true_iff; right; apply Nat.eqb_eq; auto.
Qed.

Lemma main_dc_ok_iff : forall p l D, In D (dcs l) ->
  (main_dc_ok p l D = true <-> MainDc p l D).
Proof.
  intros p l D HD. unfold main_dc_ok, MainDc.
  rewrite !andb_true_iff, forallb_forall, Nat.leb_le, existsb_exists. split.
  - intros [[H1 H2] [R [HR H3]]]. split; auto. split.
    + intros d Hd Hne. specialize (H1 d Hd). apply orb_true_iff in H1.
      destruct H1 as [H1|H1]; [apply N.eqb_eq in H1; congruence|apply Nat.eqb_eq; auto].
    + split; auto. exists R. apply main_rack_ok_iff; auto.
  - intros [_ [H1 [H2 [R HR]]]]. split; [split; auto|].
    + intros d Hd. destruct (N.eq_dec d D) as [->|Hne].
      * apply orb_true_iff; left; apply N.eqb_eq; auto.
      * apply orb_true_iff; right; apply Nat.eqb_eq; auto.
    + exists R. split; [apply HR|]. apply main_rack_ok_iff; auto. apply HR.
Qed.

Lemma sub_placement_iff : forall p l, sub_placement p l = true <-> SubP p l.
Proof.
  intros p l. unfold sub_placement, SubP.
  rewrite !andb_true_iff, nodup_nodes_iff, Nat.leb_le. split.
  - intros [[H1 H2] H3]. split; auto. split; auto.
    destruct l as [|a l]; [left; auto|right].
    apply existsb_exists in H3. destruct H3 as [D [HD H3]]. exists D. apply main_dc_ok_iff; auto.
  - intros [H1 [H2 H3]]. split; auto.
    destruct l as [|a l]; auto. destruct H3 as [H3|[D H3]]; [discriminate|].
    apply existsb_exists. exists D. split; [apply H3|]. apply main_dc_ok_iff; auto. apply H3.
Qed.

(* ---------------------------------------------------------------------- *)
(* the spec does not depend on the order of the replica list               *)
(* ---------------------------------------------------------------------- *)
Lemma filter_perm : forall {A} (g : A -> bool) l l', Permutation l l' -> Permutation (filter g l) (filter g l').
Proof.
  intros A g l l' H. induction H as [|x l l' H IH|x y l|l l' l'' H1 IH1 H2 IH2]; simpl.
  - constructor.
  - destruct (g x); auto.
  - destruct (g x), (g y); auto. constructor.
  - eapply perm_trans; eauto.
Qed.

Lemma cnt_dc_perm : forall l l' d, Permutation l l' -> cnt_dc l d = cnt_dc l' d.
Proof. intros. unfold cnt_dc. apply Permutation_count_occ. apply Permutation_map; auto. Qed.
Lemma cnt_rack_perm : forall l l' k, Permutation l l' -> cnt_rack l k = cnt_rack l' k.
Proof. intros. unfold cnt_rack. apply Permutation_count_occ. apply Permutation_map; auto. Qed.
Lemma dcs_perm : forall l l', Permutation l l' -> Permutation (dcs l) (dcs l').
Proof. intros. unfold dcs. apply nodup_perm. apply Permutation_map; auto. Qed.
Lemma racks_perm : forall l l', Permutation l l' -> Permutation (racks l) (racks l').
Proof. intros. unfold racks. apply nodup_perm. apply Permutation_map; auto. Qed.

Lemma MainRack_perm : forall p a b R, Permutation a b -> MainRack p a R -> MainRack p b R.
Proof.
  intros p a b R HP [H1 [H2 H3]]. pose proof (racks_perm _ _ HP) as HR.
  split; [eapply Permutation_in; eauto|]. split.
  - intros k Hk Hne. rewrite <- (cnt_rack_perm a b); auto. apply H2; auto.
    eapply Permutation_in; [apply Permutation_sym|]; eauto.
  - rewrite <- (cnt_rack_perm a b); auto.
Qed.

Lemma MainDc_perm : forall p l l' D, Permutation l l' -> MainDc p l D -> MainDc p l' D.
Proof.
  intros p l l' D HP [H1 [H2 [H3 [R H4]]]]. pose proof (dcs_perm _ _ HP) as HD.
  assert (Permutation (in_dc D l) (in_dc D l')) as HI by (apply filter_perm; auto).
  split; [eapply Permutation_in; eauto|]. split; [|split].
  - intros d Hd Hne. rewrite <- (cnt_dc_perm l l'); auto. apply H2; auto.
    eapply Permutation_in; [apply Permutation_sym|]; eauto.
  - rewrite <- (Permutation_length (racks_perm _ _ HI)). auto.
  - exists R. eapply MainRack_perm; eauto.
Qed.

Lemma SubP_perm : forall p l l', Permutation l l' -> SubP p l -> SubP p l'.
Proof.
  intros p l l' HP [H1 [H2 H3]]. split; [|split].
  - eapply Permutation_NoDup; [apply Permutation_map; eauto|auto].
  - rewrite <- (Permutation_length (dcs_perm _ _ HP)). auto.
  - destruct H3 as [->|[D HD]].
    + left. apply Permutation_nil; auto.
    + right. exists D. eapply MainDc_perm; eauto.
Qed.

Lemma valid_placement_perm : forall p l l', Permutation l l' ->
  valid_placement p l = true -> valid_placement p l' = true.
Proof.
  intros p l l' HP H. unfold valid_placement in *. apply andb_true_iff in H. destruct H as [H1 H2].
  apply andb_true_iff. split.
  - apply sub_placement_iff. eapply SubP_perm; eauto. apply sub_placement_iff; auto.
  - rewrite <- (Permutation_length HP). auto.
Qed.

(* ---------------------------------------------------------------------- *)
(* small facts about dcs / racks / counts                                   *)
(* ---------------------------------------------------------------------- *)
Lemma in_dcs : forall l d, In d (dcs l) <-> exists r, In r l /\ l_dc r = d.
Proof.
  intros. unfold dcs. rewrite nodup_In, in_map_iff. split; intros [r [H1 H2]]; exists r; auto.
Qed.
Lemma in_racks : forall l k, In k (racks l) <-> exists r, In r l /\ rack_of r = k.
Proof.
  intros. unfold racks. rewrite nodup_In, in_map_iff. split; intros [r [H1 H2]]; exists r; auto.
Qed.

Lemma length_in_dc : forall l D, length (in_dc D l) = cnt_dc l D.
Proof.
  induction l as [|a l IH]; intros D; simpl; auto.
  unfold cnt_dc in *. simpl. destruct (N.eqb_spec (l_dc a) D) as [E|E].
  - simpl. rewrite IH. destruct (N.eq_dec (l_dc a) D); [auto|congruence].
  - rewrite IH. destruct (N.eq_dec (l_dc a) D); [congruence|auto].
Qed.

Lemma cnt_rack_filter_le : forall (g : loc -> bool) l k, cnt_rack (filter g l) k <= cnt_rack l k.
Proof.
  intros g l k. unfold cnt_rack. induction l as [|a l IH]; [simpl; auto|].
  cbn [filter]. destruct (g a); cbn [map count_occ]; destruct (rack_dec (rack_of a) k); lia.
Qed.

Lemma in_in_dc : forall l D r, In r (in_dc D l) <-> In r l /\ l_dc r = D.
Proof. intros. unfold in_dc. rewrite filter_In, N.eqb_eq. tauto. Qed.

Lemma in_dc_all : forall l D, (forall r, In r l -> l_dc r = D) -> in_dc D l = l.
Proof.
  induction l as [|a l IH]; intros D H; simpl; auto.
  rewrite (proj2 (N.eqb_eq _ _) (H a (or_introl eq_refl))). f_equal. apply IH. intros; apply H; right; auto.
Qed.

Lemma list_sum_const : forall {A} (ks : list A) f c, (forall k, In k ks -> f k = c) ->
  list_sum (map f ks) = length ks * c.
Proof.
  induction ks as [|k ks IH]; simpl; intros f c H; [reflexivity|].
  rewrite (H k (or_introl eq_refl)), (IH f c); [reflexivity|]. intros; apply H; right; assumption.
Qed.

Lemma singleton_len1 : forall {A} (l : list A), length l = 1 -> exists x, l = [x].
Proof. intros A [|x [|y l]] H; simpl in H; try lia. exists x; auto. Qed.

(* ---------------------------------------------------------------------- *)
(* isGoodMove's three counts imply the layout is valid (unless x>=1, y>=2)  *)
(* ---------------------------------------------------------------------- *)
Lemma good_counts_SubP : forall p l,
  NoDup (map l_node l) -> l <> [] ->
  length (dcs l) = rp_dc p + 1 ->
  length (racks l) = rp_rack p + rp_dc p + 1 ->
  (forall k, In k (racks l) -> cnt_rack l k = rp_same p + 1) ->
  length l = copy_count p ->
  rp_trig p = false ->
  SubP p l.
Proof.
  intros p l Hnd Hne Hdc Hrk Hcnt Hlen Htr.
  destruct p as [x y z]. unfold copy_count, rp_trig, SubP, MainDc, MainRack in *. cbn [rp_dc rp_rack rp_same] in *.
  assert (length l = (y + x + 1) * (z + 1)) as Hprod.
  { pose proof (len_sum_nodup rack_dec (map rack_of l)) as Hs. rewrite map_length in Hs.
    change (nodup rack_dec (map rack_of l)) with (racks l) in Hs.
    rewrite (list_sum_const (racks l) _ (z + 1)) in Hs.
    - rewrite Hrk in Hs. exact Hs.
    - intros k Hk. apply Hcnt; auto. }
  split; auto. split; [lia|]. right.
  assert (x + y = 0 \/ z = 0) as Hcase by nia.
  destruct Hcase as [Hxy|Hz].
  - (* 00z: one data center, one rack *)
    assert (x = 0) by lia. assert (y = 0) by lia. subst x y.
    destruct (singleton_len1 _ Hdc) as [D HD]. destruct (singleton_len1 _ Hrk) as [R HR].
    assert (in_dc D l = l) as HinD.
    { apply in_dc_all. intros r Hr. assert (In (l_dc r) (dcs l)) as Hi by (apply in_dcs; exists r; auto).
      rewrite HD in Hi. destruct Hi as [Hi|[]]; auto. }
    exists D. split; [rewrite HD; left; auto|]. split.
    + intros d Hd Hne'. rewrite HD in Hd. destruct Hd as [Hd|[]]; congruence.
    + rewrite HinD, Hrk. split; [lia|]. exists R. split; [rewrite HR; left; auto|]. split.
      * intros k Hk Hne'. rewrite HR in Hk. destruct Hk as [Hk|[]]; congruence.
      * rewrite Hcnt; [lia|]. rewrite HR; left; auto.
  - (* xy0: every rack holds one copy *)
    subst z.
    assert (exists D, In D (dcs l) /\ (forall d, In d (dcs l) -> d <> D -> cnt_dc l d = 1) /\ cnt_dc l D <= y + 1)
      as [D [HD [Ho HcD]]].
    { pose proof (len_sum_nodup N.eq_dec (map l_dc l)) as Hs. rewrite map_length in Hs.
      change (nodup N.eq_dec (map l_dc l)) with (dcs l) in Hs.
      change (count_occ N.eq_dec (map l_dc l)) with (cnt_dc l) in Hs.
      assert (forall d, In d (dcs l) -> cnt_dc l d >= 1) as Hge by (intros d Hd; apply (count_pos N.eq_dec); auto).
      destruct (Nat.eq_dec x 0) as [Hx|Hx].
      - subst x. destruct (singleton_len1 _ Hdc) as [D HD]. exists D.
        split; [rewrite HD; left; auto|]. split.
        + intros d Hd Hne'. rewrite HD in Hd. destruct Hd as [Hd|[]]; congruence.
        + rewrite HD in Hs. simpl in Hs. lia.
      - assert (y <= 1) as Hy.
        { destruct (Nat.leb_spec 1 x); destruct (Nat.leb_spec 2 y); simpl in Htr; try discriminate; lia. }
        destruct (Nat.eq_dec y 0) as [Hy0|Hy0].
        + subst y. destruct (dcs l) as [|D ds] eqn:HE; [simpl in Hdc; lia|]. exists D.
          assert (forall d, In d (D :: ds) -> cnt_dc l d = 1) as Hall.
          { apply (sum_eq_len_all_one (D :: ds)); auto. lia. }
          split; [left; auto|]. split; [intros; apply Hall; auto|]. rewrite Hall; [lia|left; auto].
        + assert (y = 1) by lia. subst y.
          destruct (sum_eq_len_plus_one (dcs l) (cnt_dc l)) as [D [H1 [H2 H3]]]; auto.
          { apply NoDup_nodup. } { lia. }
          exists D. split; auto. split; auto. lia. }
    exists D. split; auto. split; auto.
    assert (length (in_dc D l) <= y + 1) as HlenD by (rewrite length_in_dc; auto).
    split.
    + eapply Nat.le_trans; [apply nodup_len_le|]. rewrite map_length. auto.
    + assert (forall k, In k (racks (in_dc D l)) -> cnt_rack (in_dc D l) k = 1) as Hone.
      { intros k Hk. assert (cnt_rack (in_dc D l) k >= 1) by (apply (count_pos rack_dec); auto).
        assert (cnt_rack (in_dc D l) k <= cnt_rack l k) by apply cnt_rack_filter_le.
        assert (In k (racks l)) as Hkl.
        { apply in_racks in Hk. destruct Hk as [r [Hr Hk]]. apply in_in_dc in Hr. apply in_racks. exists r; tauto. }
        rewrite (Hcnt k Hkl) in *. lia. }
      destruct (racks (in_dc D l)) as [|R rs] eqn:HE.
      * exfalso. apply in_dcs in HD. destruct HD as [r [Hr HrD]].
        assert (In (rack_of r) (racks (in_dc D l))) as Hi by (apply in_racks; exists r; split; auto; apply in_in_dc; auto).
        rewrite HE in Hi. destruct Hi.
      * exists R. split; [left; auto|]. split; [intros; apply Hone; auto|]. rewrite Hone; [lia|left; auto].
Qed.
