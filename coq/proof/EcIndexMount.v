(* Proofs for the C07 audit item 1: ec.decode (FindDatFileSize + WriteDatFile +
   WriteIdxFileFromEcIndex) followed by the mount of the decoded volume (Volume.load:
   CheckAndFixVolumeDataIntegrity + doLoading), model/EcIndex.v [dm_*]. *)
From Coq Require Import List NArith ZArith Bool Lia Sorted.
From Coq Require Import ZifyBool ZifyN ZifyNat.
From SW Require Import model.EcIndex proof.EcIndexProofs.
Import ListNotations.
Local Open Scope N_scope.

(* ---------- doLoading = MemDb replay when no entry has Size 0 ---------- *)
Lemma nm_step_memdb : forall m e, e_size e <> 0%Z -> dm_nm_step m e = memdb_step m e.
Proof.
  intros m e Hs. unfold dm_nm_step, memdb_step, size_is_valid, size_is_deleted, tombstone.
  destruct (e_off e =? 0); cbn [negb andb orb]; [reflexivity|].
  destruct (Z.ltb_spec 0 (e_size e)) as [Hp|Hp]; destruct (Z.ltb_spec (e_size e) 0) as [Hn|Hn];
    destruct (Z.eqb_spec (e_size e) (-1)) as [He|He]; cbn [negb andb orb]; try reflexivity; lia.
Qed.

Lemma nm_load_memdb : forall es acc, Forall (fun e => e_size e <> 0%Z) es ->
  fold_left dm_nm_step es acc = fold_left memdb_step es acc.
Proof.
  induction es as [|e es IH]; intros acc H; [reflexivity|].
  inversion H as [|? ? He Hes]; subst. cbn [fold_left]. rewrite nm_step_memdb by assumption.
  apply IH. assumption.
Qed.

Lemma tomb_sizes : forall js, Forall (fun e => e_size e <> 0%Z) (map tomb_entry js).
Proof.
  intros js. rewrite Forall_forall. intros x Hx. apply in_map_iff in Hx.
  destruct Hx as [k [Hk _]]. subst x. unfold tomb_entry, tombstone. simpl. lia.
Qed.

Lemma walk_decoded_idx : forall osz es js, ok_osz osz -> Forall (wf_entry osz) es ->
  Forall (fun k => k < two64) js ->
  walk osz (write_idx_from_ec osz (encode osz es) (concat (map enc_key js))) = es ++ map tomb_entry js.
Proof.
  intros osz es js Hosz Hwf Hjs. unfold write_idx_from_ec. rewrite ecj_keys_concat by assumption.
  rewrite <- encode_app. apply walk_encode; [assumption|]. apply Forall_app; auto using tomb_entries_wf.
Qed.

(* ---------- FindDatFileSize covers every live entry ---------- *)
Lemma dat_size_acc_ge : forall es a, a <= fold_left (fun acc e => if size_is_deleted (e_size e) then acc
                          else if acc <? dm_stop e then dm_stop e else acc) es a.
Proof.
  induction es as [|e es IH]; intros a; cbn [fold_left]; [lia|].
  destruct (size_is_deleted (e_size e)); [apply IH|].
  destruct (N.ltb_spec a (dm_stop e)) as [Hlt|Hge]; [|apply IH].
  specialize (IH (dm_stop e)). lia.
Qed.

Lemma dat_size_acc_in : forall es a e, In e es -> live e = true ->
  dm_stop e <= fold_left (fun acc e => if size_is_deleted (e_size e) then acc
                          else if acc <? dm_stop e then dm_stop e else acc) es a.
Proof.
  induction es as [|x es IH]; intros a e Hin Hl; [destruct Hin|].
  cbn [fold_left]. destruct Hin as [Hx|Hin].
  - subst x. unfold live in Hl. apply negb_true_iff in Hl. rewrite Hl.
    destruct (N.ltb_spec a (dm_stop e)) as [Hlt|Hge].
    + apply dat_size_acc_ge.
    + pose proof (dat_size_acc_ge es a). lia.
  - apply IH; assumption.
Qed.

Lemma dat_size_ge : forall es e, In e es -> live e = true -> dm_stop e <= dm_dat_size_es es.
Proof. intros es e. unfold dm_dat_size_es. apply dat_size_acc_in. Qed.

(* ---------- reading the live set ---------- *)
Definition rfind (k : N) (es : list entry) : option entry := find (fun e => e_key e =? k) es.

Lemma om_get_map : forall l k,
  om_get (map kv_of_entry l) k = option_map (fun e => (e_off e, e_size e)) (rfind k l).
Proof.
  induction l as [|e l IH]; intros k; [reflexivity|]. cbn [map om_get rfind find kv_of_entry].
  rewrite (N.eqb_sym k (e_key e)). destruct (e_key e =? k); [reflexivity|]. apply IH.
Qed.

Lemma rfind_filter : forall f k es, sorted_keys es ->
  rfind k (filter f es) = match rfind k es with Some e => if f e then Some e else None | None => None end.
Proof.
  intros f k es Hs. induction Hs as [|e es Hs IH Hall]; [reflexivity|].
  cbn [filter rfind find]. destruct (N.eqb_spec (e_key e) k) as [Hk|Hk].
  - destruct (f e) eqn:Hf.
    + cbn [find]. destruct (N.eqb_spec (e_key e) k); [reflexivity|contradiction].
    + apply find_none_keys. intros Hin. apply in_map_iff in Hin. destruct Hin as [x [Hxk Hx]].
      apply filter_In in Hx. destruct Hx as [Hx _]. rewrite Forall_forall in Hall.
      specialize (Hall x Hx). lia.
  - destruct (f e).
    + cbn [find]. destruct (N.eqb_spec (e_key e) k); [contradiction|]. exact IH.
    + exact IH.
Qed.

(* ---------- the theorems ---------- *)
Section Decode.
Variable osz : N.
Variables (es : list entry) (js : list N) (recs : list dm_rec).
Hypothesis Hosz : ok_osz osz.
Hypothesis Hwf : Forall (wf_entry osz) es.
Hypothesis Hs : sorted_keys es.
Hypothesis Hnz : Forall (fun e => e_off e <> 0) es.
Hypothesis Hjs : Forall (fun k => k < two64) js.

Let ecx := encode osz es.
Let ecj := concat (map enc_key js).

Lemma decode_dat_size : dm_dat_size osz ecx = dm_dat_size_es es.
Proof. unfold dm_dat_size, ecx. rewrite walk_encode by assumption. reflexivity. Qed.

(* PARTIAL: outside the trigger (the integrity check of the mount changes nothing), for an index
   without Size-0 entries (finding C04 k=0: doLoading drops them), the mounted volume's needle
   map is exactly the live set "live entries whose key is not journalled", the .dat keeps its
   decoded length, no index entry is dropped, and every key reads accordingly. *)
Theorem decode_then_load_partial :
  Forall (fun e => e_size e <> 0%Z) es ->
  8 <= dm_dat_size osz ecx ->
  dm_cuts osz ecx ecj recs = false ->
  dm_decode_mount osz ecx ecj recs =
    Some (live_spec js es, dm_dat_size osz ecx, N.of_nat (length es + length js)) /\
  forall k, dm_read (live_spec js es) (dm_dat_size osz ecx) k =
    match rfind k es with
    | Some e => if live e && negb (in_keys js k) then DmData (e_off e) (e_size e) else DmNotFound
    | None => DmNotFound
    end.
Proof.
  intros Hsz Hd Hc. split.
  - unfold dm_decode_mount, dm_mount. unfold dm_cuts in Hc.
    destruct (N.ltb_spec (dm_dat_size osz ecx) 8) as [Hlt|_]; [lia|].
    unfold ecx, ecj in *. rewrite walk_decoded_idx in * by assumption.
    destruct (dm_check_fix (es ++ map tomb_entry js)
                (dm_keep recs (dm_dat_size osz (encode osz es))) (dm_dat_size osz (encode osz es))) as [len' h].
    apply negb_false_iff in Hc. apply andb_true_iff in Hc. destruct Hc as [Hl Hh].
    apply N.eqb_eq in Hl. apply N.eqb_eq in Hh. subst len' h.
    rewrite Nat2N.id. rewrite firstn_all.
    assert (Hload : dm_nm_load (es ++ map tomb_entry js) = live_spec js es).
    { unfold dm_nm_load. rewrite nm_load_memdb by (apply Forall_app; split; [assumption|apply tomb_sizes]).
      pose proof (rebuild_same_live_set osz es js Hosz Hwf Hs Hnz Hjs) as [Hm _].
      unfold memdb_load in Hm. rewrite walk_decoded_idx in Hm by assumption. exact Hm. }
    rewrite Hload. rewrite app_length, map_length. reflexivity.
  - intros k. unfold dm_read, live_spec. rewrite om_get_map. rewrite rfind_filter by assumption.
    destruct (rfind k es) as [e|] eqn:Hf; [|reflexivity].
    apply find_some in Hf. destruct Hf as [Hin Hk]. apply N.eqb_eq in Hk. subst k.
    destruct (live e) eqn:Hl; cbn [andb]; [|reflexivity].
    destruct (in_keys js (e_key e)); cbn [negb option_map]; [reflexivity|].
    rewrite Forall_forall in Hnz, Hsz.
    destruct (N.eqb_spec (e_off e) 0) as [Hz|_]; [exfalso; exact (Hnz e Hin Hz)|].
    unfold live in Hl. apply negb_true_iff in Hl. rewrite Hl.
    destruct (Z.eqb_spec (e_size e) 0) as [Hz|_]; [exfalso; exact (Hsz e Hin Hz)|].
    pose proof (dat_size_ge es e Hin) as Hge. unfold live in Hge. rewrite Hl in Hge.
    specialize (Hge eq_refl). rewrite decode_dat_size. unfold dm_stop in Hge.
    destruct (N.leb_spec (e_off e * 8 + dm_span (e_size e)) (dm_dat_size_es es)); [reflexivity|lia].
Qed.

(* a non-empty journal protects the decoded volume: the last index entry is a zero-offset
   tombstone, doCheckAndFixVolumeData returns nil on it and the loop stops: never inside the trigger *)
Theorem decode_journal_no_cut : js <> [] -> dm_cuts osz ecx ecj recs = false.
Proof.
  intros Hne. unfold dm_cuts, ecx, ecj. rewrite walk_decoded_idx by assumption.
  destruct (exists_last Hne) as [js' [j Hj]]. rewrite Hj.
  unfold dm_check_fix. rewrite map_app, app_assoc, rev_app_distr. cbn [map rev app].
  cbn [dm_cf_loop tomb_entry e_off]. change (0 =? 0) with true. cbv iota.
  rewrite !N.eqb_refl. reflexivity.
Qed.
End Decode.

(* REFUTED: the full statement ("the decoded and mounted volume serves the live set") fails.
   Witness (audit): Write(1,"aaa"), Write(2,"bbb"), Write(1,"cccc"), encoded, decoded with an
   empty journal: the .idx is the key-sorted .ecx, its last entry (key 2) is taken for the last
   record and the .dat is truncated 128 -> 88: key 1 (live, never deleted) cannot be read. *)
Definition w_es : list entry :=
  [ {| e_key := 1; e_off := 11; e_size := 9%Z |}; {| e_key := 2; e_off := 6; e_size := 8%Z |} ].
Definition w_recs : list dm_rec :=
  [ {| dm_off := 1; dm_key := 1; dm_size := 8%Z |}; {| dm_off := 6; dm_key := 2; dm_size := 8%Z |};
    {| dm_off := 11; dm_key := 1; dm_size := 9%Z |} ].

Lemma w_es_ok : ok_osz 4 /\ Forall (wf_entry 4) w_es /\ sorted_keys w_es /\
  Forall (fun e => e_off e <> 0) w_es /\ Forall (fun e => e_size e <> 0%Z) w_es.
Proof.
  split; [left; reflexivity|]. split; [repeat constructor; vm_compute; congruence|].
  split; [repeat constructor|]. split; repeat constructor; discriminate.
Qed.

Lemma decode_then_load_refuted :
  exists osz es recs,
    ok_osz osz /\ Forall (wf_entry osz) es /\ sorted_keys es /\
    Forall (fun e => e_off e <> 0) es /\ Forall (fun e => e_size e <> 0%Z) es /\
    dm_cuts osz (encode osz es) [] recs = true /\
    exists m len' h k e,
      dm_decode_mount osz (encode osz es) [] recs = Some (m, len', h) /\
      rfind k es = Some e /\ live e = true /\ dm_read m len' k = DmReadErr.
Proof.
  exists 4, w_es, w_recs. destruct w_es_ok as [H1 [H2 [H3 [H4 H5]]]].
  repeat (split; [assumption|]). split; [vm_compute; reflexivity|].
  exists [(1, (11, 9%Z)); (2, (6, 8%Z))], 88, 2, 1, {| e_key := 1; e_off := 11; e_size := 9%Z |}.
  repeat split; vm_compute; reflexivity.
Qed.

(* non-vacuity of the partial theorem with an EMPTY journal: the largest key was written last
   (Write(1,"aaa"), Write(2,"bbb")): no cut, both keys served; and with a journal: key 1 of the
   refutation witness deleted on the EC volume, nothing is cut and key 2 is served *)
Definition x_es : list entry :=
  [ {| e_key := 1; e_off := 1; e_size := 8%Z |}; {| e_key := 2; e_off := 6; e_size := 8%Z |} ].
Lemma decode_then_load_example :
  ok_osz 5 /\ Forall (wf_entry 5) x_es /\ sorted_keys x_es /\
  Forall (fun e => e_off e <> 0) x_es /\ Forall (fun e => e_size e <> 0%Z) x_es /\
  8 <= dm_dat_size 5 (encode 5 x_es) /\
  dm_cuts 5 (encode 5 x_es) [] (firstn 2 w_recs) = false /\
  dm_decode_mount 5 (encode 5 x_es) [] (firstn 2 w_recs) = Some ([(1, (1, 8%Z)); (2, (6, 8%Z))], 88, 2) /\
  dm_cuts 4 (encode 4 (set_deleted 1 w_es)) (enc_key 1) w_recs = false /\
  dm_decode_mount 4 (encode 4 (set_deleted 1 w_es)) (enc_key 1) w_recs = Some ([(2, (6, 8%Z))], 88, 3).
Proof.
  split; [right; reflexivity|]. split; [repeat constructor; vm_compute; congruence|].
  split; [repeat constructor|]. split; [repeat constructor; discriminate|].
  split; [repeat constructor; discriminate|].
  repeat split; vm_compute; congruence.
Qed.

(* the non-vacuity example of props/C07.v (moved here: props only uses [exact]) *)
Definition c07_ex_es : list entry :=
  [ {| e_key := 1; e_off := 10; e_size := 100%Z |};
    {| e_key := 2; e_off := 4294967296 + 7; e_size := 0%Z |};
    {| e_key := 3; e_off := 1099511627775; e_size := 2147483647%Z |};
    {| e_key := 4294967301; e_off := 12; e_size := 5%Z |};
    {| e_key := 18446744073709551615; e_off := 13; e_size := 6%Z |} ].
Lemma c07_example_holds :
  ok_osz 5 /\ Forall (wf_entry 5) c07_ex_es /\ sorted_keys c07_ex_es /\
  Forall (fun e => e_off e <> 0) c07_ex_es /\
  delete_from_ecx 5 (encode 5 c07_ex_es) [] 3 =
    (ENone, encode 5 (set_deleted 3 c07_ex_es), [0;0;0;0;0;0;0;3]) /\
  map (fun k => sres_val (find_from_ecx 5 (encode 5 (set_deleted 3 c07_ex_es)) k))
      [1; 2; 3; 4; 4294967301] =
    [Some (10, 100%Z); Some (4294967303, 0%Z); Some (1099511627775, (-1)%Z); None; Some (12, 5%Z)] /\
  is_live 7 c07_ex_es = false /\ is_live 3 c07_ex_es = true.
Proof.
  split; [right; reflexivity|]. split; [repeat constructor; vm_compute; congruence|].
  split; [repeat constructor|]. split; [repeat constructor; discriminate|].
  repeat split; vm_compute; reflexivity.
Qed.
