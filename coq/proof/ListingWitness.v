(* C19 proofs, part 5: the remaining concrete witness against the full statement
   (reproduced on the real Filer by harness/cmd/c19), the former witnesses (now
   repaired: they satisfy the statement) and non-vacuity examples. *)
From Coq Require Import List NArith Bool String Ascii Arith Lia.
From SW Require Import model.Listing proof.ListingBase proof.ListingStore proof.ListingScan proof.ListingPattern proof.ListingProofs.
Import ListNotations.
Local Open Scope string_scope.
Local Open Scope list_scope.
Local Notation length := List.length.

Definition live_dir (names : list string) : dirst := map (fun n => (n, false)) names.

Ltac wf_by_compute := apply wfb_wf; vm_compute; reflexivity.
Ltac conj_compute := repeat (match goal with |- _ /\ _ => split end); vm_compute; reflexivity.

(* k = 0: prefix and pattern together (the code comment calls them mutually exclusive):
   the pattern's literal prefix replaces the requested prefix *)
Lemma refuted_prefix_and_pattern :
  let d := live_dir ["a"; "ab"; "b"] in
  wf d /\ trig_narrow "b" "a*" = true /\
  (exists r, list_entries Lvl d "" false 10 "b" "a*" "" = Some (["a"; "ab"], false, r)) /\
  (exists r, list_entries Gen d "" false 10 "b" "a*" "" = Some (["a"; "ab"], false, r)) /\
  spec_names d "" false "b" "a*" "" = [] /\
  ~ exact_at Lvl d "" false 10 "b" "a*" "" /\ ~ exact_at Gen d "" false 10 "b" "a*" "".
Proof.
  cbv zeta. split; [wf_by_compute|]. split; [reflexivity|].
  split; [eexists; vm_compute; reflexivity|]. split; [eexists; vm_compute; reflexivity|].
  split; [vm_compute; reflexivity|].
  split; intros [names [more [r [H [Hn _]]]]]; vm_compute in H; injection H as H1 H2 H3;
    rewrite <- H1 in Hn; vm_compute in Hn; discriminate Hn.
Qed.

(* ... also when the pattern has no literal prefix: the rest pattern is then matched against
   the name WITHOUT the requested prefix *)
Lemma refuted_prefix_and_pattern_rest :
  let d := live_dir ["a"; "ab"; "b"] in
  wf d /\ trig_narrow "a" "?b" = true /\
  (exists r, list_entries Lvl d "" false 10 "a" "?b" "" = Some ([], false, r)) /\
  spec_names d "" false "a" "?b" "" = ["ab"] /\
  ~ exact_at Lvl d "" false 10 "a" "?b" "".
Proof.
  cbv zeta. split; [wf_by_compute|]. split; [reflexivity|].
  split; [eexists; vm_compute; reflexivity|]. split; [vm_compute; reflexivity|].
  intros [names [more [r [H [Hn _]]]]]. vm_compute in H. injection H as H1 H2 H3.
  rewrite <- H1 in Hn. vm_compute in Hn. discriminate Hn.
Qed.

(* ---- the former witnesses, after the repairs ---- *)
Example repaired_witnesses :
  (* pattern without wildcard *)
  (exists r, list_entries Lvl (live_dir ["a"; "ab"; "b"]) "" false 10 "" "ab" "" = Some (["ab"], false, r)) /\
  (* '?' before the first '*' *)
  (exists r, list_entries Lvl (live_dir ["ab"; "abc"; "bb"]) "" false 10 "" "?b*" "" = Some (["ab"; "abc"; "bb"], false, r)) /\
  (* leveldb, start below the prefix range *)
  (exists r, list_entries Lvl (live_dir ["a"; "b"]) "a" false 10 "b" "" "" = Some (["b"], false, r)) /\
  (* generic path: terminates, no duplicates *)
  (exists r, list_entries Gen (live_dir ["a"; "b"; "c"; "d"]) "" false 0 "d" "" "" = Some ([], true, r)) /\
  (exists r, list_entries Gen [("a", false); ("b", true); ("b0", true); ("ba", false); ("bb", false)] "" false 3 "b" "" ""
             = Some (["ba"; "bb"], false, r)) /\
  (* refill that finds nothing *)
  (exists r, list_entries Lvl [("a", false); ("b", false); ("c", true)] "" false 2 "" "*a" "" = Some (["a"], false, r)) /\
  paginate_stream 10 Lvl [("a", false); ("b", true)] "" false 3 "" = Some [["a"]].
Proof.
  repeat (match goal with |- _ /\ _ => split end);
    first [vm_compute; reflexivity | eexists; vm_compute; reflexivity].
Qed.

(* ---- non-vacuity ---- *)
Definition ex_dir : dirst :=
  [("a", false); ("a b", true); ("ab", false); ("abc", true); ("b", false); ("b0", true); ("ba", false); ("c", false)].

Example exact_example :
  wf ex_dir /\
  trig_narrow "" "a*" = false /\
  (exists r, list_entries Lvl ex_dir "a" false 1 "" "a*" "*c" = Some (["ab"], false, r) /\
             map ename (r_dir r) = ["a"; "ab"; "b"; "b0"; "ba"; "c"]) /\
  (exists r, list_entries Gen ex_dir "a" false 1 "" "a*" "*c" = Some (["ab"], false, r) /\
             map ename (r_dir r) = ["a"; "ab"; "b"; "b0"; "ba"; "c"]) /\
  (* expired entries interleaved, page still full *)
  (exists r, list_entries Lvl ex_dir "" false 2 "b" "" "" = Some (["b"; "ba"], false, r)) /\
  (exists r, list_entries Gen ex_dir "" false 1 "b" "" "" = Some (["b"], true, r)).
Proof.
  split; [wf_by_compute|]. split; [reflexivity|].
  split; [eexists; split; vm_compute; reflexivity|].
  split; [eexists; split; vm_compute; reflexivity|].
  split; eexists; vm_compute; reflexivity.
Qed.

Example paginate_example :
  paginate 10 Lvl ex_dir "" false 2 "" "" "a*" = Some [["b"; "ba"]; ["c"]] /\
  paginate 10 Gen ex_dir "" false 2 "" "" "a*" = Some [["b"; "ba"]; ["c"]] /\
  paginate_stream 10 Lvl ex_dir "" false 2 "" = Some [["a"; "ab"]; ["b"; "ba"]; ["c"]] /\
  paginate_stream 10 Gen ex_dir "" false 2 "a" = Some [["a"; "ab"]] /\
  spec_names ex_dir "" false "" "" "a*" = ["b"; "ba"; "c"].
Proof. conj_compute. Qed.

Example refill_example :
  exists r, list_valid Lvl ex_dir "" true 3 "a" = Some r /\
            r_names r = ["a"; "ab"] /\ map ename (r_dir r) = ["a"; "ab"; "b"; "b0"; "ba"; "c"].
Proof. eexists. conj_compute. Qed.

(* prefix and pattern together, but the pattern's literal prefix extends the prefix: outside the
   narrowed trigger, served exactly *)
Example narrow_example :
  trig_both "a" "ab*" = true /\ trig_narrow "a" "ab*" = false /\
  (exists r, list_entries Lvl ex_dir "" false 5 "a" "ab*" "" = Some (["ab"], false, r)) /\
  (exists r, list_entries Gen ex_dir "" false 5 "a" "ab*" "" = Some (["ab"], false, r)) /\
  spec_names ex_dir "" false "a" "ab*" "" = ["ab"].
Proof.
  split; [reflexivity|]. split; [reflexivity|].
  split; [eexists; vm_compute; reflexivity|]. split; [eexists; vm_compute; reflexivity|].
  vm_compute; reflexivity.
Qed.
