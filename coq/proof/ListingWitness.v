(* C19 proofs, part 5: concrete witnesses against the full statement (each one was
   reproduced on the real Filer by harness/cmd/c19) and non-vacuity examples. *)
From Coq Require Import List NArith Bool String Ascii Arith Lia.
From SW Require Import model.Listing proof.ListingBase proof.ListingStore proof.ListingPattern proof.ListingProofs.
Import ListNotations.
Local Open Scope string_scope.
Local Open Scope list_scope.
Local Notation length := List.length.

Definition live_dir (names : list string) : dirst := map (fun n => (n, false)) names.

Ltac wf_by_compute := apply wfb_wf; vm_compute; reflexivity.
Ltac conj_compute := repeat (match goal with |- _ /\ _ => split end); vm_compute; reflexivity.
Ltac refute_exact :=
  let names := fresh "names" in let more := fresh "more" in let r := fresh "r" in
  let H := fresh "H" in let Hn := fresh "Hn" in let Hm := fresh "Hm" in
  intros [names [more [r [H [Hn Hm]]]]]; vm_compute in H;
  first [discriminate H
        | (let H1 := fresh "H1" in let H2 := fresh "H2" in let H3 := fresh "H3" in
           injection H as H1 H2 H3; rewrite <- H1 in Hn; rewrite <- H2 in Hm;
           vm_compute in Hn; vm_compute in Hm; first [discriminate Hn | discriminate Hm])].

(* k = 0: a pattern without wildcard is dropped: everything is listed *)
Lemma refuted_nowild :
  let d := live_dir ["a"; "ab"; "b"] in
  wf d /\ trig_nowild "ab" = true /\ run_trigger Lvl d "" false 10 "" "ab" "" = false /\
  list_entries Lvl d "" false 10 "" "ab" "" <> None /\
  ~ exact_at Lvl d "" false 10 "" "ab" "".
Proof.
  cbv zeta. split; [wf_by_compute|]. split; [reflexivity|]. split; [vm_compute; reflexivity|].
  split; [vm_compute; discriminate|]. refute_exact.
Qed.

(* k = 1: '?' before the first '*' becomes part of a literal prefix *)
Lemma refuted_qprefix :
  let d := live_dir ["ab"; "abc"; "bb"] in
  wf d /\ trig_qprefix "?b*" = true /\ trig_nowild "?b*" = false /\
  run_trigger Lvl d "" false 10 "" "?b*" "" = false /\
  spec_names d "" false "" "?b*" "" = ["ab"; "abc"; "bb"] /\
  ~ exact_at Lvl d "" false 10 "" "?b*" "".
Proof.
  cbv zeta. split; [wf_by_compute|]. repeat (split; [vm_compute; reflexivity|]). refute_exact.
Qed.

(* k = 2: leveldb stores, start name below the prefix range: empty page *)
Lemma refuted_start_below_prefix :
  let d := live_dir ["a"; "b"] in
  wf d /\ pat_trigger "b" "" = false /\ lvl_below d "a" "b" = true /\
  spec_names d "a" false "b" "" "" = ["b"] /\
  ~ exact_at Lvl d "a" false 10 "b" "" "" /\
  exact_at Gen d "a" false 10 "b" "" "".
Proof.
  cbv zeta. split; [wf_by_compute|]. repeat (split; [vm_compute; reflexivity|]). split; [refute_exact|].
  eexists _, _, _. split; [vm_compute; reflexivity|]. split; vm_compute; reflexivity.
Qed.

(* k = 3: generic path (stores without native prefix listing): the re-query inside
   prefixFilterEntries always restarts from the first batch's last name *)
Lemma refuted_generic_hang :
  let d := live_dir ["a"; "b"; "c"; "d"] in
  wf d /\ pat_trigger "d" "" = false /\
  list_entries Gen d "" false 0 "d" "" "" = None /\
  ~ exact_at Gen d "" false 0 "d" "" "" /\
  exact_at Lvl d "" false 0 "d" "" "".
Proof.
  cbv zeta. split; [wf_by_compute|]. repeat (split; [vm_compute; reflexivity|]). split; [refute_exact|].
  eexists _, _, _. split; [vm_compute; reflexivity|]. split; vm_compute; reflexivity.
Qed.

(* ... and that None is a real divergence of the loop, whatever the fuel *)
Lemma generic_hang_diverges :
  let d := live_dir ["a"; "b"; "c"; "d"] in
  forall fuel, pf_loop fuel d 1 "d" (last_name (mem_list d "" false 1)) 0 (mem_list d "" false 1) [] false = None.
Proof.
  cbv zeta. intros fuel. destruct fuel as [|f]; [reflexivity|].
  rewrite pf_loop_S.
  change (pf_loop f (live_dir ["a"; "b"; "c"; "d"]) 1 "d" "a" 0 [("b", false)] [] true = None).
  apply pf_loop_stuck; try reflexivity. discriminate.
Qed.

Lemma refuted_generic_dup :
  let d := [("a", false); ("b", true); ("b0", true); ("ba", false); ("bb", false)] in
  wf d /\ pat_trigger "b" "" = false /\
  (exists more r, list_entries Gen d "" false 3 "b" "" "" = Some (["ba"; "bb"; "bb"], more, r) /\ r_flag r = true) /\
  spec_names d "" false "b" "" "" = ["ba"; "bb"] /\
  ~ exact_at Gen d "" false 3 "b" "" "".
Proof.
  cbv zeta. split; [wf_by_compute|]. split; [vm_compute; reflexivity|].
  split; [eexists _, _; split; vm_compute; reflexivity|]. split; [vm_compute; reflexivity|]. refute_exact.
Qed.

(* k = 4: a refill that finds nothing resets lastFileName to "": the next refill starts over *)
Lemma refuted_restart :
  let d := [("a", false); ("b", false); ("c", true)] in
  wf d /\ pat_trigger "" "*a" = false /\
  (exists more r, list_entries Lvl d "" false 2 "" "*a" "" = Some (["a"; "a"], more, r) /\
                  r_flag r = false /\ r_restart r = true) /\
  spec_names d "" false "" "*a" "" = ["a"] /\
  ~ exact_at Lvl d "" false 2 "" "*a" "" /\ ~ exact_at Gen d "" false 2 "" "*a" "".
Proof.
  cbv zeta. split; [wf_by_compute|]. split; [vm_compute; reflexivity|].
  split; [eexists _, _; split; [|split]; vm_compute; reflexivity|]. split; [vm_compute; reflexivity|].
  split; refute_exact.
Qed.

(* k = 5: prefix and pattern together (the code comment calls them mutually exclusive) *)
Lemma refuted_prefix_and_pattern :
  let d := live_dir ["a"; "ab"; "b"] in
  wf d /\ trig_both "b" "a*" = true /\ trig_nowild "a*" = false /\ trig_qprefix "a*" = false /\
  run_trigger Lvl d "" false 10 "b" "a*" "" = false /\
  spec_names d "" false "b" "a*" "" = [] /\
  ~ exact_at Lvl d "" false 10 "b" "a*" "".
Proof.
  cbv zeta. split; [wf_by_compute|]. repeat (split; [vm_compute; reflexivity|]). refute_exact.
Qed.

(* following the last returned name: a duplicate *)
Lemma refuted_paginate :
  let d := [("a", false); ("b", false); ("c", true)] in
  wf d /\ pat_trigger "" "*a" = false /\
  paginate 10 Lvl d "" false 2 "" "*a" "" = Some ([["a"; "a"]], false, true) /\
  spec_names d "" false "" "*a" "" = ["a"].
Proof. cbv zeta. split; [wf_by_compute|]. conj_compute. Qed.

(* the gRPC server's loop: lastFileName comes back "" although an entry was returned *)
Lemma refuted_paginate_stream :
  let d := [("a", false); ("b", true)] in
  wf d /\
  paginate_stream 10 Lvl d "" false 3 "" = Some ([["a"]; ["a"]], false, true) /\
  paginate_stream 10 Gen d "" false 3 "" = Some ([["a"]; ["a"]], false, true) /\
  spec_names d "" false "" "" "" = ["a"].
Proof. cbv zeta. split; [wf_by_compute|]. conj_compute. Qed.

(* ---- non-vacuity: the hypotheses of the partial theorems hold on non-trivial inputs ---- *)
Definition ex_dir : dirst :=
  [("a", false); ("a b", true); ("ab", false); ("abc", true); ("b", false); ("b0", true); ("ba", false); ("c", false)].

Example exact_example :
  wf ex_dir /\
  pat_trigger "" "a*" = false /\ run_trigger Lvl ex_dir "a" false 1 "" "a*" "" = false /\
  (exists r, list_entries Lvl ex_dir "a" false 1 "" "a*" "" = Some (["ab"], false, r) /\
             map ename (r_dir r) = ["a"; "ab"; "b"; "b0"; "ba"; "c"]) /\
  (* expired entries interleaved, page still full *)
  pat_trigger "b" "" = false /\ run_trigger Lvl ex_dir "" false 2 "b" "" "" = false /\
  (exists r, list_entries Lvl ex_dir "" false 2 "b" "" "" = Some (["b"; "ba"], false, r)).
Proof.
  split; [wf_by_compute|].
  split; [vm_compute; reflexivity|]. split; [vm_compute; reflexivity|].
  split; [eexists; split; vm_compute; reflexivity|].
  split; [vm_compute; reflexivity|]. split; [vm_compute; reflexivity|].
  eexists. vm_compute. reflexivity.
Qed.

Example paginate_example :
  paginate 10 Lvl ex_dir "" false 2 "" "" "a*" = Some ([["b"; "ba"]; ["c"]], false, false) /\
  paginate 10 Gen ex_dir "" false 2 "" "" "a*" = Some ([["b"; "ba"]; ["c"]], false, false) /\
  paginate_stream 10 Lvl ex_dir "" false 2 "" = Some ([["a"; "ab"]; ["b"; "ba"]; ["c"]], false, false) /\
  spec_names ex_dir "" false "" "" "a*" = ["b"; "ba"; "c"].
Proof. conj_compute. Qed.

Example refill_example :
  exists r, list_valid Lvl ex_dir "" true 3 "a" = Some r /\ r_flag r = false /\
            r_names r = ["a"; "ab"] /\ map ename (r_dir r) = ["a"; "ab"; "b"; "b0"; "ba"; "c"].
Proof. eexists. conj_compute. Qed.
