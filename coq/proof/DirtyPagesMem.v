(* C30: theorems about the in-memory dirty pages (ContinuousIntervals / ContinuousDirtyPages). *)
From Coq Require Import List ZArith NArith Bool Lia.
From SW Require Import model.DirtyPages proof.DirtyPagesBase proof.DirtyPagesIntervals proof.DirtyPagesState.
Import ListNotations.
Local Open Scope Z_scope.

(* ================= histories ================= *)
Lemma exec_app : forall {S} (step : S -> op -> S * obs) a b s,
  exec S step s (a ++ b) = exec S step (exec S step s a) b.
Proof. intros S step a. induction a as [|o a IH]; intros b s; simpl; auto. Qed.

Lemma trigger_app : forall {S} step ends_of meta_of a b (s : S),
  trigger S step ends_of meta_of s (a ++ b) = None ->
  trigger S step ends_of meta_of s a = None /\
  trigger S step ends_of meta_of (exec S step s a) b = None.
Proof.
  intros S step ends_of meta_of a. induction a as [|o a IH]; intros b s H; simpl in *; auto.
  destruct (trig_at (ends_of s) (meta_of s) o); [discriminate|]. apply IH; auto.
Qed.

Lemma pfile_app : forall a b, pfile (a ++ b) = fold_left pstep b (pfile a).
Proof. intros. unfold pfile. apply fold_left_app. Qed.

Lemma inv0 : inv mstate0 [].
Proof.
  unfold inv. constructor; cbn; auto; try lia.
  split; simpl; auto.
Qed.

Lemma m_exec_inv : forall limit ops s f, inv s f -> Forall op_ok ops ->
  trigger mstate (m_step limit) (fun s => map (tail_end (list N)) (m_iv s)) m_meta s ops = None ->
  inv (exec mstate (m_step limit) s ops) (fold_left pstep ops f).
Proof.
  intros limit. induction ops as [|o ops IH]; intros s f I Hok Htr; simpl; auto.
  inversion Hok as [|? ? Ho Hops]; subst. simpl in Htr.
  destruct (trig_at (map (tail_end (list N)) (m_iv s)) (m_meta s) o) eqn:E; [discriminate|].
  apply IH; auto. apply m_step_inv; auto.
Qed.

(* after a flush the stored chunks resolve to the POSIX file *)
Lemma flush_content : forall s f, inv s f -> content_of (m_meta (m_flush s)) = f.
Proof.
  intros s f I. destruct (m_flush_inv s (pget f) (zlen f) I) as [[H1 H2 H3 H4 H5 H6] Hnil].
  unfold content_of. rewrite H2.
  rewrite file_size_attr by (auto; intros c Hc; apply H5; auto).
  destruct (resolve_spec (zlen f) (f_chunks (m_meta (m_flush s))) H3) as [R1 R2].
  { intros c Hc. apply H5; auto. }
  apply zget_ext. intros p.
  destruct (Z_lt_dec p 0); [|destruct (Z_le_dec (zlen f) p)].
  - transitivity (@None N); [|symmetry]; apply zget_none; lia.
  - transitivity (@None N); [|symmetry]; apply zget_none; lia.
  - rewrite R2 by lia. rewrite pget_zget by lia. f_equal. symmetry.
    rewrite (H6 p) by lia. rewrite Hnil. reflexivity.
Qed.

Theorem m_flush_is_posix : forall limit pre post,
  Forall op_ok (pre ++ Flush :: post) ->
  m_trigger limit (pre ++ Flush :: post) = None ->
  content_of (m_meta (exec mstate (m_step limit) mstate0 (pre ++ [Flush]))) = pfile (pre ++ [Flush]).
Proof.
  intros limit pre post Hok Htr. unfold m_trigger in Htr.
  apply trigger_app in Htr. destruct Htr as [Hpre _].
  apply Forall_app in Hok. destruct Hok as [Hok _].
  pose proof (m_exec_inv limit pre mstate0 [] inv0 Hok Hpre) as I.
  rewrite exec_app, pfile_app. cbn [exec m_step fst fold_left pstep].
  apply flush_content. exact I.
Qed.

(* ================= the interval lists stay well formed along EVERY history ================= *)
Lemma m_save_largest_wf : forall s, m_wf (m_iv s) -> m_wf (m_iv (fst (m_save_largest s))).
Proof.
  intros s W. unfold m_save_largest.
  pose proof (remove_largest_spec (list N) m_fetch m_valid m_H_len (m_iv s) W) as R.
  destruct (remove_largest (list N) (m_iv s)) as [[l rest]|]; auto.
  destruct R as [k [Hk Hrest]]. subst rest.
  destruct (remove_nth_wf (list N) m_valid k (m_iv s) l W Hk) as [Wr _].
  destruct (Z.min (l_size (list N) l) (f_attr (m_meta s) - head_off (list N) l) =? 0); auto.
Qed.

Lemma m_save_all_wf : forall fuel s, m_wf (m_iv s) -> m_wf (m_iv (m_save_all fuel s)).
Proof.
  induction fuel as [|fuel IH]; intros s W; simpl; auto.
  pose proof (m_save_largest_wf s W) as W'. destruct (m_save_largest s) as [s' more]. cbn [fst] in W'.
  destruct more; auto.
Qed.

Lemma m_step_wf : forall limit s o, m_wf (m_iv s) -> op_ok o -> m_wf (m_iv (fst (m_step limit s o))).
Proof.
  intros limit s o W Hok. destruct o as [off data|n| |off len]; cbn [m_step fst m_iv]; auto.
  - destruct Hok as [_ Hd]. unfold m_add_page. cbn [m_iv m_meta].
    set (s1 := if zlen data >? limit then _ else _).
    assert (W1 : m_wf (m_iv s1)).
    { unfold s1. destruct (zlen data >? limit); cbn [m_iv]; auto. apply m_save_all_wf; auto. }
    destruct (m_add_spec (m_iv s1) off data W1 Hd) as [W2 _].
    destruct (total_size (list N) (m_add (m_iv s1) (m_node off data)) >=? limit); auto.
    apply m_save_largest_wf. auto.
  - apply m_save_all_wf; auto.
  - destruct (m_dirty_read s (repeat 0%N (Z.to_nat len)) off).
    destruct (handle_read (m_meta s) (m_dirty_read s) off len). auto.
Qed.

Theorem m_lists_wellformed : forall limit ops, Forall op_ok ops ->
  m_wf (m_iv (exec mstate (m_step limit) mstate0 ops)).
Proof.
  intros limit ops. assert (G : forall s, m_wf (m_iv s) -> Forall op_ok ops -> m_wf (m_iv (exec mstate (m_step limit) s ops))).
  { induction ops as [|o ops IH]; intros s W Hok; simpl; auto.
    inversion Hok; subst. apply IH; auto. apply m_step_wf; auto. }
  apply G. split; simpl; auto.
Qed.

(* ================= ReadDataAt returns the latest write ================= *)
Definition m_adds (ws : list (Z * list N)) (c : list (ilist (list N))) : list (ilist (list N)) :=
  fold_left (fun c w => m_add c (m_node (fst w) (snd w))) ws c.

(* the byte of the last write covering p, if any *)
Definition latest_from (acc : option N) (ws : list (Z * list N)) (p : Z) : option N :=
  fold_left (fun a w => if covers w p then zget (snd w) (p - fst w) else a) ws acc.
Definition latest (ws : list (Z * list N)) (p : Z) : option N := latest_from None ws p.

Lemma m_adds_spec : forall ws c, m_wf c -> Forall (fun w => snd w <> []) ws ->
  m_wf (m_adds ws c) /\ forall p, m_cat (m_adds ws c) p = latest_from (m_cat c p) ws p.
Proof.
  induction ws as [|w ws IH]; intros c W Hne; simpl; auto.
  inversion Hne as [|? ? Hw Hws]; subst.
  destruct (m_add_spec c (fst w) (snd w) W Hw) as [W1 C1].
  destruct (IH _ W1 Hws) as [W2 C2]. split; auto.
  intros p. rewrite C2, C1. unfold covers. reflexivity.
Qed.

Theorem m_buffer_holds_latest : forall ws, Forall (fun w => snd w <> []) ws ->
  m_wf (m_adds ws []) /\ forall p, m_cat (m_adds ws []) p = latest ws p.
Proof.
  intros ws H. apply (m_adds_spec ws []); auto. split; simpl; auto.
Qed.

Theorem m_read_data_at : forall c buf so, m_wf c ->
  zlen (fst (read_data_at (list N) m_fetch c buf so)) = zlen buf /\
  (forall i, 0 <= i < zlen buf ->
     zget (fst (read_data_at (list N) m_fetch c buf so)) i =
     match m_cat c (so + i) with Some b => Some b | None => zget buf i end) /\
  (forall p b, so <= p < so + zlen buf -> m_cat c p = Some b -> p < snd (read_data_at (list N) m_fetch c buf so)).
Proof.
  intros c buf so W.
  destruct (read_data_at_spec (list N) m_fetch m_valid m_H_len m_H_fetch c buf so W) as [R1 [R2 [R3 [R4 R5]]]].
  split; auto. split.
  - intros i Hi. rewrite R2. destruct (0 <=? i) eqn:E1; [|apply Z.leb_gt in E1; lia].
    destruct (i <? zlen buf) eqn:E2; [|apply Z.ltb_ge in E2; lia]. reflexivity.
  - intros p b Hp Hc. apply (cat_holds (list N) m_fetch m_valid m_H_len c p b W) in Hc.
    destruct Hc as [l [Hl Hb]]. destruct W as [Wl _]. rewrite Forall_forall in Wl.
    destruct (Wl l Hl) as [N1 N2].
    pose proof (lat_some_range (list N) m_fetch m_valid m_H_len l p b N1 N2 Hb) as Hr.
    assert (Z.min (so + zlen buf) (tail_end (list N) l) <= snd (read_data_at (list N) m_fetch c buf so)).
    { apply R4; auto. lia. }
    lia.
Qed.

Theorem m_read_is_posix : forall ws buf so i, Forall (fun w => snd w <> []) ws -> 0 <= i < zlen buf ->
  zget (fst (read_data_at (list N) m_fetch (m_adds ws []) buf so)) i =
  match latest ws (so + i) with Some b => Some b | None => zget buf i end.
Proof.
  intros ws buf so i Hne Hi. destruct (m_buffer_holds_latest ws Hne) as [W C].
  destruct (m_read_data_at (m_adds ws []) buf so W) as [_ [R _]]. rewrite R by auto. rewrite C. reflexivity.
Qed.
