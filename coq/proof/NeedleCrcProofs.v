(* Proofs about model/NeedleCrc.v: the CRC register is GF(2)-linear, a register step never
   maps a non-zero 32-bit value to zero (the polynomial has its top bit set), hence any
   change confined to one byte of a byte string changes crc32c - whatever the other bytes
   are and however long the string is. *)
From Coq Require Import List NArith Bool Lia.
From SW Require Import model.Needle model.NeedleCrc proof.NeedleProofs.
Import ListNotations.
Local Open Scope N_scope.

Arguments N.lxor : simpl never.
Arguments N.div2 : simpl never.
Arguments N.odd : simpl never.

(* ---------- xor algebra ---------- *)
Lemma lxor_cancel_r : forall x y p, N.lxor (N.lxor x p) (N.lxor y p) = N.lxor x y.
Proof.
  intros. rewrite N.lxor_assoc, (N.lxor_comm p (N.lxor y p)), N.lxor_assoc, N.lxor_nilpotent, N.lxor_0_r.
  reflexivity.
Qed.

Lemma lxor_swap : forall a b c d, N.lxor (N.lxor a b) (N.lxor c d) = N.lxor (N.lxor a c) (N.lxor b d).
Proof.
  intros. rewrite !N.lxor_assoc. f_equal. rewrite <- !N.lxor_assoc. f_equal. apply N.lxor_comm.
Qed.

Lemma lxor_self_l : forall a e, N.lxor a e = a -> e = 0.
Proof.
  intros a e H. apply (f_equal (N.lxor a)) in H.
  rewrite <- N.lxor_assoc, N.lxor_nilpotent, N.lxor_0_l in H. exact H.
Qed.

Lemma lxor_lt_2_32 : forall a b, a < 2 ^ 32 -> b < 2 ^ 32 -> N.lxor a b < 2 ^ 32.
Proof.
  intros a b Ha Hb.
  destruct (N.eq_dec (N.lxor a b) 0) as [E|E]; [rewrite E; reflexivity|].
  apply N.log2_lt_pow2; [lia|].
  pose proof (N.log2_lxor a b) as H.
  assert (La : N.log2 a < 32).
  { destruct (N.eq_dec a 0) as [->|Na]; [reflexivity|apply N.log2_lt_pow2; lia]. }
  assert (Lb : N.log2 b < 32).
  { destruct (N.eq_dec b 0) as [->|Nb]; [reflexivity|apply N.log2_lt_pow2; lia]. }
  lia.
Qed.

(* ---------- one register step ---------- *)
Lemma odd_lxor : forall a b, N.odd (N.lxor a b) = xorb (N.odd a) (N.odd b).
Proof. intros. rewrite <- !N.bit0_odd. apply N.lxor_spec. Qed.

Lemma div2_lxor : forall a b, N.div2 (N.lxor a b) = N.lxor (N.div2 a) (N.div2 b).
Proof. intros. rewrite !N.div2_spec. apply N.shiftr_lxor. Qed.

Lemma shift1_lxor : forall a b, crc_shift1 (N.lxor a b) = N.lxor (crc_shift1 a) (crc_shift1 b).
Proof.
  intros. unfold crc_shift1. rewrite odd_lxor, div2_lxor.
  destruct (N.odd a), (N.odd b); cbn [xorb].
  - symmetry. apply lxor_cancel_r.
  - rewrite !N.lxor_assoc. f_equal. apply N.lxor_comm.
  - rewrite N.lxor_assoc. reflexivity.
  - reflexivity.
Qed.

Lemma shift1_0 : crc_shift1 0 = 0.
Proof. reflexivity. Qed.

Lemma div2_lt : forall r, r < 2 ^ 32 -> N.div2 r < 2 ^ 31.
Proof.
  intros r H. rewrite N.div2_div. change (2 ^ 32) with (2 * 2 ^ 31) in H.
  apply N.div_lt_upper_bound; lia.
Qed.

Lemma shift1_lt : forall r, r < 2 ^ 32 -> crc_shift1 r < 2 ^ 32.
Proof.
  intros r H. pose proof (div2_lt r H) as Hd. unfold crc_shift1.
  assert (Hd' : N.div2 r < 2 ^ 32) by (change (2 ^ 32) with 4294967296; change (2 ^ 31) with 2147483648 in Hd; lia).
  destruct (N.odd r); [|assumption].
  apply lxor_lt_2_32; [assumption|reflexivity].
Qed.

(* the top bit of the (reflected) polynomial is set: a shifted-out 1 always leaves a trace *)
Lemma shift1_nonzero : forall r, r < 2 ^ 32 -> r <> 0 -> crc_shift1 r <> 0.
Proof.
  intros r H Hnz E. unfold crc_shift1 in E. destruct (N.odd r) eqn:Eo.
  - apply N.lxor_eq in E. pose proof (div2_lt r H) as Hd. rewrite E in Hd.
    unfold crc_poly in Hd. change (2 ^ 31) with 2147483648 in Hd. lia.
  - destruct r as [|[p|p|]]; try discriminate; congruence.
Qed.

Lemma shift8_lxor : forall a b, crc_shift8 (N.lxor a b) = N.lxor (crc_shift8 a) (crc_shift8 b).
Proof. intros. unfold crc_shift8. rewrite !shift1_lxor. reflexivity. Qed.

Lemma shift8_lt : forall r, r < 2 ^ 32 -> crc_shift8 r < 2 ^ 32.
Proof. intros r H. unfold crc_shift8. repeat apply shift1_lt. assumption. Qed.

Lemma shift8_nonzero : forall r, r < 2 ^ 32 -> r <> 0 -> crc_shift8 r <> 0.
Proof.
  intros r H Hnz. unfold crc_shift8.
  repeat (apply shift1_nonzero; [repeat apply shift1_lt; assumption|]). assumption.
Qed.

(* ---------- bytes ---------- *)
(* an error [e] in the register travels through the rest of the string on its own *)
Fixpoint shift8_iter (k : nat) (e : N) : N :=
  match k with O => e | S k' => shift8_iter k' (crc_shift8 e) end.

Lemma shift8_iter_nonzero : forall k e, e < 2 ^ 32 -> e <> 0 -> shift8_iter k e <> 0.
Proof.
  induction k as [|k IH]; intros e H Hnz; [assumption|].
  cbn [shift8_iter]. apply IH; [apply shift8_lt|apply shift8_nonzero]; assumption.
Qed.

Lemma upd_lxor_reg : forall r e x, crc_upd (N.lxor r e) x = N.lxor (crc_upd r x) (crc_shift8 e).
Proof.
  intros. unfold crc_upd. rewrite <- shift8_lxor. f_equal.
  rewrite !N.lxor_assoc. f_equal. apply N.lxor_comm.
Qed.

Lemma upd_lxor_byte : forall r x m, crc_upd r (N.lxor x m) = N.lxor (crc_upd r x) (crc_shift8 m).
Proof. intros. unfold crc_upd. rewrite <- shift8_lxor. f_equal. symmetry. apply N.lxor_assoc. Qed.

Lemma reg_lxor : forall l r e, crc_reg (N.lxor r e) l = N.lxor (crc_reg r l) (shift8_iter (length l) e).
Proof.
  induction l as [|x l IH]; intros r e; [reflexivity|].
  cbn [crc_reg fold_left length shift8_iter]. fold (crc_reg (crc_upd (N.lxor r e) x) l).
  rewrite upd_lxor_reg. fold (crc_reg (crc_upd r x) l). apply IH.
Qed.

Lemma reg_cons : forall r x l, crc_reg r (x :: l) = crc_reg (crc_upd r x) l.
Proof. reflexivity. Qed.

(* flipping bits of the byte at [pos] xors the final register with the travelled mask *)
Lemma reg_flip : forall l pos mask r, pos < len l ->
  exists k, crc_reg r (flip_byte l pos mask) = N.lxor (crc_reg r l) (shift8_iter k (crc_shift8 mask)).
Proof.
  induction l as [|x l IH]; intros pos mask r Hp.
  - rewrite len_nil in Hp. lia.
  - cbn [flip_byte]. destruct (pos =? 0) eqn:E.
    + exists (length l). rewrite !reg_cons, upd_lxor_byte. apply reg_lxor.
    + rewrite len_cons in Hp. destruct (IH (N.pred pos) mask (crc_upd r x)) as [k Hk]; [lia|].
      exists k. rewrite !reg_cons. exact Hk.
Qed.

Lemma len_flip_byte : forall l pos mask, len (flip_byte l pos mask) = len l.
Proof.
  induction l as [|x l IH]; intros pos mask; [reflexivity|].
  cbn [flip_byte]. destruct (pos =? 0); rewrite !len_cons; [reflexivity|]. rewrite IH. reflexivity.
Qed.

(* ---------- the theorem ---------- *)
(* Any change confined to one byte (all 255 non-zero masks, in particular every single-bit
   flip) at any position of a byte string of any length changes its CRC32-C. *)
Theorem crc32c_detects_byte : forall l pos mask, pos < len l -> 0 < mask < 256 ->
  crc32c (flip_byte l pos mask) <> crc32c l.
Proof.
  intros l pos mask Hp Hm E. unfold crc32c in E.
  apply (f_equal (fun z => N.lxor z 4294967295)) in E.
  rewrite !N.lxor_assoc, !N.lxor_nilpotent, !N.lxor_0_r in E.
  destruct (reg_flip l pos mask 4294967295 Hp) as [k Hk]. rewrite Hk in E.
  apply lxor_self_l in E. revert E.
  assert (Hm32 : mask < 2 ^ 32) by (change (2 ^ 32) with 4294967296; lia).
  apply shift8_iter_nonzero; [apply shift8_lt|apply shift8_nonzero]; try assumption; lia.
Qed.

(* range: the register stays below 2^32 on byte strings *)
Lemma upd_lt : forall r x, r < 2 ^ 32 -> x < 256 -> crc_upd r x < 2 ^ 32.
Proof.
  intros r x Hr Hx. unfold crc_upd. apply shift8_lt. apply lxor_lt_2_32; [assumption|].
  change (2 ^ 32) with 4294967296. lia.
Qed.

Lemma reg_lt : forall l r, r < 2 ^ 32 -> bytes_ok l -> crc_reg r l < 2 ^ 32.
Proof.
  induction l as [|x l IH]; intros r Hr Hl; [assumption|].
  inversion Hl as [|? ? Hx Hl']; subst. rewrite reg_cons. apply IH; [apply upd_lt|]; assumption.
Qed.

Lemma crc32c_lt : forall l, bytes_ok l -> crc32c l < 2 ^ 32.
Proof.
  intros l H. unfold crc32c. apply lxor_lt_2_32; [apply reg_lt; [reflexivity|assumption]|reflexivity].
Qed.

Lemma flip_byte_bytes_ok : forall l pos mask, bytes_ok l -> mask < 256 -> bytes_ok (flip_byte l pos mask).
Proof.
  induction l as [|x l IH]; intros pos mask Hl Hm; [constructor|].
  inversion Hl as [|? ? Hx Hl']; subst. cbn [flip_byte]. destruct (pos =? 0).
  - constructor; [|assumption].
    destruct (N.eq_dec (N.lxor x mask) 0) as [E|E]; [rewrite E; reflexivity|].
    change 256 with (2 ^ 8). apply N.log2_lt_pow2; [lia|].
    pose proof (N.log2_lxor x mask) as H.
    assert (La : N.log2 x < 8) by (destruct (N.eq_dec x 0) as [->|Na]; [reflexivity|apply N.log2_lt_pow2; [lia|exact Hx]]).
    assert (Lb : N.log2 mask < 8) by (destruct (N.eq_dec mask 0) as [->|Nb]; [reflexivity|apply N.log2_lt_pow2; [lia|exact Hm]]).
    lia.
  - constructor; [assumption|]. apply IH; assumption.
Qed.

(* ---------- bursts: any change confined to 4 consecutive bytes ---------- *)
Fixpoint xor_list (l w : list N) : list N :=
  match l, w with
  | x :: l', m :: w' => N.lxor x m :: xor_list l' w'
  | _, _ => l
  end.

(* the bytes as one little-endian word (first byte lowest) *)
Fixpoint le_word (w : list N) : N :=
  match w with
  | [] => 0
  | m :: w' => N.lxor m (le_word w' * 256)
  end.

Lemma shift1_double : forall y, crc_shift1 (2 * y) = y.
Proof.
  intros y. unfold crc_shift1. rewrite N.odd_mul, N.odd_2. cbn [andb]. apply N.div2_double.
Qed.

Lemma shift8_mul256 : forall y, crc_shift8 (y * 256) = y.
Proof.
  intros y. replace (y * 256) with (2 * (2 * (2 * (2 * (2 * (2 * (2 * (2 * y)))))))) by lia.
  unfold crc_shift8. rewrite !shift1_double. reflexivity.
Qed.

(* the register after a string = the string, as one number, pushed through the shifts: the
   CRC is a polynomial remainder *)
Lemma reg_le_word : forall w r, crc_reg r w = shift8_iter (length w) (N.lxor r (le_word w)).
Proof.
  induction w as [|m w IH]; intros r.
  - cbn [crc_reg fold_left length shift8_iter le_word]. rewrite N.lxor_0_r. reflexivity.
  - rewrite reg_cons, IH. cbn [length shift8_iter le_word]. f_equal.
    unfold crc_upd. rewrite <- (N.lxor_assoc r m), (shift8_lxor (N.lxor r m)), shift8_mul256. reflexivity.
Qed.

Lemma reg_xor_list : forall x w r e, length x = length w ->
  crc_reg (N.lxor r e) (xor_list x w) = N.lxor (crc_reg r x) (crc_reg e w).
Proof.
  induction x as [|a x IH]; intros w r e H; destruct w as [|m w]; try discriminate; [reflexivity|].
  cbn [xor_list]. rewrite !reg_cons.
  assert (Hu : crc_upd (N.lxor r e) (N.lxor a m) = N.lxor (crc_upd r a) (crc_upd e m)).
  { unfold crc_upd. rewrite <- shift8_lxor. f_equal. apply lxor_swap. }
  rewrite Hu. apply IH. simpl in H. lia.
Qed.

Lemma lxor_lt_pow2 : forall k a b, a < 2 ^ k -> b < 2 ^ k -> N.lxor a b < 2 ^ k.
Proof.
  intros k a b Ha Hb.
  destruct (N.eq_dec (N.lxor a b) 0) as [E|E]; [rewrite E; lia|].
  apply N.log2_lt_pow2; [lia|].
  pose proof (N.log2_lxor a b) as H.
  assert (La : a = 0 \/ N.log2 a < k).
  { destruct (N.eq_dec a 0) as [->|Na]; [left; reflexivity|right; apply N.log2_lt_pow2; lia]. }
  assert (Lb : b = 0 \/ N.log2 b < k).
  { destruct (N.eq_dec b 0) as [->|Nb]; [left; reflexivity|right; apply N.log2_lt_pow2; lia]. }
  destruct La as [->|La], Lb as [->|Lb].
  - rewrite N.lxor_0_l in E. congruence.
  - rewrite N.lxor_0_l. exact Lb.
  - rewrite N.lxor_0_r. exact La.
  - lia.
Qed.

Lemma le_word_lt : forall w, bytes_ok w -> le_word w < 2 ^ (8 * N.of_nat (length w)).
Proof.
  induction w as [|m w IH]; intros H; [reflexivity|].
  inversion H as [|? ? Hm Hw]; subst. specialize (IH Hw). cbn [le_word length].
  replace (8 * N.of_nat (S (length w))) with (8 + 8 * N.of_nat (length w)) by lia.
  rewrite N.pow_add_r. change (2 ^ 8) with 256.
  assert (Hp : 0 < 2 ^ (8 * N.of_nat (length w))) by (apply N.neq_0_lt_0, N.pow_nonzero; lia).
  rewrite <- (N.pow_add_r 2 8) by lia. apply lxor_lt_pow2.
  - rewrite N.pow_add_r. change (2 ^ 8) with 256. nia.
  - rewrite N.pow_add_r. change (2 ^ 8) with 256. nia.
Qed.

Lemma le_word_nonzero : forall w, bytes_ok w -> Exists (fun m => m <> 0) w -> le_word w <> 0.
Proof.
  induction w as [|m w IH]; intros H Hex; [inversion Hex|].
  inversion H as [|? ? Hm Hw]; subst. cbn [le_word]. intro E. apply N.lxor_eq in E.
  assert (Hz : le_word w = 0) by lia.
  inversion Hex as [? ? Hnz|? ? Hex']; subst; [lia|]. exact (IH Hw Hex' Hz).
Qed.

(* Any change confined to 4 consecutive bytes (a burst of up to 32 bits in a byte-aligned
   window, anywhere in a string of any length) changes CRC32-C. *)
Theorem crc32c_detects_burst : forall a x b w, length x = length w -> (length w <= 4)%nat ->
  bytes_ok w -> Exists (fun m => m <> 0) w ->
  crc32c (a ++ xor_list x w ++ b) <> crc32c (a ++ x ++ b).
Proof.
  intros a x b w Hl H4 Hw Hex E. unfold crc32c in E.
  apply (f_equal (fun z => N.lxor z 4294967295)) in E.
  rewrite !N.lxor_assoc, !N.lxor_nilpotent, !N.lxor_0_r in E.
  unfold crc_reg in E. rewrite !fold_left_app in E.
  fold (crc_reg 4294967295 a) in E. set (R := crc_reg 4294967295 a) in E.
  fold (crc_reg R (xor_list x w)) in E. fold (crc_reg R x) in E.
  fold (crc_reg (crc_reg R (xor_list x w)) b) in E. fold (crc_reg (crc_reg R x) b) in E.
  rewrite <- (N.lxor_0_r R) in E at 1. rewrite reg_xor_list in E by assumption.
  rewrite reg_lxor in E. apply lxor_self_l in E. revert E.
  rewrite reg_le_word, N.lxor_0_l.
  assert (Hlt : le_word w < 2 ^ 32).
  { eapply N.lt_le_trans; [apply le_word_lt; assumption|]. apply N.pow_le_mono_r; lia. }
  apply shift8_iter_nonzero.
  - clear - Hlt. generalize (length w) as k. intros k. revert Hlt. generalize (le_word w) as e.
    induction k as [|k IH]; intros e He; [assumption|]. cbn [shift8_iter]. apply IH, shift8_lt, He.
  - apply shift8_iter_nonzero; [assumption|apply le_word_nonzero; assumption].
Qed.

Lemma xor_list_bytes_ok : forall x w, bytes_ok x -> bytes_ok w -> bytes_ok (xor_list x w).
Proof.
  induction x as [|a x IH]; intros w Hx Hw; [destruct w; constructor|].
  destruct w as [|m w]; [assumption|].
  inversion Hx as [|? ? Ha Hx']; inversion Hw as [|? ? Hm Hw']; subst. cbn [xor_list].
  constructor; [|apply IH; assumption].
  change 256 with (2 ^ 8). apply lxor_lt_pow2; assumption.
Qed.

Lemma len_xor_list : forall x w, len (xor_list x w) = len x.
Proof.
  induction x as [|a x IH]; intros w; [destruct w; reflexivity|].
  destruct w as [|m w]; [reflexivity|]. cbn [xor_list]. rewrite !len_cons, IH. reflexivity.
Qed.
