(* Proofs about model/VolPlanner.v (C15), part 5: volume.balance and free slots. *)
From Coq Require Import List NArith ZArith Bool Arith Lia Permutation.
From SW Require Import model.VolPlanner proof.VolPlannerProofs proof.VolPlannerProofs2
  proof.VolPlannerProofs3 proof.VolPlannerProofs4.
Import ListNotations.
Local Open Scope Z_scope.

Lemma upd2_same : forall f a b d, upd2 f a b d a b = f a b + d.
Proof. intros. unfold upd2. rewrite !N.eqb_refl. reflexivity. Qed.
Lemma upd2_other : forall f a b d a' b', (a' <> a \/ b' <> b) -> upd2 f a b d a' b' = f a' b'.
Proof.
  intros f a b d a' b' H. unfold upd2.
  destruct (N.eqb_spec a' a), (N.eqb_spec b' b); cbn [andb]; auto. subst. destruct H; congruence.
Qed.

(* the planner's own capacity notion: the target's selected count stays below its max *)
Definition CapInv (c : bctx) (dt : N) (st0 st : bstate) : Prop :=
  (forall nc, In nc (bc_nodes c) -> phase_unsel c dt st nc = phase_unsel c dt st0 nc) /\
  (forall n v, In v (b_sel st n) -> v_dt v = dt).

Definition CapCtx (s : snapshot) (c : bctx) (dt : N) : Prop :=
  0 < bc_max_total c /\ forall nc, In nc (bc_nodes c) -> max_of s (l_node (fst nc)) dt = snd nc.

Lemma balance_step_cap : forall s c dt st0 st vid dt' from to,
  CapCtx s c dt -> trig_balance_cap_phase c dt st0 = false -> CapInv c dt st0 st ->
  balance_step_ok c st vid dt' from to = true ->
  ok_cap (prop_step s (b_w st) (Move vid dt' from to)) = true /\
  CapInv c dt st0 (balance_advance s st vid dt' from to).
Proof.
  intros s c dt st0 st vid dt' from to [HM Hmax] Htr [Hun Hdt] Hok.
  unfold balance_step_ok in Hok.
  destruct (find_cap c from) as [f|] eqn:Ef;
    destruct (find_cap c to) as [t|] eqn:Et;
    destruct (find (fun x => (v_id x =? vid)%N) (b_sel st from)) as [v|] eqn:Ev; try discriminate.
  apply find_cap_some in Ef. destruct Ef as [Hf Hfid]. apply find_cap_some in Et. destruct Et as [Ht Htid].
  pose proof (find_vid_some _ _ _ Ev) as [Hv Hvid].
  repeat (apply andb_true_iff in Hok; destruct Hok as [Hok ?]).
  match goal with H : next_fits c st t = true |- _ => rename H into Hfit end.
  match goal with H : (v_dt v =? dt')%N = true |- _ => rename H into Hdt' end.
  apply negb_true_iff in Hok. apply N.eqb_neq in Hok.
  apply N.eqb_eq in Hdt'. assert (dt' = dt) as -> by (rewrite <- Hdt'; eapply Hdt; eauto).
  split.
  - (* a free slot by the true count, given the trigger is off *)
    cbn [prop_step ok_cap]. apply Z.ltb_lt. rewrite <- Htid, (Hmax t Ht).
    pose proof (Hun t Ht) as Hu. unfold phase_unsel in Hu.
    unfold trig_balance_cap_phase in Htr.
    assert ((snd t - phase_unsel c dt st0 t) * bc_max_total c <? bc_sel_total c * snd t = false) as Hnt.
    { destruct ((snd t - phase_unsel c dt st0 t) * bc_max_total c <? bc_sel_total c * snd t) eqn:E; auto.
      assert (existsb (fun n => (snd n - phase_unsel c dt st0 n) * bc_max_total c <? bc_sel_total c * snd n) (bc_nodes c) = true); [|congruence].
      apply existsb_exists. exists t. auto. }
    apply Z.ltb_ge in Hnt. unfold next_fits in Hfit. apply Z.leb_le in Hfit.
    unfold phase_unsel in Hnt. nia.
  - (* bookkeeping *)
    unfold balance_advance. rewrite Ev. split.
    + intros nc Hnc. rewrite <- (Hun nc Hnc). unfold phase_unsel, nsel. cbn [b_w b_sel apply_step w_occ].
      assert (In vid (map v_id (b_sel st from))) as Hinv by (rewrite <- Hvid; apply in_map; auto).
      pose proof (remove_vid_length vid _ Hinv) as Hlen.
      destruct (N.eq_dec (l_node (fst nc)) to) as [E|E].
      * rewrite E, upd1_eq, upd2_same, upd2_other by (left; auto). cbn [length]. lia.
      * rewrite upd1_neq, upd2_other by auto.
        destruct (N.eq_dec (l_node (fst nc)) from) as [E'|E'].
        -- rewrite E', upd1_eq, upd2_same. lia.
        -- rewrite upd1_neq, upd2_other by auto. reflexivity.
    + intros n x Hx. cbn [b_sel] in Hx. destruct (N.eq_dec n to) as [->|Hnt].
      * rewrite upd1_eq in Hx. destruct Hx as [<-|Hx]; eauto.
      * rewrite upd1_neq in Hx; auto. destruct (N.eq_dec n from) as [->|Hnf].
        -- rewrite upd1_eq in Hx. assert (In x (b_sel st from)); eauto.
           clear - Hx. induction (b_sel st from) as [|a l IH]; [destruct Hx|].
           cbn [remove_vid] in Hx. destruct (v_id a =? vid)%N; [right; auto|].
           destruct Hx as [<-|Hx]; [left; auto|right; auto].
        -- rewrite upd1_neq in Hx; eauto.
Qed.

Lemma balance_phase_cap : forall s c dt st0 tr st st' tr',
  CapCtx s c dt -> trig_balance_cap_phase c dt st0 = false -> CapInv c dt st0 st ->
  balance_phase s c st tr = Some (st', tr') ->
  exists used, tr = used ++ tr' /\ b_w st' = run_trace s (b_w st) used /\
    balance_phase_end s c st tr = (st', tr') /\
    ok_cap (prop_trace s (b_w st) used) = true.
Proof.
  intros s c dt st0 tr. induction tr as [|stp tr IH]; intros st st' tr' Hctx Htr HI H.
  - cbn [balance_phase] in H. exists []. destruct (bc_nodes c); [discriminate|].
    destruct (balance_terminal c st); [|discriminate]. inversion H; subst. repeat split; auto.
  - assert (forall (o : option (bstate * list step)),
              (o = match bc_nodes c with [] => None | _ => if balance_terminal c st then Some (st, stp :: tr) else None end) ->
              o = Some (st', tr') -> st' = st /\ tr' = stp :: tr) as Hfin.
    { intros o Ho Hs. subst o. destruct (bc_nodes c); [discriminate|].
      destruct (balance_terminal c st); [|discriminate]. inversion Hs; subst. auto. }
    cbn [balance_phase balance_phase_end] in *.
    destruct stp as [vid dt' from to| |];
      try (destruct (Hfin _ eq_refl H) as [-> ->]; exists []; repeat split; auto).
    destruct (existsb (fun x => (v_id x =? vid)%N) (b_sel st from)) eqn:Ein;
      [|destruct (Hfin _ eq_refl H) as [-> ->]; exists []; repeat split; auto].
    destruct (balance_step_ok c st vid dt' from to) eqn:Eok; [|discriminate].
    destruct (balance_step_cap s c dt st0 st vid dt' from to Hctx Htr HI Eok) as [Hc HI'].
    destruct (IH _ _ _ Hctx Htr HI' H) as [used [E [Hw [He Hc']]]].
    rewrite balance_advance_w in Hw, Hc'; auto.
    exists (Move vid dt' from to :: used). split; [cbn [app]; f_equal; auto|].
    split; [cbn [run_trace]; auto|]. split; auto.
    rewrite prop_trace_cons. cbn [v4_and ok_cap]. rewrite Hc, Hc'. reflexivity.
Qed.

(* ---------- the context built by mk_bctx ---------- *)
Lemma mk_bctx_nodes : forall limit s ph nc, In nc (bc_nodes (mk_bctx limit s ph)) ->
  exists n, In n s /\ nc = (n_loc n, cap_max n (ph_dt ph)) /\ 0 < snd nc.
Proof.
  intros limit s ph nc H. cbn [mk_bctx bc_nodes] in H. apply filter_In in H. destruct H as [H1 H2].
  apply in_map_iff in H1. destruct H1 as [n [E Hn]]. exists n. split; auto. split; auto.
  apply Z.ltb_lt; auto.
Qed.

Lemma sumZ_nonneg : forall l, (forall x, In x l -> 0 <= x) -> 0 <= sumZ l.
Proof.
  induction l as [|a l IH]; cbn [sumZ fold_right]; intros H; [lia|].
  assert (0 <= a) by (apply H; left; auto).
  assert (0 <= sumZ l) by (apply IH; intros; apply H; right; auto). unfold sumZ in *. lia.
Qed.

Lemma sumZ_pos : forall l x, (forall y, In y l -> 0 <= y) -> In x l -> 0 < x -> 0 < sumZ l.
Proof.
  induction l as [|a l IH]; intros x Hge Hin Hx; [destruct Hin|].
  cbn [sumZ fold_right]. assert (0 <= a) by (apply Hge; left; auto).
  assert (0 <= sumZ l) by (apply sumZ_nonneg; intros; apply Hge; right; auto).
  destruct Hin as [->|Hin].
  - unfold sumZ in *. lia.
  - assert (0 < sumZ l) by (eapply IH; eauto; intros; apply Hge; right; auto). unfold sumZ in *. lia.
Qed.

(* all MaxVolumeCount are non-negative (uint64 in the protobuf) *)
Definition caps_nonneg (s : snapshot) : Prop :=
  forall n d, In n s -> In d (n_disks n) -> 0 <= d_max d.

Lemma cap_max_nonneg : forall s n dt, caps_nonneg s -> In n s -> 0 <= cap_max n dt.
Proof.
  intros s n dt H Hn. unfold cap_max, disk_of. destruct (find _ (n_disks n)) as [d|] eqn:E; [|lia].
  apply find_some in E. apply (H n d); tauto.
Qed.

Lemma mk_bctx_capctx : forall limit s ph, NoDup (map n_id s) -> caps_nonneg s ->
  bc_nodes (mk_bctx limit s ph) <> [] -> CapCtx s (mk_bctx limit s ph) (ph_dt ph).
Proof.
  intros limit s ph Hnd Hcap Hne. split.
  - destruct (bc_nodes (mk_bctx limit s ph)) as [|nc l] eqn:E; [congruence|].
    assert (In nc (bc_nodes (mk_bctx limit s ph))) as Hin by (rewrite E; left; auto).
    apply mk_bctx_nodes in Hin. destruct Hin as [n [Hn [-> Hpos]]]. cbn [snd] in Hpos.
    cbn [mk_bctx bc_max_total]. apply (sumZ_pos _ (cap_max n (ph_dt ph))); auto.
    + intros y Hy. apply in_map_iff in Hy. destruct Hy as [m [<- Hm]]. eapply cap_max_nonneg; eauto.
    + apply in_map_iff. exists n; auto.
  - intros nc Hin. apply mk_bctx_nodes in Hin. destruct Hin as [n [Hn [-> _]]]. cbn [fst snd].
    unfold max_of. change (l_node (n_loc n)) with (n_id n). rewrite find_node_in; auto.
Qed.

Lemma init_sel_dt : forall limit s ph n v, In v (init_sel limit s ph n) -> v_dt v = ph_dt ph.
Proof.
  intros limit s ph n v H. unfold init_sel in H. destruct (find_node s n); [|destruct H].
  apply filter_In in H. destruct H as [_ H]. unfold selects in H.
  apply andb_true_iff in H. destruct H as [H _]. apply andb_true_iff in H. destruct H as [_ H].
  apply N.eqb_eq; auto.
Qed.

Lemma prop_trace_app : forall s tr1 tr2 w,
  prop_trace s w (tr1 ++ tr2) = v4_and (prop_trace s w tr1) (prop_trace s (run_trace s w tr1) tr2).
Proof.
  induction tr1 as [|st tr1 IH]; intros tr2 w.
  - cbn [app prop_trace run_trace]. destruct (prop_trace s w tr2) as [c1 c2 c3 c4]; reflexivity.
  - cbn [app prop_trace run_trace]. rewrite IH.
    destruct (prop_step s w st) as [a1 a2 a3 a4], (prop_trace s (apply_step s w st) tr1) as [b1 b2 b3 b4],
      (prop_trace s _ tr2) as [c1 c2 c3 c4].
    unfold v4_and. cbn [ok_coloc ok_cap ok_pres ok_repair]. rewrite !andb_assoc. reflexivity.
Qed.

Lemma balance_phase_nodes : forall s c tr st r, balance_phase s c st tr = Some r -> bc_nodes c <> [].
Proof.
  intros s c tr st r H En.
  assert (forall vid dt from to, balance_step_ok c st vid dt from to = false) as Hno.
  { intros. unfold balance_step_ok, find_cap. rewrite En. reflexivity. }
  destruct tr as [|[vid dt from to| |] tr]; cbn [balance_phase] in H; rewrite ?En in H; try discriminate.
  destruct (existsb _ _); [rewrite Hno in H|]; discriminate.
Qed.

(* the whole run: if no phase starts in a triggering state, every move has a free slot *)
Theorem balance_run_capacity : forall limit s phs w tr w',
  NoDup (map n_id s) -> caps_nonneg s ->
  balance_phases limit s phs w tr = Some w' ->
  trig_balance_cap limit s phs w tr = false ->
  ok_cap (prop_trace s w tr) = true /\ w' = run_trace s w tr.
Proof.
  intros limit s phs. induction phs as [|ph phs IH]; intros w tr w' Hnd Hcap H Htr.
  - cbn [balance_phases] in H. destruct tr; [|discriminate]. inversion H; subst. split; reflexivity.
  - cbn [balance_phases trig_balance_cap] in *.
    set (c := mk_bctx limit s ph) in *. set (st0 := {| b_sel := init_sel limit s ph; b_w := w |}) in *.
    destruct (balance_phase s c st0 tr) as [[st tr']|] eqn:E; [|discriminate].
    apply orb_false_iff in Htr. destruct Htr as [Ht1 Ht2].
    assert (bc_nodes c <> []) as Hne by (eapply balance_phase_nodes; eauto).
    destruct (balance_phase_cap s c (ph_dt ph) st0 tr st0 st tr') as [used [Eu [Hw [He Hc]]]]; auto.
    + apply mk_bctx_capctx; auto.
    + split; [reflexivity|]. intros n v Hv. apply (init_sel_dt limit s ph n v). exact Hv.
    + rewrite He in Ht2. destruct (IH _ _ _ Hnd Hcap H Ht2) as [Hc2 Hw2].
      subst tr. rewrite prop_trace_app. cbn [v4_and ok_cap]. cbn [b_w st0] in *.
      rewrite Hc. rewrite <- Hw. rewrite Hc2. split; [reflexivity|].
      rewrite Hw2, Hw. clear. generalize w. induction used as [|a u IHu]; intros w0; cbn [app run_trace]; auto.
Qed.
