(* C17: ChunkReadAt as a state machine across ReadAt calls, with failing chunk fetches
   (model/ChunksSeq.v).  Cache invariant: lastChunkData is the content of lastChunkFileId, or empty.
   Every call of ANY sequence that returns no fetch error equals the pure failure-free [read_at];
   a call that returns a fetch error delivered a correct prefix and touched nothing else; a call
   during which no fetch of the file's chunks fails returns no error. *)
From Coq Require Import List NArith Bool Arith Lia Permutation Sorted.
From Coq Require Import ZifyBool ZifyN ZifyNat.
From SW Require Import model.Chunks model.ChunksSeq proof.ChunksProofs proof.ChunksOverlay proof.ChunksRead
  proof.ChunksManifest.
Import ListNotations.
Local Open Scope N_scope.

Definition ra_inv (src : chunk_source) (s : ra_state) : Prop :=
  match ra_fid s with Some f => ra_data s = src f | None => ra_data s = [] end.

Lemma ra_inv_new : forall src, ra_inv src ra_new.
Proof. intros; reflexivity. Qed.
Lemma ra_inv_close : forall src s, ra_inv src (ra_close s).
Proof. intros; reflexivity. Qed.

Section Sim.
  Variables (src : chunk_source) (memo slices : bool) (fails : N -> bool) (snap : list N).
  Notation inv := (ra_inv src).

  Lemma ra_inv_same : forall s s', ra_fid s' = ra_fid s -> ra_data s' = ra_data s -> inv s -> inv s'.
  Proof. unfold ra_inv. intros s s' E1 E2 H. rewrite E1, E2. exact H. Qed.

  Lemma row_keeps : forall f s,
    ra_fid (snd (read_one_whole src memo fails f s)) = ra_fid s /\
    ra_data (snd (read_one_whole src memo fails f s)) = ra_data s.
  Proof.
    intros f s. unfold read_one_whole. destruct (in_cache s f); [auto|].
    destruct (fails f); [auto|]. destruct memo; auto.
  Qed.

  Lemma row_data : forall f s d, fst (read_one_whole src memo fails f s) = Some d -> d = src f.
  Proof.
    intros f s d. unfold read_one_whole. destruct (in_cache s f); simpl; [congruence|].
    destruct (fails f); simpl; congruence.
  Qed.

  Lemma row_ok : forall f s, fails f = false -> fst (read_one_whole src memo fails f s) <> None.
  Proof.
    intros f s Hf. unfold read_one_whole. destruct (in_cache s f); simpl; [discriminate|].
    rewrite Hf. simpl. discriminate.
  Qed.

  Lemma read_whole_s_ok : forall w nx s o s', inv s ->
    read_whole_s src memo fails w nx s = (o, s') ->
    inv s' /\ (forall d, o = Some d -> d = src (cv_fid w)) /\ (fails (cv_fid w) = false -> o <> None).
  Proof.
    intros w nx s o s' Hinv E. unfold read_whole_s in E.
    destruct (match ra_fid s with Some g => g =? cv_fid w | None => false end) eqn:Ehit.
    - inversion E; subst o s'. split; auto. split; [|discriminate].
      intros d Hd. inversion Hd; subst d. unfold ra_inv in Hinv.
      destruct (ra_fid s) as [g|]; [|discriminate]. apply N.eqb_eq in Ehit. subst g. exact Hinv.
    - destruct (read_one_whole src memo fails (cv_fid w) s) as [[d|] s1] eqn:E1.
      + inversion E; subst o s'. clear E.
        assert (Hd : d = src (cv_fid w)) by (apply (row_data (cv_fid w) s); rewrite E1; reflexivity).
        split; [|split; [intros d' Hd'; inversion Hd'; subst; reflexivity | discriminate]].
        set (s2 := {| ra_fid := Some (cv_fid w); ra_data := d; ra_cache := ra_cache s1 |}).
        assert (H2 : inv s2) by (unfold ra_inv; simpl; exact Hd).
        destruct nx as [w'|]; auto.
        destruct (row_keeps (cv_fid w') s2) as [K1 K2]. eapply ra_inv_same; eauto.
      + inversion E; subst o s'. clear E.
        destruct (row_keeps (cv_fid w) s) as [K1 K2]. rewrite E1 in K1, K2. simpl in K1, K2.
        split; [eapply ra_inv_same; eauto|]. split; [discriminate|].
        intros Hf. exfalso. apply (row_ok (cv_fid w) s Hf). rewrite E1. reflexivity.
  Qed.

  Lemma read_chunk_slice_s_ok : forall w nx boff blen s o s', inv s ->
    read_chunk_slice_s src memo slices fails snap w nx boff blen s = (o, s') ->
    inv s' /\ (forall sl, o = Some sl -> sl = read_chunk_slice src w boff blen) /\
    (fails (cv_fid w) = false -> o <> None).
  Proof.
    intros w nx boff blen s o s' Hinv E. unfold read_chunk_slice_s in E.
    destruct (slices && existsb (N.eqb (cv_fid w)) snap && (boff + blen <=? N.of_nat (length (src (cv_fid w))))) eqn:Ehit.
    - inversion E; subst o s'. split; auto. split; [|discriminate].
      intros sl Hsl. inversion Hsl; subst sl. unfold read_chunk_slice.
      replace (N.min blen (N.of_nat (length (src (cv_fid w))) - boff)) with blen by lia. reflexivity.
    - destruct (read_whole_s src memo fails w nx s) as [[d|] s1] eqn:E1;
        destruct (read_whole_s_ok _ _ _ _ _ Hinv E1) as [H1 [H2 H3]]; inversion E; subst o s'.
      + split; auto. split; [|discriminate]. intros sl Hsl. inversion Hsl; subst sl.
        rewrite (H2 d eq_refl). reflexivity.
      + split; auto. split; [discriminate|]. auto.
  Qed.

  Lemma read_body_s_ok : forall off w nx st s st' fl s', inv s ->
    read_body_s src memo slices fails snap off w nx st s = (st', fl, s') ->
    inv s' /\
    match fl with
    | SfCont => read_body src off w st = (st', false)
    | SfBreak => False
    | SfErr => st' = st /\ fails (cv_fid w) = true
    end.
  Proof.
    intros off w nx st s st' fl s' Hinv E. unfold read_body_s in E. unfold read_body.
    destruct (N.min (cv_logic w + cv_size w) (r_start st + r_rem st) <=? N.max (cv_logic w) (r_start st)).
    - inversion E; subst. auto.
    - match type of E with (match ?X with _ => _ end) = _ => destruct X as [[sl|] s1] eqn:E1 end;
        destruct (read_chunk_slice_s_ok _ _ _ _ _ _ _ Hinv E1) as [H1 [H2 H3]]; inversion E; subst.
      + split; auto. rewrite <- (H2 sl eq_refl). reflexivity.
      + split; auto. split; auto. destruct (fails (cv_fid w)); auto. exfalso. apply H3; auto.
  Qed.

  Lemma read_step_s_ok : forall off w nx st s st' fl s', inv s ->
    read_step_s src memo slices fails snap off w nx st s = (st', fl, s') ->
    inv s' /\
    match fl with
    | SfCont => read_step src off w st = (st', false)
    | SfBreak => read_step src off w st = (st', true)
    | SfErr => fails (cv_fid w) = true /\
               (st' = st \/ (st' = gap_state off w st /\ r_start st < cv_logic w /\ 0 < r_rem (gap_state off w st)))
    end.
  Proof.
    intros off w nx st s st' fl s' Hinv E. unfold read_step_s in E. rewrite read_step_eq.
    change (gap_state_s off w st) with (gap_state off w st) in E.
    destruct (r_start st <? cv_logic w) eqn:Eg.
    - destruct (r_rem (gap_state off w st) =? 0) eqn:E0.
      + inversion E; subst. auto.
      + destruct (read_body_s_ok _ _ _ _ _ _ _ _ Hinv E) as [H1 H2]. split; auto.
        destruct fl; [auto | contradiction |]. destruct H2 as [H2 H3]. split; auto. right. repeat split; auto; lia.
    - destruct (read_body_s_ok _ _ _ _ _ _ _ _ Hinv E) as [H1 H2]. split; auto.
      destruct fl; [auto | contradiction |]. destruct H2 as [H2 H3]. auto.
  Qed.

  (* the loop: without an error it IS the pure loop; the cache invariant survives in every case *)
  Lemma read_loop_s_sim : forall off ws st s st' err s', inv s ->
    read_loop_s src memo slices fails snap off ws st s = (st', err, s') ->
    inv s' /\ (err = false -> st' = read_loop src off ws st) /\
    (err = true -> exists w, In w ws /\ fails (cv_fid w) = true).
  Proof.
    induction ws as [|w rest IH]; intros st s st' err s' Hinv E; simpl in E |- *.
    - inversion E; subst. repeat split; auto. discriminate.
    - destruct (r_rem st =? 0).
      + inversion E; subst. repeat split; auto. discriminate.
      + destruct (read_step_s src memo slices fails snap off w (hd_error rest) st s) as [[st1 fl] s1] eqn:E1.
        destruct (read_step_s_ok _ _ _ _ _ _ _ _ Hinv E1) as [H1 H2].
        destruct fl.
        * rewrite H2. destruct (IH _ _ _ _ _ H1 E) as [A [B C]]. repeat split; auto.
          intros He. destruct (C He) as [w' [Hw' Hf]]. exists w'. auto.
        * rewrite H2. inversion E; subst. repeat split; auto. discriminate.
        * inversion E; subst. repeat split; auto; [discriminate|].
          intros _. exists w. destruct H2 as [H2 _]. auto.
  Qed.

  (* ---- a call that fails: what was delivered before the failing fetch is right, nothing else is touched ---- *)
  Section Prefix.
    Variables (V : list chunk_view) (fs : N) (buf0 : list N) (off : N).
    Notation rinv' := (rinv src V fs buf0 off).
    Notation rest_ok' := (rest_ok V).

    Lemma read_step_spec : forall w rest st,
      views_ok (w :: rest) -> cv_end w <= fs ->
      cv_off w + cv_size w <= N.of_nat (length (src (cv_fid w))) ->
      rinv' st -> 0 < r_rem st -> rest_ok' st (w :: rest) ->
      rinv' (fst (read_step src off w st)) /\
      (snd (read_step src off w st) = false -> rest_ok' (fst (read_step src off w st)) rest).
    Proof.
      intros w rest st Hok Hend1 Hd1 Hinv Hrem Hrest. rewrite read_step_eq.
      destruct (r_start st <? cv_logic w) eqn:Eg.
      - destruct (gap_step src V fs buf0 off w rest st Hok Hend1 Hinv Hrem Hrest) as [G1 [G2 G3]]; [lia|].
        destruct (r_rem (gap_state off w st) =? 0) eqn:E1.
        + simpl. split; auto. discriminate.
        + assert (Hrem1 : 0 < r_rem (gap_state off w st)) by lia.
          destruct (body_step src V fs buf0 off w rest (gap_state off w st) Hok Hend1 Hd1 G1 Hrem1 G2) as [B1 [B2 B3]];
            [rewrite (G3 Hrem1); lia|]. auto.
      - destruct (body_step src V fs buf0 off w rest st Hok Hend1 Hd1 Hinv Hrem Hrest) as [B1 [B2 B3]]; [lia|]. auto.
    Qed.

    Lemma read_loop_s_rinv : forall ws st s st' err s', inv s ->
      views_ok ws -> Forall (fun w => cv_end w <= fs) ws ->
      Forall (fun w => cv_off w + cv_size w <= N.of_nat (length (src (cv_fid w)))) ws ->
      rinv' st -> rest_ok' st ws ->
      read_loop_s src memo slices fails snap off ws st s = (st', err, s') -> rinv' st'.
    Proof.
      induction ws as [|w rest IH]; intros st s st' err s' Hinv Hok Hend Hdata Hr Hrest E; simpl in E.
      - inversion E; subst; auto.
      - destruct (r_rem st =? 0) eqn:E0.
        + inversion E; subst; auto.
        + assert (Hrem : 0 < r_rem st) by lia.
          inversion Hend as [|? ? Hend1 Hend']; subst. inversion Hdata as [|? ? Hd1 Hd']; subst.
          pose proof (iok_tail _ _ _ _ Hok) as Hok'.
          destruct (read_step_s src memo slices fails snap off w (hd_error rest) st s) as [[st1 fl] s1] eqn:E1.
          destruct (read_step_s_ok _ _ _ _ _ _ _ _ Hinv E1) as [H1 H2].
          destruct (read_step_spec w rest st Hok Hend1 Hd1 Hr Hrem Hrest) as [S1 S2].
          destruct fl.
          * rewrite H2 in S1, S2. simpl in S1, S2. eapply IH; eauto.
          * rewrite H2 in S1. simpl in S1. inversion E; subst; auto.
          * inversion E; subst. destruct H2 as [_ [H2 | [H2 [H3 H4]]]]; subst; auto.
            destruct (gap_step src V fs buf0 off w rest st Hok Hend1 Hr Hrem Hrest H3) as [G1 _]. exact G1.
    Qed.

  End Prefix.
End Sim.

Theorem read_at_s_sim : forall src memo slices fails V fs buf off s, ra_inv src s ->
  let r := fst (read_at_s src memo slices fails V fs buf off s) in
  ra_inv src (snd (read_at_s src memo slices fails V fs buf off s)) /\
  (rs_err r = false ->
     rs_buf r = rr_buf (read_at src V fs buf off) /\ rs_n r = rr_n (read_at src V fs buf off) /\
     rs_eof r = rr_eof (read_at src V fs buf off)) /\
  (rs_err r = true -> exists w, In w V /\ fails (cv_fid w) = true).
Proof.
  intros src memo slices fails V fs buf off s Hinv. unfold read_at_s, read_at.
  set (st0 := {| r_buf := buf; r_start := off; r_rem := N.of_nat (length buf); r_n := 0 |}).
  destruct (read_loop_s src memo slices fails (ra_cache s) off V st0 s) as [[st err] s1] eqn:E.
  destruct (read_loop_s_sim _ _ _ _ _ _ _ _ _ _ _ _ Hinv E) as [A [B C]].
  destruct err; simpl.
  - repeat split; auto; discriminate.
  - rewrite <- (B eq_refl). repeat split; auto; try discriminate.
Qed.

(* ---- a call that fails: what was delivered before the failing fetch is right, nothing else is touched ---- *)
Theorem read_at_s_error_prefix : forall src memo slices fails V fs buf0 off s, ra_inv src s ->
  views_ok V -> Forall (fun w => cv_end w <= fs) V ->
  Forall (fun w => cv_off w + cv_size w <= N.of_nat (length (src (cv_fid w)))) V ->
  let r := fst (read_at_s src memo slices fails V fs buf0 off s) in
  rs_err r = true ->
  rs_eof r = false /\ length (rs_buf r) = length buf0 /\
  rs_n r <= N.min (N.of_nat (length buf0)) (fs - off) /\
  forall i, (i < length buf0)%nat ->
    nth i (rs_buf r) 0 = if N.of_nat i <? rs_n r then spec src V (off + N.of_nat i) else nth i buf0 0.
Proof.
  intros src memo slices fails V fs buf0 off s Hinv Hok Hend Hdata. unfold read_at_s.
  set (st0 := {| r_buf := buf0; r_start := off; r_rem := N.of_nat (length buf0); r_n := 0 |}).
  assert (Hinv0 : rinv src V fs buf0 off st0).
  { subst st0. unfold rinv. cbn [r_buf r_start r_rem r_n]. repeat split; auto; try lia.
    intros i Hi. replace (N.of_nat i <? 0) with false by lia. reflexivity. }
  assert (Hrest0 : rest_ok V st0 V) by (intros H q Hq; reflexivity).
  destruct (read_loop_s src memo slices fails (ra_cache s) off V st0 s) as [[st err] s1] eqn:E.
  pose proof (read_loop_s_rinv _ _ _ _ _ _ _ _ _ _ _ _ _ _ _ Hinv Hok Hend Hdata Hinv0 Hrest0 E) as [I1 [I2 [I3 [I4 I5]]]].
  destruct err; simpl; [|discriminate]. intros _. repeat split; auto. lia.
Qed.


(* ================================================================== *)
(* whole sequences                                                     *)
(* ================================================================== *)
Lemma fails_of_false : forall l f, fails_of l f = false <-> ~ In f l.
Proof.
  intros l f. unfold fails_of. split.
  - intros H Hin. assert (existsb (N.eqb f) l = true) by (apply existsb_exists; exists f; split; auto; apply N.eqb_refl).
    congruence.
  - intros H. destruct (existsb (N.eqb f) l) eqn:E; auto. apply existsb_exists in E.
    destruct E as [x [Hx Ex]]. apply N.eqb_eq in Ex. subst. contradiction.
Qed.

(* the cache invariant holds before every call of every sequence, whatever failed before *)
Fixpoint ra_states (src : chunk_source) (memo slices : bool) (views : list chunk_view) (file_size : N)
    (ops : list ra_op) (s : ra_state) : list ra_state :=
  match ops with
  | [] => [s]
  | o :: r =>
      let s0 := if op_close o then ra_close s else s in
      s :: ra_states src memo slices views file_size r
             (snd (read_at_s src memo slices (fails_of (op_failing o)) views file_size (op_buf o) (op_off o) s0))
  end.

Theorem ra_states_inv : forall src memo slices V fs ops s, ra_inv src s ->
  Forall (ra_inv src) (ra_states src memo slices V fs ops s).
Proof.
  induction ops as [|o r IH]; intros s Hs; simpl; constructor; auto.
  apply IH. apply read_at_s_sim. destruct (op_close o); auto. apply ra_inv_close.
Qed.

(* view level: every call of every sequence *)
Definition call_spec_views (src : chunk_source) (V : list chunk_view) (fs : N) (o : ra_op) (r : ra_res) : Prop :=
  let buf := op_buf o in
  let off := op_off o in
  let len := N.of_nat (length buf) in
  length (rs_buf r) = length buf /\
  (forall i, (i < length buf)%nat ->
     nth i (rs_buf r) 0 = if N.of_nat i <? rs_n r then spec src V (off + N.of_nat i) else nth i buf 0) /\
  (if rs_err r
   then rs_n r <= N.min len (fs - off) /\ rs_eof r = false /\ exists w, In w V /\ In (cv_fid w) (op_failing o)
   else rs_n r = N.min len (fs - off) /\ rs_eof r = (fs <=? off + len) /\
        rs_buf r = rr_buf (read_at src V fs buf off)).

Theorem ra_run_views : forall src memo slices V fs,
  views_ok V -> Forall (fun w => cv_end w <= fs) V ->
  Forall (fun w => cv_off w + cv_size w <= N.of_nat (length (src (cv_fid w)))) V ->
  forall ops s, ra_inv src s ->
  Forall2 (call_spec_views src V fs) ops (ra_run src memo slices V fs ops s).
Proof.
  intros src memo slices V fs Hok Hend Hdata. induction ops as [|o r IH]; intros s Hs; simpl.
  - constructor.
  - set (s0 := if op_close o then ra_close s else s).
    assert (Hs0 : ra_inv src s0) by (subst s0; destruct (op_close o); auto; apply ra_inv_close).
    pose proof (read_at_s_sim src memo slices (fails_of (op_failing o)) V fs (op_buf o) (op_off o) s0 Hs0) as Sim.
    pose proof (read_at_s_error_prefix src memo slices (fails_of (op_failing o)) V fs (op_buf o) (op_off o) s0 Hs0 Hok Hend Hdata) as Pre.
    destruct (read_at_s src memo slices (fails_of (op_failing o)) V fs (op_buf o) (op_off o) s0) as [res s1] eqn:E.
    cbv zeta in Sim, Pre. simpl in Sim, Pre. destruct Sim as [A [B C]].
    constructor; [|apply IH; exact A].
    unfold call_spec_views. cbv zeta.
    destruct (rs_err res) eqn:Eerr.
    + destruct (Pre eq_refl) as [P1 [P2 [P3 P4]]]. destruct (C eq_refl) as [w [Hw Hf]].
      repeat split; auto. exists w. split; auto.
      destruct (fails_of (op_failing o) (cv_fid w)) eqn:Ef; [|discriminate].
      unfold fails_of in Ef. apply existsb_exists in Ef. destruct Ef as [x [Hx Ex]]. apply N.eqb_eq in Ex. subst. exact Hx.
    + destruct (B eq_refl) as [B1 [B2 B3]].
      pose proof (read_at_views src V fs (op_buf o) (op_off o) Hok Hend Hdata) as R. cbv zeta in R.
      destruct R as [Rn [Rl [Re Rb]]]. rewrite B1, B2, B3. repeat split; auto.
Qed.

(* chunk level: the views of the whole file, the overlay of the resolved data chunks *)
Lemma views_of_chunks_facts : forall (src : chunk_source) fuel ms chunks d m fs,
  resolve fuel ms 0 max_int64 chunks = Some (d, m) -> NoDup (map key d) ->
  (forall c, In c d -> N.of_nat (length (src (c_fid c))) = c_size c) ->
  (forall c, In c d -> c_stop c <= fs) -> fs <= max_int64 ->
  let V := view_from_chunks fuel ms chunks 0 max_int64 in
  views_ok V /\
  (forall p, p < max_int64 -> src_of_views V p = overlay_src d p) /\
  (forall w, In w V -> cv_end w <= fs /\ cv_off w + cv_size w <= N.of_nat (length (src (cv_fid w))) /\
                       exists c, In c d /\ c_fid c = cv_fid w).
Proof.
  intros src fuel ms chunks d m fs Hres Hn Hlen Hfs Hmax.
  unfold view_from_chunks. change (0 + max_int64) with max_int64.
  set (vs := fst (non_overlapping_visible_intervals fuel ms chunks 0 max_int64)).
  assert (Hvok : vis_ok vs) by (eapply non_overlapping_ok; eauto).
  assert (Hsrc : forall p, src_of_visibles vs p = overlay_src d p)
    by (eapply non_overlapping_overlay; eauto).
  set (V := view_from_visibles vs 0 max_int64). cbv zeta.
  assert (HV : views_ok V) by (apply views_ok_of; auto).
  assert (HVsrc : forall p, p < max_int64 -> src_of_views V p = overlay_src d p).
  { intros p Hp. unfold V. rewrite views_src; auto. rewrite Hsrc.
    replace ((0 <=? p) && (p <? 0 + max_int64)) with true by lia. reflexivity. }
  split; auto. split; auto.
  intros w Hw. destruct HV as [HVs HVf]. rewrite Forall_forall in HVf. pose proof (HVf w Hw) as Hne.
  assert (Hbound : cv_end w <= max_int64).
  { unfold V, view_from_visibles in Hw. apply in_flat_map in Hw. destruct Hw as [v [_ Hw]].
    apply view_of_in in Hw. lia. }
  set (q := cv_end w - 1).
  assert (Hcov : cvcovers w q = true) by (unfold cvcovers, q, cv_end in *; lia).
  pose proof (views_find_unique V w q (conj HVs (proj2 (Forall_forall _ _) HVf)) Hw Hcov) as Hf.
  assert (Hqm : q < max_int64) by (unfold q; lia).
  pose proof (HVsrc q Hqm) as Hq. unfold src_of_views in Hq. rewrite Hf in Hq.
  unfold overlay_src in Hq. destruct (winner d q) as [c|] eqn:Ewin; [|discriminate].
  apply winner_in in Ewin. destruct Ewin as [Ic Cc].
  inversion Hq as [[E1 E2]]. rewrite E1. rewrite (Hlen c Ic). specialize (Hfs c Ic).
  split; [|split; [|exists c; auto]]; unfold covers, c_stop, q, cv_end in *; lia.
Qed.

Lemma Forall2_weaken : forall {A B} (P Q : A -> B -> Prop), (forall a b, P a b -> Q a b) ->
  forall l l', Forall2 P l l' -> Forall2 Q l l'.
Proof. intros A B P Q H l l' F. induction F; constructor; auto. Qed.

Definition call_spec (src : chunk_source) (d : list chunk) (fs : N) (o : ra_op) (r : ra_res) : Prop :=
  let buf := op_buf o in
  let off := op_off o in
  let len := N.of_nat (length buf) in
  length (rs_buf r) = length buf /\
  (forall i, (i < length buf)%nat ->
     nth i (rs_buf r) 0 = if N.of_nat i <? rs_n r then overlay src d (off + N.of_nat i) else nth i buf 0) /\
  (if rs_err r
   then rs_n r <= N.min len (fs - off) /\ rs_eof r = false /\ exists c, In c d /\ In (c_fid c) (op_failing o)
   else rs_n r = N.min len (fs - off) /\ rs_eof r = (fs <=? off + len)).

Theorem read_seq_chunks : forall src memo slices fuel ms chunks d m fs,
  resolve fuel ms 0 max_int64 chunks = Some (d, m) -> NoDup (map key d) ->
  (forall c, In c d -> N.of_nat (length (src (c_fid c))) = c_size c) ->
  (forall c, In c d -> c_stop c <= fs) -> fs <= max_int64 ->
  forall ops s, ra_inv src s ->
  Forall2 (call_spec src d fs) ops
          (ra_run src memo slices (view_from_chunks fuel ms chunks 0 max_int64) fs ops s).
Proof.
  intros src memo slices fuel ms chunks d m fs Hres Hn Hlen Hfs Hmax ops s Hs.
  destruct (views_of_chunks_facts src fuel ms chunks d m fs Hres Hn Hlen Hfs Hmax) as [HV [HVsrc Hview]].
  set (V := view_from_chunks fuel ms chunks 0 max_int64) in *.
  assert (R1 : Forall (fun w => cv_end w <= fs) V) by (apply Forall_forall; intros w Hw; apply Hview; auto).
  assert (R2 : Forall (fun w => cv_off w + cv_size w <= N.of_nat (length (src (cv_fid w)))) V)
    by (apply Forall_forall; intros w Hw; apply Hview; auto).
  pose proof (ra_run_views src memo slices V fs HV R1 R2 ops s Hs) as F.
  eapply Forall2_weaken; [|exact F].
  intros o r [C1 [C2 C3]]. unfold call_spec. cbv zeta in *. split; auto. split.
  - intros i Hi. rewrite (C2 i Hi). destruct (N.of_nat i <? rs_n r) eqn:E; auto.
    unfold spec, overlay. rewrite HVsrc; auto.
    assert (rs_n r <= N.min (N.of_nat (length (op_buf o))) (fs - op_off o)).
    { destruct (rs_err r); destruct C3 as [C3 _]; lia. }
    lia.
  - destruct (rs_err r).
    + destruct C3 as [C3 [C4 [w [Hw Hf]]]]. repeat split; auto.
      destruct (Hview w Hw) as [_ [_ [c [Ic Ec]]]]. exists c. rewrite Ec. auto.
    + destruct C3 as [C3 [C4 _]]. auto.
Qed.

(* the non-vacuity example: chunk 1 = [0,2), chunk 2 = [5,7) of a 9-byte file, no chunk cache;
   read chunk 2, fail the fetch of chunk 1, retry, read everything while chunk 2's fetch fails
   (chunk 2 is not the last chunk read any more), retry *)
Definition seq_example_src : chunk_source := fun f => match f with 1 => [11;12] | 2 => [21;22] | _ => [] end.
Definition seq_example_chunks := [Chunk 1 0 2 1 false; Chunk 2 5 2 2 false].
Definition seq_example_ops :=
  [RaOp false [] (repeat 238 2) 5; RaOp false [1] (repeat 238 2) 0; RaOp false [] (repeat 238 2) 0;
   RaOp false [2] (repeat 238 9) 0; RaOp false [] (repeat 238 9) 0].
Lemma seq_example :
  ra_run seq_example_src false false (view_from_chunks 1 [] seq_example_chunks 0 max_int64) 9 seq_example_ops ra_new =
  [ {| rs_buf := [21;22]; rs_n := 2; rs_eof := false; rs_err := false |};
    {| rs_buf := [238;238]; rs_n := 0; rs_eof := false; rs_err := true |};
    {| rs_buf := [11;12]; rs_n := 2; rs_eof := false; rs_err := false |};
    {| rs_buf := [11;12;0;0;0;238;238;238;238]; rs_n := 5; rs_eof := false; rs_err := true |};
    {| rs_buf := [11;12;0;0;0;21;22;0;0]; rs_n := 9; rs_eof := true; rs_err := false |} ].
Proof. vm_compute. reflexivity. Qed.
