(* Proofs about model/Volume.v (C01). *)
From Coq Require Import List NArith ZArith Bool Lia.
From SW Require Import model.Volume.
Import ListNotations.
Local Open Scope N_scope.

(* ---------- small facts ---------- *)
Lemma bytes_eqb_eq : forall a b, bytes_eqb a b = true <-> a = b.
Proof.
  induction a as [|x a IH]; destruct b as [|y b]; simpl; split; intro H; try discriminate; auto.
  - apply andb_true_iff in H. destruct H as [H1 H2]. apply N.eqb_eq in H1. apply IH in H2. subst. reflexivity.
  - inversion H; subst. rewrite N.eqb_refl. simpl. apply IH. reflexivity.
Qed.

Lemma bytes_eqb_refl : forall a, bytes_eqb a a = true.
Proof. intro a. apply bytes_eqb_eq. reflexivity. Qed.

Lemma pair_eqb_eq : forall a b, pair_eqb a b = true <-> a = b.
Proof.
  intros [a1 a2] [b1 b2]. unfold pair_eqb. simpl. rewrite andb_true_iff, !N.eqb_eq.
  split; [intros [-> ->]; reflexivity | intro H; inversion H; auto].
Qed.

Lemma view_eqb_eq : forall a b, view_eqb a b = true <-> a = b.
Proof.
  intros a b. unfold view_eqb. rewrite !andb_true_iff, !N.eqb_eq, !bytes_eqb_eq, pair_eqb_eq.
  destruct a, b; simpl. split.
  - intros [[[[[[[[H1 H2] H3] H4] H5] H6] H7] H8] H9]. subst. reflexivity.
  - intro H. inversion H; subst. repeat split; reflexivity.
Qed.

Lemma hview_eqb_refl : forall a, hview_eqb a a = true.
Proof.
  intro a. unfold hview_eqb. rewrite !bytes_eqb_refl, N.eqb_refl. simpl. destruct (h_gzip a); reflexivity.
Qed.

Lemma view_eqb_refl : forall a, view_eqb a a = true.
Proof. intro a. apply view_eqb_eq. reflexivity. Qed.

Lemma nm_get_same : forall m k v, nm_get ((k, v) :: m) k = Some v.
Proof. intros. simpl. rewrite N.eqb_refl. reflexivity. Qed.
Lemma nm_get_other : forall m k k' v, k' <> k -> nm_get ((k', v) :: m) k = nm_get m k.
Proof. intros m k k' v H. simpl. apply N.eqb_neq in H. rewrite H. reflexivity. Qed.
Lemma s_get_same : forall m k v, s_get ((k, v) :: m) k = Some v.
Proof. intros. simpl. rewrite N.eqb_refl. reflexivity. Qed.
Lemma s_get_other : forall m k k' v, k' <> k -> s_get ((k', v) :: m) k = s_get m k.
Proof. intros m k k' v H. simpl. apply N.eqb_neq in H. rewrite H. reflexivity. Qed.

Lemma actual_size_pos : forall s, 0 < actual_size s.
Proof. intro s. unfold actual_size. lia. Qed.

(* a representable needle reads back in full *)
Lemma blen_lt_firstn : forall (l : bytes), blen l <? 256 = true -> firstn 255 l = l.
Proof.
  intros l H. apply firstn_all2. unfold blen in H. apply N.ltb_lt in H. lia.
Qed.

Lemma wf_view : forall n, wf_needle n = true -> view_of n = exp_view n.
Proof.
  intros n H. unfold wf_needle in H. apply andb_true_iff in H. destruct H as [H _].
  apply andb_true_iff in H. destruct H as [H _].
  apply andb_true_iff in H. destruct H as [H H3].
  apply andb_true_iff in H. destruct H as [_ H2].
  unfold view_of, exp_view, stored_name. rewrite (blen_lt_firstn _ H2).
  apply N.ltb_lt in H3. rewrite (N.mod_small _ _ H3). reflexivity.
Qed.

Lemma needle_size_pos : forall n, blen (n_data n) =? 0 = false -> 0 < needle_size n.
Proof.
  intros n H. unfold needle_size. apply N.eqb_neq in H.
  destruct (0 <? blen (n_data n)) eqn:E; [lia | apply N.ltb_ge in E; lia].
Qed.

Lemma view_expired_exp : forall n a now,
  view_expired (exp_view n) a now =
  expirable n && negb (now <? a + ttl_minutes (v_ttl (exp_view n)) * 60000000000).
Proof.
  intros. unfold view_expired, expirable.
  destruct (has_ttl (v_flags (exp_view n))), (negb (ttl_minutes (v_ttl (exp_view n)) =? 0)),
    (has_lastmod (v_flags (exp_view n))); reflexivity.
Qed.

(* ---------- the invariant tying the volume to the specification ---------- *)
Definition R_entry (st : vol) (seen : list needle) (id : N) (oe : option sentry) : Prop :=
  match oe with
  | None => nm_get (nm st) id = None
  | Some e =>
      match s_live e with
      | Some (n, t) =>
          exists off r,
            nm_get (nm st) id = Some {| nv_off := off; nv_size := Z.of_N (r_size r) |} /\
            find_rec (recs st) off = Some r /\ off <> 0 /\ 0 < r_size r /\
            view_of (r_n r) = exp_view n /\
            n_cookie n = s_cookie e /\ n_id n = id /\
            (expirable n = true -> r_at r = t) /\ In n seen
      | None =>
          exists off sz r,
            nm_get (nm st) id = Some {| nv_off := off; nv_size := sz |} /\ (sz < 0)%Z /\
            find_rec (recs st) off = Some r /\ off <> 0 /\ n_cookie (r_n r) = s_cookie e
      end
  end.

Definition R (st : vol) (sp : spec) (seen : list needle) : Prop :=
  no_write_or_delete st = s_nwod sp /\ no_write_can_delete st = s_nwcd sp /\
  0 < dat_end st /\
  (forall off r, find_rec (recs st) off = Some r -> off < dat_end st) /\
  (forall id, R_entry st seen id (s_get (s_map sp) id)).

Lemma R_init : R init spec_init [].
Proof.
  unfold R, init, spec_init. simpl. repeat split; try reflexivity; try lia.
  intros off r H. discriminate.
Qed.

Lemma R_entry_frame : forall st st' seen seen' id oe,
  R_entry st seen id oe ->
  nm_get (nm st') id = nm_get (nm st) id ->
  (forall off r, find_rec (recs st) off = Some r -> find_rec (recs st') off = Some r) ->
  incl seen seen' ->
  R_entry st' seen' id oe.
Proof.
  intros st st' seen seen' id oe H Hnm Hrec Hincl. unfold R_entry in *.
  destruct oe as [e|]; [|congruence].
  destruct (s_live e) as [[n t]|].
  - destruct H as (off & r & H1 & H2 & H3 & H4 & H5 & H6 & H7 & H8 & H9).
    exists off, r. rewrite Hnm. repeat split; auto.
  - destruct H as (off & sz & r & H1 & H2 & H3 & H4 & H5).
    exists off, sz, r. rewrite Hnm. repeat split; auto.
Qed.

Lemma R_seen : forall st sp seen seen', R st sp seen -> incl seen seen' -> R st sp seen'.
Proof.
  intros st sp seen seen' (H1 & H2 & H3 & H4 & H5) Hi. repeat split; auto.
  intro id. eapply R_entry_frame; eauto.
Qed.

(* looking a record up after an append *)
Lemma find_rec_append : forall st n t off r,
  (forall off r, find_rec (recs st) off = Some r -> off < dat_end st) ->
  find_rec (recs st) off = Some r ->
  find_rec (recs (fst (fst (append st n t)))) off = Some r.
Proof.
  intros st n t off r Hb H. unfold append. cbn [fst recs find_rec r_off].
  specialize (Hb _ _ H). destruct (dat_end st =? off) eqn:E; [apply N.eqb_eq in E; lia | exact H].
Qed.

Lemma find_rec_append_bound : forall st n t off r,
  (forall off r, find_rec (recs st) off = Some r -> off < dat_end st) ->
  find_rec (recs (fst (fst (append st n t)))) off = Some r ->
  off < dat_end (fst (fst (append st n t))).
Proof.
  intros st n t off r Hb H. unfold append in *. cbn [fst recs find_rec r_off dat_end] in *.
  pose proof (actual_size_pos (needle_size n)).
  destruct (dat_end st =? off) eqn:E.
  - apply N.eqb_eq in E. lia.
  - specialize (Hb _ _ H). lia.
Qed.

(* ---------- reads ---------- *)
Lemma read_spec : forall st sp seen id c now,
  R st sp seen ->
  match s_lookup sp id now with
  | Some (c', n) =>
      c' = n_cookie n /\
      store_read st id c false now = (ENone, Z.of_N (blen (n_data n)), exp_view n)
  | None =>
      exists e v, (e = ENotFound \/ e = EDeleted) /\
                store_read st id c false now = (e, (-1)%Z, v)
  end.
Proof.
  intros st sp seen id c now (_ & _ & _ & _ & HR). specialize (HR id).
  unfold s_lookup, R_entry in *. destruct (s_get (s_map sp) id) as [e|].
  - destruct (s_live e) as [[n t]|].
    + destruct HR as (off & r & H1 & H2 & H3 & H4 & H5 & H6 & H7 & H8 & H9).
      assert (Hv : view_of_rec r = exp_view n).
      { unfold view_of_rec. apply N.ltb_lt in H4. rewrite H4. exact H5. }
      assert (Hexp : view_expired (exp_view n) (r_at r) now = view_expired (exp_view n) t now).
      { rewrite !view_expired_exp. destruct (expirable n) eqn:E; [rewrite (H8 eq_refl); reflexivity | reflexivity]. }
      assert (Hrd : store_read st id c false now =
                    if view_expired (exp_view n) t now then (ENotFound, (-1)%Z, exp_view n)
                    else (ENone, Z.of_N (blen (n_data n)), exp_view n)).
      { unfold store_read. rewrite H1. cbn [nv_off nv_size].
        apply N.eqb_neq in H3. rewrite H3.
        assert (Hd : size_deleted (Z.of_N (r_size r)) = false).
        { unfold size_deleted. apply orb_false_iff. split; [apply Z.ltb_ge; lia | apply Z.eqb_neq; lia]. }
        rewrite Hd.
        assert (Hz : (Z.of_N (r_size r) =? 0)%Z = false) by (apply Z.eqb_neq; lia).
        rewrite Hz. unfold read_data. rewrite H2. rewrite Z.eqb_refl. rewrite Hv, Hexp.
        destruct (view_expired (exp_view n) t now); reflexivity. }
      destruct (view_expired (exp_view n) t now).
      * exists ENotFound, (exp_view n). split; [left; reflexivity | exact Hrd].
      * split; [symmetry; exact H6 | exact Hrd].
    + destruct HR as (off & sz & r & H1 & H2 & H3 & H4 & H5).
      exists EDeleted, (blank_view c). split; [right; reflexivity|].
      unfold store_read. rewrite H1. cbn [nv_off nv_size]. apply N.eqb_neq in H4. rewrite H4.
      assert (Hd : size_deleted sz = true).
      { unfold size_deleted. apply orb_true_iff. left. apply Z.ltb_lt. exact H2. }
      rewrite Hd. reflexivity.
  - exists ENotFound, (blank_view c). split; [left; reflexivity|]. unfold store_read. rewrite HR. reflexivity.
Qed.

(* ---------- deletes ---------- *)
Lemma R_kill_dead : forall st sp seen id e,
  R st sp seen -> s_get (s_map sp) id = Some e -> s_live e = None ->
  R st (with_map sp ((id, {| s_cookie := s_cookie e; s_live := None |}) :: s_map sp)) seen.
Proof.
  intros st sp seen id e (H1 & H2 & H3 & H4 & H5) Hg Hl. repeat split; auto.
  intro id'. cbn [with_map s_map]. destruct (N.eq_dec id id') as [->|Hne].
  - rewrite s_get_same. specialize (H5 id'). rewrite Hg in H5. unfold R_entry in *. rewrite Hl in H5. exact H5.
  - rewrite s_get_other by exact Hne. apply H5.
Qed.

Lemma delete_R : forall st sp seen id c t,
  R st sp seen -> no_write_or_delete st = false ->
  exists st' z, store_delete st id c t = (st', ENone, z) /\ R st' (spec_kill sp id) seen.
Proof.
  intros st sp seen id c t HR Hro. pose proof HR as (H1 & H2 & H3 & H4 & H5).
  unfold store_delete. rewrite Hro. unfold spec_kill. pose proof (H5 id) as He.
  unfold R_entry in He. destruct (s_get (s_map sp) id) as [e|] eqn:Hg.
  - destruct (s_live e) as [[n tw]|] eqn:Hl.
    + destruct He as (off & r & E1 & E2 & E3 & E4 & E5 & E6 & E7 & E8 & E9).
      rewrite E1. cbn [nv_size].
      assert (Hv : size_valid (Z.of_N (r_size r)) = true).
      { unfold size_valid. apply andb_true_iff. split; [apply Z.ltb_lt; lia | apply negb_true_iff, Z.eqb_neq; lia]. }
      rewrite Hv. unfold append. cbn [nm].
      eexists. eexists. split; [reflexivity|].
      set (st1 := {| recs := _ :: recs st; nm := nm st; dat_end := _; no_write_or_delete := _; no_write_can_delete := _ |}).
      assert (Hfr : forall off r, find_rec (recs st) off = Some r -> find_rec (recs st1) off = Some r).
      { intros off' r' Hf. apply (find_rec_append st (tombstone id c) t off' r' H4 Hf). }
      unfold R. cbn [with_nm with_map no_write_or_delete no_write_can_delete dat_end recs nm s_nwod s_nwcd s_map st1].
      repeat split; auto.
      * pose proof (actual_size_pos (needle_size (tombstone id c))). lia.
      * intros off' r' Hf. apply (find_rec_append_bound st (tombstone id c) t off' r' H4 Hf).
      * intro id'. unfold nm_delete. rewrite E1. cbn [nv_size nv_off]. rewrite Hv.
        destruct (N.eq_dec id id') as [<-|Hne].
        -- rewrite s_get_same. unfold R_entry. cbn [s_live s_cookie nm recs with_nm].
           exists off, (- Z.of_N (r_size r))%Z, r. rewrite nm_get_same.
           repeat split; auto; try lia.
           rewrite <- E6. change (n_cookie (r_n r)) with (v_cookie (view_of (r_n r))). rewrite E5. reflexivity.
        -- rewrite s_get_other by exact Hne.
           eapply R_entry_frame; [apply (H5 id') | | exact Hfr | apply incl_refl].
           cbn [nm with_nm]. rewrite nm_get_other by exact Hne. reflexivity.
    + destruct He as (off & sz & r & E1 & E2 & E3 & E4 & E5).
      rewrite E1. cbn [nv_size].
      assert (Hv : size_valid sz = false).
      { unfold size_valid. apply andb_false_iff. left. apply Z.ltb_ge. lia. }
      rewrite Hv. eexists. eexists. split; [reflexivity|]. eapply R_kill_dead; eauto.
  - rewrite He. eexists. eexists. split; [reflexivity | exact HR].
Qed.

(* ---------- writes ---------- *)
Definition fresh (seen : list needle) (n : needle) : Prop := existsb (conflicts n) seen = false.

Lemma fresh_not_conflict : forall seen n n0, fresh seen n -> In n0 seen -> conflicts n n0 = false.
Proof.
  intros seen n n0 Hf Hi. unfold fresh in Hf.
  destruct (conflicts n n0) eqn:E; [|reflexivity].
  assert (existsb (conflicts n) seen = true) by (apply existsb_exists; exists n0; auto). congruence.
Qed.

(* the state after an append that also updates the needle map *)
Lemma R_after_append : forall st sp seen n t,
  R st sp seen ->
  wf_needle n = true -> blen (n_data n) =? 0 = false ->
  (forall nv, nm_get (nm st) (n_id n) = Some nv -> nv_off nv < dat_end st) ->
  let st1 := fst (fst (append st n t)) in
  R (with_nm st1 (nm_set (nm st1) (n_id n) {| nv_off := dat_end st; nv_size := Z.of_N (needle_size n) |}))
    (with_map sp ((n_id n, {| s_cookie := n_cookie n; s_live := Some (n, t) |}) :: s_map sp))
    (n :: seen).
Proof.
  intros st sp seen n t (H1 & H2 & H3 & H4 & H5) Hwf Hne Hold st1.
  assert (Hfr : forall off r, find_rec (recs st) off = Some r -> find_rec (recs st1) off = Some r).
  { intros off' r' Hf. apply (find_rec_append st n t off' r' H4 Hf). }
  unfold R. cbn [with_nm with_map no_write_or_delete no_write_can_delete dat_end recs nm s_nwod s_nwcd s_map].
  repeat split.
  - exact H1.
  - exact H2.
  - unfold st1, append. cbn [fst dat_end]. pose proof (actual_size_pos (needle_size n)). lia.
  - intros off' r' Hf. apply (find_rec_append_bound st n t off' r' H4 Hf).
  - intro id'. unfold nm_set. destruct (N.eq_dec (n_id n) id') as [<-|Hneq].
    + rewrite s_get_same. unfold R_entry. cbn [s_live s_cookie nm recs with_nm].
      exists (dat_end st), {| r_off := dat_end st; r_size := needle_size n; r_at := t; r_n := n |}.
      rewrite nm_get_same. cbn [r_size r_n r_at].
      repeat split; auto.
      * unfold st1, append. cbn [fst recs find_rec r_off]. rewrite N.eqb_refl. reflexivity.
      * lia.
      * apply needle_size_pos. exact Hne.
      * apply wf_view. exact Hwf.
      * left. reflexivity.
    + rewrite s_get_other by exact Hneq.
      eapply R_entry_frame; [apply (H5 id') | | exact Hfr | apply incl_tl, incl_refl].
      cbn [nm with_nm]. rewrite nm_get_other by exact Hneq. reflexivity.
Qed.

Lemma write_R : forall st sp seen n t,
  R st sp seen -> wf_needle n = true -> blen (n_data n) =? 0 = false -> fresh seen n ->
  let '(st', w) := store_write st n t in
  let '(sp', eo) := spec_write sp n t in
  match_out eo (OWrite (w_err w) (w_unchanged w) (w_size w)) = true /\
  match_out eo (OPost (post_status w) (w_err w)) = true /\
  R st' sp' (n :: seen).
Proof.
  intros st sp seen n t HR Hwf Hne Hfresh. pose proof HR as (H1 & H2 & H3 & H4 & H5).
  unfold store_write, spec_write, is_read_only. rewrite H1, H2.
  destruct (s_nwod sp || s_nwcd sp) eqn:Hro.
  { cbn [negb andb]. split; [reflexivity|]. split; [reflexivity|]. eapply R_seen; [exact HR | apply incl_tl, incl_refl]. }
  cbn [negb andb].
  pose proof (H5 (n_id n)) as He. unfold R_entry in He.
  unfold do_write, is_file_unchanged.
  destruct (s_get (s_map sp) (n_id n)) as [e|] eqn:Hg.
  - (* the id exists: live or deleted *)
    assert (Hcommon : forall off r, nm_get (nm st) (n_id n) = Some {| nv_off := off; nv_size := Z.of_N (r_size r) |} \/
                                    (exists sz, nm_get (nm st) (n_id n) = Some {| nv_off := off; nv_size := sz |}) ->
              True) by auto.
    destruct (s_live e) as [[n0 t0]|] eqn:Hl.
    + destruct He as (off & r & E1 & E2 & E3 & E4 & E5 & E6 & E7 & E8 & E9).
      rewrite E1. cbn [nv_off nv_size].
      assert (Hoff : (off =? 0) = false) by (apply N.eqb_neq; exact E3).
      assert (Hv : size_valid (Z.of_N (r_size r)) = true).
      { unfold size_valid. apply andb_true_iff. split; [apply Z.ltb_lt; lia | apply negb_true_iff, Z.eqb_neq; lia]. }
      rewrite Hoff, Hv. cbn [negb andb]. unfold read_data. rewrite E2, Z.eqb_refl.
      assert (Hvr : view_of_rec r = exp_view n0).
      { unfold view_of_rec. apply N.ltb_lt in E4. rewrite E4. exact E5. }
      rewrite Hvr. cbn [exp_view v_cookie v_data].
      assert (Hck : n_cookie (r_n r) = n_cookie n0).
      { change (n_cookie (r_n r)) with (v_cookie (view_of (r_n r))). rewrite E5. reflexivity. }
      rewrite Hck, E6.
      destruct ((s_cookie e =? n_cookie n) && bytes_eqb (n_data n0) (n_data n)) eqn:Hun.
      * (* isFileUnchanged *)
        apply andb_true_iff in Hun. destruct Hun as [Hc Hd].
        rewrite Hc. cbn [w_err w_unchanged w_size post_status match_out err_eqb Bool.eqb N.ltb N.compare].
        split; [reflexivity|]. split; [reflexivity|].
        apply N.eqb_eq in Hc. apply bytes_eqb_eq in Hd.
        pose proof (fresh_not_conflict _ _ _ Hfresh E9) as Hcf. unfold conflicts in Hcf.
        assert (Hid : (n_id n =? n_id n0) = true) by (apply N.eqb_eq; congruence).
        assert (Hco : (n_cookie n =? n_cookie n0) = true) by (apply N.eqb_eq; congruence).
        assert (Hda : bytes_eqb (n_data n) (n_data n0) = true) by (apply bytes_eqb_eq; congruence).
        rewrite Hid, Hco, Hda in Hcf. cbn [andb] in Hcf. apply orb_false_iff in Hcf.
        destruct Hcf as [Hve Hex]. apply negb_false_iff, view_eqb_eq in Hve.
        unfold R. cbn [with_map s_nwod s_nwcd s_map]. repeat split; auto.
        intro id'. destruct (N.eq_dec (n_id n) id') as [<-|Hneq].
        -- rewrite s_get_same. unfold R_entry. cbn [s_live s_cookie].
           exists off, r. repeat split; auto.
           ++ rewrite Hve. exact E5.
           ++ intro Hx. congruence.
           ++ left. reflexivity.
        -- rewrite s_get_other by exact Hneq.
           eapply R_entry_frame; [apply (H5 id') | reflexivity | auto | apply incl_tl, incl_refl].
      * destruct (s_cookie e =? n_cookie n) eqn:Hc.
        -- (* overwrite *)
           unfold append at 1. cbn [fst snd].
           assert (Hnew : off <? dat_end st = true) by (apply N.ltb_lt; eapply H4; eauto).
           rewrite Hnew. cbn [w_err w_unchanged w_size post_status match_out err_eqb Bool.eqb N.ltb N.compare].
           split; [reflexivity|]. split; [reflexivity|].
           apply (R_after_append st sp seen n t HR Hwf Hne).
           intros nv Hnv. rewrite E1 in Hnv. inversion Hnv; subst. cbn [nv_off]. eapply H4; eauto.
        -- cbn [w_err w_unchanged w_size post_status match_out err_eqb Bool.eqb N.ltb N.compare].
           split; [reflexivity|]. split; [reflexivity|]. eapply R_seen; [exact HR | apply incl_tl, incl_refl].
    + destruct He as (off & sz & r & E1 & E2 & E3 & E4 & E5).
      rewrite E1. cbn [nv_off nv_size].
      assert (Hv : size_valid sz = false).
      { unfold size_valid. apply andb_false_iff. left. apply Z.ltb_ge. lia. }
      rewrite Hv, andb_false_r. rewrite E3, E5.
      destruct (s_cookie e =? n_cookie n) eqn:Hc.
      * unfold append at 1. cbn [fst snd].
        assert (Hnew : off <? dat_end st = true) by (apply N.ltb_lt; eapply H4; eauto).
        rewrite Hnew. cbn [w_err w_unchanged w_size post_status match_out err_eqb Bool.eqb N.ltb N.compare].
        split; [reflexivity|]. split; [reflexivity|].
        apply (R_after_append st sp seen n t HR Hwf Hne).
        intros nv Hnv. rewrite E1 in Hnv. inversion Hnv; subst. cbn [nv_off]. eapply H4; eauto.
      * cbn [w_err w_unchanged w_size post_status match_out err_eqb Bool.eqb N.ltb N.compare].
        split; [reflexivity|]. split; [reflexivity|]. eapply R_seen; [exact HR | apply incl_tl, incl_refl].
  - (* a new id *)
    rewrite He. unfold append at 1. cbn [fst snd].
    cbn [w_err w_unchanged w_size post_status match_out err_eqb Bool.eqb N.ltb N.compare].
    split; [reflexivity|]. split; [reflexivity|].
    apply (R_after_append st sp seen n t HR Hwf Hne).
    intros nv Hnv. rewrite He in Hnv. discriminate.
Qed.

(* ---------- one step of a history ---------- *)
Definition seen_next (seen : list needle) (ev : event) : list needle :=
  match op_needle (snd ev) with Some n => n :: seen | None => seen end.

Definition ev_ok (seen : list needle) (ev : event) : Prop :=
  wf_event ev = true /\
  match op_needle (snd ev) with
  | Some n => blen (n_data n) =? 0 = false /\ fresh seen n
  | None => True
  end.

Lemma count_nonneg : forall b : bytes, (Z.of_N (blen b) <? 0)%Z = false.
Proof. intro b. apply Z.ltb_ge. lia. Qed.

Lemma R_flags : forall st sp seen a b,
  R st sp seen ->
  R {| recs := recs st; nm := nm st; dat_end := dat_end st; no_write_or_delete := a; no_write_can_delete := b |}
    {| s_map := s_map sp; s_nwod := a; s_nwcd := b |} seen.
Proof.
  intros st sp seen a b (H1 & H2 & H3 & H4 & H5). unfold R. cbn. repeat split; auto.
Qed.

Lemma get_step : forall st sp seen id c t,
  R st sp seen ->
  http_get st id c false t =
  match s_lookup sp id t with
  | Some (c', n) => if c' =? c then (200, hproj (exp_view n)) else (404, blank_hview)
  | None => (404, blank_hview)
  end.
Proof.
  intros st sp seen id c t HR. pose proof (read_spec st sp seen id c t HR) as RS.
  unfold http_get. destruct (s_lookup sp id t) as [[c' n]|].
  - destruct RS as [Hc Hrd]. rewrite Hrd. cbv beta iota. cbn [err_eqb negb orb].
    rewrite count_nonneg. cbn [exp_view v_cookie]. subst c'.
    destruct (n_cookie n =? c); reflexivity.
  - destruct RS as (e & v0 & [He|He] & Hrd); rewrite Hrd; subst e; reflexivity.
Qed.

Lemma del_step : forall st sp seen id c t,
  R st sp seen ->
  let '(st', s, z) := http_delete st id c t in
  let '(sp', eo) := spec_step sp (t, Del id c) in
  match_out eo (ODel s z) = true /\ R st' sp' seen /\ (s <> 202 -> st' = st).
Proof.
  intros st sp seen id c t HR. pose proof (read_spec st sp seen id c t HR) as RS.
  unfold http_delete, spec_step. destruct (s_lookup sp id t) as [[c' n]|].
  - destruct RS as [Hc Hrd]. rewrite Hrd. cbv beta iota. cbn [err_eqb negb].
    cbn [exp_view v_cookie v_size]. subst c'.
    destruct (n_cookie n =? c) eqn:E; cbn [negb].
    + pose proof HR as (H1 & _).
      destruct (s_nwod sp) eqn:Hro.
      * unfold store_delete. rewrite H1. cbv beta iota.
        split; [reflexivity|]. split; [exact HR | reflexivity].
      * destruct (delete_R st sp seen id (n_cookie n) t HR H1) as (st' & z & Hd & HR').
        rewrite Hd. cbv beta iota. split; [reflexivity|]. split; [exact HR' | intro Hx; congruence].
    + split; [reflexivity|]. split; [exact HR | reflexivity].
  - destruct RS as (e & v0 & [He|He] & Hrd); rewrite Hrd; subst e; cbv beta iota; cbn [err_eqb negb];
      (split; [reflexivity|]; split; [exact HR | reflexivity]).
Qed.

Lemma step_R : forall st sp seen ev,
  R st sp seen -> ev_ok seen ev ->
  match_out (snd (spec_step sp ev)) (snd (step st ev)) = true /\
  R (fst (step st ev)) (fst (spec_step sp ev)) (seen_next seen ev).
Proof.
  intros st sp seen [t o] HR [Hwf Hok]. unfold seen_next, wf_event in *. cbn [snd] in *.
  destruct o as [n|u|id c rd|id c|id c rd|id c|b|b]; cbn [op_needle] in *.
  - destruct Hok as [Hne Hf]. pose proof (write_R st sp seen n t HR Hwf Hne Hf) as W.
    unfold step, spec_step. destruct (store_write st n t) as [st' w]. destruct (spec_write sp n t) as [sp' eo].
    destruct W as (W1 & W2 & W3). split; assumption.
  - destruct Hok as [Hne Hf]. pose proof (write_R st sp seen (needle_of_upload u) t HR Hwf Hne Hf) as W.
    unfold step, spec_step. destruct (store_write st (needle_of_upload u) t) as [st' w].
    destruct (spec_write sp (needle_of_upload u) t) as [sp' eo].
    destruct W as (W1 & W2 & W3). split; assumption.
  - unfold step, spec_step. destruct rd.
    + destruct (http_get st id c true t). split; [reflexivity | exact HR].
    + rewrite (get_step st sp seen id c t HR). destruct (s_lookup sp id t) as [[c' n]|].
      * destruct (c' =? c); cbn [fst snd match_out]; rewrite hview_eqb_refl; split; try reflexivity; exact HR.
      * cbn [fst snd match_out]. split; [reflexivity | exact HR].
  - pose proof (del_step st sp seen id c t HR) as D. unfold step.
    destruct (http_delete st id c t) as [[st' s] z]. destruct (spec_step sp (t, Del id c)) as [sp' eo].
    destruct D as (D1 & D2 & _). split; assumption.
  - unfold step, spec_step. destruct rd.
    + destruct (store_read st id c true t) as [[e cnt] v]. split; [reflexivity | exact HR].
    + pose proof (read_spec st sp seen id c t HR) as RS. destruct (s_lookup sp id t) as [[c' n]|].
      * destruct RS as [_ Hrd]. rewrite Hrd. cbn [fst snd match_out err_eqb andb].
        rewrite Z.eqb_refl, view_eqb_refl. split; [reflexivity | exact HR].
      * destruct RS as (e & v0 & [He|He] & Hrd); rewrite Hrd; subst e; (split; [reflexivity | exact HR]).
  - unfold step, spec_step. pose proof HR as (H1 & _). destruct (s_nwod sp) eqn:Hro.
    + unfold store_delete. rewrite H1. split; [reflexivity | exact HR].
    + destruct (delete_R st sp seen id c t HR H1) as (st' & z & Hd & HR'). rewrite Hd.
      split; [reflexivity | exact HR'].
  - unfold step, spec_step. cbn [fst snd match_out]. split; [reflexivity|].
    pose proof HR as (_ & H2 & _). rewrite <- H2. apply R_flags. exact HR.
  - unfold step, spec_step. cbn [fst snd match_out]. split; [reflexivity|].
    pose proof HR as (H1 & _). rewrite <- H1. apply R_flags. exact HR.
Qed.

(* ---------- whole histories ---------- *)
Lemma history_split : forall ev h seen,
  wf_history (ev :: h) = true -> empty_payload (ev :: h) = false -> meta_dup seen (ev :: h) = false ->
  ev_ok seen ev /\ wf_history h = true /\ empty_payload h = false /\ meta_dup (seen_next seen ev) h = false.
Proof.
  intros ev h seen Hwf He Hm. unfold wf_history in *. cbn [forallb] in Hwf.
  apply andb_true_iff in Hwf. destruct Hwf as [Hwf1 Hwf2].
  unfold empty_payload in *. cbn [existsb] in He. apply orb_false_iff in He. destruct He as [He1 He2].
  cbn [meta_dup] in Hm. unfold ev_ok, seen_next, fresh.
  destruct (op_needle (snd ev)) as [n|].
  - apply orb_false_iff in Hm. destruct Hm as [Hm1 Hm2]. repeat split; auto.
  - repeat split; auto.
Qed.

Lemma refines_gen : forall h st sp seen,
  R st sp seen -> wf_history h = true -> empty_payload h = false -> meta_dup seen h = false ->
  all2 match_out (spec_run sp h) (run st h) = true.
Proof.
  induction h as [|ev h IH]; intros st sp seen HR Hwf He Hm; [reflexivity|].
  destruct (history_split ev h seen Hwf He Hm) as (Hok & Hwf' & He' & Hm').
  destruct (step_R st sp seen ev HR Hok) as [M HR'].
  cbn [spec_run run]. destruct (spec_step sp ev) as [sp' eo]. destruct (step st ev) as [st' o].
  cbn [fst snd] in *. cbn [all2]. rewrite M. cbn [andb]. eapply IH; eauto.
Qed.

Theorem refines_partial : forall h,
  wf_history h = true -> empty_payload h = false -> meta_dup [] h = false ->
  all2 match_out (spec_run spec_init h) (run init h) = true.
Proof. intros h Hwf He Hm. eapply refines_gen; eauto. apply R_init. Qed.

Fixpoint seen_after (seen : list needle) (h : list event) : list needle :=
  match h with [] => seen | ev :: h' => seen_after (seen_next seen ev) h' end.

Lemma reach_R : forall h st sp seen,
  R st sp seen -> wf_history h = true -> empty_payload h = false -> meta_dup seen h = false ->
  R (state_after st h) (spec_after sp h) (seen_after seen h).
Proof.
  induction h as [|ev h IH]; intros st sp seen HR Hwf He Hm; [exact HR|].
  destruct (history_split ev h seen Hwf He Hm) as (Hok & Hwf' & He' & Hm').
  destruct (step_R st sp seen ev HR Hok) as [_ HR'].
  unfold state_after, spec_after. cbn [fold_left]. apply IH; auto.
Qed.

(* ---------- cookies ---------- *)
Theorem cookie_read_partial : forall h id c t,
  wf_history h = true -> empty_payload h = false -> meta_dup [] h = false ->
  (forall n, s_lookup (spec_after spec_init h) id t <> Some (c, n)) ->
  step (state_after init h) (t, Get id c false) = (state_after init h, OGet 404 blank_hview).
Proof.
  intros h id c t Hwf He Hm Hno.
  pose proof (reach_R h init spec_init [] R_init Hwf He Hm) as HR.
  unfold step. rewrite (get_step _ _ _ id c t HR).
  destruct (s_lookup (spec_after spec_init h) id t) as [[c' n]|]; [|reflexivity].
  destruct (c' =? c) eqn:E; [|reflexivity].
  apply N.eqb_eq in E. subst c'. exfalso. apply (Hno n). reflexivity.
Qed.

Theorem cookie_delete_partial : forall h id c t,
  wf_history h = true -> empty_payload h = false -> meta_dup [] h = false ->
  (forall n, s_lookup (spec_after spec_init h) id t <> Some (c, n)) ->
  exists s, (s = 400 \/ s = 404) /\
    step (state_after init h) (t, Del id c) = (state_after init h, ODel s 0).
Proof.
  intros h id c t Hwf He Hm Hno.
  pose proof (reach_R h init spec_init [] R_init Hwf He Hm) as HR.
  pose proof (read_spec _ _ _ id c t HR) as RS.
  unfold step, http_delete.
  destruct (s_lookup (spec_after spec_init h) id t) as [[c' n]|].
  - destruct RS as [Hc Hrd]. rewrite Hrd. cbv beta iota. cbn [err_eqb negb exp_view v_cookie].
    destruct (n_cookie n =? c) eqn:E.
    + apply N.eqb_eq in E. exfalso. apply (Hno n). congruence.
    + cbn [negb]. exists 400. split; [left; reflexivity | reflexivity].
  - destruct RS as (e & v0 & [E|E] & Hrd); rewrite Hrd; subst e; cbv beta iota; cbn [err_eqb negb];
      exists 404; (split; [right; reflexivity | reflexivity]).
Qed.

(* reads never change the volume, in any state *)
Theorem reads_pure : forall st t id c rd,
  fst (step st (t, Get id c rd)) = st /\ fst (step st (t, RawRead id c rd)) = st.
Proof.
  intros. unfold step. destruct (http_get st id c rd t). destruct (store_read st id c rd t) as [[e cnt] v].
  split; reflexivity.
Qed.

(* ---------- read-only volumes ---------- *)
Theorem readonly_rejects : forall st t,
  is_read_only st = true ->
  (forall n, step st (t, Write n) = (st, OWrite EReadOnly false 0)) /\
  (forall u, step st (t, Post u) = (st, OPost 500 EReadOnly)).
Proof.
  intros st t H. split; intros; unfold step, store_write; rewrite H; reflexivity.
Qed.

(* ---------- the full statements fail: concrete witnesses ---------- *)
Definition mk (id cookie : N) (data : bytes) (flags : N) (name mime : bytes) (lastmod : N) : needle :=
  {| n_id := id; n_cookie := cookie; n_data := data; n_flags := flags; n_name := name; n_mime := mime;
     n_pairs := []; n_lastmod := lastmod; n_ttl := (0, 0) |}.

(* finding 0: an empty blob (cookie 10, name "nm") is served to cookie 11, "deleted" with 202, and still served *)
Definition witness_empty : list event :=
  [(1000, Write (mk 1 10 [] 2 [110; 109] [] 0)); (2000, Get 1 11 false); (3000, Del 1 10); (4000, Get 1 10 false)].

(* finding 1: the same bytes and cookie with another name / mime / last-modified are acknowledged and dropped *)
Definition witness_unchanged : list event :=
  [(1000, Write (mk 4 12 [104; 101; 108; 108; 111] 14 [110; 49] [116; 47; 97] 12345));
   (2000, Write (mk 4 12 [104; 101; 108; 108; 111] 14 [110; 50] [116; 47; 98] 12346));
   (3000, Get 4 12 false)].

Lemma refines_refuted_empty :
  wf_history witness_empty = true /\ meta_dup [] witness_empty = false /\
  empty_payload witness_empty = true /\
  all2 match_out (spec_run spec_init witness_empty) (run init witness_empty) = false /\
  run init witness_empty =
    [OWrite ENone false 0; OGet 200 blank_hview; ODel 202 0; OGet 200 blank_hview].
Proof. vm_compute. repeat split; reflexivity. Qed.

Lemma refines_refuted_unchanged :
  wf_history witness_unchanged = true /\ empty_payload witness_unchanged = false /\
  meta_dup [] witness_unchanged = true /\
  all2 match_out (spec_run spec_init witness_unchanged) (run init witness_unchanged) = false /\
  run init witness_unchanged =
    [OWrite ENone false 22; OWrite ENone true 0;
     OGet 200 {| h_data := [104; 101; 108; 108; 111]; h_name := [110; 49]; h_mime := [116; 47; 97];
                 h_pairs := []; h_lastmod := 12345; h_gzip := false |}].
Proof. vm_compute. repeat split; reflexivity. Qed.

Lemma refuted_empty_ex :
  exists h, wf_history h = true /\ meta_dup [] h = false /\
            all2 match_out (spec_run spec_init h) (run init h) = false.
Proof. exists witness_empty. destruct refines_refuted_empty as (A & B & _ & D & _). auto. Qed.

Lemma refuted_unchanged_ex :
  exists h, wf_history h = true /\ empty_payload h = false /\
            all2 match_out (spec_run spec_init h) (run init h) = false.
Proof. exists witness_unchanged. destruct refines_refuted_unchanged as (A & B & _ & D & _). auto. Qed.

Lemma cookie_read_refuted :
  exists h id c t hv,
    wf_history h = true /\ meta_dup [] h = false /\
    (forall n, s_lookup (spec_after spec_init h) id t <> Some (c, n)) /\
    step (state_after init h) (t, Get id c false) = (state_after init h, OGet 200 hv).
Proof.
  exists [(1000, Write (mk 1 10 [] 2 [110; 109] [] 0))], 1, 11, 2000, blank_hview.
  split; [reflexivity|]. split; [reflexivity|]. split; [|reflexivity].
  intros n H. vm_compute in H. discriminate.
Qed.

Lemma cookie_delete_refuted :
  exists h id c t,
    wf_history h = true /\ meta_dup [] h = false /\
    (forall n, s_lookup (spec_after spec_init h) id t <> Some (c, n)) /\
    snd (step (state_after init h) (t, Del id c)) = ODel 202 0.
Proof.
  exists [(1000, Write (mk 1 10 [] 2 [110; 109] [] 0))], 1, 11, 2000.
  split; [reflexivity|]. split; [reflexivity|]. split; [|reflexivity].
  intros n H. vm_compute in H. discriminate.
Qed.

(* ---------- non-vacuity: a history inside all hypotheses that exercises every path ---------- *)
Definition example_history : list event :=
  [(1000, Write (mk 1 10 [1; 2; 3] 14 [110; 49] [116; 47; 97] 100));
   (2000, Get 1 10 false);
   (3000, Get 1 11 false);                                      (* other cookie *)
   (4000, Write (mk 1 10 [4; 5] 14 [110; 50] [116; 47; 98] 200)); (* overwrite *)
   (5000, Write (mk 1 11 [9] 0 [] [] 0));                       (* overwrite with another cookie: rejected *)
   (6000, RawRead 1 10 false);
   (7000, Del 1 11);                                            (* other cookie: 400 *)
   (8000, Del 1 10);
   (9000, Get 1 10 false);
   (10000, Write (mk 1 10 [4; 5] 14 [110; 50] [116; 47; 98] 200)); (* write again after the delete *)
   (11000, SetNoWriteOrDelete true);
   (12000, Write (mk 2 10 [7] 0 [] [] 0));                      (* read-only: rejected *)
   (13000, Del 1 10);                                           (* read-only: 500 *)
   (14000, Get 1 10 false)].

Lemma example_ok :
  wf_history example_history = true /\ empty_payload example_history = false /\
  meta_dup [] example_history = false /\
  map (fun o => match o with
                | OWrite e _ _ => (0, if err_eqb e ENone then 1 else 0)
                | OGet s _ => (1, s) | ODel s _ => (2, s) | ORead e _ _ => (3, if err_eqb e ENone then 1 else 0)
                | _ => (9, 0) end) (run init example_history) =
  [(0, 1); (1, 200); (1, 404); (0, 1); (0, 0); (3, 1); (2, 400); (2, 202); (1, 404); (0, 1); (9, 0);
   (0, 0); (2, 500); (1, 200)].
Proof. vm_compute. repeat split; reflexivity. Qed.
