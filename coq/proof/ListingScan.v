(* C19 proofs, part 2b: every store call returns the first L candidates and a
   lastFileName from which the rest follows (leveldb rule; generic prefixFilterEntries
   path, including its termination). *)
From Coq Require Import List NArith Bool String Ascii Arith Lia.
From SW Require Import model.Listing proof.ListingBase proof.ListingStore.
Import ListNotations.
Local Open Scope string_scope.
Local Open Scope list_scope.
Local Notation length := List.length.

(* ================= leveldb rule ================= *)
Lemma lvl_list_spec : forall d start incl L p,
  wf d -> lvl_list d start incl L p = firstn L (cand start incl p d).
Proof.
  intros d start incl L p [Hs Hn]. unfold lvl_list, cand.
  set (k := if negb (String.eqb start "") && String.leb p start then start else p).
  assert (Hk : (k = start /\ sle p start) \/ (k = p /\ sle start p)).
  { subst k. destruct (String.eqb_spec start "") as [E|E]; cbn [negb andb].
    - right. split; auto. subst. apply sle_empty.
    - destruct (String.leb p start) eqn:El.
      + left. split; auto. apply leb_sle. auto.
      + right. split; auto. destruct (slt_total start p) as [H|[H|H]]; [left; auto|right; auto|].
        exfalso. assert (Hc : String.leb p start = true) by (apply leb_sle; left; auto). congruence. }
  destruct (seek_spec k d Hs) as [S1 [S2 [S3 S4]]].
  rewrite (S4 (sel start incl p)).
  - apply lvl_iter_spec; auto.
    + intros e He. specialize (S2 e He). destruct Hk as [[Ek Hp]|[Ek Hp]]; rewrite Ek in S2; auto.
      eapply sle_trans; eauto.
    + intros e He. specialize (S2 e He). destruct Hk as [[Ek Hp]|[Ek Hp]]; rewrite Ek in S2; auto.
      eapply sle_trans; eauto.
  - intros e He Hlt. unfold sel. destruct Hk as [[Ek Hp]|[Ek Hp]]; rewrite Ek in Hlt.
    + assert (Ha : after start incl (ename e) = false).
      { apply not_true_iff_false. intro Ha. apply after_sle in Ha. eapply slt_irrefl. eapply sle_slt_trans; eauto. }
      rewrite Ha. reflexivity.
    + destruct (String.prefix p (ename e)) eqn:Ep; [|apply andb_false_r].
      exfalso. apply prefix_sle in Ep. eapply slt_irrefl. eapply sle_slt_trans; eauto.
Qed.

(* ================= what a correct store call looks like ================= *)
(* visited = the first L candidates; continuing after lastFileName (exclusive) on the
   directory without the expired entries just seen yields the remaining candidates *)
Definition scan_ok (d : dirst) (start : string) (incl : bool) (L : nat) (p : string) (w : wres) : Prop :=
  w_vis w = firstn L (cand start incl p d) /\
  (w_last w <> "" -> cand (w_last w) false p (del_expired (w_vis w) d) = skipn L (cand start incl p d)) /\
  (w_last w = "" -> w_vis w = []).

Lemma cand_in : forall start incl p d e, In e (cand start incl p d) -> In e d.
Proof. intros. apply filter_In in H. tauto. Qed.

Lemma firstn_in : forall {A} n (l : list A) x, In x (firstn n l) -> In x l.
Proof. intros A n l x H. rewrite <- (firstn_skipn n l). apply in_or_app. auto. Qed.

Lemma cand_del_above : forall x p v d,
  (forall e, In e v -> sle (ename e) x) -> cand x false p (del_expired v d) = cand x false p d.
Proof.
  intros x p v d Hv. unfold cand. apply (filter_del_expired_above _ _ _ x); auto.
  intros e He. unfold sel in He. apply andb_true_iff in He. destruct He as [He _].
  apply ltb_slt. exact He.
Qed.

Lemma scan_ok_last_visited : forall d start incl L p,
  wf d -> scan_ok d start incl L p
            {| w_vis := firstn L (cand start incl p d);
               w_last := last_name (firstn L (cand start incl p d)) |}.
Proof.
  intros d start incl L p [Hs Hn]. unfold scan_ok. cbn [w_vis w_last].
  split; [reflexivity|]. split.
  - intros Hl.
    assert (Hne : firstn L (cand start incl p d) <> []) by (intro E; rewrite E in Hl; apply Hl; reflexivity).
    rewrite cand_del_above; [apply cand_cont; auto|].
    intros e He. apply sorted_le_last; auto. apply sorted_firstn. apply sorted_filter. auto.
  - intros Hl. apply last_name_nil; auto. intros e He. apply Hn. eapply cand_in. eapply firstn_in. eauto.
Qed.

(* ================= generic path ================= *)
Lemma is_nil_true : forall {A} (l : list A), is_nil l = true -> l = [].
Proof. intros A [|x l] H; [auto|discriminate]. Qed.
Lemma is_nil_false : forall {A} (l : list A), is_nil l = false -> l <> [].
Proof. intros A [|x l] H; [discriminate|congruence]. Qed.

Lemma firstn_nil_inv : forall {A} n (l : list A), firstn n l = [] -> 0 < n -> l = [].
Proof. intros A n l H Hn. destruct n; [lia|]. destruct l; [auto|discriminate]. Qed.

Lemma last_name_cons : forall e l, l <> [] -> last_name (e :: l) = last_name l.
Proof. intros e [|x l] H; [congruence|reflexivity]. Qed.

Lemma cand_as_filter : forall start incl p d,
  cand start incl p d = filter (fun e => String.prefix p (ename e)) (filter (fun e => after start incl (ename e)) d).
Proof. intros. unfold cand, sel. rewrite filter_filter. reflexivity. Qed.

(* one pass over a batch: the first j entries were examined; either the page got full or
   the whole batch was examined *)
Lemma pf_batch_spec : forall p b need last, 1 <= need ->
  exists j, j <= length b /\ (b <> [] -> 1 <= j) /\
    fst (pf_batch p need b last) = filter (fun e => String.prefix p (ename e)) (firstn j b) /\
    snd (pf_batch p need b last) = (if Nat.eqb j 0 then last else last_name (firstn j b)) /\
    (length (fst (pf_batch p need b last)) = need \/
     (j = length b /\ length (fst (pf_batch p need b last)) < need)).
Proof.
  intros p. induction b as [|e b IH]; intros need last Hneed.
  - exists 0. cbn. repeat split; auto; try lia. congruence.
  - cbn [pf_batch]. destruct (String.prefix p (ename e)) eqn:Ep.
    + destruct need as [|[|n]]; [lia| |].
      * exists 1. cbn [firstn filter fst snd length Nat.eqb last_name]. rewrite Ep.
        repeat split; auto; try lia; cbn; lia.
      * destruct (IH (S n) (ename e)) as [j [J1 [J2 [J3 [J4 J5]]]]]; [lia|].
        destruct (pf_batch p (S n) b (ename e)) as [em l] eqn:Eb. cbn [fst snd] in *.
        exists (S j). cbn [firstn filter length Nat.eqb]. rewrite Ep. cbn [length].
        split; [lia|]. split; [intros; lia|]. split; [rewrite J3; reflexivity|]. split.
        -- rewrite J4. destruct j as [|j']; [reflexivity|]. cbn [Nat.eqb].
           rewrite last_name_cons; [reflexivity|]. destruct b; [cbn in J1; lia|discriminate].
        -- destruct J5 as [J5|[J5 J6]]; [left; lia|right; split; lia].
    + destruct (IH need (ename e) Hneed) as [j [J1 [J2 [J3 [J4 J5]]]]].
      exists (S j). cbn [firstn filter length Nat.eqb]. rewrite Ep.
      split; [lia|]. split; [intros; lia|]. split; [exact J3|]. split.
      * rewrite J4. destruct j as [|j']; [reflexivity|]. cbn [Nat.eqb].
        rewrite last_name_cons; [reflexivity|]. destruct b; [cbn in J1; lia|discriminate].
      * destruct J5 as [J5|[J5 J6]]; [left; exact J5|right; split; [lia|exact J6]].
Qed.

Lemma pf_loop_S : forall f d L p last count batch acc,
  pf_loop (S f) d L p last count batch acc =
  if Nat.ltb count L && negb (is_nil batch) then
    if Nat.ltb (count + length (fst (pf_batch p (L - count) batch last))) L then
      pf_loop f (del_expired (fst (pf_batch p (L - count) batch last)) d) L p (snd (pf_batch p (L - count) batch last))
        (count + length (fst (pf_batch p (L - count) batch last)))
        (mem_list (del_expired (fst (pf_batch p (L - count) batch last)) d) (snd (pf_batch p (L - count) batch last)) false L)
        (acc ++ fst (pf_batch p (L - count) batch last))
    else Some (acc ++ fst (pf_batch p (L - count) batch last), snd (pf_batch p (L - count) batch last))
  else Some (acc, last).
Proof. intros. cbn [pf_loop]. destruct (pf_batch p (L - count) batch last). reflexivity. Qed.

Section Generic.
  Variables (d0 : dirst) (start : string) (incl : bool) (L : nat) (p : string).
  Hypothesis Hwf : wf d0.

  Let A := filter (fun e => after start incl (ename e)) d0.
  Let pre := fun e : entry => String.prefix p (ename e).

  Lemma A_sorted : sorted A.
  Proof. apply sorted_filter. apply Hwf. Qed.

  (* after the first k entries of A (k >= 1), on the directory without some expired ones among them *)
  Lemma after_cont : forall k v, 0 < k -> k <= length A ->
    (forall e, In e v -> In e (firstn k A)) ->
    filter (fun e => after (last_name (firstn k A)) false (ename e)) (del_expired v d0) = skipn k A.
  Proof.
    intros k v Hk Hk' Hv.
    assert (Hne : firstn k A <> []).
    { intro E. assert (Hl : length (firstn k A) = 0) by (rewrite E; reflexivity).
      rewrite firstn_length in Hl. lia. }
    rewrite (filter_del_expired_above _ v d0 (last_name (firstn k A))).
    - transitivity (filter (fun e => after (last_name (firstn k A)) false (ename e) && true) d0).
      + apply filter_ext_in_eq. intros. rewrite andb_true_r. reflexivity.
      + apply (sel_cont (fun _ => true) d0 start incl); [apply Hwf| |exact Hne].
        rewrite firstn_skipn. unfold A. apply filter_ext_in_eq. intros. rewrite andb_true_r. reflexivity.
    - intros e He. apply sorted_le_last; [apply sorted_firstn; apply A_sorted|auto].
    - intros e He. apply ltb_slt. exact He.
  Qed.

  Definition gen_inv (d : dirst) (last : string) (count : nat) (batch acc : list entry) (k : nat) : Prop :=
    k <= length A /\
    acc = filter pre (firstn k A) /\ count = length acc /\ count <= L /\
    batch = firstn L (skipn k A) /\
    d = del_expired acc d0 /\
    (k = 0 -> last = last_name (firstn L A)) /\ (0 < k -> last = last_name (firstn k A)).

  Definition gen_final (v : list entry) (last : string) : Prop :=
    exists k, k <= length A /\ v = filter pre (firstn k A) /\
      (k = 0 -> last = "") /\ (0 < k -> last = last_name (firstn k A)) /\
      length v <= L /\ (length v = L \/ skipn k A = []).

  Lemma pf_loop_spec : forall fuel d last count batch acc k,
    gen_inv d last count batch acc k -> length (skipn k A) < fuel ->
    exists v last', pf_loop fuel d L p last count batch acc = Some (v, last') /\ gen_final v last'.
  Proof.
    induction fuel as [|f IH]; intros d last count batch acc k Hinv Hfuel; [lia|].
    destruct Hinv as [G0 [G1 [G2 [G7 [G3 [G4 [G5 G6]]]]]]].
    rewrite pf_loop_S.
    destruct (Nat.ltb count L && negb (is_nil batch)) eqn:C.
    - apply andb_true_iff in C. destruct C as [C1 C2]. apply Nat.ltb_lt in C1.
      apply negb_true_iff in C2. apply is_nil_false in C2.
      destruct (pf_batch_spec p batch (L - count) last) as [j [J1 [J2 [J3 [J4 J5]]]]]; [lia|].
      specialize (J2 C2).
      set (em := fst (pf_batch p (L - count) batch last)) in *.
      set (last' := snd (pf_batch p (L - count) batch last)) in *.
      assert (Hjb : firstn j batch = firstn j (skipn k A)).
      { rewrite G3. rewrite firstn_firstn. f_equal. rewrite G3, firstn_length in J1. lia. }
      assert (Hkj : k + j <= length A).
      { rewrite G3, firstn_length, skipn_length in J1. lia. }
      assert (Hacc' : acc ++ em = filter pre (firstn (k + j) A)).
      { rewrite firstn_add, filter_app, <- G1. f_equal. rewrite J3, Hjb. reflexivity. }
      assert (Hlast' : last' = last_name (firstn (k + j) A)).
      { rewrite J4. destruct (Nat.eqb_spec j 0) as [E|E]; [lia|].
        rewrite Hjb. rewrite firstn_add.
        assert (Hne : firstn j (skipn k A) <> []).
        { intro E0. assert (Hl : length (firstn j (skipn k A)) = 0) by (rewrite E0; reflexivity).
          rewrite firstn_length, skipn_length in Hl. lia. }
        clear - Hne. induction (firstn k A) as [|x l IHl]; [reflexivity|].
        cbn [app]. rewrite last_name_cons; [exact IHl|]. destruct l; [exact Hne|discriminate]. }
      destruct (Nat.ltb (count + length em) L) eqn:C3.
      + (* the whole batch was examined and the page is not full: next batch *)
        apply Nat.ltb_lt in C3.
        destruct J5 as [J5|[J5 J6]]; [lia|].
        apply (IH _ _ _ _ _ (k + j)).
        * unfold gen_inv. split; [exact Hkj|]. split; [exact Hacc'|].
          split; [rewrite app_length; lia|]. split; [lia|].
          split; [|split; [rewrite G4; apply del_expired_app|split; [lia|intros; exact Hlast']]].
          unfold mem_list. f_equal. rewrite G4, del_expired_app, Hlast'.
          apply after_cont; [lia|exact Hkj|].
          intros e He. rewrite Hacc' in He. apply filter_In in He. tauto.
        * rewrite skipn_length. rewrite skipn_length in Hfuel. lia.
      + apply Nat.ltb_ge in C3.
        destruct J5 as [J5|[J5 J6]]; [|lia].
        exists (acc ++ em), last'. split; [reflexivity|].
        exists (k + j). split; [exact Hkj|]. split; [exact Hacc'|]. split; [lia|]. split; [intros; exact Hlast'|].
        rewrite app_length. split; [lia|left; lia].
    - exists acc, last. split; [reflexivity|].
      exists k. split; [exact G0|]. split; [exact G1|].
      apply andb_false_iff in C.
      assert (Hcase : L <= count \/ batch = []).
      { destruct C as [C|C]; [left; apply Nat.ltb_ge; auto|right; apply negb_false_iff in C; apply is_nil_true; auto]. }
      split; [|split; [exact G6|split; [lia|]]].
      + intros Hk0. rewrite (G5 Hk0). subst k. cbn [skipn] in G3.
        destruct Hcase as [Hc|Hc].
        * assert (HL0 : L = 0) by (rewrite G1 in G2; cbn in G2; lia). rewrite HL0. reflexivity.
        * rewrite <- G3, Hc. reflexivity.
      + destruct Hcase as [Hc|Hc]; [left; lia|].
        destruct (Nat.eq_dec L 0) as [E0|E0]; [left; lia|].
        right. rewrite Hc in G3. symmetry in G3. apply firstn_nil_inv in G3; [exact G3|lia].
  Qed.

  Lemma gen_final_scan_ok : forall v last, gen_final v last ->
    scan_ok d0 start incl L p {| w_vis := v; w_last := last |}.
  Proof.
    intros v last [k [K0 [K1 [K2 [K3 [K5 K4]]]]]]. unfold scan_ok. cbn [w_vis w_last].
    assert (Ec : cand start incl p d0 = v ++ filter pre (skipn k A)).
    { rewrite cand_as_filter. fold A. fold pre. rewrite (filter_firstn_skipn pre k A), K1. reflexivity. }
    assert (Hcut : v = firstn L (cand start incl p d0) /\ filter pre (skipn k A) = skipn L (cand start incl p d0)).
    { rewrite Ec. destruct K4 as [K4|K4].
      - rewrite <- K4. rewrite firstn_app, firstn_all, Nat.sub_diag. cbn [firstn]. rewrite app_nil_r.
        rewrite skipn_app, skipn_all, Nat.sub_diag. cbn [skipn app]. auto.
      - rewrite K4. cbn [filter]. rewrite app_nil_r. split; [symmetry; apply firstn_all2; exact K5|].
        symmetry. apply skipn_all2. exact K5. }
    destruct Hcut as [Hc1 Hc2]. split; [exact Hc1|]. split.
    - intros Hl. assert (Hk : 0 < k) by (destruct k; [exfalso; apply Hl; apply K2; reflexivity|lia]).
      rewrite (K3 Hk). rewrite <- Hc2. rewrite cand_as_filter. f_equal.
      apply after_cont; auto. intros e He. rewrite K1 in He. apply filter_In in He. tauto.
    - intros Hl. destruct k as [|k']; [rewrite K1; reflexivity|].
      exfalso. rewrite K3 in Hl by lia.
      apply last_name_nil in Hl.
      + assert (Hlen : length (firstn (S k') A) = 0) by (rewrite Hl; reflexivity).
        rewrite firstn_length in Hlen. lia.
      + intros e He. apply (proj2 Hwf). apply firstn_in in He. apply filter_In in He. tauto.
  Qed.

  Lemma gen_list_spec_p : String.eqb p "" = false ->
    exists w, gen_list d0 start incl L p = Some w /\ scan_ok d0 start incl L p w.
  Proof.
    intros Ep. unfold gen_list. rewrite Ep.
    destruct (pf_loop_spec (S (length d0)) d0 (last_name (mem_list d0 start incl L)) 0 (mem_list d0 start incl L) [] 0)
      as [v [last' [Hpf Hfin]]].
    - unfold gen_inv. cbn [firstn skipn filter length]. repeat split; auto; try lia.
      symmetry. apply del_expired_nil.
    - cbn [skipn]. unfold A. pose proof (length_filter_le (fun e => after start incl (ename e)) d0). lia.
    - rewrite Hpf. eexists. split; [reflexivity|]. apply gen_final_scan_ok. exact Hfin.
  Qed.
End Generic.

Lemma gen_list_spec : forall d start incl L p, wf d ->
  exists w, gen_list d start incl L p = Some w /\ scan_ok d start incl L p w.
Proof.
  intros d start incl L p Hwf. destruct (String.eqb p "") eqn:Ep.
  - apply String.eqb_eq in Ep. subst p. unfold gen_list. cbn [String.eqb].
    eexists. split; [reflexivity|].
    assert (Ec : mem_list d start incl L = firstn L (cand start incl "" d)).
    { unfold mem_list, cand. f_equal. apply filter_ext_in_eq. intros e _. unfold sel.
      destruct (ename e); simpl; rewrite andb_true_r; reflexivity. }
    rewrite Ec. apply scan_ok_last_visited. auto.
  - apply gen_list_spec_p; auto.
Qed.

(* every store call is total and correct *)
Lemma wrapper_list_spec : forall s d start incl L p, wf d ->
  exists w, wrapper_list s d start incl L p = Some w /\ scan_ok d start incl L p w.
Proof.
  intros s d start incl L p Hwf. destruct s; simpl.
  - eexists. split; [reflexivity|]. rewrite (lvl_list_spec d start incl L p Hwf).
    apply scan_ok_last_visited. auto.
  - apply gen_list_spec; auto.
Qed.
